(* Base/ListLemmas.v -- lemmas about the list primitives of Base/ListX.v (vector operations). *)
From Coq Require Import ZArith Lia Bool Arith List ZifyNat ZifyBool Permutation.
From OVM Require Import Base.ListX.
Import ListNotations.
Local Open Scope nat_scope.

Section Gen.
  Context {A : Type}.
  Implicit Types (l : list A) (d x : A) (i j n : nat).

  Lemma upd_length i x l : length (upd i x l) = length l.
  Proof. revert i; induction l as [|h t IH]; intros [|i]; simpl; auto. Qed.

  Lemma nth_upd_eq i x l d : i < length l -> nth i (upd i x l) d = x.
  Proof. revert i; induction l as [|h t IH]; intros [|i] H; simpl in *; try lia; auto. apply IH; lia. Qed.

  Lemma nth_upd_neq i j x l d : i <> j -> nth j (upd i x l) d = nth j l d.
  Proof. revert i j; induction l as [|h t IH]; intros [|i] [|j] H; simpl; auto; try lia. Qed.

  Lemma nth_upd i j x l d : nth j (upd i x l) d = if (i =? j) && (i <? length l) then x else nth j l d.
  Proof.
    destruct (Nat.eqb_spec i j) as [->|N]; simpl.
    - destruct (Nat.ltb_spec j (length l)).
      + apply nth_upd_eq; assumption.
      + rewrite !nth_overflow; auto; rewrite ?upd_length; lia.
    - apply nth_upd_neq; assumption.
  Qed.

  Lemma upd_overflow i x l : length l <= i -> upd i x l = l.
  Proof. revert i; induction l as [|h t IH]; intros [|i] H; simpl in *; auto; try lia. f_equal; apply IH; lia. Qed.

  Lemma upd_same i l d : upd i (nth i l d) l = l.
  Proof. revert i; induction l as [|h t IH]; intros [|i]; simpl; auto. f_equal; apply IH. Qed.

  Lemma upd_upd_same i x y l : upd i x (upd i y l) = upd i x l.
  Proof. revert i; induction l as [|h t IH]; intros [|i]; simpl; auto. f_equal; apply IH. Qed.

  Lemma upd_comm i j x y l : i <> j -> upd i x (upd j y l) = upd j y (upd i x l).
  Proof. revert i j; induction l as [|h t IH]; intros [|i] [|j] H; simpl; auto; try lia. f_equal; apply IH; lia. Qed.

  Lemma remove_nth_length i l : i < length l -> length (remove_nth i l) = length l - 1.
  Proof. revert i; induction l as [|h t IH]; intros [|i] H; simpl in *; try lia. rewrite IH; lia. Qed.

  Lemma remove_nth_overflow i l : length l <= i -> remove_nth i l = l.
  Proof. revert i; induction l as [|h t IH]; intros [|i] H; simpl in *; auto; try lia. f_equal; apply IH; lia. Qed.

  Lemma nth_remove_nth i j l d : nth j (remove_nth i l) d = if j <? i then nth j l d else nth (S j) l d.
  Proof.
    revert i j; induction l as [|h t IH]; intros i j.
    - destruct i, j; simpl; try reflexivity; match goal with |- context [if ?c then _ else _] => destruct c end; reflexivity.
    - destruct i as [|i]; destruct j as [|j]; try reflexivity.
      change (remove_nth (S i) (h :: t)) with (h :: remove_nth i t).
      change (nth (S j) (h :: remove_nth i t) d) with (nth j (remove_nth i t) d).
      rewrite IH. replace (S j <? S i) with (j <? i) by reflexivity. reflexivity.
  Qed.

  Lemma remove_nth_app_last l x : remove_nth (length l) (l ++ [x]) = l.
  Proof. induction l as [|h t IH]; simpl; auto. f_equal; exact IH. Qed.

  Lemma swap_nth_length i j d l : length (swap_nth i j d l) = length l.
  Proof. unfold swap_nth. rewrite !upd_length. reflexivity. Qed.

  Lemma nth_swap_nth i j k d l : i < length l -> j < length l ->
    nth k (swap_nth i j d l) d = if k =? i then nth j l d else if k =? j then nth i l d else nth k l d.
  Proof.
    intros Hi Hj. unfold swap_nth. rewrite nth_upd, upd_length.
    destruct (Nat.eqb_spec j k) as [->|N1]; simpl.
    - replace (k <? length l) with true by (symmetry; apply Nat.ltb_lt; lia).
      destruct (Nat.eqb_spec k i) as [->|N2]; rewrite ?Nat.eqb_refl; reflexivity.
    - rewrite nth_upd. destruct (Nat.eqb_spec i k) as [->|N2]; simpl.
      + replace (k <? length l) with true by (symmetry; apply Nat.ltb_lt; lia).
        rewrite Nat.eqb_refl. reflexivity.
      + destruct (Nat.eqb_spec k i); [lia|]. destruct (Nat.eqb_spec k j); [lia|]. reflexivity.
  Qed.

  Lemma list_ext_nth l1 l2 d : length l1 = length l2 -> (forall k, k < length l1 -> nth k l1 d = nth k l2 d) -> l1 = l2.
  Proof. intros HL H. apply (nth_ext l1 l2 d d HL H). Qed.

  Lemma swap_nth_same i d l : swap_nth i i d l = l.
  Proof. unfold swap_nth. rewrite upd_upd_same. apply upd_same. Qed.

  Lemma swap_nth_involutive i j d l : i < length l -> j < length l -> swap_nth i j d (swap_nth i j d l) = l.
  Proof.
    intros Hi Hj. apply (list_ext_nth _ _ d).
    - rewrite !swap_nth_length. reflexivity.
    - intros k Hk. rewrite nth_swap_nth by (rewrite swap_nth_length; assumption).
      rewrite !nth_swap_nth by assumption. rewrite !Nat.eqb_refl.
      destruct (Nat.eqb_spec k i) as [->|N1].
      + destruct (Nat.eqb_spec j i) as [->|]; reflexivity.
      + destruct (Nat.eqb_spec k j) as [->|N2]; [|reflexivity].
        destruct (Nat.eqb_spec i j); [lia|reflexivity].
  Qed.

  Lemma swap_nth_sym i j d l : i < length l -> j < length l -> swap_nth i j d l = swap_nth j i d l.
  Proof.
    intros Hi Hj. apply (list_ext_nth _ _ d).
    - rewrite !swap_nth_length. reflexivity.
    - intros k Hk. rewrite !nth_swap_nth by assumption.
      destruct (Nat.eqb_spec k i) as [E1|]; destruct (Nat.eqb_spec k j) as [E2|]; try reflexivity. congruence.
  Qed.

  Lemma resize_length n d l : length (resize n d l) = n.
  Proof. unfold resize. rewrite app_length, firstn_length, repeat_length. lia. Qed.

  Lemma nth_resize n d l k : k < n -> nth k (resize n d l) d = if k <? length l then nth k l d else d.
  Proof.
    intros Hk. unfold resize. destruct (Nat.ltb_spec k (length l)) as [H|H].
    - rewrite app_nth1 by (rewrite firstn_length; lia).
      rewrite <- (firstn_skipn n l) at 2. rewrite app_nth1 by (rewrite firstn_length; lia). reflexivity.
    - rewrite app_nth2 by (rewrite firstn_length; lia). apply nth_repeat.
  Qed.

  Lemma resize_app_one l d : resize (S (length l)) d l = l ++ [d].
  Proof.
    unfold resize. rewrite firstn_all2 by lia. replace (S (length l) - length l) with 1 by lia. reflexivity.
  Qed.

  Lemma resize_same l d : resize (length l) d l = l.
  Proof. unfold resize. rewrite firstn_all, Nat.sub_diag. simpl. apply app_nil_r. Qed.
End Gen.

Lemma memb_In x l : memb x l = true <-> In x l.
Proof.
  unfold memb. rewrite existsb_exists. split.
  - intros [y [H E]]. apply Nat.eqb_eq in E. subst. exact H.
  - intros H. exists x. split; [exact H | apply Nat.eqb_refl].
Qed.

Lemma remove_val_In x y l : In y (remove_val x l) <-> In y l /\ y <> x.
Proof.
  unfold remove_val. rewrite filter_In. split; intros [H1 H2]; split; auto.
  - intros ->. rewrite Nat.eqb_refl in H2. discriminate.
  - apply negb_true_iff. apply Nat.eqb_neq. exact H2.
Qed.

Lemma set_insert_In x y l : In y (set_insert x l) <-> y = x \/ In y l.
Proof.
  induction l as [|h t IH]; simpl.
  - intuition.
  - destruct (Nat.ltb_spec x h); [simpl; intuition|].
    destruct (Nat.eqb_spec x h) as [->|]; simpl; [intuition|]. rewrite IH. intuition.
Qed.

Lemma set_of_list_In_acc y l : forall acc, In y (fold_left (fun a x => set_insert x a) l acc) <-> In y l \/ In y acc.
Proof.
  induction l as [|h t IH]; intros acc; simpl; [intuition|].
  rewrite IH, set_insert_In. intuition.
Qed.

Lemma set_of_list_In y l : In y (set_of_list l) <-> In y l.
Proof. unfold set_of_list. rewrite set_of_list_In_acc. simpl. intuition. Qed.

Inductive strictly_sorted : list nat -> Prop :=
| ss_nil : strictly_sorted []
| ss_one x : strictly_sorted [x]
| ss_cons x y l : x < y -> strictly_sorted (y :: l) -> strictly_sorted (x :: y :: l).

Lemma set_insert_sorted x l : strictly_sorted l -> strictly_sorted (set_insert x l).
Proof.
  induction 1 as [| y | y z l Hyz Hs IH]; simpl.
  - constructor.
  - destruct (Nat.ltb_spec x y); [constructor; [lia|constructor]|].
    destruct (Nat.eqb_spec x y); [constructor|]. constructor; [lia|constructor].
  - destruct (Nat.ltb_spec x y); [constructor; [lia|constructor; assumption]|].
    destruct (Nat.eqb_spec x y); [constructor; assumption|].
    simpl in IH. destruct (Nat.ltb_spec x z).
    + constructor; [lia|]. constructor; [lia|assumption].
    + destruct (Nat.eqb_spec x z).
      * constructor; assumption.
      * constructor; [assumption|]. exact IH.
Qed.

Lemma set_of_list_sorted_acc l : forall acc, strictly_sorted acc -> strictly_sorted (fold_left (fun a x => set_insert x a) l acc).
Proof. induction l as [|h t IH]; intros acc H; simpl; [exact H|]. apply IH. apply set_insert_sorted. exact H. Qed.

Lemma set_of_list_sorted l : strictly_sorted (set_of_list l).
Proof. apply set_of_list_sorted_acc. constructor. Qed.

Lemma strictly_sorted_lt x l : strictly_sorted (x :: l) -> forall y, In y l -> x < y.
Proof.
  revert x. induction l as [|z l IH]; intros x H y Hy; [destruct Hy|].
  inversion H; subst. destruct Hy as [->|Hy]; [assumption|].
  assert (z < y) by (apply IH; assumption). lia.
Qed.

(* two strictly sorted lists with the same elements are equal: std::set is canonical *)
Lemma strictly_sorted_ext l1 : forall l2, strictly_sorted l1 -> strictly_sorted l2 ->
  (forall y, In y l1 <-> In y l2) -> l1 = l2.
Proof.
  induction l1 as [|a l1 IH]; intros [|b l2] H1 H2 E.
  - reflexivity.
  - exfalso. apply (proj2 (E b)). left; reflexivity.
  - exfalso. apply (proj1 (E a)). left; reflexivity.
  - assert (Ha := strictly_sorted_lt _ _ H1). assert (Hb := strictly_sorted_lt _ _ H2).
    assert (a = b).
    { destruct (proj1 (E a) (or_introl eq_refl)) as [->|Ia]; [reflexivity|].
      destruct (proj2 (E b) (or_introl eq_refl)) as [->|Ib]; [reflexivity|].
      specialize (Ha _ Ib). specialize (Hb _ Ia). lia. }
    subst b. f_equal. apply IH.
    + inversion H1; subst; [constructor | assumption].
    + inversion H2; subst; [constructor | assumption].
    + intros y. split; intros Hy.
      * destruct (proj1 (E y) (or_intror Hy)) as [->|]; [|assumption]. specialize (Ha _ Hy). lia.
      * destruct (proj2 (E y) (or_intror Hy)) as [->|]; [|assumption]. specialize (Hb _ Hy). lia.
Qed.

Lemma set_of_list_ext l1 l2 : (forall y, In y l1 <-> In y l2) -> set_of_list l1 = set_of_list l2.
Proof.
  intros E. apply strictly_sorted_ext; try apply set_of_list_sorted.
  intros y. rewrite !set_of_list_In. apply E.
Qed.
