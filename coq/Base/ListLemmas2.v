(* Base/ListLemmas2.v -- further list lemmas (NoDup of appends, find over appends, folds). *)
From Coq Require Import ZArith Lia Bool Arith List ZifyNat ZifyBool.
From OVM Require Import Base.ListX Base.ListLemmas.
Import ListNotations.
Local Open Scope nat_scope.

Lemma NoDup_app_intro {A} (l1 l2 : list A) : NoDup l1 -> NoDup l2 -> (forall x, In x l1 -> ~ In x l2) -> NoDup (l1 ++ l2).
Proof.
  induction l1 as [|a l1 IH]; intros H1 H2 D; simpl; [exact H2|].
  inversion H1 as [|? ? Ha Hl1]; subst. constructor.
  - rewrite in_app_iff. intros [H|H]; [exact (Ha H)|]. exact (D a (or_introl eq_refl) H).
  - apply IH; auto. intros x Hx. apply D. right. exact Hx.
Qed.

Lemma NoDup_app_inv {A} (l1 l2 : list A) : NoDup (l1 ++ l2) -> NoDup l1 /\ NoDup l2 /\ (forall x, In x l1 -> ~ In x l2).
Proof.
  induction l1 as [|a l1 IH]; simpl; intros H.
  - repeat split; auto. constructor.
  - inversion H as [|? ? Ha Hl]; subst. destruct (IH Hl) as (N1 & N2 & D). repeat split; auto.
    + constructor; auto. intros Hin. apply Ha. apply in_app_iff. left. exact Hin.
    + intros x [<-|Hx] H2; [apply Ha; apply in_app_iff; right; exact H2|exact (D x Hx H2)].
Qed.

Lemma find_app {A} (p : A -> bool) l1 l2 : find p (l1 ++ l2) = match find p l1 with Some x => Some x | None => find p l2 end.
Proof. induction l1 as [|a l1 IH]; simpl; [reflexivity|]. destruct (p a); [reflexivity|exact IH]. Qed.

Lemma fold_left_app_one {A B} (f : A -> B -> A) l x a : fold_left f (l ++ [x]) a = f (fold_left f l a) x.
Proof. rewrite fold_left_app. reflexivity. Qed.

(* induction principle for folds: an invariant indexed by the processed prefix *)
Lemma fold_left_prefix_inv {A B} (f : A -> B -> A) (P : list B -> A -> Prop) l a :
  P [] a -> (forall done x acc, (exists rest, l = done ++ x :: rest) -> P done acc -> P (done ++ [x]) (f acc x)) ->
  P l (fold_left f l a).
Proof.
  intros H0 Hs.
  assert (G : forall rest done acc, l = done ++ rest -> P done acc -> P (done ++ rest) (fold_left f rest acc)).
  { induction rest as [|x rest IH]; intros done acc E Hd; simpl.
    - rewrite app_nil_r. exact Hd.
    - replace (done ++ x :: rest) with ((done ++ [x]) ++ rest) by (rewrite <- app_assoc; reflexivity).
      apply IH.
      + rewrite <- app_assoc. exact E.
      + apply Hs; [exists rest; exact E|exact Hd]. }
  apply (G l [] a eq_refl H0).
Qed.
