(* Base/Int32.v -- C integer arithmetic with explicit wrap-around, and the bit lemmas the handle
   algebra needs (x & 1, x ^ 1, x / 2 on non-negative ints).  Proved once, for every value. *)
From Coq Require Export ZArith Lia Bool.
Local Open Scope Z_scope.

Definition wrap_s (bits x : Z) : Z :=
  let m := 2 ^ bits in
  let r := x mod m in
  if r <? 2 ^ (bits - 1) then r else r - m.
Definition wrap_u (bits x : Z) : Z := x mod 2 ^ bits.

Definition c_int := wrap_s 32.
Definition c_i8 := wrap_s 8.
Definition c_i16 := wrap_s 16.
Definition c_i64 := wrap_s 64.
Definition c_uint := wrap_u 32.
Definition c_u8 := wrap_u 8.
Definition c_u16 := wrap_u 16.
Definition c_u64 := wrap_u 64.

Definition in_int32 (x : Z) : Prop := - 2 ^ 31 <= x < 2 ^ 31.

Lemma c_int_id x : in_int32 x -> c_int x = x.
Proof.
  unfold in_int32, c_int, wrap_s. intros H.
  change (2 ^ 32) with 4294967296 in *. change (2 ^ (32 - 1)) with 2147483648 in *.
  change (2 ^ 31) with 2147483648 in *.
  destruct (Z_lt_le_dec x 0) as [Hn|Hp].
  - replace (x mod 4294967296) with (x + 4294967296).
    + destruct (Z.ltb_spec (x + 4294967296) 2147483648); lia.
    + apply Z.mod_unique with (q := -1); lia.
  - rewrite Z.mod_small by lia. destruct (Z.ltb_spec x 2147483648); lia.
Qed.

Lemma c_int_range x : in_int32 (c_int x).
Proof.
  unfold in_int32, c_int, wrap_s.
  change (2 ^ 32) with 4294967296. change (2 ^ (32 - 1)) with 2147483648. change (2 ^ 31) with 2147483648.
  pose proof (Z.mod_pos_bound x 4294967296 ltac:(lia)).
  destruct (Z.ltb_spec (x mod 4294967296) 2147483648); lia.
Qed.

Lemma land_1 x : Z.land x 1 = x mod 2.
Proof. change 1 with (Z.ones 1) at 1. rewrite Z.land_ones by lia. reflexivity. Qed.

Lemma lxor_1_even q : Z.lxor (2 * q) 1 = 2 * q + 1.
Proof.
  symmetry. apply Z.add_nocarry_lxor.
  rewrite land_1. rewrite Z.mul_comm. apply Z.mod_mul. lia.
Qed.

Lemma lxor_1_odd q : Z.lxor (2 * q + 1) 1 = 2 * q.
Proof.
  rewrite <- lxor_1_even. rewrite Z.lxor_assoc. rewrite Z.lxor_nilpotent. apply Z.lxor_0_r.
Qed.

Lemma lxor_1 x : Z.lxor x 1 = if Z.even x then x + 1 else x - 1.
Proof.
  destruct (Z.even x) eqn:E.
  - apply Z.even_spec in E. destruct E as [q ->]. apply lxor_1_even.
  - assert (O : Z.odd x = true) by (rewrite <- Z.negb_even, E; reflexivity).
    apply Z.odd_spec in O. destruct O as [q ->]. rewrite lxor_1_odd. lia.
Qed.

Lemma quot_2_nonneg x : 0 <= x -> Z.quot x 2 = x / 2.
Proof. intros. apply Z.quot_div_nonneg; lia. Qed.
