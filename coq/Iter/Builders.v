(* Iter/Builders.v -- for every circulator class of OpenVolumeMesh the exact list its constructor
   builds (order and duplicates included) as a function of the kernel state, plus valence (4 kinds),
   is_boundary (6 kinds) and the parameters of the 6 entity and 6 boundary iterators (C05, and the
   query side of C01).  Definitions only (proofs: Iter/BuildersProofs.v).

   Conventions.  A has_*_bottom_up_incidences() guard that fails makes the circulator invalid at
   construction: the list is [].  Reads of the incidence caches inside the constructors go through
   the totalising accessors of Kernel/State.v (out_at, hfs_at, cell_of), which agree with the C++
   whenever the read is in range; where the C++ itself range-checks ("if (idx >= size) continue")
   the default IS the C++ behaviour.  The public valence()/is_boundary() functions are modelled
   with CHECKED reads (result None = out-of-range read = undefined behaviour), because that is what
   happens when the incidence kind they need is disabled (NDEBUG build: the asserts are gone). *)
From OVM Require Export Kernel.State Iter.Cursor.
Local Open Scope nat_scope.

Definition half (h : nat) : nat := h / 2.

(* std::sort + std::unique *)
Definition sort_unique (l : list nat) : list nat := unique_by Nat.eqb (sort_nat l).

(* HalfEdgeCellIter: "if (cells.count(ch) == 0) cells_.push_back(ch); cells.insert(ch);" *)
Fixpoint dedup_first (seen : list nat) (l : list nat) : list nat :=
  match l with
  | [] => []
  | x :: t => if memb x seen then dedup_first seen t else x :: dedup_first (x :: seen) t
  end.

Definition cell_list (s : mesh) (hf : nat) : list nat :=
  match cell_of s hf with Some c => [c] | None => [] end.

Definition full_bu (s : mesh) : bool := vbu s && ebu s && fbu s.

Inductive ckind :=
| VV | VOH | VIH | VE | VHF | VF | VC
| HEHF | HEF | HEC
| EHF | EF | EC
| HFHE | HFE | HFV
| FV | FHE | FE
| CV | CHE | CE | CHF | CF | CC
| BHFHF.

(* ---- vertex centred *)
(* VertexOHalfEdgeIter.cc:7-35 *)
Definition l_voh (s : mesh) (v : nat) : list nat := if vbu s then out_at s v else [].
(* VertexVertexIter.cc:7-35 : to_vertex of the outgoing halfedges *)
Definition l_vv (s : mesh) (v : nat) : list nat := map (he_to s) (l_voh s v).
(* detail/VertexIHalfEdgeIterImpl.cc, VertexEdgeIterImpl.cc : wrappers over voh_iter *)
Definition l_vih (s : mesh) (v : nat) : list nat := map opp (l_voh s v).
Definition l_ve (s : mesh) (v : nat) : list nat := map half (l_voh s v).
(* HalfEdgeHalfFaceIter.cc:7-35 *)
Definition l_hehf (s : mesh) (h : nat) : list nat := if ebu s then hfs_at s h else [].
(* detail/EdgeHalfFaceIterImpl.cc:6-19 : each halfface of halfedge 0 followed by its opposite *)
Definition l_ehf (s : mesh) (e : nat) : list nat := flat_map (fun hf => [hf; opp hf]) (l_hehf s (2 * e)).
(* detail/VertexHalfFaceIterImpl.cc:6-23 *)
Definition l_vhf (s : mesh) (v : nat) : list nat := sort_unique (flat_map (l_ehf s) (l_ve s v)).
(* VertexFaceIter.cc:7-49 (needs ALL three incidence kinds) *)
Definition l_vf (s : mesh) (v : nat) : list nat :=
  if full_bu s then sort_unique (flat_map (fun h => map half (hfs_at s h)) (out_at s v)) else [].
(* VertexCellIter.cc:7-54 *)
Definition l_vc (s : mesh) (v : nat) : list nat :=
  if full_bu s then sort_unique (flat_map (fun h => flat_map (cell_list s) (hfs_at s h)) (out_at s v)) else [].

(* ---- halfedge / edge centred *)
(* detail/HalfEdgeFaceIterImpl.cc:6-22 ; EdgeFaceIterImpl = the same on halfedge 0 *)
Definition l_hef (s : mesh) (h : nat) : list nat := sort_unique (map half (l_hehf s h)).
Definition l_ef (s : mesh) (e : nat) : list nat := l_hef s (2 * e).
(* HalfEdgeCellIter.cc:9-56 ; EdgeCellIterImpl = the same on halfedge 0 *)
Definition l_hec (s : mesh) (h : nat) : list nat :=
  if ebu s && fbu s then
    match hfs_at s h with
    | [] => []
    | hf0 :: _ => if hf0 <? length (inc_cell s) then dedup_first [] (flat_map (cell_list s) (hfs_at s h)) else []
    end
  else [].
Definition l_ec (s : mesh) (e : nat) : list nat := l_hec s (2 * e).

(* ---- halfface / face centred (top-down: no incidences needed) *)
(* detail/HalfFaceHalfEdgeIterImpl.cc:52-64 *)
Definition l_hfhe (s : mesh) (hf : nat) : list nat :=
  let f := face_at s (hf / 2) in if Nat.even hf then f else map opp (rev f).
(* detail/HalfFaceEdgeIterImpl.cc : edge handles of halfface(hf).halfedges() *)
Definition l_hfe (s : mesh) (hf : nat) : list nat := map half (halfface s hf).
(* HalfFaceVertexIter.cc:59-73 *)
Definition l_hfv (s : mesh) (hf : nat) : list nat :=
  let f := face_at s (hf / 2) in if Nat.even hf then map (he_from s) f else map (he_to s) (rev f).
Definition l_fv (s : mesh) (f : nat) : list nat := l_hfv s (2 * f).
(* detail/FaceHalfEdgeIterImpl.cc, FaceEdgeIterImpl.cc (constructor does not test for emptiness) *)
Definition l_fhe (s : mesh) (f : nat) : list nat := face_at s f.
Definition l_fe (s : mesh) (f : nat) : list nat := map half (face_at s f).

(* ---- cell centred *)
Definition l_chf (s : mesh) (c : nat) : list nat := cell_at s c.
Definition l_cf (s : mesh) (c : nat) : list nat := map half (cell_at s c).
(* detail/CellHalfEdgeIterImpl.cc:6-19 *)
Definition l_che (s : mesh) (c : nat) : list nat := flat_map (l_hfhe s) (l_chf s c).
(* detail/CellEdgeIterImpl.cc:6-22 *)
Definition l_ce (s : mesh) (c : nat) : list nat := sort_unique (map half (l_che s c)).
(* CellVertexIter.cc:6-27 *)
Definition l_cv (s : mesh) (c : nat) : list nat :=
  sort_unique (flat_map (fun hf => l_fv s (hf / 2)) (l_chf s c)).
(* CellCellIter.cc:6-37 *)
Definition l_cc (s : mesh) (c : nat) : list nat :=
  if fbu s then sort_unique (flat_map (fun hf => cell_list s (opp hf)) (cell_at s c)) else [].

(* ---- BoundaryHalfFaceHalfFaceIter.cc:6-43 *)
Definition isb_hf_t (s : mesh) (hf : nat) : bool :=
  match cell_of s hf with None => true | Some _ => false end.
Definition l_bhfhf (s : mesh) (hf : nat) : list nat :=
  if fbu s then flat_map (fun he => filter (isb_hf_t s) (l_hehf s (opp he))) (halfface s hf) else [].

Definition clist (k : ckind) (s : mesh) (x : nat) : list nat :=
  match k with
  | VV => l_vv s x | VOH => l_voh s x | VIH => l_vih s x | VE => l_ve s x
  | VHF => l_vhf s x | VF => l_vf s x | VC => l_vc s x
  | HEHF => l_hehf s x | HEF => l_hef s x | HEC => l_hec s x
  | EHF => l_ehf s x | EF => l_ef s x | EC => l_ec s x
  | HFHE => l_hfhe s x | HFE => l_hfe s x | HFV => l_hfv s x
  | FV => l_fv s x | FHE => l_fhe s x | FE => l_fe s x
  | CV => l_cv s x | CHE => l_che s x | CE => l_ce s x | CHF => l_chf s x | CF => l_cf s x | CC => l_cc s x
  | BHFHF => l_bhfhf s x
  end.

(* kind of the centre entity of each class *)
Definition centre (k : ckind) : kind :=
  match k with
  | VV | VOH | VIH | VE | VHF | VF | VC => KV
  | HEHF | HEF | HEC => KHE
  | EHF | EF | EC => KE
  | HFHE | HFE | HFV | BHFHF => KHF
  | FV | FHE | FE => KF
  | CV | CHE | CE | CHF | CF | CC => KC
  end.

(* which ++ / -- / constructor form each class has (read off the sources) *)
Definition nextv_of (k : ckind) : nextv :=
  match k with
  | VHF | HEF | EF | EHF | HFHE | HFE | FHE | FE | CHE | CE => NextGe
  | _ => NextEq
  end.
Definition prevv_of (k : ckind) : prevv :=
  match k with
  | FHE | FE | CHF | CF => PrevDec
  | _ => PrevWrap
  end.
Definition ctorv_of (k : ckind) : ctorv :=
  match k with FHE | FE => CtorUnchecked | _ => CtorChecked end.

Definition circ_begin (k : ckind) (l : list nat) : option cstate := c_begin (ctorv_of k) l.
Definition circ_next (k : ckind) (l : list nat) (m : Z) (c : cstate) : option cstate := c_next (nextv_of k) l m c.
Definition circ_prev (k : ckind) (l : list nat) (c : cstate) : option cstate := c_prev (prevv_of k) l c.

(* ------------------------------------------------------------------ valence (TopologyKernel.hh:710-738) *)
Definition valence_v (s : mesh) (v : nat) : option nat := option_map (@length nat) (nth_error (out_hes s) v).
Definition valence_e (s : mesh) (e : nat) : option nat := option_map (@length nat) (nth_error (inc_hfs s) (2 * e)).
Definition valence_f (s : mesh) (f : nat) : option nat := option_map (@length nat) (nth_error (faces s) f).
Definition valence_c (s : mesh) (c : nat) : option nat := option_map (@length nat) (nth_error (cells s) c).

(* ------------------------------------------------------------------ is_boundary (TopologyKernel.hh:1039-1096) *)
(* "for (it = ...; it.valid(); ++it) if (p( *it )) return true; return false;" with p possibly undefined *)
Fixpoint exists_ub (p : nat -> option bool) (l : list nat) : option bool :=
  match l with
  | [] => Some false
  | x :: t => match p x with
              | None => None
              | Some true => Some true
              | Some false => exists_ub p t
              end
  end.

Definition isb_hf (s : mesh) (hf : nat) : option bool :=
  match nth_error (inc_cell s) hf with
  | Some None => Some true
  | Some (Some _) => Some false
  | None => None
  end.
Definition isb_f (s : mesh) (f : nat) : option bool :=
  match isb_hf s (2 * f) with
  | None => None
  | Some true => Some true
  | Some false => isb_hf s (2 * f + 1)
  end.
Definition isb_he (s : mesh) (h : nat) : option bool := exists_ub (fun hf => isb_f s (hf / 2)) (l_hehf s h).
Definition isb_e (s : mesh) (e : nat) : option bool := isb_he s (2 * e).
Definition isb_v (s : mesh) (v : nat) : option bool := exists_ub (isb_he s) (l_voh s v).
Definition isb_c (s : mesh) (c : nat) : option bool := exists_ub (isb_f s) (l_cf s c).

Definition is_boundary (k : kind) (s : mesh) (x : nat) : option bool :=
  match k with
  | KV => isb_v s x | KE => isb_e s x | KHE => isb_he s x
  | KF => isb_f s x | KHF => isb_hf s x | KC => isb_c s x
  | KM => None
  end.

Definition valence (k : kind) (s : mesh) (x : nat) : option nat :=
  match k with
  | KV => valence_v s x | KE => valence_e s x | KF => valence_f s x | KC => valence_c s x
  | _ => None
  end.

(* ------------------------------------------------------------------ entity iterators *)
Definition ent_n (k : kind) (s : mesh) : nat := count k s.
Definition ent_rdel (k : kind) (s : mesh) : nat -> option bool :=
  match k with
  | KV => rdel_of 1 (vdel s) | KE => rdel_of 1 (edel s) | KHE => rdel_of 2 (edel s)
  | KF => rdel_of 1 (fdel s) | KHF => rdel_of 2 (fdel s) | KC => rdel_of 1 (cdel s)
  | KM => fun _ => None
  end.
Definition ent_begin (k : kind) (s : mesh) (start : nat) : option estate := e_begin (ent_rdel k s) (ent_n k s) start.
Definition ent_next (k : kind) (s : mesh) (c : estate) : option estate := e_next (ent_rdel k s) (ent_n k s) c.
Definition ent_prev (k : kind) (s : mesh) (c : estate) : option estate := e_prev (ent_rdel k s) c.

(* ------------------------------------------------------------------ boundary iterators (BoundaryItemIter.cc:12-41) *)
Definition bnd_has_inc (k : kind) (s : mesh) : bool :=
  match k with
  | KV => full_bu s
  | KHE | KE => ebu s && fbu s
  | KHF | KF => fbu s
  | KC => fbu s                    (* since "fix: boundary cell iterator needs face bottom-up incidences" *)
  | KM => false
  end.
Definition bnd_begin (k : kind) (s : mesh) : option bstate :=
  b_begin (bnd_has_inc k s) (ent_rdel k s) (ent_n k s) (is_boundary k s).
Definition bnd_next (k : kind) (s : mesh) (b : bstate) : option bstate :=
  b_next (ent_rdel k s) (ent_n k s) (is_boundary k s) b.
Definition bnd_prev (k : kind) (s : mesh) (b : bstate) : option bstate :=
  b_prev (ent_rdel k s) (ent_n k s) (is_boundary k s) b.
