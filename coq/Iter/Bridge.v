(* Iter/Bridge.v -- the hypotheses of the query theorems (Iter/BuildersProofs.v: bu_exact, wf_iter, flags_sized)
   follow from the kernel component's decidable invariants (Kernel/InvB.v: vbu_ok_b, ebu_ok_b, fbu_ok_b, valid_b) and
   from `sized` (Kernel/SwapInvol.v; proved for every reachable state in Kernel/Sizes.v).  So every C01q_* / C05_builders_*
   theorem applies to every state on which the extracted checkers return true. *)
From Coq Require Import ZArith Lia Bool Arith List ZifyNat ZifyBool.
From OVM Require Import Kernel.State Kernel.Ops Kernel.Closure Kernel.InvB Kernel.SwapInvol Iter.Builders.
From OVM Require Iter.BuildersProofs.
Import ListNotations.
Ltac Zify.zify_post_hook ::= Z.div_mod_to_equations.
Local Open Scope nat_scope.

Module BP := OVM.Iter.BuildersProofs.

Lemma live_e_iff s e : live_e s e = true <-> e < ne s /\ e_deleted s e = false.
Proof. unfold live_e. rewrite andb_true_iff, Nat.ltb_lt, negb_true_iff. tauto. Qed.
Lemma live_f_iff s f : live_f s f = true <-> f < nf s /\ f_deleted s f = false.
Proof. unfold live_f. rewrite andb_true_iff, Nat.ltb_lt, negb_true_iff. tauto. Qed.
Lemma live_c_iff s c : live_c s c = true <-> c < nc s /\ c_deleted s c = false.
Proof. unfold live_c. rewrite andb_true_iff, Nat.ltb_lt, negb_true_iff. tauto. Qed.

Lemma in_live_edges s e : live_e s e = true -> In e (live_edges s).
Proof. intros H. apply live_e_iff in H. unfold live_edges. apply filter_In. split; [apply in_seq; lia|]. apply negb_true_iff. tauto. Qed.
Lemma in_live_faces s f : live_f s f = true -> In f (live_faces s).
Proof. intros H. apply live_f_iff in H. unfold live_faces. apply filter_In. split; [apply in_seq; lia|]. apply negb_true_iff. tauto. Qed.
Lemma in_live_cells s c : live_c s c = true -> In c (live_cells s).
Proof. intros H. apply live_c_iff in H. unfold live_cells. apply filter_In. split; [apply in_seq; lia|]. apply negb_true_iff. tauto. Qed.

Theorem bu_exact_of_checkers s :
  vbu_ok_b s = true -> ebu_ok_b s = true -> fbu_ok_b s = true -> BP.bu_exact s.
Proof.
  intros Hv He Hf. unfold BP.bu_exact. split; [|split].
  - intros F v Lv. split.
    + unfold vbu_ok_b in Hv. rewrite F in Hv. simpl in Hv. apply andb_true_iff in Hv. destruct Hv as (_ & Hv).
      rewrite forallb_forall in Hv. specialize (Hv v ltac:(apply in_seq; lia)). apply andb_true_iff in Hv.
      apply nodup_b_spec. apply Hv.
    + intros h. rewrite (vbu_ok_b_sound s Hv F v Lv h), live_e_iff. split; intros H; repeat split; try tauto; lia.
  - intros F h Lh. split.
    + unfold ebu_ok_b in He. rewrite F in He. simpl in He. apply andb_true_iff in He. destruct He as (_ & He).
      rewrite forallb_forall in He. specialize (He h ltac:(apply in_seq; lia)). apply andb_true_iff in He.
      apply nodup_b_spec. apply He.
    + intros x. rewrite (ebu_ok_b_sound s He F h Lh x), live_f_iff. split; intros H; repeat split; try tauto; lia.
  - intros F hf Lhf c. rewrite (fbu_ok_b_sound s Hf F hf Lhf c), live_c_iff. tauto.
Qed.

Theorem wf_iter_of_checkers s :
  vbu_ok_b s = true -> ebu_ok_b s = true -> fbu_ok_b s = true -> valid_b s = true -> BP.wf_iter s.
Proof.
  intros Hv He Hf V. unfold valid_b in V. rewrite !andb_true_iff, !forallb_forall in V. destruct V as (((Ve & Vf) & Vc) & _).
  unfold BP.wf_iter. repeat apply conj.
  - intros e L. specialize (Ve e (in_live_edges s e L)). destruct (edge_at s e) as [a b]. simpl. apply andb_true_iff in Ve. exact Ve.
  - intros f L h Hh. specialize (Vf f (in_live_faces s f L)). apply andb_true_iff in Vf. destruct Vf as (Vf & _).
    rewrite forallb_forall in Vf. apply Vf, Hh.
  - intros c L hf Hhf. specialize (Vc c (in_live_cells s c L)). apply andb_true_iff in Vc. destruct Vc as (Vc & _). rewrite forallb_forall in Vc. apply Vc, Hhf.
  - intros F. unfold vbu_ok_b in Hv. rewrite F in Hv. simpl in Hv. apply andb_true_iff in Hv. apply Nat.eqb_eq, Hv.
  - intros F. unfold ebu_ok_b in He. rewrite F in He. simpl in He. apply andb_true_iff in He. apply Nat.eqb_eq, He.
  - intros F. unfold fbu_ok_b in Hf. rewrite F in Hf. simpl in Hf. rewrite !andb_true_iff in Hf. apply Nat.eqb_eq, Hf.
Qed.

Theorem flags_sized_of_sized s : sized s -> BP.flags_sized s.
Proof. unfold sized, BP.flags_sized. tauto. Qed.

(* the quantifier of C01 (valid_b) also gives the side conditions under which the remaining lists are duplicate-free:
   no face lists a halfedge, or a halfedge and its opposite, twice *)
Theorem face_simple_of_valid s : valid_b s = true ->
  forall f, live_f s f = true -> NoDup (face_at s f ++ map opp (face_at s f)).
Proof.
  intros V f L. unfold valid_b in V. rewrite !andb_true_iff, !forallb_forall in V. destruct V as (((_ & Vf) & _) & _).
  specialize (Vf f (in_live_faces s f L)). apply andb_true_iff in Vf. apply nodup_b_spec, Vf.
Qed.

(* everything at once *)
Theorem query_hypotheses_of_checkers s :
  vbu_ok_b s = true /\ ebu_ok_b s = true /\ fbu_ok_b s = true /\ valid_b s = true -> sized s ->
  BP.bu_exact s /\ BP.wf_iter s /\ BP.flags_sized s.
Proof.
  intros (Hv & He & Hf & V) S.
  exact (conj (bu_exact_of_checkers s Hv He Hf) (conj (wf_iter_of_checkers s Hv He Hf V) (flags_sized_of_sized s S))).
Qed.

(* non-vacuity: the lead's checkers accept the example states of Iter/BuildersProofs.v *)
Example checkers_accept_examples :
  (vbu_ok_b BP.ex_two_tets && ebu_ok_b BP.ex_two_tets && fbu_ok_b BP.ex_two_tets && valid_b BP.ex_two_tets = true) /\
  (vbu_ok_b BP.ex_deleted && ebu_ok_b BP.ex_deleted && fbu_ok_b BP.ex_deleted && valid_b BP.ex_deleted = true).
Proof. split; vm_compute; reflexivity. Qed.
