(* Iter/CursorProofs.v -- theorems about the cursor machines of Iter/Cursor.v, for arbitrary lists,
   max_laps >= 1 and any number of steps (C05). *)
From Coq Require Import ZArith Lia Bool Arith List ZifyNat ZifyBool.
From OVM Require Import Iter.Cursor.
Import ListNotations.
Local Open Scope nat_scope.

(* ------------------------------------------------------------------ list helpers *)

Lemma skipn_nth_error {A} (l : list A) r x : nth_error l r = Some x -> skipn r l = x :: skipn (S r) l.
Proof.
  revert r. induction l as [|a l IH]; intros [|r] H; simpl in *; try discriminate.
  - injection H as ->. reflexivity.
  - apply IH in H. exact H.
Qed.

Lemma skipn_last_one {A} (l : list A) r x : nth_error l r = Some x -> S r = length l -> skipn r l = [x].
Proof.
  intros H E. rewrite (skipn_nth_error _ _ _ H). rewrite skipn_all2 by lia. reflexivity.
Qed.

Lemma nth_error_lt_some {A} (l : list A) i : i < length l -> exists x, nth_error l i = Some x.
Proof.
  intros H. destruct (nth_error l i) eqn:E; [eauto|]. apply nth_error_None in E. lia.
Qed.

Lemma filter_all_false {A} (f : A -> bool) l : (forall x, In x l -> f x = false) -> filter f l = [].
Proof.
  induction l as [|a l IH]; intros H; simpl; [reflexivity|].
  rewrite (H a) by (left; reflexivity). apply IH. intros x Hx. apply H. right. exact Hx.
Qed.

Lemma concat_repeat_length {A} (l : list A) k : length (concat (repeat l k)) = k * length l.
Proof. induction k; simpl; [reflexivity|]. rewrite app_length, IHk. reflexivity. Qed.

(* ------------------------------------------------------------------ variants coincide inside the range *)

Lemma next_ge_eq l m c : c_idx c < length l -> c_next NextGe l m c = c_next NextEq l m c.
Proof.
  intros H. unfold c_next.
  destruct (Nat.eqb_spec (S (c_idx c)) (length l)) as [E|E];
    destruct (Nat.leb_spec (length l) (S (c_idx c))); try reflexivity; lia.
Qed.

Lemma prev_dec_wrap l c : c_idx c < length l -> c_prev PrevDec l c = c_prev PrevWrap l c.
Proof.
  intros H. unfold c_prev. destruct (Nat.eqb_spec (c_idx c) 0) as [E|E].
  - destruct (length l); [lia|reflexivity].
  - destruct (c_idx c) as [|j] eqn:Ej; [lia|]. simpl. rewrite Nat.sub_0_r. reflexivity.
Qed.

(* ------------------------------------------------------------------ the invariant of every reachable state *)

(* position inside the list, current handle read from it, and "valid => 0 <= lap < max_laps" *)
Definition c_wf (l : list nat) (m : Z) (c : cstate) : Prop :=
  c_idx c < length l /\ c_cur c = nth_error l (c_idx c) /\ (c_valid c = true -> (0 <= c_lap c < m)%Z).

Lemma begin_wf l m x t : l = x :: t -> (1 <= m)%Z -> c_wf l m (mkC 0 0%Z true (Some x)).
Proof. intros -> Hm. unfold c_wf; simpl. split; [lia|]. split; [reflexivity|]. intros _. lia. Qed.

Lemma next_eq_step l m c :
  c_idx c < length l ->
  c_next NextEq l m c =
    if S (c_idx c) =? length l
    then Some (mkC 0 (c_lap c + 1) (if (m <=? c_lap c + 1)%Z then false else c_valid c) (nth_error l 0))
    else Some (mkC (S (c_idx c)) (c_lap c) (c_valid c) (nth_error l (S (c_idx c)))).
Proof.
  intros H. unfold c_next, c_read. destruct (Nat.eqb_spec (S (c_idx c)) (length l)) as [E|E].
  - destruct (nth_error_lt_some l 0 ltac:(lia)) as [x ->]. reflexivity.
  - destruct (nth_error_lt_some l (S (c_idx c)) ltac:(lia)) as [x ->]. reflexivity.
Qed.

Lemma prev_wrap_step l c :
  c_idx c < length l ->
  c_prev PrevWrap l c =
    if c_idx c =? 0
    then Some (mkC (length l - 1) (c_lap c - 1) (if (c_lap c - 1 <? 0)%Z then false else c_valid c) (nth_error l (length l - 1)))
    else Some (mkC (c_idx c - 1) (c_lap c) (c_valid c) (nth_error l (c_idx c - 1))).
Proof.
  intros H. unfold c_prev, c_read. destruct (Nat.eqb_spec (c_idx c) 0) as [E|E].
  - destruct (length l) as [|j] eqn:L; [lia|]. simpl. rewrite Nat.sub_0_r.
    destruct (nth_error_lt_some l j ltac:(lia)) as [x ->]. reflexivity.
  - destruct (nth_error_lt_some l (c_idx c - 1) ltac:(lia)) as [x ->]. reflexivity.
Qed.

Lemma next_wf l m c c' : c_wf l m c -> c_next NextEq l m c = Some c' -> c_wf l m c'.
Proof.
  intros (Hi & Hc & Hv) N. rewrite next_eq_step in N by exact Hi.
  destruct (Nat.eqb_spec (S (c_idx c)) (length l)) as [E|E]; injection N as <-; unfold c_wf; simpl.
  - split; [lia|]. split; [reflexivity|]. destruct (Z.leb_spec m (c_lap c + 1)); [discriminate|]. intros V. specialize (Hv V). lia.
  - split; [lia|]. split; [reflexivity|]. exact Hv.
Qed.

Lemma prev_wf l m c c' : c_wf l m c -> c_prev PrevWrap l c = Some c' -> c_wf l m c'.
Proof.
  intros (Hi & Hc & Hv) N. rewrite prev_wrap_step in N by exact Hi.
  destruct (Nat.eqb_spec (c_idx c) 0) as [E|E]; injection N as <-; unfold c_wf; simpl.
  - split; [lia|]. split; [reflexivity|]. destruct (Z.ltb_spec (c_lap c - 1) 0); [discriminate|]. intros V. specialize (Hv V). lia.
  - split; [lia|]. split; [reflexivity|]. exact Hv.
Qed.

(* a step inside the range is never undefined *)
Lemma next_defined l m c : c_wf l m c -> exists c', c_next NextEq l m c = Some c'.
Proof. intros (Hi & _). rewrite next_eq_step by exact Hi. destruct (S (c_idx c) =? length l); eauto. Qed.
Lemma prev_defined l m c : c_wf l m c -> exists c', c_prev PrevWrap l c = Some c'.
Proof. intros (Hi & _). rewrite prev_wrap_step by exact Hi. destruct (c_idx c =? 0); eauto. Qed.

(* ------------------------------------------------------------------ forward trace *)

Section Forward.
  Variable l : list nat.
  Variable M : nat.
  Hypothesis Hl : l <> [].
  Hypothesis HM : 1 <= M.
  Let n := length l.
  Let m := Z.of_nat M.
  Let cend := mkC 0 m false (nth_error l 0).

  Lemma n_pos : 0 < n.
  Proof. unfold n. destruct l; [contradiction|simpl; lia]. Qed.

  Lemma trace_from fuel : forall r q,
    r < n -> q < M -> (M - q) * n - r <= fuel ->
    c_trace fuel (c_next NextEq l m) (mkC r (Z.of_nat q) true (nth_error l r))
    = Some (skipn r l ++ concat (repeat l (M - q - 1)), cend).
  Proof.
    pose proof n_pos as Hn.
    induction fuel as [|fuel IH]; intros r q Hr Hq Hf.
    - exfalso. assert (n <= (M - q) * n) by nia. lia.
    - cbn [c_trace c_valid c_cur].
      destruct (nth_error_lt_some l r Hr) as [x Ex]. rewrite Ex.
      rewrite next_eq_step by (simpl; exact Hr). cbn [c_idx c_lap c_valid].
      destruct (Nat.eqb_spec (S r) (length l)) as [E|E].
      + fold n in E.
        destruct (Z.leb_spec m (Z.of_nat q + 1)) as [Hle|Hlt].
        * (* last lap ends *)
          assert (M = S q) by (unfold m in Hle; lia). subst M.
          replace (Z.of_nat q + 1)%Z with m by (unfold m; lia).
          fold cend. destruct fuel; cbn [c_trace c_valid cend];
            rewrite (skipn_last_one _ _ _ Ex E); replace (S q - q - 1) with 0 by lia; reflexivity.
        * replace (Z.of_nat q + 1)%Z with (Z.of_nat (S q)) by lia.
          rewrite IH; [|exact Hn|unfold m in Hlt; lia|].
          -- rewrite (skipn_last_one _ _ _ Ex E). simpl skipn.
             replace (M - q - 1) with (S (M - S q - 1)) by (unfold m in Hlt; lia).
             simpl. reflexivity.
          -- assert ((M - q) * n = n + (M - S q) * n) by (unfold m in Hlt; nia). lia.
      + rewrite IH; [|fold n; lia|exact Hq|lia].
        rewrite (skipn_nth_error _ _ _ Ex). reflexivity.
  Qed.

  (* C05_forward: the forward trace from begin is l repeated max_laps times, then the circulator is
     invalid (with lap = max_laps, back on the first element) *)
  Theorem forward_trace x t fuel :
    l = x :: t -> M * n <= fuel ->
    c_trace fuel (c_next NextEq l m) (mkC 0 0%Z true (Some x)) = Some (concat (repeat l M), cend).
  Proof.
    intros E Hf. pose proof n_pos.
    replace (Some x) with (nth_error l 0) by (rewrite E; reflexivity).
    change 0%Z with (Z.of_nat 0).
    rewrite trace_from by lia. simpl skipn.
    replace (M - 0 - 1) with (M - 1) by lia. destruct M as [|M']; [lia|].
    simpl. rewrite Nat.sub_0_r. reflexivity.
  Qed.
End Forward.

Lemma trace_iter f : forall fuel c t e, c_trace fuel f c = Some (t, e) -> c_iter (length t) f c = Some e /\ c_valid e = false.
Proof.
  induction fuel as [|fuel IH]; intros c t e H; simpl in H.
  - destruct (c_valid c) eqn:V; [discriminate|]. injection H as <- <-. simpl. auto.
  - destruct (c_valid c) eqn:V.
    + destruct (c_cur c); [|discriminate]. destruct (f c) as [c'|] eqn:F; [|discriminate].
      destruct (c_trace fuel f c') as [[t' e']|] eqn:T; [|discriminate]. injection H as <- <-.
      simpl. rewrite F. apply IH. exact T.
    + injection H as <- <-. simpl. auto.
Qed.

(* C05_end: the end circulator of make_end_circulator is the begin circulator advanced max_laps*|l| times *)
Theorem end_is_advanced_begin (l : list nat) (M : nat) x t :
  l = x :: t -> 1 <= M ->
  c_iter (M * length l) (c_next NextEq l (Z.of_nat M)) (mkC 0 0%Z true (Some x))
  = Some (c_make_end (Z.of_nat M) (mkC 0 0%Z true (Some x))).
Proof.
  intros E HM.
  assert (Hl : l <> []) by (rewrite E; discriminate).
  pose proof (forward_trace l M Hl HM x t (M * length l) E (le_n _)) as T.
  apply trace_iter in T. destruct T as [T _]. rewrite concat_repeat_length in T. rewrite T.
  unfold c_make_end. simpl. rewrite E. reflexivity.
Qed.

(* ------------------------------------------------------------------ backward undoes forward inside the valid range *)

Theorem prev_next l m c c' :
  c_wf l m c -> c_valid c = true -> c_next NextEq l m c = Some c' -> c_valid c' = true ->
  c_prev PrevWrap l c' = Some c.
Proof.
  intros W V N V'. pose proof (next_wf _ _ _ _ W N) as W'.
  destruct W as (Hi & Hc & Hv). specialize (Hv V).
  rewrite next_eq_step in N by exact Hi.
  rewrite prev_wrap_step by (destruct W' as (? & _); assumption).
  destruct c as [i lap v cur]; cbn [c_idx c_lap c_valid c_cur] in *. subst v cur.
  destruct (Nat.eqb_spec (S i) (length l)) as [E|E]; injection N as <-; cbn [c_idx c_lap c_valid c_cur] in *.
  - destruct (Z.leb_spec m (lap + 1)); [discriminate|].
    destruct (Z.ltb_spec (lap + 1 - 1) 0); [lia|].
    replace (length l - 1) with i by lia. replace (lap + 1 - 1)%Z with lap by lia. reflexivity.
  - destruct (Nat.eqb_spec (S i) 0); [lia|]. replace (S i - 1) with i by lia. reflexivity.
Qed.

Theorem next_prev l m c c' :
  c_wf l m c -> c_valid c = true -> c_prev PrevWrap l c = Some c' -> c_valid c' = true ->
  c_next NextEq l m c' = Some c.
Proof.
  intros W V N V'. pose proof (prev_wf _ _ _ _ W N) as W'.
  destruct W as (Hi & Hc & Hv). specialize (Hv V).
  rewrite prev_wrap_step in N by exact Hi.
  rewrite next_eq_step by (destruct W' as (? & _); assumption).
  destruct c as [i lap v cur]; cbn [c_idx c_lap c_valid c_cur] in *. subst v cur.
  destruct (Nat.eqb_spec i 0) as [E|E]; injection N as <-; cbn [c_idx c_lap c_valid c_cur] in *.
  - subst i. destruct (Z.ltb_spec (lap - 1) 0); [discriminate|].
    destruct (Nat.eqb_spec (S (length l - 1)) (length l)); [|lia].
    destruct (Z.leb_spec m (lap - 1 + 1)); [lia|].
    replace (lap - 1 + 1)%Z with lap by lia. reflexivity.
  - destruct (Nat.eqb_spec (S (i - 1)) (length l)); [lia|].
    replace (S (i - 1)) with i by lia. reflexivity.
Qed.

(* operator-- never makes an invalid circulator valid again; so does operator++ *)
Lemma prev_never_validates pv l c c' : c_prev pv l c = Some c' -> c_valid c' = true -> c_valid c = true.
Proof.
  unfold c_prev, c_read. destruct pv.
  - destruct (c_idx c =? 0).
    + destruct (length l); [discriminate|]. destruct (nth_error l n); [|discriminate].
      intros H; injection H as <-; simpl. destruct (c_lap c - 1 <? 0)%Z; [discriminate|auto].
    + destruct (nth_error l (c_idx c - 1)); [|discriminate]. intros H; injection H as <-; auto.
  - destruct (c_idx c =? 0).
    + destruct (length l); [discriminate|]. destruct (nth_error l n); [|discriminate].
      intros H; injection H as <-; simpl. destruct (c_lap c - 1 <? 0)%Z; [discriminate|auto].
    + destruct (c_idx c); [discriminate|]. destruct (nth_error l n); [|discriminate]. intros H; injection H as <-; auto.
Qed.

Lemma next_never_validates nx l m c c' : c_next nx l m c = Some c' -> c_valid c' = true -> c_valid c = true.
Proof.
  unfold c_next, c_read.
  destruct (match nx with NextEq => S (c_idx c) =? length l | NextGe => length l <=? S (c_idx c) end).
  - destruct (nth_error l 0); [|discriminate]. intros H; injection H as <-; simpl.
    destruct (m <=? c_lap c + 1)%Z; [discriminate|auto].
  - destruct (nth_error l (S (c_idx c))); [|discriminate]. intros H; injection H as <-; auto.
Qed.

(* the "stepping backward undoes stepping forward" reading of the property WITHOUT the restriction to the
   valid range is false of the machine: from the last valid position, ++ then -- does not come back *)
Lemma back_from_end_refuted :
  exists l m c c' c'', c_wf l m c /\ c_valid c = true /\ c_next NextEq l m c = Some c' /\
                       c_prev PrevWrap l c' = Some c'' /\ c'' <> c /\ c_cur c'' = c_cur c /\ c_valid c'' = false.
Proof.
  exists [7], 1%Z, (mkC 0 0%Z true (Some 7)), (mkC 0 1%Z false (Some 7)), (mkC 0 0%Z false (Some 7)).
  unfold c_wf; simpl. repeat split; try lia; try reflexivity. discriminate.
Qed.

(* ------------------------------------------------------------------ empty lists *)

Theorem empty_invalid : c_begin CtorChecked [] = Some c_invalid /\ c_valid c_invalid = false /\ c_cur c_invalid = None.
Proof. repeat split. Qed.

(* FaceHalfEdgeIterImpl / FaceEdgeIterImpl do not test for emptiness: constructing them on a face without
   halfedges reads halfedges_[0] (undefined); on a non-empty face they are valid *)
Lemma unchecked_empty_undefined : c_begin CtorUnchecked [] = None.
Proof. reflexivity. Qed.
Lemma unchecked_nonempty x t : c_begin CtorUnchecked (x :: t) = c_begin CtorChecked (x :: t).
Proof. reflexivity. Qed.

(* stepping a circulator that is invalid at construction is undefined for the common forms *)
Lemma step_on_empty_undefined m : c_next NextEq [] m c_invalid = None /\ c_prev PrevWrap [] c_invalid = None.
Proof. split; reflexivity. Qed.

(* ------------------------------------------------------------------ wrappers = the plain machine on the mapped list *)

Definition cmap (f : nat -> nat) (c : cstate) : cstate :=
  mkC (c_idx c) (c_lap c) (c_valid c) (option_map f (c_cur c)).

Lemma read_map f l i lap v : c_read (map f l) i lap v = option_map (cmap f) (c_read l i lap v).
Proof. unfold c_read. rewrite nth_error_map. destruct (nth_error l i); reflexivity. Qed.

Lemma next_map nx f l m c : c_next nx (map f l) m (cmap f c) = option_map (cmap f) (c_next nx l m c).
Proof. unfold c_next. rewrite map_length. cbn [cmap c_idx c_lap c_valid]. destruct nx; destruct (_ : bool); apply read_map. Qed.

Lemma prev_map f l c : c_prev PrevWrap (map f l) (cmap f c) = option_map (cmap f) (c_prev PrevWrap l c).
Proof.
  unfold c_prev. rewrite map_length. cbn [cmap c_idx c_lap c_valid].
  destruct (c_idx c =? 0); [|apply read_map]. destruct (length l); [reflexivity|apply read_map].
Qed.

Lemma begin_map f l : c_begin CtorChecked (map f l) = option_map (cmap f) (c_begin CtorChecked l).
Proof. destruct l; reflexivity. Qed.

(* the outer fields of a wrapper always mirror its inner circulator *)
Definition w_ok (f : nat -> nat) (w : wstate) : Prop := w_obs w = c_obs (cmap f (w_in w)).

Theorem wrapper_begin f l :
  exists w, w_begin f l = Some w /\ w_ok f w /\ c_begin CtorChecked (map f l) = Some (cmap f (w_in w)).
Proof. destruct l as [|x t]; eexists; repeat split. Qed.

Theorem wrapper_next f l m w :
  match w_next f l m w with
  | Some w' => w_ok f w' /\ c_next NextEq (map f l) m (cmap f (w_in w)) = Some (cmap f (w_in w'))
  | None => c_next NextEq (map f l) m (cmap f (w_in w)) = None
  end.
Proof. unfold w_next. rewrite next_map. destruct (c_next NextEq l m (w_in w)); simpl; [split|]; reflexivity. Qed.

Theorem wrapper_prev f l w :
  match w_prev f l w with
  | Some w' => w_ok f w' /\ c_prev PrevWrap (map f l) (cmap f (w_in w)) = Some (cmap f (w_in w'))
  | None => c_prev PrevWrap (map f l) (cmap f (w_in w)) = None
  end.
Proof. unfold w_prev. rewrite prev_map. destruct (c_prev PrevWrap l (w_in w)); simpl; [split|]; reflexivity. Qed.

(* ------------------------------------------------------------------ entity iterators *)

Section Entity.
  Variable n : nat.
  Variable del : nat -> bool.
  Variable rdel : nat -> option bool.
  Hypothesis Hr : forall i, i < n -> rdel i = Some (del i).
  Let live := fun i => negb (del i).

  Lemma skip_up_spec fuel : forall i, i <= n -> n - i <= fuel ->
    exists j, skip_up fuel rdel n i = Some j /\ i <= j <= n /\
              (forall k, i <= k < j -> del k = true) /\ (j < n -> del j = false).
  Proof.
    induction fuel as [|fuel IH]; intros i Hi Hf.
    - exists i. simpl. split; [reflexivity|]. split; [lia|]. split; intros; lia.
    - simpl. destruct (Nat.ltb_spec i n) as [L|L].
      + rewrite Hr by exact L. destruct (del i) eqn:D.
        * destruct (IH (S i) ltac:(lia) ltac:(lia)) as (j & E & R & A & B).
          exists j. split; [exact E|]. split; [lia|]. split; [|exact B].
          intros k Hk. destruct (Nat.eq_dec k i) as [->|]; [exact D|apply A; lia].
        * exists i. split; [reflexivity|]. split; [lia|]. split; intros; [lia|exact D].
      + exists i. split; [reflexivity|]. split; [lia|]. split; intros; lia.
  Qed.

  Lemma filter_live_skip i j :
    i <= j <= n -> (forall k, i <= k < j -> del k = true) ->
    filter live (seq i (n - i)) = filter live (seq j (n - j)).
  Proof.
    intros Hij A. replace (n - i) with ((j - i) + (n - j)) by lia.
    rewrite seq_app, filter_app. replace (i + (j - i)) with j by lia.
    rewrite filter_all_false; [reflexivity|].
    intros k Hk. apply in_seq in Hk. unfold live. rewrite A by lia. reflexivity.
  Qed.

  Definition e_end : estate := mkE (Z.of_nat n) false.

  Lemma settle_spec i v : i <= n ->
    exists j, e_settle_up rdel n (Z.of_nat i) v = Some (mkE (Z.of_nat j) (if n <=? j then false else v)) /\
              i <= j <= n /\ (forall k, i <= k < j -> del k = true) /\ (j < n -> del j = false).
  Proof.
    intros Hi. unfold e_settle_up. destruct (Z.ltb_spec (Z.of_nat i) 0); [lia|].
    rewrite Nat2Z.id. destruct (skip_up_spec (n - i) i Hi (le_n _)) as (j & E & R). rewrite E. eauto.
  Qed.

  Lemma etrace_from fuel : forall i, i < n -> del i = false -> n - i <= fuel ->
    e_trace fuel rdel n (mkE (Z.of_nat i) true)
    = Some (map Z.of_nat (filter live (seq i (n - i))), e_end).
  Proof.
    induction fuel as [|fuel IH]; intros i Hi D Hf; [lia|].
    cbn [e_trace e_valid]. unfold e_next. cbn [e_idx e_valid].
    replace (Z.of_nat i + 1)%Z with (Z.of_nat (S i)) by lia.
    destruct (settle_spec (S i) true ltac:(lia)) as (j & E & R & A & B). rewrite E.
    replace (n - i) with (S (n - S i)) by lia. cbn [seq filter]. unfold live at 1. rewrite D. cbn [negb map].
    rewrite (filter_live_skip (S i) j R A).
    destruct (Nat.leb_spec n j) as [L|L].
    - assert (j = n) by lia. subst j. rewrite Nat.sub_diag. simpl.
      destruct fuel; reflexivity.
    - rewrite IH by (try apply B; lia). reflexivity.
  Qed.

  (* C05_entities: from begin() the iterator visits exactly the not-deleted handles in ascending order,
     once, and ends in the state of end() *)
  Theorem entity_forward fuel :
    n <= fuel ->
    exists b, e_begin rdel n 0 = Some b /\
              e_trace (S fuel) rdel n b = Some (map Z.of_nat (filter live (seq 0 n)), e_end).
  Proof.
    intros Hf. unfold e_begin. destruct (settle_spec 0 true ltac:(lia)) as (j & E & R & A & B).
    rewrite E. eexists; split; [reflexivity|].
    replace (seq 0 n) with (seq 0 (n - 0)) by (rewrite Nat.sub_0_r; reflexivity).
    rewrite (filter_live_skip 0 j R A).
    destruct (Nat.leb_spec n j) as [L|L].
    - assert (j = n) by lia. subst j. rewrite Nat.sub_diag. reflexivity.
    - apply etrace_from; [lia|apply B; lia|lia].
  Qed.

  Theorem entity_end_state : e_begin rdel n n = Some e_end.
  Proof.
    unfold e_begin. destruct (settle_spec n true (le_n _)) as (j & E & R & _). rewrite E.
    assert (j = n) by lia. subst j. rewrite Nat.leb_refl. reflexivity.
  Qed.

  Lemma skip_down_spec : forall t i, i <= t -> t < n -> del i = false -> (forall k, i < k <= t -> del k = true) ->
    skip_down rdel t = Some (Z.of_nat i).
  Proof.
    induction t as [|t IH]; intros i Hi Ht D A.
    - assert (i = 0) by lia. subst i. simpl. rewrite Hr by lia. rewrite D. reflexivity.
    - simpl. rewrite Hr by lia. destruct (Nat.eq_dec i (S t)) as [->|Ne].
      + rewrite D. reflexivity.
      + rewrite (A (S t)) by lia. apply IH; try lia; try assumption. intros; apply A; lia.
  Qed.

  (* valid => inside [0,n) on a not-deleted entity (invariant of every state reached from begin) *)
  Definition e_wf (c : estate) : Prop :=
    e_valid c = true -> exists i, e_idx c = Z.of_nat i /\ i < n /\ del i = false.

  Theorem entity_prev_next c c' :
    e_wf c -> e_valid c = true -> e_next rdel n c = Some c' -> e_valid c' = true -> e_prev rdel c' = Some c.
  Proof.
    intros W V N V'. destruct (W V) as (i & Ei & Hi & D).
    destruct c as [z v]; simpl in *. subst z v. unfold e_next in N. cbn [e_idx e_valid] in N.
    replace (Z.of_nat i + 1)%Z with (Z.of_nat (S i)) in N by lia.
    destruct (settle_spec (S i) true ltac:(lia)) as (j & E & R & A & B). rewrite E in N. injection N as <-.
    simpl in V'. destruct (Nat.leb_spec n j) as [L|L]; [discriminate|].
    unfold e_prev. cbn [e_idx e_valid].
    destruct (Z.ltb_spec (Z.of_nat j - 1) 0); [lia|].
    replace (Z.to_nat (Z.of_nat j - 1)) with (j - 1) by lia.
    rewrite (skip_down_spec (j - 1) i) by (try lia; try assumption; intros; apply A; lia).
    destruct (Z.ltb_spec (Z.of_nat i) 0); [lia|]. reflexivity.
  Qed.

  Lemma skip_down_char : forall t, t < n ->
    exists z, skip_down rdel t = Some z /\
      ((z = (-1)%Z /\ forall k, k <= t -> del k = true) \/
       (exists i, z = Z.of_nat i /\ i <= t /\ del i = false /\ forall k, i < k <= t -> del k = true)).
  Proof.
    induction t as [|t IH]; intros Ht; simpl; rewrite Hr by lia.
    - destruct (del 0) eqn:D.
      + exists (-1)%Z. split; [reflexivity|]. left. split; [reflexivity|]. intros k Hk. assert (k = 0) by lia. subst. exact D.
      + exists (Z.of_nat 0). split; [reflexivity|]. right. exists 0. split; [reflexivity|]. split; [lia|]. split; [exact D|]. intros; lia.
    - destruct (del (S t)) eqn:D.
      + destruct (IH ltac:(lia)) as (z & E & C). exists z. split; [exact E|]. destruct C as [(-> & A)|(i & -> & Hi & Di & A)].
        * left. split; [reflexivity|]. intros k Hk. destruct (Nat.eq_dec k (S t)) as [->|]; [exact D|apply A; lia].
        * right. exists i. split; [reflexivity|]. split; [lia|]. split; [exact Di|]. intros k Hk. destruct (Nat.eq_dec k (S t)) as [->|]; [exact D|apply A; lia].
      + exists (Z.of_nat (S t)). split; [reflexivity|]. right. exists (S t). split; [reflexivity|]. split; [lia|]. split; [exact D|]. intros; lia.
  Qed.

  Theorem entity_next_prev c c' :
    e_wf c -> e_valid c = true -> e_prev rdel c = Some c' -> e_valid c' = true -> e_next rdel n c' = Some c.
  Proof.
    intros W V N V'. destruct (W V) as (i & Ei & Hi & D).
    destruct c as [z v]; simpl in *. subst z v. unfold e_prev in N. cbn [e_idx e_valid] in N.
    destruct (Z.ltb_spec (Z.of_nat i - 1) 0) as [L|L]; [injection N as <-; discriminate|].
    replace (Z.to_nat (Z.of_nat i - 1)) with (i - 1) in N by lia.
    destruct (skip_down_char (i - 1) ltac:(lia)) as (z & E & C). rewrite E in N. injection N as <-. simpl in V'.
    destruct C as [(-> & _)|(i' & -> & Hi' & Di' & A)]; [discriminate|].
    destruct (Z.ltb_spec (Z.of_nat i') 0); [lia|].
    unfold e_next. cbn [e_idx e_valid]. replace (Z.of_nat i' + 1)%Z with (Z.of_nat (S i')) by lia.
    destruct (settle_spec (S i') true ltac:(lia)) as (j & Ej & R & Aj & Bj). rewrite Ej.
    assert (j = i).
    { destruct (Nat.lt_trichotomy j i) as [Lt|[Eq|Gt]]; [|exact Eq|].
      - specialize (Bj ltac:(lia)). rewrite (A j) in Bj by lia. discriminate.
      - rewrite (Aj i) in D by lia. discriminate. }
    subst j. destruct (Nat.leb_spec n i); [lia|]. reflexivity.
  Qed.

  (* D11.  operator-- never sets valid back to true ... *)
  Theorem entity_prev_never_validates c c' : e_prev rdel c = Some c' -> e_valid c' = true -> e_valid c = true.
  Proof.
    unfold e_prev. destruct (e_idx c - 1 <? 0)%Z; [intros H; injection H as <-; discriminate|].
    destruct (skip_down rdel (Z.to_nat (e_idx c - 1))); [|discriminate].
    intros H; injection H as <-. simpl. destruct (z <? 0)%Z; [discriminate|auto].
  Qed.

  (* ... so stepping back from end() lands on the last not-deleted entity with valid() == false *)
  Theorem entity_back_from_end i :
    i < n -> del i = false -> (forall k, i < k < n -> del k = true) ->
    e_prev rdel e_end = Some (mkE (Z.of_nat i) false).
  Proof.
    intros Hi D A. unfold e_prev, e_end. cbn [e_idx e_valid].
    destruct (Z.ltb_spec (Z.of_nat n - 1) 0); [lia|].
    replace (Z.to_nat (Z.of_nat n - 1)) with (n - 1) by lia.
    rewrite (skip_down_spec (n - 1) i) by (try lia; try assumption; intros; apply A; lia).
    destruct (Z.of_nat i <? 0)%Z; reflexivity.
  Qed.
End Entity.

(* The property text: "begin/end pairs, the valid() protocol, range-for and backward stepping all agree".
   Read as: stepping back from end() yields a dereferenceable (valid) iterator on the last live entity,

     forall n del rdel, (forall i, i < n -> rdel i = Some (del i)) -> forall i, i < n -> del i = false ->
       (forall k, i < k < n -> del k = true) ->
       exists c, e_prev rdel (e_end n) = Some c /\ e_idx c = Z.of_nat i /\ e_valid c = true.

   This is false of the faithful machine (D11): *)
Lemma D11_back_from_end_refuted :
  exists n del rdel i, (forall k, k < n -> rdel k = Some (del k)) /\ i < n /\ del i = false /\
                       (forall k, i < k < n -> del k = true) /\
                       forall c, e_prev rdel (e_end n) = Some c -> e_valid c = false.
Proof.
  exists 1, (fun _ => false), (fun _ => Some false), 0.
  repeat split; try lia; try reflexivity.
  intros c H. cbv in H. injection H as <-. reflexivity.
Qed.

(* the same after walking forward to the end: ++ ... ++ then -- *)
Lemma D11_forward_then_back_refuted :
  exists n rdel b e c, e_begin rdel n 0 = Some b /\ e_valid b = true /\
                       e_next rdel n b = Some e /\ e_valid e = false /\
                       e_prev rdel e = Some c /\ e_idx c = e_idx b /\ e_valid c = false.
Proof.
  exists 1, (fun _ => Some false), (mkE 0 true), (mkE 1 false), (mkE 0 false).
  repeat split.
Qed.

(* non-vacuity of the Entity section: a 4-entity array with deleted first, middle-less and last entity *)
Example entity_forward_example :
  let rdel := rdel_of 1 [true; false; false; true] in
  exists b, e_begin rdel 4 0 = Some b /\ e_trace 5 rdel 4 b = Some ([1%Z; 2%Z], e_end 4).
Proof. eexists; split; reflexivity. Qed.

(* ------------------------------------------------------------------ all ++ / -- / constructor variants at once *)

Lemma trace_ext (P : cstate -> Prop) f g :
  (forall c, P c -> f c = g c) -> (forall c c', P c -> f c = Some c' -> P c') ->
  forall fuel c, P c -> c_trace fuel f c = c_trace fuel g c.
Proof.
  intros E Pres. induction fuel as [|fuel IH]; intros c Pc; simpl; [reflexivity|].
  destruct (c_valid c); [|reflexivity]. destruct (c_cur c); [|reflexivity].
  rewrite <- (E c Pc). destruct (f c) as [c'|] eqn:F; [|reflexivity].
  rewrite (IH c' (Pres c c' Pc F)). reflexivity.
Qed.

Lemma iter_ext (P : cstate -> Prop) f g :
  (forall c, P c -> f c = g c) -> (forall c c', P c -> f c = Some c' -> P c') ->
  forall k c, P c -> c_iter k f c = c_iter k g c.
Proof.
  intros E Pres. induction k as [|k IH]; intros c Pc; simpl; [reflexivity|].
  rewrite <- (E c Pc). destruct (f c) as [c'|] eqn:F; [|reflexivity]. apply IH. exact (Pres c c' Pc F).
Qed.

Lemma next_any_eq nx l m c : c_idx c < length l -> c_next nx l m c = c_next NextEq l m c.
Proof. destruct nx; [reflexivity|apply next_ge_eq]. Qed.

Lemma begin_any cv x t : c_begin cv (x :: t) = Some (mkC 0 0%Z true (Some x)).
Proof. destruct cv; reflexivity. Qed.

(* C05_forward for every variant *)
Theorem forward_trace_any nx cv (l : list nat) (M : nat) x t fuel :
  l = x :: t -> 1 <= M -> M * length l <= fuel ->
  exists b, c_begin cv l = Some b /\ c_valid b = true /\ c_cur b = Some x /\
            c_trace fuel (c_next nx l (Z.of_nat M)) b
            = Some (concat (repeat l M), mkC 0 (Z.of_nat M) false (Some x)).
Proof.
  intros E HM Hf. exists (mkC 0 0%Z true (Some x)). subst l. rewrite begin_any.
  split; [reflexivity|]. split; [reflexivity|]. split; [reflexivity|].
  rewrite (trace_ext (c_wf (x :: t) (Z.of_nat M)) (c_next nx (x :: t) (Z.of_nat M)) (c_next NextEq (x :: t) (Z.of_nat M))).
  - rewrite (forward_trace (x :: t) M ltac:(discriminate) HM x t fuel eq_refl Hf). reflexivity.
  - intros c (Hi & _). apply next_any_eq. exact Hi.
  - intros c c' W N. rewrite next_any_eq in N by (destruct W; assumption). exact (next_wf _ _ _ _ W N).
  - apply (begin_wf (x :: t) (Z.of_nat M) x t eq_refl). lia.
Qed.

(* C05_end for every variant *)
Theorem end_is_advanced_begin_any nx cv (l : list nat) (M : nat) x t :
  l = x :: t -> 1 <= M ->
  exists b, c_begin cv l = Some b /\
            c_iter (M * length l) (c_next nx l (Z.of_nat M)) b = Some (c_make_end (Z.of_nat M) b).
Proof.
  intros E HM. exists (mkC 0 0%Z true (Some x)). subst l. rewrite begin_any. split; [reflexivity|].
  rewrite (iter_ext (c_wf (x :: t) (Z.of_nat M)) (c_next nx (x :: t) (Z.of_nat M)) (c_next NextEq (x :: t) (Z.of_nat M))).
  - apply (end_is_advanced_begin (x :: t) M x t eq_refl HM).
  - intros c (Hi & _). apply next_any_eq. exact Hi.
  - intros c c' W N. rewrite next_any_eq in N by (destruct W; assumption). exact (next_wf _ _ _ _ W N).
  - apply (begin_wf (x :: t) (Z.of_nat M) x t eq_refl). lia.
Qed.

(* C05_back for every variant: inside the valid range -- undoes ++ and ++ undoes -- *)
Theorem prev_next_any nx pv l m c c' :
  c_wf l m c -> c_valid c = true -> c_next nx l m c = Some c' -> c_valid c' = true ->
  c_prev pv l c' = Some c.
Proof.
  intros W V N V'. rewrite next_any_eq in N by (destruct W; assumption).
  pose proof (next_wf _ _ _ _ W N) as W'. pose proof (prev_next _ _ _ _ W V N V') as P.
  destruct pv; [exact P|].
  rewrite prev_dec_wrap by (destruct W'; assumption). exact P.
Qed.

Theorem next_prev_any nx pv l m c c' :
  c_wf l m c -> c_valid c = true -> c_prev pv l c = Some c' -> c_valid c' = true ->
  c_next nx l m c' = Some c.
Proof.
  intros W V N V'.
  assert (N' : c_prev PrevWrap l c = Some c').
  { destruct pv; [exact N|]. rewrite prev_dec_wrap in N by (destruct W; assumption). exact N. }
  pose proof (prev_wf _ _ _ _ W N') as W'.
  rewrite next_any_eq by (destruct W'; assumption). exact (next_prev _ _ _ _ W V N' V').
Qed.

(* the invariant is preserved by every variant, so it holds in every state reached from begin by any
   sequence of ++ / -- that stays defined and valid-or-not *)
Lemma next_wf_any nx l m c c' : c_wf l m c -> c_next nx l m c = Some c' -> c_wf l m c'.
Proof. intros W N. rewrite next_any_eq in N by (destruct W; assumption). exact (next_wf _ _ _ _ W N). Qed.

(* ------------------------------------------------------------------ BoundaryItemIter *)

Lemma filter_skip (P : nat -> bool) n i j :
  i <= j <= n -> (forall k, i <= k < j -> P k = false) -> filter P (seq i (n - i)) = filter P (seq j (n - j)).
Proof.
  intros Hij A. replace (n - i) with ((j - i) + (n - j)) by lia.
  rewrite seq_app, filter_app. replace (i + (j - i)) with j by lia.
  rewrite filter_all_false; [reflexivity|]. intros k Hk. apply in_seq in Hk. apply A. lia.
Qed.

Section Boundary.
  Variable n : nat.
  Variable del : nat -> bool.
  Variable rdel : nat -> option bool.
  Hypothesis Hr : forall i, i < n -> rdel i = Some (del i).
  (* is_boundary is defined (no out-of-range read) on every not-deleted entity: has_incidences() holds *)
  Variable bd : nat -> bool.
  Variable isb : nat -> option bool.
  Hypothesis Hb : forall i, i < n -> del i = false -> isb i = Some (bd i).
  Let P := fun i => negb (del i) && bd i.

  (* the inner entity iterator: on a live entity (valid) or at end() (invalid) *)
  Definition norm (i : nat) : estate := mkE (Z.of_nat i) (negb (n <=? i)).

  Lemma norm_end : norm n = e_end n.
  Proof. unfold norm, e_end. rewrite Nat.leb_refl. reflexivity. Qed.

  Lemma norm_eqb_end i : i <= n -> e_eqb (norm i) (e_end n) = (n <=? i).
  Proof.
    intros Hi. unfold e_eqb, norm, e_end. cbn [e_idx e_valid].
    destruct (Nat.leb_spec n i) as [L|L].
    - assert (i = n) by lia. subst. rewrite Z.eqb_refl. reflexivity.
    - destruct (Z.eqb_spec (Z.of_nat i) (Z.of_nat n)); [lia|reflexivity].
  Qed.

  Lemma e_next_norm i : i < n ->
    exists j, e_next rdel n (norm i) = Some (norm j) /\ i < j <= n /\
              (forall k, i < k < j -> del k = true) /\ (j < n -> del j = false).
  Proof.
    intros Hi. unfold e_next.
    change (e_idx (norm i)) with (Z.of_nat i). change (e_valid (norm i)) with (negb (n <=? i)).
    replace (Z.of_nat i + 1)%Z with (Z.of_nat (S i)) by lia.
    destruct (settle_spec n del rdel Hr (S i) (negb (n <=? i)) ltac:(lia)) as (j & E & R & A & B).
    exists j. rewrite E. split.
    - unfold norm. destruct (Nat.leb_spec n i); [lia|]. destruct (n <=? j); reflexivity.
    - split; [lia|]. split; [intros; apply A; lia|exact B].
  Qed.

  Lemma scan_up_spec fuel : forall i, i <= n -> (i < n -> del i = false) -> n - i < fuel ->
    exists j, b_scan_up fuel rdel n isb (e_end n) (norm i) = Some (norm j) /\ i <= j <= n /\
              (forall k, i <= k < j -> P k = false) /\ (j < n -> P j = true).
  Proof.
    induction fuel as [|fuel IH]; intros i Hi Li Hf; [lia|].
    cbn [b_scan_up]. rewrite norm_eqb_end by exact Hi.
    destruct (Nat.leb_spec n i) as [L|L].
    - exists i. split; [reflexivity|]. split; [lia|]. split; intros; lia.
    - unfold isb_z. change (e_idx (norm i)) with (Z.of_nat i). destruct (Z.ltb_spec (Z.of_nat i) 0); [lia|].
      rewrite Nat2Z.id, (Hb i L (Li L)). destruct (bd i) eqn:Bi.
      + exists i. split; [reflexivity|]. split; [lia|]. split; [intros; lia|]. intros _. unfold P. rewrite (Li L), Bi. reflexivity.
      + destruct (e_next_norm i L) as (j' & E & R & A & B). rewrite E.
        destruct (IH j' ltac:(lia) B ltac:(lia)) as (j & Ej & Rj & Aj & Bj).
        exists j. split; [exact Ej|]. split; [lia|]. split; [|exact Bj].
        intros k Hk. destruct (Nat.eq_dec k i) as [->|Ne]; [unfold P; rewrite Bi; apply andb_false_r|].
        destruct (Nat.lt_ge_cases k j') as [Lk|Lk]; [unfold P; rewrite A by lia; reflexivity|apply Aj; lia].
  Qed.

  Lemma scan_fuel_ok i : n - i < scan_fuel n (norm i).
  Proof. unfold scan_fuel, norm. cbn [e_idx]. lia. Qed.

  Lemma btrace_from fuel : forall i cur, i < n -> del i = false -> P i = true -> n - i <= fuel ->
    exists e, b_trace fuel rdel n isb (mkB (norm i) true cur) = Some (cur :: map Z.of_nat (filter P (seq (S i) (n - S i))), e)
              /\ b_valid e = false /\ b_it e = e_end n.
  Proof.
    induction fuel as [|fuel IH]; intros i cur Hi Di Pi Hf; [lia|].
    cbn [b_trace b_valid]. unfold b_next. cbn [b_it b_valid b_cur].
    rewrite (entity_end_state n del rdel Hr).
    destruct (e_next_norm i Hi) as (j' & E & R & A & B). rewrite E.
    destruct (scan_up_spec (scan_fuel n (norm j')) j' ltac:(lia) B (scan_fuel_ok j')) as (j & Ej & Rj & Aj & Bj).
    rewrite Ej. rewrite norm_eqb_end by lia.
    assert (Skip : filter P (seq (S i) (n - S i)) = filter P (seq j (n - j))).
    { apply filter_skip; [lia|]. intros k Hk. destruct (Nat.lt_ge_cases k j') as [Lk|Lk]; [unfold P; rewrite A by lia; reflexivity|apply Aj; lia]. }
    rewrite Skip. destruct (Nat.leb_spec n j) as [L|L]; cbn [negb].
    - assert (j = n) by lia. subst j. rewrite Nat.sub_diag. cbn [seq filter map].
      exists (mkB (norm n) false cur). rewrite norm_end. destruct fuel; cbn [b_trace b_valid]; auto.
    - assert (Dj : del j = false).
      { specialize (Bj L). unfold P in Bj. apply andb_true_iff in Bj. destruct Bj as (Bj & _). apply negb_true_iff in Bj. exact Bj. }
      destruct (IH j (Z.of_nat j) L Dj (Bj L) ltac:(lia)) as (e & T & V & I).
      change (e_idx (norm j)) with (Z.of_nat j).
      rewrite T. exists e. split; [|auto].
      replace (n - j) with (S (n - S j)) by lia. cbn [seq filter]. rewrite (Bj L). reflexivity.
  Qed.

  (* the boundary iterator visits exactly the not-deleted boundary entities, ascending, once *)
  Theorem boundary_forward fuel : n <= fuel ->
    exists b e, b_begin true rdel n isb = Some b /\
                b_trace (S fuel) rdel n isb b = Some (map Z.of_nat (filter P (seq 0 n)), e) /\ b_valid e = false.
  Proof.
    intros Hf. unfold b_begin. cbn [negb].
    rewrite (entity_end_state n del rdel Hr).
    unfold e_begin. destruct (settle_spec n del rdel Hr 0 true ltac:(lia)) as (j0 & E & R & A & B). rewrite E.
    replace (mkE (Z.of_nat j0) (if n <=? j0 then false else true)) with (norm j0) by (unfold norm; destruct (n <=? j0); reflexivity).
    destruct (scan_up_spec (scan_fuel n (norm j0)) j0 ltac:(lia) B (scan_fuel_ok j0)) as (j & Ej & Rj & Aj & Bj).
    rewrite Ej, norm_eqb_end by lia.
    assert (Skip : filter P (seq 0 n) = filter P (seq j (n - j))).
    { replace (seq 0 n) with (seq 0 (n - 0)) by (rewrite Nat.sub_0_r; reflexivity). apply filter_skip; [lia|].
      intros k Hk. destruct (Nat.lt_ge_cases k j0) as [Lk|Lk]; [unfold P; rewrite A by lia; reflexivity|apply Aj; lia]. }
    rewrite Skip. destruct (Nat.leb_spec n j) as [L|L]; cbn [negb].
    - assert (j = n) by lia. subst j. rewrite Nat.sub_diag. eexists. eexists. split; [reflexivity|]. cbn. auto.
    - assert (Dj : del j = false).
      { specialize (Bj L). unfold P in Bj. apply andb_true_iff in Bj. destruct Bj as (Bj & _). apply negb_true_iff in Bj. exact Bj. }
      destruct (btrace_from (S fuel) j (Z.of_nat j) L Dj (Bj L) ltac:(lia)) as (e & T & V & _).
      eexists. exists e. split; [reflexivity|]. change (e_idx (norm j)) with (Z.of_nat j). rewrite T. split; [|exact V].
      replace (n - j) with (S (n - S j)) by lia. cbn [seq filter]. rewrite (Bj L). reflexivity.
  Qed.

  (* ---- backward: operator-- undoes operator++ (and conversely) between two valid positions *)

  Lemma e_prev_norm t i : t < n -> i < t -> del i = false -> (forall k, i < k < t -> del k = true) ->
    e_prev rdel (norm t) = Some (norm i).
  Proof.
    intros Ht Hi Di A. unfold e_prev. change (e_idx (norm t)) with (Z.of_nat t). change (e_valid (norm t)) with (negb (n <=? t)).
    destruct (Z.ltb_spec (Z.of_nat t - 1) 0); [lia|].
    replace (Z.to_nat (Z.of_nat t - 1)) with (t - 1) by lia.
    rewrite (skip_down_spec n del rdel Hr (t - 1) i) by (try lia; try assumption; intros; apply A; lia).
    destruct (Z.ltb_spec (Z.of_nat i) 0); [lia|]. unfold norm.
    destruct (Nat.leb_spec n t); [lia|]. destruct (Nat.leb_spec n i); [lia|]. reflexivity.
  Qed.

  Lemma scan_down_spec ibegin fuel : forall t i, t < n -> i <= t -> del t = false -> P i = true ->
    (forall k, i < k <= t -> P k = false) -> t - i < fuel ->
    b_scan_down fuel rdel isb ibegin (norm t) = Some (norm i).
  Proof.
    induction fuel as [|fuel IH]; intros t i Ht Hi Dt Pi A Hf; [lia|].
    cbn [b_scan_down]. unfold e_geb. change (e_valid (norm t)) with (negb (n <=? t)).
    destruct (Nat.leb_spec n t); [lia|]. cbn [negb orb].
    unfold isb_z. change (e_idx (norm t)) with (Z.of_nat t). destruct (Z.ltb_spec (Z.of_nat t) 0); [lia|].
    rewrite Nat2Z.id, (Hb t Ht Dt).
    destruct (Nat.eq_dec i t) as [->|Ne].
    - unfold P in Pi. rewrite Dt in Pi. simpl in Pi. rewrite Pi. reflexivity.
    - assert (Bt : bd t = false). { specialize (A t ltac:(lia)). unfold P in A. rewrite Dt in A. exact A. }
      rewrite Bt.
      assert (Di : del i = false). { unfold P in Pi. apply andb_true_iff in Pi. destruct Pi as (Pi & _). apply negb_true_iff in Pi. exact Pi. }
      (* the previous live entity t' >= i *)
      destruct (skip_down_char n del rdel Hr (t - 1) ltac:(lia)) as (z & E & C).
      destruct C as [(-> & All)|(t' & -> & Ht' & Dt' & A')].
      { rewrite (All i ltac:(lia)) in Di. discriminate. }
      assert (i <= t'). { destruct (Nat.le_gt_cases i t'); [assumption|]. rewrite (A' i ltac:(lia)) in Di. discriminate. }
      rewrite (e_prev_norm t t' Ht ltac:(lia) Dt' ltac:(intros; apply A'; lia)).
      apply IH; try lia; try assumption. intros k Hk. apply A. lia.
  Qed.

  (* a valid boundary iterator sits on a not-deleted boundary entity *)
  Definition b_at (i : nat) : bstate := mkB (norm i) true (Z.of_nat i).

  Lemma b_next_at i : i < n -> del i = false ->
    exists j, i < j <= n /\ (forall k, i < k < j -> P k = false) /\ (j < n -> P j = true) /\
              exists b', b_next rdel n isb (b_at i) = Some b' /\ (j < n -> b' = b_at j) /\ (n <= j -> b_valid b' = false).
  Proof.
    intros Hi Di. unfold b_next, b_at. cbn [b_it b_valid b_cur].
    rewrite (entity_end_state n del rdel Hr).
    destruct (e_next_norm i Hi) as (j' & E & R & A & B). rewrite E.
    destruct (scan_up_spec (scan_fuel n (norm j')) j' ltac:(lia) B (scan_fuel_ok j')) as (j & Ej & Rj & Aj & Bj).
    rewrite Ej, norm_eqb_end by lia. exists j. split; [lia|]. split.
    - intros k Hk. destruct (Nat.lt_ge_cases k j') as [Lk|Lk]; [unfold P; rewrite A by lia; reflexivity|apply Aj; lia].
    - split; [exact Bj|]. destruct (Nat.leb_spec n j); cbn [negb]; eexists; (split; [reflexivity|]); split; intros; try lia; reflexivity.
  Qed.

  Theorem boundary_prev_next i b' : i < n -> P i = true ->
    b_next rdel n isb (b_at i) = Some b' -> b_valid b' = true -> b_prev rdel n isb b' = Some (b_at i).
  Proof.
    intros Hi Pi N V'.
    assert (Di : del i = false). { unfold P in Pi. apply andb_true_iff in Pi. destruct Pi as (Pi & _). apply negb_true_iff in Pi. exact Pi. }
    destruct (b_next_at i Hi Di) as (j & Rj & Aj & Bj & b2 & E2 & In & Out). rewrite E2 in N. injection N as <-.
    destruct (Nat.lt_ge_cases j n) as [Lj|Lj]; [|rewrite (Out Lj) in V'; discriminate].
    rewrite (In Lj). specialize (Bj Lj).
    assert (Dj : del j = false). { unfold P in Bj. apply andb_true_iff in Bj. destruct Bj as (Bj & _). apply negb_true_iff in Bj. exact Bj. }
    unfold b_prev, b_at. cbn [b_it b_valid b_cur].
    destruct (settle_spec n del rdel Hr 0 true ltac:(lia)) as (j0 & E0 & R0 & A0 & B0). unfold e_begin. rewrite E0.
    (* the previous live entity before j *)
    destruct (skip_down_char n del rdel Hr (j - 1) ltac:(lia)) as (z & E & C).
    destruct C as [(-> & All)|(t & -> & Ht & Dt & At)].
    { rewrite (All i ltac:(lia)) in Di. discriminate. }
    assert (i <= t). { destruct (Nat.le_gt_cases i t); [assumption|]. rewrite (At i ltac:(lia)) in Di. discriminate. }
    rewrite (e_prev_norm j t Lj ltac:(lia) Dt ltac:(intros; apply At; lia)).
    rewrite (scan_down_spec _ (scan_fuel n (norm t)) t i ltac:(lia) H Dt Pi ltac:(intros; apply Aj; lia))
      by (unfold scan_fuel, norm; cbn [e_idx]; lia).
    unfold e_geb. change (e_valid (norm i)) with (negb (n <=? i)). destruct (Nat.leb_spec n i); [lia|]. reflexivity.
  Qed.

  Lemma last_P_below j :
    (exists i, i < j /\ P i = true /\ forall k, i < k < j -> P k = false) \/ (forall k, k < j -> P k = false).
  Proof.
    induction j as [|j IH]; [right; intros; lia|].
    destruct (P j) eqn:Pj.
    - left. exists j. split; [lia|]. split; [exact Pj|]. intros; lia.
    - destruct IH as [(i & Hi & Pi & A)|A].
      + left. exists i. split; [lia|]. split; [exact Pi|]. intros k Hk. destruct (Nat.eq_dec k j) as [->|]; [exact Pj|apply A; lia].
      + right. intros k Hk. destruct (Nat.eq_dec k j) as [->|]; [exact Pj|apply A; lia].
  Qed.

  Lemma scan_down_none ibegin fuel : e_valid ibegin = true -> forall t, t < n -> del t = false ->
    (forall k, k <= t -> P k = false) -> t < fuel ->
    b_scan_down fuel rdel isb ibegin (norm t) = Some (mkE (-1)%Z false).
  Proof.
    intros Vb. induction fuel as [|fuel IH]; intros t Ht Dt A Hf; [lia|].
    cbn [b_scan_down]. unfold e_geb. change (e_valid (norm t)) with (negb (n <=? t)).
    destruct (Nat.leb_spec n t); [lia|]. cbn [negb orb].
    unfold isb_z. change (e_idx (norm t)) with (Z.of_nat t). destruct (Z.ltb_spec (Z.of_nat t) 0); [lia|].
    rewrite Nat2Z.id, (Hb t Ht Dt).
    assert (Bt : bd t = false). { specialize (A t ltac:(lia)). unfold P in A. rewrite Dt in A. exact A. }
    rewrite Bt.
    destruct t as [|t1].
    - (* -- from index 0 *)
      replace (e_prev rdel (norm 0)) with (Some (mkE (-1)%Z false)) by reflexivity.
      destruct fuel; cbn [b_scan_down]; unfold e_geb; cbn [e_valid]; rewrite Vb; reflexivity.
    - destruct (skip_down_char n del rdel Hr t1 ltac:(lia)) as (z & E & C).
      destruct C as [(-> & All)|(t' & -> & Ht' & Dt' & A')].
      + assert (Ep : e_prev rdel (norm (S t1)) = Some (mkE (-1)%Z false)).
        { unfold e_prev. change (e_idx (norm (S t1))) with (Z.of_nat (S t1)).
          destruct (Z.ltb_spec (Z.of_nat (S t1) - 1) 0); [lia|]. replace (Z.to_nat (Z.of_nat (S t1) - 1)) with t1 by lia.
          rewrite E. reflexivity. }
        rewrite Ep. destruct fuel; cbn [b_scan_down]; unfold e_geb; cbn [e_valid]; rewrite Vb; reflexivity.
      + rewrite (e_prev_norm (S t1) t' Ht ltac:(lia) Dt' ltac:(intros; apply A'; lia)).
        apply IH; try lia; try assumption. intros k Hk. apply A. lia.
  Qed.

  (* operator-- from a valid position: the previous boundary entity, or invalid (handle unchanged) if there is none *)
  Lemma b_prev_at j : j < n -> del j = false ->
    (exists i, i < j /\ P i = true /\ (forall k, i < k < j -> P k = false) /\ b_prev rdel n isb (b_at j) = Some (b_at i)) \/
    ((forall k, k < j -> P k = false) /\ exists b', b_prev rdel n isb (b_at j) = Some b' /\ b_valid b' = false /\ b_cur b' = Z.of_nat j).
  Proof.
    intros Hj Dj. unfold b_prev, b_at. cbn [b_it b_valid b_cur].
    destruct (settle_spec n del rdel Hr 0 true ltac:(lia)) as (j0 & E0 & R0 & A0 & B0). unfold e_begin. rewrite E0.
    assert (J0 : j0 <= j). { destruct (Nat.le_gt_cases j0 j); [assumption|]. rewrite (A0 j) in Dj by lia. discriminate. }
    destruct (Nat.leb_spec n j0) as [L0|L0]; [lia|].
    destruct (last_P_below j) as [(i & Hi & Pi & A)|A].
    - left. exists i. split; [exact Hi|]. split; [exact Pi|]. split; [exact A|].
      assert (Di : del i = false). { unfold P in Pi. apply andb_true_iff in Pi. destruct Pi as (Pi & _). apply negb_true_iff in Pi. exact Pi. }
      destruct (skip_down_char n del rdel Hr (j - 1) ltac:(lia)) as (z & E & C).
      destruct C as [(-> & All)|(t & -> & Ht & Dt & At)].
      { rewrite (All i ltac:(lia)) in Di. discriminate. }
      assert (i <= t). { destruct (Nat.le_gt_cases i t); [assumption|]. rewrite (At i ltac:(lia)) in Di. discriminate. }
      rewrite (e_prev_norm j t Hj ltac:(lia) Dt ltac:(intros; apply At; lia)).
      rewrite (scan_down_spec _ (scan_fuel n (norm t)) t i ltac:(lia) H Dt Pi ltac:(intros; apply A; lia))
        by (unfold scan_fuel, norm; cbn [e_idx]; lia).
      unfold e_geb. change (e_valid (norm i)) with (negb (n <=? i)). destruct (Nat.leb_spec n i); [lia|]. reflexivity.
    - right. split; [exact A|].
      destruct j as [|j1].
      + replace (e_prev rdel (norm 0)) with (Some (mkE (-1)%Z false)) by reflexivity.
        cbn [scan_fuel b_scan_down e_idx]. unfold e_geb at 1. cbn [e_valid orb negb]. cbn [e_geb e_valid orb negb].
        eexists. split; [reflexivity|]. split; reflexivity.
      + destruct (skip_down_char n del rdel Hr j1 ltac:(lia)) as (z & E & C).
        destruct C as [(-> & All)|(t & -> & Ht & Dt & At)].
        * assert (Ep : e_prev rdel (norm (S j1)) = Some (mkE (-1)%Z false)).
          { unfold e_prev. change (e_idx (norm (S j1))) with (Z.of_nat (S j1)).
            destruct (Z.ltb_spec (Z.of_nat (S j1) - 1) 0); [lia|]. replace (Z.to_nat (Z.of_nat (S j1) - 1)) with j1 by lia.
            rewrite E. reflexivity. }
          rewrite Ep. cbn [scan_fuel b_scan_down e_idx]. unfold e_geb at 1. cbn [e_valid orb negb]. cbn [e_geb e_valid orb negb].
          eexists. split; [reflexivity|]. split; reflexivity.
        * rewrite (e_prev_norm (S j1) t Hj ltac:(lia) Dt ltac:(intros; apply At; lia)).
          rewrite (scan_down_none (mkE (Z.of_nat j0) true) (scan_fuel n (norm t)) eq_refl t ltac:(lia) Dt ltac:(intros; apply A; lia))
            by (unfold scan_fuel, norm; cbn [e_idx]; lia).
          cbn [e_geb e_valid orb negb]. eexists. split; [reflexivity|]. split; reflexivity.
  Qed.

  Theorem boundary_next_prev j b' : j < n -> P j = true ->
    b_prev rdel n isb (b_at j) = Some b' -> b_valid b' = true -> b_next rdel n isb b' = Some (b_at j).
  Proof.
    intros Hj Pj N V'.
    assert (Dj : del j = false). { unfold P in Pj. apply andb_true_iff in Pj. destruct Pj as (Pj & _). apply negb_true_iff in Pj. exact Pj. }
    destruct (b_prev_at j Hj Dj) as [(i & Hi & Pi & A & E)|(_ & b2 & E & V2 & _)]; rewrite E in N; injection N as <-; [|rewrite V2 in V'; discriminate].
    assert (Di : del i = false). { unfold P in Pi. apply andb_true_iff in Pi. destruct Pi as (Pi & _). apply negb_true_iff in Pi. exact Pi. }
    destruct (b_next_at i ltac:(lia) Di) as (j2 & Rj & Aj & Bj & b2 & E2 & In & Out). rewrite E2.
    assert (j2 = j).
    { destruct (Nat.lt_trichotomy j2 j) as [Lt|[Eq|Gt]]; [|exact Eq|].
      - specialize (Bj ltac:(lia)). rewrite (A j2) in Bj by lia. discriminate.
      - rewrite (Aj j) in Pj by lia. discriminate. }
    subst j2. rewrite (In Hj). reflexivity.
  Qed.

End Boundary.

(* without has_incidences() the iterator is invalid at construction and reads nothing *)
Lemma boundary_no_incidences rdel n isb it0 iend :
  e_begin rdel n 0 = Some it0 -> e_begin rdel n n = Some iend ->
  b_begin false rdel n isb = Some (mkB it0 false (-1)%Z).
Proof. intros E0 E1. unfold b_begin. rewrite E0, E1. reflexivity. Qed.

(* stepping back from begin and then forward again: defined (and invalid) for every ++ / -- form *)
Theorem back_then_forward_defined nx pv l m x t :
  l = x :: t -> (1 <= m)%Z ->
  exists c' c'', c_prev pv l (mkC 0 0%Z true (Some x)) = Some c' /\ c_valid c' = false /\
                 c_next nx l m c' = Some c'' /\ c_valid c'' = false.
Proof.
  intros E Hm. pose proof (begin_wf l m x t E Hm) as W.
  assert (P : c_prev pv l (mkC 0 0%Z true (Some x)) = c_prev PrevWrap l (mkC 0 0%Z true (Some x))).
  { destruct pv; [reflexivity|apply prev_dec_wrap; destruct W; assumption]. }
  destruct (prev_defined l m _ W) as (c' & Ec'). rewrite P. exists c'.
  pose proof (prev_wf _ _ _ _ W Ec') as W'.
  assert (V' : c_valid c' = false).
  { rewrite prev_wrap_step in Ec' by (destruct W; assumption). simpl in Ec'. injection Ec' as <-. reflexivity. }
  destruct (next_defined l m c' W') as (c'' & Ec''). exists c''.
  split; [exact Ec'|]. split; [exact V'|]. split; [rewrite next_any_eq by (destruct W'; assumption); exact Ec''|].
  destruct (c_valid c'') eqn:V''; [|reflexivity].
  pose proof (next_never_validates NextEq l m c' c'' Ec'' V''). congruence.
Qed.
