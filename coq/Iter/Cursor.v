(* Iter/Cursor.v -- the cursor machines of OpenVolumeMesh's iterators and circulators (C05).
   Definitions only (proofs: Iter/CursorProofs.v).

   1. The circulator machine over a list [l] and [max_laps] with the operator++ / operator--
      VARIANTS that occur in src/OpenVolumeMesh/Core/Iterators/*.cc and detail/*.cc.
      Every read l[i] is CHECKED: a read outside the list is the outcome [None] (= undefined behaviour
      of the C++: out-of-range vector::operator[] / dereferencing end()).
   2. The wrappers that forward to an inner VertexOHalfEdgeIter (VertexIHalfEdgeIterImpl,
      VertexEdgeIterImpl).
   3. make_end_circulator (TopologyKernel.hh:128-137).
   4. The entity iterator that skips deleted entities (VertexIter.cc and its five siblings).
   5. BoundaryItemIter (BoundaryItemIter.hh), whose operator-- compares two iterators with >=,
      which resolves through BaseIterator::operator bool.  *)
From OVM Require Export Base.ListX.
Local Open Scope nat_scope.

(* ------------------------------------------------------------------ 1. circulators *)

(* BaseCirculator/BaseIterator state + the private cur_index_ (or hf_iter_ - begin()).
   c_cur = None is the default-constructed handle (-1). *)
Record cstate := mkC { c_idx : nat; c_lap : Z; c_valid : bool; c_cur : option nat }.

(* operator++ : "if (cur_index_ == size)" (NextEq) or "if (cur_index_ >= size)" (NextGe) *)
Inductive nextv := NextEq | NextGe.
(* operator-- :
   PrevWrap      if (idx == 0) { idx = size-1; --lap; if (lap<0) valid=false; } else --idx;   cur = l[idx]
   PrevDec       if (idx == 0) { idx = size;   --lap; if (lap<0) valid=false; } --idx;        cur = l[idx]
                 (FaceHalfEdgeIterImpl, FaceEdgeIterImpl, CellHalfFaceIterImpl, CellFaceIterImpl)
   (CellFaceIterImpl used to return early when lap<0, leaving its position at end(); repaired in /repo by
    "fix: CellFaceIter::operator-- must not leave its position at end()" -- it is the PrevDec form now) *)
Inductive prevv := PrevWrap | PrevDec.
(* constructor: "valid(size > 0); if (valid) cur = l[0]" (CtorChecked), or the unconditional
   "cur = l[0]" of FaceHalfEdgeIterImpl / FaceEdgeIterImpl (CtorUnchecked) *)
Inductive ctorv := CtorChecked | CtorUnchecked.

Definition c_read (l : list nat) (i : nat) (lap : Z) (v : bool) : option cstate :=
  match nth_error l i with
  | Some x => Some (mkC i lap v (Some x))
  | None => None
  end.

(* the circulator whose constructor found nothing to walk (or whose has_*_incidences guard failed) *)
Definition c_invalid : cstate := mkC 0 0%Z false None.

Definition c_begin (cv : ctorv) (l : list nat) : option cstate :=
  match cv with
  | CtorChecked => match l with
                   | [] => Some c_invalid
                   | x :: _ => Some (mkC 0 0%Z true (Some x))
                   end
  | CtorUnchecked => c_read l 0 0%Z true
  end.

Definition c_next (nx : nextv) (l : list nat) (m : Z) (c : cstate) : option cstate :=
  let i := S (c_idx c) in
  let wrap := match nx with NextEq => i =? length l | NextGe => length l <=? i end in
  if wrap then
    let lap := (c_lap c + 1)%Z in
    c_read l 0 lap (if (m <=? lap)%Z then false else c_valid c)
  else c_read l i (c_lap c) (c_valid c).

Definition c_prev (pv : prevv) (l : list nat) (c : cstate) : option cstate :=
  match pv with
  | PrevWrap =>
      if c_idx c =? 0 then
        let lap := (c_lap c - 1)%Z in
        (* size-1 on an empty list wraps around in size_t: the read is out of range *)
        match length l with
        | 0 => None
        | S j => c_read l j lap (if (lap <? 0)%Z then false else c_valid c)
        end
      else c_read l (c_idx c - 1) (c_lap c) (c_valid c)
  | PrevDec =>
      let '(i, lap, v) :=
        if c_idx c =? 0 then
          let lap := (c_lap c - 1)%Z in (length l, lap, if (lap <? 0)%Z then false else c_valid c)
        else (c_idx c, c_lap c, c_valid c) in
      match i with
      | 0 => None
      | S j => c_read l j lap v
      end
  end.

(* TopologyKernel::make_end_circulator *)
Definition c_make_end (m : Z) (c : cstate) : cstate :=
  if c_valid c then mkC (c_idx c) m false (c_cur c) else c.

(* what a client can observe: *it, valid(), lap() *)
Definition c_obs (c : cstate) : option nat * bool * Z := (c_cur c, c_valid c, c_lap c).

(* BaseCirculator::operator== on two circulators of the same mesh and centre *)
Definition c_eqb (a b : cstate) : bool :=
  (match c_cur a, c_cur b with
   | Some x, Some y => x =? y
   | None, None => true
   | _, _ => false
   end) && Bool.eqb (c_valid a) (c_valid b) && (c_lap a =? c_lap b)%Z.

Fixpoint c_iter (k : nat) (f : cstate -> option cstate) (c : cstate) : option cstate :=
  match k with
  | 0 => Some c
  | S k' => match f c with None => None | Some c' => c_iter k' f c' end
  end.

(* "for (it = begin; it.valid(); ++it) out.push_back( *it )" with fuel; also returns the state reached *)
Fixpoint c_trace (fuel : nat) (f : cstate -> option cstate) (c : cstate) : option (list nat * cstate) :=
  if c_valid c then
    match fuel with
    | 0 => None
    | S fuel' =>
        match c_cur c, f c with
        | Some x, Some c' =>
            match c_trace fuel' f c' with
            | Some (t, e) => Some (x :: t, e)
            | None => None
            end
        | _, _ => None
        end
    end
  else Some ([], c).

(* ------------------------------------------------------------------ 2. wrappers *)

(* VertexIHalfEdgeIterImpl / VertexEdgeIterImpl: an inner VertexOHalfEdgeIter (NextEq, PrevWrap,
   CtorChecked) and the outer BaseCirculator fields, refreshed from the inner one after each step *)
Record wstate := mkW { w_in : cstate; w_lap : Z; w_valid : bool; w_cur : option nat }.

Definition w_begin (f : nat -> nat) (l : list nat) : option wstate :=
  match c_begin CtorChecked l with
  | None => None
  | Some i => Some (mkW i 0%Z (c_valid i) (if c_valid i then option_map f (c_cur i) else None))
  end.

Definition w_refresh (f : nat -> nat) (i : cstate) : wstate :=
  mkW i (c_lap i) (c_valid i) (option_map f (c_cur i)).

Definition w_next (f : nat -> nat) (l : list nat) (m : Z) (w : wstate) : option wstate :=
  option_map (w_refresh f) (c_next NextEq l m (w_in w)).
Definition w_prev (f : nat -> nat) (l : list nat) (w : wstate) : option wstate :=
  option_map (w_refresh f) (c_prev PrevWrap l (w_in w)).
Definition w_obs (w : wstate) : option nat * bool * Z := (w_cur w, w_valid w, w_lap w).

(* ------------------------------------------------------------------ 4. entity iterators *)

(* cur_index_ is a C int that can leave [0,n]; cur_handle() is always Handle(cur_index_) *)
Record estate := mkE { e_idx : Z; e_valid : bool }.

(* [rdel i] = is_deleted(Handle(i)) as a checked read of the deleted-flag vector *)
Definition rdel_of (stride : nat) (dl : list bool) (i : nat) : option bool := nth_error dl (i / stride).

(* while ((unsigned)idx < n && is_deleted(idx)) ++idx; *)
Fixpoint skip_up (fuel : nat) (rdel : nat -> option bool) (n i : nat) : option nat :=
  match fuel with
  | 0 => Some i
  | S f =>
      if i <? n then
        match rdel i with
        | None => None
        | Some true => skip_up f rdel n (S i)
        | Some false => Some i
        end
      else Some i
  end.

(* shared tail of the constructor and of operator++ ((unsigned)idx >= n is true for a negative idx) *)
Definition e_settle_up (rdel : nat -> option bool) (n : nat) (i : Z) (v : bool) : option estate :=
  if (i <? 0)%Z then Some (mkE i false)
  else match skip_up (n - Z.to_nat i) rdel n (Z.to_nat i) with
       | None => None
       | Some j => Some (mkE (Z.of_nat j) (if n <=? j then false else v))
       end.

Definition e_begin (rdel : nat -> option bool) (n start : nat) : option estate :=
  e_settle_up rdel n (Z.of_nat start) true.
Definition e_next (rdel : nat -> option bool) (n : nat) (c : estate) : option estate :=
  e_settle_up rdel n (e_idx c + 1)%Z (e_valid c).

(* while (idx >= 0 && is_deleted(idx)) --idx;   result -1 = ran below 0 *)
Fixpoint skip_down (rdel : nat -> option bool) (i : nat) {struct i} : option Z :=
  match rdel i with
  | None => None
  | Some false => Some (Z.of_nat i)
  | Some true => match i with
                 | 0 => Some (-1)%Z
                 | S j => skip_down rdel j
                 end
  end.

(* operator-- : never sets valid back to true *)
Definition e_prev (rdel : nat -> option bool) (c : estate) : option estate :=
  let i := (e_idx c - 1)%Z in
  if (i <? 0)%Z then Some (mkE i false)
  else match skip_down rdel (Z.to_nat i) with
       | None => None
       | Some j => Some (mkE j (if (j <? 0)%Z then false else e_valid c))
       end.

Definition e_obs (c : estate) : Z * bool := (e_idx c, e_valid c).
(* BaseIterator::operator== (same mesh) *)
Definition e_eqb (a b : estate) : bool := (e_idx a =? e_idx b)%Z && Bool.eqb (e_valid a) (e_valid b).
(* "a >= b" on two BaseIterators: there is no operator>=, both sides convert through operator bool *)
Definition e_geb (a b : estate) : bool := e_valid a || negb (e_valid b).

Fixpoint e_trace (fuel : nat) (rdel : nat -> option bool) (n : nat) (c : estate) : option (list Z * estate) :=
  if e_valid c then
    match fuel with
    | 0 => None
    | S fuel' =>
        match e_next rdel n c with
        | Some c' => match e_trace fuel' rdel n c' with
                     | Some (t, e) => Some (e_idx c :: t, e)
                     | None => None
                     end
        | None => None
        end
    end
  else Some ([], c).

(* ------------------------------------------------------------------ 5. BoundaryItemIter *)

Record bstate := mkB { b_it : estate; b_valid : bool; b_cur : Z }.

(* is_boundary( *it_ ) : a negative handle indexes out of range *)
Definition isb_z (isb : nat -> option bool) (i : Z) : option bool :=
  if (i <? 0)%Z then None else isb (Z.to_nat i).

(* while (it_ != it_end_ && !is_boundary( *it_ )) ++it_; *)
Fixpoint b_scan_up (fuel : nat) (rdel : nat -> option bool) (n : nat) (isb : nat -> option bool)
         (iend it : estate) : option estate :=
  if e_eqb it iend then Some it
  else match fuel with
       | 0 => None
       | S f =>
           match isb_z isb (e_idx it) with
           | None => None
           | Some true => Some it
           | Some false => match e_next rdel n it with
                           | None => None
                           | Some it' => b_scan_up f rdel n isb iend it'
                           end
           end
       end.

(* while (it_ >= it_begin_ && !is_boundary( *it_ )) --it_; *)
Fixpoint b_scan_down (fuel : nat) (rdel : nat -> option bool) (isb : nat -> option bool)
         (ibegin it : estate) : option estate :=
  if e_geb it ibegin then
    match fuel with
    | 0 => None
    | S f =>
        match isb_z isb (e_idx it) with
        | None => None
        | Some true => Some it
        | Some false => match e_prev rdel it with
                        | None => None
                        | Some it' => b_scan_down f rdel isb ibegin it'
                        end
        end
    end
  else Some it.

Definition scan_fuel (n : nat) (it : estate) : nat := S (S n) + Z.abs_nat (e_idx it).

Definition b_begin (has_inc : bool) (rdel : nat -> option bool) (n : nat) (isb : nat -> option bool) : option bstate :=
  match e_begin rdel n 0, e_begin rdel n n with
  | Some it0, Some iend =>
      if negb has_inc then Some (mkB it0 false (-1)%Z)
      else match b_scan_up (scan_fuel n it0) rdel n isb iend it0 with
           | None => None
           | Some it => let v := negb (e_eqb it iend) in
                        Some (mkB it v (if v then e_idx it else (-1)%Z))
           end
  | _, _ => None
  end.

Definition b_next (rdel : nat -> option bool) (n : nat) (isb : nat -> option bool) (b : bstate) : option bstate :=
  match e_begin rdel n n, e_next rdel n (b_it b) with
  | Some iend, Some it1 =>
      match b_scan_up (scan_fuel n it1) rdel n isb iend it1 with
      | None => None
      | Some it => if negb (e_eqb it iend) then Some (mkB it (b_valid b) (e_idx it))
                   else Some (mkB it false (b_cur b))
      end
  | _, _ => None
  end.

Definition b_prev (rdel : nat -> option bool) (n : nat) (isb : nat -> option bool) (b : bstate) : option bstate :=
  match e_begin rdel n 0, e_prev rdel (b_it b) with
  | Some ibegin, Some it1 =>
      match b_scan_down (scan_fuel n it1) rdel isb ibegin it1 with
      | None => None
      | Some it => if e_geb it ibegin then Some (mkB it (b_valid b) (e_idx it))
                   else Some (mkB it false (b_cur b))
      end
  | _, _ => None
  end.

Definition b_obs (b : bstate) : Z * bool := (b_cur b, b_valid b).

Fixpoint b_trace (fuel : nat) (rdel : nat -> option bool) (n : nat) (isb : nat -> option bool) (b : bstate)
  : option (list Z * bstate) :=
  if b_valid b then
    match fuel with
    | 0 => None
    | S fuel' =>
        match b_next rdel n isb b with
        | Some b' => match b_trace fuel' rdel n isb b' with
                     | Some (t, e) => Some (b_cur b :: t, e)
                     | None => None
                     end
        | None => None
        end
    end
  else Some ([], b).
