(* Iter/BuildersProofs.v -- each builder list of Iter/Builders.v has as its SET of elements exactly the
   brute-force incident set computed from the stored definitions of the not-deleted entities, is NoDup
   where the relation is a set, and contains no deleted entity (C05_builders / C01_queries).

   Hypotheses, stated explicitly:
     bu_exact s   the invariant of DESIGN C01: each enabled cache holds, NoDup, exactly the live incident
                  entities (proved for every reachable state by the kernel component, not here);
     wf_iter s    structural well-formedness used by the queries: live entities reference live sub-entities,
                  enabled caches are sized to their arrays. *)
From Coq Require Import ZArith Lia Bool Arith List Sorted Permutation ZifyNat ZifyBool.
From OVM Require Import Kernel.State Kernel.Ops Kernel.Mirror Iter.Builders Iter.CursorProofs.
Import ListNotations.
Ltac Zify.zify_post_hook ::= Z.div_mod_to_equations.
Local Open Scope nat_scope.

(* ================================================================== list lemmas *)

Lemma memb_iff x l : memb x l = true <-> In x l.
Proof.
  unfold memb. rewrite existsb_exists. split.
  - intros (y & H & E). apply Nat.eqb_eq in E. subst. exact H.
  - intros H. exists x. split; [exact H|apply Nat.eqb_refl].
Qed.

Lemma sorted_insert_In x y l : In y (sorted_insert x l) <-> y = x \/ In y l.
Proof.
  induction l as [|a l IH]; simpl; [intuition|].
  destruct (x <=? a); simpl; [intuition|]. rewrite IH. intuition.
Qed.

Lemma sort_nat_In y l : In y (sort_nat l) <-> In y l.
Proof.
  induction l as [|a l IH]; simpl; [tauto|]. rewrite sorted_insert_In, IH. intuition.
Qed.

Lemma sorted_insert_sorted x l : StronglySorted le l -> StronglySorted le (sorted_insert x l).
Proof.
  induction 1 as [|a l S IH F]; simpl; [repeat constructor|].
  destruct (Nat.leb_spec x a).
  - constructor; [constructor; assumption|]. constructor; [lia|].
    eapply Forall_impl; [|exact F]. intros; lia.
  - constructor; [exact IH|]. apply Forall_forall. intros y Hy. apply sorted_insert_In in Hy.
    destruct Hy as [->|Hy]; [lia|]. rewrite Forall_forall in F. apply F. exact Hy.
Qed.

Lemma sort_nat_sorted l : StronglySorted le (sort_nat l).
Proof. induction l; simpl; [constructor|apply sorted_insert_sorted; assumption]. Qed.

Lemma unique_from_In y x l : In y (unique_from Nat.eqb x l) <-> y = x \/ In y l.
Proof.
  revert x. induction l as [|a l IH]; intros x; simpl; [intuition|].
  destruct (Nat.eqb_spec x a) as [->|Ne].
  - rewrite IH. intuition.
  - simpl. rewrite IH. intuition.
Qed.

Lemma unique_by_In y l : In y (unique_by Nat.eqb l) <-> In y l.
Proof. destruct l as [|x l]; simpl; [tauto|]. rewrite unique_from_In. intuition. Qed.

Lemma unique_from_sorted x l :
  StronglySorted le (x :: l) -> StronglySorted lt (unique_from Nat.eqb x l).
Proof.
  revert x. induction l as [|a l IH]; intros x S; simpl.
  - repeat constructor.
  - inversion S as [|? ? S' F]; subst. inversion F as [|? ? Hxa F']; subst.
    destruct (Nat.eqb_spec x a) as [->|Ne].
    + apply IH. exact S'.
    + constructor; [apply IH; exact S'|].
      apply Forall_forall. intros y Hy. apply unique_from_In in Hy.
      destruct Hy as [->|Hy]; [lia|].
      inversion S' as [|? ? _ Fa]; subst. rewrite Forall_forall in Fa. specialize (Fa y Hy). lia.
Qed.

Lemma strongly_sorted_lt_NoDup l : StronglySorted lt l -> NoDup l.
Proof.
  induction 1 as [|a l S IH F]; constructor; [|exact IH].
  intros H. rewrite Forall_forall in F. specialize (F a H). lia.
Qed.

Lemma sort_unique_In y l : In y (sort_unique l) <-> In y l.
Proof. unfold sort_unique. rewrite unique_by_In, sort_nat_In. tauto. Qed.

Lemma sort_unique_NoDup l : NoDup (sort_unique l).
Proof.
  unfold sort_unique. pose proof (sort_nat_sorted l) as S.
  destruct (sort_nat l) as [|x t]; simpl; [constructor|].
  apply strongly_sorted_lt_NoDup, unique_from_sorted. exact S.
Qed.

Lemma sort_unique_sorted l : StronglySorted lt (sort_unique l).
Proof.
  unfold sort_unique. pose proof (sort_nat_sorted l) as S.
  destruct (sort_nat l) as [|x t]; simpl; [constructor|]. apply unique_from_sorted. exact S.
Qed.

Lemma dedup_first_In y l : forall seen, In y (dedup_first seen l) <-> In y l /\ ~ In y seen.
Proof.
  induction l as [|a l IH]; intros seen; simpl; [tauto|].
  destruct (memb a seen) eqn:M.
  - apply memb_iff in M. rewrite IH. split; [intuition|]. intros [[->|H] N]; [contradiction|auto].
  - assert (Na : ~ In a seen) by (intros H; apply memb_iff in H; congruence).
    simpl. rewrite IH. simpl. split.
    + intros [->|[H N]]; [auto|]. split; [auto|]. intros H'. apply N. right. exact H'.
    + intros [[->|H] N]; [auto|]. destruct (Nat.eq_dec a y) as [->|Ne]; [auto|]. right. split; [exact H|]. intros [E|H']; auto.
Qed.

Lemma dedup_first_NoDup l : forall seen, NoDup (dedup_first seen l).
Proof.
  induction l as [|a l IH]; intros seen; simpl; [constructor|].
  destruct (memb a seen); [apply IH|]. constructor; [|apply IH].
  intros H. apply dedup_first_In in H. destruct H as [_ N]. apply N. left. reflexivity.
Qed.

Lemma NoDup_map_inj {A B} (f : A -> B) l : (forall x y, In x l -> In y l -> f x = f y -> x = y) -> NoDup l -> NoDup (map f l).
Proof.
  intros Inj N. induction N as [|a l Na N IH]; simpl; constructor.
  - intros H. apply in_map_iff in H. destruct H as (y & E & Hy).
    assert (y = a) by (apply Inj; [right; exact Hy|left; reflexivity|exact E]). subst. contradiction.
  - apply IH. intros x y Hx Hy. apply Inj; right; assumption.
Qed.

Lemma NoDup_same_length {A} (l1 l2 : list A) :
  NoDup l1 -> NoDup l2 -> (forall x, In x l1 <-> In x l2) -> length l1 = length l2.
Proof. intros N1 N2 H. apply Permutation_length, NoDup_Permutation; assumption. Qed.

(* ================================================================== handle arithmetic *)

Lemma half_eq_iff a b : a / 2 = b / 2 <-> a = b \/ a = opp b.
Proof. rewrite (opp_spec b). split; intros H; lia. Qed.

Lemma opp_lt_iff h n : opp h < 2 * n <-> h < 2 * n.
Proof. rewrite opp_spec. lia. Qed.

Lemma opp_inj a b : opp a = opp b -> a = b.
Proof. intros H. apply (f_equal opp) in H. rewrite !opp_involutive in H. exact H. Qed.

Lemma even_double_f f : Nat.even (2 * f) = true.
Proof. rewrite even_mod2. apply Nat.eqb_eq. lia. Qed.
Lemma even_double_f1 f : Nat.even (2 * f + 1) = false.
Proof. rewrite even_mod2. apply Nat.eqb_neq. lia. Qed.

Lemma in_halfface s hf h :
  In h (halfface s hf) <-> In (if Nat.even hf then h else opp h) (face_at s (hf / 2)).
Proof.
  unfold halfface. destruct (Nat.even hf); [tauto|].
  rewrite <- in_rev, in_map_iff. split.
  - intros (x & E & Hx). subst h. rewrite opp_involutive. exact Hx.
  - intros H. exists (opp h). split; [apply opp_involutive|exact H].
Qed.

(* some halfedge of the face lies on the edge of h  <->  h is in one of the two halffaces *)
Lemma face_on_edge_iff s f h :
  (exists h', In h' (face_at s f) /\ h' / 2 = h / 2) <-> In h (halfface s (2 * f)) \/ In h (halfface s (2 * f + 1)).
Proof.
  rewrite !in_halfface, even_double_f, even_double_f1.
  replace (2 * f / 2) with f by lia. replace ((2 * f + 1) / 2) with f by lia.
  split.
  - intros (h' & Hh & E). apply half_eq_iff in E. destruct E as [-> | ->]; [left|right]; exact Hh.
  - intros [H|H]; [exists h|exists (opp h)]; (split; [exact H|]); [reflexivity|apply opp_div2].
Qed.

Lemma l_hfhe_halfface s hf : l_hfhe s hf = halfface s hf.
Proof. unfold l_hfhe, halfface. destruct (Nat.even hf); [reflexivity|apply map_rev]. Qed.

Lemma l_hfv_halfface s hf : l_hfv s hf = map (he_from s) (halfface s hf).
Proof.
  unfold l_hfv, halfface. destruct (Nat.even hf); [reflexivity|].
  rewrite <- map_rev, map_map. apply map_ext. intros h. symmetry. apply he_from_opp.
Qed.

(* ================================================================== hypotheses *)

(* DESIGN C01: each enabled cache holds, NoDup, exactly the live incident entities *)
Definition bu_exact (s : mesh) : Prop :=
  (vbu s = true -> forall v, v < nv s ->
     NoDup (out_at s v) /\
     forall h, In h (out_at s v) <-> (h < 2 * ne s /\ live_e s (h / 2) = true /\ he_from s h = v))
  /\ (ebu s = true -> forall h, h < 2 * ne s ->
     NoDup (hfs_at s h) /\
     forall hf, In hf (hfs_at s h) <-> (hf < 2 * nf s /\ live_f s (hf / 2) = true /\ In h (halfface s hf)))
  /\ (fbu s = true -> forall hf, hf < 2 * nf s ->
     forall c, cell_of s hf = Some c <-> (live_c s c = true /\ In hf (cell_at s c))).

Definition wf_iter (s : mesh) : Prop :=
  (forall e, live_e s e = true -> live_v s (fst (edge_at s e)) = true /\ live_v s (snd (edge_at s e)) = true)
  /\ (forall f, live_f s f = true -> forall h, In h (face_at s f) -> live_e s (h / 2) = true)
  /\ (forall c, live_c s c = true -> forall hf, In hf (cell_at s c) -> live_f s (hf / 2) = true)
  /\ (vbu s = true -> length (out_hes s) = nv s)
  /\ (ebu s = true -> length (inc_hfs s) = 2 * ne s)
  /\ (fbu s = true -> length (inc_cell s) = 2 * nf s).

Lemma live_e_lt s e : live_e s e = true -> e < ne s.
Proof. unfold live_e. rewrite andb_true_iff, Nat.ltb_lt. tauto. Qed.
Lemma live_f_lt s f : live_f s f = true -> f < nf s.
Proof. unfold live_f. rewrite andb_true_iff, Nat.ltb_lt. tauto. Qed.
Lemma live_c_lt s c : live_c s c = true -> c < nc s.
Proof. unfold live_c. rewrite andb_true_iff, Nat.ltb_lt. tauto. Qed.
Lemma live_v_lt s v : live_v s v = true -> v < nv s.
Proof. unfold live_v. rewrite andb_true_iff, Nat.ltb_lt. tauto. Qed.

Lemma he_from_fst_snd s h : he_from s h = if Nat.even h then fst (edge_at s (h / 2)) else snd (edge_at s (h / 2)).
Proof. unfold he_from. destruct (edge_at s (h / 2)); destruct (Nat.even h); reflexivity. Qed.
Lemma he_to_fst_snd s h : he_to s h = if Nat.even h then snd (edge_at s (h / 2)) else fst (edge_at s (h / 2)).
Proof. unfold he_to. destruct (edge_at s (h / 2)); destruct (Nat.even h); reflexivity. Qed.

(* a halfedge of a live face / a halfface of a live cell is live *)
Lemma halfface_he_live s hf h : wf_iter s -> live_f s (hf / 2) = true -> In h (halfface s hf) -> live_e s (h / 2) = true.
Proof.
  intros (_ & Wf & _) L H. apply in_halfface in H. destruct (Nat.even hf).
  - exact (Wf _ L _ H).
  - rewrite <- (opp_div2 h). exact (Wf _ L _ H).
Qed.

(* ================================================================== the brute-force incident relations *)
(* all are stated over the stored definitions (edge_at / face_at / cell_at) and the deleted flags only *)

Definition inc_voh (s : mesh) (v h : nat) : Prop := h < 2 * ne s /\ live_e s (h / 2) = true /\ he_from s h = v.
Definition inc_vih (s : mesh) (v h : nat) : Prop := h < 2 * ne s /\ live_e s (h / 2) = true /\ he_to s h = v.
Definition inc_ve (s : mesh) (v e : nat) : Prop :=
  live_e s e = true /\ (fst (edge_at s e) = v \/ snd (edge_at s e) = v).
Definition inc_vv (s : mesh) (v w : nat) : Prop := exists h, inc_voh s v h /\ he_to s h = w.
Definition inc_hehf (s : mesh) (h hf : nat) : Prop := hf < 2 * nf s /\ live_f s (hf / 2) = true /\ In h (halfface s hf).
(* faces on the edge e *)
Definition inc_ef (s : mesh) (e f : nat) : Prop := live_f s f = true /\ exists h, In h (face_at s f) /\ h / 2 = e.
Definition inc_ehf (s : mesh) (e hf : nat) : Prop := hf < 2 * nf s /\ inc_ef s e (hf / 2).
(* cells with a halfface that contains the halfedge h *)
Definition inc_hec (s : mesh) (h c : nat) : Prop := live_c s c = true /\ exists hf, In hf (cell_at s c) /\ In h (halfface s hf).
(* cells with a halfface on the edge e (either direction) *)
Definition inc_ec_nat (s : mesh) (e c : nat) : Prop :=
  live_c s c = true /\ exists hf h, In hf (cell_at s c) /\ In h (face_at s (hf / 2)) /\ h / 2 = e.
Definition inc_cc (s : mesh) (c c' : nat) : Prop := live_c s c' = true /\ exists hf, In hf (cell_at s c) /\ In (opp hf) (cell_at s c').
Definition inc_vf (s : mesh) (v f : nat) : Prop :=
  live_f s f = true /\ exists h, In h (face_at s f) /\ (he_from s h = v \/ he_to s h = v).
Definition inc_vhf (s : mesh) (v hf : nat) : Prop := hf < 2 * nf s /\ inc_vf s v (hf / 2).
(* cells with a halfface that contains a halfedge LEAVING v *)
Definition inc_vc (s : mesh) (v c : nat) : Prop :=
  live_c s c = true /\ exists hf h, In hf (cell_at s c) /\ In h (halfface s hf) /\ he_from s h = v.
(* cells with a face that touches v *)
Definition inc_vc_nat (s : mesh) (v c : nat) : Prop :=
  live_c s c = true /\ exists hf, In hf (cell_at s c) /\ exists h, In h (face_at s (hf / 2)) /\ (he_from s h = v \/ he_to s h = v).

(* ================================================================== vertex -> halfedges / edges / vertices *)

Section WithState.
  Variable s : mesh.
  Hypothesis BU : bu_exact s.
  Hypothesis WF : wf_iter s.

  Theorem voh_exact v : vbu s = true -> v < nv s ->
    (forall h, In h (l_voh s v) <-> inc_voh s v h) /\ NoDup (l_voh s v).
  Proof.
    intros F Hv. unfold l_voh. rewrite F. destruct BU as (B & _). destruct (B F v Hv) as (N & I).
    split; [exact I|exact N].
  Qed.

  Theorem vih_exact v : vbu s = true -> v < nv s ->
    (forall h, In h (l_vih s v) <-> inc_vih s v h) /\ NoDup (l_vih s v).
  Proof.
    intros F Hv. destruct (voh_exact v F Hv) as (I & N). split.
    - intros h. unfold l_vih. rewrite in_map_iff. split.
      + intros (x & E & Hx). subst h. apply I in Hx. destruct Hx as (A & B & C).
        unfold inc_vih. rewrite opp_lt_iff, opp_div2, he_to_opp. auto.
      + intros (A & B & C). exists (opp h). split; [apply opp_involutive|].
        apply I. unfold inc_voh. rewrite opp_lt_iff, opp_div2, he_from_opp. auto.
    - unfold l_vih. apply NoDup_map_inj; [|exact N]. intros x y _ _. apply opp_inj.
  Qed.

  Theorem ve_exact v : vbu s = true -> v < nv s -> forall e, In e (l_ve s v) <-> inc_ve s v e.
  Proof.
    intros F Hv e. destruct (voh_exact v F Hv) as (I & _). unfold l_ve, half. rewrite in_map_iff. split.
    - intros (h & E & Hh). subst e. apply I in Hh. destruct Hh as (A & B & C).
      split; [exact B|]. rewrite he_from_fst_snd in C. destruct (Nat.even h); auto.
    - intros (L & [C|C]).
      + exists (2 * e). split; [lia|]. apply I. unfold inc_voh.
        replace (2 * e / 2) with e by lia. pose proof (live_e_lt _ _ L).
        rewrite he_from_fst_snd, even_double_f. replace (2 * e / 2) with e by lia. repeat split; [lia|exact L|exact C].
      + exists (2 * e + 1). split; [lia|]. apply I. unfold inc_voh.
        replace ((2 * e + 1) / 2) with e by lia. pose proof (live_e_lt _ _ L).
        rewrite he_from_fst_snd, even_double_f1. replace ((2 * e + 1) / 2) with e by lia. repeat split; [lia|exact L|exact C].
  Qed.

  (* an edge appears twice around v exactly when it is a self-loop at v *)
  Theorem ve_NoDup v : vbu s = true -> v < nv s ->
    (forall e, live_e s e = true -> fst (edge_at s e) = v -> snd (edge_at s e) = v -> False) ->
    NoDup (l_ve s v).
  Proof.
    intros F Hv NL. destruct (voh_exact v F Hv) as (I & N). unfold l_ve.
    apply NoDup_map_inj; [|exact N]. intros x y Hx Hy E. unfold half in E.
    apply half_eq_iff in E. destruct E as [E|E]; [exact E|]. exfalso.
    apply I in Hx. apply I in Hy. destruct Hx as (_ & Lx & Cx). destruct Hy as (_ & _ & Cy).
    subst x. rewrite he_from_opp in Cx. rewrite he_from_fst_snd in Cy. rewrite he_to_fst_snd in Cx.
    rewrite opp_div2 in Lx. destruct (Nat.even y); eapply NL; eauto.
  Qed.

  Theorem vv_exact v : vbu s = true -> v < nv s -> forall w, In w (l_vv s v) <-> inc_vv s v w.
  Proof.
    intros F Hv w. destruct (voh_exact v F Hv) as (I & _). unfold l_vv, inc_vv. rewrite in_map_iff. split.
    - intros (h & E & Hh). exists h. split; [apply I; exact Hh|exact E].
    - intros (h & Hh & E). exists h. split; [exact E|apply I; exact Hh].
  Qed.

  (* ================================================================== halfedge / edge -> halffaces / faces *)

  Theorem hehf_exact h : ebu s = true -> h < 2 * ne s ->
    (forall hf, In hf (l_hehf s h) <-> inc_hehf s h hf) /\ NoDup (l_hehf s h).
  Proof.
    intros F Hh. unfold l_hehf. rewrite F. destruct BU as (_ & B & _). destruct (B F h Hh) as (N & I).
    split; [exact I|exact N].
  Qed.

  Theorem hef_exact h : ebu s = true -> h < 2 * ne s ->
    (forall f, In f (l_hef s h) <-> inc_ef s (h / 2) f) /\ NoDup (l_hef s h).
  Proof.
    intros F Hh. destruct (hehf_exact h F Hh) as (I & _). split; [|apply sort_unique_NoDup].
    intros f. unfold l_hef. rewrite sort_unique_In, in_map_iff. unfold half, inc_ef. split.
    - intros (hf & E & Hhf). subst f. apply I in Hhf. destruct Hhf as (A & B & C).
      split; [exact B|]. apply in_halfface in C. destruct (Nat.even hf).
      + exists h. auto.
      + exists (opp h). split; [exact C|apply opp_div2].
    - intros (L & Hex). apply face_on_edge_iff in Hex. pose proof (live_f_lt _ _ L).
      destruct Hex as [C|C]; [exists (2 * f)|exists (2 * f + 1)]; (split; [lia|]); apply I; unfold inc_hehf.
      + replace (2 * f / 2) with f by lia. repeat split; [lia|exact L|exact C].
      + replace ((2 * f + 1) / 2) with f by lia. repeat split; [lia|exact L|exact C].
  Qed.

  Theorem ef_exact e : ebu s = true -> e < ne s ->
    (forall f, In f (l_ef s e) <-> inc_ef s e f) /\ NoDup (l_ef s e).
  Proof.
    intros F He. unfold l_ef. destruct (hef_exact (2 * e) F ltac:(lia)) as (I & N).
    replace (2 * e / 2) with e in I by lia. split; assumption.
  Qed.

  Theorem ehf_exact e : ebu s = true -> e < ne s -> forall hf, In hf (l_ehf s e) <-> inc_ehf s e hf.
  Proof.
    intros F He hf. destruct (hehf_exact (2 * e) F ltac:(lia)) as (I & _).
    unfold l_ehf, inc_ehf, inc_ef. rewrite in_flat_map. split.
    - intros (x & Hx & Hin). apply I in Hx. destruct Hx as (A & B & C).
      assert (Ex : exists h, In h (face_at s (x / 2)) /\ h / 2 = e).
      { apply in_halfface in C. destruct (Nat.even x); [exists (2 * e)|exists (opp (2 * e))]; (split; [exact C|]); [lia|rewrite opp_div2; lia]. }
      simpl in Hin. destruct Hin as [<-|[<-|[]]].
      + auto.
      + rewrite opp_lt_iff, opp_div2. auto.
    - intros (A & L & Hex). replace e with (2 * e / 2) in Hex by lia. apply face_on_edge_iff in Hex.
      assert (Hd : 2 * (hf / 2) = hf \/ 2 * (hf / 2) + 1 = hf) by lia.
      assert (Ho : forall x, x / 2 = hf / 2 -> x = hf \/ opp x = hf).
      { intros x E. apply half_eq_iff in E. destruct E as [-> | ->]; [left; reflexivity|right; apply opp_involutive]. }
      destruct Hex as [C|C].
      + exists (2 * (hf / 2)). split.
        * apply I. unfold inc_hehf. replace (2 * (hf / 2) / 2) with (hf / 2) by lia. repeat split; [lia|exact L|exact C].
        * simpl. destruct (Ho (2 * (hf / 2)) ltac:(lia)); auto.
      + exists (2 * (hf / 2) + 1). split.
        * apply I. unfold inc_hehf. replace ((2 * (hf / 2) + 1) / 2) with (hf / 2) by lia. repeat split; [lia|exact L|exact C].
        * simpl. destruct (Ho (2 * (hf / 2) + 1) ltac:(lia)); auto.
  Qed.

  (* ================================================================== halfedge / edge -> cells *)

  Lemma cell_list_In hf c : In c (cell_list s hf) <-> cell_of s hf = Some c.
  Proof. unfold cell_list. destruct (cell_of s hf); simpl; split; intros H; try tauto; try discriminate; [destruct H as [->|[]]; reflexivity|injection H as ->; auto]. Qed.

  Theorem hec_exact h : ebu s = true -> fbu s = true -> h < 2 * ne s ->
    (forall c, In c (l_hec s h) <-> inc_hec s h c) /\ NoDup (l_hec s h).
  Proof.
    intros Fe Ff Hh. destruct BU as (_ & Be & Bf). destruct (Be Fe h Hh) as (_ & Ie).
    destruct WF as (_ & _ & Wc & _ & _ & Wsz). specialize (Wsz Ff).
    split.
    - intros c. unfold l_hec, inc_hec. rewrite Fe, Ff. simpl.
      assert (Core : In c (flat_map (cell_list s) (hfs_at s h)) <-> live_c s c = true /\ exists hf, In hf (cell_at s c) /\ In h (halfface s hf)).
      { rewrite in_flat_map. split.
        - intros (hf & Hhf & Hc). apply Ie in Hhf. destruct Hhf as (A & B & C).
          apply cell_list_In in Hc. apply (Bf Ff hf A) in Hc. destruct Hc as (L & I). split; [exact L|]. exists hf. auto.
        - intros (L & hf & I & C). exists hf. pose proof (Wc c L hf I) as Lf. pose proof (live_f_lt _ _ Lf).
          split; [apply Ie; repeat split; [lia|exact Lf|exact C]|]. apply cell_list_In. apply (Bf Ff hf ltac:(lia)). auto. }
      destruct (hfs_at s h) as [|hf0 t] eqn:E.
      + simpl in Core. split; [intros []|]. intros H. apply Core in H. destruct H.
      + assert (H0 : hf0 < length (inc_cell s)).
        { rewrite Wsz. assert (H : In hf0 (hf0 :: t)) by (left; reflexivity). apply Ie in H. tauto. }
        apply Nat.ltb_lt in H0. rewrite H0. rewrite dedup_first_In. rewrite Core. simpl. tauto.
    - unfold l_hec. destruct (ebu s && fbu s); [|constructor]. destruct (hfs_at s h); [constructor|].
      destruct (_ <? _); [apply dedup_first_NoDup|constructor].
  Qed.

  Theorem ec_exact e : ebu s = true -> fbu s = true -> e < ne s ->
    (forall c, In c (l_ec s e) <-> inc_hec s (2 * e) c) /\ NoDup (l_ec s e).
  Proof. intros Fe Ff He. unfold l_ec. apply hec_exact; [exact Fe|exact Ff|lia]. Qed.

  (* a cell is closed along its edges: whenever one of its halffaces contains a halfedge, (the same or)
     another of its halffaces contains the opposite halfedge.  Holds for every cell that passes add_cell's
     topology check; it is what makes edge_cells(e) = halfedge_cells(halfedge 0) complete. *)
  Definition cells_closed : Prop :=
    forall c, live_c s c = true -> forall hf h, In hf (cell_at s c) -> In h (halfface s hf) ->
      exists hf', In hf' (cell_at s c) /\ In (opp h) (halfface s hf').

  Theorem ec_natural e : ebu s = true -> fbu s = true -> e < ne s -> cells_closed ->
    forall c, In c (l_ec s e) <-> inc_ec_nat s e c.
  Proof.
    intros Fe Ff He CC c. destruct (ec_exact e Fe Ff He) as (I & _). rewrite I. unfold inc_hec, inc_ec_nat. split.
    - intros (L & hf & Hc & Hh). split; [exact L|]. apply in_halfface in Hh.
      exists hf. destruct (Nat.even hf); [exists (2 * e)|exists (opp (2 * e))]; repeat split; try assumption; [lia|rewrite opp_div2; lia].
    - intros (L & hf & h & Hc & Hh & E). split; [exact L|].
      assert (E2 : h / 2 = 2 * e / 2) by lia. apply half_eq_iff in E2.
      (* h is 2e or its opposite; h lies in halfface hf or in the opposite orientation of it *)
      assert (Hin : In h (halfface s hf) \/ In (opp h) (halfface s hf)).
      { rewrite !in_halfface. destruct (Nat.even hf); [left; exact Hh|right; rewrite opp_involutive; exact Hh]. }
      destruct E2 as [-> | ->]; destruct Hin as [Hin|Hin].
      + exists hf. auto.
      + destruct (CC c L hf _ Hc Hin) as (hf' & Hc' & Hh'). rewrite opp_involutive in Hh'. exists hf'. auto.
      + destruct (CC c L hf _ Hc Hin) as (hf' & Hc' & Hh'). rewrite opp_involutive in Hh'. exists hf'. auto.
      + rewrite opp_involutive in Hin. exists hf. auto.
  Qed.

  (* ================================================================== cell -> cells *)

  Theorem cc_exact c : fbu s = true -> live_c s c = true ->
    (forall c', In c' (l_cc s c) <-> inc_cc s c c') /\ NoDup (l_cc s c).
  Proof.
    intros Ff L. destruct BU as (_ & _ & Bf). destruct WF as (_ & _ & Wc & _). split.
    - intros c'. unfold l_cc, inc_cc. rewrite Ff, sort_unique_In, in_flat_map. split.
      + intros (hf & Hhf & Hc). apply cell_list_In in Hc.
        pose proof (live_f_lt _ _ (Wc c L hf Hhf)).
        apply (Bf Ff (opp hf)) in Hc; [|apply opp_lt_iff; lia]. destruct Hc as (L' & I'). split; [exact L'|]. exists hf. auto.
      + intros (L' & hf & Hhf & I'). exists hf. split; [exact Hhf|]. apply cell_list_In.
        pose proof (live_f_lt _ _ (Wc c L hf Hhf)). apply (Bf Ff (opp hf)); [apply opp_lt_iff; lia|auto].
    - unfold l_cc. destruct (fbu s); [apply sort_unique_NoDup|constructor].
  Qed.

  (* ================================================================== vertex -> faces / halffaces / cells *)

  Lemma full_bu_split : full_bu s = true -> vbu s = true /\ ebu s = true /\ fbu s = true.
  Proof. unfold full_bu. rewrite !andb_true_iff. tauto. Qed.

  (* halffaces reached from v: those that contain an outgoing halfedge of v *)
  Lemma out_hfs_In v hf : vbu s = true -> ebu s = true -> v < nv s ->
    (exists h, In h (out_at s v) /\ In hf (hfs_at s h)) <->
    (hf < 2 * nf s /\ live_f s (hf / 2) = true /\ exists h, In h (halfface s hf) /\ he_from s h = v).
  Proof.
    intros Fv Fe Hv. destruct BU as (Bv & Be & _). destruct (Bv Fv v Hv) as (_ & Iv). split.
    - intros (h & Ho & Hh). apply Iv in Ho. destruct Ho as (A & B & C).
      destruct (Be Fe h A) as (_ & Ie). apply Ie in Hh. destruct Hh as (A' & B' & C'). repeat split; try assumption. exists h. auto.
    - intros (A & B & h & C & D). pose proof (halfface_he_live s hf h WF B C) as Lh. pose proof (live_e_lt _ _ Lh).
      exists h. split; [apply Iv; repeat split; [lia|exact Lh|exact D]|].
      destruct (Be Fe h ltac:(lia)) as (_ & Ie). apply Ie. auto.
  Qed.

  Theorem vf_exact v : full_bu s = true -> v < nv s ->
    (forall f, In f (l_vf s v) <-> inc_vf s v f) /\ NoDup (l_vf s v).
  Proof.
    intros F Hv. destruct (full_bu_split F) as (Fv & Fe & Ff). split.
    - intros f. unfold l_vf, inc_vf. rewrite F, sort_unique_In, in_flat_map. split.
      + intros (h & Ho & Hm). apply in_map_iff in Hm. destruct Hm as (hf & E & Hhf). unfold half in E. subst f.
        assert (Ex : exists h, In h (out_at s v) /\ In hf (hfs_at s h)) by eauto.
        apply (out_hfs_In v hf Fv Fe Hv) in Ex. destruct Ex as (A & B & h' & C & D). split; [exact B|].
        apply in_halfface in C. destruct (Nat.even hf).
        * exists h'. auto.
        * exists (opp h'). split; [exact C|]. right. rewrite he_to_opp. exact D.
      + intros (L & h & Hh & D). pose proof (live_f_lt _ _ L).
        assert (Ex : exists hf, hf / 2 = f /\ hf < 2 * nf s /\ exists h', In h' (halfface s hf) /\ he_from s h' = v).
        { destruct D as [D|D].
          - exists (2 * f). split; [lia|]. split; [lia|]. exists h. split; [|exact D].
            apply in_halfface. rewrite even_double_f. replace (2 * f / 2) with f by lia. exact Hh.
          - exists (2 * f + 1). split; [lia|]. split; [lia|]. exists (opp h). split; [|rewrite he_from_opp; exact D].
            apply in_halfface. rewrite even_double_f1, opp_involutive. replace ((2 * f + 1) / 2) with f by lia. exact Hh. }
        destruct Ex as (hf & E & A & Hex). subst f.
        assert (Ex : exists h, In h (out_at s v) /\ In hf (hfs_at s h)) by (apply (out_hfs_In v hf Fv Fe Hv); auto).
        destruct Ex as (h0 & Ho & Hhf). exists h0. split; [exact Ho|]. apply in_map_iff. exists hf. auto.
    - unfold l_vf. destruct (full_bu s); [apply sort_unique_NoDup|constructor].
  Qed.

  Theorem vc_exact v : full_bu s = true -> v < nv s ->
    (forall c, In c (l_vc s v) <-> inc_vc s v c) /\ NoDup (l_vc s v).
  Proof.
    intros F Hv. destruct (full_bu_split F) as (Fv & Fe & Ff). destruct BU as (_ & _ & Bf). destruct WF as (_ & _ & Wc & _). split.
    - intros c. unfold l_vc, inc_vc. rewrite F, sort_unique_In, in_flat_map. split.
      + intros (h & Ho & Hm). apply in_flat_map in Hm. destruct Hm as (hf & Hhf & Hc).
        assert (Ex : exists h, In h (out_at s v) /\ In hf (hfs_at s h)) by eauto.
        apply (out_hfs_In v hf Fv Fe Hv) in Ex. destruct Ex as (A & B & h' & C & D).
        apply cell_list_In in Hc. apply (Bf Ff hf A) in Hc. destruct Hc as (L & I). split; [exact L|]. exists hf, h'. auto.
      + intros (L & hf & h & I & C & D). pose proof (Wc c L hf I) as Lf. pose proof (live_f_lt _ _ Lf).
        assert (Ex : exists h, In h (out_at s v) /\ In hf (hfs_at s h)).
        { apply (out_hfs_In v hf Fv Fe Hv). repeat split; [lia|exact Lf|]. exists h. auto. }
        destruct Ex as (h0 & Ho & Hhf). exists h0. split; [exact Ho|]. apply in_flat_map. exists hf. split; [exact Hhf|].
        apply cell_list_In. apply (Bf Ff hf ltac:(lia)). auto.
    - unfold l_vc. destruct (full_bu s); [apply sort_unique_NoDup|constructor].
  Qed.

  (* every halfface that touches a vertex also has a halfedge leaving it (true of closed loops, i.e. of every
     face accepted by add_face's topology check or built from vertices) *)
  Definition faces_closed : Prop :=
    forall f, live_f s f = true -> forall h, In h (face_at s f) ->
      (exists h', In h' (face_at s f) /\ he_from s h' = he_to s h) /\ (exists h', In h' (face_at s f) /\ he_to s h' = he_from s h).

  Theorem vc_natural v : full_bu s = true -> v < nv s -> faces_closed ->
    forall c, In c (l_vc s v) <-> inc_vc_nat s v c.
  Proof.
    intros F Hv FC c. destruct (vc_exact v F Hv) as (I & _). rewrite I. unfold inc_vc, inc_vc_nat.
    destruct WF as (_ & _ & Wc & _). split.
    - intros (L & hf & h & Hc & Hh & D). split; [exact L|]. exists hf. split; [exact Hc|].
      apply in_halfface in Hh. destruct (Nat.even hf); [exists h; auto|]. exists (opp h). split; [exact Hh|]. right. rewrite he_to_opp. exact D.
    - intros (L & hf & Hc & h & Hh & D). split; [exact L|]. exists hf. pose proof (Wc c L hf Hc) as Lf.
      destruct (FC _ Lf h Hh) as ((h1 & H1 & E1) & (h2 & H2 & E2)).
      (* a halfedge of the stored face leaving v, and one arriving at v *)
      assert (Out : exists a, In a (face_at s (hf / 2)) /\ he_from s a = v) by (destruct D as [D|D]; [exists h; auto|exists h1; split; [auto|congruence]]).
      assert (Inn : exists a, In a (face_at s (hf / 2)) /\ he_to s a = v) by (destruct D as [D|D]; [exists h2; split; [auto|congruence]|exists h; auto]).
      destruct (Nat.even hf) eqn:Ev.
      + destruct Out as (a & Ha & Da). exists a. repeat split; try assumption. apply in_halfface. rewrite Ev. exact Ha.
      + destruct Inn as (a & Ha & Da). exists (opp a). repeat split; try assumption.
        * apply in_halfface. rewrite Ev, opp_involutive. exact Ha.
        * rewrite he_from_opp. exact Da.
  Qed.

  Theorem vhf_exact v : vbu s = true -> ebu s = true -> v < nv s ->
    (forall hf, In hf (l_vhf s v) <-> inc_vhf s v hf) /\ NoDup (l_vhf s v).
  Proof.
    intros Fv Fe Hv. split; [|apply sort_unique_NoDup].
    intros hf. unfold l_vhf, inc_vhf, inc_vf. rewrite sort_unique_In, in_flat_map. split.
    - intros (e & He & Hhf). apply (ve_exact v Fv Hv) in He. destruct He as (Le & D).
      apply (ehf_exact e Fe (live_e_lt _ _ Le)) in Hhf. destruct Hhf as (A & Lf & h & Hh & E).
      split; [exact A|]. split; [exact Lf|]. exists h. split; [exact Hh|]. subst e.
      rewrite he_from_fst_snd, he_to_fst_snd. destruct (Nat.even h); tauto.
    - intros (A & Lf & h & Hh & D). destruct WF as (_ & Wf & _). pose proof (Wf _ Lf h Hh) as Le.
      exists (h / 2). split.
      + apply (ve_exact v Fv Hv). split; [exact Le|]. rewrite he_from_fst_snd, he_to_fst_snd in D. destruct (Nat.even h); tauto.
      + apply (ehf_exact (h / 2) Fe (live_e_lt _ _ Le)). split; [exact A|]. split; [exact Lf|]. exists h. auto.
  Qed.

  (* ================================================================== top-down circulators: read off the definitions *)

  Theorem hfhe_exact hf : l_hfhe s hf = halfface s hf.
  Proof. apply l_hfhe_halfface. Qed.
  Theorem hfe_exact hf : l_hfe s hf = map half (halfface s hf).
  Proof. reflexivity. Qed.
  Theorem hfv_exact hf : l_hfv s hf = map (he_from s) (halfface s hf).
  Proof. apply l_hfv_halfface. Qed.
  Theorem fv_exact f : l_fv s f = map (he_from s) (face_at s f).
  Proof. unfold l_fv. rewrite l_hfv_halfface. unfold halfface. rewrite even_double_f. replace (2 * f / 2) with f by lia. reflexivity. Qed.
  Theorem che_exact c h : In h (l_che s c) <-> exists hf, In hf (cell_at s c) /\ In h (halfface s hf).
  Proof. unfold l_che, l_chf. rewrite in_flat_map. split; intros (hf & A & B); exists hf; rewrite l_hfhe_halfface in *; auto. Qed.
  Theorem ce_exact c : (forall e, In e (l_ce s c) <-> exists hf h, In hf (cell_at s c) /\ In h (face_at s (hf / 2)) /\ h / 2 = e) /\ NoDup (l_ce s c).
  Proof.
    split; [|apply sort_unique_NoDup]. intros e. unfold l_ce. rewrite sort_unique_In, in_map_iff. unfold half. split.
    - intros (h & E & Hh). apply che_exact in Hh. destruct Hh as (hf & A & B). apply in_halfface in B. exists hf.
      destruct (Nat.even hf); [exists h; auto|]. exists (opp h). rewrite opp_div2. auto.
    - intros (hf & h & A & B & E). destruct (Nat.even hf) eqn:Ev.
      + exists h. split; [exact E|]. apply che_exact. exists hf. split; [exact A|]. apply in_halfface. rewrite Ev. exact B.
      + exists (opp h). split; [rewrite opp_div2; exact E|]. apply che_exact. exists hf. split; [exact A|]. apply in_halfface. rewrite Ev, opp_involutive. exact B.
  Qed.
  Theorem cv_exact c : (forall v, In v (l_cv s c) <-> exists hf h, In hf (cell_at s c) /\ In h (face_at s (hf / 2)) /\ he_from s h = v) /\ NoDup (l_cv s c).
  Proof.
    split; [|apply sort_unique_NoDup]. intros v. unfold l_cv, l_chf. rewrite sort_unique_In, in_flat_map. split.
    - intros (hf & A & B). rewrite fv_exact in B. apply in_map_iff in B. destruct B as (h & E & Hh). exists hf, h. auto.
    - intros (hf & h & A & B & E). exists hf. split; [exact A|]. rewrite fv_exact. apply in_map_iff. exists h. auto.
  Qed.

  (* ================================================================== no deleted entity in any answer *)

  Corollary voh_live v h : vbu s = true -> v < nv s -> In h (l_voh s v) -> live_he s h = true.
  Proof. intros F Hv H. apply (voh_exact v F Hv) in H. unfold live_he. apply H. Qed.
  Corollary vih_live v h : vbu s = true -> v < nv s -> In h (l_vih s v) -> live_he s h = true.
  Proof. intros F Hv H. apply (vih_exact v F Hv) in H. unfold live_he. apply H. Qed.
  Corollary ve_live v e : vbu s = true -> v < nv s -> In e (l_ve s v) -> live_e s e = true.
  Proof. intros F Hv H. apply (ve_exact v F Hv) in H. apply H. Qed.
  Corollary vv_live v w : vbu s = true -> v < nv s -> In w (l_vv s v) -> live_v s w = true.
  Proof.
    intros F Hv H. apply (vv_exact v F Hv) in H. destruct H as (h & (A & B & C) & D).
    destruct WF as (We & _). destruct (We _ B) as (L1 & L2). subst w. rewrite he_to_fst_snd. destruct (Nat.even h); assumption.
  Qed.
  Corollary hehf_live h hf : ebu s = true -> h < 2 * ne s -> In hf (l_hehf s h) -> live_hf s hf = true.
  Proof. intros F Hh H. apply (hehf_exact h F Hh) in H. unfold live_hf. apply H. Qed.
  Corollary hef_live h f : ebu s = true -> h < 2 * ne s -> In f (l_hef s h) -> live_f s f = true.
  Proof. intros F Hh H. apply (hef_exact h F Hh) in H. apply H. Qed.
  Corollary ef_live e f : ebu s = true -> e < ne s -> In f (l_ef s e) -> live_f s f = true.
  Proof. intros F He H. apply (ef_exact e F He) in H. apply H. Qed.
  Corollary ehf_live e hf : ebu s = true -> e < ne s -> In hf (l_ehf s e) -> live_hf s hf = true.
  Proof. intros F He H. apply (ehf_exact e F He) in H. unfold live_hf. apply H. Qed.
  Corollary hec_live h c : ebu s = true -> fbu s = true -> h < 2 * ne s -> In c (l_hec s h) -> live_c s c = true.
  Proof. intros Fe Ff Hh H. apply (hec_exact h Fe Ff Hh) in H. apply H. Qed.
  Corollary ec_live e c : ebu s = true -> fbu s = true -> e < ne s -> In c (l_ec s e) -> live_c s c = true.
  Proof. intros Fe Ff He H. apply (ec_exact e Fe Ff He) in H. apply H. Qed.
  Corollary cc_live c c' : fbu s = true -> live_c s c = true -> In c' (l_cc s c) -> live_c s c' = true.
  Proof. intros Ff L H. apply (cc_exact c Ff L) in H. apply H. Qed.
  Corollary vf_live v f : full_bu s = true -> v < nv s -> In f (l_vf s v) -> live_f s f = true.
  Proof. intros F Hv H. apply (vf_exact v F Hv) in H. apply H. Qed.
  Corollary vc_live v c : full_bu s = true -> v < nv s -> In c (l_vc s v) -> live_c s c = true.
  Proof. intros F Hv H. apply (vc_exact v F Hv) in H. apply H. Qed.
  Corollary vhf_live v hf : vbu s = true -> ebu s = true -> v < nv s -> In hf (l_vhf s v) -> live_hf s hf = true.
  Proof. intros Fv Fe Hv H. apply (vhf_exact v Fv Fe Hv) in H. unfold live_hf. apply H. Qed.

End WithState.

(* ================================================================== is_boundary (6 kinds) and valence (4 kinds) *)

Lemma exists_ub_spec p l :
  (forall x, In x l -> exists b, p x = Some b) ->
  exists b, exists_ub p l = Some b /\ (b = true <-> exists x, In x l /\ p x = Some true).
Proof.
  induction l as [|a l IH]; intros D; simpl.
  - exists false. split; [reflexivity|]. split; [discriminate|]. intros (x & [] & _).
  - destruct (D a (or_introl eq_refl)) as (ba & Ea). rewrite Ea. destruct ba.
    + exists true. split; [reflexivity|]. split; [|reflexivity]. intros _. exists a. auto.
    + destruct (IH (fun x H => D x (or_intror H))) as (b & E & I). exists b. split; [exact E|]. rewrite I. split.
      * intros (x & H & Px). exists x. auto.
      * intros (x & [->|H] & Px); [congruence|]. exists x. auto.
Qed.

(* brute-force boundary predicates over the definitions of the not-deleted entities *)
Definition bnd_hf (s : mesh) (hf : nat) : Prop := forall c, ~ (live_c s c = true /\ In hf (cell_at s c)).
Definition bnd_f (s : mesh) (f : nat) : Prop := bnd_hf s (2 * f) \/ bnd_hf s (2 * f + 1).
Definition bnd_e (s : mesh) (e : nat) : Prop := exists f, inc_ef s e f /\ bnd_f s f.
Definition bnd_v (s : mesh) (v : nat) : Prop := exists e, inc_ve s v e /\ bnd_e s e.
Definition bnd_c (s : mesh) (c : nat) : Prop := exists hf, In hf (cell_at s c) /\ bnd_f s (hf / 2).

Definition brute_out (s : mesh) (v : nat) : list nat :=
  filter (fun h => live_e s (h / 2) && (he_from s h =? v)) (seq 0 (2 * ne s)).
Definition brute_hfs (s : mesh) (h : nat) : list nat :=
  filter (fun hf => live_f s (hf / 2) && memb h (halfface s hf)) (seq 0 (2 * nf s)).

Section Scalar.
  Variable s : mesh.
  Hypothesis BU : bu_exact s.
  Hypothesis WF : wf_iter s.

  Lemma inc_cell_read hf : fbu s = true -> hf < 2 * nf s -> nth_error (inc_cell s) hf = Some (cell_of s hf).
  Proof.
    intros Ff H. destruct WF as (_ & _ & _ & _ & _ & Wsz). unfold cell_of.
    apply nth_error_nth'. rewrite (Wsz Ff). exact H.
  Qed.

  Theorem isb_hf_exact hf : fbu s = true -> hf < 2 * nf s ->
    exists b, isb_hf s hf = Some b /\ (b = true <-> bnd_hf s hf).
  Proof.
    intros Ff H. destruct BU as (_ & _ & Bf). unfold isb_hf. rewrite (inc_cell_read hf Ff H).
    destruct (cell_of s hf) as [c0|] eqn:E.
    - exists false. split; [reflexivity|]. split; [discriminate|]. intros B. exfalso. apply (B c0). apply (Bf Ff hf H). exact E.
    - exists true. split; [reflexivity|]. split; [|reflexivity]. intros _ c Hc. apply (Bf Ff hf H) in Hc. congruence.
  Qed.

  Theorem isb_f_exact f : fbu s = true -> f < nf s ->
    exists b, isb_f s f = Some b /\ (b = true <-> bnd_f s f).
  Proof.
    intros Ff H. unfold isb_f, bnd_f.
    destruct (isb_hf_exact (2 * f) Ff ltac:(lia)) as (b0 & E0 & I0).
    destruct (isb_hf_exact (2 * f + 1) Ff ltac:(lia)) as (b1 & E1 & I1).
    rewrite E0. destruct b0.
    - exists true. split; [reflexivity|]. split; [|reflexivity]. intros _. left. apply I0. reflexivity.
    - rewrite E1. exists b1. split; [reflexivity|]. rewrite I1. split; [auto|]. intros [B|B]; [|exact B]. apply I0 in B. discriminate.
  Qed.

  Theorem isb_he_exact h : ebu s = true -> fbu s = true -> h < 2 * ne s ->
    exists b, isb_he s h = Some b /\ (b = true <-> bnd_e s (h / 2)).
  Proof.
    intros Fe Ff H. destruct (hehf_exact s BU h Fe H) as (I & _). destruct (hef_exact s BU h Fe H) as (If & _).
    unfold isb_he.
    destruct (exists_ub_spec (fun hf => isb_f s (hf / 2)) (l_hehf s h)) as (b & E & Ib).
    { intros hf Hhf. apply I in Hhf. destruct Hhf as (_ & L & _).
      destruct (isb_f_exact (hf / 2) Ff (live_f_lt _ _ L)) as (b & Eb & _). eauto. }
    exists b. split; [exact E|]. rewrite Ib. unfold bnd_e. split.
    - intros (hf & Hhf & P). exists (hf / 2). split.
      + apply If. unfold l_hef. apply sort_unique_In, in_map_iff. exists hf. auto.
      + apply I in Hhf. destruct Hhf as (_ & L & _).
        destruct (isb_f_exact (hf / 2) Ff (live_f_lt _ _ L)) as (b' & Eb & Ib'). apply Ib'. congruence.
    - intros (f & Hf & B). apply If in Hf. unfold l_hef in Hf. apply sort_unique_In, in_map_iff in Hf.
      destruct Hf as (hf & Eh & Hhf). unfold half in Eh. subst f. exists hf. split; [exact Hhf|].
      apply I in Hhf. destruct Hhf as (_ & L & _).
      destruct (isb_f_exact (hf / 2) Ff (live_f_lt _ _ L)) as (b' & Eb & Ib'). rewrite Eb. f_equal. apply Ib'. exact B.
  Qed.

  Theorem isb_e_exact e : ebu s = true -> fbu s = true -> e < ne s ->
    exists b, isb_e s e = Some b /\ (b = true <-> bnd_e s e).
  Proof.
    intros Fe Ff H. unfold isb_e. destruct (isb_he_exact (2 * e) Fe Ff ltac:(lia)) as (b & E & I).
    replace (2 * e / 2) with e in I by lia. eauto.
  Qed.

  Theorem isb_v_exact v : full_bu s = true -> v < nv s ->
    exists b, isb_v s v = Some b /\ (b = true <-> bnd_v s v).
  Proof.
    intros F H. unfold full_bu in F. rewrite !andb_true_iff in F. destruct F as ((Fv & Fe) & Ff).
    destruct (voh_exact s BU v Fv H) as (I & _). unfold isb_v.
    destruct (exists_ub_spec (isb_he s) (l_voh s v)) as (b & E & Ib).
    { intros h Hh. apply I in Hh. destruct Hh as (A & _). destruct (isb_he_exact h Fe Ff A) as (b & Eb & _). eauto. }
    exists b. split; [exact E|]. rewrite Ib. unfold bnd_v. split.
    - intros (h & Hh & P). exists (h / 2). split.
      + apply (ve_exact s BU v Fv H). unfold l_ve. apply in_map_iff. exists h. auto.
      + apply I in Hh. destruct Hh as (A & _). destruct (isb_he_exact h Fe Ff A) as (b' & Eb & Ib'). apply Ib'. congruence.
    - intros (e & He & B). apply (ve_exact s BU v Fv H) in He. unfold l_ve in He. apply in_map_iff in He.
      destruct He as (h & Eh & Hh). unfold half in Eh. subst e. exists h. split; [exact Hh|].
      apply I in Hh. destruct Hh as (A & _). destruct (isb_he_exact h Fe Ff A) as (b' & Eb & Ib'). rewrite Eb. f_equal. apply Ib'. exact B.
  Qed.

  Theorem isb_c_exact c : fbu s = true -> live_c s c = true ->
    exists b, isb_c s c = Some b /\ (b = true <-> bnd_c s c).
  Proof.
    intros Ff L. destruct WF as (_ & _ & Wc & _). unfold isb_c, l_cf.
    destruct (exists_ub_spec (isb_f s) (map half (cell_at s c))) as (b & E & Ib).
    { intros f Hf. apply in_map_iff in Hf. destruct Hf as (hf & <- & Hhf).
      destruct (isb_f_exact (hf / 2) Ff (live_f_lt _ _ (Wc c L hf Hhf))) as (b & Eb & _). eauto. }
    exists b. split; [exact E|]. rewrite Ib. unfold bnd_c. split.
    - intros (f & Hf & P). apply in_map_iff in Hf. destruct Hf as (hf & <- & Hhf). exists hf. split; [exact Hhf|].
      destruct (isb_f_exact (hf / 2) Ff (live_f_lt _ _ (Wc c L hf Hhf))) as (b' & Eb & Ib'). apply Ib'. unfold half in P. congruence.
    - intros (hf & Hhf & B). exists (hf / 2). split; [apply in_map_iff; exists hf; auto|].
      destruct (isb_f_exact (hf / 2) Ff (live_f_lt _ _ (Wc c L hf Hhf))) as (b' & Eb & Ib'). rewrite Eb. f_equal. apply Ib'. exact B.
  Qed.

  (* ---- valence *)
  Lemma brute_out_In v h : In h (brute_out s v) <-> inc_voh s v h.
  Proof.
    unfold brute_out, inc_voh. rewrite filter_In, in_seq, andb_true_iff, Nat.eqb_eq. split; intros H; repeat split; try tauto; lia.
  Qed.
  Lemma brute_hfs_In h hf : In hf (brute_hfs s h) <-> inc_hehf s h hf.
  Proof.
    unfold brute_hfs, inc_hehf. rewrite filter_In, in_seq, andb_true_iff, memb_iff. split; intros H; repeat split; try tauto; lia.
  Qed.

  Theorem valence_v_exact v : vbu s = true -> v < nv s -> valence_v s v = Some (length (brute_out s v)).
  Proof.
    intros F H. destruct WF as (_ & _ & _ & Wsz & _). unfold valence_v.
    rewrite (nth_error_nth' (out_hes s) [] ) by (rewrite (Wsz F); exact H). simpl. f_equal.
    destruct BU as (Bv & _). destruct (Bv F v H) as (N & I). fold (out_at s v).
    apply NoDup_same_length; [exact N|apply NoDup_filter, seq_NoDup|]. intros h. rewrite brute_out_In. apply I.
  Qed.

  Theorem valence_e_exact e : ebu s = true -> e < ne s -> valence_e s e = Some (length (brute_hfs s (2 * e))).
  Proof.
    intros F H. destruct WF as (_ & _ & _ & _ & Wsz & _). unfold valence_e.
    rewrite (nth_error_nth' (inc_hfs s) [] ) by (rewrite (Wsz F); lia). simpl. f_equal.
    destruct BU as (_ & Be & _). destruct (Be F (2 * e) ltac:(lia)) as (N & I). fold (hfs_at s (2 * e)).
    apply NoDup_same_length; [exact N|apply NoDup_filter, seq_NoDup|]. intros h. rewrite brute_hfs_In. apply I.
  Qed.

  Theorem valence_f_exact f : f < nf s -> valence_f s f = Some (length (face_at s f)).
  Proof. intros H. unfold valence_f, face_at. rewrite (nth_error_nth' (faces s) []) by exact H. reflexivity. Qed.
  Theorem valence_c_exact c : c < nc s -> valence_c s c = Some (length (cell_at s c)).
  Proof. intros H. unfold valence_c, cell_at. rewrite (nth_error_nth' (cells s) []) by exact H. reflexivity. Qed.
End Scalar.

(* with the incidence kind disabled (cache empty) the public functions index out of range *)
Lemma valence_v_disabled s v : out_hes s = [] -> valence_v s v = None.
Proof. intros E. unfold valence_v. rewrite E. destruct v; reflexivity. Qed.
Lemma valence_e_disabled s e : inc_hfs s = [] -> valence_e s e = None.
Proof. intros E. unfold valence_e. rewrite E. destruct (2 * e); reflexivity. Qed.
Lemma isb_hf_disabled s hf : inc_cell s = [] -> isb_hf s hf = None.
Proof. intros E. unfold isb_hf. rewrite E. destruct hf; reflexivity. Qed.
Lemma isb_c_disabled s c hf t : inc_cell s = [] -> cell_at s c = hf :: t -> isb_c s c = None.
Proof.
  intros E C. unfold isb_c, l_cf. rewrite C. simpl. unfold isb_f. rewrite isb_hf_disabled by exact E. reflexivity.
Qed.
(* a disabled kind makes the guarded circulators invalid at construction (empty list) *)
Lemma guards_off s x :
  (vbu s = false -> l_voh s x = [] /\ l_vv s x = [] /\ l_vih s x = [] /\ l_ve s x = [] /\ l_vhf s x = [] /\ l_vf s x = [] /\ l_vc s x = []) /\
  (ebu s = false -> l_hehf s x = [] /\ l_hef s x = [] /\ l_hec s x = [] /\ l_ehf s x = [] /\ l_ef s x = [] /\ l_ec s x = [] /\ l_vf s x = [] /\ l_vc s x = []) /\
  (fbu s = false -> l_hec s x = [] /\ l_ec s x = [] /\ l_cc s x = [] /\ l_bhfhf s x = [] /\ l_vf s x = [] /\ l_vc s x = []).
Proof.
  split; [|split]; intros E;
    unfold l_vhf, l_vf, l_vc, l_ef, l_ec, l_vv, l_vih, l_ve, l_hef, l_hec, l_ehf, l_cc, l_bhfhf, l_voh, l_hehf, full_bu;
    rewrite E; rewrite ?andb_false_r; simpl; repeat (split; try reflexivity).
Qed.

(* ================================================================== decidable versions of the hypotheses
   (sound boolean checkers: used for the non-vacuity examples and for the refutation witnesses, so that the
   witnesses are states that satisfy ALL hypotheses of the theorems above) *)

Fixpoint nodupb (l : list nat) : bool :=
  match l with [] => true | x :: t => negb (memb x t) && nodupb t end.
Lemma nodupb_sound l : nodupb l = true -> NoDup l.
Proof.
  induction l as [|x t IH]; simpl; intros H; constructor; apply andb_true_iff in H; destruct H as (A & B).
  - intros I. apply memb_iff in I. rewrite I in A. discriminate.
  - apply IH. exact B.
Qed.

Definition same_set (a b : list nat) : bool :=
  forallb (fun x => memb x b) a && forallb (fun x => memb x a) b.
Lemma same_set_sound a b : same_set a b = true -> forall x, In x a <-> In x b.
Proof.
  unfold same_set. rewrite andb_true_iff, !forallb_forall. intros (A & B) x. split; intros H.
  - apply memb_iff, A, H.
  - apply memb_iff, B, H.
Qed.

Definition owners (s : mesh) (hf : nat) : list nat :=
  filter (fun c => live_c s c && memb hf (cell_at s c)) (seq 0 (nc s)).
Lemma owners_In s hf c : In c (owners s hf) <-> live_c s c = true /\ In hf (cell_at s c).
Proof.
  unfold owners. rewrite filter_In, in_seq, andb_true_iff, memb_iff. split; [tauto|].
  intros (L & I). pose proof (live_c_lt _ _ L). repeat split; try assumption; lia.
Qed.

Definition bu_exact_b (s : mesh) : bool :=
  (negb (vbu s) || forallb (fun v => nodupb (out_at s v) && same_set (out_at s v) (brute_out s v)) (seq 0 (nv s)))
  && (negb (ebu s) || forallb (fun h => nodupb (hfs_at s h) && same_set (hfs_at s h) (brute_hfs s h)) (seq 0 (2 * ne s)))
  && (negb (fbu s) || forallb (fun hf => match cell_of s hf, owners s hf with
                                         | Some c, [c'] => c' =? c
                                         | None, [] => true
                                         | _, _ => false
                                         end) (seq 0 (2 * nf s))).

Lemma bu_exact_b_sound s : bu_exact_b s = true -> bu_exact s.
Proof.
  unfold bu_exact_b. rewrite !andb_true_iff, !orb_true_iff, !negb_true_iff, !forallb_forall.
  intros ((A & B) & C). split; [|split].
  - intros F v Hv. destruct A as [A|A]; [congruence|]. specialize (A v ltac:(apply in_seq; lia)).
    apply andb_true_iff in A. destruct A as (N & S). split; [apply nodupb_sound, N|].
    intros h. rewrite (same_set_sound _ _ S h). apply brute_out_In.
  - intros F h Hh. destruct B as [B|B]; [congruence|]. specialize (B h ltac:(apply in_seq; lia)).
    apply andb_true_iff in B. destruct B as (N & S). split; [apply nodupb_sound, N|].
    intros hf. rewrite (same_set_sound _ _ S hf). apply brute_hfs_In.
  - intros F hf Hhf c. destruct C as [C|C]; [congruence|]. specialize (C hf ltac:(apply in_seq; lia)).
    rewrite <- owners_In. destruct (cell_of s hf) as [c0|]; destruct (owners s hf) as [|c1 [|c2 t]]; try discriminate.
    + apply Nat.eqb_eq in C. subst c1. simpl. split; [intros E; injection E as ->; auto|]. intros [->|[]]. reflexivity.
    + simpl. split; [discriminate|tauto].
Qed.

Definition wf_iter_b (s : mesh) : bool :=
  forallb (fun e => negb (live_e s e) || (live_v s (fst (edge_at s e)) && live_v s (snd (edge_at s e)))) (seq 0 (ne s))
  && forallb (fun f => negb (live_f s f) || forallb (fun h => live_e s (h / 2)) (face_at s f)) (seq 0 (nf s))
  && forallb (fun c => negb (live_c s c) || forallb (fun hf => live_f s (hf / 2)) (cell_at s c)) (seq 0 (nc s))
  && (negb (vbu s) || (length (out_hes s) =? nv s))
  && (negb (ebu s) || (length (inc_hfs s) =? 2 * ne s))
  && (negb (fbu s) || (length (inc_cell s) =? 2 * nf s)).

Lemma wf_iter_b_sound s : wf_iter_b s = true -> wf_iter s.
Proof.
  unfold wf_iter_b. rewrite !andb_true_iff, !forallb_forall.
  intros (((((A & B) & C) & D) & E) & F). unfold wf_iter. repeat apply conj.
  - intros e L. specialize (A e ltac:(apply in_seq; pose proof (live_e_lt _ _ L); lia)).
    rewrite L in A. simpl in A. apply andb_true_iff in A. exact A.
  - intros f L h Hh. specialize (B f ltac:(apply in_seq; pose proof (live_f_lt _ _ L); lia)).
    rewrite L in B. simpl in B. rewrite forallb_forall in B. apply B, Hh.
  - intros c L hf Hhf. specialize (C c ltac:(apply in_seq; pose proof (live_c_lt _ _ L); lia)).
    rewrite L in C. simpl in C. rewrite forallb_forall in C. apply C, Hhf.
  - intros Fv. rewrite Fv in D. simpl in D. apply Nat.eqb_eq, D.
  - intros Fe. rewrite Fe in E. simpl in E. apply Nat.eqb_eq, E.
  - intros Ff. rewrite Ff in F. simpl in F. apply Nat.eqb_eq, F.
Qed.

(* ================================================================== non-vacuity: reachable states satisfy the hypotheses *)

(* two tetrahedra glued along a face, one dangling edge, one isolated vertex *)
Definition ex_two_tets : mesh :=
  run [AddVertices 7;
       AddFaceV [0; 1; 2]; AddFaceV [0; 2; 3]; AddFaceV [0; 3; 1]; AddFaceV [1; 3; 2];
       AddCell [0; 2; 4; 6] false;
       AddFaceV [1; 2; 4]; AddFaceV [2; 0; 4]; AddFaceV [0; 1; 4];
       AddCell [1; 8; 10; 12] false;
       AddEdge 4 5 false].
Example ex_two_tets_ok : bu_exact ex_two_tets /\ wf_iter ex_two_tets /\ full_bu ex_two_tets = true.
Proof. split; [apply bu_exact_b_sound|split; [apply wf_iter_b_sound|]]; vm_compute; reflexivity. Qed.
Example ex_two_tets_queries :
  l_vc ex_two_tets 0 = [0; 1] /\ l_cc ex_two_tets 0 = [1] /\ l_ec ex_two_tets 0 = [1; 0] /\
  l_voh ex_two_tets 6 = [] /\ isb_v ex_two_tets 6 = Some false /\ isb_v ex_two_tets 0 = Some true /\
  isb_f ex_two_tets 0 = Some false /\ valence_v ex_two_tets 4 = Some 4.
Proof. vm_compute. repeat split. Qed.

(* the same with deferred-deleted entities at the front (vertex 3 -> its edges, faces, cell 0) and at the end *)
Definition ex_deleted : mesh := run_from ex_two_tets [DelVertex 3; DelEdge 9; DelVertex 6].
Example ex_deleted_ok : bu_exact ex_deleted /\ wf_iter ex_deleted /\ full_bu ex_deleted = true /\ ndv ex_deleted = 2 /\ ndc ex_deleted = 1.
Proof. split; [apply bu_exact_b_sound|split; [apply wf_iter_b_sound|]]; vm_compute; auto. Qed.

(* ================================================================== refutations (faithful model, states inside the hypotheses) *)

(* "edge -> cells returns exactly the live cells with a face on the edge"
     forall s e c, bu_exact s -> wf_iter s -> ebu s = true -> fbu s = true -> e < ne s -> (In c (l_ec s e) <-> inc_ec_nat s e c)
   is false without cells_closed: a cell made of the single halfface 1 of a triangle (accepted by add_cell without
   topology check) touches edge 0 only through halfedge 1, and edge_cells(0) = halfedge_cells(halfedge 0) is empty *)
Definition ex_open_cell : mesh := run [AddVertices 3; AddFaceV [0; 1; 2]; AddCell [1] false].
Lemma ec_natural_refuted :
  exists s e c, bu_exact s /\ wf_iter s /\ ebu s = true /\ fbu s = true /\ e < ne s /\
                inc_ec_nat s e c /\ ~ In c (l_ec s e).
Proof.
  exists ex_open_cell, 0, 0.
  split; [apply bu_exact_b_sound; vm_compute; reflexivity|].
  split; [apply wf_iter_b_sound; vm_compute; reflexivity|].
  split; [reflexivity|]. split; [reflexivity|]. split; [vm_compute; lia|]. split.
  - split; [reflexivity|]. exists 1, 0. vm_compute. auto.
  - vm_compute. tauto.
Qed.

(* "vertex -> cells returns exactly the live cells with a face touching the vertex" is false without faces_closed:
   an open face made of the single halfedge 0 (0 -> 1), a cell made of its halfface 1 (halfedge 1 : 1 -> 0);
   vertex_cells(0) follows the outgoing halfedge 0, whose only halfface 0 has no cell *)
Definition ex_open_face : mesh := run [AddVertices 2; AddEdge 0 1 true; AddFace [0] false; AddCell [1] false].
Lemma vc_natural_refuted :
  exists s v c, bu_exact s /\ wf_iter s /\ full_bu s = true /\ v < nv s /\ inc_vc_nat s v c /\ ~ In c (l_vc s v).
Proof.
  exists ex_open_face, 0, 0.
  split; [apply bu_exact_b_sound; vm_compute; reflexivity|].
  split; [apply wf_iter_b_sound; vm_compute; reflexivity|].
  split; [reflexivity|]. split; [vm_compute; lia|]. split.
  - split; [reflexivity|]. exists 1. split; [vm_compute; auto|]. exists 0. vm_compute. auto.
  - vm_compute. tauto.
Qed.

(* D8 (repaired in /repo by "fix: boundary cell iterator needs face bottom-up incidences"): the state on which
   bc_iter() used to index the empty incident-cell cache; the guard now fails and the iterator is invalid at
   construction (general statement: boundary_iter_unguarded_invalid below) *)
Definition ex_d8 : mesh := run [AddVertices 3; AddFaceV [0; 1; 2]; AddCell [0] false; EnableFBU false].
Example D8_bc_iter_invalid_at_construction :
  bu_exact ex_d8 /\ wf_iter ex_d8 /\ fbu ex_d8 = false /\ bnd_has_inc KC ex_d8 = false /\
  option_map b_obs (bnd_begin KC ex_d8) = Some ((-1)%Z, false).
Proof.
  split; [apply bu_exact_b_sound; vm_compute; reflexivity|].
  split; [apply wf_iter_b_sound; vm_compute; reflexivity|]. vm_compute. auto.
Qed.
(* with face incidences enabled the same call yields the boundary cell *)
Example bc_iter_with_incidences :
  let s := run [AddVertices 3; AddFaceV [0; 1; 2]; AddCell [0] false] in
  exists b, bnd_begin KC s = Some b /\ b_obs b = (0%Z, true).
Proof. eexists. split; vm_compute; reflexivity. Qed.

(* ================================================================== the six entity iterators on a mesh state *)

Definition flags_sized (s : mesh) : Prop :=
  length (vdel s) = nv s /\ length (edel s) = ne s /\ length (fdel s) = nf s /\ length (cdel s) = nc s.

(* is_deleted(handle) read off the flag arrays (halfedges / halffaces: the flag of their edge / face) *)
Definition ent_deleted (k : kind) (s : mesh) (i : nat) : bool :=
  match k with
  | KV => v_deleted s i | KE => e_deleted s i | KHE => e_deleted s (i / 2)
  | KF => f_deleted s i | KHF => f_deleted s (i / 2) | KC => c_deleted s i
  | KM => false
  end.

Lemma ent_rdel_total k s : k <> KM -> flags_sized s ->
  forall i, i < ent_n k s -> ent_rdel k s i = Some (ent_deleted k s i).
Proof.
  intros Hk (Hv & He & Hf & Hc) i Hi. unfold ent_n, count in Hi. unfold ne, nf, nc in *.
  destruct k; try congruence; unfold ent_rdel, ent_deleted, rdel_of, v_deleted, e_deleted, f_deleted, c_deleted;
    rewrite ?Nat.div_1_r; apply nth_error_nth'; lia.
Qed.

(* C05_entities on mesh states: vertices(), edges(), halfedges(), faces(), halffaces(), cells() visit every
   not-deleted entity exactly once in ascending handle order and nothing else, and end in the state of end() *)
Theorem entity_iter_exact k s : k <> KM -> flags_sized s ->
  exists b, ent_begin k s 0 = Some b /\
            e_trace (S (ent_n k s)) (ent_rdel k s) (ent_n k s) b
            = Some (map Z.of_nat (filter (fun i => negb (ent_deleted k s i)) (seq 0 (ent_n k s))), e_end (ent_n k s))
            /\ ent_begin k s (ent_n k s) = Some (e_end (ent_n k s)).
Proof.
  intros Hk Hs. pose proof (ent_rdel_total k s Hk Hs) as Hr.
  destruct (entity_forward (ent_n k s) (ent_deleted k s) (ent_rdel k s) Hr (ent_n k s) (le_n _)) as (b & B & T).
  exists b. split; [exact B|]. split; [exact T|]. apply (entity_end_state (ent_n k s) (ent_deleted k s) (ent_rdel k s) Hr).
Qed.

Example entity_iter_example :
  flags_sized ex_deleted /\
  filter (fun i => negb (ent_deleted KV ex_deleted i)) (seq 0 (ent_n KV ex_deleted)) = [0; 1; 2; 4; 5] /\
  filter (fun i => negb (ent_deleted KC ex_deleted i)) (seq 0 (ent_n KC ex_deleted)) = [1].
Proof. vm_compute. repeat split. Qed.

(* ================================================================== the six boundary iterators on a mesh state *)

Definition bdry (k : kind) (s : mesh) (i : nat) : bool :=
  match is_boundary k s i with Some true => true | _ => false end.

(* the brute-force boundary predicate of each kind (halfedges: that of their edge) *)
Definition bnd_of (k : kind) (s : mesh) (i : nat) : Prop :=
  match k with
  | KV => bnd_v s i | KE => bnd_e s i | KHE => bnd_e s (i / 2)
  | KF => bnd_f s i | KHF => bnd_hf s i | KC => bnd_c s i
  | KM => False
  end.

Lemma bnd_has_inc_fbu k s : k <> KM -> bnd_has_inc k s = true -> fbu s = true.
Proof.
  intros Hk H. destruct k; try congruence; unfold bnd_has_inc, full_bu in H; rewrite ?andb_true_iff in H; tauto.
Qed.

Lemma is_boundary_defined k s : k <> KM -> bu_exact s -> wf_iter s -> bnd_has_inc k s = true ->
  forall i, i < ent_n k s -> ent_deleted k s i = false ->
  is_boundary k s i = Some (bdry k s i) /\ (bdry k s i = true <-> bnd_of k s i).
Proof.
  intros Hk BU WF Hi i Hn Hd. pose proof (bnd_has_inc_fbu k s Hk Hi) as Ff. unfold bdry.
  assert (G : forall b P, is_boundary k s i = Some b /\ (b = true <-> P) ->
              is_boundary k s i = Some (match is_boundary k s i with Some true => true | _ => false end) /\
              ((match is_boundary k s i with Some true => true | _ => false end) = true <-> P)).
  { intros b P (E & I). rewrite E. destruct b; auto. }
  unfold ent_n, count in Hn. destruct k; try congruence; unfold bnd_has_inc in Hi; cbn [is_boundary bnd_of] in *.
  - destruct (isb_v_exact s BU WF i Hi Hn) as (b & E). eapply G; eauto.
  - apply andb_true_iff in Hi. destruct Hi as (Fe & _). destruct (isb_e_exact s BU WF i Fe Ff Hn) as (b & E). eapply G; eauto.
  - apply andb_true_iff in Hi. destruct Hi as (Fe & _). destruct (isb_he_exact s BU WF i Fe Ff Hn) as (b & E). eapply G; eauto.
  - destruct (isb_f_exact s BU WF i Ff Hn) as (b & E). eapply G; eauto.
  - destruct (isb_hf_exact s BU WF i Ff Hn) as (b & E). eapply G; eauto.
  - assert (L : live_c s i = true) by (unfold live_c; unfold ent_deleted in Hd; rewrite Hd; apply andb_true_iff; split; [apply Nat.ltb_lt; exact Hn|reflexivity]).
    destruct (isb_c_exact s BU WF i Ff L) as (b & E). eapply G; eauto.
Qed.

(* bv_iter / bhe_iter / be_iter / bhf_iter / bf_iter / bc_iter with their incidence guard satisfied visit exactly the not-deleted entities that the brute-force scan classifies as boundary, ascending, once *)
Theorem boundary_iter_exact k s : k <> KM -> bu_exact s -> wf_iter s -> flags_sized s ->
  bnd_has_inc k s = true ->
  (exists b e, bnd_begin k s = Some b /\
               b_trace (S (ent_n k s)) (ent_rdel k s) (ent_n k s) (is_boundary k s) b
               = Some (map Z.of_nat (filter (fun i => negb (ent_deleted k s i) && bdry k s i) (seq 0 (ent_n k s))), e) /\
               b_valid e = false) /\
  (forall i, i < ent_n k s -> ent_deleted k s i = false -> (bdry k s i = true <-> bnd_of k s i)).
Proof.
  intros Hk BU WF FS Hi. split.
  - unfold bnd_begin. rewrite Hi.
    apply (boundary_forward (ent_n k s) (ent_deleted k s) (ent_rdel k s) (ent_rdel_total k s Hk FS) (bdry k s) (is_boundary k s)); [|apply le_n].
    intros i Hn Hd. apply (is_boundary_defined k s Hk BU WF Hi i Hn Hd).
  - intros i Hn Hd. apply (is_boundary_defined k s Hk BU WF Hi i Hn Hd).
Qed.

(* ... and with the guard failing (a needed incidence kind disabled) every one of the six is invalid at construction,
   holds the invalid handle and has read nothing (for bc_iter this is the repaired D8) *)
Theorem boundary_iter_unguarded_invalid k s : k <> KM -> flags_sized s -> bnd_has_inc k s = false ->
  exists it0, bnd_begin k s = Some (mkB it0 false (-1)%Z).
Proof.
  intros Hk FS Hi. pose proof (ent_rdel_total k s Hk FS) as Hr.
  destruct (entity_forward (ent_n k s) (ent_deleted k s) (ent_rdel k s) Hr (ent_n k s) (le_n _)) as (b & B & _).
  exists b. unfold bnd_begin. rewrite Hi.
  apply (boundary_no_incidences _ _ _ b (e_end (ent_n k s)) B (entity_end_state _ _ _ Hr)).
Qed.

Example boundary_iter_example :
  exists b e, bnd_begin KV ex_two_tets = Some b /\
              b_trace 8 (ent_rdel KV ex_two_tets) 7 (is_boundary KV ex_two_tets) b = Some ([0%Z; 1%Z; 2%Z; 3%Z; 4%Z], e) /\ b_valid e = false.
Proof. eexists. eexists. vm_compute. repeat split. Qed.

(* ================================================================== BoundaryHalfFaceHalfFaceIter *)
Theorem bhfhf_exact s : bu_exact s -> wf_iter s -> ebu s = true -> fbu s = true ->
  forall hf, live_f s (hf / 2) = true ->
  forall x, In x (l_bhfhf s hf) <-> exists he, In he (halfface s hf) /\ inc_hehf s (opp he) x /\ bnd_hf s x.
Proof.
  intros BU WF Fe Ff hf L x. unfold l_bhfhf. rewrite Ff, in_flat_map.
  assert (T : forall y, y < 2 * nf s -> (isb_hf_t s y = true <-> bnd_hf s y)).
  { intros y Hy. destruct BU as (_ & _ & Bf). unfold isb_hf_t, bnd_hf. destruct (cell_of s y) as [c0|] eqn:E.
    - split; [discriminate|]. intros B. exfalso. apply (B c0). apply (Bf Ff y Hy). exact E.
    - split; [|reflexivity]. intros _ c Hc. apply (Bf Ff y Hy) in Hc. congruence. }
  split.
  - intros (he & Hhe & Hx). apply filter_In in Hx. destruct Hx as (Hx & B).
    pose proof (halfface_he_live s hf he WF L Hhe) as Le. pose proof (live_e_lt _ _ Le).
    apply (hehf_exact s BU (opp he) Fe) in Hx; [|apply opp_lt_iff; lia].
    exists he. split; [exact Hhe|]. split; [exact Hx|]. apply T; [apply Hx|exact B].
  - intros (he & Hhe & Hx & B). exists he. split; [exact Hhe|]. apply filter_In.
    pose proof (halfface_he_live s hf he WF L Hhe) as Le. pose proof (live_e_lt _ _ Le).
    split; [apply (hehf_exact s BU (opp he) Fe); [apply opp_lt_iff; lia|exact Hx]|]. apply T; [apply Hx|exact B].
Qed.
