(* IO/Ovmb2Run.v -- one chunk description at a time: when a described chunk is valid in the reader's current state, the
   reader consumes exactly its bytes and moves to `next_st`; folded over a list of chunk descriptions and closed with the file
   header and the EOF chunk this gives the decoded mesh of a whole file (`alt_file_decodes`). *)
From Coq Require Import ZArith List Bool Lia.
From OVM Require Import Base.Int32 Gen.OvmbFormat IO.Bytes IO.OvmbWriterModel IO.OvmbReaderModel IO.OvmbProofs
  IO.Ovmb2Base IO.Ovmb2Chunk IO.Ovmb2Alt IO.Ovmb2Ints IO.Ovmb2Topo IO.Ovmb2Vert IO.Ovmb2Dirp IO.Ovmb2Prop.
Import ListNotations.
Local Open Scope Z_scope.

Definition payload_of (c : chunkd) : list byte :=
  match c with
  | CDirp es => dirp_payload es
  | CVert first ps => vert_payload first ps
  | CEdge first henc off es => edges_payload first henc off es
  | CPoly entity first f henc off items => poly_payload entity first f henc off items
  | CProp idx first ty vals => prop_payload idx first ty vals
  | CSkip _ p => p
  end.

Definition ctype_of (c : chunkd) : Z :=
  match c with
  | CDirp _ => ChunkType_PropertyDirectory
  | CVert _ _ => ChunkType_Vertices
  | CEdge _ _ _ _ => ChunkType_Topo
  | CPoly _ _ _ _ _ _ => ChunkType_Topo
  | CProp _ _ _ _ => ChunkType_Property
  | CSkip ty _ => ty
  end.

Definition cflags_of (c : chunkd) : Z := match c with CSkip _ _ => 0 | _ => ChunkFlags_Mandatory end.

Lemma enc_chunkd_gen c : enc_chunkd c = gen_chunk (ctype_of c) (cflags_of c) (payload_of c).
Proof. destruct c; reflexivity. Qed.

Definition unknown_type (ty : Z) : Prop :=
  0 <= ty < 4294967296 /\ ty <> ChunkType_EndOfFile /\ ty <> ChunkType_PropertyDirectory /\ ty <> ChunkType_Property /\
  ty <> ChunkType_Vertices /\ ty <> ChunkType_Topo.

(* what the reader requires of a chunk in state st (h: the file header) *)
Definition chunk_valid (o : opts) (h : fhdr) (st : rst) (c : chunkd) : Prop :=
  len (payload_of c) < max_payload /\
  match c with
  | CDirp es => r_props st = [] /\ Forall dentry_ok es /\ keys_fresh (r_stor st) es
  | CVert first ps =>
      first = r_nvr st /\ len ps < 4294967296 /\ 0 <= r_nvr st /\ r_nvr st + len ps <= h_nv h /\
      h_nv h < 18446744073709551616 /\ o_dim o = h_dim h /\ 1 <= h_dim h /\
      Forall (pos_ok (Z.to_nat (h_dim h))) ps
  | CEdge first henc off es =>
      first = r_ner st /\ es <> [] /\ len es < 2147483648 /\ enc_ok henc /\ 0 <= off < 18446744073709551616 /\
      0 <= r_ner st /\ r_ner st + len es <= h_ne h /\ h_ne h < 18446744073709551616 /\
      r_nvr st <= 2147483648 /\ Forall (edge_fits henc off (r_nvr st)) es
  | CPoly entity first f henc off items =>
      items <> [] /\ len items < 4294967296 /\ enc_ok henc /\ 0 <= off < 18446744073709551616 /\
      form_ok f items /\ hsum items * henc < 18446744073709551616 /\
      ((entity = TopoEntity_Face /\ first = r_nfr st /\ 0 <= r_nfr st /\ r_nfr st + len items <= h_nf h /\
        h_nf h < 18446744073709551616 /\ 2 * r_ner st <= 2147483648 /\
        Forall (Forall (handle_fits henc off (2 * r_ner st))) items /\ topo_req (h_topo h) 3 4 items /\
        add_accepts (fun hs _ => mesh_add_face o (r_edges st) hs) items)
       \/
       (entity = TopoEntity_Cell /\ first = r_ncr st /\ 0 <= r_ncr st /\ r_ncr st + len items <= h_nc h /\
        h_nc h < 18446744073709551616 /\ 2 * r_nfr st <= 2147483648 /\
        Forall (Forall (handle_fits henc off (2 * r_nfr st))) items /\ topo_req (h_topo h) 4 6 items /\
        add_accepts (fun hs _ => mesh_add_cell o (r_edges st) (r_faces st) hs) items))
  | CProp idx first ty vals =>
      exists ent si s,
      0 <= idx < 4294967296 /\ idx < len (r_props st) /\ nth (Z.to_nat idx) (r_props st) None = Some (ent, si) /\
      nth_error (r_stor st) si = Some s /\ st_ty s = ty /\ ty_ok ty /\ Forall (val_ok ty) vals /\
      len vals < 4294967296 /\ 0 <= first < 18446744073709551616 /\
      first + len vals <= read_count st ent /\ first + len vals <= cur_count h st ent
  | CSkip ty p => unknown_type ty
  end.

Lemma handler_valid o h st c : chunk_valid o h st c ->
  handler o h st (ctype_of c) (cflags_of c) (payload_of c) = Ret (next_st st c, []).
Proof.
  intros [Hpl H]. unfold handler. destruct c as [es|first ps|first henc off es|entity first f henc off items|idx first ty vals|ty p];
    cbn [ctype_of cflags_of payload_of] in *.
  - destruct H as [H1 [H2 H3]]. change (ChunkType_PropertyDirectory =? ChunkType_EndOfFile) with false.
    rewrite Z.eqb_refl. cbv iota. apply dirp_chunk_ok; assumption.
  - destruct H as [-> [H1 [H2 [H3 [H4 [H5 [H6 H7]]]]]]].
    change (ChunkType_Vertices =? ChunkType_EndOfFile) with false.
    change (ChunkType_Vertices =? ChunkType_PropertyDirectory) with false.
    change (ChunkType_Vertices =? ChunkType_Property) with false.
    rewrite Z.eqb_refl. cbv iota. apply vert_chunk_ok; assumption.
  - destruct H as [-> [H1 [H2 [H3 [H4 [H5 [H6 [H7 [H8 H9]]]]]]]]].
    change (ChunkType_Topo =? ChunkType_EndOfFile) with false.
    change (ChunkType_Topo =? ChunkType_PropertyDirectory) with false.
    change (ChunkType_Topo =? ChunkType_Property) with false.
    change (ChunkType_Topo =? ChunkType_Vertices) with false.
    rewrite Z.eqb_refl. cbv iota. apply topo_edges_ok; assumption.
  - destruct H as [H1 [H2 [H3 [H4 [H5 [H6 H]]]]]].
    change (ChunkType_Topo =? ChunkType_EndOfFile) with false.
    change (ChunkType_Topo =? ChunkType_PropertyDirectory) with false.
    change (ChunkType_Topo =? ChunkType_Property) with false.
    change (ChunkType_Topo =? ChunkType_Vertices) with false.
    rewrite Z.eqb_refl. cbv iota.
    destruct H as [[-> [-> [G1 [G2 [G3 [G4 [G5 [G6 G7]]]]]]]] | [-> [-> [G1 [G2 [G3 [G4 [G5 [G6 G7]]]]]]]]]; cbn [next_st].
    + change (TopoEntity_Face =? TopoEntity_Face) with true. cbv iota. apply topo_faces_ok; assumption.
    + change (TopoEntity_Cell =? TopoEntity_Face) with false. cbv iota. apply topo_cells_ok; assumption.
  - destruct H as [ent [si [s [H1 [H2 [H3 [H4 [H5 [H6 [H7 [H8 [H9 [H10 H11]]]]]]]]]]]]].
    change (ChunkType_Property =? ChunkType_EndOfFile) with false.
    change (ChunkType_Property =? ChunkType_PropertyDirectory) with false.
    rewrite Z.eqb_refl. cbv iota. eapply prop_chunk_ok; eassumption.
  - destruct H as [H0 [H1 [H2 [H3 [H4 H5]]]]].
    rewrite !eqb_false by assumption. reflexivity.
Qed.

Lemma ctype_range c : (match c with CSkip ty _ => unknown_type ty | _ => True end) ->
  0 <= ctype_of c < 4294967296 /\ ctype_of c <> ChunkType_EndOfFile.
Proof.
  destruct c; cbn [ctype_of]; intros H;
    try (split; [unfold ChunkType_PropertyDirectory, ChunkType_Vertices, ChunkType_Topo, ChunkType_Property; lia|discriminate]).
  destruct H as [H0 [H1 _]]. split; assumption.
Qed.

Theorem chunk_reads o h st c : chunk_valid o h st c -> reads1 o h st (enc_chunkd c) (next_st st c).
Proof.
  intros Hv. rewrite enc_chunkd_gen.
  destruct (ctype_range c) as [Hr Hne]; [destruct c; try exact I; apply Hv|].
  apply reads1_gen.
  - exact Hr.
  - destruct c; cbn [cflags_of]; auto.
  - apply Hv.
  - exact Hne.
  - apply handler_valid. exact Hv.
Qed.

Fixpoint run_valid (o : opts) (h : fhdr) (st : rst) (cs : list chunkd) : Prop :=
  match cs with
  | [] => True
  | c :: t => chunk_valid o h st c /\ run_valid o h (next_st st c) t
  end.

Lemma run_reads o h cs : forall st, run_valid o h st cs -> reads o h st (enc_chunks cs) (run_st st cs).
Proof.
  unfold enc_chunks. induction cs as [|c t IH]; intros st Hv; cbn [map concat run_st].
  - constructor.
  - destruct Hv as [Hc Ht]. eapply reads_cons; [apply chunk_reads; exact Hc|apply IH; exact Ht].
Qed.

Lemma run_valid_app o h a b : forall st, run_valid o h st a -> run_valid o h (run_st st a) b -> run_valid o h st (a ++ b).
Proof.
  induction a as [|c t IH]; intros st Ha Hb; cbn [app run_valid run_st] in *; [exact Hb|].
  destruct Ha as [Hc Ht]. split; [exact Hc|]. apply IH; assumption.
Qed.

Lemma run_st_app a b : forall st, run_st st (a ++ b) = run_st (run_st st a) b.
Proof. induction a as [|c t IH]; intros st; cbn [app run_st]; [reflexivity|apply IH]. Qed.

(* ================================================================================================ whole files *)
Definition header_ok (o : opts) (dim topo : Z) (m : meshfile) : Prop :=
  is_valid_TopoType topo = true /\ u64_ok (m_nv m) /\ u64_ok (len (m_edges m)) /\ u64_ok (len (m_faces m)) /\
  u64_ok (len (m_cells m)) /\ compatible o (hdr_of dim topo m) = true.

Theorem alt_file_decodes o dim topo m cs :
  header_ok o dim topo m ->
  run_valid o (hdr_of dim topo m) init_rst cs ->
  let st := run_st init_rst cs in
  r_nvr st = m_nv m -> len (r_edges st) = len (m_edges m) -> len (r_faces st) = len (m_faces m) ->
  len (r_cells st) = len (m_cells m) ->
  decode_impl o (alt_file dim topo m cs) = ROk (result_mesh o (hdr_of dim topo m) st).
Proof.
  intros [Ht [Hv [He [Hf [Hc Hcomp]]]]] Hrun st E1 E2 E3 E4.
  unfold decode_impl, decode_stream, alt_file.
  set (body := enc_chunks cs ++ write_chunk ChunkType_EndOfFile []).
  assert (L : len (write_file_header dim topo m ++ body) = 48 + len body).
  { rewrite len_app. unfold len at 1. rewrite header_length. reflexivity. }
  rewrite read_header_enc by (try assumption; rewrite L; pose proof (len_nonneg body); lia).
  rewrite Hcomp. cbn [negb s_bytes].
  pose proof (run_reads o (hdr_of dim topo m) cs init_rst Hrun) as Hr.
  pose proof (reads_loop_eof o (hdr_of dim topo m) init_rst (enc_chunks cs) (run_st init_rst cs) Hr) as Hl.
  cbv zeta in Hl. fold body in Hl. rewrite Hl by (rewrite L; lia).
  fold st. cbn [negb hdr_of h_nv h_ne h_nf h_nc].
  rewrite E1, E2, E3, E4. rewrite !Z.eqb_refl. reflexivity.
Qed.
