(* IO/Ovmb2Limits.v -- the former 32-bit limit of the reader.  Until "fix: OVMB reader computed chunk sizes in 32 bits" the
   reader compared a VERT payload with span.count * pos_size computed in uint32_t and refused the writer's own file from
   n_vertices * 8 * dim = 2^32 on (178956971 vertices in dimension 3; found by these proofs, replayed on the library).  The
   products are 64-bit now, `fits` no longer has a reader limit, and such a mesh is an ordinary instance of the round-trip
   theorem.  Nothing here evaluates the 4 GB encoding: the hypotheses are established on the bounds only. *)
From Coq Require Import ZArith List Bool Lia.
From OVM Require Import Base.Int32 Gen.OvmbFormat IO.Bytes IO.OvmbWriterModel IO.OvmbReaderModel IO.OvmbSpec IO.OvmbProofs
  IO.Ovmb2Base IO.Ovmb2Chunk IO.Ovmb2Alt IO.Ovmb2Layout IO.Ovmb2Writer IO.Ovmb2Wf IO.Ovmb2RoundTrip IO.Ovmb2SpecRoundTrip.
Import ListNotations.
Local Open Scope Z_scope.

(* 178956971 vertices at the origin in dimension 3: 178956971 * 24 = 2^32 + 8 *)
Definition big_n : nat := Z.to_nat 178956971.
Definition big_mesh : meshfile :=
  {| m_nv := 178956971; m_pos := repeat [0; 0; 0] big_n; m_edges := []; m_faces := []; m_cells := []; m_props := [] |}.

Lemma forallb_repeat {A} (f : A -> bool) x n : f x = true -> forallb f (repeat x n) = true.
Proof. intros H. induction n; cbn [repeat forallb]; [reflexivity|]. rewrite H, IHn. reflexivity. Qed.

Lemma big_mesh_wf : wf_file 3 big_mesh.
Proof.
  unfold wf_file, wf_fileb, big_mesh. cbn [m_nv m_pos m_edges m_faces m_cells m_props forallb nodup_props].
  rewrite len_repeat. unfold big_n. rewrite Z2Nat.id by lia.
  rewrite forallb_repeat by reflexivity. reflexivity.
Qed.

Lemma big_mesh_beyond_old_limit : 4294967296 <= m_nv big_mesh * (8 * 3).
Proof. cbn [big_mesh m_nv]. lia. Qed.

Lemma big_mesh_fits : fits 3 big_mesh.
Proof.
  constructor; cbn [big_mesh m_nv m_faces m_cells m_props]; try (unfold Ovmb2Ints.hsum; cbn [map fold_right]; lia).
  - change (len (@nil prop)) with 0. lia.
  - unfold written_props. cbn [big_mesh m_props flat_map]. unfold dirp_payload. cbn [map concat]. unfold max_payload. change (len (@nil byte)) with 0. lia.
  - unfold written_props. cbn [big_mesh m_props flat_map]. constructor.
  - unfold written_props. cbn [big_mesh m_props flat_map]. constructor.
Qed.

(* the round trip of that mesh, with the reader and with the description *)
Theorem big_mesh_roundtrip :
  decode_impl (plain_opts 3) (encode 3 TopoType_Polyhedral big_mesh) = ROk big_mesh /\
  decode_spec 3 (encode 3 TopoType_Polyhedral big_mesh) = Some big_mesh.
Proof.
  split.
  - apply roundtrip_impl; [exact big_mesh_wf|exact big_mesh_fits|apply accepts_plain; [lia|apply stopo_poly]].
  - apply roundtrip_spec; [exact big_mesh_wf|exact big_mesh_fits|lia|apply stopo_poly].
Qed.
