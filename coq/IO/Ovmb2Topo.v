(* IO/Ovmb2Topo.v -- BinaryFileReader::read_topo_chunk on TOPO chunks of every form the format permits: edge chunks, face and
   cell chunks in the fixed-valence and in the variable-valence form, any valid integer width, any handle offset, any span
   that continues where the previous one ended. *)
From Coq Require Import ZArith List Bool Lia.
From OVM Require Import Base.Int32 Gen.OvmbFormat IO.Bytes IO.OvmbWriterModel IO.OvmbReaderModel IO.OvmbProofs
  IO.Ovmb2Base IO.Ovmb2Chunk IO.Ovmb2Alt IO.Ovmb2Ints.
Import ListNotations.
Local Open Scope Z_scope.

Lemma validate_span_val total read count : 0 <= read -> 0 <= count -> read + count <= total -> total < 18446744073709551616 ->
  validate_span total read read count = Ret tt.
Proof.
  intros H0 H1 H2 H3. unfold validate_span. rewrite Z.eqb_refl. cbn [negb].
  rewrite wrap64_small by lia. rewrite ltb_false by lia. reflexivity.
Qed.

Lemma mul_enc_ge n enc : enc_ok enc -> 0 <= n -> n <= n * enc.
Proof. intros [-> | [-> | ->]] H; lia. Qed.

Ltac cb := cbn [bind negb andb orb Z.eqb Pos.eqb fst snd app IntEncoding_None TopoEntity_Edge TopoEntity_Face TopoEntity_Cell].

Lemma topo_edges_ok o h st henc off es :
  es <> [] -> len es < 2147483648 -> enc_ok henc -> 0 <= off < 18446744073709551616 ->
  0 <= r_ner st -> r_ner st + len es <= h_ne h -> h_ne h < 18446744073709551616 ->
  r_nvr st <= 2147483648 -> Forall (edge_fits henc off (r_nvr st)) es ->
  read_topo_chunk o h st (edges_payload (r_ner st) henc off es) = Ret (add_edges (len es) es st, []).
Proof.
  intros Hne Hlen He Hoff Hr0 Hr1 Htot Hnv Hes.
  assert (Hpos : 0 < len es) by (destruct es; [congruence|apply len_pos_cons]).
  unfold edges_payload, topo_header_off, read_topo_chunk.
  remember (concat (map (enc_edge henc off) es)) as data eqn:Edata.
  assert (Ld : len data = len es * (2 * henc)) by (subst data; apply len_enc_edges; exact He).
  pose proof (enc_ok_pos _ He) as Hep.
  rewrite <- !app_assoc. cbn [app].
  rewrite need_ok by (unfold ovmb_size_TopoChunkHeader; lenlia).
  cb. rewrite rd_span_app by lia. cb.
  rewrite rd_enum8_cons by reflexivity. cb.
  rewrite rd_u8_cons. cb.
  rewrite rd_enum8_cons by reflexivity. cb.
  rewrite rd_enum8_cons by (apply enc_ok_valid; exact He). cb.
  rewrite rd_u64_enc by exact Hoff. cb.
  rewrite (eqb_false (len es) 0) by lia.
  rewrite enc_ok_valid, enc_ok_not_none by exact He. cb.
  change (is_valid_TopoEntity 1) with true. cb.
  rewrite (topo_product_exact 2 (len es)) by lia.
  rewrite elem_size_ok by exact He. rewrite wrap64_small by nia.
  rewrite (eqb_true (len data)) by lia. cb.
  rewrite validate_span_val by lia. cb.
  rewrite <- (app_nil_r data) at 2. rewrite Edata at 2.
  rewrite rd_edges_enc; [reflexivity|exact He|exact Hnv|exact Hes|].
  pose proof (mul_enc_ge (len es) henc He ltac:(lia)). unfold len in *. nia.
Qed.

(* ================================================================================================ faces and cells *)
Definition form_ok (f : pform) (items : list (list Z)) : Prop :=
  match f with
  | PFixed v => 1 <= v <= 255 /\ Forall (fun x => len x = v) items
  | PVar venc => enc_ok venc /\ Forall (fun x => 0 <= len x < enc_lim venc) items
  end.

Definition form_vals (f : pform) (items : list (list Z)) : option (list Z) :=
  match f with PFixed _ => None | PVar _ => Some (map (fun x => len x) items) end.

Definition valences_are (req : Z) (items : list (list Z)) : Prop := Forall (fun x => len x = req) items.

(* the file header's topology type restricts the valences *)
Definition topo_req (topo req_tet req_hex : Z) (items : list (list Z)) : Prop :=
  (topo = TopoType_Tetrahedral -> valences_are req_tet items) /\ (topo = TopoType_Hexahedral -> valences_are req_hex items).

Lemma valence_ok_form f items req : items <> [] -> form_ok f items -> valences_are req items ->
  valence_ok (form_valence f) (form_vals f items) req = true.
Proof.
  intros Hne Hf Hv. unfold valence_ok. destruct f as [v|venc]; cbn [form_valence form_vals form_ok] in *.
  - destruct Hf as [Hv1 Hv2]. rewrite (eqb_false v 0) by lia. cbn [negb].
    destruct items as [|x t]; [congruence|]. inversion Hv; subst. inversion Hv2; subst. apply Z.eqb_eq. lia.
  - cbn [Z.eqb negb]. apply forallb_forall. intros x Hx. apply in_map_iff in Hx. destruct Hx as [y [<- Hy]].
    unfold valences_are in Hv. rewrite Forall_forall in Hv. apply Z.eqb_eq. apply Hv. exact Hy.
Qed.

Lemma topo_check_false topo t f items req : items <> [] -> form_ok f items -> (topo = t -> valences_are req items) ->
  (topo =? t) && negb (valence_ok (form_valence f) (form_vals f items) req) = false.
Proof.
  intros Hne Hf Hv. destruct (topo =? t) eqn:E; [|reflexivity]. apply Z.eqb_eq in E.
  rewrite valence_ok_form by auto. reflexivity.
Qed.

Lemma read_n_ints_id' enc n xs r : n = len xs -> enc_ok enc -> Forall (fun x => 0 <= x < enc_lim enc) xs ->
  read_n_ints enc n (fun x => Ret x) (concat (map (enc_int enc) xs) ++ r) = Ret (xs, r).
Proof. intros ->. apply read_n_ints_id. Qed.

(* the part of read_topo_chunk that both forms share: the valence list and the number of handles *)
Definition valences_step (valence venc count : Z) (d6 : dec) : R (option (list Z) * Z * dec) :=
  if valence =? 0
  then if venc =? IntEncoding_None then state_error S_ErrorInvalidFile
       else do r0 <- read_n_ints venc count (fun x => Ret x) d6;
            let (vals, d7) := r0 in Ret (Some vals, fold_left Z.add vals 0, d7)
  else Ret (None, (valence * count) mod 2 ^ topo_product_bits, d6).

Definition items_step (vals : option (list Z)) (count valence henc : Z) (mk : Z -> R Z)
  (add : list Z -> list (list Z) -> R (option (list Z))) (d7 : dec) : R (list (list Z) * dec) :=
  match vals with
  | Some vs => rd_items_var vs henc mk add [] d7
  | None => rd_items_fixed (S (length d7)) count valence henc mk add [] d7
  end.

Lemma poly_valences f items r (count : Z) :
  count = len items -> len items < 4294967296 -> form_ok f items ->
  valences_step (form_valence f) (form_venc f) count (valence_data f items ++ r) = Ret (form_vals f items, hsum items, r).
Proof.
  intros -> Hlt Hf. unfold valences_step. destruct f as [v|venc]; cbn [form_valence form_venc form_vals valence_data form_ok] in *.
  - destruct Hf as [Hv1 Hv2]. rewrite (eqb_false v 0) by lia. cbn [app].
    rewrite (topo_product_exact v (len items)) by (pose proof (len_nonneg items); lia).
    rewrite (hsum_const items v Hv2). do 3 f_equal. lia.
  - destruct Hf as [He Hl]. cbn [Z.eqb]. rewrite enc_ok_not_none by exact He.
    rewrite read_n_ints_id'; [| rewrite len_map; reflexivity | exact He |].
    + cbn [bind]. rewrite fold_left_add_hsum. reflexivity.
    + clear - Hl. induction Hl; cbn [map]; constructor; assumption.
Qed.

Lemma form_header_ok f items : form_ok f items ->
  is_valid_IntEncoding (form_venc f) = true /\ 0 <= form_valence f < 256 /\
  negb (form_valence f =? 0) && negb (form_venc f =? IntEncoding_None) = false.
Proof.
  destruct f as [v|venc]; cbn [form_ok form_venc form_valence].
  - intros [Hv _]. split; [reflexivity|]. split; [lia|]. apply andb_false_r.
  - intros [He _]. split; [apply enc_ok_valid; exact He|]. split; [lia|]. reflexivity.
Qed.

(* the face / cell loop in either form *)
Lemma poly_items f henc off lim add items (count : Z) :
  count = len items -> enc_ok henc -> lim <= 2147483648 -> form_ok f items ->
  Forall (Forall (handle_fits henc off lim)) items -> add_accepts add items ->
  items_step (form_vals f items) count (form_valence f) henc (mk_handle off lim) add
    (concat (map (enc_handles henc off) items) ++ []) = Ret (items, []).
Proof.
  intros -> He Hl Hf Hh Ha. unfold items_step. destruct f as [v|venc]; cbn [form_vals form_valence form_ok] in *.
  - destruct Hf as [Hv1 Hv2].
    rewrite rd_items_fixed_enc; [reflexivity|assumption..|].
    rewrite app_nil_r.
    assert (L : len (concat (map (enc_handles henc off) items)) = hsum items * henc) by (apply len_enc_items; exact He).
    rewrite (hsum_const items v Hv2) in L. pose proof (enc_ok_pos _ He). pose proof (len_nonneg items).
    assert (G1 : len items * 1 <= len items * v) by (apply Z.mul_le_mono_nonneg_l; lia).
    assert (G2 : (len items * v) * 1 <= (len items * v) * henc) by (apply Z.mul_le_mono_nonneg_l; lia).
    unfold len in *. lia.
  - rewrite rd_items_var_enc by assumption. reflexivity.
Qed.

Lemma topo_faces_ok o h st f henc off items :
  items <> [] -> len items < 4294967296 -> enc_ok henc -> 0 <= off < 18446744073709551616 ->
  form_ok f items -> hsum items * henc < 18446744073709551616 ->
  0 <= r_nfr st -> r_nfr st + len items <= h_nf h -> h_nf h < 18446744073709551616 ->
  2 * r_ner st <= 2147483648 -> Forall (Forall (handle_fits henc off (2 * r_ner st))) items ->
  topo_req (h_topo h) 3 4 items ->
  add_accepts (fun hs _ => mesh_add_face o (r_edges st) hs) items ->
  read_topo_chunk o h st (poly_payload TopoEntity_Face (r_nfr st) f henc off items) = Ret (add_faces (len items) items st, []).
Proof.
  intros Hne Hlen He Hoff Hf Hsum Hr0 Hr1 Htot Hlim Hh [Htet Hhex] Hadd.
  assert (Hpos : 0 < len items) by (destruct items; [congruence|apply len_pos_cons]).
  destruct (form_header_ok f items Hf) as [Hvenc [Hval Hcomb]].
  unfold poly_payload, topo_header_off, read_topo_chunk.
  remember (concat (map (enc_handles henc off) items)) as data eqn:Edata.
  assert (Ld : len data = hsum items * henc) by (subst data; apply len_enc_items; exact He).
  pose proof (enc_ok_pos _ He) as Hep. pose proof (hsum_nonneg items) as Hs0.
  rewrite <- !app_assoc. cbn [app].
  rewrite need_ok by (unfold ovmb_size_TopoChunkHeader; lenlia).
  cb. rewrite rd_span_app by lia. cb.
  rewrite rd_enum8_cons by reflexivity. cb.
  rewrite rd_u8_cons. cb.
  rewrite rd_enum8_cons by exact Hvenc. cb.
  rewrite rd_enum8_cons by (apply enc_ok_valid; exact He). cb.
  rewrite rd_u64_enc by exact Hoff. cb.
  rewrite (eqb_false (len items) 0) by lia.
  rewrite enc_ok_valid, enc_ok_not_none by exact He. cb.
  change (is_valid_TopoEntity TopoEntity_Face) with true. cb.
  rewrite Hcomb.
  rewrite <- (app_nil_r data).
  match goal with |- context C [bind ?X ?k] =>
    lazymatch X with (if form_valence f =? 0 then _ else _) =>
      let G := context C [bind (valences_step (form_valence f) (form_venc f) (len items) (valence_data f items ++ data ++ [])) k] in
      change G end end.
  rewrite (poly_valences f items (data ++ []) (len items) eq_refl Hlen Hf). cb.
  rewrite elem_size_ok by exact He. rewrite wrap64_small by lia.
  rewrite (eqb_true (len (data ++ []))) by (rewrite app_nil_r; lia). cb.
  rewrite validate_span_val by lia. cb.
  rewrite (topo_check_false (h_topo h) TopoType_Tetrahedral f items 3 Hne Hf Htet).
  rewrite (topo_check_false (h_topo h) TopoType_Hexahedral f items 4 Hne Hf Hhex).
  rewrite Edata.
  match goal with |- context C [bind ?X ?k] =>
    lazymatch X with (match form_vals f items with Some _ => _ | None => _ end) =>
      let G := context C [bind (items_step (form_vals f items) (len items) (form_valence f) henc (mk_handle off (2 * r_ner st))
                                 (fun hs _ => mesh_add_face o (r_edges st) hs) (concat (map (enc_handles henc off) items) ++ [])) k] in
      change G end end.
  rewrite (poly_items f henc off (2 * r_ner st) _ items (len items) eq_refl He Hlim Hf Hh Hadd).
  reflexivity.
Qed.

Lemma topo_cells_ok o h st f henc off items :
  items <> [] -> len items < 4294967296 -> enc_ok henc -> 0 <= off < 18446744073709551616 ->
  form_ok f items -> hsum items * henc < 18446744073709551616 ->
  0 <= r_ncr st -> r_ncr st + len items <= h_nc h -> h_nc h < 18446744073709551616 ->
  2 * r_nfr st <= 2147483648 -> Forall (Forall (handle_fits henc off (2 * r_nfr st))) items ->
  topo_req (h_topo h) 4 6 items ->
  add_accepts (fun hs _ => mesh_add_cell o (r_edges st) (r_faces st) hs) items ->
  read_topo_chunk o h st (poly_payload TopoEntity_Cell (r_ncr st) f henc off items) = Ret (add_cells (len items) items st, []).
Proof.
  intros Hne Hlen He Hoff Hf Hsum Hr0 Hr1 Htot Hlim Hh [Htet Hhex] Hadd.
  assert (Hpos : 0 < len items) by (destruct items; [congruence|apply len_pos_cons]).
  destruct (form_header_ok f items Hf) as [Hvenc [Hval Hcomb]].
  unfold poly_payload, topo_header_off, read_topo_chunk.
  remember (concat (map (enc_handles henc off) items)) as data eqn:Edata.
  assert (Ld : len data = hsum items * henc) by (subst data; apply len_enc_items; exact He).
  pose proof (enc_ok_pos _ He) as Hep. pose proof (hsum_nonneg items) as Hs0.
  rewrite <- !app_assoc. cbn [app].
  rewrite need_ok by (unfold ovmb_size_TopoChunkHeader; lenlia).
  cb. rewrite rd_span_app by lia. cb.
  rewrite rd_enum8_cons by reflexivity. cb.
  rewrite rd_u8_cons. cb.
  rewrite rd_enum8_cons by exact Hvenc. cb.
  rewrite rd_enum8_cons by (apply enc_ok_valid; exact He). cb.
  rewrite rd_u64_enc by exact Hoff. cb.
  rewrite (eqb_false (len items) 0) by lia.
  rewrite enc_ok_valid, enc_ok_not_none by exact He. cb.
  change (is_valid_TopoEntity TopoEntity_Cell) with true. cb.
  rewrite Hcomb.
  rewrite <- (app_nil_r data).
  match goal with |- context C [bind ?X ?k] =>
    lazymatch X with (if form_valence f =? 0 then _ else _) =>
      let G := context C [bind (valences_step (form_valence f) (form_venc f) (len items) (valence_data f items ++ data ++ [])) k] in
      change G end end.
  rewrite (poly_valences f items (data ++ []) (len items) eq_refl Hlen Hf). cb.
  rewrite elem_size_ok by exact He. rewrite wrap64_small by lia.
  rewrite (eqb_true (len (data ++ []))) by (rewrite app_nil_r; lia). cb.
  rewrite validate_span_val by lia. cb.
  rewrite (topo_check_false (h_topo h) TopoType_Tetrahedral f items 4 Hne Hf Htet).
  rewrite (topo_check_false (h_topo h) TopoType_Hexahedral f items 6 Hne Hf Hhex).
  rewrite Edata.
  match goal with |- context C [bind ?X ?k] =>
    lazymatch X with (match form_vals f items with Some _ => _ | None => _ end) =>
      let G := context C [bind (items_step (form_vals f items) (len items) (form_valence f) henc (mk_handle off (2 * r_nfr st))
                                 (fun hs _ => mesh_add_cell o (r_edges st) (r_faces st) hs) (concat (map (enc_handles henc off) items) ++ [])) k] in
      change G end end.
  rewrite (poly_items f henc off (2 * r_nfr st) _ items (len items) eq_refl He Hlim Hf Hh Hadd).
  reflexivity.
Qed.
