(* IO/Ascii2Prop.v -- C06 (ASCII), property sections: the header line `<Entity>Prop <type> "<name>"` of writeProps read
   back by readProperty (keyword, type name, quoted name), one whole property section (header + one value per line), and
   the property loop `while (good()) readProperty` over everything writeProps wrote (prop_loop_print).
   Format limits of a header: [name_okb] (a name is not empty, contains no newline and does not end in a quote) and
   [type_okb] (the type has a registered type name: vectors of dimension 2, 3, 4). *)
From Coq Require Import ZArith Lia List Bool String Ascii.
From OVM Require Import Kernel.Ops.
From OVM Require Import IO.AsciiStream IO.AsciiReaderModel IO.AsciiWriterModel IO.AsciiProofs IO.Ascii2Num IO.Ascii2Val.
Import ListNotations.
Local Open Scope Z_scope.

(* ------------------------------------------------------------------ getCleanLine over blank lines *)

Lemma getline_blank X : getline (st (c_nl :: X)) = (st X, Some []).
Proof. exact (getline_line [] X (fun H => H)). Qed.

Lemma gcl_skip_nls : forall lead fuel l R line0, nls lead -> clean l -> (length lead < fuel)%nat ->
  get_clean_line fuel (st (lead ++ l ++ c_nl :: R)) line0 = Some (st R, l, true).
Proof.
  induction lead as [|c lead IH]; intros fuel l R line0 Hn Cl Hf.
  - destruct fuel as [|fuel]; [cbn in Hf; lia|]. cbn [app]. apply gcl_clean; auto.
  - inversion Hn as [|? ? Hc Hn']; subst. destruct fuel as [|fuel]; [cbn in Hf; lia|].
    cbn [app get_clean_line]. rewrite getline_blank. cbn [trim drop_trim rev_append good st mk eofb failb negb andb].
    apply IH; auto. cbn [length] in Hf. lia.
Qed.

Lemma gcl_end_nls : forall lead fuel line0, nls lead -> (length lead < fuel)%nat ->
  get_clean_line fuel (st lead) line0 = Some (mk [] true true, [], false).
Proof.
  induction lead as [|c lead IH]; intros fuel line0 Hn Hf.
  - destruct fuel as [|fuel]; [cbn in Hf; lia|]. reflexivity.
  - inversion Hn as [|? ? Hc Hn']; subst. destruct fuel as [|fuel]; [cbn in Hf; lia|].
    cbn [get_clean_line]. rewrite getline_blank. cbn [trim drop_trim rev_append good st mk eofb failb negb andb].
    apply IH; auto. cbn [length] in Hf. lia.
Qed.

(* ------------------------------------------------------------------ extractQuotedText *)

Lemma find_first_app c : forall pre X i, ~ In c pre -> find_first c (pre ++ c :: X) i = Some (i + length pre)%nat.
Proof.
  induction pre as [|a pre IH]; intros X i Hn.
  - cbn. rewrite Z.eqb_refl. f_equal. lia.
  - cbn [app find_first length]. assert (E : (a =? c) = false) by (apply Z.eqb_neq; intros ->; apply Hn; left; reflexivity).
    rewrite E. rewrite IH; [f_equal; lia|]. intros H. apply Hn. right. exact H.
Qed.

Lemma find_last_not_app c : forall a b i acc,
  find_last_not c (a ++ b) i acc = find_last_not c b (i + length a)%nat (find_last_not c a i acc).
Proof.
  induction a as [|x a IH]; intros b i acc.
  - cbn. rewrite Nat.add_0_r. reflexivity.
  - cbn [app find_last_not length]. rewrite IH. f_equal. lia.
Qed.

Definition name_ok (n : list byte) : Prop := ~ In c_nl n /\ exists n' c, n = n' ++ [c] /\ c <> c_quote.
Definition name_okb (n : list byte) : bool :=
  negb (existsb (Z.eqb c_nl) n) && negb (is_nil n) && negb (last n 0 =? c_quote).

Lemma name_okb_ok n : name_okb n = true -> name_ok n.
Proof.
  unfold name_okb, name_ok. intros H. apply andb_prop in H. destruct H as [H H3]. apply andb_prop in H. destruct H as [H1 H2].
  split.
  - intros Hi. apply negb_true_iff in H1. assert (X : existsb (Z.eqb c_nl) n = true) by (apply existsb_exists; exists c_nl; split; [auto|apply Z.eqb_refl]).
    congruence.
  - destruct n as [|a n]; [discriminate|]. destruct (exists_last (l := a :: n) ltac:(discriminate)) as (n' & c & E).
    exists n', c. split; [exact E|]. rewrite E, last_last in H3. apply negb_true_iff in H3. apply Z.eqb_neq in H3. exact H3.
Qed.

Lemma extract_quoted_line pre name : ~ In c_quote pre -> name_ok name ->
  extract_quoted (pre ++ c_quote :: name ++ [c_quote]) = name.
Proof.
  intros Hp (_ & n' & c & -> & Hc). unfold extract_quoted.
  rewrite find_first_app by auto. cbn [Nat.add].
  assert (E : pre ++ c_quote :: (n' ++ [c]) ++ [c_quote] = (pre ++ c_quote :: n') ++ [c] ++ [c_quote]).
  { rewrite <- !app_assoc. reflexivity. }
  rewrite E at 1. rewrite find_last_not_app, find_last_not_app. cbn [find_last_not length Nat.add].
  assert (C1 : (c =? c_quote) = false) by (apply Z.eqb_neq; auto). rewrite C1. rewrite Z.eqb_refl.
  rewrite app_length. cbn [length].
  assert (L : (S (length pre) <=? S (length pre + S (length n')))%nat = true) by (apply Nat.leb_le; lia). rewrite L.
  change (pre ++ c_quote :: (n' ++ [c]) ++ [c_quote]) with (pre ++ [c_quote] ++ (n' ++ [c]) ++ [c_quote]).
  rewrite app_assoc. rewrite skipn_app. rewrite skipn_all2 by (rewrite app_length; cbn; lia).
  rewrite app_length. cbn [length app]. replace (S (length pre) - (length pre + 1))%nat with 0%nat by lia. cbn [skipn].
  replace (S (length pre + S (length n')) - S (length pre))%nat with (length (n' ++ [c])) by (rewrite app_length; cbn; lia).
  rewrite firstn_app, firstn_all, Nat.sub_diag. cbn [firstn]. apply app_nil_r.
Qed.

(* ------------------------------------------------------------------ keywords *)

Definition type_okb (t : atype) : bool :=
  match t with TVec n _ => (n =? 2)%nat || (n =? 3)%nat || (n =? 4)%nat | _ => true end.

Lemma type_name_ok t : type_okb t = true ->
  type_of_name (lower (type_name t)) = Some t /\ tokp (type_name t) /\ ~ In c_quote (type_name t) /\ ~ In c_nl (type_name t).
Proof.
  assert (NI : forall (c : byte) l, existsb (Z.eqb c) l = false -> ~ In c l).
  { intros c l H Hi. assert (X : existsb (Z.eqb c) l = true) by (apply existsb_exists; exists c; split; [auto|apply Z.eqb_refl]). congruence. }
  destruct t; intros H; try (split; [reflexivity|split; [tok_closed|split; apply NI; reflexivity]]).
  cbn [type_okb] in H.
  destruct n as [|[|[|[|[|n]]]]]; try discriminate; destruct s; (split; [reflexivity|split; [tok_closed|split; apply NI; reflexivity]]).
Qed.

Lemma entity_name_ok k :
  kind_of_name (lower (entity_name k)) = Some k /\ tokp (entity_name k) /\ hd 0 (entity_name k) <> 35 /\
  ~ In c_quote (entity_name k) /\ ~ In c_nl (entity_name k).
Proof.
  assert (NI : forall (c : byte) l, existsb (Z.eqb c) l = false -> ~ In c l).
  { intros c l H Hi. assert (X : existsb (Z.eqb c) l = true) by (apply existsb_exists; exists c; split; [auto|apply Z.eqb_refl]). congruence. }
  destruct k; (split; [reflexivity|split; [tok_closed|split; [discriminate|split; apply NI; reflexivity]]]).
Qed.

(* the header line without its newline *)
Definition header (k : kind) (t : atype) (name : list byte) : list byte :=
  entity_name k ++ 32 :: type_name t ++ 32 :: c_quote :: name ++ [c_quote].

Lemma header_clean k t name : type_okb t = true -> name_ok name -> clean (header k t name).
Proof.
  intros Ht (Hn & n' & c & En & Hc). destruct (entity_name_ok k) as (_ & (Ene & Ew) & Hh & _ & Enl).
  destruct (type_name_ok t Ht) as (_ & _ & _ & Tnl). unfold header, clean. split; [|split].
  - intros H. apply in_app_or in H. destruct H as [H|H]; [auto|]. destruct H as [H|H]; [discriminate H|].
    apply in_app_or in H. destruct H as [H|H]; [auto|]. destruct H as [H|H]; [discriminate H|]. destruct H as [H|H]; [discriminate H|].
    apply in_app_or in H. destruct H as [H|H]; [auto|]. destruct H as [H|[]]. discriminate H.
  - destruct (entity_name k) as [|e en]; [congruence|]. inversion Ew; subst. exists e. eexists. split; [reflexivity|].
    split; [apply isspace_trim; auto|exact Hh].
  - exists (entity_name k ++ 32 :: type_name t ++ 32 :: c_quote :: name), c_quote. split; [|reflexivity].
    rewrite <- !app_assoc. cbn [app]. rewrite <- !app_assoc. reflexivity.
Qed.

Lemma header_quoted k t name : type_okb t = true -> name_ok name -> extract_quoted (header k t name) = name.
Proof.
  intros Ht Hn. destruct (entity_name_ok k) as (_ & _ & _ & Eq & _). destruct (type_name_ok t Ht) as (_ & _ & Tq & _).
  unfold header.
  assert (E : entity_name k ++ 32 :: type_name t ++ 32 :: c_quote :: name ++ [c_quote]
              = (entity_name k ++ 32 :: type_name t ++ [32]) ++ c_quote :: name ++ [c_quote]).
  { rewrite <- !app_assoc. cbn [app]. rewrite <- !app_assoc. reflexivity. }
  rewrite E. apply extract_quoted_line; auto.
  intros H. apply in_app_or in H. destruct H as [H|H]; [auto|]. destruct H as [H|H]; [discriminate H|].
  apply in_app_or in H. destruct H as [H|H]; [auto|]. destruct H as [H|[]]. discriminate H.
Qed.

Lemma header_words k t name : type_okb t = true ->
  exists ss1 ss2,
    get_word (sstr_of (header k t name)) = (ss1, Some (entity_name k)) /\ get_word ss1 = (ss2, Some (type_name t)).
Proof.
  intros Ht. destruct (entity_name_ok k) as (_ & Etk & _). destruct (type_name_ok t Ht) as (_ & Ttk & _).
  unfold header, sstr_of, of_bytes. fold (st (entity_name k ++ 32 :: type_name t ++ 32 :: c_quote :: name ++ [c_quote])).
  rewrite get_word_tok_0; [|auto|right; eexists; reflexivity]. cbn [is_nil].
  fold (st (32 :: type_name t ++ 32 :: c_quote :: name ++ [c_quote])).
  eexists. eexists. split; [reflexivity|].
  rewrite get_word_tok_sp; [reflexivity|auto|right; eexists; reflexivity].
Qed.

(* ------------------------------------------------------------------ one property section *)

Section Props.
  Variable conv_d : list byte -> Z * bool.
  Variable conv_f : list byte -> Z * bool.
  Variable print_d : Z -> list byte.
  Variable print_f : Z -> list byte.
  Variable okd : Z -> bool.
  Variable okf : Z -> bool.
  Hypothesis printd_tok : forall b, Okd okd b -> tokp (print_d b) /\ hd 0 (print_d b) <> 35.
  Hypothesis printd_scan : forall b r, Okd okd b -> endws r -> float_scan (print_d b ++ r) = (print_d b, r).
  Hypothesis printd_conv : forall b, Okd okd b -> snd (conv_d (print_d b)) = false.
  Hypothesis printf_tok : forall b, Okf okf b -> tokp (print_f b) /\ hd 0 (print_f b) <> 35.
  Hypothesis printf_scan : forall b r, Okf okf b -> endws r -> float_scan (print_f b ++ r) = (print_f b, r).
  Hypothesis printf_conv : forall b, Okf okf b -> snd (conv_f (print_f b)) = false.

  Notation rpv := (rp_val conv_d conv_f print_d print_f).
  Notation vok := (val_okb okd okf).

  (* the entry the reader creates for a written entry *)
  Definition rp_entry (p : pentry) : pentry :=
    {| p_kind := p_kind p; p_name := p_name p; p_type := p_type p; p_persistent := true;
       p_vals := map (rpv (p_type p)) (p_vals p) |}.

  (* a persistent property inside the format's limits, sized like its entity kind *)
  Definition prop_okb (o : opts) (m : mesh) (p : pentry) : bool :=
    type_okb (p_type p) && name_okb (p_name p) && forallb (vok o (p_type p)) (p_vals p) &&
    (length (p_vals p) =? count (p_kind p) m)%nat && p_persistent p.

  Definition fresh (p : pentry) (props : list pentry) : Prop :=
    find_prop (p_kind p) (p_name p) (p_type p) props 0 = None.

  Lemma write_prop_shape p :
    write_prop print_d print_f p
    = header (p_kind p) (p_type p) (p_name p) ++ c_nl :: vals_text print_d print_f (p_type p) (p_vals p).
  Proof.
    unfold write_prop, header, vals_text, sp, nl, c_quote, c_nl.
    repeat (first [rewrite <- app_assoc | progress cbn [app]]). reflexivity.
  Qed.

  Lemma match_name_cons {A} (name : list byte) (x g : A) : name <> [] ->
    match name with [] => x | _ :: _ => g end = g.
  Proof. destruct name; [congruence|reflexivity]. Qed.

  Lemma generate_property_fresh o m k name t s props s1 vs : name <> [] -> find_prop k name t props 0 = None ->
    deser_all conv_d conv_f o t (repeat (default_val t) (count k m)) s = inl (s1, vs) ->
    generate_property conv_d conv_f o m k name t s props
    = Go (s1, props ++ [{| p_kind := k; p_name := name; p_type := t; p_persistent := true; p_vals := vs |}]).
  Proof. intros Hn Hf E. unfold generate_property. destruct name; [congruence|]. rewrite Hf, E. reflexivity. Qed.

  Lemma read_property_print o m p lead R props : prop_okb o m p = true -> nls lead -> fresh p props ->
    exists ws, nls ws /\
      read_property conv_d conv_f o m (st (lead ++ write_prop print_d print_f p ++ R)) props
      = Go (st (ws ++ R), props ++ [rp_entry p]).
  Proof.
    intros Hp Hl Hfr. unfold prop_okb in Hp.
    apply andb_prop in Hp. destruct Hp as [Hp Hpers]. apply andb_prop in Hp. destruct Hp as [Hp Hlen].
    apply andb_prop in Hp. destruct Hp as [Hp Hvals]. apply andb_prop in Hp. destruct Hp as [Hty Hname].
    apply name_okb_ok in Hname. apply Nat.eqb_eq in Hlen.
    rewrite write_prop_shape. set (k := p_kind p) in *. set (t := p_type p) in *. set (name := p_name p) in *.
    pose proof (header_clean k t name Hty Hname) as Cl.
    unfold read_property.
    assert (G : get_clean_line (gcl_fuel (st (lead ++ (header k t name ++ c_nl :: vals_text print_d print_f t (p_vals p)) ++ R)))
                  (st (lead ++ (header k t name ++ c_nl :: vals_text print_d print_f t (p_vals p)) ++ R)) []
                = Some (st (vals_text print_d print_f t (p_vals p) ++ R), header k t name, true)).
    { rewrite <- app_assoc. cbn [app]. apply gcl_skip_nls; auto. unfold gcl_fuel. cbn [rest st mk]. rewrite app_length. lia. }
    rewrite G.
    destruct (header_words k t name Hty) as (ss1 & ss2 & W1 & W2).
    destruct (entity_name_ok k) as (Ek & _). destruct (type_name_ok t Hty) as (Et & _).
    assert (Hne : header k t name <> []).
    { unfold header. destruct (entity_name k); discriminate. }
    destruct (header k t name) as [|h0 hl] eqn:EH; [congruence|]. rewrite <- EH in *.
    rewrite W1, W2, Et, Ek, (header_quoted k t name Hty Hname).
    assert (Nn : name <> []). { destruct Hname as (_ & n' & c & E0 & _). rewrite E0. destruct n'; discriminate. }
    rewrite (match_name_cons name) by exact Nn.
    destruct (deser_all_print conv_d conv_f print_d print_f okd okf printd_tok printd_scan printd_conv printf_tok printf_scan printf_conv
                o t (p_vals p) [] R Hvals allws_nil) as (ws & Nw & E).
    cbn [app] in E. rewrite Hlen in E. unfold fresh in Hfr. fold k t name in Hfr.
    rewrite (generate_property_fresh o m k name t _ props _ _ Nn Hfr E).
    exists ws. split; [apply Nw; apply nls_nil|reflexivity].
  Qed.

  (* ---------------------------------------------------------------- the property loop *)

  Fixpoint all_fresh (props : list pentry) (ps : list pentry) : Prop :=
    match ps with
    | [] => True
    | p :: t => fresh p props /\ all_fresh (props ++ [rp_entry p]) t
    end.

  Lemma prop_loop_end fuel o m lead props : nls lead -> (0 < fuel)%nat ->
    prop_loop conv_d conv_f fuel o m (st lead) props = Go (mk [] true true, props).
  Proof.
    intros Hl Hf. destruct fuel as [|fuel]; [lia|]. cbn [prop_loop good st mk eofb failb negb andb].
    unfold read_property. rewrite gcl_end_nls; auto; [|unfold gcl_fuel; cbn [rest st mk]; lia].
    cbn [bind]. destruct fuel; reflexivity.
  Qed.

  Theorem prop_loop_print o m : forall ps fuel lead props,
    nls lead -> (length ps < fuel)%nat -> forallb (prop_okb o m) ps = true -> all_fresh props ps ->
    prop_loop conv_d conv_f fuel o m (st (lead ++ concat (map (write_prop print_d print_f) ps))) props
    = Go (mk [] true true, props ++ map rp_entry ps).
  Proof.
    induction ps as [|p ps IH]; intros fuel lead props Hl Hf Hok Hfr.
    - cbn [map concat]. rewrite !app_nil_r. apply prop_loop_end; auto.
    - cbn [forallb] in Hok. apply andb_prop in Hok. destruct Hok as [Hp Hok]. destruct Hfr as [Hfr1 Hfr2].
      destruct fuel as [|fuel]; [cbn in Hf; lia|]. cbn [map concat].
      destruct (read_property_print o m p lead (concat (map (write_prop print_d print_f) ps)) props Hp Hl Hfr1) as (ws & Nw & E).
      cbn [prop_loop good st mk eofb failb negb andb]. rewrite E. cbn [bind].
      rewrite IH; auto; [|cbn [length] in Hf; lia]. rewrite <- app_assoc. reflexivity.
  Qed.
End Props.
