(* IO/Ovmb2SpecLayout.v -- the specification reader on every valid layout of a mesh (IO/Ovmb2Layout.v), in particular on the
   writer's own file: decode_spec gives back exactly the mesh. *)
From Coq Require Import ZArith List Bool Lia.
From OVM Require Import Base.Int32 Gen.OvmbFormat IO.Bytes IO.OvmbWriterModel IO.OvmbReaderModel IO.OvmbSpec IO.OvmbProofs
  IO.Ovmb2Base IO.Ovmb2Chunk IO.Ovmb2Alt IO.Ovmb2Ints IO.Ovmb2Topo IO.Ovmb2Vert IO.Ovmb2Dirp IO.Ovmb2Prop IO.Ovmb2Run
  IO.Ovmb2Groups IO.Ovmb2PropGroup IO.Ovmb2Layout IO.Ovmb2SpecBase IO.Ovmb2SpecParse IO.Ovmb2SpecChunks IO.Ovmb2SpecRun.
Import ListNotations.
Local Open Scope Z_scope.

Definition mkS pos E F C D V : sst := {| ss_pos := pos; ss_edges := E; ss_faces := F; ss_cells := C; ss_dir := D; ss_vals := V |}.

Definition sphase (h : ksy_header) (S : sst) (cs : list chunkd) (S' : sst) : Prop :=
  spec_run_valid h S cs /\ spec_run S cs = S'.

Lemma sphase_app h S a S1 b S2 : sphase h S a S1 -> sphase h S1 b S2 -> sphase h S (a ++ b) S2.
Proof.
  intros [A1 A2] [B1 B2]. split.
  - apply spec_run_valid_app; [exact A1|]. rewrite A2. exact B1.
  - rewrite spec_run_app, A2. exact B2.
Qed.

Lemma sphase_nil h S : sphase h S [] S.
Proof. split; [exact I|reflexivity]. Qed.

Lemma sphase_skip h S l : Forall skip_ok l -> sphase h S (skip_chunks l) S.
Proof.
  unfold skip_chunks. induction 1 as [|[ty p] t [H1 H2] Ht IH]; [apply sphase_nil|].
  cbn [map fst snd] in *. destruct IH as [I1 I2]. split.
  - cbn [spec_run_valid payload_of spec_valid spec_next]. split; [split; assumption|exact I1].
  - cbn [spec_run spec_next]. exact I2.
Qed.

Lemma sphase_skip_then h S l cs S' : Forall skip_ok l -> sphase h S cs S' -> sphase h S (skip_chunks l ++ cs) S'.
Proof. intros H P. eapply sphase_app; [apply sphase_skip; exact H|exact P]. Qed.

(* ================================================================================================ VERT *)
Definition svseg_ok (dim : Z) (s : list (list Z)) : Prop :=
  len s < 4294967296 /\ len s * (8 * dim) < 2305843009213693952 /\ Forall (fun p => len p = dim /\ Forall u64_ok p) s.

Lemma len_vert_payload' dim first ps : Forall (fun p => len p = dim /\ Forall u64_ok p) ps -> 0 <= dim ->
  len (vert_payload first ps) = 16 + len ps * (8 * dim).
Proof.
  intros H Hd. apply len_vert_payload; [|exact Hd].
  eapply Forall_impl; [|exact H]. intros p [A B]. split; [unfold len in A; lia|exact B].
Qed.

Lemma sp_vert h E F C D V : forall segs pos,
  len pos + len (concat segs) <= k_n_vertices h -> k_n_vertices h < 18446744073709551616 -> 1 <= k_vertex_dim h ->
  Forall (svseg_ok (k_vertex_dim h)) segs ->
  sphase h (mkS pos E F C D V) (vert_chunks (len pos) segs) (mkS (pos ++ concat segs) E F C D V).
Proof.
  induction segs as [|s t IH]; intros pos Hn Hnv Hd Hs.
  - cbn [vert_chunks concat]. rewrite app_nil_r. apply sphase_nil.
  - inversion Hs as [|? ? [Hs0 [Hs1 Hs2]] Hst]; subst.
    cbn [concat] in Hn. rewrite len_app in Hn. pose proof (len_nonneg s). pose proof (len_nonneg (concat t)). pose proof (len_nonneg pos).
    cbn [vert_chunks concat].
    destruct (IH (pos ++ s)) as [I1 I2]; try assumption; [rewrite len_app; lia|].
    rewrite len_app in I1, I2. rewrite <- app_assoc in I2.
    split.
    + cbn [spec_run_valid]. split; [|exact I1].
      split; [cbn [payload_of]; rewrite (len_vert_payload' (k_vertex_dim h)) by (assumption || lia); unfold max_payload; lia|].
      cbn [spec_valid mkS ss_pos]. repeat split; try assumption; try lia; try nia.
    + cbn [spec_run spec_next mkS ss_pos ss_edges ss_faces ss_cells ss_dir ss_vals]. exact I2.
Qed.

(* ================================================================================================ TOPO *)
Definition seseg_ok (h : ksy_header) (s : eseg) : Prop :=
  es_items s <> [] /\ enc_ok (es_henc s) /\ 0 <= es_off s < 18446744073709551616 /\
  Forall (fun e => off_fits (es_henc s) (es_off s) (fst e) /\ off_fits (es_henc s) (es_off s) (snd e)) (es_items s) /\
  Forall (fun e => (0 <= fst e < k_n_vertices h) /\ (0 <= snd e < k_n_vertices h)) (es_items s).

Lemma sp_edge h P F C D V : forall segs E,
  len E + len (all_edges segs) <= k_n_edges h -> k_n_edges h < 1073741824 -> k_n_vertices h <= two64 ->
  Forall (seseg_ok h) segs ->
  sphase h (mkS P E F C D V) (edge_chunks (len E) segs) (mkS P (E ++ all_edges segs) F C D V).
Proof.
  unfold all_edges. induction segs as [|s t IH]; intros E Hn Hne Hnv Hs.
  - cbn [edge_chunks map concat]. rewrite app_nil_r. apply sphase_nil.
  - inversion Hs as [|? ? [Hs1 [Hs2 [Hs3 [Hs4 Hs5]]]] Hst]; subst.
    cbn [map concat] in Hn. rewrite len_app in Hn.
    pose proof (len_nonneg (es_items s)). pose proof (len_nonneg (concat (map es_items t))). pose proof (len_nonneg E).
    cbn [edge_chunks map concat].
    destruct (IH (E ++ es_items s)) as [I1 I2]; try assumption; [rewrite len_app; lia|].
    rewrite len_app in I1, I2. rewrite <- app_assoc in I2.
    split.
    + cbn [spec_run_valid]. split; [|exact I1].
      split; [cbn [payload_of]; rewrite len_edges_payload by assumption; pose proof (enc_ok_pos _ Hs2); unfold max_payload; nia|].
      cbn [spec_valid mkS ss_edges]. repeat split; try assumption; try lia.
    + cbn [spec_run spec_next mkS ss_pos ss_edges ss_faces ss_cells ss_dir ss_vals]. exact I2.
Qed.

Definition spseg_ok (entity lim : Z) (s : pseg) : Prop :=
  enc_ok (ps_henc s) /\ 0 <= ps_off s < 18446744073709551616 /\ sform_ok (ps_form s) (ps_items s) /\
  Forall (Forall (off_fits (ps_henc s) (ps_off s))) (ps_items s) /\
  Forall (Forall (fun x => 0 <= x < lim)) (ps_items s) /\
  len (poly_payload entity 0 (ps_form s) (ps_henc s) (ps_off s) (ps_items s)) < max_payload.

Lemma sp_face h P E C D V : forall segs F,
  len F + len (all_items segs) <= k_n_faces h -> k_n_faces h < 1073741824 -> 2 * k_n_edges h <= two64 ->
  Forall (spseg_ok TopoEntity_Face (2 * k_n_edges h)) segs -> topo_req (k_topo_type h) 3 4 (all_items segs) ->
  sphase h (mkS P E F C D V) (poly_chunks TopoEntity_Face (len F) segs) (mkS P E (F ++ all_items segs) C D V).
Proof.
  unfold all_items. induction segs as [|s t IH]; intros F Hn Hnf Hlim Hs Htopo.
  - cbn [poly_chunks map concat]. rewrite app_nil_r. apply sphase_nil.
  - inversion Hs as [|? ? [Hs1 [Hs2 [Hs3 [Hs4 [Hs5 Hs6]]]]] Hst]; subst.
    cbn [map concat] in Hn, Htopo. rewrite len_app in Hn. apply topo_req_app in Htopo. destruct Htopo as [Ht1 Ht2].
    pose proof (len_nonneg (ps_items s)). pose proof (len_nonneg (concat (map ps_items t))). pose proof (len_nonneg F).
    cbn [poly_chunks map concat].
    destruct (IH (F ++ ps_items s)) as [I1 I2]; try assumption; [rewrite len_app; lia|].
    rewrite len_app in I1, I2. rewrite <- app_assoc in I2.
    split.
    + cbn [spec_run_valid]. split; [|exact I1].
      split; [cbn [payload_of]; rewrite (len_poly_payload_first _ _ 0); exact Hs6|].
      cbn [spec_valid mkS ss_faces]. repeat split; try assumption; try lia.
      left. repeat split; try assumption; try lia. apply Ht1. apply Ht1.
    + cbn [spec_run spec_next mkS ss_pos ss_edges ss_faces ss_cells ss_dir ss_vals].
      change (TopoEntity_Face =? TopoEntity_Face) with true. cbv iota. exact I2.
Qed.

Lemma sp_cell h P E F D V : forall segs C,
  len C + len (all_items segs) <= k_n_cells h -> k_n_cells h < 1073741824 -> 2 * k_n_faces h <= two64 ->
  Forall (spseg_ok TopoEntity_Cell (2 * k_n_faces h)) segs -> topo_req (k_topo_type h) 4 6 (all_items segs) ->
  sphase h (mkS P E F C D V) (poly_chunks TopoEntity_Cell (len C) segs) (mkS P E F (C ++ all_items segs) D V).
Proof.
  unfold all_items. induction segs as [|s t IH]; intros C Hn Hnf Hlim Hs Htopo.
  - cbn [poly_chunks map concat]. rewrite app_nil_r. apply sphase_nil.
  - inversion Hs as [|? ? [Hs1 [Hs2 [Hs3 [Hs4 [Hs5 Hs6]]]]] Hst]; subst.
    cbn [map concat] in Hn, Htopo. rewrite len_app in Hn. apply topo_req_app in Htopo. destruct Htopo as [Ht1 Ht2].
    pose proof (len_nonneg (ps_items s)). pose proof (len_nonneg (concat (map ps_items t))). pose proof (len_nonneg C).
    cbn [poly_chunks map concat].
    destruct (IH (C ++ ps_items s)) as [I1 I2]; try assumption; [rewrite len_app; lia|].
    rewrite len_app in I1, I2. rewrite <- app_assoc in I2.
    split.
    + cbn [spec_run_valid]. split; [|exact I1].
      split; [cbn [payload_of]; rewrite (len_poly_payload_first _ _ 0); exact Hs6|].
      cbn [spec_valid mkS ss_cells]. repeat split; try assumption; try lia.
      right. repeat split; try assumption; try lia. apply Ht1. apply Ht1.
    + cbn [spec_run spec_next mkS ss_pos ss_edges ss_faces ss_cells ss_dir ss_vals].
      change (TopoEntity_Cell =? TopoEntity_Face) with false. cbv iota. exact I2.
Qed.

(* ================================================================================================ PROP *)
Lemma list_upd_mid {A} (a : list A) x v b : list_upd (length a) v (a ++ x :: b) = a ++ v :: b.
Proof. induction a as [|y t IH]; cbn [length app list_upd]; [reflexivity|]. rewrite IH. reflexivity. Qed.

Lemma nth_mid {A} (a : list A) x b d : nth (length a) (a ++ x :: b) d = x.
Proof. induction a; [reflexivity|assumption]. Qed.

Definition spseg_vals_ok (ty : ptype) (s : list (list byte)) : Prop :=
  Forall (val_ok ty) s /\ len (prop_payload 0 0 ty s) < max_payload.

Lemma sp_prop_segs h P E F C es (j : nat) pt a b : forall segs done,
  nth_error es j = Some pt -> length a = j -> Z.of_nat j < 4294967296 ->
  codec_of (p_tname (fst pt)) = Some (snd pt) -> ty_ok (snd pt) ->
  len done + len (concat segs) <= entity_total h (p_ent (fst pt)) -> entity_total h (p_ent (fst pt)) < 4294967296 ->
  Forall (spseg_vals_ok (snd pt)) segs ->
  sphase h (mkS P E F C (Some es) (a ++ done :: b)) (prop_seg_chunks (Z.of_nat j) (len done) (snd pt) segs)
           (mkS P E F C (Some es) (a ++ (done ++ concat segs) :: b)).
Proof.
  induction segs as [|s t IH]; intros done Hnth Hj Hidx Hcodec Hty Hn Htot Hs.
  - cbn [prop_seg_chunks concat]. rewrite app_nil_r. apply sphase_nil.
  - inversion Hs as [|? ? [Hs1 Hs2] Hst]; subst.
    cbn [concat] in Hn. rewrite len_app in Hn.
    pose proof (len_nonneg s). pose proof (len_nonneg (concat t)). pose proof (len_nonneg done).
    cbn [prop_seg_chunks concat].
    destruct (IH (done ++ s)) as [I1 I2]; try assumption; try reflexivity; [rewrite len_app; lia|].
    rewrite len_app in I1, I2. rewrite <- app_assoc in I2.
    split.
    + cbn [spec_run_valid]. split.
      * split; [cbn [payload_of]; rewrite (len_prop_payload_idx _ 0 _ 0); exact Hs2|].
        cbn [spec_valid mkS ss_dir ss_vals]. exists es, pt. rewrite Nat2Z.id.
        unfold svals. cbn [ss_vals mkS]. rewrite nth_mid.
        repeat split; try assumption; try lia.
        rewrite app_length. cbn [length]. lia.
      * cbn [spec_next mkS ss_pos ss_edges ss_faces ss_cells ss_dir ss_vals]. rewrite Nat2Z.id.
        unfold svals. cbn [ss_vals mkS]. rewrite nth_mid, list_upd_mid. exact I1.
    + cbn [spec_run spec_next mkS ss_pos ss_edges ss_faces ss_cells ss_dir ss_vals]. rewrite Nat2Z.id.
      unfold svals. cbn [ss_vals mkS]. rewrite nth_mid, list_upd_mid. exact I2.
Qed.

Definition spentry_ok (h : ksy_header) (x : pentry) : Prop :=
  codec_of (p_tname (fst (fst x))) = Some (snd (fst x)) /\ ty_ok (snd (fst x)) /\
  len (concat (snd x)) <= entity_total h (p_ent (fst (fst x))) /\ entity_total h (p_ent (fst (fst x))) < 4294967296 /\
  Forall (spseg_vals_ok (snd (fst x))) (snd x).

Lemma sp_props h P E F C es : forall (pss : list pentry) a,
  (forall k x, nth_error pss k = Some x -> nth_error es (length a + k) = Some (fst x)) ->
  Z.of_nat (length a + length pss) < 4294967296 ->
  Forall (spentry_ok h) pss ->
  sphase h (mkS P E F C (Some es) (a ++ map (fun _ => []) pss)) (props_chunks (length a) pss)
           (mkS P E F C (Some es) (a ++ map (fun x => concat (snd x)) pss)).
Proof.
  induction pss as [|x t IH]; intros a Hnth Hlim Hok.
  - cbn [props_chunks map]. apply sphase_nil.
  - inversion Hok as [|? ? [H1 [H2 [H3 [H4 H5]]]] Hok']; subst.
    cbn [props_chunks map]. cbn [length] in Hlim.
    pose proof (Hnth 0%nat x eq_refl) as Hn0. rewrite Nat.add_0_r in Hn0.
    eapply sphase_app.
    + apply (sp_prop_segs h P E F C es (length a) (fst x) a (map (fun _ => []) t) (snd x) []); try assumption; try reflexivity; try lia;
        change (len (@nil (list byte))) with 0; lia.
    + cbn [app].
      assert (Hl : length (a ++ [concat (snd x)]) = S (length a)) by (rewrite app_length; cbn [length]; lia).
      specialize (IH (a ++ [concat (snd x)])). rewrite Hl in IH. rewrite <- !app_assoc in IH. cbn [app] in IH.
      apply IH; [|lia|exact Hok'].
      intros k y Hk. replace (S (length a) + k)%nat with (length a + S k)%nat by lia. apply Hnth. exact Hk.
Qed.

(* ================================================================================================ the whole layout *)
Record smesh_ok (dim topo : Z) (m : meshfile) (es : list (prop * ptype)) : Prop := {
  sm_topo : 0 <= topo <= 2;
  sm_dim : 1 <= dim;
  sm_nv0 : 0 <= m_nv m;
  sm_nv : m_nv m < 1073741824;
  sm_ne : len (m_edges m) < 1073741824;
  sm_nf : len (m_faces m) < 1073741824;
  sm_nc : len (m_cells m) < 1073741824;
  sm_npos : len (m_pos m) = m_nv m;
  sm_pos : Forall (fun p => len p = dim /\ Forall u64_ok p) (m_pos m);
  sm_edges : Forall (fun e => in_lim0 (m_nv m) (fst e) /\ in_lim0 (m_nv m) (snd e)) (m_edges m);
  sm_faces : Forall (Forall (in_lim0 (2 * len (m_edges m)))) (m_faces m);
  sm_cells : Forall (Forall (in_lim0 (2 * len (m_faces m)))) (m_cells m);
  sm_ftopo : topo_req topo 3 4 (m_faces m);
  sm_ctopo : topo_req topo 4 6 (m_cells m);
  sm_props : map fst es = m_props m;
  sm_entries : Forall (prop_entry_ok m) es;
  sm_nprops : len es < 4294967296;
  sm_dirp : len (dirp_payload es) < max_payload
}.

Lemma mesh_ok_smesh o dim topo m es : mesh_ok o dim topo m es -> 0 <= topo <= 2 -> smesh_ok dim topo m es.
Proof.
  intros M Ht. destruct (mo_header _ _ _ _ _ M) as [_ [[Hv0 _] _]]. pose proof (mo_dim _ _ _ _ _ M) as Hd.
  constructor; try (apply M); try assumption.
  eapply Forall_impl; [|exact (mo_pos _ _ _ _ _ M)]. intros p [A B]. split; [unfold len; lia|exact B].
Qed.

Lemma entity_total_ent_count dim topo m e : entity_total (kh_of dim topo m) e = ent_count m e.
Proof. reflexivity. Qed.

Lemma ent_count_bound' dim topo m es e : smesh_ok dim topo m es -> 0 <= ent_count m e <= 2147483648.
Proof.
  intros M. pose proof (sm_nv0 _ _ _ _ M). pose proof (sm_nv _ _ _ _ M). pose proof (sm_ne _ _ _ _ M).
  pose proof (sm_nf _ _ _ _ M). pose proof (sm_nc _ _ _ _ M).
  pose proof (len_nonneg (m_edges m)). pose proof (len_nonneg (m_faces m)). pose proof (len_nonneg (m_cells m)).
  unfold ent_count. repeat match goal with |- context [if ?c then _ else _] => destruct c end; lia.
Qed.

Lemma pseg_fits_spseg entity lim segs :
  Forall (pseg_fits entity) segs -> Forall (Forall (in_lim0 lim)) (all_items segs) -> Forall (spseg_ok entity lim) segs.
Proof.
  unfold all_items. intros Hf Hr. apply Forall_concat_inv in Hr.
  induction Hf as [|s t [A [B [C [D [E F]]]]] Ht IH]; [constructor|].
  inversion Hr as [|? ? Hs Hr']; subst. constructor; [|apply IH; exact Hr'].
  split; [exact B|]. split; [exact C|]. split; [apply form_ok_sform; exact D|]. split; [exact E|]. split; [exact Hs|exact F].
Qed.

Definition Sdir (es : list (prop * ptype)) : sst :=
  match es with [] => sst0 | _ => mkS [] [] [] [] (Some es) (repeat [] (length es)) end.

Lemma Sdir_shape es : exists D V, Sdir es = mkS [] [] [] [] D V /\
  (D = Some es \/ (D = None /\ es = [])) /\ V = repeat [] (length es).
Proof.
  destruct es as [|e t]; [exists None, []|eexists; eexists]; (split; [reflexivity|]); split; try reflexivity; auto.
Qed.

Lemma sphase_dir dim topo m es : smesh_ok dim topo m es ->
  sphase (kh_of dim topo m) sst0 (dirp_chunks es) (Sdir es).
Proof.
  intros M. destruct es as [|e t] eqn:E; [apply sphase_nil|].
  cbn [dirp_chunks Sdir]. rewrite <- E in *. split; [|reflexivity].
  cbn [spec_run_valid payload_of spec_valid sst0 ss_dir ss_vals]. split; [|exact I].
  split; [exact (sm_dirp _ _ _ _ M)|]. split; [reflexivity|]. split; [reflexivity|].
  eapply Forall_impl; [|exact (sm_entries _ _ _ _ M)]. intros pt Hpt. apply Hpt.
Qed.

Theorem layout_spec dim topo m es L : smesh_ok dim topo m es -> layout_ok dim m es L ->
  decode_spec dim (alt_file dim topo m (layout_chunks es L)) = Some m.
Proof.
  intros M LO. set (h := kh_of dim topo m).
  pose proof (sm_nv0 _ _ _ _ M) as Hv0. pose proof (sm_nv _ _ _ _ M) as Hnv. pose proof (sm_ne _ _ _ _ M) as Hne.
  pose proof (sm_nf _ _ _ _ M) as Hnf. pose proof (sm_nc _ _ _ _ M) as Hnc. pose proof (sm_dim _ _ _ _ M) as Hd.
  pose proof (len_nonneg (m_edges m)) as He0. pose proof (len_nonneg (m_faces m)) as Hf0. pose proof (len_nonneg (m_cells m)) as Hc0.
  pose proof (lo_skip _ _ _ _ LO) as Sk.
  destruct (Sdir_shape es) as [D [V [ES [ED EV]]]].
  pose proof (lo_prop _ _ _ _ LO) as Lp. pose proof (Forall2_length' _ _ _ Lp) as Hlen.
  set (pss := combine es (L_prop L)).
  assert (Hcl : length pss = length es) by (unfold pss; rewrite combine_length; lia).
  (* the phases *)
  assert (P : sphase h sst0 (layout_chunks es L)
                (mkS (m_pos m) (m_edges m) (m_faces m) (m_cells m) D (map (fun x => concat (snd x)) pss))).
  { unfold layout_chunks.
    apply sphase_skip_then; [apply Sk|]. eapply sphase_app; [apply (sphase_dir dim topo m es M)|]. rewrite ES.
    apply sphase_skip_then; [apply Sk|]. eapply sphase_app.
    { pose proof (sp_vert h [] [] [] D V (L_vert L) []) as G. cbn [app] in G. rewrite (lo_vert _ _ _ _ LO) in G.
      apply G; try (change (k_n_vertices h) with (m_nv m)); try (change (k_vertex_dim h) with dim); try lia.
      - change (len (@nil (list Z))) with 0. rewrite (sm_npos _ _ _ _ M). lia.
      - assert (Hp2 : Forall (Forall (fun p => len p = dim /\ Forall u64_ok p)) (L_vert L)) by (apply Forall_concat_inv'; rewrite (lo_vert _ _ _ _ LO); exact (sm_pos _ _ _ _ M)).
        pose proof (Forall_and _ _ _ (lo_vsize _ _ _ _ LO) Hp2) as Hb. eapply Forall_impl; [|exact Hb].
        intros s [[A B] C0]. split; [exact A|]. split; [exact B|exact C0]. }
    apply sphase_skip_then; [apply Sk|]. eapply sphase_app.
    { pose proof (sp_edge h (m_pos m) [] [] D V (L_edge L) []) as G. cbn [app] in G. rewrite (lo_edge _ _ _ _ LO) in G.
      apply G; try (change (k_n_edges h) with (len (m_edges m))); try (change (k_n_vertices h) with (m_nv m)); try (unfold two64; lia).
      - change (len (@nil (Z * Z))) with 0. lia.
      - pose proof (sm_edges _ _ _ _ M) as Hed. rewrite <- (lo_edge _ _ _ _ LO) in Hed. unfold all_edges in Hed.
        apply Forall_concat_inv in Hed. pose proof (lo_efits _ _ _ _ LO) as Le2.
        clear - Hed Le2. induction Le2 as [|s t [A [B [C0 D0]]] Ht IH]; [constructor|].
        inversion Hed as [|? ? Hs Hed']; subst. constructor; [|apply IH; exact Hed'].
        split; [exact A|]. split; [exact B|]. split; [exact C0|]. split; [exact D0|].
        eapply Forall_impl; [|exact Hs]. intros e [[E1 E2] [E3 E4]]. change (k_n_vertices h) with (m_nv m). lia. }
    apply sphase_skip_then; [apply Sk|]. eapply sphase_app.
    { pose proof (sp_face h (m_pos m) (m_edges m) [] D V (L_face L) []) as G. cbn [app] in G. rewrite (lo_face _ _ _ _ LO) in G.
      apply G; try (change (k_n_faces h) with (len (m_faces m))); try (change (k_n_edges h) with (len (m_edges m))); try (unfold two64; lia).
      - change (len (@nil (list Z))) with 0. lia.
      - apply pseg_fits_spseg; [exact (lo_ffits _ _ _ _ LO)|]. rewrite (lo_face _ _ _ _ LO). exact (sm_faces _ _ _ _ M).
      - exact (sm_ftopo _ _ _ _ M). }
    apply sphase_skip_then; [apply Sk|]. eapply sphase_app.
    { pose proof (sp_cell h (m_pos m) (m_edges m) (m_faces m) D V (L_cell L) []) as G. cbn [app] in G. rewrite (lo_cell _ _ _ _ LO) in G.
      apply G; try (change (k_n_cells h) with (len (m_cells m))); try (change (k_n_faces h) with (len (m_faces m))); try (unfold two64; lia).
      - change (len (@nil (list Z))) with 0. lia.
      - apply pseg_fits_spseg; [exact (lo_cfits _ _ _ _ LO)|]. rewrite (lo_cell _ _ _ _ LO). exact (sm_cells _ _ _ _ M).
      - exact (sm_ctopo _ _ _ _ M). }
    apply sphase_skip_then; [apply Sk|]. eapply sphase_app; [|apply sphase_skip; apply Sk].
    fold pss. destruct ED as [-> | [-> ->]].
    - assert (EV' : V = [] ++ map (fun _ => []) pss).
      { rewrite EV. cbn [app]. replace (length es) with (length pss) by exact Hcl. clear. generalize pss. intros l. induction l; cbn [length repeat map]; [reflexivity|]. f_equal. assumption. }
      rewrite EV'. apply (sp_props h (m_pos m) (m_edges m) (m_faces m) (m_cells m) es pss []).
      + intros k x Hk. apply nth_error_combine in Hk. apply Hk.
      + change (Z.of_nat (length pss) < 4294967296). rewrite Hcl. pose proof (sm_nprops _ _ _ _ M) as Hn. unfold len in Hn. exact Hn.
      + pose proof (sm_entries _ _ _ _ M) as Hes. unfold pss.
        assert (Hb : forall e, 0 <= ent_count m e <= 2147483648) by (intros e; exact (ent_count_bound' dim topo m es e M)).
        unfold h. clear - Hes Lp Hb.
        induction Lp as [|pt sg es' segs' [Hc Hp] H2 IH]; [constructor|].
        inversion Hes as [|? ? [Hde [Hty [Hv Hn]]] Hes']; subst. cbn [combine]. constructor; [|apply IH; exact Hes'].
        unfold spentry_ok. cbn [fst snd]. rewrite entity_total_ent_count. rewrite Hc, Hn.
        pose proof (Hb (p_ent (fst pt))).
        split; [apply Hde|]. split; [exact Hty|]. split; [lia|]. split; [lia|].
        rewrite <- Hc in Hv. apply Forall_concat_inv' in Hv.
        clear - Hv Hp. induction Hp as [|s t Hs Ht IH]; [constructor|].
        inversion Hv; subst. constructor; [|apply IH; assumption]. split; assumption.
    - subst pss. cbn [combine props_chunks map]. rewrite EV. cbn [length repeat]. apply sphase_nil. }
  destruct P as [P1 P2].
  apply (alt_file_spec dim topo m (layout_chunks es L) es); try (unfold u64_ok; lia); try (apply M); try exact P1;
    rewrite P2; cbn [mkS ss_pos ss_edges ss_faces ss_cells ss_dir ss_vals]; try reflexivity; try exact ED.
  pose proof (sm_entries _ _ _ _ M) as Hes. unfold pss. clear - Hes Lp.
  induction Lp as [|pt sg es' segs' [Hc Hp] H2 IH]; [constructor|].
  inversion Hes as [|? ? [Hde [Hty [Hv Hn]]] Hes']; subst. cbn [combine map snd]. constructor; [|apply IH; exact Hes'].
  unfold pfinal. rewrite entity_total_ent_count. rewrite Hc. split; [reflexivity|]. split; [exact Hn|]. split; apply Hde.
Qed.
