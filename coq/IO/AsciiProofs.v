(* IO/AsciiProofs.v -- proofs about the OVM-ASCII models (AsciiStream.v, AsciiReaderModel.v, AsciiWriterModel.v). *)
From Coq Require Import ZArith Lia List Bool.
From OVM Require Import IO.AsciiStream IO.AsciiReaderModel IO.AsciiWriterModel.
Import ListNotations.
Local Open Scope Z_scope.

Lemma skipws_length l : (length (skipws l) <= length l)%nat.
Proof. induction l; simpl; auto. destruct (isspace a); simpl; lia. Qed.
