(* IO/AsciiProofs.v -- proofs about the OVM-ASCII models (AsciiStream.v, AsciiReaderModel.v, AsciiWriterModel.v).
   Part 1: every extraction only consumes (the remaining input never grows), a stream that is not good() never becomes
           good again, getline on a stream that stays good consumes at least one character; getCleanLine and the property
           loop never run out of fuel.
   Part 2: C07 totality (read_stream_safe): read_ascii is never RSpin / RUB when every allocatable count fits an int handle.
   Part 3: C07 validity (read_stream_valid): a successful read leaves every stored handle in range and every property
           sized; (read_stream_nodel, further down) and no entity deleted.
   Part 4: C06: decimal printing / parsing of integers, clean lines, tokens, the four entity loops on the writer's lines,
           read_write_topo (read (write w) returns the topology and the reparsed positions of w) and read_write_twice (the
           second round trip changes nothing); deser_map_loop_cap (the capped map loop is the literal loop). *)
From Coq Require Import ZArith Lia List Bool String Ascii.
From OVM Require Import Kernel.Ops Kernel.Construct Mesh.HexModel.
From OVM Require Import IO.AsciiStream IO.AsciiReaderModel IO.AsciiWriterModel.
Import ListNotations.
Local Open Scope Z_scope.

(* ================================================================== Part 1: consumption *)

Definition len (s : istream) : nat := length (rest s).

Lemma skipws_length l : (length (skipws l) <= length l)%nat.
Proof. induction l; simpl; auto. destruct (isspace a); simpl; lia. Qed.

Lemma good_mk r e f : good (mk r e f) = negb e && negb f.
Proof. reflexivity. Qed.

Lemma sentry_le b s s' ok : sentry b s = (s', ok) -> (len s' <= len s)%nat.
Proof.
  unfold sentry, len. destruct (good s).
  - destruct b.
    + pose proof (skipws_length (rest s)) as K. destruct (skipws (rest s)) eqn:E; intros H; inversion H; subst; simpl in *; lia.
    + intros H; inversion H; subst; lia.
  - intros H; inversion H; subst; simpl; lia.
Qed.

Lemma sentry_ok_good b s s' : sentry b s = (s', true) -> good s' = true.
Proof.
  unfold sentry. destruct (good s) eqn:G.
  - destruct b.
    + destruct (skipws (rest s)); intros H; inversion H; subst; reflexivity.
    + intros H; inversion H; subst; auto.
  - intros H; inversion H.
Qed.

Lemma sentry_fail_notgood b s s' : sentry b s = (s', false) -> good s' = false.
Proof.
  unfold sentry. destruct (good s) eqn:G.
  - destruct b.
    + destruct (skipws (rest s)); intros H; inversion H; subst; reflexivity.
    + intros H; inversion H.
  - intros H; inversion H; subst. unfold good, set_fail; simpl. apply andb_false_r.
Qed.

Lemma zeros_loop_le l : forall f f' r, zeros_loop l f = (f', r) -> (length r <= length l)%nat.
Proof.
  induction l; simpl; intros f f' r H.
  - inversion H; simpl; lia.
  - destruct (a =? c_zero).
    + apply IHl in H. lia.
    + inversion H; simpl; lia.
Qed.

Lemma digits_loop_le mx sm md l : forall res ovf any r' o' a' l',
  digits_loop mx sm md l res ovf any = (r', o', a', l') -> (length l' <= length l)%nat.
Proof.
  induction l; simpl; intros res ovf any r' o' a' l' H.
  - inversion H; simpl; lia.
  - destruct (is_digit a).
    + destruct (res >? sm); apply IHl in H; lia.
    + inversion H; simpl; lia.
Qed.

Lemma extract_int_le w sg l v f r : extract_int w sg l = (v, f, r) -> (length r <= length l)%nat.
Proof.
  unfold extract_int.
  set (x := match l with
            | [] => (false, [])
            | c :: t => if c =? c_minus then (true, t) else if c =? c_plus then (false, t) else (false, l)
            end).
  assert (Hx : (length (snd x) <= length l)%nat).
  { unfold x. destruct l as [|c t]; simpl; auto. destruct (c =? c_minus); simpl; [lia|]. destruct (c =? c_plus); simpl; lia. }
  destruct x as [neg l1]. simpl in Hx.
  destruct (zeros_loop l1 false) as [fz l2] eqn:Z. apply zeros_loop_le in Z.
  match goal with |- context [digits_loop ?a ?b ?c ?d ?e ?f ?g] => destruct (digits_loop a b c d e f g) as [[[res ovf] any] l3] eqn:D end.
  apply digits_loop_le in D.
  destruct (negb any && negb fz); [intros H; inversion H; subst; lia|].
  destruct ovf; intros H; inversion H; subst; lia.
Qed.

Lemma clamp_le lo hi x v f r : clamp lo hi x = (v, f, r) -> r = snd x.
Proof. unfold clamp. destruct x as [[v0 f0] l0]. destruct (v0 <? lo); [|destruct (v0 >? hi)]; intros H; inversion H; reflexivity. Qed.

Lemma parse_num_le t l v f r : parse_num t l = (v, f, r) -> (length r <= length l)%nat.
Proof.
  destruct t; simpl; intros H.
  - eapply extract_int_le; eauto.
  - eapply extract_int_le; eauto.
  - eapply extract_int_le; eauto.
  - destruct (extract_int 64 true l) as [[v0 f0] l0] eqn:E. apply clamp_le in H. simpl in H. subst. eapply extract_int_le; eauto.
  - destruct (extract_int 64 true l) as [[v0 f0] l0] eqn:E. apply clamp_le in H. simpl in H. subst. eapply extract_int_le; eauto.
  - destruct (extract_int 64 true l) as [[v0 f0] l0] eqn:E. apply extract_int_le in E.
    destruct ((v0 =? 0) || (v0 =? 1)); inversion H; subst; auto.
Qed.

Lemma get_num_le t s s' v : get_num t s = (s', v) -> (len s' <= len s)%nat.
Proof.
  unfold get_num. destruct (sentry true s) as [s1 ok] eqn:S. pose proof (sentry_le _ _ _ _ S) as L.
  destruct ok.
  - destruct (parse_num t (rest s1)) as [[v0 f] l] eqn:P. apply parse_num_le in P.
    intros H; inversion H; subst. unfold len in *; simpl; lia.
  - intros H; inversion H; subst; auto.
Qed.

Lemma get_char_le s s' v : get_char s = (s', v) -> (len s' <= len s)%nat.
Proof.
  unfold get_char. destruct (sentry true s) as [s1 ok] eqn:S. pose proof (sentry_le _ _ _ _ S) as L.
  destruct ok.
  - destruct (rest s1) eqn:R; intros H; inversion H; subst; unfold len in *; simpl; rewrite ?R in L; simpl in L; lia.
  - intros H; inversion H; subst; auto.
Qed.

Lemma take_word_le l w r : take_word l = (w, r) -> (length r <= length l)%nat.
Proof.
  revert w r. induction l; simpl; intros w r H.
  - inversion H; simpl; lia.
  - destruct (isspace a).
    + inversion H; simpl; lia.
    + destruct (take_word l) as [w0 r0]. inversion H; subst. specialize (IHl _ _ eq_refl). lia.
Qed.

Lemma get_word_le s s' v : get_word s = (s', v) -> (len s' <= len s)%nat.
Proof.
  unfold get_word. destruct (sentry true s) as [s1 ok] eqn:S. pose proof (sentry_le _ _ _ _ S) as L.
  destruct ok.
  - destruct (take_word (rest s1)) as [w r] eqn:T. apply take_word_le in T.
    intros H; inversion H; subst. unfold len in *; simpl; lia.
  - intros H; inversion H; subst; auto.
Qed.

Lemma take_line_some l w r : take_line l = (w, Some r) -> (length r < length l)%nat.
Proof.
  revert w r. induction l; simpl; intros w r H.
  - inversion H.
  - destruct (a =? c_nl).
    + inversion H; subst; lia.
    + destruct (take_line l) as [w0 [r0|]]; inversion H; subst. specialize (IHl _ _ eq_refl). lia.
Qed.

Lemma getline_le s s' v : getline s = (s', v) -> (len s' <= len s)%nat.
Proof.
  unfold getline. destruct (sentry false s) as [s1 ok] eqn:S. pose proof (sentry_le _ _ _ _ S) as L.
  destruct ok.
  - destruct (take_line (rest s1)) as [w [r|]] eqn:T.
    + apply take_line_some in T. intros H; inversion H; subst. unfold len in *; simpl; lia.
    + intros H; inversion H; subst. unfold len; simpl; lia.
  - intros H; inversion H; subst; auto.
Qed.

(* getline that leaves the stream good() consumed the delimiter *)
Lemma getline_good_lt s s' v : getline s = (s', v) -> good s' = true -> (len s' < len s)%nat.
Proof.
  unfold getline. destruct (sentry false s) as [s1 ok] eqn:S. pose proof (sentry_le _ _ _ _ S) as L.
  destruct ok.
  - destruct (take_line (rest s1)) as [w [r|]] eqn:T.
    + apply take_line_some in T. intros H _; inversion H; subst. unfold len in *; simpl; lia.
    + intros H G; inversion H; subst. discriminate G.
  - intros H G; inversion H; subst. apply sentry_fail_notgood in S. congruence.
Qed.

Lemma read_n_le n s s' v : read_n n s = (s', v) -> (len s' <= len s)%nat.
Proof.
  unfold read_n. destruct (sentry false s) as [s1 ok] eqn:S. pose proof (sentry_le _ _ _ _ S) as L.
  destruct ok.
  - pose proof (skipn_length n (rest s1)) as K.
    destruct (length (firstn n (rest s1)) =? n)%nat; intros H; inversion H; subst; unfold len in *; simpl; lia.
  - intros H; inversion H; subst; auto.
Qed.

Lemma float_loop_le l : forall acc m d sc a r, float_loop l acc m d sc = (a, r) -> (length r <= length l)%nat.
Proof.
  induction l as [l IH] using (well_founded_induction (Wf_nat.well_founded_ltof _ (@length byte))).
  intros acc m d sc a r. destruct l as [|c t]; simpl.
  - intros H; inversion H; simpl; lia.
  - destruct (is_digit c).
    + intros H. apply IH in H; [simpl; lia | unfold Wf_nat.ltof; simpl; lia].
    + destruct ((c =? c_dot) && negb d && negb sc).
      * intros H. apply IH in H; [simpl; lia | unfold Wf_nat.ltof; simpl; lia].
      * destruct (((c =? c_e) || (c =? c_E)) && negb sc && m).
        -- destruct t as [|c2 t2].
           ++ intros H; inversion H; simpl; lia.
           ++ destruct ((c2 =? c_plus) || (c2 =? c_minus)); intros H; apply IH in H; simpl in *; try lia;
                unfold Wf_nat.ltof; simpl; lia.
        -- intros H; inversion H; simpl; lia.
Qed.

Lemma fzeros_loop_le l : forall f f' r, fzeros_loop l f = (f', r) -> (length r <= length l)%nat.
Proof.
  induction l; simpl; intros f f' r H.
  - inversion H; simpl; lia.
  - destruct (a =? c_zero).
    + apply IHl in H. lia.
    + inversion H; simpl; lia.
Qed.

Lemma float_scan_le l x r : float_scan l = (x, r) -> (length r <= length l)%nat.
Proof.
  unfold float_scan.
  set (y := match l with
            | [] => ([], [])
            | c :: t => if (c =? c_plus) || (c =? c_minus) then ([c], t) else ([], l)
            end).
  assert (Hy : (length (snd y) <= length l)%nat).
  { unfold y. destruct l as [|c t]; simpl; auto. destruct ((c =? c_plus) || (c =? c_minus)); simpl; lia. }
  destruct y as [acc0 l1]. simpl in Hy.
  destruct (fzeros_loop l1 false) as [fz l2] eqn:Z. apply fzeros_loop_le in Z.
  match goal with |- context [float_loop ?a ?b ?c ?d ?e] => destruct (float_loop a b c d e) as [acc l3] eqn:F end.
  apply float_loop_le in F. intros H; inversion H; subst; lia.
Qed.

Lemma get_float_le conv s s' v : get_float conv s = (s', v) -> (len s' <= len s)%nat.
Proof.
  unfold get_float, parse_float. destruct (sentry true s) as [s1 ok] eqn:S. pose proof (sentry_le _ _ _ _ S) as L.
  destruct ok.
  - destruct (float_scan (rest s1)) as [x r] eqn:F. apply float_scan_le in F.
    destruct (conv x) as [v0 f]. intros H; inversion H; subst. unfold len in *; simpl; lia.
  - intros H; inversion H; subst; auto.
Qed.

(* ------------------------------------------------------------------ getCleanLine never runs out of fuel *)

Lemma gcl_total : forall fuel s line, (len s < fuel)%nat ->
  exists s' l b, get_clean_line fuel s line = Some (s', l, b) /\ (len s' <= len s)%nat /\ (good s' = true -> (len s' < len s)%nat).
Proof.
  induction fuel; intros s line H; [lia|].
  simpl. destruct (getline s) as [s1 r] eqn:G.
  pose proof (getline_le _ _ _ G) as L. pose proof (getline_good_lt _ _ _ G) as L2.
  set (l1 := trim match r with Some l => l | None => line end).
  destruct (match l1 with [] => false | c :: _ => negb (c =? 35) end).
  - exists s1, l1, true. auto.
  - destruct (good s1) eqn:GS; simpl.
    + specialize (L2 eq_refl). destruct (IHfuel s1 l1) as (s' & l & b & E & A & B); [lia|].
      exists s', l, b. split; auto. split; [lia|]. intros X. specialize (B X). lia.
    + exists s1, l1, false. split; auto. split; auto. intros X; congruence.
Qed.

Lemma gcl_fuel_ok s : (len s < gcl_fuel s)%nat.
Proof. unfold gcl_fuel, len. lia. Qed.

(* ------------------------------------------------------------------ monotone: only consumes, never becomes good again *)

Definition mono (s s' : istream) : Prop := (len s' <= len s)%nat /\ (good s = false -> good s' = false).

Lemma mono_refl s : mono s s.
Proof. split; auto. Qed.
Lemma mono_trans a b c : mono a b -> mono b c -> mono a c.
Proof. intros [A1 A2] [B1 B2]. split; [lia|auto]. Qed.

Lemma good_set_fail s : good (set_fail s) = false.
Proof. unfold good, set_fail; simpl. apply andb_false_r. Qed.
Lemma len_set_fail s : len (set_fail s) = len s.
Proof. reflexivity. Qed.
Lemma mono_set_fail s : mono s (set_fail s).
Proof. split; [rewrite len_set_fail; lia | intros; apply good_set_fail]. Qed.

Lemma sentry_bad b s : good s = false -> sentry b s = (set_fail s, false).
Proof. unfold sentry. intros ->. reflexivity. Qed.

Lemma get_num_mono t s s' v : get_num t s = (s', v) -> mono s s'.
Proof.
  intros H. split; [eapply get_num_le; eauto|]. intros G. unfold get_num in H. rewrite (sentry_bad _ _ G) in H.
  inversion H; subst. apply good_set_fail.
Qed.
Lemma get_char_mono s s' v : get_char s = (s', v) -> mono s s'.
Proof.
  intros H. split; [eapply get_char_le; eauto|]. intros G. unfold get_char in H. rewrite (sentry_bad _ _ G) in H.
  inversion H; subst. apply good_set_fail.
Qed.
Lemma get_word_mono s s' v : get_word s = (s', v) -> mono s s'.
Proof.
  intros H. split; [eapply get_word_le; eauto|]. intros G. unfold get_word in H. rewrite (sentry_bad _ _ G) in H.
  inversion H; subst. apply good_set_fail.
Qed.
Lemma get_float_mono c s s' v : get_float c s = (s', v) -> mono s s'.
Proof.
  intros H. split; [eapply get_float_le; eauto|]. intros G. unfold get_float in H. rewrite (sentry_bad _ _ G) in H.
  inversion H; subst. apply good_set_fail.
Qed.
Lemma read_n_mono n s s' v : read_n n s = (s', v) -> mono s s'.
Proof.
  intros H. split; [eapply read_n_le; eauto|]. intros G. unfold read_n in H. rewrite (sentry_bad _ _ G) in H.
  inversion H; subst. apply good_set_fail.
Qed.
Lemma getline_mono s s' v : getline s = (s', v) -> mono s s'.
Proof.
  intros H. split; [eapply getline_le; eauto|]. intros G. unfold getline in H. rewrite (sentry_bad _ _ G) in H.
  inversion H; subst. apply good_set_fail.
Qed.

(* ================================================================== Part 2: totality *)

Definition safe (o : outcome) : Prop := match o with RSpin | RUB _ => False | _ => True end.
(* what a sub-step may stop with: `return false` or an allocation exception *)
Definition stopok (st : stop) : Prop := match st with SFalse _ | SExn _ => True | _ => False end.
Lemma stopok_safe st : stopok st -> safe (out_of_stop st).
Proof. destruct st; simpl; auto. Qed.
Lemma stop_not_true st f : out_of_stop st <> RTrue f.
Proof. destruct st; discriminate. Qed.
Definition safe_res {A} (r : res A) : Prop := match r with Stop o => stopok o | Go _ => True end.

Lemma alloc_safe o n e out : alloc o n e = Stop out -> stopok out.
Proof. unfold alloc. destruct (n >? ptrdiff_max / e); [|destruct (n * e >? o_alloc o)]; intros H; inversion H; exact I. Qed.

Lemma alloc_go o n e u : alloc o n e = Go u -> n * e <= o_alloc o.
Proof. unfold alloc. destruct (n >? ptrdiff_max / e); [discriminate|]. destruct (n * e >? o_alloc o) eqn:E; [discriminate|]. lia. Qed.

Section Safety.
  Variable conv_d : list byte -> Z * bool.
  Variable conv_f : list byte -> Z * bool.

  Lemma deser_scalar_mono sc s old s' v : deser_scalar conv_d conv_f sc s old = (s', v) -> mono s s'.
  Proof.
    destruct sc; simpl.
    - destruct (get_float conv_f s) eqn:E. intros H; inversion H; subst. eapply get_float_mono; eauto.
    - destruct (get_float conv_d s) eqn:E. intros H; inversion H; subst. eapply get_float_mono; eauto.
    - destruct (get_num NI32 s) eqn:E. intros H; inversion H; subst. eapply get_num_mono; eauto.
    - destruct (get_num NU32 s) eqn:E. intros H; inversion H; subst. eapply get_num_mono; eauto.
  Qed.

  Lemma deser_vec_mono sc olds : forall s s' vs, deser_vec conv_d conv_f sc olds s = (s', vs) -> mono s s'.
  Proof.
    induction olds; simpl; intros s s' vs H.
    - inversion H; subst. apply mono_refl.
    - destruct (deser_scalar conv_d conv_f sc s a) as [s1 v] eqn:E1.
      destruct (deser_vec conv_d conv_f sc olds s1) as [s2 vs2] eqn:E2. inversion H; subst.
      eapply mono_trans; [eapply deser_scalar_mono; eauto | eapply IHolds; eauto].
  Qed.

  Lemma deser_elems_mono (f : istream -> aval -> istream * aval) :
    (forall s o s' v, f s o = (s', v) -> mono s s') ->
    forall olds s s' vs, deser_elems f olds s = (s', vs) -> mono s s'.
  Proof.
    intros Hf. induction olds; simpl; intros s s' vs H.
    - inversion H; subst. apply mono_refl.
    - destruct (f s a) as [s1 v] eqn:E1. destruct (deser_elems f olds s1) as [s2 vs2] eqn:E2. inversion H; subst.
      eapply mono_trans; [eapply Hf; eauto | eapply IHolds; eauto].
  Qed.

  Lemma deser_handle_mono s o s' v : deser_handle s o = (s', v) -> mono s s'.
  Proof. unfold deser_handle. destruct (get_num NI32 s) eqn:E. intros H; inversion H; subst. eapply get_num_mono; eauto. Qed.
  Lemma deser_double_mono s o s' v : deser_double conv_d s o = (s', v) -> mono s s'.
  Proof. unfold deser_double. destruct (get_float conv_d s) eqn:E. intros H; inversion H; subst. eapply get_float_mono; eauto. Qed.

  Lemma read_size_mono s s' n : read_size s = (s', n) -> mono s s'.
  Proof. unfold read_size. destruct (get_num NU64 s) eqn:E. intros H; inversion H; subst. eapply get_num_mono; eauto. Qed.

  Lemma deser_vector_ok o esz d f s old :
    (forall s o s' v, f s o = (s', v) -> mono s s') ->
    match deser_vector o esz d f s old with DOk s' _ => mono s s' | DStop out => stopok out end.
  Proof.
    intros Hf. unfold deser_vector. destruct (read_size s) as [s1 n] eqn:R. apply read_size_mono in R.
    destruct (alloc o n esz) eqn:A.
    - destruct (deser_elems f (resize_vals n d (old_list old)) s1) as [s2 vs] eqn:E.
      eapply mono_trans; [eauto | eapply deser_elems_mono; eauto].
    - eapply alloc_safe; eauto.
  Qed.

  Lemma deser_vecvec_ok o olds : forall s,
    match deser_vecvec o olds s with inl (s', _) => mono s s' | inr out => stopok out end.
  Proof.
    induction olds; simpl; intros s.
    - apply mono_refl.
    - pose proof (deser_vector_ok o 4 (VInt (-1)) deser_handle s a deser_handle_mono) as V.
      destruct (deser_vector o 4 (VInt (-1)) deser_handle s a) as [s1 v|out]; auto.
      specialize (IHolds s1). destruct (deser_vecvec o olds s1) as [[s2 vs]|out]; auto.
      eapply mono_trans; eauto.
  Qed.

  Lemma deser_map_loop_mono n : forall s acc s' l, deser_map_loop n s acc = (s', l) -> mono s s'.
  Proof.
    induction n; simpl; intros s acc s' l H.
    - inversion H; subst. apply mono_refl.
    - destruct (get_num NI32 s) as [s1 kv] eqn:E1. destruct (get_num NI32 s1) as [s2 vv] eqn:E2.
      apply get_num_mono in E1. apply get_num_mono in E2.
      destruct (failb s2).
      + inversion H; subst. eapply mono_trans; eauto.
      + apply IHn in H. eapply mono_trans; [|eauto]. eapply mono_trans; eauto.
  Qed.

  Lemma deser_string_ok o s old :
    match deser_string o s old with DOk s' _ => mono s s' | DStop out => stopok out end.
  Proof.
    unfold deser_string. destruct (get_num NU64 s) as [s1 ln] eqn:E1. destruct (get_char s1) as [s2 c] eqn:E2.
    apply get_num_mono in E1. apply get_char_mono in E2.
    assert (M : mono s s2) by (eapply mono_trans; eauto).
    destruct ln as [n|]; auto.
    destruct (negb (failb s2) && negb (n =? 0)); auto.
    destruct (alloc o n 1) eqn:A.
    - destruct (read_n (Z.to_nat n) s2) as [s3 got] eqn:R. apply read_n_mono in R. eapply mono_trans; eauto.
    - eapply alloc_safe; eauto.
  Qed.

  Lemma deser_ok o t s old :
    match deser conv_d conv_f o t s old with DOk s' _ => mono s s' | DStop out => stopok out end.
  Proof.
    destruct t; simpl.
    - destruct (get_num NI32 s) eqn:E; eapply get_num_mono; eauto.
    - destruct (get_num NU32 s) eqn:E; eapply get_num_mono; eauto.
    - destruct (get_num NI16 s) eqn:E; eapply get_num_mono; eauto.
    - destruct (get_num NI64 s) eqn:E; eapply get_num_mono; eauto.
    - destruct (get_num NU64 s) eqn:E; eapply get_num_mono; eauto.
    - destruct (get_char s) eqn:E; eapply get_char_mono; eauto.
    - destruct (get_char s) eqn:E; eapply get_char_mono; eauto.
    - destruct (get_num NBool s) eqn:E; eapply get_num_mono; eauto.
    - destruct (get_float conv_f s) eqn:E; eapply get_float_mono; eauto.
    - destruct (get_float conv_d s) eqn:E; eapply get_float_mono; eauto.
    - apply deser_string_ok.
    - destruct (read_size s) as [s1 n] eqn:R. apply read_size_mono in R.
      destruct (deser_map_loop (map_iters n s1) s1 []) as [s2 l] eqn:M. apply deser_map_loop_mono in M.
      eapply mono_trans; eauto.
    - apply deser_vector_ok. apply deser_double_mono.
    - apply deser_vector_ok. apply deser_handle_mono.
    - apply deser_vector_ok. apply deser_handle_mono.
    - destruct (read_size s) as [s1 n0] eqn:R. apply read_size_mono in R.
      destruct (alloc o n0 24) eqn:A; [|eapply alloc_safe; eauto].
      pose proof (deser_vecvec_ok o (resize_vals n0 (VList []) (old_list old)) s1) as V.
      destruct (deser_vecvec o (resize_vals n0 (VList []) (old_list old)) s1) as [[s2 vs]|out]; auto.
      eapply mono_trans; eauto.
    - match goal with |- context [deser_vec ?a ?b ?c ?d ?e] => destruct (deser_vec a b c d e) as [s1 vs] eqn:E end.
      eapply deser_vec_mono; eauto.
  Qed.

  Lemma deser_all_ok o t olds : forall s,
    match deser_all conv_d conv_f o t olds s with inl (s', _) => mono s s' | inr out => stopok out end.
  Proof.
    induction olds; simpl; intros s.
    - apply mono_refl.
    - pose proof (deser_ok o t s a) as D. destruct (deser conv_d conv_f o t s a) as [s1 v|out]; auto.
      specialize (IHolds s1). destruct (deser_all conv_d conv_f o t olds s1) as [[s2 vs]|out]; auto.
      eapply mono_trans; eauto.
  Qed.

  Lemma generate_property_ok o m k name t s props :
    match generate_property conv_d conv_f o m k name t s props with Go (s', _) => mono s s' | Stop out => stopok out end.
  Proof.
    unfold generate_property. destruct name as [|c nm].
    - apply mono_set_fail.
    - destruct (find_prop k (c :: nm) t props 0) as [[i p]|].
      + pose proof (deser_all_ok o t (p_vals p) s) as D.
        destruct (deser_all conv_d conv_f o t (p_vals p) s) as [[s1 vs]|out]; auto.
      + pose proof (deser_all_ok o t (repeat (default_val t) (count k m)) s) as D.
        destruct (deser_all conv_d conv_f o t (repeat (default_val t) (count k m)) s) as [[s1 vs]|out]; auto.
  Qed.

  (* one readProperty on a good stream: either stops safely or returns a stream that is not good or strictly shorter *)
  Lemma read_property_ok o m s props :
    match read_property conv_d conv_f o m s props with
    | Go (s', _) => (len s' <= len s)%nat /\ (good s' = true -> (len s' < len s)%nat)
    | Stop out => stopok out
    end.
  Proof.
    unfold read_property.
    destruct (gcl_total (gcl_fuel s) s [] (gcl_fuel_ok s)) as (s1 & line & b & E & L1 & L2). rewrite E.
    destruct line as [|c l]; [auto|].
    destruct (get_word (sstr_of (c :: l))) as [ss1 w1]. destruct (get_word ss1) as [ss2 w2].
    destruct (type_of_name _) as [t|]; [|auto].
    destruct (extract_quoted (c :: l)) as [|c0 nm] eqn:Q.
    - split; [rewrite len_set_fail; auto|]. rewrite good_set_fail. discriminate.
    - destruct (kind_of_name _) as [k|]; [|auto].
      pose proof (generate_property_ok o m k (c0 :: nm) t s1 props) as G.
      destruct (generate_property conv_d conv_f o m k (c0 :: nm) t s1 props) as [[s2 p2]|out]; auto.
      destruct G as [G1 G2]. split; [lia|]. intros X.
      destruct (good s1) eqn:GS; [specialize (L2 eq_refl); lia|]. rewrite (G2 eq_refl) in X. discriminate.
  Qed.

  Lemma prop_loop_bad fuel o m s props : good s = false -> prop_loop conv_d conv_f fuel o m s props = Go (s, props).
  Proof. intros G. destruct fuel; simpl; rewrite G; reflexivity. Qed.

  Lemma prop_loop_safe : forall fuel o m s props, (len s < fuel)%nat -> safe_res (prop_loop conv_d conv_f fuel o m s props).
  Proof.
    induction fuel; intros o m s props H; [lia|].
    simpl. destruct (good s) eqn:G; [|exact I].
    pose proof (read_property_ok o m s props) as R.
    destruct (read_property conv_d conv_f o m s props) as [[s1 p1]|out]; simpl; auto.
    destruct R as [R1 R2]. destruct (good s1) eqn:G1.
    - apply IHfuel. specialize (R2 eq_refl). lia.
    - rewrite prop_loop_bad; auto. exact I.
  Qed.
End Safety.

(* ------------------------------------------------------------------ unsigned extraction is never negative *)

Lemma digits_loop_nonneg mx sm md l : 0 < md -> forall res ovf any r' o' a' l',
  0 <= res -> digits_loop mx sm md l res ovf any = (r', o', a', l') -> 0 <= r'.
Proof.
  intros Hmd. induction l; simpl; intros res ovf any r' o' a' l' Hr H.
  - inversion H; subst; auto.
  - destruct (is_digit a).
    + destruct (res >? sm).
      * eapply IHl; eauto.
      * eapply IHl; [|eauto]. apply Z.mod_pos_bound; auto.
    + inversion H; subst; auto.
Qed.

Lemma pow2_pos w : 0 <= w -> 0 < pow2 w.
Proof. intros. unfold pow2. apply Z.pow_pos_nonneg; lia. Qed.

Lemma extract_int_unsigned_nonneg w l v f r : 0 < w -> extract_int w false l = (v, f, r) -> 0 <= v.
Proof.
  intros Hw. unfold extract_int.
  destruct (match l with
            | [] => (false, [])
            | c :: t => if c =? c_minus then (true, t) else if c =? c_plus then (false, t) else (false, l)
            end) as [neg l1].
  destruct (zeros_loop l1 false) as [fz l2].
  match goal with |- context [digits_loop ?a ?b ?c ?d ?e ?f ?g] => destruct (digits_loop a b c d e f g) as [[[res ovf] any] l3] eqn:D end.
  assert (P : 0 < pow2 w) by (apply pow2_pos; lia).
  apply digits_loop_nonneg in D; [|auto|lia].
  destruct (negb any && negb fz); [intros H; inversion H; lia|].
  rewrite andb_false_r. destruct ovf.
  - intros H; inversion H; subst. lia.
  - destruct neg; intros H; inversion H; subst; auto. apply Z.mod_pos_bound; auto.
Qed.

Lemma get_num_u64_nonneg s s' v : get_num NU64 s = (s', Some v) -> 0 <= v.
Proof.
  unfold get_num. destruct (sentry true s) as [s1 ok]. destruct ok; [|discriminate].
  destruct (parse_num NU64 (rest s1)) as [[v0 f] l] eqn:P. simpl in P. apply extract_int_unsigned_nonneg in P; [|lia].
  intros H; inversion H; subst; auto.
Qed.

Lemma get_num_u32_nonneg s s' v : get_num NU32 s = (s', Some v) -> 0 <= v.
Proof.
  unfold get_num. destruct (sentry true s) as [s1 ok]. destruct ok; [|discriminate].
  destruct (parse_num NU32 (rest s1)) as [[v0 f] l] eqn:P. simpl in P. apply extract_int_unsigned_nonneg in P; [|lia].
  intros H; inversion H; subst; auto.
Qed.

(* ------------------------------------------------------------------ the entity sections *)

Section Safety2.
  Variable conv_d : list byte -> Z * bool.
  Variable conv_f : list byte -> Z * bool.

  Lemma gcl_go d : exists d', gcl d = Go d' /\ d_m d' = d_m d /\ d_pos d' = d_pos d /\ d_v d' = d_v d /\ d_stmp d' = d_stmp d.
  Proof.
    unfold gcl. destruct (gcl_total (gcl_fuel (d_is d)) (d_is d) (d_line d) (gcl_fuel_ok _)) as (s1 & l & b & E & _).
    rewrite E. eexists; split; [reflexivity|]. simpl; auto.
  Qed.

  Lemma vertex_loop_safe n : forall d, safe_res (vertex_loop conv_d n d).
  Proof.
    induction n; intros d; simpl; [exact I|].
    destruct (gcl_go d) as (d1 & E & _). rewrite E. simpl.
    repeat match goal with |- context [get_float ?c ?s] => destruct (get_float c s) end.
    destruct (d_v d1) as [[vx vy] vz]. destruct (add_vertex (d_m d1)). apply IHn.
  Qed.

  Definition two31 : Z := 2147483648.

  Lemma edge_loop_safe n nvd : nvd <= two31 -> forall d, safe_res (edge_loop n nvd d).
  Proof.
    intros Hn. induction n; intros d; simpl; [exact I|].
    destruct (gcl_go d) as (d1 & E & _). rewrite E. simpl.
    destruct (get_num NU32 (sstr_of (d_line d1))) as [ss1 a]. destruct (get_num NU32 ss1) as [ss2 b].
    destruct ((valz a 0 >=? nvd) || (valz b 0 >=? nvd)) eqn:C; [exact I|].
    apply orb_false_iff in C. destruct C as [C1 C2].
    assert (X : (valz a 0 >? int_max_z) || (valz b 0 >? int_max_z) = false).
    { unfold int_max_z, two31 in *. apply orb_false_iff. split; lia. }
    rewrite X. apply IHn.
  Qed.

  Lemma handle_loop_noub n limit : limit <= two31 -> forall ss, match handle_loop n limit ss with inr _ => False | inl _ => True end.
  Proof.
    intros Hl. induction n; intros ss; simpl; [exact I|].
    destruct (get_num NU32 ss) as [ss1 a].
    destruct (valz a 0 >=? limit) eqn:C; [exact I|].
    assert (X : (valz a 0 >? int_max_z) = false) by (unfold int_max_z, two31 in *; lia).
    rewrite X. specialize (IHn ss1). destruct (handle_loop n limit ss1) as [[l|]|u]; auto.
  Qed.

  Definition alloc_ok (o : opts) : Prop := o_alloc o < 8589934592.    (* 2^33 *)

  Lemma read_handles_safe o isf limit d : alloc_ok o -> limit <= two31 -> safe_res (read_handles o isf limit d).
  Proof.
    intros Ho Hl. unfold read_handles.
    destruct (get_num NU64 (sstr_of (d_line d))) as [ss1 vo].
    destruct (isf && (valz vo 0 =? 0)); [exact I|].
    destruct (alloc o (valz vo 0) 4) eqn:A; simpl; [|eapply alloc_safe; eauto].
    apply alloc_go in A. unfold alloc_ok in Ho.
    assert (V : (valz vo 0 <? two32) = true) by (unfold two32; lia).
    rewrite V. pose proof (handle_loop_noub (Z.to_nat (valz vo 0)) limit Hl ss1) as N.
    destruct (handle_loop (Z.to_nat (valz vo 0)) limit ss1) as [[l|]|u]; simpl; auto.
  Qed.

  Lemma face_loop_safe n o nhe : alloc_ok o -> nhe <= two31 -> forall d, safe_res (face_loop n o nhe d).
  Proof.
    intros Ho Hl. induction n; intros d; simpl; [exact I|].
    destruct (gcl_go d) as (d1 & E & _). rewrite E. simpl.
    pose proof (read_handles_safe o true nhe d1 Ho Hl) as R.
    destruct (read_handles o true nhe d1) as [hes|out]; simpl; auto.
    destruct (m_add_face o (d_m d1) hes) as [m1 [f|]]; [apply IHn | exact I].
  Qed.

  Lemma cell_loop_safe n o nhf : alloc_ok o -> nhf <= two31 -> forall d, safe_res (cell_loop n o nhf d).
  Proof.
    intros Ho Hl. induction n; intros d; simpl; [exact I|].
    destruct (gcl_go d) as (d1 & E & _). rewrite E. simpl.
    pose proof (read_handles_safe o false nhf d1 Ho Hl) as R.
    destruct (read_handles o false nhf d1) as [hfs|out]; simpl; auto.
    destruct (m_add_cell o (d_m d1) hfs) as [m1 [c|]]; [apply IHn | exact I].
  Qed.

  Lemma section_header_safe kw d : safe_res (section_header kw d).
  Proof.
    unfold section_header. destruct (gcl_go d) as (d1 & E & _). rewrite E. simpl.
    destruct (read_keyword (sstr_of (d_line d1)) d1) as [ss d2]. destruct (bytes_eqb (d_stmp d2) (bs kw)); exact I.
  Qed.

  Lemma read_count_ok d : exists d1 n, read_count d = Go (d1, n) /\ 0 <= n.
  Proof.
    unfold read_count. destruct (gcl_go d) as (d1 & E & _). rewrite E. simpl.
    destruct (get_num NU64 (sstr_of (d_line d1))) as [ss [z|]] eqn:G.
    - exists d1, z. split; auto. eapply get_num_u64_nonneg; eauto.
    - exists d1, 0. split; auto. lia.
  Qed.

  Lemma safe_bind {A B} (m : res A) (f : A -> res B) :
    safe_res m -> (forall a, m = Go a -> safe_res (f a)) -> safe_res (bind m f).
  Proof. destruct m; simpl; auto. Qed.

  Lemma wrap64_small z : 0 <= z < 18446744073709551616 -> wrap64 z = z.
  Proof. intros. unfold wrap64. apply Z.mod_small; auto. Qed.

  Theorem read_stream_safe o s0 : alloc_ok o -> safe (read_stream conv_d conv_f o s0).
  Proof.
    intros Ho. unfold read_stream.
    match goal with |- safe (match ?r with Stop st => _ | Go d => _ end) => set (R := r) end.
    assert (HR : safe_res R).
    { unfold R. clear R.
      match goal with |- context [gcl ?d] => destruct (gcl_go d) as (d1 & E & _); rewrite E end. cbn [bind].
      destruct (read_keyword (sstr_of (d_line d1)) d1) as [ss1 d2].
      destruct (read_keyword ss1 d2) as [ss2 d3].
      destruct (bytes_eqb (d_stmp d3) (bs "BINARY")); [exact I|].
      apply safe_bind.
      { destruct (bytes_eqb (d_stmp d2) (bs "OVM")); [|exact I]. destruct (gcl_go d3) as (d4 & E4 & _). rewrite E4. exact I. }
      intros d4 _.
      destruct (read_keyword (sstr_of (d_line d4)) d4) as [ss5 d5].
      destruct (negb (bytes_eqb (d_stmp d5) (bs "VERTICES"))); [exact I|].
      destruct (read_count_ok d5) as (d6 & nvd & E6 & Nv). rewrite E6. cbn [bind].
      destruct (alloc o nvd 24) eqn:A1; cbn [bind]; [|eapply alloc_safe; eauto]. apply alloc_go in A1.
      apply safe_bind; [apply vertex_loop_safe|]. intros d7 _.
      apply safe_bind; [apply section_header_safe|]. intros d8 _.
      destruct (read_count_ok d8) as (d9 & ned & E9 & Ne). rewrite E9. cbn [bind].
      destruct (alloc o ned 8) eqn:A2; cbn [bind]; [|eapply alloc_safe; eauto]. apply alloc_go in A2.
      assert (Ho' : o_alloc o < 8589934592) by exact Ho.
      apply safe_bind; [apply edge_loop_safe; unfold two31; lia|]. intros d10 _.
      apply safe_bind; [apply section_header_safe|]. intros d11 _.
      destruct (read_count_ok d11) as (d12 & nfd & E12 & Nf). rewrite E12. cbn [bind].
      destruct (alloc o nfd 24) eqn:A3; cbn [bind]; [|eapply alloc_safe; eauto]. apply alloc_go in A3.
      apply safe_bind; [apply face_loop_safe; [exact Ho|]; rewrite wrap64_small; unfold two31; lia|]. intros d13 _.
      apply safe_bind; [apply section_header_safe|]. intros d14 _.
      destruct (read_count_ok d14) as (d15 & ncd & E15 & Nc). rewrite E15. cbn [bind].
      destruct (alloc o ncd 24) eqn:A4; cbn [bind]; [|eapply alloc_safe; eauto].
      apply alloc_go in A4.
      apply safe_bind; [apply cell_loop_safe; [exact Ho|]; rewrite wrap64_small; unfold two31; lia|]. intros d16 _.
      exact I. }
    destruct R as [d|out]; [|apply stopok_safe; exact HR].
    pose proof (prop_loop_safe conv_d conv_f (gcl_fuel (d_is d)) o (d_m d) (d_is d)
                  [pos_entry (rev_append (d_pos d) [])] (gcl_fuel_ok _)) as P.
    destruct (prop_loop conv_d conv_f (gcl_fuel (d_is d)) o (d_m d) (d_is d) [pos_entry (rev_append (d_pos d) [])]) as [[s1 props]|out]; [|apply stopok_safe; exact P].
    destruct (negb (eofb s1)); exact I.
  Qed.
End Safety2.

(* ================================================================== Part 3: a successful read gives a valid mesh *)

Local Open Scope nat_scope.

Definition mesh_valid (m : mesh) : Prop :=
  (forall a b, In (a, b) (edges m) -> a < nv m /\ b < nv m) /\
  (forall f h, In f (faces m) -> In h f -> h < 2 * ne m) /\
  (forall c h, In c (cells m) -> In h c -> h < 2 * nf m).

Definition props_sized (f : fin) : Prop :=
  forall p, In p (f_props f) -> length (p_vals p) = count (p_kind p) (f_mesh f).

Definition topo (m : mesh) := (nv m, edges m, faces m, cells m).

Lemma topo_inv m a b c d : topo m = (a, b, c, d) -> nv m = a /\ edges m = b /\ faces m = c /\ cells m = d.
Proof. unfold topo. intros H; inversion H; auto. Qed.

Lemma mesh_valid_topo m m' : topo m' = topo m -> mesh_valid m -> mesh_valid m'.
Proof.
  unfold topo, mesh_valid, ne, nf. intros E. inversion E as [[E1 E2 E3 E4]]. rewrite E1, E2, E3, E4. auto.
Qed.

Lemma count_topo k m m' : topo m' = topo m -> count k m' = count k m.
Proof. unfold topo. intros E. inversion E as [[E1 E2 E3 E4]]. destruct k; unfold count, ne, nf, nc; congruence. Qed.

Lemma add_vertex_topo m : let '(m1, _) := add_vertex m in
  nv m1 = S (nv m) /\ edges m1 = edges m /\ faces m1 = faces m /\ cells m1 = cells m.
Proof. unfold add_vertex. rs. destruct (vbu m); rs; repeat split; reflexivity. Qed.

Lemma add_edge_dup_topo m a b : let '(m1, _) := add_edge m a b true in
  nv m1 = nv m /\ edges m1 = edges m ++ [(a, b)] /\ faces m1 = faces m /\ cells m1 = cells m.
Proof.
  unfold add_edge. pose proof (append_edge_effect m a b) as E. destruct (append_edge m a b) as [m1 e].
  destruct E as (_ & E2 & _ & T & _). unfold topo_eq_except_edges in T. destruct T as (T1 & T2 & T3 & _). auto.
Qed.

Lemma add_face_some_topo m hes chk m1 f : add_face m hes chk = (m1, Some f) ->
  nv m1 = nv m /\ edges m1 = edges m /\ faces m1 = faces m ++ [hes] /\ cells m1 = cells m.
Proof.
  unfold add_face. destruct (chk && negb (loop_ok m hes)); [discriminate|].
  pose proof (append_face_effect m hes) as E. destruct (append_face m hes) as [m2 f2].
  intros H; inversion H; subst. destruct E as (_ & E2 & _ & E4 & E5 & E6 & _). auto.
Qed.

Lemma add_cell_some_topo m hfs chk m1 c : add_cell m hfs chk = (m1, Some c) ->
  nv m1 = nv m /\ edges m1 = edges m /\ faces m1 = faces m /\ cells m1 = cells m ++ [hfs].
Proof.
  unfold add_cell. destruct (chk && negb (cell_check m hfs)); [discriminate|].
  pose proof (append_cell_effect m hfs) as E. destruct (append_cell m hfs) as [m2 c2].
  intros H; inversion H; subst. destruct E as (_ & E2 & _ & E4 & E5 & E6 & _). auto.
Qed.

Lemma m_add_face_some_topo o m hes m1 f : m_add_face o m hes = (m1, Some f) ->
  nv m1 = nv m /\ edges m1 = edges m /\ faces m1 = faces m ++ [hes] /\ cells m1 = cells m.
Proof.
  unfold m_add_face, tet_add_face, hex_add_face. destruct (o_mesh o).
  - apply add_face_some_topo.
  - destruct (negb (length hes =? 3)); [discriminate|]. apply add_face_some_topo.
  - destruct (negb (length hes =? 4)); [discriminate|]. apply add_face_some_topo.
Qed.

(* entries of the re-ordered list come from the given list *)
Definition from_list (hfs : list nat) (o : option nat) : Prop := match o with Some x => In x hfs | None => True end.

Lemma get_adjacent_in s a b l x : get_adjacent_halfface s a b l = Some x -> In x l.
Proof. unfold get_adjacent_halfface. destruct b; [|discriminate]. intros H. apply find_some in H. tauto. Qed.

Lemma Forall_upd {A} (P : A -> Prop) i x l : P x -> Forall P l -> Forall P (upd i x l).
Proof.
  intros Hx H. revert i. induction H; intros i; destruct i; simpl; constructor; auto.
Qed.

Lemma reorder_top_from s hfs : hfs <> [] -> Forall (from_list hfs) (reorder_top s hfs).
Proof.
  intros Hne. unfold reorder_top.
  assert (H0 : In (hx hfs 0) hfs). { unfold hx. destruct hfs; [congruence|]. left; reflexivity. }
  match goal with |- Forall _ (fst (fold_left ?f ?l ?a)) =>
    assert (G : forall l0 acc, Forall (from_list hfs) (fst acc) -> Forall (from_list hfs) (fst (fold_left f l0 acc))) end.
  { induction l0; intros acc Ha; cbn [fold_left]; auto. apply IHl0. destruct acc as [ord idx].
    destruct (get_adjacent_halfface s (Some (hx hfs 0)) (Some a) hfs) eqn:E; cbn [fst] in *; auto.
    apply Forall_upd; auto. cbn [from_list]. eapply get_adjacent_in; eauto. }
  apply G. cbn [fst]. apply Forall_upd; [exact H0|]. repeat constructor.
Qed.

Lemma all_some_from hfs l : forall r, Forall (from_list hfs) l -> all_some l = Some r -> forall x, In x r -> In x hfs.
Proof.
  induction l; simpl; intros r F H x Hx.
  - inversion H; subst. destruct Hx.
  - inversion F; subst. destruct a; [|discriminate]. destruct (all_some l) eqn:E; [|discriminate].
    inversion H; subst. destruct Hx as [->|Hx]; [assumption|]. eapply IHl; eauto.
Qed.

Lemma m_add_cell_some_topo o m hfs m1 c : m_add_cell o m hfs = (m1, Some c) ->
  exists l, (forall x, In x l -> In x hfs) /\
            nv m1 = nv m /\ edges m1 = edges m /\ faces m1 = faces m /\ cells m1 = cells m ++ [l].
Proof.
  unfold m_add_cell, tet_add_cell, hex_add_cell. destruct (o_mesh o).
  - intros H. exists hfs. split; auto. eapply add_cell_some_topo; eauto.
  - destruct (negb (length hfs =? 4)); [discriminate|].
    destruct (negb (forallb _ hfs)); [discriminate|].
    destruct (o_check o && negb _); [discriminate|].
    intros H. exists hfs. split; auto. eapply add_cell_some_topo; eauto.
  - destruct (Nat.eqb_spec (length hfs) 6) as [L|L]; cbn [negb]; [|discriminate].
    destruct (negb (forallb _ hfs)); [discriminate|].
    destruct (negb (o_check o)).
    { intros H. exists hfs. split; auto. eapply add_cell_some_topo; eauto. }
    destruct (negb (length (hfs_vertex_set m hfs) =? 8)); [discriminate|].
    destruct (check_halfface_ordering m hfs).
    { intros H. exists hfs. split; auto. eapply add_cell_some_topo; eauto. }
    destruct (reorder_bottom m hfs) as [b|] eqn:B; [|discriminate].
    destruct (all_some (upd 1 (Some b) (reorder_top m hfs))) as [l|] eqn:A; [|discriminate].
    destruct (check_halfface_ordering m l); [|discriminate].
    intros H. exists l. split; [|eapply add_cell_some_topo; eauto].
    assert (Hne : hfs <> []) by (destruct hfs; simpl in L; [lia|discriminate]).
    eapply all_some_from; [|exact A]. apply Forall_upd; [|apply reorder_top_from; auto].
    simpl. unfold reorder_bottom in B. eapply get_adjacent_in; eauto.
Qed.

Lemma topo_enable_vbu b m : topo (enable_vbu b m) = topo m.
Proof. unfold enable_vbu. destruct (b && negb (vbu m)); destruct (negb b); reflexivity. Qed.

Lemma topo_reorder_edges es m : topo (reorder_edges es m) = topo m.
Proof. pose proof (reorder_edges_frame es m) as F. simpl in F. destruct F as (A&B&C&D&_). unfold topo. congruence. Qed.

Lemma topo_enable_ebu b m : topo (enable_ebu b m) = topo m.
Proof.
  unfold enable_ebu. destruct (b && negb (ebu m)).
  - rs. destruct (fbu m); destruct (negb b); rs; unfold topo; rs;
      try (rewrite (topo_reorder_edges _ _)); try reflexivity;
      match goal with |- context [reorder_edges ?e ?x] => pose proof (topo_reorder_edges e x) as T; unfold topo in T; inversion T as [[T1 T2 T3 T4]]; rewrite ?T1, ?T2, ?T3, ?T4; reflexivity end.
  - destruct (negb b); reflexivity.
Qed.

Lemma topo_enable_fbu b m : topo (enable_fbu b m) = topo m.
Proof.
  unfold enable_fbu. destruct (b && negb (fbu m)); cbn [andb].
  - destruct (negb b); rs;
      match goal with
      | |- context [if ?c then _ else _] => destruct c
      end; try reflexivity;
      match goal with |- topo (reorder_edges ?e ?x) = _ => rewrite (topo_reorder_edges e x); reflexivity end.
  - destruct (negb b); reflexivity.
Qed.

Lemma bind_go {A B} (m : res A) (f : A -> res B) b : bind m f = Go b -> exists a, m = Go a /\ f a = Go b.
Proof. destruct m; simpl; [eauto|discriminate]. Qed.

Lemma mesh_valid_add_vertex m : mesh_valid m -> mesh_valid (fst (add_vertex m)).
Proof.
  pose proof (add_vertex_topo m) as T. destruct (add_vertex m) as [m1 v]. destruct T as (T1 & T2 & T3 & T4). simpl.
  unfold mesh_valid, ne, nf. rewrite T1, T2, T3, T4. intros (A & B & C). repeat split; auto;
    destruct (A _ _ H); lia.
Qed.

Section Valid.
  Variable conv_d : list byte -> Z * bool.
  Variable conv_f : list byte -> Z * bool.

  Definition dinv (d : rd) : Prop := mesh_valid (d_m d) /\ length (d_pos d) = nv (d_m d).

  Lemma gcl_keeps d d' : gcl d = Go d' -> d_m d' = d_m d /\ d_pos d' = d_pos d.
  Proof. destruct (gcl_go d) as (d1 & E & A & B & _). rewrite E. intros H; inversion H; subst; auto. Qed.

  Lemma vertex_loop_inv n : forall d d', vertex_loop conv_d n d = Go d' -> dinv d ->
    dinv d' /\ nv (d_m d') = nv (d_m d) + n /\ edges (d_m d') = edges (d_m d) /\ faces (d_m d') = faces (d_m d) /\ cells (d_m d') = cells (d_m d).
  Proof.
    induction n; intros d d' H I.
    - simpl in H. inversion H; subst. split; [exact I|]. repeat split; auto.
    - cbn [vertex_loop] in H. apply bind_go in H. destruct H as (d1 & G & H). apply gcl_keeps in G. destruct G as [G1 G2].
      repeat match type of H with context [get_float ?c ?s] => destruct (get_float c s) end.
      destruct (d_v d1) as [[vx vy] vz].
      pose proof (add_vertex_topo (d_m d1)) as T. pose proof (mesh_valid_add_vertex (d_m d1)) as V.
      destruct (add_vertex (d_m d1)) as [m1 vh]. destruct T as (T1 & T2 & T3 & T4). simpl in V.
      apply IHn in H.
      + cbn [d_m d_pos] in H. destruct H as (A & B & C & D & E). split; auto. rewrite B, C, D, E, T1, T2, T3, T4, G1. repeat split; auto; lia.
      + unfold dinv in *. cbn [d_m d_pos]. rewrite G1, G2 in *. split; [apply V; apply I|]. simpl. destruct I as [_ I2]. rewrite I2, T1. reflexivity.
  Qed.

  Lemma edge_loop_inv n nvd : forall d d', edge_loop n nvd d = Go d' -> dinv d -> Z.to_nat nvd <= nv (d_m d) ->
    dinv d' /\ nv (d_m d') = nv (d_m d) /\ ne (d_m d') = ne (d_m d) + n /\ faces (d_m d') = faces (d_m d) /\ cells (d_m d') = cells (d_m d).
  Proof.
    induction n; intros d d' H I Hn.
    - simpl in H. inversion H; subst. split; [exact I|]. repeat split; auto; lia.
    - cbn [edge_loop] in H. apply bind_go in H. destruct H as (d1 & G & H). apply gcl_keeps in G. destruct G as [G1 G2].
      destruct (get_num NU32 (sstr_of (d_line d1))) as [ss1 a] eqn:Ea. destruct (get_num NU32 ss1) as [ss2 b] eqn:Eb.
      destruct ((valz a 0 >=? nvd)%Z || (valz b 0 >=? nvd)%Z) eqn:C; [discriminate|].
      destruct ((valz a 0 >? int_max_z)%Z || (valz b 0 >? int_max_z)%Z); [discriminate|].
      apply orb_false_iff in C. destruct C as [C1 C2].
      assert (Na : (0 <= valz a 0)%Z) by (destruct a; simpl; [eapply get_num_u32_nonneg; eauto | lia]).
      assert (Nb : (0 <= valz b 0)%Z) by (destruct b; simpl; [eapply get_num_u32_nonneg; eauto | lia]).
      pose proof (add_edge_dup_topo (d_m d1) (Z.to_nat (valz a 0)) (Z.to_nat (valz b 0))) as T.
      destruct (add_edge (d_m d1) (Z.to_nat (valz a 0)) (Z.to_nat (valz b 0)) true) as [m1 e]. destruct T as (T1 & T2 & T3 & T4).
      apply IHn in H.
      + cbn [d_m d_pos with_mesh] in H. destruct H as (A & B & C & D & E). split; auto. unfold ne in *. rewrite B, C, D, E, T1, T2, T3, T4, G1.
        rewrite app_length. simpl. repeat split; auto; lia.
      + unfold dinv in *. cbn [d_m d_pos with_mesh]. rewrite G1, G2 in *. destruct I as [(Ia & Ib & Ic) I2]. split; [|rewrite T1; auto].
        unfold mesh_valid, ne, nf. rewrite T1, T2, T3, T4. split; [|split].
        * intros x y Hin. apply in_app_or in Hin. destruct Hin as [Hin|[Hin|[]]]; [apply Ia; auto|]. inversion Hin; subst. lia.
        * intros f h Hf Hh. specialize (Ib f h Hf Hh). unfold ne in Ib. rewrite app_length. simpl. lia.
        * apply Ic.
      + cbn [d_m with_mesh]. rewrite T1, G1. auto.
  Qed.

  Lemma handle_loop_bound n limit : forall ss l, handle_loop n limit ss = inl (Some l) -> Forall (fun h => (Z.of_nat h < limit)%Z) l.
  Proof.
    induction n; intros ss l H; simpl in H.
    - inversion H; subst. constructor.
    - destruct (get_num NU32 ss) as [ss1 a] eqn:Ea.
      destruct (valz a 0 >=? limit)%Z eqn:C; [discriminate|].
      destruct (valz a 0 >? int_max_z)%Z; [discriminate|].
      assert (Na : (0 <= valz a 0)%Z) by (destruct a; simpl; [eapply get_num_u32_nonneg; eauto | lia]).
      destruct (handle_loop n limit ss1) as [[l1|]|u] eqn:R; inversion H; subst.
      constructor; [lia|]. eapply IHn; eauto.
  Qed.

  Lemma read_handles_bound o isf limit d l : read_handles o isf limit d = Go l -> Forall (fun h => (Z.of_nat h < limit)%Z) l.
  Proof.
    unfold read_handles. destruct (get_num NU64 (sstr_of (d_line d))) as [ss1 vo].
    destruct (isf && (valz vo 0 =? 0)%Z); [discriminate|].
    destruct (alloc o (valz vo 0) 4); cbn [bind]; [|discriminate].
    destruct (valz vo 0 <? two32)%Z.
    - destruct (handle_loop (Z.to_nat (valz vo 0)) limit ss1) as [[l1|]|u] eqn:R; try discriminate.
      intros H; inversion H; subst. eapply handle_loop_bound; eauto.
    - destruct (handle_loop (S (length (d_line d))) limit ss1) as [[l1|]|u]; discriminate.
  Qed.

  Lemma face_loop_inv n o nhe : forall d d', face_loop n o nhe d = Go d' -> dinv d -> (nhe <= Z.of_nat (2 * ne (d_m d)))%Z ->
    dinv d' /\ nv (d_m d') = nv (d_m d) /\ edges (d_m d') = edges (d_m d) /\ nf (d_m d') = nf (d_m d) + n /\ cells (d_m d') = cells (d_m d).
  Proof.
    induction n; intros d d' H I Hn.
    - simpl in H. inversion H; subst. split; [exact I|]. repeat split; auto; lia.
    - cbn [face_loop] in H. apply bind_go in H. destruct H as (d1 & G & H). apply gcl_keeps in G. destruct G as [G1 G2].
      apply bind_go in H. destruct H as (hes & R & H). apply read_handles_bound in R.
      destruct (m_add_face o (d_m d1) hes) as [m1 [f|]] eqn:M; [|discriminate].
      apply m_add_face_some_topo in M. destruct M as (T1 & T2 & T3 & T4).
      apply IHn in H.
      + cbn [d_m with_mesh] in H. destruct H as (A & B & C & D & E). split; auto. unfold nf in *. rewrite B, C, D, E, T1, T2, T3, T4, G1.
        rewrite app_length. simpl. repeat split; auto; lia.
      + unfold dinv in *. cbn [d_m d_pos with_mesh]. rewrite G1, G2 in *. destruct I as [(Ia & Ib & Ic) I2]. split; [|rewrite T1; auto].
        unfold mesh_valid, ne, nf. rewrite T1, T2, T3, T4. split; [exact Ia|split].
        * intros f0 h Hf Hh. apply in_app_or in Hf. destruct Hf as [Hf|[Hf|[]]]; [eapply Ib; eauto|]. subst f0.
          rewrite Forall_forall in R. specialize (R h Hh). unfold ne in *. lia.
        * intros c h Hc Hh. specialize (Ic c h Hc Hh). unfold nf in Ic. rewrite app_length. simpl. lia.
      + cbn [d_m with_mesh]. unfold ne in *. rewrite T2, G1. auto.
  Qed.

  Lemma cell_loop_inv n o nhf : forall d d', cell_loop n o nhf d = Go d' -> dinv d -> (nhf <= Z.of_nat (2 * nf (d_m d)))%Z ->
    dinv d' /\ nv (d_m d') = nv (d_m d) /\ edges (d_m d') = edges (d_m d) /\ faces (d_m d') = faces (d_m d).
  Proof.
    induction n; intros d d' H I Hn.
    - simpl in H. inversion H; subst. split; [exact I|]. repeat split; auto.
    - cbn [cell_loop] in H. apply bind_go in H. destruct H as (d1 & G & H). apply gcl_keeps in G. destruct G as [G1 G2].
      apply bind_go in H. destruct H as (hfs & R & H). apply read_handles_bound in R.
      destruct (m_add_cell o (d_m d1) hfs) as [m1 [c|]] eqn:M; [|discriminate].
      apply m_add_cell_some_topo in M. destruct M as (l & Sub & T1 & T2 & T3 & T4).
      apply IHn in H.
      + cbn [d_m with_mesh] in H. destruct H as (A & B & C & D). split; auto. rewrite B, C, D, T1, T2, T3, G1. auto.
      + unfold dinv in *. cbn [d_m d_pos with_mesh]. rewrite G1, G2 in *. destruct I as [(Ia & Ib & Ic) I2]. split; [|rewrite T1; auto].
        unfold mesh_valid, ne, nf. rewrite T1, T2, T3, T4. split; [exact Ia|split; [exact Ib|]].
        intros c0 h Hc Hh. apply in_app_or in Hc. destruct Hc as [Hc|[Hc|[]]]; [eapply Ic; eauto|]. subst c0.
        rewrite Forall_forall in R. specialize (R h (Sub h Hh)). unfold nf in *. lia.
      + cbn [d_m with_mesh]. unfold nf in *. rewrite T3, G1. auto.
  Qed.

  (* ------------------------------------------------------------------ properties stay sized *)

  Lemma deser_all_length o t olds : forall s s' vs, deser_all conv_d conv_f o t olds s = inl (s', vs) -> length vs = length olds.
  Proof.
    induction olds; simpl; intros s s' vs H.
    - inversion H; reflexivity.
    - destruct (deser conv_d conv_f o t s a) as [s1 v|out]; [|discriminate].
      destruct (deser_all conv_d conv_f o t olds s1) as [[s2 vs2]|out] eqn:E; [|discriminate].
      inversion H; subst. simpl. f_equal. eapply IHolds; eauto.
  Qed.

  Lemma kind_eqb_eq a b : kind_eqb a b = true -> a = b.
  Proof. destruct a, b; simpl; congruence. Qed.

  Lemma find_prop_spec k name t l : forall i j p, find_prop k name t l i = Some (j, p) -> In p l /\ p_kind p = k.
  Proof.
    induction l; simpl; intros i j p H; [discriminate|].
    destruct (prop_matches k name t a) eqn:M.
    - inversion H; subst. split; [left; reflexivity|]. unfold prop_matches in M.
      apply andb_true_iff in M. destruct M as [M _]. apply andb_true_iff in M. destruct M as [M _]. symmetry. apply kind_eqb_eq; auto.
    - apply IHl in H. destruct H; split; [right|]; auto.
  Qed.

  Definition sized_in (m : mesh) (p : pentry) : Prop := length (p_vals p) = count (p_kind p) m.

  Lemma generate_property_sized o m k name t s props s' props' :
    generate_property conv_d conv_f o m k name t s props = Go (s', props') -> Forall (sized_in m) props -> Forall (sized_in m) props'.
  Proof.
    unfold generate_property. destruct name as [|c nm].
    - intros H; inversion H; subst; auto.
    - destruct (find_prop k (c :: nm) t props 0) as [[i p]|] eqn:F.
      + destruct (deser_all conv_d conv_f o t (p_vals p) s) as [[s1 vs]|out] eqn:D; [|discriminate].
        intros H Hs; inversion H; subst. apply find_prop_spec in F. destruct F as [Fi Fk].
        apply deser_all_length in D. apply Forall_upd; auto. unfold sized_in; cbn [p_vals p_kind].
        rewrite Forall_forall in Hs. specialize (Hs p Fi). unfold sized_in in Hs. congruence.
      + destruct (deser_all conv_d conv_f o t (repeat (default_val t) (count k m)) s) as [[s1 vs]|out] eqn:D; [|discriminate].
        intros H Hs; inversion H; subst. apply deser_all_length in D. rewrite repeat_length in D.
        apply Forall_app. split; [exact Hs|]. constructor; [exact D|constructor].
  Qed.

  Lemma read_property_sized o m s props s' props' :
    read_property conv_d conv_f o m s props = Go (s', props') -> Forall (sized_in m) props -> Forall (sized_in m) props'.
  Proof.
    unfold read_property. destruct (get_clean_line (gcl_fuel s) s []) as [[[s1 line] b]|]; [|discriminate].
    destruct line as [|c l]; [intros H; inversion H; subst; auto|].
    destruct (get_word (sstr_of (c :: l))) as [ss1 w1]. destruct (get_word ss1) as [ss2 w2].
    destruct (type_of_name _) as [t|]; [|intros H; inversion H; subst; auto].
    destruct (extract_quoted (c :: l)) as [|c0 nm]; [intros H; inversion H; subst; auto|].
    destruct (kind_of_name _) as [k|]; [|intros H; inversion H; subst; auto].
    apply generate_property_sized.
  Qed.

  Lemma prop_loop_sized : forall fuel o m s props s' props',
    prop_loop conv_d conv_f fuel o m s props = Go (s', props') -> Forall (sized_in m) props -> Forall (sized_in m) props'.
  Proof.
    induction fuel; intros o m s props s' props' H Hs; simpl in H.
    - destruct (good s); [discriminate|]. inversion H; subst; auto.
    - destruct (good s); [|inversion H; subst; auto].
      apply bind_go in H. destruct H as ([s1 p1] & R & H). apply read_property_sized in R; auto. eapply IHfuel; eauto.
  Qed.
End Valid.

Section Valid2.
  Variable conv_d : list byte -> Z * bool.
  Variable conv_f : list byte -> Z * bool.

  Lemma read_keyword_keeps ss d ss' d' : read_keyword ss d = (ss', d') -> d_m d' = d_m d /\ d_pos d' = d_pos d.
  Proof. unfold read_keyword. destruct (get_word ss). intros H; inversion H; subst; auto. Qed.

  Lemma section_header_keeps kw d d' : section_header kw d = Go d' -> d_m d' = d_m d /\ d_pos d' = d_pos d.
  Proof.
    unfold section_header. intros H. apply bind_go in H. destruct H as (d1 & G & H). apply gcl_keeps in G.
    destruct (read_keyword (sstr_of (d_line d1)) d1) as [ss d2] eqn:K. apply read_keyword_keeps in K.
    destruct (bytes_eqb (d_stmp d2) (bs kw)); inversion H; subst. destruct G, K; split; congruence.
  Qed.

  Lemma read_count_keeps d d' n : read_count d = Go (d', n) -> d_m d' = d_m d /\ d_pos d' = d_pos d /\ (0 <= n)%Z.
  Proof.
    intros H. destruct (read_count_ok d) as (d1 & n1 & E & N). rewrite E in H. inversion H; subst.
    unfold read_count in E. apply bind_go in E. destruct E as (d2 & G & E). apply gcl_keeps in G.
    destruct (get_num NU64 (sstr_of (d_line d2))). inversion E; subst. tauto.
  Qed.

  Lemma wrap64_le z : (0 <= z)%Z -> (wrap64 z <= z)%Z.
  Proof. intros. unfold wrap64. apply Z.mod_le; lia. Qed.

  Theorem read_stream_valid o s0 f : read_stream conv_d conv_f o s0 = RTrue f -> mesh_valid (f_mesh f) /\ props_sized f.
  Proof.
    unfold read_stream.
    match goal with |- match ?r with Stop st => _ | Go d => _ end = _ -> _ => set (R := r) end.
    assert (HR : forall d, R = Go d -> dinv d).
    { unfold R. clear R. intros d H.
      apply bind_go in H. destruct H as (d1 & G1 & H). apply gcl_keeps in G1. cbn [d_m d_pos] in G1.
      destruct (read_keyword (sstr_of (d_line d1)) d1) as [ss1 d2] eqn:K2. apply read_keyword_keeps in K2.
      destruct (read_keyword ss1 d2) as [ss2 d3] eqn:K3. apply read_keyword_keeps in K3.
      destruct (bytes_eqb (d_stmp d3) (bs "BINARY")); [discriminate|].
      apply bind_go in H. destruct H as (d4 & G4 & H).
      assert (K4 : d_m d4 = d_m d3 /\ d_pos d4 = d_pos d3).
      { destruct (bytes_eqb (d_stmp d2) (bs "OVM")); [apply gcl_keeps; auto | inversion G4; auto]. }
      destruct (read_keyword (sstr_of (d_line d4)) d4) as [ss5 d5] eqn:K5. apply read_keyword_keeps in K5.
      destruct (negb (bytes_eqb (d_stmp d5) (bs "VERTICES"))); [discriminate|].
      apply bind_go in H. destruct H as ([d6 nvd] & C6 & H). apply read_count_keeps in C6. destruct C6 as (M6 & P6 & Nv).
      apply bind_go in H. destruct H as (_ & _ & H).
      assert (T6 : topo (d_m d6) = (0, [], [], []) /\ d_pos d6 = []).
      { destruct G1, K2, K3, K4, K5. split.
        - replace (d_m d6) with (d_m d1) by congruence. rewrite H0. reflexivity.
        - congruence. }
      destruct T6 as [T6 P0]. apply topo_inv in T6. destruct T6 as (T6a & T6b & T6c & T6d).
      assert (I6 : dinv d6).
      { split; [|rewrite P0, T6a; reflexivity]. unfold mesh_valid. rewrite T6b, T6c, T6d.
        split. { intros a0 b0 X. inversion X. }
        split. { intros f0 h0 X. inversion X. }
        intros c0 h0 X. inversion X. }
      apply bind_go in H. destruct H as (d7 & V7 & H). apply vertex_loop_inv in V7; auto. destruct V7 as (I7 & N7 & E7 & F7 & C7).
      apply bind_go in H. destruct H as (d8 & S8 & H). apply section_header_keeps in S8. destruct S8 as [M8 P8].
      apply bind_go in H. destruct H as ([d9 ned] & C9 & H). apply read_count_keeps in C9. destruct C9 as (M9 & P9 & Ne).
      apply bind_go in H. destruct H as (_ & _ & H).
      assert (I9 : dinv d9) by (unfold dinv in *; rewrite M9, P9, M8, P8; auto).
      apply bind_go in H. destruct H as (d10 & L10 & H).
      apply edge_loop_inv in L10; auto; [|rewrite M9, M8, N7, T6a; lia]. destruct L10 as (I10 & N10 & E10 & F10 & C10).
      apply bind_go in H. destruct H as (d11 & S11 & H). apply section_header_keeps in S11. destruct S11 as [M11 P11].
      apply bind_go in H. destruct H as ([d12 nfd] & C12 & H). apply read_count_keeps in C12. destruct C12 as (M12 & P12 & Nf).
      apply bind_go in H. destruct H as (_ & _ & H).
      assert (I12 : dinv d12) by (unfold dinv in *; rewrite M12, P12, M11, P11; auto).
      apply bind_go in H. destruct H as (d13 & L13 & H).
      apply face_loop_inv in L13; auto.
      2:{ rewrite M12, M11, E10, M9, M8. unfold ne. rewrite E7, T6b. simpl length.
          pose proof (wrap64_le (2 * ned)%Z ltac:(lia)). lia. }
      destruct L13 as (I13 & N13 & E13 & F13 & C13).
      apply bind_go in H. destruct H as (d14 & S14 & H). apply section_header_keeps in S14. destruct S14 as [M14 P14].
      apply bind_go in H. destruct H as ([d15 ncd] & C15 & H). apply read_count_keeps in C15. destruct C15 as (M15 & P15 & Nc).
      apply bind_go in H. destruct H as (_ & _ & H).
      assert (I15 : dinv d15) by (unfold dinv in *; rewrite M15, P15, M14, P14; auto).
      apply bind_go in H. destruct H as (d16 & L16 & H).
      apply cell_loop_inv in L16; auto.
      2:{ rewrite M15, M14, F13, M12, M11. unfold nf. rewrite F10, M9, M8, F7, T6c. simpl length.
          pose proof (wrap64_le (2 * nfd)%Z ltac:(lia)). lia. }
      destruct L16 as (I16 & _). inversion H; subst. exact I16. }
    destruct R as [d|out] eqn:ER.
    - specialize (HR d eq_refl). destruct HR as [MV PL].
      destruct (prop_loop conv_d conv_f (gcl_fuel (d_is d)) o (d_m d) (d_is d) [pos_entry (rev_append (d_pos d) [])]) as [[s1 props]|out] eqn:P.
      + apply prop_loop_sized in P.
        2:{ constructor; [|constructor]. unfold sized_in, pos_entry; cbn [p_vals p_kind count].
            rewrite rev_append_rev, app_nil_r, rev_length. exact PL. }
        destruct (negb (eofb s1)); [discriminate|].
        intros H; inversion H; subst; clear H. cbn [f_mesh f_props].
        set (m1 := if o_bu o then enable_fbu true (enable_ebu true (enable_vbu true (d_m d))) else d_m d).
        assert (T : topo m1 = topo (d_m d)).
        { unfold m1. destruct (o_bu o); [|reflexivity]. rewrite topo_enable_fbu, topo_enable_ebu, topo_enable_vbu. reflexivity. }
        split; [eapply mesh_valid_topo; eauto|].
        unfold props_sized; cbn [f_mesh f_props]. intros p Hp. rewrite Forall_forall in P. specialize (P p Hp).
        unfold sized_in in P. rewrite (count_topo _ _ _ T). exact P.
      + intros H. exfalso. eapply stop_not_true; eauto.
    - intros H. exfalso. eapply stop_not_true; eauto.
  Qed.
End Valid2.

(* ================================================================== the capped map loop is the literal loop *)

Lemma zeros_loop_found l : forall f f' r, zeros_loop l f = (f', r) -> f' = true -> f = true \/ length r < length l.
Proof.
  destruct l as [|a l]; simpl; intros f f' r H Hf.
  - inversion H; subst; auto.
  - destruct (a =? c_zero)%Z.
    + right. apply zeros_loop_le in H. lia.
    + inversion H; subst; auto.
Qed.

Lemma digits_loop_any mx sm md l : forall res ovf any r' o' a' l',
  digits_loop mx sm md l res ovf any = (r', o', a', l') -> a' = true -> any = true \/ length l' < length l.
Proof.
  destruct l as [|c l]; simpl; intros res ovf any r' o' a' l' H Ha.
  - inversion H; subst; auto.
  - destruct (is_digit c).
    + right. destruct (res >? sm)%Z; apply digits_loop_le in H; lia.
    + inversion H; subst; auto.
Qed.

(* an integer extraction that does not fail consumed at least one character *)
Lemma extract_int_ok_consumes w sg l v r : extract_int w sg l = (v, false, r) -> length r < length l.
Proof.
  unfold extract_int.
  set (x := match l with
            | [] => (false, [])
            | c :: t => if (c =? c_minus)%Z then (true, t) else if (c =? c_plus)%Z then (false, t) else (false, l)
            end).
  assert (Hx : length (snd x) <= length l).
  { unfold x. destruct l as [|c t]; simpl; auto. destruct (c =? c_minus)%Z; simpl; [lia|]. destruct (c =? c_plus)%Z; simpl; lia. }
  destruct x as [neg l1]. simpl in Hx.
  destruct (zeros_loop l1 false) as [fz l2] eqn:Z. pose proof (zeros_loop_le _ _ _ _ Z) as Z1. pose proof (zeros_loop_found _ _ _ _ Z) as Z2.
  match goal with |- context [digits_loop ?a ?b ?c ?d ?e ?f ?g] => destruct (digits_loop a b c d e f g) as [[[res ovf] any] l3] eqn:D end.
  pose proof (digits_loop_le _ _ _ _ _ _ _ _ _ _ _ D) as D1. pose proof (digits_loop_any _ _ _ _ _ _ _ _ _ _ _ D) as D2.
  destruct any; destruct fz; cbn [negb andb].
  - destruct ovf; intros H; inversion H; subst. destruct (D2 eq_refl); [discriminate|lia].
  - destruct ovf; intros H; inversion H; subst. destruct (D2 eq_refl); [discriminate|lia].
  - destruct ovf; intros H; inversion H; subst. destruct (Z2 eq_refl); [discriminate|lia].
  - intros H; inversion H.
Qed.

Lemma parse_num_ok_consumes t l v r : t <> NBool -> parse_num t l = (v, false, r) -> length r < length l.
Proof.
  intros Ht. destruct t; simpl; try congruence.
  - apply extract_int_ok_consumes.
  - apply extract_int_ok_consumes.
  - apply extract_int_ok_consumes.
  - destruct (extract_int 64 true l) as [[v0 f0] l0] eqn:E. unfold clamp.
    destruct (v0 <? -2147483648)%Z; [discriminate|]. destruct (v0 >? 2147483647)%Z; [discriminate|].
    intros H; inversion H; subst. eapply extract_int_ok_consumes; eauto.
  - destruct (extract_int 64 true l) as [[v0 f0] l0] eqn:E. unfold clamp.
    destruct (v0 <? -32768)%Z; [discriminate|]. destruct (v0 >? 32767)%Z; [discriminate|].
    intros H; inversion H; subst. eapply extract_int_ok_consumes; eauto.
Qed.

Lemma get_num_ok_consumes t s s' v : t <> NBool -> get_num t s = (s', v) -> failb s' = false -> len s' < len s.
Proof.
  intros Ht. unfold get_num. destruct (sentry true s) as [s1 ok] eqn:S. pose proof (sentry_le _ _ _ _ S) as L.
  destruct ok.
  - destruct (parse_num t (rest s1)) as [[v0 f] l] eqn:P.
    intros H F; inversion H; subst. cbn [failb mk] in F. subst f. apply parse_num_ok_consumes in P; auto.
    unfold len in *; simpl; lia.
  - intros H F; inversion H; subst. unfold sentry in S. destruct (good s).
    + destruct (skipws (rest s)); inversion S; subst; discriminate F.
    + inversion S; subst. discriminate F.
Qed.

Lemma deser_map_loop_cap_nat : forall n k s acc, S (len s) <= k ->
  deser_map_loop n s acc = deser_map_loop (Nat.min n k) s acc.
Proof.
  induction n; intros k s acc Hk; [reflexivity|].
  destruct k as [|k]; [lia|]. cbn [Nat.min deser_map_loop].
  destruct (get_num NI32 s) as [s1 kv] eqn:E1. destruct (get_num NI32 s1) as [s2 vv] eqn:E2.
  destruct (failb s2) eqn:F; [reflexivity|].
  apply IHn. pose proof (get_num_le _ _ _ _ E1). apply get_num_ok_consumes in E2; auto; [lia|discriminate].
Qed.

Theorem deser_map_loop_cap n s acc : (0 <= n)%Z -> deser_map_loop (Z.to_nat n) s acc = deser_map_loop (map_iters n s) s acc.
Proof.
  intros Hn. unfold map_iters. rewrite (deser_map_loop_cap_nat (Z.to_nat n) (S (len s)) s acc) by lia.
  f_equal. unfold len. lia.
Qed.

(* ================================================================== Part 4: C06 - what the writer prints, the reader reads *)

Local Open Scope Z_scope.

(* ------------------------------------------------------------------ decimal digits *)

Definition dval (ds : list byte) (res : Z) : Z := fold_left (fun a d => a * 10 + (d - 48)) ds res.
Definition all_digits (ds : list byte) : Prop := Forall (fun c => 48 <= c <= 57) ds.

Lemma dval_app a b r : dval (a ++ b) r = dval b (dval a r).
Proof. unfold dval. apply fold_left_app. Qed.

Lemma dec_digits_acc fuel : forall n acc, dec_digits fuel n acc = dec_digits fuel n [] ++ acc.
Proof.
  induction fuel; intros n acc; cbn [dec_digits]; [reflexivity|].
  destruct (n <? 10); [reflexivity|].
  rewrite (IHfuel (n / 10) ((48 + n mod 10) :: acc)). symmetry. rewrite IHfuel. rewrite <- app_assoc. reflexivity.
Qed.

Lemma dec_digits_spec k : forall n, 0 <= n < 10 ^ Z.of_nat (S k) ->
  all_digits (dec_digits (S k) n []) /\ dval (dec_digits (S k) n []) 0 = n /\ dec_digits (S k) n [] <> [] /\
  (0 < n -> exists c t, dec_digits (S k) n [] = c :: t /\ c <> 48).
Proof.
  induction k; intros n Hn.
  - cbn [dec_digits]. assert (L : (n <? 10) = true) by (change (10 ^ Z.of_nat 1) with 10 in Hn; lia). rewrite L.
    repeat split.
    + constructor; [lia|constructor].
    + unfold dval; cbn [fold_left]. lia.
    + discriminate.
    + intros Hp. exists (48 + n), []. split; [reflexivity|lia].
  - remember (S k) as k1. cbn [dec_digits]. destruct (n <? 10) eqn:L.
    + repeat split.
      * constructor; [lia|constructor].
      * unfold dval; cbn [fold_left]. lia.
      * discriminate.
      * intros Hp. exists (48 + n), []. split; [reflexivity|lia].
    + rewrite dec_digits_acc.
      assert (Hq : 0 <= n / 10 < 10 ^ Z.of_nat k1).
      { rewrite Nat2Z.inj_succ, Z.pow_succ_r in Hn by lia. split; [apply Z.div_pos; lia|]. apply Z.div_lt_upper_bound; lia. }
      subst k1. destruct (IHk _ Hq) as (A & B & C & D).
      assert (Hm : 0 <= n mod 10 < 10) by (apply Z.mod_pos_bound; lia).
      repeat split.
      * apply Forall_app. split; auto. constructor; [lia|constructor].
      * rewrite dval_app, B. unfold dval; cbn [fold_left]. pose proof (Z.div_mod n 10 ltac:(lia)). lia.
      * intros X. apply app_eq_nil in X. destruct X; discriminate.
      * intros Hp. assert (Hq0 : 0 < n / 10) by (apply Z.div_str_pos; lia).
        destruct (D Hq0) as (c & t & E & Nz). rewrite E. exists c, (t ++ [48 + n mod 10]). split; [reflexivity|assumption].
Qed.

Lemma print_nat_Z_spec n : 0 <= n ->
  all_digits (print_nat_Z n) /\ dval (print_nat_Z n) 0 = n /\ print_nat_Z n <> [] /\
  (0 < n -> exists c t, print_nat_Z n = c :: t /\ c <> 48).
Proof.
  intros Hn. unfold print_nat_Z. apply dec_digits_spec. split; auto.
  destruct (Z.eq_dec n 0) as [->|Hz]; [simpl; lia|].
  assert (Hp : 0 < n) by lia. pose proof (Z.log2_spec n Hp) as [_ U].
  rewrite Nat2Z.inj_succ, Z2Nat.id by apply Z.log2_nonneg.
  eapply Z.lt_le_trans; [exact U|]. apply Z.pow_le_mono_l. lia.
Qed.

Lemma dval_ge ds : forall res, 0 <= res -> all_digits ds -> res <= dval ds res.
Proof.
  induction ds; intros res Hr Hd; [unfold dval; cbn [fold_left]; lia|].
  inversion Hd; subst. unfold dval in *. cbn [fold_left]. etransitivity; [|apply IHds; auto; lia]. lia.
Qed.

(* the digit loop on a digit string followed by a non-digit (or the end): no overflow while the value fits *)
Lemma digits_loop_digits mx sm md ds : forall r res ovf any,
  all_digits ds -> 0 <= res -> dval ds res <= mx -> mx < md -> sm = mx / 10 -> ds <> [] ->
  (r = [] \/ exists c r', r = c :: r' /\ is_digit c = false) ->
  digits_loop mx sm md (ds ++ r) res ovf any = (dval ds res, ovf, true, r).
Proof.
  induction ds as [|c ds IH]; intros r res ovf any Hd Hr Hv Hm Hs Hne Hrr; [congruence|].
  inversion Hd; subst. cbn [app digits_loop].
  assert (Dg : is_digit c = true) by (unfold is_digit; lia). rewrite Dg.
  unfold dval in Hv. cbn [fold_left] in Hv. fold (dval ds (res * 10 + (c - 48))) in Hv.
  pose proof (dval_ge ds (res * 10 + (c - 48)) ltac:(lia) H2) as G.
  assert (R0 : res <= mx / 10) by (apply Z.div_le_lower_bound; lia).
  assert (R1 : (res >? mx / 10) = false) by lia.
  rewrite R1.
  assert (R2 : (res * 10 >? mx - (c - 48)) = false) by lia. rewrite R2, orb_false_r.
  assert (R3 : (res * 10 + (c - 48)) mod md = res * 10 + (c - 48)) by (apply Z.mod_small; lia). rewrite R3.
  destruct ds as [|c2 ds2].
  - simpl. destruct Hrr as [->|(c0 & r' & -> & Nd)]; simpl; [reflexivity|]. rewrite Nd. reflexivity.
  - rewrite IH; auto; try lia; try discriminate; try reflexivity.
Qed.

Lemma is_digit_false_zero c : is_digit c = false -> (c =? c_zero) = false.
Proof. unfold is_digit, c_zero. lia. Qed.

(* unsigned extraction of a printed number *)
Lemma extract_int_print w n r : 0 < w -> 0 <= n < pow2 w ->
  (r = [] \/ exists c r', r = c :: r' /\ is_digit c = false) ->
  extract_int w false (print_Z n ++ r) = (n, false, r).
Proof.
  intros Hw Hn Hr. unfold print_Z. assert (L : (n <? 0) = false) by lia. rewrite L.
  destruct (print_nat_Z_spec n ltac:(lia)) as (A & B & C & D).
  destruct (Z.eq_dec n 0) as [Hz|Hz].
  - subst n. assert (E : print_nat_Z 0 = [48]) by reflexivity. rewrite E. cbn [app]. unfold extract_int.
    replace (48 =? c_minus) with false by reflexivity. replace (48 =? c_plus) with false by reflexivity.
    cbn [zeros_loop]. replace (48 =? c_zero) with true by reflexivity.
    destruct Hr as [->|(c & r' & -> & Nd)].
    + simpl. reflexivity.
    + cbn [zeros_loop]. rewrite (is_digit_false_zero _ Nd). cbn [digits_loop]. rewrite Nd. simpl. reflexivity.
  - destruct (D ltac:(lia)) as (c & t & E & Nz). rewrite E in *. cbn [app]. unfold extract_int.
    inversion A; subst.
    assert (M1 : (c =? c_minus) = false) by (unfold c_minus; lia). assert (M2 : (c =? c_plus) = false) by (unfold c_plus; lia).
    rewrite M1, M2. cbn [zeros_loop]. assert (M3 : (c =? c_zero) = false) by (unfold c_zero; lia). rewrite M3.
    cbn [andb]. 
    change (c :: t ++ r) with ((c :: t) ++ r).
    rewrite (digits_loop_digits (pow2 w - 1) ((pow2 w - 1) / 10) (pow2 w) (c :: t) r 0 false false); auto; try lia; try discriminate.
    all: try (rewrite B; cbn [negb andb]; reflexivity).
Qed.

(* ------------------------------------------------------------------ lines *)

Definition st (l : list byte) : istream := mk l false false.

Lemma take_line_app l r : ~ In c_nl l -> take_line (l ++ c_nl :: r) = (l, Some r).
Proof.
  induction l; intros H; simpl.
  - replace (c_nl =? c_nl) with true by reflexivity. reflexivity.
  - assert (a <> c_nl) by (intros ->; apply H; left; reflexivity).
    assert (E : (a =? c_nl) = false) by lia. rewrite E. rewrite IHl; [reflexivity|]. intros X; apply H; right; exact X.
Qed.

Lemma getline_line l r : ~ In c_nl l -> getline (st (l ++ c_nl :: r)) = (st r, Some l).
Proof. intros H. unfold getline, st, sentry; simpl. rewrite take_line_app; auto. Qed.

Definition nows (t : list byte) : Prop := Forall (fun c => isspace c = false) t.
Definition tokp (t : list byte) : Prop := t <> [] /\ nows t.

Lemma isspace_trim c : isspace c = false -> is_trim c = false.
Proof. unfold isspace, is_trim. lia. Qed.

Lemma drop_trim_tok t r : tokp t -> drop_trim (t ++ r) = t ++ r.
Proof.
  intros [Hne Hw]. destruct t as [|c t]; [congruence|]. inversion Hw; subst. simpl. rewrite (isspace_trim _ H1). reflexivity.
Qed.

(* a clean line: what getCleanLine hands back unchanged *)
Definition clean (l : list byte) : Prop :=
  ~ In c_nl l /\ (exists c t, l = c :: t /\ is_trim c = false /\ c <> 35) /\ (exists t c, l = t ++ [c] /\ is_trim c = false).

Lemma trim_clean l : clean l -> trim l = l.
Proof.
  intros (_ & (c & t & E & Tc & _) & (t2 & c2 & E2 & Tc2)). unfold trim.
  assert (D1 : drop_trim l = l) by (rewrite E; simpl; rewrite Tc; reflexivity). rewrite D1.
  rewrite (rev_append_rev l), app_nil_r.
  assert (D2 : drop_trim (rev l) = rev l) by (rewrite E2, rev_app_distr; simpl; rewrite Tc2; reflexivity).
  rewrite D2. rewrite rev_append_rev, app_nil_r. apply rev_involutive.
Qed.

Lemma gcl_clean fuel l r line0 : clean l -> get_clean_line (S fuel) (st (l ++ c_nl :: r)) line0 = Some (st r, l, true).
Proof.
  intros C. pose proof (trim_clean l C) as T. destruct C as (Nn & (c & t & E & Tc & Nh) & _).
  cbn [get_clean_line]. rewrite getline_line; auto. rewrite T. rewrite E.
  assert (X : (c =? 35) = false) by lia. rewrite X. reflexivity.
Qed.

(* tokens joined by single blanks *)
Fixpoint tail_sp (ts : list (list byte)) : list byte :=
  match ts with [] => [] | t :: r => 32 :: t ++ tail_sp r end.

Lemma join_sp_tail t ts : join_sp (t :: ts) = t ++ tail_sp ts.
Proof.
  revert t. induction ts as [|t2 ts IH]; intros t; simpl.
  - rewrite app_nil_r. reflexivity.
  - f_equal. unfold sp. simpl. f_equal. apply IH.
Qed.

Lemma nows_not_nl t : nows t -> ~ In c_nl t.
Proof. intros H X. unfold nows in H. rewrite Forall_forall in H. specialize (H _ X). discriminate H. Qed.

Lemma tail_sp_no_nl ts : Forall tokp ts -> ~ In c_nl (tail_sp ts).
Proof.
  induction 1; simpl; [tauto|]. intros [X|X]; [discriminate X|]. apply in_app_or in X. destruct X as [X|X]; [|tauto].
  destruct H as [_ Hw]. eapply nows_not_nl; eauto.
Qed.

Lemma tok_last t : tokp t -> exists t' c, t = t' ++ [c] /\ isspace c = false.
Proof.
  intros [Hne Hw]. destruct (exists_last Hne) as (t' & c & E). exists t', c. split; auto.
  unfold nows in Hw. rewrite Forall_forall in Hw. apply Hw. rewrite E. apply in_or_app. right; left; reflexivity.
Qed.

Lemma tail_sp_last ts : Forall tokp ts -> ts <> [] -> exists t' c, tail_sp ts = t' ++ [c] /\ isspace c = false.
Proof.
  induction 1; intros Hne; [congruence|]. simpl. destruct l as [|t2 l].
  - simpl. destruct (tok_last _ H) as (t' & c & E & Hc). exists (32 :: t'), c. rewrite E, app_nil_r. split; auto.
  - destruct (IHForall ltac:(discriminate)) as (t' & c & E & Hc). exists (32 :: x ++ t'), c. rewrite E. rewrite app_assoc. split; auto.
Qed.

Lemma clean_join t ts : tokp t -> Forall tokp ts -> hd 0 t <> 35 -> clean (join_sp (t :: ts)).
Proof.
  intros Ht Hts Hh. rewrite join_sp_tail. split; [|split].
  - intros X. apply in_app_or in X. destruct X as [X|X]; [eapply nows_not_nl; [apply Ht|exact X] | eapply tail_sp_no_nl; eauto].
  - destruct Ht as [Hne Hw]. destruct t as [|c t']; [congruence|]. inversion Hw; subst.
    exists c, (t' ++ tail_sp ts). split; [reflexivity|]. split; [apply isspace_trim; auto | exact Hh].
  - destruct ts as [|t2 ts'].
    + simpl. rewrite app_nil_r. destruct (tok_last _ Ht) as (t' & c & E & Hc). exists t', c. split; auto. apply isspace_trim; auto.
    + destruct (tail_sp_last (t2 :: ts') Hts ltac:(discriminate)) as (t' & c & E & Hc). exists (t ++ t'), c. rewrite E, app_assoc. split; auto. apply isspace_trim; auto.
Qed.

(* printed numbers are tokens *)
Lemma digits_nows ds : all_digits ds -> nows ds.
Proof. unfold all_digits, nows. apply Forall_impl. intros c H. unfold isspace. lia. Qed.

Lemma zn_tok n : tokp (zn n) /\ hd 0 (zn n) <> 35 /\ all_digits (zn n).
Proof.
  unfold zn, print_Z. assert (L : (Z.of_nat n <? 0) = false) by lia. rewrite L.
  destruct (print_nat_Z_spec (Z.of_nat n) ltac:(lia)) as (A & B & C & D).
  split; [split; [exact C | apply digits_nows; exact A]|]. split; auto.
  destruct (print_nat_Z (Z.of_nat n)) as [|c t]; [congruence|]. inversion A; subst. simpl. lia.
Qed.

(* ------------------------------------------------------------------ reading printed numbers back from a line *)

Definition endsp (r : list byte) : Prop := r = [] \/ exists r', r = 32 :: r'.

Lemma endsp_nondigit r : endsp r -> r = [] \/ exists c r', r = c :: r' /\ is_digit c = false.
Proof. intros [->|(r' & ->)]; [left; reflexivity | right; exists 32, r'; split; reflexivity]. Qed.

Lemma skipws_tok t r : tokp t -> skipws (t ++ r) = t ++ r.
Proof. intros [Hne Hw]. destruct t as [|c t]; [congruence|]. inversion Hw; subst. simpl. rewrite H1. reflexivity. Qed.

Lemma tok_app_nonnil t r : tokp t -> exists c l, t ++ r = c :: l.
Proof. intros [Hne _]. destruct t as [|c t]; [congruence|]. exists c, (t ++ r). reflexivity. Qed.

Lemma print_Z_tok n : 0 <= n -> tokp (print_Z n).
Proof.
  intros Hn. unfold print_Z. assert (L : (n <? 0) = false) by lia. rewrite L.
  destruct (print_nat_Z_spec n Hn) as (A & B & C & D). split; [exact C | apply digits_nows; exact A].
Qed.

Definition uty (t : numty) (w : Z) : Prop := (t = NU32 /\ w = 32) \/ (t = NU64 /\ w = 64).

Lemma parse_num_uty t w l : uty t w -> parse_num t l = extract_int w false l.
Proof. intros [[-> ->]|[-> ->]]; reflexivity. Qed.

Lemma get_num_print t w n r (lead : bool) : uty t w -> 0 <= n < pow2 w -> endsp r ->
  get_num t (st ((if lead then [32] else []) ++ print_Z n ++ r)) = (mk r (is_nil r) false, Some n).
Proof.
  intros Ht Hn Hr. pose proof (print_Z_tok n ltac:(lia)) as Tk.
  assert (Hw : 0 < w) by (destruct Ht as [[_ ->]|[_ ->]]; lia).
  unfold get_num, sentry, st. cbn [good mk eofb failb negb andb rest].
  assert (S : skipws ((if lead then [32] else []) ++ print_Z n ++ r) = print_Z n ++ r).
  { destruct lead; cbn [app]; [cbn [skipws]; replace (isspace 32) with true by reflexivity|]; apply skipws_tok; auto. }
  rewrite S. destruct (tok_app_nonnil (print_Z n) r Tk) as (c & l & E). rewrite E. rewrite <- E.
  cbn [rest mk]. rewrite (parse_num_uty t w _ Ht). rewrite extract_int_print; auto. apply endsp_nondigit; auto.
Qed.

Lemma get_num_print_sp t w n r : uty t w -> 0 <= n < pow2 w -> endsp r ->
  get_num t (st (32 :: print_Z n ++ r)) = (mk r (is_nil r) false, Some n).
Proof. intros. exact (get_num_print t w n r true H H0 H1). Qed.
Lemma get_num_print_0 t w n r : uty t w -> 0 <= n < pow2 w -> endsp r ->
  get_num t (st (print_Z n ++ r)) = (mk r (is_nil r) false, Some n).
Proof. intros. exact (get_num_print t w n r false H H0 H1). Qed.

Lemma valz_some v d : valz (Some v) d = v. Proof. reflexivity. Qed.

Lemma tail_sp_endsp ts : endsp (tail_sp ts).
Proof. destruct ts; [left; reflexivity | right; eexists; reflexivity]. Qed.

Lemma zn_print h : zn h = print_Z (Z.of_nat h).
Proof. reflexivity. Qed.

(* "h1 h2 ... hk" after the valence: handle_loop reads exactly the k handles *)
Lemma handle_loop_print limit : forall (l : list nat),
  Forall (fun h => Z.of_nat h < limit) l -> limit <= 2147483648 ->
  handle_loop (length l) limit (mk (tail_sp (map zn l)) (is_nil (tail_sp (map zn l))) false) = inl (Some l).
Proof.
  induction l as [|h l IH]; intros Hb Hl; [reflexivity|].
  inversion Hb; subst. cbn [length handle_loop map tail_sp is_nil].
  change (mk (32 :: zn h ++ tail_sp (map zn l)) false false) with (st (32 :: print_Z (Z.of_nat h) ++ tail_sp (map zn l))).
  rewrite (get_num_print_sp NU32 32 (Z.of_nat h) (tail_sp (map zn l))); [|left; split; reflexivity|unfold pow2; lia|apply tail_sp_endsp].
  rewrite valz_some.
  assert (C1 : (Z.of_nat h >=? limit) = false) by lia. rewrite C1.
  assert (C2 : (Z.of_nat h >? int_max_z) = false) by (unfold int_max_z; lia). rewrite C2.
  rewrite IH; auto. rewrite Nat2Z.id. reflexivity.
Qed.

(* ------------------------------------------------------------------ words and keywords *)

Lemma take_word_tok t : forall r, nows t -> endsp r -> take_word (t ++ r) = (t, r).
Proof.
  induction t as [|c t IH]; intros r Hw Hr.
  - simpl. destruct Hr as [->|(r' & ->)]; reflexivity.
  - inversion Hw; subst. simpl. rewrite H1. rewrite IH; auto.
Qed.

Lemma get_word_tok_0 t r : tokp t -> endsp r -> get_word (st (t ++ r)) = (mk r (is_nil r) false, Some t).
Proof.
  intros Tk Hr. unfold get_word, sentry, st. cbn [good mk eofb failb negb andb rest].
  rewrite skipws_tok; auto. destruct (tok_app_nonnil t r Tk) as (c & l & E). rewrite E, <- E. cbn [rest mk].
  rewrite take_word_tok; auto; [|apply Tk]. destruct Tk as [Hne _]. destruct t; [congruence|reflexivity].
Qed.

Lemma get_word_tok_sp t r : tokp t -> endsp r -> get_word (st (32 :: t ++ r)) = (mk r (is_nil r) false, Some t).
Proof.
  intros Tk Hr. unfold get_word, sentry, st. cbn [good mk eofb failb negb andb rest skipws].
  replace (isspace 32) with true by reflexivity.
  rewrite skipws_tok; auto. destruct (tok_app_nonnil t r Tk) as (c & l & E). rewrite E, <- E. cbn [rest mk].
  rewrite take_word_tok; auto; [|apply Tk]. destruct Tk as [Hne _]. destruct t; [congruence|reflexivity].
Qed.

Ltac tok_closed := split; [discriminate | repeat constructor].

Lemma kw_tok (kw : string) : forallb (fun c => negb (isspace c)) (bs kw) = true -> bs kw <> [] -> tokp (bs kw).
Proof.
  intros H Hne. split; auto. unfold nows. rewrite forallb_forall in H. rewrite Forall_forall. intros c Hc.
  specialize (H c Hc). destruct (isspace c); [discriminate|reflexivity].
Qed.

(* ------------------------------------------------------------------ floating point: what is assumed of print_d / conv_d *)

Section RoundTrip.
  Variable conv_d : list byte -> Z * bool.
  Variable conv_f : list byte -> Z * bool.
  Variable print_d : Z -> list byte.
  Variable print_f : Z -> list byte.
  (* the values for which the number printer produces a numeral (finite values) *)
  Variable okf : Z -> Prop.

  (* the printed numeral is one token, and the scanner of num_get accepts exactly it *)
  Hypothesis print_tok : forall b, okf b -> tokp (print_d b) /\ hd 0 (print_d b) <> 35.
  Hypothesis print_scan : forall b r, okf b -> endsp r -> float_scan (print_d b ++ r) = (print_d b, r).
  (* converting it does not set failbit *)
  Hypothesis print_conv : forall b, okf b -> snd (conv_d (print_d b)) = false.

  Definition reparse (b : Z) : Z := fst (conv_d (print_d b)).

  Lemma get_float_print_0 b r : okf b -> endsp r ->
    get_float conv_d (st (print_d b ++ r)) = (mk r (is_nil r) false, Some (reparse b)).
  Proof.
    intros Hb Hr. destruct (print_tok b Hb) as [Tk _].
    unfold get_float, parse_float, sentry, st. cbn [good mk eofb failb negb andb rest].
    rewrite skipws_tok; auto. destruct (tok_app_nonnil (print_d b) r Tk) as (c & l & E). rewrite E, <- E. cbn [rest mk].
    rewrite print_scan; auto. unfold reparse. pose proof (print_conv b Hb) as F. destruct (conv_d (print_d b)) as [v f]. simpl in *. subst f. reflexivity.
  Qed.

  Lemma get_float_print_sp b r : okf b -> endsp r ->
    get_float conv_d (st (32 :: print_d b ++ r)) = (mk r (is_nil r) false, Some (reparse b)).
  Proof.
    intros Hb Hr. destruct (print_tok b Hb) as [Tk _].
    unfold get_float, parse_float, sentry, st. cbn [good mk eofb failb negb andb rest skipws].
    replace (isspace 32) with true by reflexivity.
    rewrite skipws_tok; auto. destruct (tok_app_nonnil (print_d b) r Tk) as (c & l & E). rewrite E, <- E. cbn [rest mk].
    rewrite print_scan; auto. unfold reparse. pose proof (print_conv b Hb) as F. destruct (conv_d (print_d b)) as [v f]. simpl in *. subst f. reflexivity.
  Qed.

  (* ------------------------------------------------------------------ one line at a time *)

  Lemma gcl_at d l R : clean l -> d_is d = st (l ++ c_nl :: R) -> gcl d = Go (with_line d (st R) l).
  Proof. intros C H. unfold gcl. rewrite H. unfold gcl_fuel. rewrite gcl_clean; auto. Qed.

  Lemma clean_tok t : tokp t -> hd 0 t <> 35 -> clean t.
  Proof. intros Tk Hh. pose proof (clean_join t [] Tk (Forall_nil _) Hh) as C. simpl in C. exact C. Qed.

  Lemma read_count_at d n R : Z.of_nat n < pow2 64 -> d_is d = st (zn n ++ c_nl :: R) ->
    read_count d = Go (with_line d (st R) (zn n), Z.of_nat n).
  Proof.
    intros Hn H. destruct (zn_tok n) as (Tk & Hh & _). unfold read_count. rewrite (gcl_at d (zn n) R); auto using clean_tok.
    cbn [bind with_line d_line]. unfold sstr_of, of_bytes. fold (st (zn n)).
    rewrite <- (app_nil_r (zn n)) at 1. rewrite zn_print.
    rewrite (get_num_print_0 NU64 64); [reflexivity | right; split; reflexivity | lia | left; reflexivity].
  Qed.

  (* a section keyword line as the writer prints it: `kw` is the printed keyword, `KW` its upper-case form *)
  Lemma section_header_at (kw KW : string) d R :
    tokp (bs kw) -> hd 0 (bs kw) <> 35 -> upper (bs kw) = bs KW -> d_is d = st (bs kw ++ c_nl :: R) ->
    section_header KW d = Go (with_stmp (with_line d (st R) (bs kw)) (bs KW)).
  Proof.
    intros Tk Hh Hu H. unfold section_header. rewrite (gcl_at d (bs kw) R); auto using clean_tok.
    cbn [bind with_line d_line]. unfold read_keyword, sstr_of, of_bytes. fold (st (bs kw)).
    rewrite <- (app_nil_r (bs kw)) at 1. rewrite get_word_tok_0; [|auto|left; reflexivity].
    rewrite Hu. cbn [with_stmp d_stmp]. assert (E : bytes_eqb (bs KW) (bs KW) = true).
    { clear. induction (bs KW); simpl; auto. rewrite Z.eqb_refl. exact IHl. }
    rewrite E. reflexivity.
  Qed.

  (* ------------------------------------------------------------------ the four entity loops on the writer's lines *)

  Definition vline (p : Z * Z * Z) : list byte :=
    let '(x, y, z) := p in print_d x ++ sp ++ print_d y ++ sp ++ print_d z ++ nl.
  Definition okp (p : Z * Z * Z) : Prop := let '(x, y, z) := p in okf x /\ okf y /\ okf z.
  Definition rp3 (p : Z * Z * Z) : aval := let '(x, y, z) := p in VList [VFlt (reparse x); VFlt (reparse y); VFlt (reparse z)].

  Lemma vertex_loop_print : forall ps d R, Forall okp ps -> d_is d = st (concat (map vline ps) ++ R) ->
    exists d', vertex_loop conv_d (length ps) d = Go d' /\ d_is d' = st R /\
      nv (d_m d') = (nv (d_m d) + length ps)%nat /\ edges (d_m d') = edges (d_m d) /\ faces (d_m d') = faces (d_m d) /\ cells (d_m d') = cells (d_m d) /\
      d_pos d' = rev (map rp3 ps) ++ d_pos d /\ d_stmp d' = d_stmp d.
  Proof.
    induction ps as [|[[x y] z] ps IH]; intros d R Hok H.
    - exists d. simpl in *. repeat split; auto; try lia.
    - inversion Hok as [|? ? Hp Hok']; subst. unfold okp in Hp. destruct Hp as (Hx & Hy & Hz).
      destruct (print_tok x Hx) as [Tx Hhx]. destruct (print_tok y Hy) as [Ty _]. destruct (print_tok z Hz) as [Tz _].
      cbn [length vertex_loop map concat] in *.
      set (l := join_sp [print_d x; print_d y; print_d z]).
      assert (Cl : clean l) by (apply clean_join; auto).
      assert (El : vline (x, y, z) ++ concat (map vline ps) ++ R = l ++ c_nl :: concat (map vline ps) ++ R).
      { unfold vline, l, join_sp, sp, nl, c_nl. repeat (first [rewrite <- app_assoc | progress cbn [app]]). reflexivity. }
      rewrite <- app_assoc in H. rewrite El in H.
      rewrite (gcl_at d l _ Cl H). cbn [bind with_line d_line d_v d_m d_is d_stmp d_pos].
      unfold sstr_of, of_bytes. fold (st l).
      assert (L1 : l = print_d x ++ 32 :: print_d y ++ 32 :: print_d z ++ []).
      { unfold l, sp. simpl. rewrite app_nil_r. reflexivity. }
      rewrite L1.
      rewrite get_float_print_0; [|auto|right; eexists; reflexivity]. cbn [is_nil]. fold (st (32 :: print_d y ++ 32 :: print_d z ++ [])).
      rewrite get_float_print_sp; [|auto|right; eexists; reflexivity]. cbn [is_nil]. fold (st (32 :: print_d z ++ [])).
      rewrite get_float_print_sp; [|auto|left; reflexivity].
      destruct (d_v d) as [[vx vy] vz]. cbn [valz fst snd].
      pose proof (add_vertex_topo (d_m d)) as T. destruct (add_vertex (d_m d)) as [m1 vh]. destruct T as (T1 & T2 & T3 & T4).
      match goal with |- exists d', vertex_loop _ _ ?d2 = _ /\ _ => destruct (IH d2 R Hok' eq_refl) as (d' & E & A1 & A2 & A3 & A4 & A5 & A6 & A7) end.
      exists d'. split; [exact E|]. cbn [d_m d_pos d_stmp] in *. rewrite A2, A3, A4, A5, A6, A7, T1, T2, T3, T4.
      repeat split; auto; try lia. cbn [map rev rp3]. rewrite <- app_assoc. reflexivity.
  Qed.

  Definition eline (e : nat * nat) : list byte := zn (fst e) ++ sp ++ zn (snd e) ++ nl.

  Lemma edge_loop_print nvd : forall es d R,
    Forall (fun e => Z.of_nat (fst e) < nvd /\ Z.of_nat (snd e) < nvd) es -> nvd <= 2147483648 ->
    d_is d = st (concat (map eline es) ++ R) ->
    exists d', edge_loop (length es) nvd d = Go d' /\ d_is d' = st R /\
      nv (d_m d') = nv (d_m d) /\ edges (d_m d') = edges (d_m d) ++ es /\ faces (d_m d') = faces (d_m d) /\ cells (d_m d') = cells (d_m d) /\
      d_pos d' = d_pos d /\ d_stmp d' = d_stmp d.
  Proof.
    induction es as [|[a b] es IH]; intros d R Hb Hn H.
    - exists d. simpl in *. rewrite app_nil_r. repeat split; auto.
    - inversion Hb as [|? ? Hp Hb']; subst. cbn [fst snd] in Hp. destruct Hp as [Ha Hbb].
      destruct (zn_tok a) as (Ta & Hha & _). destruct (zn_tok b) as (Tb & _ & _).
      cbn [length edge_loop map concat] in *.
      set (l := join_sp [zn a; zn b]).
      assert (Cl : clean l) by (apply clean_join; auto).
      assert (El : eline (a, b) ++ concat (map eline es) ++ R = l ++ c_nl :: concat (map eline es) ++ R).
      { unfold eline, l, join_sp, sp, nl, c_nl. cbn [fst snd]. repeat (first [rewrite <- app_assoc | progress cbn [app]]). reflexivity. }
      rewrite <- app_assoc in H. rewrite El in H.
      rewrite (gcl_at d l _ Cl H). cbn [bind with_line d_line d_v d_m d_is d_stmp d_pos].
      unfold sstr_of, of_bytes. fold (st l).
      assert (L1 : l = print_Z (Z.of_nat a) ++ 32 :: print_Z (Z.of_nat b) ++ []).
      { unfold l, sp. simpl. rewrite app_nil_r. reflexivity. }
      rewrite L1.
      rewrite (get_num_print_0 NU32 32); [|left; split; reflexivity|unfold pow2; lia|right; eexists; reflexivity].
      cbn [is_nil]. fold (st (32 :: print_Z (Z.of_nat b) ++ [])).
      rewrite (get_num_print_sp NU32 32); [|left; split; reflexivity|unfold pow2; lia|left; reflexivity].
      rewrite !valz_some.
      assert (C1 : (Z.of_nat a >=? nvd) || (Z.of_nat b >=? nvd) = false) by lia. rewrite C1.
      assert (C2 : (Z.of_nat a >? int_max_z) || (Z.of_nat b >? int_max_z) = false) by (unfold int_max_z; lia). rewrite C2.
      rewrite !Nat2Z.id.
      pose proof (add_edge_dup_topo (d_m d) a b) as T. destruct (add_edge (d_m d) a b true) as [m1 eh]. destruct T as (T1 & T2 & T3 & T4).
      match goal with |- exists d', edge_loop _ _ ?d2 = _ /\ _ => destruct (IH d2 R Hb' Hn eq_refl) as (d' & E & A1 & A2 & A3 & A4 & A5 & A6 & A7) end.
      exists d'. split; [exact E|]. cbn [d_m d_pos d_stmp with_mesh] in *. rewrite A2, A3, A4, A5, A6, A7, T1, T2, T3, T4.
      repeat split; auto. rewrite <- app_assoc. reflexivity.
  Qed.

  Lemma entity_line_shape l : l <> [] -> entity_line l = join_sp (zn (length l) :: map zn l) ++ nl.
  Proof.
    intros Hne. destruct l as [|h t]; [congruence|]. unfold entity_line, nat_line. cbn [map join_sp].
    repeat (first [rewrite <- app_assoc | progress cbn [app]]). reflexivity.
  Qed.

  Lemma read_handles_print o isf limit d (l : list nat) :
    d_line d = join_sp (zn (length l) :: map zn l) -> l <> [] ->
    Forall (fun h => Z.of_nat h < limit) l -> limit <= 2147483648 ->
    Z.of_nat (length l) * 4 <= o_alloc o -> Z.of_nat (length l) < 4294967296 ->
    read_handles o isf limit d = Go l.
  Proof.
    intros Hl Hne Hb Hlim Ha Hk. unfold read_handles. rewrite Hl, join_sp_tail. unfold sstr_of, of_bytes.
    fold (st (zn (length l) ++ tail_sp (map zn l))). rewrite zn_print.
    rewrite (get_num_print_0 NU64 64); [|right; split; reflexivity|unfold pow2; lia|apply tail_sp_endsp].
    rewrite valz_some.
    assert (K1 : 0 < Z.of_nat (length l)) by (destruct l; [congruence|simpl; lia]).
    assert (Z0 : (Z.of_nat (length l) =? 0) = false) by lia. rewrite Z0, andb_false_r.
    unfold alloc. assert (P1 : (Z.of_nat (length l) >? ptrdiff_max / 4) = false).
    { change (ptrdiff_max / 4) with 2305843009213693951. lia. }
    rewrite P1. assert (P2 : (Z.of_nat (length l) * 4 >? o_alloc o) = false) by lia. rewrite P2. cbn [bind].
    assert (P3 : (Z.of_nat (length l) <? two32) = true) by (unfold two32; lia). rewrite P3.
    rewrite Nat2Z.id. rewrite handle_loop_print; auto.
  Qed.

  Lemma add_face_nocheck m hes : exists m1 f, add_face m hes false = (m1, Some f).
  Proof. unfold add_face. cbn [andb]. destruct (append_face m hes) as [m1 f]. eauto. Qed.
  Lemma add_cell_nocheck m hfs : exists m1 c, add_cell m hfs false = (m1, Some c).
  Proof. unfold add_cell. cbn [andb]. destruct (append_cell m hfs) as [m1 c]. eauto. Qed.

  Definition ent_ok (o : opts) (limit : Z) (l : list nat) : Prop :=
    l <> [] /\ Forall (fun h => Z.of_nat h < limit) l /\ Z.of_nat (length l) * 4 <= o_alloc o /\ Z.of_nat (length l) < 4294967296.

  Lemma face_loop_print o nhe : o_mesh o = MPoly -> o_check o = false -> nhe <= 2147483648 -> forall fs d R,
    Forall (ent_ok o nhe) fs -> d_is d = st (concat (map entity_line fs) ++ R) ->
    exists d', face_loop (length fs) o nhe d = Go d' /\ d_is d' = st R /\
      nv (d_m d') = nv (d_m d) /\ edges (d_m d') = edges (d_m d) /\ faces (d_m d') = faces (d_m d) ++ fs /\ cells (d_m d') = cells (d_m d) /\
      d_pos d' = d_pos d /\ d_stmp d' = d_stmp d.
  Proof.
    intros Hm Hc Hn. induction fs as [|f fs IH]; intros d R Hb H.
    - exists d. simpl in *. rewrite app_nil_r. repeat split; auto.
    - inversion Hb as [|? ? Hp Hb']; subst. destruct Hp as (Hne & Hbd & Hal & Hk).
      cbn [length face_loop map concat] in *.
      set (l := join_sp (zn (length f) :: map zn f)).
      assert (Cl : clean l).
      { destruct (zn_tok (length f)) as (Tk & Hh & _). apply clean_join; auto.
        clear. induction f; simpl; constructor; auto. apply zn_tok. }
      rewrite (entity_line_shape f Hne) in H. fold l in H.
      assert (El : (l ++ nl) ++ concat (map entity_line fs) ++ R = l ++ c_nl :: concat (map entity_line fs) ++ R).
      { unfold nl, c_nl. rewrite <- app_assoc. reflexivity. }
      rewrite <- app_assoc in H. rewrite El in H.
      rewrite (gcl_at d l _ Cl H). cbn [bind].
      rewrite (read_handles_print o true nhe _ f); auto. cbn [bind with_line d_m].
      unfold m_add_face. rewrite Hm, Hc. destruct (add_face_nocheck (d_m d) f) as (m1 & fh & E). rewrite E.
      apply add_face_some_topo in E. destruct E as (T1 & T2 & T3 & T4).
      match goal with |- exists d', face_loop _ _ _ ?d2 = _ /\ _ => destruct (IH d2 R Hb' eq_refl) as (d' & E & A1 & A2 & A3 & A4 & A5 & A6 & A7) end.
      exists d'. split; [exact E|]. cbn [d_m d_pos d_stmp with_mesh with_line] in *. rewrite A2, A3, A4, A5, A6, A7, T1, T2, T3, T4.
      repeat split; auto. rewrite <- app_assoc. reflexivity.
  Qed.

  Lemma cell_loop_print o nhf : o_mesh o = MPoly -> o_check o = false -> nhf <= 2147483648 -> forall cs d R,
    Forall (ent_ok o nhf) cs -> d_is d = st (concat (map entity_line cs) ++ R) ->
    exists d', cell_loop (length cs) o nhf d = Go d' /\ d_is d' = st R /\
      nv (d_m d') = nv (d_m d) /\ edges (d_m d') = edges (d_m d) /\ faces (d_m d') = faces (d_m d) /\ cells (d_m d') = cells (d_m d) ++ cs /\
      d_pos d' = d_pos d /\ d_stmp d' = d_stmp d.
  Proof.
    intros Hm Hc Hn. induction cs as [|c cs IH]; intros d R Hb H.
    - exists d. simpl in *. rewrite app_nil_r. repeat split; auto.
    - inversion Hb as [|? ? Hp Hb']; subst. destruct Hp as (Hne & Hbd & Hal & Hk).
      cbn [length cell_loop map concat] in *.
      set (l := join_sp (zn (length c) :: map zn c)).
      assert (Cl : clean l).
      { destruct (zn_tok (length c)) as (Tk & Hh & _). apply clean_join; auto.
        clear. induction c; simpl; constructor; auto. apply zn_tok. }
      rewrite (entity_line_shape c Hne) in H. fold l in H.
      assert (El : (l ++ nl) ++ concat (map entity_line cs) ++ R = l ++ c_nl :: concat (map entity_line cs) ++ R).
      { unfold nl, c_nl. rewrite <- app_assoc. reflexivity. }
      rewrite <- app_assoc in H. rewrite El in H.
      rewrite (gcl_at d l _ Cl H). cbn [bind].
      rewrite (read_handles_print o false nhf _ c); auto. cbn [bind with_line d_m].
      unfold m_add_cell. rewrite Hm, Hc. destruct (add_cell_nocheck (d_m d) c) as (m1 & ch & E). rewrite E.
      apply add_cell_some_topo in E. destruct E as (T1 & T2 & T3 & T4).
      match goal with |- exists d', cell_loop _ _ _ ?d2 = _ /\ _ => destruct (IH d2 R Hb' eq_refl) as (d' & E & A1 & A2 & A3 & A4 & A5 & A6 & A7) end.
      exists d'. split; [exact E|]. cbn [d_m d_pos d_stmp with_mesh with_line] in *. rewrite A2, A3, A4, A5, A6, A7, T1, T2, T3, T4.
      repeat split; auto. rewrite <- app_assoc. reflexivity.
  Qed.

  (* ------------------------------------------------------------------ the writer's text, section by section *)

  Lemma map_nth_seq {A B} (f : A -> B) (d : A) (l : list A) : map (fun i => f (nth i l d)) (seq 0 (length l)) = map f l.
  Proof.
    induction l as [|x l IH] using rev_ind; [reflexivity|].
    rewrite app_length. simpl. rewrite Nat.add_1_r, seq_S, !map_app. simpl. f_equal.
    - rewrite <- IH. apply map_ext_in. intros i Hi. apply in_seq in Hi. rewrite app_nth1 by lia. reflexivity.
    - rewrite app_nth2 by lia. rewrite Nat.sub_diag. reflexivity.
  Qed.

  (* the meshes the partial round-trip theorem speaks about *)
  Record wfw (o : opts) (w : wmesh) : Prop := {
    wf_poly : o_mesh o = MPoly;
    wf_nocheck : o_check o = false;
    wf_live_v : live_vertices (w_mesh w) = seq 0 (nv (w_mesh w));          (* no pending deletions *)
    wf_live_e : live_edges (w_mesh w) = seq 0 (ne (w_mesh w));
    wf_live_f : live_faces (w_mesh w) = seq 0 (nf (w_mesh w));
    wf_live_c : live_cells (w_mesh w) = seq 0 (nc (w_mesh w));
    wf_pos_len : length (w_pos w) = nv (w_mesh w);
    wf_pos_ok : Forall okp (w_pos w);                                       (* finite coordinates *)
    wf_noprops : w_props w = [];                                            (* partial: topology and positions *)
    wf_nv : Z.of_nat (nv (w_mesh w)) <= 2147483648 /\ Z.of_nat (nv (w_mesh w)) * 24 <= o_alloc o;
    wf_ne : Z.of_nat (2 * ne (w_mesh w)) <= 2147483648 /\ Z.of_nat (ne (w_mesh w)) * 8 <= o_alloc o;
    wf_nf : Z.of_nat (2 * nf (w_mesh w)) <= 2147483648 /\ Z.of_nat (nf (w_mesh w)) * 24 <= o_alloc o;
    wf_nc : Z.of_nat (nc (w_mesh w)) <= 2147483648 /\ Z.of_nat (nc (w_mesh w)) * 24 <= o_alloc o;
    wf_edges : Forall (fun e => Z.of_nat (fst e) < Z.of_nat (nv (w_mesh w)) /\ Z.of_nat (snd e) < Z.of_nat (nv (w_mesh w))) (edges (w_mesh w));
    wf_faces : Forall (ent_ok o (Z.of_nat (2 * ne (w_mesh w)))) (faces (w_mesh w));   (* valence >= 1, handles in range *)
    wf_cells : Forall (ent_ok o (Z.of_nat (2 * nf (w_mesh w)))) (cells (w_mesh w))
  }.

  Definition text_cells (m : mesh) : list byte :=
    bs "Polyhedra" ++ c_nl :: zn (nc m) ++ c_nl :: concat (map entity_line (cells m)) ++ [].
  Definition text_faces (m : mesh) : list byte :=
    bs "Faces" ++ c_nl :: zn (nf m) ++ c_nl :: concat (map entity_line (faces m)) ++ text_cells m.
  Definition text_edges (m : mesh) : list byte :=
    bs "Edges" ++ c_nl :: zn (ne m) ++ c_nl :: concat (map eline (edges m)) ++ text_faces m.
  Definition text_vertices (w : wmesh) : list byte :=
    bs "Vertices" ++ c_nl :: zn (nv (w_mesh w)) ++ c_nl :: concat (map vline (w_pos w)) ++ text_edges (w_mesh w).

  Lemma write_ascii_shape o w : wfw o w ->
    write_ascii print_d print_f w = join_sp [bs "OVM"; bs "ASCII"] ++ c_nl :: text_vertices w.
  Proof.
    intros W. unfold write_ascii. rewrite (wf_live_v o w W), (wf_live_e o w W), (wf_live_f o w W), (wf_live_c o w W), (wf_noprops o w W).
    assert (EV : map (fun v => let '(x, y, z) := pos_at w v in print_d x ++ sp ++ print_d y ++ sp ++ print_d z ++ nl) (seq 0 (nv (w_mesh w)))
                 = map vline (w_pos w)).
    { rewrite <- (wf_pos_len o w W). unfold pos_at. exact (map_nth_seq vline (0, 0, 0) (w_pos w)). }
    rewrite EV.
    assert (EE : map (fun e => let '(a, b) := edge_at (w_mesh w) e in zn a ++ sp ++ zn b ++ nl) (seq 0 (ne (w_mesh w))) = map eline (edges (w_mesh w))).
    { unfold ne, edge_at. rewrite <- (map_nth_seq eline (0%nat, 0%nat) (edges (w_mesh w))). apply map_ext. intros i.
      destruct (nth i (edges (w_mesh w)) (0%nat, 0%nat)); reflexivity. }
    rewrite EE.
    assert (EF : map (fun f => entity_line (face_at (w_mesh w) f)) (seq 0 (nf (w_mesh w))) = map entity_line (faces (w_mesh w))).
    { unfold nf, face_at. exact (map_nth_seq entity_line [] (faces (w_mesh w))). }
    rewrite EF.
    assert (EC : map (fun c => entity_line (cell_at (w_mesh w) c)) (seq 0 (nc (w_mesh w))) = map entity_line (cells (w_mesh w))).
    { unfold nc, cell_at. exact (map_nth_seq entity_line [] (cells (w_mesh w))). }
    rewrite EC.
    unfold text_vertices, text_edges, text_faces, text_cells, nl, c_nl.
    change (write_props print_d print_f []) with (@nil byte).
    change (bs "OVM ASCII") with (join_sp [bs "OVM"; bs "ASCII"]).
    repeat (first [rewrite <- app_assoc | progress cbn [app]]). reflexivity.
  Qed.

  Lemma read_keyword_tok_0 t r d : tokp t -> endsp r ->
    read_keyword (st (t ++ r)) d = (mk r (is_nil r) false, with_stmp d (upper t)).
  Proof. intros. unfold read_keyword. rewrite get_word_tok_0; auto. Qed.
  Lemma read_keyword_tok_sp t r d : tokp t -> endsp r ->
    read_keyword (st (32 :: t ++ r)) d = (mk r (is_nil r) false, with_stmp d (upper t)).
  Proof. intros. unfold read_keyword. rewrite get_word_tok_sp; auto. Qed.

  Lemma alloc_go_small o n esz : 0 <= n <= 2147483648 -> (esz = 8 \/ esz = 24) -> n * esz <= o_alloc o -> alloc o n esz = Go tt.
  Proof.
    intros Hn He Ha. unfold alloc.
    assert (P1 : (n >? ptrdiff_max / esz) = false).
    { destruct He as [->| ->]; [change (ptrdiff_max / 8) with 1152921504606846975 | change (ptrdiff_max / 24) with 384307168202282325]; lia. }
    rewrite P1. assert (P2 : (n * esz >? o_alloc o) = false) by lia. rewrite P2. reflexivity.
  Qed.

  (* C06 (ASCII), topology and positions: what the writer prints for a mesh without pending deletions, the reader reads
     back handle for handle; coordinates come back as reparse = parse o print *)
  Theorem read_write_topo o w : wfw o w ->
    exists f, read_ascii conv_d conv_f o (write_ascii print_d print_f w) = RTrue f /\
      topo (f_mesh f) = topo (w_mesh w) /\ f_props f = [pos_entry (map rp3 (w_pos w))] /\ f_is f = mk [] true true.
  Proof.
    intros W. rewrite (write_ascii_shape o w W). unfold read_ascii, read_stream.
    set (m0 := enable_fbu false (enable_ebu false (enable_vbu false (clear_mesh false empty_mesh)))).
    assert (T0 : topo m0 = (0%nat, [], [], [])) by reflexivity. apply topo_inv in T0. destruct T0 as (T0a & T0b & T0c & T0d).
    set (m := w_mesh w) in *.
    destruct (wf_nv o w W) as [Nv1 Nv2]. destruct (wf_ne o w W) as [Ne1 Ne2]. destruct (wf_nf o w W) as [Nf1 Nf2]. destruct (wf_nc o w W) as [Nc1 Nc2].
    fold m in Nv1, Nv2, Ne1, Ne2, Nf1, Nf2, Nc1, Nc2.
    (* header *)
    assert (TkO : tokp (bs "OVM")) by tok_closed. assert (TkA : tokp (bs "ASCII")) by tok_closed.
    rewrite (gcl_at _ (join_sp [bs "OVM"; bs "ASCII"]) (text_vertices w)); [|apply clean_join; [exact TkO|constructor; [exact TkA|constructor]|discriminate]|reflexivity].
    cbn [bind with_line d_line]. unfold sstr_of at 1, of_bytes at 1.
    change (mk (join_sp [bs "OVM"; bs "ASCII"]) false false) with (st (bs "OVM" ++ 32 :: bs "ASCII" ++ [])).
    rewrite read_keyword_tok_0; [|auto|right; eexists; reflexivity]. cbn [is_nil].
    fold (st (32 :: bs "ASCII" ++ [])). rewrite read_keyword_tok_sp; [|auto|left; reflexivity].
    cbn [with_stmp d_stmp].
    change (bytes_eqb (upper (bs "ASCII")) (bs "BINARY")) with false. cbn iota.
    change (bytes_eqb (upper (bs "OVM")) (bs "OVM")) with true. cbn iota.
    (* Vertices *)
    assert (TkV : tokp (bs "Vertices")) by tok_closed.
    unfold text_vertices.
    erewrite (gcl_at _ (bs "Vertices")); [|apply clean_tok; [auto|discriminate]|cbn [d_is with_stmp with_line]; reflexivity].
    cbn [bind with_line d_line]. unfold sstr_of at 1, of_bytes at 1.
    change (mk (bs "Vertices") false false) with (st (bs "Vertices" ++ [])).
    rewrite read_keyword_tok_0; [|auto|left; reflexivity].
    cbn [with_stmp d_stmp].
    change (bytes_eqb (upper (bs "Vertices")) (bs "VERTICES")) with true. cbn [negb]. cbn iota.
    erewrite (read_count_at _ (nv m)); [|unfold pow2; lia|cbn [d_is with_stmp with_line]; reflexivity]. cbn [bind].
    rewrite (alloc_go_small o (Z.of_nat (nv m)) 24); [|lia|auto|auto]. cbn [bind].
    rewrite Nat2Z.id. fold m.
    match goal with |- context [vertex_loop conv_d _ ?d] =>
      destruct (vertex_loop_print (w_pos w) d (text_edges m) (wf_pos_ok o w W) eq_refl) as (d7 & E7 & S7 & V7a & V7b & V7c & V7d & V7p & V7s) end.
    rewrite (wf_pos_len o w W) in E7, V7a. fold m in E7, V7a.
    rewrite E7. cbn [bind]. cbn [d_m d_pos with_stmp with_line] in V7a, V7b, V7c, V7d, V7p, V7s.
    (* Edges *)
    assert (TkE : tokp (bs "Edges")) by tok_closed.
    unfold text_edges in S7.
    rewrite (section_header_at "Edges" "EDGES" d7 _ TkE ltac:(discriminate) eq_refl S7). cbn [bind].
    erewrite (read_count_at _ (ne m)); [|unfold pow2; lia|cbn [d_is with_stmp with_line]; reflexivity]. cbn [bind].
    rewrite (alloc_go_small o (Z.of_nat (ne m)) 8); [|lia|auto|auto]. cbn [bind].
    rewrite Nat2Z.id. unfold ne at 1.
    match goal with |- context [edge_loop _ ?nvd ?d] =>
      destruct (edge_loop_print nvd (edges m) d (text_faces m)) as (d10 & E10 & S10 & V10a & V10b & V10c & V10d & V10p & V10s) end.
    { exact (wf_edges o w W). }
    { lia. }
    { reflexivity. }
    rewrite E10. cbn [bind]. cbn [d_m d_pos with_stmp with_line] in V10a, V10b, V10c, V10d, V10p, V10s.
    (* Faces *)
    assert (TkF : tokp (bs "Faces")) by tok_closed.
    unfold text_faces in S10.
    rewrite (section_header_at "Faces" "FACES" d10 _ TkF ltac:(discriminate) eq_refl S10). cbn [bind].
    erewrite (read_count_at _ (nf m)); [|unfold pow2; lia|cbn [d_is with_stmp with_line]; reflexivity]. cbn [bind].
    rewrite (alloc_go_small o (Z.of_nat (nf m)) 24); [|lia|auto|auto]. cbn [bind].
    rewrite Nat2Z.id. unfold nf at 1.
    assert (W2e : wrap64 (2 * Z.of_nat (ne m)) = Z.of_nat (2 * ne m)) by (rewrite wrap64_small; lia).
    rewrite W2e.
    match goal with |- context [face_loop _ o ?nhe ?d] =>
      destruct (face_loop_print o nhe (wf_poly o w W) (wf_nocheck o w W) Ne1 (faces m) d (text_cells m) (wf_faces o w W) eq_refl)
        as (d13 & E13 & S13 & V13a & V13b & V13c & V13d & V13p & V13s) end.
    rewrite E13. cbn [bind]. cbn [d_m d_pos with_stmp with_line] in V13a, V13b, V13c, V13d, V13p, V13s.
    (* Polyhedra *)
    assert (TkC : tokp (bs "Polyhedra")) by tok_closed.
    unfold text_cells in S13.
    rewrite (section_header_at "Polyhedra" "POLYHEDRA" d13 _ TkC ltac:(discriminate) eq_refl S13). cbn [bind].
    erewrite (read_count_at _ (nc m)); [|unfold pow2; lia|cbn [d_is with_stmp with_line]; reflexivity]. cbn [bind].
    rewrite (alloc_go_small o (Z.of_nat (nc m)) 24); [|lia|auto|auto]. cbn [bind].
    rewrite Nat2Z.id. unfold nc at 1.
    assert (W2f : wrap64 (2 * Z.of_nat (nf m)) = Z.of_nat (2 * nf m)) by (rewrite wrap64_small; lia).
    rewrite W2f.
    match goal with |- context [cell_loop _ o ?nhf ?d] =>
      destruct (cell_loop_print o nhf (wf_poly o w W) (wf_nocheck o w W) Nf1 (cells m) d [] (wf_cells o w W) eq_refl)
        as (d16 & E16 & S16 & V16a & V16b & V16c & V16d & V16p & V16s) end.
    rewrite E16. cbn [bind]. cbn [d_m d_pos with_stmp with_line] in V16a, V16b, V16c, V16d, V16p, V16s.
    (* the property loop on the empty rest *)
    rewrite S16. unfold gcl_fuel. cbn [rest st mk length].
    cbn [prop_loop good st mk eofb failb negb andb bind].
    unfold read_property. unfold gcl_fuel. cbn [rest st mk length get_clean_line getline sentry good eofb failb negb andb take_line is_nil trim drop_trim rev_append].
    cbn [bind prop_loop good mk eofb failb negb andb].
    eexists. split; [reflexivity|]. cbn [f_mesh f_props f_is].
    split; [|split; [|reflexivity]].
    - set (mf := d_m d16) in *.
      assert (Tm : topo mf = topo m).
      { unfold topo. rewrite V16a, V16b, V16c, V16d, V13a, V13b, V13c, V13d, V10a, V10b, V10c, V10d, V7a, V7b, V7c, V7d, T0a, T0b, T0c, T0d.
        reflexivity. }
      destruct (o_bu o); [|exact Tm]. rewrite topo_enable_fbu, topo_enable_ebu, topo_enable_vbu. exact Tm.
    - rewrite V16p, V13p, V10p, V7p. rewrite app_nil_r, rev_append_rev, app_nil_r, rev_involutive. reflexivity.
  Qed.
End RoundTrip.

(* ================================================================== a mesh read from a file has no deleted entities *)

Local Open Scope nat_scope.

Definition nodel (m : mesh) : Prop :=
  vdel m = repeat false (nv m) /\ edel m = repeat false (ne m) /\ fdel m = repeat false (nf m) /\ cdel m = repeat false (nc m).
Definition dels (m : mesh) := (vdel m, edel m, fdel m, cdel m).

Lemma repeat_snoc {A} (x : A) n : repeat x n ++ [x] = repeat x (S n).
Proof. rewrite <- repeat_cons. reflexivity. Qed.

Lemma nodel_eq m m' : topo m' = topo m -> dels m' = dels m -> nodel m -> nodel m'.
Proof.
  unfold topo, dels, nodel, ne, nf, nc. intros T D. inversion T as [[T1 T2 T3 T4]]. inversion D as [[D1 D2 D3 D4]].
  rewrite T1, T2, T3, T4, D1, D2, D3, D4. auto.
Qed.

Lemma add_vertex_dels m : let '(m1, _) := add_vertex m in
  vdel m1 = vdel m ++ [false] /\ edel m1 = edel m /\ fdel m1 = fdel m /\ cdel m1 = cdel m.
Proof. unfold add_vertex. rs. destruct (vbu m); rs; repeat split; reflexivity. Qed.

Lemma nodel_add_vertex m : nodel m -> nodel (fst (add_vertex m)).
Proof.
  pose proof (add_vertex_topo m) as T. pose proof (add_vertex_dels m) as D. destruct (add_vertex m) as [m1 v].
  destruct T as (T1 & T2 & T3 & T4). destruct D as (D1 & D2 & D3 & D4). simpl. unfold nodel, ne, nf, nc.
  rewrite T1, T2, T3, T4, D1, D2, D3, D4. intros (A & B & C & E). rewrite A. repeat split; auto. apply repeat_snoc.
Qed.

Lemma nodel_add_edge_dup m a b : nodel m -> nodel (fst (add_edge m a b true)).
Proof.
  unfold add_edge. pose proof (append_edge_effect m a b) as E. destruct (append_edge m a b) as [m1 e]. simpl.
  destruct E as (_ & E2 & E3 & T & _). unfold topo_eq_except_edges in T. destruct T as (T1 & T2 & T3 & T4 & T5 & T6 & _).
  unfold nodel, ne, nf, nc. rewrite T1, E2, T2, T3, T4, E3, T5, T6. intros (A & B & C & D). rewrite B, app_length. simpl.
  repeat split; auto. rewrite Nat.add_1_r. apply repeat_snoc.
Qed.

Lemma nodel_add_face_some m hes chk m1 f : add_face m hes chk = (m1, Some f) -> nodel m -> nodel m1.
Proof.
  unfold add_face. destruct (chk && negb (loop_ok m hes)); [discriminate|].
  pose proof (append_face_effect m hes) as E. destruct (append_face m hes) as [m2 f2].
  intros H; inversion H; subst. destruct E as (_ & E2 & E3 & E4 & E5 & E6 & E7 & E8 & E9 & _).
  unfold nodel, ne, nf, nc. rewrite E2, E3, E4, E5, E6, E7, E8, E9. intros (A & B & C & D). rewrite C, app_length. simpl.
  repeat split; auto. rewrite Nat.add_1_r. apply repeat_snoc.
Qed.

Lemma nodel_add_cell_some m hfs chk m1 c : add_cell m hfs chk = (m1, Some c) -> nodel m -> nodel m1.
Proof.
  unfold add_cell. destruct (chk && negb (cell_check m hfs)); [discriminate|].
  pose proof (append_cell_effect m hfs) as E. destruct (append_cell m hfs) as [m2 c2].
  intros H; inversion H; subst. destruct E as (_ & E2 & E3 & E4 & E5 & E6 & E7 & E8 & E9 & _).
  unfold nodel, ne, nf, nc. rewrite E2, E3, E4, E5, E6, E7, E8, E9. intros (A & B & C & D). rewrite D, app_length. simpl.
  repeat split; auto. rewrite Nat.add_1_r. apply repeat_snoc.
Qed.

Lemma nodel_m_add_face o m hes m1 f : m_add_face o m hes = (m1, Some f) -> nodel m -> nodel m1.
Proof.
  unfold m_add_face, tet_add_face, hex_add_face. destruct (o_mesh o).
  - apply nodel_add_face_some.
  - destruct (negb (length hes =? 3)); [discriminate|]. apply nodel_add_face_some.
  - destruct (negb (length hes =? 4)); [discriminate|]. apply nodel_add_face_some.
Qed.

Lemma nodel_m_add_cell o m hfs m1 c : m_add_cell o m hfs = (m1, Some c) -> nodel m -> nodel m1.
Proof.
  unfold m_add_cell, tet_add_cell, hex_add_cell. destruct (o_mesh o).
  - apply nodel_add_cell_some.
  - destruct (negb (length hfs =? 4)); [discriminate|].
    destruct (negb (forallb _ hfs)); [discriminate|].
    destruct (o_check o && negb _); [discriminate|]. apply nodel_add_cell_some.
  - destruct (negb (length hfs =? 6)); [discriminate|].
    destruct (negb (forallb _ hfs)); [discriminate|].
    destruct (negb (o_check o)); [apply nodel_add_cell_some|].
    destruct (negb (length (hfs_vertex_set m hfs) =? 8)); [discriminate|].
    destruct (check_halfface_ordering m hfs); [apply nodel_add_cell_some|].
    destruct (reorder_bottom m hfs) as [b|]; [|discriminate].
    destruct (all_some (upd 1 (Some b) (reorder_top m hfs))) as [l|]; [|discriminate].
    destruct (check_halfface_ordering m l); [|discriminate]. apply nodel_add_cell_some.
Qed.

Lemma dels_enable_vbu b m : dels (enable_vbu b m) = dels m.
Proof. unfold enable_vbu. destruct (b && negb (vbu m)); destruct (negb b); reflexivity. Qed.

Lemma dels_reorder_edges es m : dels (reorder_edges es m) = dels m.
Proof. pose proof (reorder_edges_frame es m) as F. simpl in F. destruct F as (_&_&_&_&A&B&C&D&_). unfold dels. congruence. Qed.

Lemma dels_enable_ebu b m : dels (enable_ebu b m) = dels m.
Proof.
  unfold enable_ebu. destruct (b && negb (ebu m)).
  - rs. destruct (fbu m); destruct (negb b); rs; unfold dels; rs; try reflexivity;
      match goal with |- context [reorder_edges ?e ?x] => pose proof (dels_reorder_edges e x) as T; unfold dels in T; inversion T as [[T1 T2 T3 T4]]; rewrite ?T1, ?T2, ?T3, ?T4; reflexivity end.
  - destruct (negb b); reflexivity.
Qed.

Lemma dels_enable_fbu b m : dels (enable_fbu b m) = dels m.
Proof.
  unfold enable_fbu. destruct (b && negb (fbu m)); cbn [andb].
  - destruct (negb b); rs;
      match goal with
      | |- context [if ?c then _ else _] => destruct c
      end; try reflexivity;
      match goal with |- dels (reorder_edges ?e ?x) = _ => rewrite (dels_reorder_edges e x); reflexivity end.
  - destruct (negb b); reflexivity.
Qed.

Section NoDel.
  Variable conv_d : list byte -> Z * bool.
  Variable conv_f : list byte -> Z * bool.

  Lemma vertex_loop_nodel n : forall d d', vertex_loop conv_d n d = Go d' -> nodel (d_m d) -> nodel (d_m d').
  Proof.
    induction n; intros d d' H I.
    - simpl in H. inversion H; subst; auto.
    - cbn [vertex_loop] in H. apply bind_go in H. destruct H as (d1 & G & H). apply gcl_keeps in G. destruct G as [G1 G2].
      repeat match type of H with context [get_float ?c ?s] => destruct (get_float c s) end.
      destruct (d_v d1) as [[vx vy] vz]. pose proof (nodel_add_vertex (d_m d1)) as V.
      destruct (add_vertex (d_m d1)) as [m1 vh]. simpl in V. apply IHn in H; auto. cbn [d_m]. apply V. rewrite G1. exact I.
  Qed.

  Lemma edge_loop_nodel n nvd : forall d d', edge_loop n nvd d = Go d' -> nodel (d_m d) -> nodel (d_m d').
  Proof.
    induction n; intros d d' H I.
    - simpl in H. inversion H; subst; auto.
    - cbn [edge_loop] in H. apply bind_go in H. destruct H as (d1 & G & H). apply gcl_keeps in G. destruct G as [G1 G2].
      destruct (get_num NU32 (sstr_of (d_line d1))) as [ss1 a]. destruct (get_num NU32 ss1) as [ss2 b].
      destruct ((valz a 0 >=? nvd)%Z || (valz b 0 >=? nvd)%Z); [discriminate|].
      destruct ((valz a 0 >? int_max_z)%Z || (valz b 0 >? int_max_z)%Z); [discriminate|].
      pose proof (nodel_add_edge_dup (d_m d1) (Z.to_nat (valz a 0)) (Z.to_nat (valz b 0))) as V.
      destruct (add_edge (d_m d1) (Z.to_nat (valz a 0)) (Z.to_nat (valz b 0)) true) as [m1 e]. simpl in V.
      apply IHn in H; auto. cbn [d_m with_mesh]. apply V. rewrite G1. exact I.
  Qed.

  Lemma face_loop_nodel n o nhe : forall d d', face_loop n o nhe d = Go d' -> nodel (d_m d) -> nodel (d_m d').
  Proof.
    induction n; intros d d' H I.
    - simpl in H. inversion H; subst; auto.
    - cbn [face_loop] in H. apply bind_go in H. destruct H as (d1 & G & H). apply gcl_keeps in G. destruct G as [G1 G2].
      apply bind_go in H. destruct H as (hes & R & H).
      destruct (m_add_face o (d_m d1) hes) as [m1 [f|]] eqn:M; [|discriminate].
      apply IHn in H; auto. cbn [d_m with_mesh]. eapply nodel_m_add_face; eauto. rewrite G1. exact I.
  Qed.

  Lemma cell_loop_nodel n o nhf : forall d d', cell_loop n o nhf d = Go d' -> nodel (d_m d) -> nodel (d_m d').
  Proof.
    induction n; intros d d' H I.
    - simpl in H. inversion H; subst; auto.
    - cbn [cell_loop] in H. apply bind_go in H. destruct H as (d1 & G & H). apply gcl_keeps in G. destruct G as [G1 G2].
      apply bind_go in H. destruct H as (hfs & R & H).
      destruct (m_add_cell o (d_m d1) hfs) as [m1 [c|]] eqn:M; [|discriminate].
      apply IHn in H; auto. cbn [d_m with_mesh]. eapply nodel_m_add_cell; eauto. rewrite G1. exact I.
  Qed.

  Theorem read_stream_nodel o s0 f : read_stream conv_d conv_f o s0 = RTrue f -> nodel (f_mesh f).
  Proof.
    unfold read_stream.
    match goal with |- match ?r with Stop st => _ | Go d => _ end = _ -> _ => set (R := r) end.
    assert (HR : forall d, R = Go d -> nodel (d_m d)).
    { unfold R. clear R. intros d H.
      apply bind_go in H. destruct H as (d1 & G1 & H). apply gcl_keeps in G1. cbn [d_m d_pos] in G1.
      destruct (read_keyword (sstr_of (d_line d1)) d1) as [ss1 d2] eqn:K2. apply read_keyword_keeps in K2.
      destruct (read_keyword ss1 d2) as [ss2 d3] eqn:K3. apply read_keyword_keeps in K3.
      destruct (bytes_eqb (d_stmp d3) (bs "BINARY")); [discriminate|].
      apply bind_go in H. destruct H as (d4 & G4 & H).
      assert (K4 : d_m d4 = d_m d3 /\ d_pos d4 = d_pos d3).
      { destruct (bytes_eqb (d_stmp d2) (bs "OVM")); [apply gcl_keeps; auto | inversion G4; auto]. }
      destruct (read_keyword (sstr_of (d_line d4)) d4) as [ss5 d5] eqn:K5. apply read_keyword_keeps in K5.
      destruct (negb (bytes_eqb (d_stmp d5) (bs "VERTICES"))); [discriminate|].
      apply bind_go in H. destruct H as ([d6 nvd] & C6 & H). apply read_count_keeps in C6. destruct C6 as (M6 & P6 & Nv).
      apply bind_go in H. destruct H as (_ & _ & H).
      assert (I6 : nodel (d_m d6)).
      { destruct G1, K2, K3, K4, K5. replace (d_m d6) with (d_m d1) by congruence. rewrite H0. repeat split; reflexivity. }
      apply bind_go in H. destruct H as (d7 & V7 & H). apply vertex_loop_nodel in V7; auto.
      apply bind_go in H. destruct H as (d8 & S8 & H). apply section_header_keeps in S8. destruct S8 as [M8 P8].
      apply bind_go in H. destruct H as ([d9 ned] & C9 & H). apply read_count_keeps in C9. destruct C9 as (M9 & P9 & Ne).
      apply bind_go in H. destruct H as (_ & _ & H).
      apply bind_go in H. destruct H as (d10 & L10 & H). apply edge_loop_nodel in L10; [|rewrite M9, M8; auto].
      apply bind_go in H. destruct H as (d11 & S11 & H). apply section_header_keeps in S11. destruct S11 as [M11 P11].
      apply bind_go in H. destruct H as ([d12 nfd] & C12 & H). apply read_count_keeps in C12. destruct C12 as (M12 & P12 & Nf).
      apply bind_go in H. destruct H as (_ & _ & H).
      apply bind_go in H. destruct H as (d13 & L13 & H). apply face_loop_nodel in L13; [|rewrite M12, M11; auto].
      apply bind_go in H. destruct H as (d14 & S14 & H). apply section_header_keeps in S14. destruct S14 as [M14 P14].
      apply bind_go in H. destruct H as ([d15 ncd] & C15 & H). apply read_count_keeps in C15. destruct C15 as (M15 & P15 & Nc).
      apply bind_go in H. destruct H as (_ & _ & H).
      apply bind_go in H. destruct H as (d16 & L16 & H). apply cell_loop_nodel in L16; [|rewrite M15, M14; auto].
      inversion H; subst. exact L16. }
    destruct R as [d|out] eqn:ER.
    - specialize (HR d eq_refl).
      destruct (prop_loop conv_d conv_f (gcl_fuel (d_is d)) o (d_m d) (d_is d) [pos_entry (rev_append (d_pos d) [])]) as [[s1 props]|out] eqn:P.
      + destruct (negb (eofb s1)); [discriminate|].
        intros H; inversion H; subst; clear H. cbn [f_mesh].
        destruct (o_bu o); [|exact HR].
        eapply nodel_eq; [| |exact HR].
        * rewrite topo_enable_fbu, topo_enable_ebu, topo_enable_vbu. reflexivity.
        * rewrite dels_enable_fbu, dels_enable_ebu, dels_enable_vbu. reflexivity.
      + intros H. exfalso. eapply stop_not_true; eauto.
    - intros H. exfalso. eapply stop_not_true; eauto.
  Qed.
End NoDel.

(* ================================================================== the second round trip changes nothing *)

Lemma filter_all {A} (p : A -> bool) l : (forall x, In x l -> p x = true) -> filter p l = l.
Proof.
  induction l; simpl; intros H; [reflexivity|]. rewrite (H a (or_introl eq_refl)). f_equal. apply IHl. intros x Hx. apply H. right; exact Hx.
Qed.

Lemma nth_repeat_false v n : nth v (repeat false n) false = false.
Proof. revert v. induction n; intros v; destruct v; simpl; auto. Qed.

Lemma live_of_nodel m : nodel m ->
  live_vertices m = seq 0 (nv m) /\ live_edges m = seq 0 (ne m) /\ live_faces m = seq 0 (nf m) /\ live_cells m = seq 0 (nc m).
Proof.
  intros (A & B & C & D). unfold live_vertices, live_edges, live_faces, live_cells, v_deleted, e_deleted, f_deleted, c_deleted.
  rewrite A, B, C, D. repeat split; apply filter_all; intros x _; rewrite nth_repeat_false; reflexivity.
Qed.

Section RoundTrip2.
  Variable conv_d : list byte -> Z * bool.
  Variable conv_f : list byte -> Z * bool.
  Variable print_d : Z -> list byte.
  Variable print_f : Z -> list byte.
  Variable okf : Z -> Prop.
  Hypothesis print_tok : forall b, okf b -> tokp (print_d b) /\ hd 0%Z (print_d b) <> 35%Z.
  Hypothesis print_scan : forall b r, okf b -> endsp r -> float_scan (print_d b ++ r) = (print_d b, r).
  Hypothesis print_conv : forall b, okf b -> snd (conv_d (print_d b)) = false.
  (* a reparsed value is printable again, and - THE recorded assumption on the number printer / parser -
     parse (print (parse (print x))) = parse (print x) *)
  Hypothesis okf_reparse : forall b, okf b -> okf (reparse conv_d print_d b).
  Hypothesis reparse_idem : forall b, okf b -> reparse conv_d print_d (reparse conv_d print_d b) = reparse conv_d print_d b.

  Definition rpt (p : Z * Z * Z) : Z * Z * Z :=
    let '(x, y, z) := p in (reparse conv_d print_d x, reparse conv_d print_d y, reparse conv_d print_d z).

  (* the mesh as the caller holds it after the first read: the mesh read, with the coordinates read *)
  Definition reread (w : wmesh) (f : fin) : wmesh := {| w_mesh := f_mesh f; w_pos := map rpt (w_pos w); w_props := [] |}.

  Lemma wfw_reread o w f : wfw okf o w -> read_ascii conv_d conv_f o (write_ascii print_d print_f w) = RTrue f ->
    topo (f_mesh f) = topo (w_mesh w) -> wfw okf o (reread w f).
  Proof.
    intros W R T. pose proof (read_stream_nodel conv_d conv_f o _ f R) as N. apply live_of_nodel in N. destruct N as (L1 & L2 & L3 & L4).
    unfold topo in T. inversion T as [[T1 T2 T3 T4]].
    destruct W. constructor; unfold reread; cbn [w_mesh w_pos w_props]; auto; unfold ne, nf, nc in *; rewrite ?T1, ?T2, ?T3, ?T4; auto.
    - rewrite map_length. auto.
    - clear - wf_pos_ok0 okf_reparse. induction wf_pos_ok0 as [|[[x y] z] l H]; simpl; constructor; auto.
      unfold okp in *. destruct H as (A & B & C). auto.
  Qed.

  Lemma rp3_rpt p : okp okf p -> rp3 conv_d print_d (rpt p) = rp3 conv_d print_d p.
  Proof. destruct p as [[x y] z]. intros (A & B & C). unfold rp3, rpt. rewrite !reparse_idem; auto. Qed.

  Theorem read_write_twice o w : wfw okf o w ->
    exists f1 f2,
      read_ascii conv_d conv_f o (write_ascii print_d print_f w) = RTrue f1 /\
      read_ascii conv_d conv_f o (write_ascii print_d print_f (reread w f1)) = RTrue f2 /\
      topo (f_mesh f1) = topo (w_mesh w) /\ f_props f1 = [pos_entry (map (rp3 conv_d print_d) (w_pos w))] /\
      topo (f_mesh f2) = topo (f_mesh f1) /\ f_props f2 = f_props f1.
  Proof.
    intros W. destruct (read_write_topo conv_d conv_f print_d print_f okf print_tok print_scan print_conv o w W) as (f1 & R1 & T1 & P1 & _).
    pose proof (wfw_reread o w f1 W R1 T1) as W2.
    destruct (read_write_topo conv_d conv_f print_d print_f okf print_tok print_scan print_conv o (reread w f1) W2) as (f2 & R2 & T2 & P2 & _).
    exists f1, f2. repeat split; auto. rewrite P2, P1. unfold reread; cbn [w_pos]. f_equal. f_equal. rewrite map_map.
    apply map_ext_in. intros p Hp. apply rp3_rpt. pose proof (wf_pos_ok okf o w W) as K. rewrite Forall_forall in K. auto.
  Qed.
End RoundTrip2.
