(* IO/Ovmb2Dirp.v -- the property directory: BinaryFileReader::read_propdir_chunk (read(Decoder&, PropertyInfo&),
   PropertyDecoderT::request_property) on a DIRP chunk whose entries carry registered types, non-empty names and pairwise
   distinct (entity, name, type) keys creates one storage per entry, in order, holding the decoded default value. *)
From Coq Require Import ZArith List Bool Lia.
From OVM Require Import Base.Int32 Gen.OvmbFormat IO.Bytes IO.OvmbWriterModel IO.OvmbReaderModel IO.OvmbProofs
  IO.Ovmb2Base IO.Ovmb2Chunk IO.Ovmb2Alt IO.Ovmb2Ints IO.Ovmb2Topo.
Import ListNotations.
Local Open Scope Z_scope.

Definition dentry_ok (pt : prop * ptype) : Prop :=
  0 <= p_ent (fst pt) <= 6 /\ 0 < len (p_name (fst pt)) < 4294967296 /\ len (p_tname (fst pt)) < 4294967296 /\
  codec_of (p_tname (fst pt)) = Some (snd pt) /\ value_okb (snd pt) (p_def (fst pt)) = true /\
  len (encode_value (snd pt) (p_def (fst pt))) < 4294967296.

(* request_property does not find an existing property with the entry's key *)
Fixpoint keys_fresh (stor : list storage) (es : list (prop * ptype)) : Prop :=
  match es with
  | [] => True
  | pt :: t => find_storage 0 stor (p_ent (fst pt)) (p_name (fst pt)) (p_tname (fst pt)) = None /\
               keys_fresh (stor ++ [storage_of pt]) t
  end.

Lemma valid_prop_entity e : 0 <= e <= 6 -> is_valid_PropertyEntity e = true.
Proof.
  intros H. assert (C : e = 0 \/ e = 1 \/ e = 2 \/ e = 3 \/ e = 4 \/ e = 5 \/ e = 6) by lia.
  destruct C as [-> | [-> | [-> | [-> | [-> | [-> | ->]]]]]]; reflexivity.
Qed.

Lemma len_dirp_entry pt : 13 <= len (dirp_entry pt).
Proof.
  destruct pt as [p ty]. unfold dirp_entry, write_vec32. lens. lenpos. zlia.
Qed.

Lemma propdir_entries_enc es : Forall dentry_ok es -> forall fuel stor props,
  keys_fresh stor es -> (length es <= fuel)%nat ->
  read_propdir_entries fuel stor props (dirp_payload es)
  = Ret (stor ++ map storage_of es, props ++ dir_props (length stor) es).
Proof.
  unfold dirp_payload.
  induction 1 as [|[p ty] t Hpt Ht IH]; intros fuel stor props Hk Hf.
  - cbn [map concat dir_props]. rewrite !app_nil_r. destruct fuel; reflexivity.
  - destruct Hpt as [He [Hn [Htn [Hc [Hv Hd]]]]]. cbn [fst snd] in *.
    destruct Hk as [Hk1 Hk2]. cbn [fst snd] in Hk1.
    cbn [length] in Hf. destruct fuel as [|f]; [lia|].
    cbn [map concat]. unfold dirp_entry at 1.
    rewrite <- !app_assoc. cbn [app read_propdir_entries].
    rewrite need_ok by (unfold write_vec32; lens; lenpos; zlia). cb.
    rewrite rd_enum8_cons by (apply valid_prop_entity; exact He). cb.
    rewrite rd_vec32_app by lia. cb.
    rewrite rd_vec32_app by exact Htn. cb.
    rewrite rd_vec32_app by exact Hd. cb.
    rewrite Hc. rewrite codec_roundtrip by exact Hv. cb.
    rewrite Hk1. rewrite (eqb_false (len (p_name p)) 0) by lia.
    rewrite IH; [|exact Hk2|lia].
    rewrite <- !app_assoc. cbn [app map dir_props fst]. rewrite app_length. cbn [length].
    replace (length stor + 1)%nat with (S (length stor)) by lia. reflexivity.
Qed.

Lemma dirp_chunk_ok st es :
  r_props st = [] -> Forall dentry_ok es -> keys_fresh (r_stor st) es ->
  read_propdir_chunk st (dirp_payload es) = Ret (next_st st (CDirp es), []).
Proof.
  intros Hp He Hk. unfold read_propdir_chunk. rewrite Hp.
  rewrite propdir_entries_enc; [reflexivity|exact He|exact Hk|].
  assert (L : forall l : list (prop * ptype), len l <= len (dirp_payload l)).
  { clear. unfold dirp_payload. induction l as [|pt t IH]; cbn [map concat]; [unfold len; simpl; lia|].
    rewrite len_app, len_cons. pose proof (len_dirp_entry pt). lia. }
  specialize (L es). unfold len in L. lia.
Qed.
