(* IO/AsciiStream.v -- an istream-lite over [list byte]: the part of libstdc++'s std::istream that
   FileManager::readStream / PropertyStorageT::deserialize / the (de)serializers use, in the classic "C" locale with
   the default format flags (dec, skipws, no boolalpha).

   Modelled from libstdc++ (bits/istream.tcc, bits/locale_facets.tcc: num_get::_M_extract_int / _M_extract_float /
   do_get, basic_istream::sentry, operator>>(char&), operator>>(string&), std::getline, istream::read):
     * state bits eofbit / failbit (badbit is never set by a string or file buffer without I/O errors),
     * sentry: a stream that is not good() gets failbit and nothing is read; whitespace skipping that reaches the end
       sets eofbit|failbit,
     * integer extraction: optional sign, leading zeros, digits; value wraps for "-n" into an unsigned type; overflow gives
       failbit and the clamped value but KEEPS CONSUMING digits; no digit gives failbit and 0; eofbit iff the scan
       reached the end; int / short are extracted as long and clamped (istream.tcc),
     * bool (noboolalpha): a long, 0/1 accepted, anything else gives true + failbit,
     * floating point: the SCANNER (which characters are accumulated and consumed) is modelled exactly; the conversion of
       the accumulated characters (strtod/strtof + the overflow rule of __convert_to_v) is the Section variable [conv]:
       it returns the value stored (as a bit pattern) and whether failbit is set.  Nothing is assumed about it here.
   The model is validated token by token against a real std::istringstream (harness/run_ascii.cc --tokens,
   ocaml/asciidriver.ml tokens).  No proofs in this file. *)
From Coq Require Import ZArith Lia List Bool.
Import ListNotations.
Local Open Scope Z_scope.

Definition byte := Z.

Record istream := { rest : list byte; eofb : bool; failb : bool }.

Definition mk (r : list byte) (e f : bool) : istream := {| rest := r; eofb := e; failb := f |}.
Definition of_bytes (l : list byte) : istream := mk l false false.
Definition good (s : istream) : bool := negb (eofb s) && negb (failb s).
Definition set_fail (s : istream) : istream := mk (rest s) (eofb s) true.
Definition is_nil {A} (l : list A) : bool := match l with [] => true | _ => false end.

(* isspace in the "C" locale: space, \t \n \v \f \r *)
Definition isspace (c : byte) : bool := (c =? 32) || ((9 <=? c) && (c <=? 13)).
Definition is_digit (c : byte) : bool := (48 <=? c) && (c <=? 57).
Definition c_plus : byte := 43.
Definition c_minus : byte := 45.
Definition c_dot : byte := 46.
Definition c_zero : byte := 48.
Definition c_nl : byte := 10.

Fixpoint skipws (l : list byte) : list byte :=
  match l with
  | c :: t => if isspace c then skipws t else l
  | [] => []
  end.

(* basic_istream::sentry(is, noskipws).  Returns the stream and _M_ok. *)
Definition sentry (skip : bool) (s : istream) : istream * bool :=
  if good s then
    if skip then
      match skipws (rest s) with
      | [] => (mk [] true true, false)
      | r => (mk r false false, true)
      end
    else (s, true)
  else (set_fail s, false).

(* ------------------------------------------------------------------ integers: num_get::_M_extract_int, base 10 *)

Definition pow2 (w : Z) : Z := 2 ^ w.

(* the digit loop ("C" locale branch).  [res] is an unsigned value of width w (arithmetic modulo [modulus]). *)
Fixpoint digits_loop (maxv smax modulus : Z) (l : list byte) (res : Z) (ovf any : bool)
  : Z * bool * bool * list byte :=
  match l with
  | c :: t =>
      if is_digit c then
        let d := c - 48 in
        if res >? smax then digits_loop maxv smax modulus t res true any
        else
          let r1 := res * 10 in
          digits_loop maxv smax modulus t ((r1 + d) mod modulus) (ovf || (r1 >? maxv - d)) true
      else (res, ovf, any, l)
  | [] => (res, ovf, any, [])
  end.

(* leading zeros in base 10: every '0' is consumed, __found_zero is set *)
Fixpoint zeros_loop (l : list byte) (found : bool) : bool * list byte :=
  match l with
  | c :: t => if c =? c_zero then zeros_loop t true else (found, l)
  | [] => (found, [])
  end.

(* result: value, failbit, remaining input.  eofbit is set iff the remaining input is empty. *)
Definition extract_int (w : Z) (sgn : bool) (l : list byte) : Z * bool * list byte :=
  let '(negative, l1) :=
    match l with
    | c :: t => if c =? c_minus then (true, t) else if c =? c_plus then (false, t) else (false, l)
    | [] => (false, [])
    end in
  let '(found_zero, l2) := zeros_loop l1 false in
  let modulus := pow2 w in
  let tmax := if sgn then pow2 (w - 1) - 1 else modulus - 1 in
  let tmin := if sgn then - pow2 (w - 1) else 0 in
  let maxv := if negative && sgn then pow2 (w - 1) else tmax in
  let smax := maxv / 10 in
  let '(res, ovf, any, l3) := digits_loop maxv smax modulus l2 0 false false in
  if negb any && negb found_zero then (0, true, l3)
  else if ovf then ((if negative && sgn then tmin else tmax), true, l3)
  else
    let v := if negative then (if sgn then - res else (modulus - res) mod modulus) else res in
    (v, false, l3).

Inductive numty := NU32 | NU64 | NI64 | NI32 | NI16 | NBool.

(* do_get for the type (+ the clamping of operator>>(int&) / operator>>(short&)) *)
Definition clamp (lo hi : Z) (r : Z * bool * list byte) : Z * bool * list byte :=
  let '(v, f, l) := r in
  if v <? lo then (lo, true, l) else if v >? hi then (hi, true, l) else (v, f, l).

Definition parse_num (t : numty) (l : list byte) : Z * bool * list byte :=
  match t with
  | NU32 => extract_int 32 false l
  | NU64 => extract_int 64 false l
  | NI64 => extract_int 64 true l
  | NI32 => clamp (- 2147483648) 2147483647 (extract_int 64 true l)
  | NI16 => clamp (- 32768) 32767 (extract_int 64 true l)
  | NBool =>
      let '(v, f, l') := extract_int 64 true l in
      if (v =? 0) || (v =? 1) then (v, f, l') else (1, true, l')
  end.

(* operator>>(T&): None = the variable is left unchanged (sentry failed) *)
Definition get_num (t : numty) (s : istream) : istream * option Z :=
  let '(s1, ok) := sentry true s in
  if ok then
    let '(v, f, l) := parse_num t (rest s1) in
    (mk l (is_nil l) f, Some v)
  else (s1, None).

(* ------------------------------------------------------------------ char, word, getline, read *)

(* operator>>(istream&, char&) / unsigned char& *)
Definition get_char (s : istream) : istream * option byte :=
  let '(s1, ok) := sentry true s in
  if ok then
    match rest s1 with
    | c :: t => (mk t false false, Some c)
    | [] => (mk [] true true, None)          (* unreachable after a successful skipping sentry *)
    end
  else (s1, None).

Fixpoint take_word (l : list byte) : list byte * list byte :=
  match l with
  | c :: t => if isspace c then ([], l) else let '(w, r) := take_word t in (c :: w, r)
  | [] => ([], [])
  end.

(* operator>>(istream&, std::string&) *)
Definition get_word (s : istream) : istream * option (list byte) :=
  let '(s1, ok) := sentry true s in
  if ok then
    let '(w, r) := take_word (rest s1) in
    (mk r (is_nil r) (is_nil w), Some w)
  else (s1, None).

Fixpoint take_line (l : list byte) : list byte * option (list byte) :=
  match l with
  | c :: t => if c =? c_nl then ([], Some t) else let '(w, r) := take_line t in (c :: w, r)
  | [] => ([], None)
  end.

(* std::getline(is, str): None = str unchanged (sentry failed) *)
Definition getline (s : istream) : istream * option (list byte) :=
  let '(s1, ok) := sentry false s in
  if ok then
    match take_line (rest s1) with
    | (w, Some r) => (mk r false false, Some w)
    | (w, None) => (mk [] true (is_nil w), Some w)
    end
  else (s1, None).

(* istream::read(buf, n): the characters obtained (the caller's buffer keeps its old content beyond them) *)
Definition read_n (n : nat) (s : istream) : istream * list byte :=
  let '(s1, ok) := sentry false s in
  if ok then
    let got := firstn n (rest s1) in
    let r := skipn n (rest s1) in
    if (length got =? n)%nat then (mk r false false, got) else (mk r true true, got)
  else (s1, []).

(* ------------------------------------------------------------------ floating point: num_get::_M_extract_float *)

Definition c_e : byte := 101.
Definition c_E : byte := 69.

(* main loop of the "C" locale branch; acc = __xtrc reversed *)
Fixpoint float_loop (l : list byte) (acc : list byte) (mant dec sci : bool) : list byte * list byte :=
  match l with
  | c :: t =>
      if is_digit c then float_loop t (c :: acc) true dec sci
      else if (c =? c_dot) && negb dec && negb sci then float_loop t (c_dot :: acc) mant true sci
      else if ((c =? c_e) || (c =? c_E)) && negb sci && mant then
        match t with
        | [] => (c_e :: acc, [])
        | c2 :: t2 =>
            if (c2 =? c_plus) || (c2 =? c_minus) then float_loop t2 (c2 :: c_e :: acc) mant dec true
            else float_loop t (c_e :: acc) mant dec true
        end
      else (acc, l)
  | [] => (acc, [])
  end.

Fixpoint fzeros_loop (l : list byte) (found : bool) : bool * list byte :=
  match l with
  | c :: t => if c =? c_zero then fzeros_loop t true else (found, l)
  | [] => (found, [])
  end.

(* the characters accumulated in __xtrc and the remaining input *)
Definition float_scan (l : list byte) : list byte * list byte :=
  let '(acc0, l1) :=
    match l with
    | c :: t => if (c =? c_plus) || (c =? c_minus) then ([c], t) else ([], l)
    | [] => ([], [])
    end in
  let '(fz, l2) := fzeros_loop l1 false in
  let acc1 := if fz then c_zero :: acc0 else acc0 in
  let '(acc, l3) := float_loop l2 acc1 fz false false in
  (rev_append acc [], l3).

Section Float.
  (* strtod/strtof of the accumulated characters + __convert_to_v's rules: (bit pattern stored, failbit) *)
  Variable conv : list byte -> Z * bool.

  Definition parse_float (l : list byte) : Z * bool * list byte :=
    let '(x, r) := float_scan l in
    let '(v, f) := conv x in (v, f, r).

  Definition get_float (s : istream) : istream * option Z :=
    let '(s1, ok) := sentry true s in
    if ok then
      let '(v, f, l) := parse_float (rest s1) in
      (mk l (is_nil l) f, Some v)
    else (s1, None).
End Float.

(* ------------------------------------------------------------------ std::stringstream sstr; sstr.clear(); sstr.str(line) *)
Definition sstr_of (line : list byte) : istream := of_bytes line.

(* ------------------------------------------------------------------ decimal output of integers (operator<<) *)

Fixpoint dec_digits (fuel : nat) (n : Z) (acc : list byte) : list byte :=
  match fuel with
  | O => acc
  | S k => if n <? 10 then (48 + n) :: acc else dec_digits k (n / 10) ((48 + n mod 10) :: acc)
  end.

Definition print_nat_Z (n : Z) : list byte := dec_digits (S (Z.to_nat (Z.log2 n))) n [].
Definition print_Z (z : Z) : list byte := if z <? 0 then c_minus :: print_nat_Z (- z) else print_nat_Z z.
