(* IO/Ovmb2SpecBase.v -- building blocks of the independent specification reader (IO/OvmbSpec.v) on encoded data: integer
   arrays (`ints`), splitting by valences (`split_by`), the span tables (`place`, `collect`, `collect_default`), length-
   prefixed strings (`lp`). *)
From Coq Require Import ZArith List Bool Lia.
From OVM Require Import Base.Int32 Gen.OvmbFormat IO.Bytes IO.OvmbWriterModel IO.OvmbReaderModel IO.OvmbSpec IO.OvmbProofs
  IO.Ovmb2Base IO.Ovmb2Chunk IO.Ovmb2Alt IO.Ovmb2Ints.
Import ListNotations.
Local Open Scope Z_scope.

(* ================================================================================================ ints *)
Lemma ints_enc (w : nat) xs r : Forall (fun x => 0 <= x < 256 ^ Z.of_nat w) xs ->
  ints (length xs) w (concat (map (le_encode w) xs) ++ r) = Some (xs, r).
Proof.
  induction 1 as [|x t Hx Ht IH]; [reflexivity|].
  cbn [length ints map concat]. rewrite <- app_assoc.
  assert (L : length (le_encode w x) = w) by apply le_encode_length.
  replace (Nat.ltb (length (le_encode w x ++ concat (map (le_encode w) t) ++ r)) w) with false
    by (symmetry; apply Nat.ltb_ge; rewrite app_length; lia).
  rewrite skipn_exact by exact L. rewrite IH. rewrite firstn_exact by exact L.
  rewrite le_decode_encode by exact Hx. reflexivity.
Qed.

(* the encoder's enc_int is le_encode of the value when it fits *)
Lemma enc_int_le enc x : enc_ok enc -> 0 <= x < enc_lim enc -> enc_int enc x = le_encode (Z.to_nat enc) x.
Proof.
  intros He Hx. unfold enc_int. rewrite elem_size_ok by exact He. unfold enc_lim in Hx. rewrite Z.mod_small by exact Hx. reflexivity.
Qed.

Lemma int_width_ok enc : enc_ok enc -> int_width enc = Some (Z.to_nat enc).
Proof. intros [-> | [-> | ->]]; reflexivity. Qed.

Lemma ints_enc_int enc xs r : enc_ok enc -> Forall (fun x => 0 <= x < enc_lim enc) xs ->
  ints (length xs) (Z.to_nat enc) (concat (map (enc_int enc) xs) ++ r) = Some (xs, r).
Proof.
  intros He H. pose proof (enc_ok_pos _ He).
  rewrite (map_ext_Forall (enc_int enc) (le_encode (Z.to_nat enc))).
  - apply ints_enc. eapply Forall_impl; [|exact H]. intros x Hx. cbv beta in *. unfold enc_lim in Hx. rewrite Z2Nat.id by lia. exact Hx.
  - eapply Forall_impl; [|exact H]. intros x Hx. apply enc_int_le; assumption.
Qed.

(* ================================================================================================ split_by *)
Lemma split_by_concat (items : list (list Z)) : split_by (map (fun x => len x) items) (concat items) = Some items.
Proof.
  induction items as [|x t IH]; [reflexivity|].
  cbn [map split_by concat]. rewrite ltb_false by (rewrite len_app; pose proof (len_nonneg (concat t)); lia).
  rewrite to_nat_len. rewrite skipn_exact by reflexivity. rewrite IH. rewrite firstn_exact by reflexivity. reflexivity.
Qed.

Lemma repeat_map_len {A} (items : list (list A)) v : Forall (fun x => len x = v) items ->
  repeat v (length items) = map (fun x => len x) items.
Proof. induction 1 as [|x t Hx Ht IH]; [reflexivity|]. cbn [length repeat map]. rewrite IH, Hx. reflexivity. Qed.

(* ================================================================================================ tables *)
Definition tab_is {A} (t : table A) (l : list A) : Prop :=
  forall i, tlookup i t = if i <? 0 then None else nth_error l (Z.to_nat i).

Lemma tab_is_nil {A} : tab_is (@nil (Z * A)) [].
Proof. intros i. cbn [tlookup]. destruct (i <? 0); [reflexivity|]. destruct (Z.to_nat i); reflexivity. Qed.

Lemma place_app {A} (l' : list A) : forall t l, tab_is t l ->
  exists t', place (len l) l' t = Some t' /\ tab_is t' (l ++ l').
Proof.
  induction l' as [|x r IH]; intros t l Ht.
  - exists t. split; [reflexivity|]. rewrite app_nil_r. exact Ht.
  - cbn [place]. rewrite (Ht (len l)). pose proof (len_nonneg l).
    rewrite ltb_false by lia. rewrite to_nat_len.
    replace (nth_error l (length l)) with (@None A) by (symmetry; apply nth_error_None; lia).
    assert (Ht' : tab_is ((len l, x) :: t) (l ++ [x])).
    { intros i. cbn [tlookup]. destruct (i =? len l) eqn:E.
      - apply Z.eqb_eq in E. subst i. rewrite ltb_false by lia. rewrite to_nat_len.
        rewrite nth_error_app2 by lia. rewrite Nat.sub_diag. reflexivity.
      - apply Z.eqb_neq in E. rewrite (Ht i). destruct (i <? 0) eqn:E0; [reflexivity|]. apply Z.ltb_ge in E0.
        destruct (Nat.lt_ge_cases (Z.to_nat i) (length l)) as [Hlt|Hge].
        + rewrite nth_error_app1 by exact Hlt. reflexivity.
        + replace (nth_error l (Z.to_nat i)) with (@None A) by (symmetry; apply nth_error_None; exact Hge).
          symmetry. apply nth_error_None. rewrite app_length. cbn [length]. unfold len in E. lia. }
    destruct (IH _ _ Ht') as [t' [P1 P2]].
    exists t'. split.
    + rewrite <- P1. f_equal. rewrite len_app, len_cons, len_nil. lia.
    + rewrite <- app_assoc in P2. exact P2.
Qed.

Lemma collect_tab {A} (t : table A) : forall l pre, tab_is t (pre ++ l) -> collect (length l) (len pre) t = Some l.
Proof.
  induction l as [|x r IH]; intros pre Ht; [reflexivity|].
  cbn [length collect]. rewrite (Ht (len pre)). pose proof (len_nonneg pre). rewrite ltb_false by lia.
  rewrite to_nat_len. rewrite nth_error_app2 by lia. rewrite Nat.sub_diag. cbn [nth_error].
  replace (len pre + 1) with (len (pre ++ [x])) by (rewrite len_app, len_cons, len_nil; lia).
  rewrite IH by (rewrite <- app_assoc; exact Ht). reflexivity.
Qed.

Lemma collect_tab0 {A} (t : table A) l : tab_is t l -> collect (length l) 0 t = Some l.
Proof. intros H. exact (collect_tab t l [] H). Qed.

Lemma collect_default_tab {A} (t : table A) d : forall l pre, tab_is t (pre ++ l) -> collect_default (length l) (len pre) t d = l.
Proof.
  induction l as [|x r IH]; intros pre Ht; [reflexivity|].
  cbn [length collect_default]. rewrite (Ht (len pre)). pose proof (len_nonneg pre). rewrite ltb_false by lia.
  rewrite to_nat_len. rewrite nth_error_app2 by lia. rewrite Nat.sub_diag. cbn [nth_error].
  replace (len pre + 1) with (len (pre ++ [x])) by (rewrite len_app, len_cons, len_nil; lia).
  rewrite IH by (rewrite <- app_assoc; exact Ht). reflexivity.
Qed.

Lemma collect_default_tab0 {A} (t : table A) d l : tab_is t l -> collect_default (length l) 0 t d = l.
Proof. intros H. exact (collect_default_tab t d l [] H). Qed.

(* ================================================================================================ lp *)
Lemma lp_vec32 v r : len v < 4294967296 -> lp (write_vec32 v ++ r) = Some (v, r).
Proof.
  intros Hv. unfold write_vec32. rewrite <- app_assoc.
  pose proof (len_nonneg v). pose proof (len_nonneg r).
  set (b := enc_u32 (len v) ++ v ++ r).
  assert (L4 : length (enc_u32 (len v)) = 4%nat) by apply le_encode_length.
  assert (U : u 4 0 b = len v).
  { unfold u, b. cbn [skipn]. rewrite firstn_exact by exact L4. unfold enc_u32.
    apply le_decode_encode. change (256 ^ Z.of_nat 4) with 4294967296. lia. }
  assert (Lb : len b = 4 + len v + len r) by (unfold b; lens; lia).
  unfold lp. rewrite U. cbv zeta. rewrite ltb_false by lia. rewrite ltb_false by lia.
  unfold sub. rewrite to_nat_len. unfold b.
  rewrite skipn_exact by exact L4. rewrite firstn_exact by reflexivity.
  replace (4 + length v)%nat with (length (enc_u32 (len v) ++ v)) by (rewrite app_length, L4; reflexivity).
  rewrite app_assoc. rewrite skipn_exact by reflexivity. reflexivity.
Qed.
