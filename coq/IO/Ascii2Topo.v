(* IO/Ascii2Topo.v -- C06 (ASCII), the topology part of the file for EVERY reader configuration (polyhedral / tetrahedral /
   hexahedral mesh class, topology check on or off) and an arbitrary remainder (the property sections):
     * [built o m]: the mesh the reader builds - add_vertex^nv, add_edge (duplicates allowed) per edge, then the mesh
       class's add_face / add_cell with the configured check - provided the kernel accepts every face and cell and stores
       every cell as given (the hexahedral class may re-order halffaces): a computable option, it only looks at the
       topology (nv, edges, faces, cells) of m;
     * [read_topo]: readStream up to the end of the Polyhedra section (read_stream_split: definitionally the first half of
       read_stream);
     * read_topo_print: on the writer's text followed by any R, read_topo returns exactly [built o m], the stream at R and
       the reparsed coordinates.
   With o_mesh = MPoly and o_check = false [built] never fails (built_poly_nocheck). *)
From Coq Require Import ZArith Lia List Bool String Ascii.
From OVM Require Import Kernel.Ops Mesh.HexModel.
From OVM Require Import IO.AsciiStream IO.AsciiReaderModel IO.AsciiWriterModel IO.AsciiProofs IO.Ascii2Num IO.Ascii2Val.
Import ListNotations.
Local Open Scope Z_scope.

(* ------------------------------------------------------------------ the mesh the reader builds *)

Definition mesh0 : mesh := enable_fbu false (enable_ebu false (enable_vbu false (clear_mesh false empty_mesh))).

Fixpoint add_vertices (n : nat) (m : mesh) : mesh :=
  match n with O => m | S k => add_vertices k (fst (add_vertex m)) end.
Fixpoint add_edges (es : list (nat * nat)) (m : mesh) : mesh :=
  match es with [] => m | (a, b) :: t => add_edges t (fst (add_edge m a b true)) end.
Fixpoint add_faces (o : opts) (fs : list (list nat)) (m : mesh) : option mesh :=
  match fs with
  | [] => Some m
  | f :: t => match m_add_face o m f with (m1, Some _) => add_faces o t m1 | (_, None) => None end
  end.
Fixpoint lnat_eqb (a b : list nat) : bool :=
  match a, b with
  | [], [] => true
  | x :: a', y :: b' => (x =? y)%nat && lnat_eqb a' b'
  | _, _ => false
  end.
(* the cell is accepted and stored as given *)
Fixpoint add_cells (o : opts) (cs : list (list nat)) (m : mesh) : option mesh :=
  match cs with
  | [] => Some m
  | c :: t =>
      match m_add_cell o m c with
      | (m1, Some _) => if lnat_eqb (last (cells m1) []) c then add_cells o t m1 else None
      | (_, None) => None
      end
  end.

Definition built (o : opts) (m : mesh) : option mesh :=
  match add_faces o (faces m) (add_edges (edges m) (add_vertices (nv m) mesh0)) with
  | Some mF => add_cells o (cells m) mF
  | None => None
  end.

Lemma built_topo o m m' : topo m' = topo m -> built o m' = built o m.
Proof. unfold topo, built. intros H. inversion H as [[H1 H2 H3 H4]]. rewrite H1, H2, H3, H4. reflexivity. Qed.

Lemma lnat_eqb_eq a : forall b, lnat_eqb a b = true -> a = b.
Proof.
  induction a as [|x a IH]; intros [|y b] H; try discriminate; [reflexivity|].
  cbn in H. apply andb_prop in H. destruct H as [H1 H2]. apply Nat.eqb_eq in H1. f_equal; auto.
Qed.
Lemma lnat_eqb_refl a : lnat_eqb a a = true.
Proof. induction a; cbn; [reflexivity|]. rewrite Nat.eqb_refl. exact IHa. Qed.

Local Open Scope nat_scope.

Lemma add_vertices_topo n : forall m,
  nv (add_vertices n m) = nv m + n /\ edges (add_vertices n m) = edges m /\
  faces (add_vertices n m) = faces m /\ cells (add_vertices n m) = cells m.
Proof.
  induction n; intros m; cbn [add_vertices]; [repeat split; lia|].
  pose proof (add_vertex_topo m) as T. destruct (add_vertex m) as [m1 v]. destruct T as (T1 & T2 & T3 & T4). cbn [fst].
  destruct (IHn m1) as (A & B & C & D). rewrite A, B, C, D, T1, T2, T3, T4. repeat split; lia.
Qed.

Lemma add_edges_topo es : forall m,
  nv (add_edges es m) = nv m /\ edges (add_edges es m) = edges m ++ es /\
  faces (add_edges es m) = faces m /\ cells (add_edges es m) = cells m.
Proof.
  induction es as [|[a b] es IH]; intros m; cbn [add_edges]; [rewrite app_nil_r; repeat split|].
  pose proof (add_edge_dup_topo m a b) as T. destruct (add_edge m a b true) as [m1 e]. destruct T as (T1 & T2 & T3 & T4). cbn [fst].
  destruct (IH m1) as (A & B & C & D). rewrite A, B, C, D, T1, T2, T3, T4. rewrite <- app_assoc. repeat split.
Qed.

Lemma add_faces_topo o fs : forall m mF, add_faces o fs m = Some mF ->
  nv mF = nv m /\ edges mF = edges m /\ faces mF = faces m ++ fs /\ cells mF = cells m.
Proof.
  induction fs as [|f fs IH]; intros m mF H; cbn [add_faces] in H.
  - inversion H; subst. rewrite app_nil_r. repeat split.
  - destruct (m_add_face o m f) as [m1 [fh|]] eqn:E; [|discriminate].
    apply m_add_face_some_topo in E. destruct E as (T1 & T2 & T3 & T4).
    destruct (IH m1 mF H) as (A & B & C & D). rewrite A, B, C, D, T1, T2, T3, T4. rewrite <- app_assoc. repeat split.
Qed.

Lemma add_cells_topo o cs : forall m mC, add_cells o cs m = Some mC ->
  nv mC = nv m /\ edges mC = edges m /\ faces mC = faces m /\ cells mC = cells m ++ cs.
Proof.
  induction cs as [|c cs IH]; intros m mC H; cbn [add_cells] in H.
  - inversion H; subst. rewrite app_nil_r. repeat split.
  - destruct (m_add_cell o m c) as [m1 [ch|]] eqn:E; [|discriminate].
    destruct (lnat_eqb (last (cells m1) []) c) eqn:L; [|discriminate].
    apply m_add_cell_some_topo in E. destruct E as (l & _ & T1 & T2 & T3 & T4).
    rewrite T4, last_last in L. apply lnat_eqb_eq in L. subst l.
    destruct (IH m1 mC H) as (A & B & C & D). rewrite A, B, C, D, T1, T2, T3, T4. rewrite <- app_assoc. repeat split.
Qed.

Lemma built_some_topo o m mC : built o m = Some mC -> topo mC = topo m.
Proof.
  unfold built. destruct (add_faces o (faces m) _) as [mF|] eqn:F; [|discriminate]. intros C.
  apply add_faces_topo in F. apply add_cells_topo in C.
  destruct (add_vertices_topo (nv m) mesh0) as (V1 & V2 & V3 & V4).
  destruct (add_edges_topo (edges m) (add_vertices (nv m) mesh0)) as (E1 & E2 & E3 & E4).
  destruct F as (F1 & F2 & F3 & F4). destruct C as (C1 & C2 & C3 & C4).
  unfold topo. rewrite C1, C2, C3, C4, F1, F2, F3, F4, E1, E2, E3, E4, V1, V2, V3, V4. reflexivity.
Qed.

(* polyhedral mesh read without topology check: nothing is ever rejected *)
Lemma add_faces_poly o : o_mesh o = MPoly -> o_check o = false -> forall fs m, add_faces o fs m <> None.
Proof.
  intros Hm Hc. induction fs as [|f fs IH]; intros m; cbn [add_faces]; [discriminate|].
  unfold m_add_face. rewrite Hm, Hc. unfold add_face. cbn [andb]. destruct (append_face m f) as [m1 fh]. apply IH.
Qed.
Lemma add_cells_poly o : o_mesh o = MPoly -> o_check o = false -> forall cs m, add_cells o cs m <> None.
Proof.
  intros Hm Hc. induction cs as [|c cs IH]; intros m; cbn [add_cells]; [discriminate|].
  destruct (m_add_cell o m c) as [m1 [ch|]] eqn:E.
  - assert (E' := E). unfold m_add_cell in E'. rewrite Hm, Hc in E'. apply add_cell_some_topo in E'. destruct E' as (_ & _ & _ & T4).
    rewrite T4, last_last, lnat_eqb_refl. apply IH.
  - unfold m_add_cell in E. rewrite Hm, Hc in E. unfold add_cell in E. cbn [andb] in E. destruct (append_cell m c). discriminate.
Qed.
Lemma built_poly_nocheck o m : o_mesh o = MPoly -> o_check o = false -> built o m <> None.
Proof.
  intros Hm Hc. unfold built. destruct (add_faces o (faces m) _) as [mF|] eqn:F.
  - apply add_cells_poly; auto.
  - exfalso. eapply add_faces_poly; eauto.
Qed.

(* ------------------------------------------------------------------ the loops produce exactly the replayed mesh *)

Lemma vertex_loop_mesh conv n : forall d d', vertex_loop conv n d = Go d' -> d_m d' = add_vertices n (d_m d).
Proof.
  induction n; intros d d' H.
  - cbn in H. inversion H; subst. reflexivity.
  - cbn [vertex_loop] in H. apply bind_go in H. destruct H as (d1 & G & H). apply gcl_keeps in G. destruct G as [G1 _].
    repeat match type of H with context [get_float ?c ?s] => destruct (get_float c s) end.
    destruct (d_v d1) as [[vx vy] vz]. cbn [add_vertices]. rewrite <- G1.
    destruct (add_vertex (d_m d1)) as [m1 vh]. apply IHn in H. cbn [d_m] in H. exact H.
Qed.

Lemma edge_loop_mesh n nvd : forall d d', edge_loop n nvd d = Go d' -> exists es, d_m d' = add_edges es (d_m d).
Proof.
  induction n; intros d d' H.
  - cbn in H. inversion H; subst. exists []. reflexivity.
  - cbn [edge_loop] in H. apply bind_go in H. destruct H as (d1 & G & H). apply gcl_keeps in G. destruct G as [G1 _].
    destruct (get_num NU32 (sstr_of (d_line d1))) as [ss1 a]. destruct (get_num NU32 ss1) as [ss2 b].
    destruct ((valz a 0 >=? nvd)%Z || (valz b 0 >=? nvd)%Z); [discriminate|].
    destruct ((valz a 0 >? int_max_z)%Z || (valz b 0 >? int_max_z)%Z); [discriminate|].
    destruct (add_edge (d_m d1) (Z.to_nat (valz a 0)) (Z.to_nat (valz b 0)) true) as [m1 e] eqn:E.
    apply IHn in H. destruct H as (es & H). cbn [d_m with_mesh] in H.
    exists ((Z.to_nat (valz a 0), Z.to_nat (valz b 0)) :: es). cbn [add_edges]. rewrite <- G1, E. exact H.
Qed.

Local Open Scope Z_scope.

Section Topo.
  Variable conv_d : list byte -> Z * bool.
  Variable conv_f : list byte -> Z * bool.
  Variable print_d : Z -> list byte.
  Variable print_f : Z -> list byte.
  Variable okd : Z -> bool.
  Hypothesis printd_tok : forall b, Okd okd b -> tokp (print_d b) /\ hd 0 (print_d b) <> 35.
  Hypothesis printd_scan : forall b r, Okd okd b -> endws r -> float_scan (print_d b ++ r) = (print_d b, r).
  Hypothesis printd_conv : forall b, Okd okd b -> snd (conv_d (print_d b)) = false.

  Let scan_sp : forall b r, Okd okd b -> endsp r -> float_scan (print_d b ++ r) = (print_d b, r) :=
    print_scan_sp print_d (Okd okd) printd_scan.

  (* ---------------------------------------------------------------- faces and cells through the checked kernel calls *)

  Lemma face_loop_acc o nhe : nhe <= 2147483648 -> forall fs d R mF,
    Forall (ent_ok o nhe) fs -> add_faces o fs (d_m d) = Some mF -> d_is d = st (concat (map entity_line fs) ++ R) ->
    exists d', face_loop (length fs) o nhe d = Go d' /\ d_is d' = st R /\ d_m d' = mF /\ d_pos d' = d_pos d /\ d_stmp d' = d_stmp d.
  Proof.
    intros Hn. induction fs as [|f fs IH]; intros d R mF Hb Hacc H.
    - exists d. cbn in *. inversion Hacc; subst. repeat split; auto.
    - inversion Hb as [|? ? Hp Hb']; subst. destruct Hp as (Hne & Hbd & Hal & Hk).
      cbn [length face_loop map concat add_faces] in *.
      set (l := join_sp (zn (length f) :: map zn f)).
      assert (Cl : clean l).
      { destruct (zn_tok (length f)) as (Tk & Hh & _). apply clean_join; auto.
        clear. induction f; cbn [map]; constructor; auto. apply zn_tok. }
      rewrite (entity_line_shape f Hne) in H. fold l in H.
      assert (El : (l ++ nl) ++ concat (map entity_line fs) ++ R = l ++ c_nl :: concat (map entity_line fs) ++ R).
      { unfold nl, c_nl. rewrite <- app_assoc. reflexivity. }
      rewrite <- app_assoc in H. rewrite El in H.
      rewrite (gcl_at d l _ Cl H). cbn [bind].
      rewrite (read_handles_print conv_d conv_f print_d print_f (Okd okd) printd_tok scan_sp printd_conv
                 o true nhe (with_line d (st (concat (map entity_line fs) ++ R)) l) f eq_refl Hne Hbd Hn Hal Hk).
      cbn [bind with_line d_m].
      destruct (m_add_face o (d_m d) f) as [m1 [fh|]] eqn:E; [|discriminate].
      match goal with |- exists d', face_loop _ _ _ ?d2 = _ /\ _ => destruct (IH d2 R mF Hb' Hacc eq_refl) as (d' & E' & A1 & A2 & A3 & A4) end.
      exists d'. split; [exact E'|]. cbn [d_m d_pos d_stmp with_mesh with_line] in *. repeat split; auto.
  Qed.

  Lemma cell_loop_acc o nhf : nhf <= 2147483648 -> forall cs d R mC,
    Forall (ent_ok o nhf) cs -> add_cells o cs (d_m d) = Some mC -> d_is d = st (concat (map entity_line cs) ++ R) ->
    exists d', cell_loop (length cs) o nhf d = Go d' /\ d_is d' = st R /\ d_m d' = mC /\ d_pos d' = d_pos d /\ d_stmp d' = d_stmp d.
  Proof.
    intros Hn. induction cs as [|c cs IH]; intros d R mC Hb Hacc H.
    - exists d. cbn in *. inversion Hacc; subst. repeat split; auto.
    - inversion Hb as [|? ? Hp Hb']; subst. destruct Hp as (Hne & Hbd & Hal & Hk).
      cbn [length cell_loop map concat add_cells] in *.
      set (l := join_sp (zn (length c) :: map zn c)).
      assert (Cl : clean l).
      { destruct (zn_tok (length c)) as (Tk & Hh & _). apply clean_join; auto.
        clear. induction c; cbn [map]; constructor; auto. apply zn_tok. }
      rewrite (entity_line_shape c Hne) in H. fold l in H.
      assert (El : (l ++ nl) ++ concat (map entity_line cs) ++ R = l ++ c_nl :: concat (map entity_line cs) ++ R).
      { unfold nl, c_nl. rewrite <- app_assoc. reflexivity. }
      rewrite <- app_assoc in H. rewrite El in H.
      rewrite (gcl_at d l _ Cl H). cbn [bind].
      rewrite (read_handles_print conv_d conv_f print_d print_f (Okd okd) printd_tok scan_sp printd_conv
                 o false nhf (with_line d (st (concat (map entity_line cs) ++ R)) l) c eq_refl Hne Hbd Hn Hal Hk).
      cbn [bind with_line d_m].
      destruct (m_add_cell o (d_m d) c) as [m1 [ch|]] eqn:E; [|discriminate].
      destruct (lnat_eqb (last (cells m1) []) c); [|discriminate].
      match goal with |- exists d', cell_loop _ _ _ ?d2 = _ /\ _ => destruct (IH d2 R mC Hb' Hacc eq_refl) as (d' & E' & A1 & A2 & A3 & A4) end.
      exists d'. split; [exact E'|]. cbn [d_m d_pos d_stmp with_mesh with_line] in *. repeat split; auto.
  Qed.

  (* ---------------------------------------------------------------- readStream up to the end of the Polyhedra section *)

  Definition read_topo (o : opts) (s0 : istream) : res rd :=
    let d0 := {| d_is := s0; d_line := []; d_stmp := []; d_v := (0, 0, 0); d_m := mesh0; d_pos := [] |} in
    doR d1 <- gcl d0;
    let ss := sstr_of (d_line d1) in
    let '(ss1, d2) := read_keyword ss d1 in
    let header_found := bytes_eqb (d_stmp d2) (bs "OVM") in
    let '(_, d3) := read_keyword ss1 d2 in
    if bytes_eqb (d_stmp d3) (bs "BINARY") then Stop (ret_false d3) else
    doR d4 <- (if header_found then gcl d3 else Go d3);
    let '(_, d5) := read_keyword (sstr_of (d_line d4)) d4 in
    if negb (bytes_eqb (d_stmp d5) (bs "VERTICES")) then Stop (ret_false d5) else
    doR (d6, nvd) <- read_count d5;
    doR _ <- alloc o nvd 24;
    doR d7 <- vertex_loop conv_d (Z.to_nat nvd) d6;
    doR d8 <- section_header "EDGES" d7;
    doR (d9, ned) <- read_count d8;
    doR _ <- alloc o ned 8;
    doR d10 <- edge_loop (Z.to_nat ned) nvd d9;
    doR d11 <- section_header "FACES" d10;
    doR (d12, nfd) <- read_count d11;
    doR _ <- alloc o nfd 24;
    doR d13 <- face_loop (Z.to_nat nfd) o (wrap64 (2 * ned)) d12;
    doR d14 <- section_header "POLYHEDRA" d13;
    doR (d15, ncd) <- read_count d14;
    doR _ <- alloc o ncd 24;
    doR d16 <- cell_loop (Z.to_nat ncd) o (wrap64 (2 * nfd)) d15;
    Go d16.

  Lemma read_stream_split o s0 :
    read_stream conv_d conv_f o s0 =
    match read_topo o s0 with
    | Stop st => out_of_stop st
    | Go d =>
        match prop_loop conv_d conv_f (gcl_fuel (d_is d)) o (d_m d) (d_is d) [pos_entry (rev_append (d_pos d) [])] with
        | Stop st => out_of_stop st
        | Go (s1, props) =>
            if negb (eofb s1) then RFalse {| f_is := s1; f_mesh := d_m d; f_props := props |}
            else
              let m1 := if o_bu o then enable_fbu true (enable_ebu true (enable_vbu true (d_m d))) else d_m d in
              RTrue {| f_is := s1; f_mesh := m1; f_props := props |}
        end
    end.
  Proof. reflexivity. Qed.

  (* ---------------------------------------------------------------- the writer's text with a remainder *)

  Definition tcells (m : mesh) (R : list byte) : list byte :=
    bs "Polyhedra" ++ c_nl :: zn (nc m) ++ c_nl :: concat (map entity_line (cells m)) ++ R.
  Definition tfaces (m : mesh) (R : list byte) : list byte :=
    bs "Faces" ++ c_nl :: zn (nf m) ++ c_nl :: concat (map entity_line (faces m)) ++ tcells m R.
  Definition tedges (m : mesh) (R : list byte) : list byte :=
    bs "Edges" ++ c_nl :: zn (ne m) ++ c_nl :: concat (map eline (edges m)) ++ tfaces m R.
  Definition tvertices (w : wmesh) (R : list byte) : list byte :=
    bs "Vertices" ++ c_nl :: zn (nv (w_mesh w)) ++ c_nl :: concat (map (vline print_d) (w_pos w)) ++ tedges (w_mesh w) R.
  Definition ttopo (w : wmesh) (R : list byte) : list byte := join_sp [bs "OVM"; bs "ASCII"] ++ c_nl :: tvertices w R.

  (* a mesh without pending deletions, inside the limits of the format and of the reader configuration o *)
  Record wft (o : opts) (w : wmesh) : Prop := {
    wt_live_v : live_vertices (w_mesh w) = seq 0 (nv (w_mesh w));
    wt_live_e : live_edges (w_mesh w) = seq 0 (ne (w_mesh w));
    wt_live_f : live_faces (w_mesh w) = seq 0 (nf (w_mesh w));
    wt_live_c : live_cells (w_mesh w) = seq 0 (nc (w_mesh w));
    wt_pos_len : length (w_pos w) = nv (w_mesh w);
    wt_pos_ok : Forall (okp (Okd okd)) (w_pos w);
    wt_nv : Z.of_nat (nv (w_mesh w)) <= 2147483648 /\ Z.of_nat (nv (w_mesh w)) * 24 <= o_alloc o;
    wt_ne : Z.of_nat (2 * ne (w_mesh w)) <= 2147483648 /\ Z.of_nat (ne (w_mesh w)) * 8 <= o_alloc o;
    wt_nf : Z.of_nat (2 * nf (w_mesh w)) <= 2147483648 /\ Z.of_nat (nf (w_mesh w)) * 24 <= o_alloc o;
    wt_nc : Z.of_nat (nc (w_mesh w)) <= 2147483648 /\ Z.of_nat (nc (w_mesh w)) * 24 <= o_alloc o;
    wt_edges : Forall (fun e => Z.of_nat (fst e) < Z.of_nat (nv (w_mesh w)) /\ Z.of_nat (snd e) < Z.of_nat (nv (w_mesh w))) (edges (w_mesh w));
    wt_faces : Forall (ent_ok o (Z.of_nat (2 * ne (w_mesh w)))) (faces (w_mesh w));
    wt_cells : Forall (ent_ok o (Z.of_nat (2 * nf (w_mesh w)))) (cells (w_mesh w))
  }.

  Lemma write_ascii_split o w : wft o w ->
    write_ascii print_d print_f w = ttopo w (write_props print_d print_f (w_props w)).
  Proof.
    intros W. unfold write_ascii. rewrite (wt_live_v o w W), (wt_live_e o w W), (wt_live_f o w W), (wt_live_c o w W).
    assert (EV : map (fun v => let '(x, y, z) := pos_at w v in print_d x ++ sp ++ print_d y ++ sp ++ print_d z ++ nl) (seq 0 (nv (w_mesh w)))
                 = map (vline print_d) (w_pos w)).
    { rewrite <- (wt_pos_len o w W). unfold pos_at. exact (map_nth_seq (vline print_d) (0, 0, 0) (w_pos w)). }
    rewrite EV.
    assert (EE : map (fun e => let '(a, b) := edge_at (w_mesh w) e in zn a ++ sp ++ zn b ++ nl) (seq 0 (ne (w_mesh w))) = map eline (edges (w_mesh w))).
    { unfold ne, edge_at. rewrite <- (map_nth_seq eline (0%nat, 0%nat) (edges (w_mesh w))). apply map_ext. intros i.
      destruct (nth i (edges (w_mesh w)) (0%nat, 0%nat)); reflexivity. }
    rewrite EE.
    assert (EF : map (fun f => entity_line (face_at (w_mesh w) f)) (seq 0 (nf (w_mesh w))) = map entity_line (faces (w_mesh w))).
    { unfold nf, face_at. exact (map_nth_seq entity_line [] (faces (w_mesh w))). }
    rewrite EF.
    assert (EC : map (fun c => entity_line (cell_at (w_mesh w) c)) (seq 0 (nc (w_mesh w))) = map entity_line (cells (w_mesh w))).
    { unfold nc, cell_at. exact (map_nth_seq entity_line [] (cells (w_mesh w))). }
    rewrite EC.
    unfold ttopo, tvertices, tedges, tfaces, tcells, nl, c_nl.
    change (bs "OVM ASCII") with (join_sp [bs "OVM"; bs "ASCII"]).
    repeat (first [rewrite <- app_assoc | progress cbn [app]]). reflexivity.
  Qed.

  Lemma alloc_small o n esz : 0 <= n <= 2147483648 -> (esz = 8 \/ esz = 24) -> n * esz <= o_alloc o -> alloc o n esz = Go tt.
  Proof.
    intros Hn He Ha. unfold alloc.
    assert (P1 : (n >? ptrdiff_max / esz) = false).
    { destruct He as [->| ->]; [change (ptrdiff_max / 8) with 1152921504606846975 | change (ptrdiff_max / 24) with 384307168202282325]; lia. }
    rewrite P1. assert (P2 : (n * esz >? o_alloc o) = false) by lia. rewrite P2. reflexivity.
  Qed.

  Lemma count_at d n R : Z.of_nat n < pow2 64 -> d_is d = st (zn n ++ c_nl :: R) ->
    read_count d = Go (with_line d (st R) (zn n), Z.of_nat n).
  Proof. exact (read_count_at conv_d print_d (Okd okd) scan_sp d n R). Qed.

  Theorem read_topo_print o w R mC : wft o w -> built o (w_mesh w) = Some mC ->
    exists d, read_topo o (st (ttopo w R)) = Go d /\ d_is d = st R /\ d_m d = mC /\
              d_pos d = rev (map (rp3 conv_d print_d) (w_pos w)).
  Proof.
    intros W HB. unfold read_topo, ttopo.
    set (m := w_mesh w) in *.
    destruct (wt_nv o w W) as [Nv1 Nv2]. destruct (wt_ne o w W) as [Ne1 Ne2]. destruct (wt_nf o w W) as [Nf1 Nf2]. destruct (wt_nc o w W) as [Nc1 Nc2].
    fold m in Nv1, Nv2, Ne1, Ne2, Nf1, Nf2, Nc1, Nc2.
    unfold built in HB. fold m in HB.
    destruct (add_faces o (faces m) (add_edges (edges m) (add_vertices (nv m) mesh0))) as [mF|] eqn:HF; [|discriminate].
    (* header *)
    assert (TkO : tokp (bs "OVM")) by tok_closed. assert (TkA : tokp (bs "ASCII")) by tok_closed.
    rewrite (gcl_at _ (join_sp [bs "OVM"; bs "ASCII"]) (tvertices w R)); [|apply clean_join; [exact TkO|constructor; [exact TkA|constructor]|discriminate]|reflexivity].
    cbn [bind with_line d_line]. unfold sstr_of at 1, of_bytes at 1.
    change (mk (join_sp [bs "OVM"; bs "ASCII"]) false false) with (st (bs "OVM" ++ 32 :: bs "ASCII" ++ [])).
    rewrite read_keyword_tok_0; [|auto|right; eexists; reflexivity]. cbn [is_nil].
    fold (st (32 :: bs "ASCII" ++ [])). rewrite read_keyword_tok_sp; [|auto|left; reflexivity].
    cbn [with_stmp d_stmp].
    change (bytes_eqb (upper (bs "ASCII")) (bs "BINARY")) with false. cbn iota.
    change (bytes_eqb (upper (bs "OVM")) (bs "OVM")) with true. cbn iota.
    (* Vertices *)
    assert (TkV : tokp (bs "Vertices")) by tok_closed.
    unfold tvertices.
    erewrite (gcl_at _ (bs "Vertices")); [|apply clean_tok; [auto|discriminate]|cbn [d_is with_stmp with_line]; reflexivity].
    cbn [bind with_line d_line]. unfold sstr_of at 1, of_bytes at 1.
    change (mk (bs "Vertices") false false) with (st (bs "Vertices" ++ [])).
    rewrite read_keyword_tok_0; [|auto|left; reflexivity].
    cbn [with_stmp d_stmp].
    change (bytes_eqb (upper (bs "Vertices")) (bs "VERTICES")) with true. cbn [negb]. cbn iota.
    erewrite (count_at _ (nv m)); [|unfold pow2; lia|cbn [d_is with_stmp with_line]; reflexivity]. cbn [bind].
    rewrite (alloc_small o (Z.of_nat (nv m)) 24); [|lia|auto|auto]. cbn [bind].
    rewrite Nat2Z.id. fold m.
    match goal with |- context [vertex_loop conv_d _ ?d] =>
      destruct (vertex_loop_print conv_d conv_f print_d print_f (Okd okd) printd_tok scan_sp printd_conv
                  (w_pos w) d (tedges m R) (wt_pos_ok o w W) eq_refl) as (d7 & E7 & S7 & V7a & V7b & V7c & V7d & V7p & V7s) end.
    rewrite (wt_pos_len o w W) in E7, V7a. fold m in E7, V7a.
    pose proof (vertex_loop_mesh _ _ _ _ E7) as M7.
    rewrite E7. cbn [bind]. cbn [d_m d_pos with_stmp with_line] in V7a, V7b, V7c, V7d, V7p, V7s, M7.
    (* Edges *)
    assert (TkE : tokp (bs "Edges")) by tok_closed.
    unfold tedges in S7.
    rewrite (section_header_at "Edges" "EDGES" d7 _ TkE ltac:(discriminate) eq_refl S7). cbn [bind].
    erewrite (count_at _ (ne m)); [|unfold pow2; lia|cbn [d_is with_stmp with_line]; reflexivity]. cbn [bind].
    rewrite (alloc_small o (Z.of_nat (ne m)) 8); [|lia|auto|auto]. cbn [bind].
    rewrite Nat2Z.id. unfold ne at 1.
    match goal with |- context [edge_loop _ ?nvd ?d] =>
      destruct (edge_loop_print conv_d conv_f print_d print_f (Okd okd) printd_tok scan_sp printd_conv
                  nvd (edges m) d (tfaces m R)) as (d10 & E10 & S10 & V10a & V10b & V10c & V10d & V10p & V10s) end.
    { exact (wt_edges o w W). }
    { lia. }
    { reflexivity. }
    destruct (edge_loop_mesh _ _ _ _ E10) as (es & M10).
    rewrite E10. cbn [bind]. cbn [d_m d_pos with_stmp with_line] in V10a, V10b, V10c, V10d, V10p, V10s, M10.
    assert (Ees : es = edges m).
    { destruct (add_edges_topo es (d_m d7)) as (_ & X & _). rewrite <- M10, V10b in X. apply app_inv_head in X. auto. }
    subst es.
    assert (M10' : d_m d10 = add_edges (edges m) (add_vertices (nv m) mesh0)) by (rewrite M10, M7; reflexivity).
    (* Faces *)
    assert (TkF : tokp (bs "Faces")) by tok_closed.
    unfold tfaces in S10.
    rewrite (section_header_at "Faces" "FACES" d10 _ TkF ltac:(discriminate) eq_refl S10). cbn [bind].
    erewrite (count_at _ (nf m)); [|unfold pow2; lia|cbn [d_is with_stmp with_line]; reflexivity]. cbn [bind].
    rewrite (alloc_small o (Z.of_nat (nf m)) 24); [|lia|auto|auto]. cbn [bind].
    rewrite Nat2Z.id. unfold nf at 1.
    assert (W2e : wrap64 (2 * Z.of_nat (ne m)) = Z.of_nat (2 * ne m)) by (rewrite wrap64_small; lia).
    rewrite W2e.
    match goal with |- context [face_loop _ o ?nhe ?d] =>
      destruct (face_loop_acc o nhe Ne1 (faces m) d (tcells m R) mF (wt_faces o w W)) as (d13 & E13 & S13 & M13 & V13p & V13s) end.
    { cbn [d_m with_stmp with_line]. rewrite M10'. exact HF. }
    { reflexivity. }
    rewrite E13. cbn [bind]. cbn [d_m d_pos with_stmp with_line] in V13p, V13s.
    (* Polyhedra *)
    assert (TkC : tokp (bs "Polyhedra")) by tok_closed.
    unfold tcells in S13.
    rewrite (section_header_at "Polyhedra" "POLYHEDRA" d13 _ TkC ltac:(discriminate) eq_refl S13). cbn [bind].
    erewrite (count_at _ (nc m)); [|unfold pow2; lia|cbn [d_is with_stmp with_line]; reflexivity]. cbn [bind].
    rewrite (alloc_small o (Z.of_nat (nc m)) 24); [|lia|auto|auto]. cbn [bind].
    rewrite Nat2Z.id. unfold nc at 1.
    assert (W2f : wrap64 (2 * Z.of_nat (nf m)) = Z.of_nat (2 * nf m)) by (rewrite wrap64_small; lia).
    rewrite W2f.
    match goal with |- context [cell_loop _ o ?nhf ?d] =>
      destruct (cell_loop_acc o nhf Nf1 (cells m) d R mC (wt_cells o w W)) as (d16 & E16 & S16 & M16 & V16p & V16s) end.
    { cbn [d_m with_stmp with_line]. rewrite M13. exact HB. }
    { reflexivity. }
    rewrite E16. cbn [bind]. cbn [d_m d_pos with_stmp with_line] in V16p, V16s.
    exists d16. split; [reflexivity|]. split; [exact S16|]. split; [exact M16|].
    rewrite V16p, V13p, V10p, V7p. apply app_nil_r.
  Qed.
End Topo.
