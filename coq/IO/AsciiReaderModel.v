(* IO/AsciiReaderModel.v -- FileManager::readStream / readFile / readProperty / generateGenericProperty / getCleanLine
   (src/OpenVolumeMesh/FileManager/FileManagerT_impl.hh:62-470, FileManager.cc:67-130), the value deserializers
   (Serializers.cc, SerializersT_impl.hh, PropertyStorageT.hh:141-146,262-270, Handles.cc:56-69, Vector11T.hh:709-716)
   as a total function on byte lists, line by line, over the istream-lite of IO/AsciiStream.v and the kernel model
   (Kernel/Ops.v add_vertex / add_edge / add_face / add_cell, Mesh/TetModel.v, Mesh/HexModel.v guards).

   Conventions
     * every loop of the C++ that is not bounded by a count has explicit fuel; fuel running out is the outcome [RSpin]
       (getCleanLine, the property loop, the `unsigned e < uint64 val` valence loop); count loops are structural
       recursions on the count;
     * an int-handle overflow (an unsigned value above INT_MAX turned into a handle) is the outcome [RUB];
     * allocation: reserve / resize / vector(n) of n elements of [esz] bytes throws length_error when n exceeds the
       container's max_size and bad_alloc when n*esz exceeds [o_alloc] bytes (the only modelled memory limit);
     * floating-point conversion is the Section variables [conv_d] / [conv_f] (see AsciiStream.v); nothing is assumed;
     * the position property "ovm:position" is an ordinary shared vertex property of the mesh (GeometryKernel.hh:211-220),
       so a file can address it.
   The model follows /repo AFTER the repairs found with this machinery: 262e1ec (stop on a failed stream), b628a9e (a
   rejected face / cell fails the read), fa05513 (property without a name), 02047e4 + 1ccacde + 12ef533 (no uninitialised
   locals / defaults), de64241 (a face without halfedges is refused), 55fc9de (map deserializer stops on a failed stream).
   No proofs in this file. *)
From Coq Require Import ZArith Lia List Bool String Ascii.
From OVM Require Import IO.AsciiStream.
From OVM Require Import Kernel.Ops Mesh.HexModel.
Import ListNotations.
Local Open Scope Z_scope.

(* ------------------------------------------------------------------ byte strings *)

Definition bs (s : string) : list byte := map (fun a => Z.of_nat (nat_of_ascii a)) (list_ascii_of_string s).

Fixpoint bytes_eqb (a b : list byte) : bool :=
  match a, b with
  | [], [] => true
  | x :: a', y :: b' => (x =? y) && bytes_eqb a' b'
  | _, _ => false
  end.

Definition upper_c (c : byte) : byte := if (97 <=? c) && (c <=? 122) then c - 32 else c.
Definition lower_c (c : byte) : byte := if (65 <=? c) && (c <=? 90) then c + 32 else c.
Definition upper (l : list byte) := map upper_c l.
Definition lower (l : list byte) := map lower_c l.

(* trimString: " \t\r\n" *)
Definition is_trim (c : byte) : bool := (c =? 32) || (c =? 9) || (c =? 13) || (c =? 10).
Fixpoint drop_trim (l : list byte) : list byte :=
  match l with c :: t => if is_trim c then drop_trim t else l | [] => [] end.
(* rev_append instead of rev: linear time in the extracted code (List.rev is quadratic) *)
Definition trim (l : list byte) : list byte := rev_append (drop_trim (rev_append (drop_trim l) [])) [].

(* extractQuotedText: start = find_first_of('"') + 1 (npos + 1 wraps to 0), end = find_last_not_of('"');
   npos == end -> ""; else substr(start, end - start + 1) with the length computed modulo 2^64 *)
Definition c_quote : byte := 34.
Fixpoint find_first (c : byte) (l : list byte) (i : nat) : option nat :=
  match l with x :: t => if x =? c then Some i else find_first c t (S i) | [] => None end.
Fixpoint find_last_not (c : byte) (l : list byte) (i : nat) (acc : option nat) : option nat :=
  match l with x :: t => find_last_not c t (S i) (if x =? c then acc else Some i) | [] => acc end.
Definition extract_quoted (l : list byte) : list byte :=
  let start := match find_first c_quote l 0 with Some i => S i | None => O end in
  match find_last_not c_quote l 0 None with
  | None => []
  | Some e =>
      if (start <=? S e)%nat then firstn (S e - start) (skipn start l)
      else skipn start l
  end.

(* ------------------------------------------------------------------ options, values, outcomes *)

Inductive mtype := MPoly | MTet | MHex.
Record opts := { o_mesh : mtype; o_check : bool; o_bu : bool; o_alloc : Z }.

Inductive scalar := SF | SD | SI | SUI.
Inductive atype :=
| TInt | TUInt | TShort | TLong | TULong | TChar | TUChar | TBool | TFloat | TDouble | TString
| TMapHehInt | TVecDouble | TVecVh | TVecHfh | TVecVecHfh
| TVec (n : nat) (s : scalar).

Inductive aval :=
| VInt (z : Z)                 (* integral types, char (byte value), bool (0/1), handles *)
| VFlt (bits : Z)              (* float / double bit pattern *)
| VStr (s : list byte)
| VList (l : list aval).       (* std::vector, VectorT; std::map as a key-sorted list of VList [k; v] *)

Inductive exn := LengthError | BadAlloc.
Inductive ubk := UB_handle_overflow.

Record pentry := { p_kind : kind; p_name : list byte; p_type : atype; p_persistent : bool; p_vals : list aval }.

(* what the caller holds after readStream returned: the stream, the mesh, every shared property in creation order
   (the first one is the position property) *)
Record fin := { f_is : istream; f_mesh : mesh; f_props : list pentry }.

Inductive outcome :=
| RTrue (f : fin) | RFalse (f : fin) | RExn (e : exn) | RUB (u : ubk) | RSpin.

(* how a sub-step can end the read: `return false`, an exception, UB, fuel exhausted.  (Success is only decided at
   the very end of readStream, so "a stopped step is never a success" holds by typing.) *)
Inductive stop := SFalse (f : fin) | SExn (e : exn) | SUB (u : ubk) | SSpin.
Definition out_of_stop (st : stop) : outcome :=
  match st with SFalse f => RFalse f | SExn e => RExn e | SUB u => RUB u | SSpin => RSpin end.

Inductive res (A : Type) := Go (a : A) | Stop (o : stop).
Arguments Go {A} a.
Arguments Stop {A} o.
Definition bind {A B} (x : res A) (f : A -> res B) : res B :=
  match x with Go a => f a | Stop o => Stop o end.
Notation "'doR' x <- m ; f" := (bind m (fun x => f)) (at level 200, x pattern, m at level 100, f at level 200).

(* ------------------------------------------------------------------ allocation *)

Definition ptrdiff_max : Z := 9223372036854775807.
Definition alloc (o : opts) (n esz : Z) : res unit :=
  if n >? ptrdiff_max / esz then Stop (SExn LengthError)
  else if n * esz >? o_alloc o then Stop (SExn BadAlloc)
  else Go tt.

(* ------------------------------------------------------------------ getCleanLine (FileManager.cc:97-130) *)

(* one iteration either returns or leaves a good() stream from which getline consumed a delimiter *)
Fixpoint get_clean_line (fuel : nat) (s : istream) (line : list byte) : option (istream * list byte * bool) :=
  match fuel with
  | O => None
  | S k =>
      let '(s1, r) := getline s in
      let l1 := trim (match r with Some l => l | None => line end) in
      let ret := match l1 with
                 | c :: _ => negb (c =? 35)          (* '#' *)
                 | [] => false                        (* _skipEmptyLines is always true *)
                 end in
      if ret then Some (s1, l1, true)
      else if negb (good s1) then Some (s1, l1, false)
      else get_clean_line k s1 l1
  end.

Definition gcl_fuel (s : istream) : nat := S (S (length (rest s))).

(* ------------------------------------------------------------------ type and entity keywords *)

Definition type_names : list (list byte * atype) :=
  [ (bs "int", TInt); (bs "uint", TUInt); (bs "short", TShort); (bs "long", TLong); (bs "ulong", TULong);
    (bs "char", TChar); (bs "uchar", TUChar); (bs "bool", TBool); (bs "float", TFloat); (bs "double", TDouble);
    (bs "string", TString); (bs "map_heh_int", TMapHehInt); (bs "vector_double", TVecDouble);
    (bs "vector_vh", TVecVh); (bs "vector_hfh", TVecHfh); (bs "vector_vector_hfh", TVecVecHfh);
    (bs "vec2f", TVec 2 SF); (bs "vec2d", TVec 2 SD); (bs "vec2i", TVec 2 SI); (bs "vec2ui", TVec 2 SUI);
    (bs "vec3f", TVec 3 SF); (bs "vec3d", TVec 3 SD); (bs "vec3i", TVec 3 SI); (bs "vec3ui", TVec 3 SUI);
    (bs "vec4f", TVec 4 SF); (bs "vec4d", TVec 4 SD); (bs "vec4i", TVec 4 SI); (bs "vec4ui", TVec 4 SUI) ].

Fixpoint assoc_bytes {A} (k : list byte) (l : list (list byte * A)) : option A :=
  match l with
  | (k', v) :: t => if bytes_eqb k k' then Some v else assoc_bytes k t
  | [] => None
  end.

Definition type_of_name (n : list byte) : option atype := assoc_bytes n type_names.

Definition entity_names : list (list byte * kind) :=
  [ (bs "vprop", KV); (bs "eprop", KE); (bs "heprop", KHE); (bs "fprop", KF); (bs "hfprop", KHF);
    (bs "cprop", KC); (bs "mprop", KM) ].
Definition kind_of_name (n : list byte) : option kind := assoc_bytes n entity_names.

Definition scalar_eqb (a b : scalar) : bool :=
  match a, b with SF, SF | SD, SD | SI, SI | SUI, SUI => true | _, _ => false end.
Definition atype_eqb (a b : atype) : bool :=
  match a, b with
  | TInt, TInt | TUInt, TUInt | TShort, TShort | TLong, TLong | TULong, TULong | TChar, TChar | TUChar, TUChar
  | TBool, TBool | TFloat, TFloat | TDouble, TDouble | TString, TString | TMapHehInt, TMapHehInt
  | TVecDouble, TVecDouble | TVecVh, TVecVh | TVecHfh, TVecHfh | TVecVecHfh, TVecVecHfh => true
  | TVec n s, TVec m t => (n =? m)%nat && scalar_eqb s t
  | _, _ => false
  end.
Definition kind_eqb (a b : kind) : bool :=
  match a, b with KV, KV | KE, KE | KHE, KHE | KF, KF | KHF, KHF | KC, KC | KM, KM => true | _, _ => false end.

(* detail::ReaderDefault<T>::get(): T() for the scalar / container types, VectorT(Scalar(0)) for vectors *)
Definition default_val (t : atype) : aval :=
  match t with
  | TInt | TUInt | TShort | TLong | TULong | TChar | TUChar | TBool => VInt 0
  | TFloat | TDouble => VFlt 0
  | TString => VStr []
  | TMapHehInt | TVecDouble | TVecVh | TVecHfh | TVecVecHfh => VList []
  | TVec n (SF | SD) => VList (repeat (VFlt 0) n)
  | TVec n (SI | SUI) => VList (repeat (VInt 0) n)
  end.

(* ------------------------------------------------------------------ deserializers *)

Inductive dres := DOk (s : istream) (v : aval) | DStop (o : stop).

Definition or_old (o : option Z) (old : aval) : aval := match o with Some z => VInt z | None => old end.
Definition or_oldf (o : option Z) (old : aval) : aval := match o with Some z => VFlt z | None => old end.

Section Reader.
  Variable conv_d : list byte -> Z * bool.
  Variable conv_f : list byte -> Z * bool.

  Definition deser_scalar (sc : scalar) (s : istream) (old : aval) : istream * aval :=
    match sc with
    | SF => let '(s1, v) := get_float conv_f s in (s1, or_oldf v old)
    | SD => let '(s1, v) := get_float conv_d s in (s1, or_oldf v old)
    | SI => let '(s1, v) := get_num NI32 s in (s1, or_old v old)
    | SUI => let '(s1, v) := get_num NU32 s in (s1, or_old v old)
    end.

  (* VectorT operator>>: for (i < DIM) is >> _vec[i] *)
  Fixpoint deser_vec (sc : scalar) (olds : list aval) (s : istream) : istream * list aval :=
    match olds with
    | [] => (s, [])
    | o :: t => let '(s1, v) := deser_scalar sc s o in let '(s2, vs) := deser_vec sc t s1 in (s2, v :: vs)
    end.

  (* `size_t size = 0; _istr >> size;` *)
  Definition read_size (s : istream) : istream * Z :=
    let '(s1, v) := get_num NU64 s in (s1, match v with Some z => z | None => 0 end).

  (* for (i < size) deserialize(_istr, _rhs[i]) over a resized vector of handles / doubles *)
  Fixpoint deser_elems (f : istream -> aval -> istream * aval) (olds : list aval) (s : istream) : istream * list aval :=
    match olds with
    | [] => (s, [])
    | o :: t => let '(s1, v) := f s o in let '(s2, vs) := deser_elems f t s1 in (s2, v :: vs)
    end.

  Definition old_list (old : aval) : list aval := match old with VList l => l | _ => [] end.
  Definition resize_vals (n : Z) (d : aval) (l : list aval) : list aval := resize (Z.to_nat n) d l.

  Definition deser_handle (s : istream) (old : aval) : istream * aval :=
    let '(s1, v) := get_num NI32 s in (s1, or_old v old).
  Definition deser_double (s : istream) (old : aval) : istream * aval :=
    let '(s1, v) := get_float conv_d s in (s1, or_oldf v old).

  (* deserialize(std::istream&, std::vector<ValueT>&), SerializersT_impl.hh:167-177 *)
  Definition deser_vector (o : opts) (esz : Z) (d : aval) (f : istream -> aval -> istream * aval)
             (s : istream) (old : aval) : dres :=
    let '(s1, n) := read_size s in
    match alloc o n esz with
    | Stop out => DStop out
    | Go _ => let '(s2, vs) := deser_elems f (resize_vals n d (old_list old)) s1 in DOk s2 (VList vs)
    end.

  (* vector<vector<HFH>>: the inner deserializer can stop *)
  Fixpoint deser_vecvec (o : opts) (olds : list aval) (s : istream) : istream * list aval + stop :=
    match olds with
    | [] => inl (s, [])
    | x :: t =>
        match deser_vector o 4 (VInt (-1)) deser_handle s x with
        | DStop out => inr out
        | DOk s1 v =>
            match deser_vecvec o t s1 with
            | inr out => inr out
            | inl (s2, vs) => inl (s2, v :: vs)
            end
        end
    end.

  (* std::map<HalfEdgeHandle,int>: rhs[key] = value on a key-sorted association list *)
  Definition key_of (v : aval) : Z := match v with VInt z => z | _ => -1 end.
  Fixpoint map_insert (k : Z) (v : aval) (l : list aval) : list aval :=
    match l with
    | [] => [VList [VInt k; v]]
    | (VList [VInt k'; v']) as e :: t =>
        if k <? k' then VList [VInt k; v] :: l
        else if k =? k' then VList [VInt k; v] :: t
        else e :: map_insert k v t
    | e :: t => e :: map_insert k v t
    end.

  (* deserialize(std::istream&, std::map<KeyT,ValueT>&), SerializersT_impl.hh:136-153: KeyT key{} (a handle: -1);
     ValueT value{} (an int: 0) *)
  Fixpoint deser_map_loop (n : nat) (s : istream) (acc : list aval) : istream * list aval :=
    match n with
    | O => (s, acc)
    | S k =>
        let '(s1, kv) := get_num NI32 s in
        let '(s2, vv) := get_num NI32 s1 in
        if failb s2 then (s2, acc)           (* `if (!is) break;` *)
        else deser_map_loop k s2 (map_insert (match kv with Some z => z | None => -1 end)
                                             (VInt (match vv with Some z => z | None => 0 end)) acc)
    end.

  (* the loop runs `size` times unless the stream fails; every iteration that does not fail consumes at least one
     character, so min(size, |rest|+1) iterations are the same computation (AsciiProofs.deser_map_loop_cap) - this keeps
     the extracted model runnable for size = 2^64-1 *)
  Definition map_iters (n : Z) (s : istream) : nat := Z.to_nat (Z.min n (Z.of_nat (S (length (rest s))))).

  (* deserialize(std::istream&, std::string&), Serializers.cc:53-66 *)
  Definition deser_string (o : opts) (s : istream) (old : aval) : dres :=
    let '(s1, len) := get_num NU64 s in
    let '(s2, _) := get_char s1 in
    match len with
    | Some n =>
        if negb (failb s2) && negb (n =? 0) then
          match alloc o n 1 with
          | Stop out => DStop out
          | Go _ =>
              let '(s3, got) := read_n (Z.to_nat n) s2 in
              DOk s3 (VStr (got ++ repeat 0 (Z.to_nat n - length got)))
          end
        else DOk s2 old
    | None => DOk s2 old        (* `_istr && len` short-circuits: len is not read *)
    end.

  (* OpenVolumeMesh::deserialize(_istr, data_[i]) for one element of a property of type t *)
  Definition deser (o : opts) (t : atype) (s : istream) (old : aval) : dres :=
    match t with
    | TInt => let '(s1, v) := get_num NI32 s in DOk s1 (or_old v old)
    | TUInt => let '(s1, v) := get_num NU32 s in DOk s1 (or_old v old)
    | TShort => let '(s1, v) := get_num NI16 s in DOk s1 (or_old v old)
    | TLong => let '(s1, v) := get_num NI64 s in DOk s1 (or_old v old)
    | TULong => let '(s1, v) := get_num NU64 s in DOk s1 (or_old v old)
    | TChar | TUChar => let '(s1, v) := get_char s in DOk s1 (or_old v old)
    | TBool =>                     (* PropertyStorageT<bool>::deserialize: `value_type val = data_[i];` *)
        let '(s1, v) := get_num NBool s in DOk s1 (or_old v old)
    | TFloat => let '(s1, v) := get_float conv_f s in DOk s1 (or_oldf v old)
    | TDouble => let '(s1, v) := get_float conv_d s in DOk s1 (or_oldf v old)
    | TString => deser_string o s old
    | TMapHehInt =>
        let '(s1, n) := read_size s in
        let '(s2, l) := deser_map_loop (map_iters n s1) s1 [] in DOk s2 (VList l)
    | TVecDouble => deser_vector o 8 (VFlt 0) deser_double s old
    | TVecVh | TVecHfh => deser_vector o 4 (VInt (-1)) deser_handle s old
    | TVecVecHfh =>
        let '(s1, n) := read_size s in
        match alloc o n 24 with
        | Stop out => DStop out
        | Go _ =>
            match deser_vecvec o (resize_vals n (VList []) (old_list old)) s1 with
            | inr out => DStop out
            | inl (s2, vs) => DOk s2 (VList vs)
            end
        end
    | TVec n sc =>
        let olds := match old with VList l => l | _ => old_list (default_val (TVec n sc)) end in
        let '(s1, vs) := deser_vec sc olds s in DOk s1 (VList vs)
    end.

  (* PropertyStorageT::deserialize: for (i < size()) deserialize(_istr, data_[i]) *)
  Fixpoint deser_all (o : opts) (t : atype) (olds : list aval) (s : istream) : istream * list aval + stop :=
    match olds with
    | [] => inl (s, [])
    | x :: rest =>
        match deser o t s x with
        | DStop out => inr out
        | DOk s1 v =>
            match deser_all o t rest s1 with
            | inr out => inr out
            | inl (s2, vs) => inl (s2, v :: vs)
            end
        end
    end.

  (* ------------------------------------------------------------------ properties *)

  Definition prop_matches (k : kind) (name : list byte) (t : atype) (p : pentry) : bool :=
    kind_eqb k (p_kind p) && bytes_eqb name (p_name p) && atype_eqb t (p_type p).

  Fixpoint find_prop (k : kind) (name : list byte) (t : atype) (l : list pentry) (i : nat) : option (nat * pentry) :=
    match l with
    | p :: r => if prop_matches k name t p then Some (i, p) else find_prop k name t r (S i)
    | [] => None
    end.

  (* generateGenericProperty<PropT>: request_*_property(name), deserialize, set_persistent *)
  Definition generate_property (o : opts) (m : mesh) (k : kind) (name : list byte) (t : atype)
             (s : istream) (props : list pentry) : res (istream * list pentry) :=
    match name with
    | [] => Go (set_fail s, props)      (* fix fa05513: a property without a name sets failbit and is not read *)
    | _ =>
        match find_prop k name t props 0 with
        | Some (i, p) =>
            match deser_all o t (p_vals p) s with
            | inr out => Stop out
            | inl (s1, vs) =>
                Go (s1, upd i {| p_kind := k; p_name := name; p_type := t; p_persistent := true; p_vals := vs |} props)
            end
        | None =>
            match deser_all o t (repeat (default_val t) (count k m)) s with
            | inr out => Stop out
            | inl (s1, vs) =>
                Go (s1, props ++ [{| p_kind := k; p_name := name; p_type := t; p_persistent := true; p_vals := vs |}])
            end
        end
    end.

  (* readProperty (FileManagerT_impl.hh:371-428) *)
  Definition read_property (o : opts) (m : mesh) (s : istream) (props : list pentry) : res (istream * list pentry) :=
    match get_clean_line (gcl_fuel s) s [] with
    | None => Stop SSpin
    | Some (s1, line, _) =>
        match line with
        | [] => Go (s1, props)
        | _ =>
            let ss := sstr_of line in
            let '(ss1, w1) := get_word ss in
            let entity_t := lower (match w1 with Some w => w | None => [] end) in
            let '(_, w2) := get_word ss1 in
            let prop_t := lower (match w2 with Some w => w | None => [] end) in
            let name := extract_quoted line in
            match type_of_name prop_t with
            | None => Go (s1, props)
            | Some t =>
                (* generateGenericProperty<PropT> tests the name before the entity keyword *)
                match name, kind_of_name entity_t with
                | [], _ => Go (set_fail s1, props)
                | _, None => Go (s1, props)
                | _, Some k => generate_property o m k name t s1 props
                end
            end
        end
    end.

  (* while(_istream.good()) readProperty(_istream, _mesh); *)
  Fixpoint prop_loop (fuel : nat) (o : opts) (m : mesh) (s : istream) (props : list pentry) : res (istream * list pentry) :=
    if good s then
      match fuel with
      | O => Stop SSpin
      | S k =>
          doR (s1, p1) <- read_property o m s props;
          prop_loop k o m s1 p1
      end
    else Go (s, props).

  (* ------------------------------------------------------------------ the sections *)

  (* d_pos: the positions added so far, LAST vertex first *)
  Record rd := { d_is : istream; d_line : list byte; d_stmp : list byte; d_v : Z * Z * Z; d_m : mesh; d_pos : list aval }.

  Definition pos_name : list byte := bs "ovm:position".
  Definition pos_entry (pos : list aval) : pentry :=
    {| p_kind := KV; p_name := pos_name; p_type := TVec 3 SD; p_persistent := false; p_vals := pos |}.
  Definition fin_of (d : rd) : fin := {| f_is := d_is d; f_mesh := d_m d; f_props := [pos_entry (rev_append (d_pos d) [])] |}.
  Definition ret_false (d : rd) : stop := SFalse (fin_of d).

  Definition with_line (d : rd) (s : istream) (l : list byte) : rd :=
    {| d_is := s; d_line := l; d_stmp := d_stmp d; d_v := d_v d; d_m := d_m d; d_pos := d_pos d |}.
  Definition with_stmp (d : rd) (w : list byte) : rd :=
    {| d_is := d_is d; d_line := d_line d; d_stmp := w; d_v := d_v d; d_m := d_m d; d_pos := d_pos d |}.
  Definition with_mesh (d : rd) (m : mesh) : rd :=
    {| d_is := d_is d; d_line := d_line d; d_stmp := d_stmp d; d_v := d_v d; d_m := m; d_pos := d_pos d |}.

  (* getCleanLine(_istream, line) on the reader's own `line` variable *)
  Definition gcl (d : rd) : res rd :=
    match get_clean_line (gcl_fuel (d_is d)) (d_is d) (d_line d) with
    | None => Stop SSpin
    | Some (s1, l1, _) => Go (with_line d s1 l1)
    end.

  (* sstr >> s_tmp; transform(toupper): s_tmp keeps its old value when the extraction fails *)
  Definition read_keyword (ss : istream) (d : rd) : istream * rd :=
    let '(ss1, w) := get_word ss in
    (ss1, with_stmp d (upper (match w with Some x => x | None => d_stmp d end))).

  (* getCleanLine; sstr.clear(); sstr.str(line); sstr >> s_tmp; toupper; compare *)
  Definition section_header (kw : string) (d : rd) : res rd :=
    doR d1 <- gcl d;
    let '(_, d2) := read_keyword (sstr_of (d_line d1)) d1 in
    if bytes_eqb (d_stmp d2) (bs kw) then Go d2 else Stop (ret_false d2).

  (* getCleanLine; sstr >> n (size_t, initialised to 0; n_cells since fix 12ef533) *)
  Definition read_count (d : rd) : res (rd * Z) :=
    doR d1 <- gcl d;
    let '(_, n) := get_num NU64 (sstr_of (d_line d1)) in
    Go (d1, match n with Some z => z | None => 0 end).

  Definition valz (o : option Z) (old : Z) : Z := match o with Some z => z | None => old end.

  (* for(i < n_vertices) { getCleanLine; sstr >> v[0] >> v[1] >> v[2]; add_vertex(v) } *)
  Fixpoint vertex_loop (n : nat) (d : rd) : res rd :=
    match n with
    | O => Go d
    | S k =>
        doR d1 <- gcl d;
        let ss := sstr_of (d_line d1) in
        let '(ss1, x) := get_float conv_d ss in
        let '(ss2, y) := get_float conv_d ss1 in
        let '(_, z) := get_float conv_d ss2 in
        let '(vx, vy, vz) := d_v d1 in
        let v := (valz x vx, valz y vy, valz z vz) in
        let '(m1, _) := add_vertex (d_m d1) in
        vertex_loop k {| d_is := d_is d1; d_line := d_line d1; d_stmp := d_stmp d1; d_v := v; d_m := m1;
                         d_pos := VList [VFlt (fst (fst v)); VFlt (snd (fst v)); VFlt (snd v)] :: d_pos d1 |}
    end.

  Definition int_max_z : Z := 2147483647.

  (* for(i < n_edges) { v1 = v2 = 0; getCleanLine; sstr >> v1 >> v2; range check; add_edge(v1, v2, true) } *)
  Fixpoint edge_loop (n : nat) (nvd : Z) (d : rd) : res rd :=
    match n with
    | O => Go d
    | S k =>
        doR d1 <- gcl d;
        let ss := sstr_of (d_line d1) in
        let '(ss1, a) := get_num NU32 ss in
        let '(_, b) := get_num NU32 ss1 in
        let v1 := valz a 0 in let v2 := valz b 0 in
        if (v1 >=? nvd) || (v2 >=? nvd) then Stop (ret_false d1)
        else if (v1 >? int_max_z) || (v2 >? int_max_z) then Stop (SUB UB_handle_overflow)
        else
          let '(m1, _) := add_edge (d_m d1) (Z.to_nat v1) (Z.to_nat v2) true in
          edge_loop k nvd (with_mesh d1 m1)
    end.

  (* for(unsigned e = 0; e < val; ++e) { v1 = 0; sstr >> v1; if (v1 >= limit) return false; push_back } *)
  Fixpoint handle_loop (n : nat) (limit : Z) (ss : istream) : option (list nat) + ubk :=
    match n with
    | O => inl (Some [])
    | S k =>
        let '(ss1, a) := get_num NU32 ss in
        let v1 := valz a 0 in
        if v1 >=? limit then inl None
        else if v1 >? int_max_z then inr UB_handle_overflow
        else match handle_loop k limit ss1 with
             | inl (Some l) => inl (Some (Z.to_nat v1 :: l))
             | r => r
             end
    end.

  Definition two32 : Z := 4294967296.

  (* one face / cell line: valence, reserve, handles.  With val >= 2^32 the `unsigned` counter never reaches val:
     the loop ends only through the range check (the line is finite, so after |line|+1 iterations every further
     iteration reads v1 = 0 from a failed stream) *)
  Definition read_handles (o : opts) (is_face : bool) (limit : Z) (d : rd) : res (list nat) :=
    let ss := sstr_of (d_line d) in
    let '(ss1, vo) := get_num NU64 ss in
    let val := valz vo 0 in
    if is_face && (val =? 0) then Stop (ret_false d) else       (* a face without halfedges is refused *)
    doR _ <- alloc o val 4;
    if val <? two32 then
      match handle_loop (Z.to_nat val) limit ss1 with
      | inl (Some l) => Go l
      | inl None => Stop (ret_false d)
      | inr u => Stop (SUB u)
      end
    else
      match handle_loop (S (length (d_line d))) limit ss1 with
      | inl None => Stop (ret_false d)
      | inl (Some _) => Stop SSpin
      | inr u => Stop (SUB u)
      end.

  Definition m_add_face (o : opts) (m : mesh) (hes : list nat) : mesh * option nat :=
    match o_mesh o with
    | MPoly => add_face m hes (o_check o)
    | MTet => tet_add_face m hes (o_check o)
    | MHex => hex_add_face m hes (o_check o)
    end.

  Definition m_add_cell (o : opts) (m : mesh) (hfs : list nat) : mesh * option nat :=
    match o_mesh o with
    | MPoly => add_cell m hfs (o_check o)
    | MTet => tet_add_cell m hfs (o_check o)
    | MHex => hex_add_cell m hfs (o_check o)
    end.

  Fixpoint face_loop (n : nat) (o : opts) (nhe : Z) (d : rd) : res rd :=
    match n with
    | O => Go d
    | S k =>
        doR d1 <- gcl d;
        doR hes <- read_handles o true nhe d1;
        match m_add_face o (d_m d1) hes with
        | (m1, Some _) => face_loop k o nhe (with_mesh d1 m1)
        | (_, None) => Stop (ret_false d1)
        end
    end.

  Fixpoint cell_loop (n : nat) (o : opts) (nhf : Z) (d : rd) : res rd :=
    match n with
    | O => Go d
    | S k =>
        doR d1 <- gcl d;
        doR hfs <- read_handles o false nhf d1;
        match m_add_cell o (d_m d1) hfs with
        | (m1, Some _) => cell_loop k o nhf (with_mesh d1 m1)
        | (_, None) => Stop (ret_false d1)
        end
    end.

  Definition wrap64 (z : Z) : Z := z mod 18446744073709551616.

  (* FileManager::readStream on a freshly constructed mesh *)
  Definition read_stream (o : opts) (s0 : istream) : outcome :=
    let m0 := enable_fbu false (enable_ebu false (enable_vbu false (clear_mesh false empty_mesh))) in
    let d0 := {| d_is := s0; d_line := []; d_stmp := []; d_v := (0, 0, 0); d_m := m0; d_pos := [] |} in
    let r :=
      (* header *)
      doR d1 <- gcl d0;
      let ss := sstr_of (d_line d1) in
      let '(ss1, d2) := read_keyword ss d1 in
      let header_found := bytes_eqb (d_stmp d2) (bs "OVM") in
      let '(_, d3) := read_keyword ss1 d2 in
      if bytes_eqb (d_stmp d3) (bs "BINARY") then Stop (ret_false d3) else
      (* vertices *)
      doR d4 <- (if header_found then gcl d3 else Go d3);
      let '(_, d5) := read_keyword (sstr_of (d_line d4)) d4 in
      if negb (bytes_eqb (d_stmp d5) (bs "VERTICES")) then Stop (ret_false d5) else
      doR (d6, nvd) <- read_count d5;
      doR _ <- alloc o nvd 24;
      doR d7 <- vertex_loop (Z.to_nat nvd) d6;
      (* edges *)
      doR d8 <- section_header "EDGES" d7;
      doR (d9, ned) <- read_count d8;
      doR _ <- alloc o ned 8;
      doR d10 <- edge_loop (Z.to_nat ned) nvd d9;
      (* faces *)
      doR d11 <- section_header "FACES" d10;
      doR (d12, nfd) <- read_count d11;
      doR _ <- alloc o nfd 24;
      doR d13 <- face_loop (Z.to_nat nfd) o (wrap64 (2 * ned)) d12;
      (* cells *)
      doR d14 <- section_header "POLYHEDRA" d13;
      doR (d15, ncd) <- read_count d14;
      doR _ <- alloc o ncd 24;
      doR d16 <- cell_loop (Z.to_nat ncd) o (wrap64 (2 * nfd)) d15;
      Go d16 in
    match r with
    | Stop st => out_of_stop st
    | Go d =>
        match prop_loop (gcl_fuel (d_is d)) o (d_m d) (d_is d) [pos_entry (rev_append (d_pos d) [])] with
        | Stop st => out_of_stop st
        | Go (s1, props) =>
            if negb (eofb s1) then RFalse {| f_is := s1; f_mesh := d_m d; f_props := props |}
            else
              let m1 := if o_bu o then enable_fbu true (enable_ebu true (enable_vbu true (d_m d))) else d_m d in
              RTrue {| f_is := s1; f_mesh := m1; f_props := props |}
        end
    end.

  Definition read_ascii (o : opts) (bytes : list byte) : outcome := read_stream o (of_bytes bytes).
End Reader.
