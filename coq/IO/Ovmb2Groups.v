(* IO/Ovmb2Groups.v -- an entity list carried by several consecutive chunks ("split into spans"): the VERT chunks, the TOPO edge
   chunks, the TOPO face chunks and the TOPO cell chunks of a file, each group with its spans chained (every span starts
   where the previous one ended), each chunk with its own integer width, handle offset and valence form. *)
From Coq Require Import ZArith List Bool Lia.
From OVM Require Import Base.Int32 Gen.OvmbFormat IO.Bytes IO.OvmbWriterModel IO.OvmbReaderModel IO.OvmbProofs
  IO.Ovmb2Base IO.Ovmb2Chunk IO.Ovmb2Alt IO.Ovmb2Ints IO.Ovmb2Topo IO.Ovmb2Vert IO.Ovmb2Dirp IO.Ovmb2Prop IO.Ovmb2Run.
Import ListNotations.
Local Open Scope Z_scope.

(* ================================================================================================ state algebra *)
Lemma add_verts_0 st : add_verts 0 [] st = st.
Proof. destruct st. unfold add_verts. cbn. rewrite Z.add_0_r, app_nil_r. reflexivity. Qed.
Lemma add_edges_0 st : add_edges 0 [] st = st.
Proof. destruct st. unfold add_edges. cbn. rewrite Z.add_0_r, app_nil_r. reflexivity. Qed.
Lemma add_faces_0 st : add_faces 0 [] st = st.
Proof. destruct st. unfold add_faces. cbn. rewrite Z.add_0_r, app_nil_r. reflexivity. Qed.
Lemma add_cells_0 st : add_cells 0 [] st = st.
Proof. destruct st. unfold add_cells. cbn. rewrite Z.add_0_r, app_nil_r. reflexivity. Qed.

Lemma add_verts_add n1 p1 n2 p2 st : add_verts n2 p2 (add_verts n1 p1 st) = add_verts (n1 + n2) (p1 ++ p2) st.
Proof. unfold add_verts. cbn. rewrite Z.add_assoc, app_assoc. reflexivity. Qed.
Lemma add_edges_add n1 p1 n2 p2 st : add_edges n2 p2 (add_edges n1 p1 st) = add_edges (n1 + n2) (p1 ++ p2) st.
Proof. unfold add_edges. cbn. rewrite Z.add_assoc, app_assoc. reflexivity. Qed.
Lemma add_faces_add n1 p1 n2 p2 st : add_faces n2 p2 (add_faces n1 p1 st) = add_faces (n1 + n2) (p1 ++ p2) st.
Proof. unfold add_faces. cbn. rewrite Z.add_assoc, app_assoc. reflexivity. Qed.
Lemma add_cells_add n1 p1 n2 p2 st : add_cells n2 p2 (add_cells n1 p1 st) = add_cells (n1 + n2) (p1 ++ p2) st.
Proof. unfold add_cells. cbn. rewrite Z.add_assoc, app_assoc. reflexivity. Qed.

(* ================================================================================================ VERT *)
Fixpoint vert_chunks (first : Z) (segs : list (list (list Z))) : list chunkd :=
  match segs with
  | [] => []
  | s :: t => CVert first s :: vert_chunks (first + len s) t
  end.

Definition vseg_ok (dim : Z) (s : list (list Z)) : Prop :=
  len s < 4294967296 /\ len s * (8 * dim) < 2305843009213693952 /\ Forall (pos_ok (Z.to_nat dim)) s.

Lemma len_vert_payload dim first ps : Forall (pos_ok (Z.to_nat dim)) ps -> 0 <= dim ->
  len (vert_payload first ps) = 16 + len ps * (8 * dim).
Proof.
  intros H Hd. unfold vert_payload. pose proof (len_enc_positions _ _ H) as E. rewrite Z2Nat.id in E by lia. lens. zlia.
Qed.

Lemma vert_group o h : forall segs st,
  o_dim o = h_dim h -> 1 <= h_dim h -> 0 <= r_nvr st -> r_nvr st + len (concat segs) <= h_nv h ->
  h_nv h < 18446744073709551616 -> Forall (vseg_ok (h_dim h)) segs ->
  run_valid o h st (vert_chunks (r_nvr st) segs) /\
  run_st st (vert_chunks (r_nvr st) segs) = add_verts (len (concat segs)) (concat segs) st.
Proof.
  induction segs as [|s t IH]; intros st Hdim Hd1 Hr0 Hr1 Htot Hs.
  - cbn [vert_chunks run_valid run_st concat]. split; [exact I|]. symmetry. apply add_verts_0.
  - inversion Hs as [|? ? [Hs0 [Hs1 Hs2]] Hst]; subst.
    cbn [concat] in Hr1. rewrite len_app in Hr1.
    pose proof (len_nonneg s). pose proof (len_nonneg (concat t)).
    cbn [vert_chunks run_valid run_st concat].
    set (st1 := next_st st (CVert (r_nvr st) s)).
    assert (E1 : r_nvr st1 = r_nvr st + len s) by reflexivity.
    destruct (IH st1) as [IH1 IH2]; try assumption; try (rewrite E1; lia).
    rewrite E1 in IH1, IH2.
    split.
    + split; [|exact IH1].
      split; [cbn [payload_of]; rewrite (len_vert_payload (h_dim h)) by (assumption || lia); unfold max_payload; lia|].
      repeat split; try assumption; try lia; try nia.
    + rewrite IH2. unfold st1. cbn [next_st]. rewrite add_verts_add, len_app. reflexivity.
Qed.

(* ================================================================================================ TOPO, edges *)
Record eseg := { es_henc : Z; es_off : Z; es_items : list (Z * Z) }.

Fixpoint edge_chunks (first : Z) (segs : list eseg) : list chunkd :=
  match segs with
  | [] => []
  | s :: t => CEdge first (es_henc s) (es_off s) (es_items s) :: edge_chunks (first + len (es_items s)) t
  end.

Definition all_edges (segs : list eseg) : list (Z * Z) := concat (map es_items segs).

Definition eseg_ok (nvr : Z) (s : eseg) : Prop :=
  es_items s <> [] /\ enc_ok (es_henc s) /\ 0 <= es_off s < 18446744073709551616 /\
  Forall (edge_fits (es_henc s) (es_off s) nvr) (es_items s).

Lemma len_edges_payload first henc off es : enc_ok henc -> len (edges_payload first henc off es) = 24 + len es * (2 * henc).
Proof.
  intros He. unfold edges_payload, topo_header_off. pose proof (len_enc_edges henc off es He) as E. lens. zlia.
Qed.

Lemma edge_group o h : forall segs st,
  0 <= r_ner st -> r_ner st + len (all_edges segs) <= h_ne h -> h_ne h < 18446744073709551616 ->
  len (all_edges segs) < 2147483648 -> r_nvr st <= 2147483648 -> Forall (eseg_ok (r_nvr st)) segs ->
  run_valid o h st (edge_chunks (r_ner st) segs) /\
  run_st st (edge_chunks (r_ner st) segs) = add_edges (len (all_edges segs)) (all_edges segs) st.
Proof.
  unfold all_edges.
  induction segs as [|s t IH]; intros st Hr0 Hr1 Htot Hlen Hnv Hs.
  - cbn [edge_chunks run_valid run_st map concat]. split; [exact I|]. symmetry. apply add_edges_0.
  - inversion Hs as [|? ? [Hs1 [Hs2 [Hs3 Hs4]]] Hst]; subst.
    cbn [map concat] in Hr1, Hlen. rewrite len_app in Hr1, Hlen.
    pose proof (len_nonneg (es_items s)). pose proof (len_nonneg (concat (map es_items t))).
    cbn [edge_chunks run_valid run_st map concat].
    set (st1 := next_st st (CEdge (r_ner st) (es_henc s) (es_off s) (es_items s))).
    assert (E1 : r_ner st1 = r_ner st + len (es_items s)) by reflexivity.
    assert (E2 : r_nvr st1 = r_nvr st) by reflexivity.
    destruct (IH st1) as [IH1 IH2]; try assumption; try (rewrite ?E1, ?E2; lia); try (rewrite E2; assumption).
    rewrite E1 in IH1, IH2.
    split.
    + split; [|exact IH1].
      split; [cbn [payload_of]; rewrite len_edges_payload by assumption; pose proof (enc_ok_pos _ Hs2); unfold max_payload; nia|].
      repeat split; try assumption; try lia.
    + rewrite IH2. unfold st1. cbn [next_st]. rewrite add_edges_add, len_app. reflexivity.
Qed.

(* ================================================================================================ TOPO, faces and cells *)
Record pseg := { ps_form : pform; ps_henc : Z; ps_off : Z; ps_items : list (list Z) }.

Fixpoint poly_chunks (entity first : Z) (segs : list pseg) : list chunkd :=
  match segs with
  | [] => []
  | s :: t => CPoly entity first (ps_form s) (ps_henc s) (ps_off s) (ps_items s) :: poly_chunks entity (first + len (ps_items s)) t
  end.

Definition all_items (segs : list pseg) : list (list Z) := concat (map ps_items segs).

Definition pseg_ok (entity lim : Z) (s : pseg) : Prop :=
  ps_items s <> [] /\ enc_ok (ps_henc s) /\ 0 <= ps_off s < 18446744073709551616 /\ form_ok (ps_form s) (ps_items s) /\
  Forall (Forall (handle_fits (ps_henc s) (ps_off s) lim)) (ps_items s) /\
  len (poly_payload entity 0 (ps_form s) (ps_henc s) (ps_off s) (ps_items s)) < max_payload.

Lemma len_poly_payload entity first f henc off items : enc_ok henc ->
  len (poly_payload entity first f henc off items) = 24 + len (valence_data f items) + hsum items * henc.
Proof.
  intros He. unfold poly_payload, topo_header_off. pose proof (len_enc_items henc off items He) as E. lens. zlia.
Qed.

Lemma len_poly_payload_first entity f1 f2 f henc off items :
  len (poly_payload entity f1 f henc off items) = len (poly_payload entity f2 f henc off items).
Proof. unfold poly_payload, topo_header_off. lens. reflexivity. Qed.

Lemma add_accepts_app add a b : add_accepts add (a ++ b) -> add_accepts add a /\ add_accepts add b.
Proof. unfold add_accepts. intros H. apply Forall_app in H. exact H. Qed.

Lemma topo_req_app topo r1 r2 a b : topo_req topo r1 r2 (a ++ b) -> topo_req topo r1 r2 a /\ topo_req topo r1 r2 b.
Proof.
  unfold topo_req, valences_are. intros [H1 H2]. split; split; intros E.
  - specialize (H1 E). apply Forall_app in H1. apply H1.
  - specialize (H2 E). apply Forall_app in H2. apply H2.
  - specialize (H1 E). apply Forall_app in H1. apply H1.
  - specialize (H2 E). apply Forall_app in H2. apply H2.
Qed.

Lemma face_group o h : forall segs st,
  0 <= r_nfr st -> r_nfr st + len (all_items segs) <= h_nf h -> h_nf h < 18446744073709551616 ->
  len (all_items segs) < 4294967296 -> 2 * r_ner st <= 2147483648 ->
  Forall (pseg_ok TopoEntity_Face (2 * r_ner st)) segs ->
  topo_req (h_topo h) 3 4 (all_items segs) ->
  add_accepts (fun hs _ => mesh_add_face o (r_edges st) hs) (all_items segs) ->
  run_valid o h st (poly_chunks TopoEntity_Face (r_nfr st) segs) /\
  run_st st (poly_chunks TopoEntity_Face (r_nfr st) segs) = add_faces (len (all_items segs)) (all_items segs) st.
Proof.
  unfold all_items.
  induction segs as [|s t IH]; intros st Hr0 Hr1 Htot Hlen Hlim Hs Htopo Hadd.
  - cbn [poly_chunks run_valid run_st map concat]. split; [exact I|]. symmetry. apply add_faces_0.
  - inversion Hs as [|? ? [Hs1 [Hs2 [Hs3 [Hs4 [Hs5 Hs6]]]]] Hst]; subst.
    cbn [map concat] in Hr1, Hlen, Htopo, Hadd. rewrite len_app in Hr1, Hlen.
    apply topo_req_app in Htopo. destruct Htopo as [Htopo1 Htopo2].
    apply add_accepts_app in Hadd. destruct Hadd as [Hadd1 Hadd2].
    pose proof (len_nonneg (ps_items s)). pose proof (len_nonneg (concat (map ps_items t))).
    cbn [poly_chunks run_valid run_st map concat].
    set (st1 := next_st st (CPoly TopoEntity_Face (r_nfr st) (ps_form s) (ps_henc s) (ps_off s) (ps_items s))).
    assert (E1 : r_nfr st1 = r_nfr st + len (ps_items s)) by reflexivity.
    assert (E2 : r_ner st1 = r_ner st) by reflexivity.
    assert (E3 : r_edges st1 = r_edges st) by reflexivity.
    destruct (IH st1) as [IH1 IH2]; try assumption; try (rewrite ?E1, ?E2; lia); try (rewrite ?E2, ?E3; assumption).
    rewrite E1 in IH1, IH2.
    split.
    + split; [|exact IH1].
      rewrite (len_poly_payload_first _ 0 (r_nfr st)) in Hs6.
      split; [exact Hs6|].
      rewrite len_poly_payload in Hs6 by exact Hs2. pose proof (len_nonneg (valence_data (ps_form s) (ps_items s))).
      unfold max_payload in Hs6.
      repeat split; try assumption; try lia.
      left. repeat split; try assumption; try lia. apply Htopo1. apply Htopo1.
    + rewrite IH2. unfold st1. cbn [next_st]. change (TopoEntity_Face =? TopoEntity_Face) with true. cbv iota.
      rewrite add_faces_add, len_app. reflexivity.
Qed.

Lemma cell_group o h : forall segs st,
  0 <= r_ncr st -> r_ncr st + len (all_items segs) <= h_nc h -> h_nc h < 18446744073709551616 ->
  len (all_items segs) < 4294967296 -> 2 * r_nfr st <= 2147483648 ->
  Forall (pseg_ok TopoEntity_Cell (2 * r_nfr st)) segs ->
  topo_req (h_topo h) 4 6 (all_items segs) ->
  add_accepts (fun hs _ => mesh_add_cell o (r_edges st) (r_faces st) hs) (all_items segs) ->
  run_valid o h st (poly_chunks TopoEntity_Cell (r_ncr st) segs) /\
  run_st st (poly_chunks TopoEntity_Cell (r_ncr st) segs) = add_cells (len (all_items segs)) (all_items segs) st.
Proof.
  unfold all_items.
  induction segs as [|s t IH]; intros st Hr0 Hr1 Htot Hlen Hlim Hs Htopo Hadd.
  - cbn [poly_chunks run_valid run_st map concat]. split; [exact I|]. symmetry. apply add_cells_0.
  - inversion Hs as [|? ? [Hs1 [Hs2 [Hs3 [Hs4 [Hs5 Hs6]]]]] Hst]; subst.
    cbn [map concat] in Hr1, Hlen, Htopo, Hadd. rewrite len_app in Hr1, Hlen.
    apply topo_req_app in Htopo. destruct Htopo as [Htopo1 Htopo2].
    apply add_accepts_app in Hadd. destruct Hadd as [Hadd1 Hadd2].
    pose proof (len_nonneg (ps_items s)). pose proof (len_nonneg (concat (map ps_items t))).
    cbn [poly_chunks run_valid run_st map concat].
    set (st1 := next_st st (CPoly TopoEntity_Cell (r_ncr st) (ps_form s) (ps_henc s) (ps_off s) (ps_items s))).
    assert (E1 : r_ncr st1 = r_ncr st + len (ps_items s)) by reflexivity.
    assert (E2 : r_nfr st1 = r_nfr st) by reflexivity.
    assert (E3 : r_faces st1 = r_faces st) by reflexivity.
    destruct (IH st1) as [IH1 IH2]; try assumption; try (rewrite ?E1, ?E2; lia); try (rewrite ?E2, ?E3; assumption).
    rewrite E1 in IH1, IH2.
    split.
    + split; [|exact IH1].
      rewrite (len_poly_payload_first _ 0 (r_ncr st)) in Hs6.
      split; [exact Hs6|].
      rewrite len_poly_payload in Hs6 by exact Hs2. pose proof (len_nonneg (valence_data (ps_form s) (ps_items s))).
      unfold max_payload in Hs6.
      repeat split; try assumption; try lia.
      right. repeat split; try assumption; try lia. apply Htopo1. apply Htopo1.
    + rewrite IH2. unfold st1. cbn [next_st]. change (TopoEntity_Cell =? TopoEntity_Face) with false. cbv iota.
      rewrite add_cells_add, len_app. reflexivity.
Qed.
