(* IO/OvmbWriterModel.v -- the data the OVMB format carries (`meshfile`) and `encode`, following
   src/OpenVolumeMesh/IO/detail/BinaryFileWriter.cc chunk by chunk (file header, DIRP?, VERT?, TOPO edges/faces/cells,
   PROP x n, EOF), Encoder.cc, ovmb_codec.cc (write(...)), PropertyCodecs.cc (BoolPropCodec, SimplePropCodec).
   Definitions only (proofs: IO/OvmbProofs.v).  The integer-width rule, enum values, element sizes and the padding
   arithmetic are the REGENERATED leaves of Gen/OvmbFormat.v. *)
From Coq Require Import String Ascii.
From Coq Require Import ZArith List Bool.
From OVM Require Import Base.Int32 Gen.OvmbFormat IO.Bytes.
Import ListNotations.
Local Open Scope Z_scope.

(* ------------------------------------------------------------------------------------------------ property codecs *)
(* canonical value representation: bool = [0] or [1]; fixed-size types = their little-endian bytes (IEEE values as bit
   patterns, handles as i32, vectors component-wise); string = its characters *)
Inductive ptype := TBool | TFix (size : Z) | TStr.

Fixpoint bytes_of_string (s : string) : list byte :=
  match s with
  | EmptyString => []
  | String a t => Z.of_N (N_of_ascii a) :: bytes_of_string t
  end.

(* PropertyCodecs::add_default_types / add_ovm_vector_types: ovmb type name -> codec *)
Definition codec_table : list (string * ptype) :=
  [ ("b", TBool); ("u8", TFix 1); ("u16", TFix 2); ("u32", TFix 4); ("u64", TFix 8);
    ("i8", TFix 1); ("i16", TFix 2); ("i32", TFix 4); ("i64", TFix 8); ("f", TFix 4); ("d", TFix 8);
    ("s32", TStr);
    ("vh", TFix 4); ("eh", TFix 4); ("heh", TFix 4); ("fh", TFix 4); ("hfh", TFix 4); ("ch", TFix 4);
    ("2d", TFix 16); ("3d", TFix 24); ("4d", TFix 32); ("2f", TFix 8); ("3f", TFix 12); ("4f", TFix 16);
    ("2u32", TFix 8); ("3u32", TFix 12); ("4u32", TFix 16); ("2i32", TFix 8); ("3i32", TFix 12); ("4i32", TFix 16) ]%string.

Fixpoint list_eqb (a b : list Z) : bool :=
  match a, b with
  | [], [] => true
  | x :: s, y :: t => (x =? y) && list_eqb s t
  | _, _ => false
  end.

Fixpoint find_codec (tbl : list (string * ptype)) (tn : list byte) : option ptype :=
  match tbl with
  | [] => None
  | (s, ty) :: t => if list_eqb (bytes_of_string s) tn then Some ty else find_codec t tn
  end.
Definition codec_of (tn : list byte) : option ptype := find_codec codec_table tn.

(* ------------------------------------------------------------------------------------------------ mesh file content *)
Record prop := {
  p_ent : Z;                    (* OVMB PropertyEntity code 0..6 *)
  p_name : list byte;
  p_tname : list byte;          (* OVMB type name *)
  p_def : list byte;            (* canonical default value *)
  p_vals : list (list byte)     (* canonical values, one per entity *)
}.

Record meshfile := {
  m_nv : Z;
  m_pos : list (list Z);        (* per vertex: `dim` 64-bit patterns (vertices beyond the list have all-zero positions) *)
  m_edges : list (Z * Z);
  m_faces : list (list Z);      (* halfedge handles *)
  m_cells : list (list Z);      (* halfface handles *)
  m_props : list prop           (* persistent properties, in the order the writer visits them *)
}.

Definition ent_count (m : meshfile) (ent : Z) : Z :=
  if ent =? PropertyEntity_Vertex then m_nv m
  else if ent =? PropertyEntity_Edge then len (m_edges m)
  else if ent =? PropertyEntity_Face then len (m_faces m)
  else if ent =? PropertyEntity_Cell then len (m_cells m)
  else if ent =? PropertyEntity_HalfEdge then 2 * len (m_edges m)
  else if ent =? PropertyEntity_HalfFace then 2 * len (m_faces m)
  else 1.

(* for_each_entity order: V, E, HE, F, HF, C, M as OVMB entity codes *)
Definition writer_entity_order : list Z :=
  [PropertyEntity_Vertex; PropertyEntity_Edge; PropertyEntity_HalfEdge; PropertyEntity_Face; PropertyEntity_HalfFace;
   PropertyEntity_Cell; PropertyEntity_Mesh].

(* ------------------------------------------------------------------------------------------------ encoders *)
(* Codec::encode_one *)
Definition encode_value (ty : ptype) (v : list byte) : list byte :=
  match ty with
  | TStr => enc_u32 (len v) ++ v
  | _ => v
  end.

(* BoolPropCodec::encode_n: 8 values per byte, bit i of the byte = value i of the group *)
Fixpoint pack_bits (vs : list (list byte)) (w : Z) : Z :=
  match vs with
  | [] => 0
  | v :: t => (if (hd 0 v) =? 0 then 0 else w) + pack_bits t (2 * w)
  end.
Fixpoint pack_bools (fuel : nat) (vs : list (list byte)) : list byte :=
  match fuel with
  | O => []
  | S f => match vs with
           | [] => []
           | _ => pack_bits (firstn 8 vs) 1 :: pack_bools f (skipn 8 vs)
           end
  end.

Definition encode_n (ty : ptype) (vs : list (list byte)) : list byte :=
  match ty with
  | TBool => pack_bools (length vs) vs
  | _ => concat (map (encode_value ty) vs)
  end.

(* Encoder::writeVec<uint32_t> *)
Definition write_vec32 (v : list byte) : list byte := enc_u32 (len v) ++ v.

(* write_one of call_with_encoder(enc): the value is passed as uint8_t / uint16_t / uint32_t (truncation) *)
Definition enc_int (enc : Z) (v : Z) : list byte :=
  le_encode (Z.to_nat (elem_size_IntEncoding enc)) (v mod 256 ^ elem_size_IntEncoding enc).

(* BinaryFileWriter::write_chunk *)
Definition write_chunk (ty : Z) (payload : list byte) : list byte :=
  let n := len payload in
  enc_u32 ty ++ [0; write_chunk_padding_bytes n; 0; ChunkFlags_Mandatory] ++ enc_u64 (write_chunk_file_length n)
  ++ payload ++ repeat 0 (Z.to_nat (write_chunk_padding_bytes n)).

Definition write_span (first count : Z) : list byte := enc_u64 first ++ enc_u32 count.

(* write(Encoder&, FileHeader): file_version = header_version = 1 *)
Definition write_file_header (dim topo : Z) (m : meshfile) : list byte :=
  ovmb_magic ++ [1; 1; dim; topo] ++ [0; 0; 0; 0]
  ++ enc_u64 (m_nv m) ++ enc_u64 (len (m_edges m)) ++ enc_u64 (len (m_faces m)) ++ enc_u64 (len (m_cells m)).

(* write_propdir: properties without encoder are skipped ("Could not find encoder ... ignoring") *)
Definition written_props (m : meshfile) : list (prop * ptype) :=
  flat_map (fun p => match codec_of (p_tname p) with Some ty => [(p, ty)] | None => [] end) (m_props m).

Definition dirp_entry (pt : prop * ptype) : list byte :=
  let (p, ty) := pt in
  [p_ent p] ++ write_vec32 (p_name p) ++ write_vec32 (p_tname p) ++ write_vec32 (encode_value ty (p_def p)).

Definition write_propdir (m : meshfile) : list byte :=
  let payload := concat (map dirp_entry (written_props m)) in
  match payload with
  | [] => []
  | _ => write_chunk ChunkType_PropertyDirectory payload
  end.

(* write_vertices: VertexEncoding::Double *)
Definition write_vertices (m : meshfile) : list byte :=
  let count := c_uint (m_nv m) in
  if count =? 0 then []
  else write_chunk ChunkType_Vertices
         (write_span 0 count ++ [VertexEncoding_Double; 0; 0; 0] ++ concat (map (fun p => concat (map enc_u64 p)) (m_pos m))).

Definition topo_header (first count entity valence venc henc : Z) : list byte :=
  write_span first count ++ [entity; valence; venc; henc] ++ enc_u64 0.

(* write_edges: fixed valence 2 *)
Definition write_edges (m : meshfile) : list byte :=
  let count := c_uint (len (m_edges m)) in
  if count =? 0 then []
  else
    let henc := suitable_int_encoding (c_uint (m_nv m)) in
    write_chunk ChunkType_Topo
      (topo_header 0 count TopoEntity_Edge 2 IntEncoding_None henc
       ++ concat (map (fun e => enc_int henc (fst e) ++ enc_int henc (snd e)) (m_edges m))).

Definition list_min (l : list Z) (d : Z) : Z := fold_left Z.min l d.
Definition list_max (l : list Z) (d : Z) : Z := fold_left Z.max l d.

(* start_topo_chunk with a valence function + the handle loop of write_faces / write_cells *)
Definition write_poly_topo (entity : Z) (items : list (list Z)) (henc : Z) : list byte :=
  let count := c_uint (len items) in
  if count =? 0 then []
  else
    let vals := map (fun x => len x) items in
    let mn := list_min vals 4294967295 in
    let mx := list_max vals 0 in
    let fixed := (mn =? mx) && negb (mn =? 0) && (mn <=? 255) in
    let valence := if fixed then mn else 0 in
    let venc := if fixed then IntEncoding_None else suitable_int_encoding mx in
    write_chunk ChunkType_Topo
      (topo_header 0 count entity valence venc henc
       ++ (if valence =? 0 then (if venc =? IntEncoding_None then [] else concat (map (enc_int venc) vals)) else [])
       ++ concat (map (fun x => concat (map (enc_int henc) x)) items)).

Definition write_faces (m : meshfile) : list byte :=
  write_poly_topo TopoEntity_Face (m_faces m) (suitable_int_encoding (c_uint (2 * len (m_edges m)))).
Definition write_cells (m : meshfile) : list byte :=
  write_poly_topo TopoEntity_Cell (m_cells m) (suitable_int_encoding (c_uint (2 * len (m_faces m)))).

Fixpoint write_props (idx : Z) (ps : list (prop * ptype)) : list byte :=
  match ps with
  | [] => []
  | (p, ty) :: t =>
      write_chunk ChunkType_Property (write_span 0 (c_uint (len (p_vals p))) ++ enc_u32 idx ++ encode_n ty (p_vals p))
      ++ write_props (idx + 1) t
  end.

(* BinaryFileWriter::do_write_file for a mesh without pending deletions and a good stream *)
Definition encode (dim topo : Z) (m : meshfile) : list byte :=
  write_file_header dim topo m
  ++ write_propdir m ++ write_vertices m ++ write_edges m ++ write_faces m ++ write_cells m
  ++ write_props 0 (written_props m)
  ++ write_chunk ChunkType_EndOfFile [].

(* ------------------------------------------------------------------------------------------------ writer results *)
Inductive wresult := WOk | WError | WCannotOpenFile | WBadStream.

(* do_write_file: a mesh that needs garbage collection is refused before anything is written; the final result is taken
   from the stream state: a stream that accepts only k bytes ends in a failed state iff something had to be dropped *)
Definition write_result (pending : bool) (dim topo : Z) (m : meshfile) (accepts : Z) : wresult * list byte :=
  if pending then (WError, [])
  else let b := encode dim topo m in
       if accepts <? len b then (WError, firstn (Z.to_nat accepts) b) else (WOk, b).

(* TopologyType.hh: detect_topology_type for a polyhedral mesh object *)
Definition mesh_is_tet (m : meshfile) : bool :=
  negb (len (m_cells m) =? 0) && forallb (fun f => len f =? 3) (m_faces m) && forallb (fun c => len c =? 4) (m_cells m).
Definition mesh_is_hex (m : meshfile) : bool :=
  negb (len (m_cells m) =? 0) && forallb (fun f => len f =? 4) (m_faces m) && forallb (fun c => len c =? 6) (m_cells m).
(* mesh_kind: 0 polyhedral object, 1 tetrahedral mesh class, 2 hexahedral mesh class *)
Definition detect_topo (mesh_kind : Z) (m : meshfile) : Z :=
  if mesh_kind =? 1 then TopoType_Tetrahedral
  else if mesh_kind =? 2 then TopoType_Hexahedral
  else if mesh_is_tet m then TopoType_Tetrahedral
  else if mesh_is_hex m then TopoType_Hexahedral
  else TopoType_Polyhedral.

(* ------------------------------------------------------------------------------------------------ well-formed files *)
Definition value_okb (ty : ptype) (v : list byte) : bool :=
  forallb (fun b => (0 <=? b) && (b <? 256)) v &&
  match ty with
  | TBool => match v with [b] => (b =? 0) || (b =? 1) | _ => false end
  | TFix n => len v =? n
  | TStr => len v <? two32
  end.

Definition prop_key_eqb (p q : prop) : bool :=
  (p_ent p =? p_ent q) && list_eqb (p_name p) (p_name q) && list_eqb (p_tname p) (p_tname q).

Fixpoint nodup_props (ps : list prop) : bool :=
  match ps with
  | [] => true
  | p :: t => negb (existsb (prop_key_eqb p) t) && nodup_props t
  end.

Definition prop_okb (m : meshfile) (p : prop) : bool :=
  (0 <=? p_ent p) && (p_ent p <=? 6) &&
  negb (len (p_name p) =? 0) && (len (p_name p) <? two32) &&
  forallb (fun b => (0 <=? b) && (b <? 256)) (p_name p) &&
  match codec_of (p_tname p) with
  | None => false
  | Some ty => value_okb ty (p_def p) && forallb (value_okb ty) (p_vals p) && (len (p_vals p) =? ent_count m (p_ent p))
  end.

Definition in_range (lim : Z) (h : Z) : bool := (0 <=? h) && (h <? lim).

(* what the writer can express and the reader accepts for a mesh object of dimension `dim`:
   counts below 2^30 (every half-entity handle is a valid int), every stored handle in range, one position per vertex,
   no face of valence 0 (outside the kernel's contract: the writer's face_halfedges circulator reads halfedges()[0]),
   valences below 2^32, properties with a registered type, distinct (entity, name, type), one value per entity *)
Definition wf_fileb (dim : Z) (m : meshfile) : bool :=
  (0 <=? m_nv m) && (m_nv m <? 1073741824) && (len (m_edges m) <? 1073741824) &&
  (len (m_faces m) <? 1073741824) && (len (m_cells m) <? 1073741824) &&
  (len (m_pos m) =? m_nv m) &&
  forallb (fun p => (len p =? dim) && forallb (fun x => (0 <=? x) && (x <? two64)) p) (m_pos m) &&
  forallb (fun e => in_range (m_nv m) (fst e) && in_range (m_nv m) (snd e)) (m_edges m) &&
  forallb (fun f => forallb (in_range (2 * len (m_edges m))) f && (len f <? two32)) (m_faces m) &&
  forallb (fun c => forallb (in_range (2 * len (m_faces m))) c && (len c <? two32)) (m_cells m) &&
  forallb (fun f => negb (len f =? 0)) (m_faces m) &&
  forallb (prop_okb m) (m_props m) && nodup_props (m_props m).

Definition wf_file (dim : Z) (m : meshfile) : Prop := wf_fileb dim m = true.
