(* IO/Ovmb2Wf.v -- what wf_file (the writer's contract, IO/OvmbWriterModel.v) says, as propositions; the codec table; the
   property keys; list_min / list_max of the valence lists. *)
From Coq Require Import String Ascii.
From Coq Require Import ZArith List Bool Lia.
From OVM Require Import Base.Int32 Gen.OvmbFormat IO.Bytes IO.OvmbWriterModel IO.OvmbReaderModel IO.OvmbProofs
  IO.Ovmb2Base IO.Ovmb2Chunk IO.Ovmb2Alt IO.Ovmb2Ints IO.Ovmb2Topo IO.Ovmb2Vert IO.Ovmb2Dirp IO.Ovmb2Prop IO.Ovmb2Run
  IO.Ovmb2Groups IO.Ovmb2PropGroup IO.Ovmb2Layout IO.Ovmb2Writer.
Import ListNotations.
Local Open Scope Z_scope.

(* ================================================================================================ wf_file unpacked *)
Record wf_facts (dim : Z) (m : meshfile) : Prop := {
  wf_nv0 : 0 <= m_nv m;
  wf_nv : m_nv m < 1073741824;
  wf_ne : len (m_edges m) < 1073741824;
  wf_nf : len (m_faces m) < 1073741824;
  wf_nc : len (m_cells m) < 1073741824;
  wf_npos : len (m_pos m) = m_nv m;
  wf_pos : Forall (fun p => len p = dim /\ Forall u64_ok p) (m_pos m);
  wf_edges : Forall (fun e => in_lim0 (m_nv m) (fst e) /\ in_lim0 (m_nv m) (snd e)) (m_edges m);
  wf_faces : Forall (fun f => Forall (in_lim0 (2 * len (m_edges m))) f /\ len f < 4294967296) (m_faces m);
  wf_cells : Forall (fun c => Forall (in_lim0 (2 * len (m_faces m))) c /\ len c < 4294967296) (m_cells m);
  wf_fnonempty : Forall (fun f => len f <> 0) (m_faces m);
  wf_propsok : Forall (fun p => prop_okb m p = true) (m_props m);
  wf_nodup : nodup_props (m_props m) = true
}.

Lemma in_range_lim lim x : in_range lim x = true -> in_lim0 lim x.
Proof. unfold in_range, in_lim0. intros H. apply andb_true_iff in H. destruct H as [A B]. apply Z.leb_le in A. apply Z.ltb_lt in B. lia. Qed.

Lemma forallb_in_lim lim l : forallb (in_range lim) l = true -> Forall (in_lim0 lim) l.
Proof. intros H. apply Forall_forallb in H. eapply Forall_impl; [|exact H]. intros x. apply in_range_lim. Qed.

Lemma forallb_u64 p : forallb (fun x => (0 <=? x) && (x <? two64)) p = true -> Forall u64_ok p.
Proof.
  intros H. apply Forall_forallb in H. eapply Forall_impl; [|exact H]. intros x Hx. cbv beta in Hx.
  apply andb_true_iff in Hx. destruct Hx as [A B]. apply Z.leb_le in A. apply Z.ltb_lt in B. unfold u64_ok, two64 in *. lia.
Qed.

Lemma wf_unpack dim m : wf_file dim m -> wf_facts dim m.
Proof.
  unfold wf_file, wf_fileb. intros H.
  repeat (apply andb_true_iff in H; let H' := fresh "W" in destruct H as [H H']).
  apply Z.leb_le in H. apply Z.ltb_lt in W10. apply Z.ltb_lt in W9. apply Z.ltb_lt in W8. apply Z.ltb_lt in W7.
  apply Z.eqb_eq in W6.
  constructor; try assumption.
  - apply Forall_forallb in W5. eapply Forall_impl; [|exact W5]. intros p Hp. cbv beta in Hp.
    apply andb_true_iff in Hp. destruct Hp as [A B]. apply Z.eqb_eq in A. split; [exact A|apply forallb_u64; exact B].
  - apply Forall_forallb in W4. eapply Forall_impl; [|exact W4]. intros e He. cbv beta in He.
    apply andb_true_iff in He. destruct He as [A B]. split; apply in_range_lim; assumption.
  - apply Forall_forallb in W3. eapply Forall_impl; [|exact W3]. intros f Hf. cbv beta in Hf.
    apply andb_true_iff in Hf. destruct Hf as [A B]. split; [apply forallb_in_lim; exact A|apply Z.ltb_lt in B; exact B].
  - apply Forall_forallb in W2. eapply Forall_impl; [|exact W2]. intros f Hf. cbv beta in Hf.
    apply andb_true_iff in Hf. destruct Hf as [A B]. split; [apply forallb_in_lim; exact A|apply Z.ltb_lt in B; exact B].
  - apply Forall_forallb in W1. eapply Forall_impl; [|exact W1]. intros f Hf. cbv beta in Hf.
    apply negb_true_iff in Hf. apply Z.eqb_neq in Hf. exact Hf.
  - apply Forall_forallb in W0. exact W0.
Qed.

(* ================================================================================================ the codec table *)
Definition ty_okb (ty : ptype) : bool := match ty with TFix n => 1 <=? n | _ => true end.

Lemma ty_okb_ok ty : ty_okb ty = true -> ty_ok ty.
Proof. destruct ty; cbn; intros H; try exact I. apply Z.leb_le in H. exact H. Qed.

Lemma find_codec_in tbl tn ty : find_codec tbl tn = Some ty -> exists s, In (s, ty) tbl /\ bytes_of_string s = tn.
Proof.
  induction tbl as [|[s t] r IH]; cbn [find_codec]; intros H; [discriminate|].
  destruct (list_eqb (bytes_of_string s) tn) eqn:E.
  - inversion H; subst. exists s. split; [left; reflexivity|apply list_eqb_eq; exact E].
  - destruct (IH H) as [s' [A B]]. exists s'. split; [right; exact A|exact B].
Qed.

Lemma codec_table_ok : forallb (fun x => ty_okb (snd x) && (len (bytes_of_string (fst x)) <? 4294967296)) codec_table = true.
Proof. vm_compute. reflexivity. Qed.

Lemma codec_of_ok tn ty : codec_of tn = Some ty -> ty_ok ty /\ len tn < 4294967296.
Proof.
  intros H. apply find_codec_in in H. destruct H as [s [A B]].
  pose proof codec_table_ok as T. rewrite forallb_forall in T. specialize (T _ A). cbn [fst snd] in T.
  apply andb_true_iff in T. destruct T as [T1 T2]. apply Z.ltb_lt in T2. subst tn.
  split; [apply ty_okb_ok; exact T1|exact T2].
Qed.

Lemma value_okb_val ty v : value_okb ty v = true -> val_ok ty v.
Proof.
  unfold value_okb. intros H. apply andb_true_iff in H. destruct H as [_ H]. destruct ty as [|n|]; cbn [val_ok].
  - destruct v as [|b [|? ?]]; try discriminate. apply orb_true_iff in H. unfold bool_val.
    destruct H as [H|H]; apply Z.eqb_eq in H; subst; auto.
  - apply Z.eqb_eq in H. exact H.
  - apply Z.ltb_lt in H. unfold two32 in H. exact H.
Qed.

(* ================================================================================================ written properties *)
Lemma written_props_spec ps : Forall (fun p => exists ty, codec_of (p_tname p) = Some ty) ps ->
  map fst (flat_map (fun p => match codec_of (p_tname p) with Some ty => [(p, ty)] | None => [] end) ps) = ps /\
  Forall (fun pt => codec_of (p_tname (fst pt)) = Some (snd pt))
         (flat_map (fun p => match codec_of (p_tname p) with Some ty => [(p, ty)] | None => [] end) ps).
Proof.
  induction 1 as [|p t [ty Hty] Ht [IH1 IH2]]; cbn [flat_map map]; [split; [reflexivity|constructor]|].
  rewrite Hty. cbn [app map fst]. split; [f_equal; exact IH1|]. constructor; [exact Hty|exact IH2].
Qed.

Lemma prop_okb_codec m p : prop_okb m p = true -> exists ty, codec_of (p_tname p) = Some ty.
Proof. unfold prop_okb. intros H. apply andb_true_iff in H. destruct H as [_ H]. destruct (codec_of (p_tname p)); [eauto|discriminate]. Qed.

(* ================================================================================================ property keys *)
Lemma find_storage_none e n t : forall l i, Forall (fun s => storage_key_eqb e n t s = false) l -> find_storage i l e n t = None.
Proof. induction l as [|s r IH]; intros i H; [reflexivity|]. inversion H; subst. cbn [find_storage]. rewrite H2. apply IH. exact H3. Qed.

Lemma keys_fresh_nodup : forall (es pre : list (prop * ptype)),
  (forall q p, In q pre -> In p es -> prop_key_eqb (fst q) (fst p) = false) ->
  nodup_props (map fst es) = true -> keys_fresh (map storage_of pre) es.
Proof.
  induction es as [|pt t IH]; intros pre Hpre Hnd; [exact I|].
  cbn [map nodup_props] in Hnd. apply andb_true_iff in Hnd. destruct Hnd as [Hn1 Hn2]. apply negb_true_iff in Hn1.
  cbn [keys_fresh]. split.
  - apply find_storage_none. apply Forall_forall. intros s Hs. apply in_map_iff in Hs. destruct Hs as [q [<- Hq]].
    exact (Hpre q pt Hq (or_introl eq_refl)).
  - replace (map storage_of pre ++ [storage_of pt]) with (map storage_of (pre ++ [pt])) by (rewrite map_app; reflexivity).
    apply IH; [|exact Hn2].
    intros q p Hq Hp. apply in_app_iff in Hq. destruct Hq as [Hq|[<-|[]]].
    + apply Hpre; [exact Hq|right; exact Hp].
    + destruct (prop_key_eqb (fst pt) (fst p)) eqn:E; [|reflexivity].
      assert (X : existsb (prop_key_eqb (fst pt)) (map fst t) = true).
      { apply existsb_exists. exists (fst p). split; [apply in_map; exact Hp|exact E]. }
      rewrite X in Hn1. discriminate.
Qed.

(* ================================================================================================ list_min / list_max *)
Lemma fold_min_le l : forall d, fold_left Z.min l d <= d /\ Forall (fun x => fold_left Z.min l d <= x) l.
Proof.
  induction l as [|x t IH]; intros d; cbn [fold_left]; [split; [lia|constructor]|].
  destruct (IH (Z.min d x)) as [A B]. split; [lia|]. constructor; [lia|exact B].
Qed.

Lemma fold_max_ge l : forall d, d <= fold_left Z.max l d /\ Forall (fun x => x <= fold_left Z.max l d) l.
Proof.
  induction l as [|x t IH]; intros d; cbn [fold_left]; [split; [lia|constructor]|].
  destruct (IH (Z.max d x)) as [A B]. split; [lia|]. constructor; [lia|exact B].
Qed.

Lemma fold_min_lb lb l : forall d, lb <= d -> Forall (fun x => lb <= x) l -> lb <= fold_left Z.min l d.
Proof. induction l as [|x t IH]; intros d Hd H; cbn [fold_left]; [exact Hd|]. inversion H; subst. apply IH; [lia|assumption]. Qed.

Lemma fold_max_ub ub l : forall d, d < ub -> Forall (fun x => x < ub) l -> fold_left Z.max l d < ub.
Proof. induction l as [|x t IH]; intros d Hd H; cbn [fold_left]; [exact Hd|]. inversion H; subst. apply IH; [lia|assumption]. Qed.

Lemma writer_form_ok items : Forall (fun x => len x < 4294967296) items -> form_ok (writer_form items) items.
Proof.
  intros Hl. unfold writer_form. unfold writer_fixed in *. cbv zeta in *.
  set (vals := map (fun x => len x) items) in *.
  assert (Hv : Forall (fun v => 0 <= v < 4294967296) vals).
  { unfold vals. clear - Hl. induction Hl; cbn [map]; constructor; [pose proof (len_nonneg x); lia|assumption]. }
  destruct (fold_min_le vals 4294967295) as [Mn1 Mn2]. destruct (fold_max_ge vals 0) as [Mx1 Mx2].
  fold (list_min vals 4294967295) in Mn1, Mn2. fold (list_max vals 0) in Mx1, Mx2.
  assert (Mx3 : list_max vals 0 < 4294967296).
  { apply fold_max_ub; [lia|]. eapply Forall_impl; [|exact Hv]. intros; cbv beta in *; lia. }
  destruct ((list_min vals 4294967295 =? list_max vals 0) && negb (list_min vals 4294967295 =? 0) && (list_min vals 4294967295 <=? 255)) eqn:F.
  - apply andb_true_iff in F. destruct F as [F F3]. apply andb_true_iff in F. destruct F as [F1 F2].
    apply Z.eqb_eq in F1. apply negb_true_iff in F2. apply Z.eqb_neq in F2. apply Z.leb_le in F3.
    assert (Mn0 : 0 <= list_min vals 4294967295).
    { apply fold_min_lb; [lia|]. eapply Forall_impl; [|exact Hv]. intros; cbv beta in *; lia. }
    assert (Hall : Forall (fun x => len x = list_min vals 4294967295) items).
    { rewrite F1 in *. remember (list_max vals 0) as k eqn:Ek. clear Ek. unfold vals in Mn2, Mx2. clear - Mn2 Mx2.
      induction items as [|x t IH]; [constructor|]. cbn [map] in *. inversion Mn2; subst. inversion Mx2; subst.
      constructor; [lia|apply IH; assumption]. }
    cbn [form_ok]. split; [lia|exact Hall].
  - cbn [form_ok]. split; [apply suitable_ok|].
    unfold vals in Mx2. clear - Mx2 Mx3. set (mx := list_max (map (fun x => len x) items) 0) in *.
    assert (G : Forall (fun x => len x <= mx) items).
    { clearbody mx. clear Mx3. induction items as [|x t IH]; [constructor|]. cbn [map] in Mx2.
      inversion Mx2 as [|? ? Hx Ht]; subst. constructor; [exact Hx|apply IH; exact Ht]. }
    eapply Forall_impl; [|exact G]. intros x Hx. cbv beta in Hx. change (list_max vals 0) with mx in *. apply suitable_fits; [pose proof (len_nonneg x); lia|exact Mx3].
Qed.
