(* IO/Ascii2RoundTrip.v -- C06 (ASCII), the whole file with persistent properties, for every reader configuration:
     read_write_props : read_ascii o (write_ascii w) = RTrue f1 where f1 holds exactly the mesh the kernel builds from w's
                        topology ([built o]), the reparsed coordinates and - after the position property - every written
                        property, kind by kind in the writer's order, with the same kind, name, type and the reparsed values;
     read_write_props_twice : writing what was read and reading it again returns the very same result f1.
   Hypotheses on the number printers / converters: a printed numeral is one token that does not start with '#', num_get's
   scanner accepts exactly it before whitespace or the end, its conversion does not set failbit, a reparsed value is
   printable again and parse (print (parse (print x))) = parse (print x). *)
From Coq Require Import ZArith Lia List Bool String Ascii Permutation.
From OVM Require Import Kernel.Ops.
From OVM Require Import IO.AsciiStream IO.AsciiReaderModel IO.AsciiWriterModel IO.AsciiProofs.
From OVM Require Import IO.Ascii2Num IO.Ascii2Val IO.Ascii2Prop IO.Ascii2Topo IO.Ascii2Sort.
Import ListNotations.
Local Open Scope Z_scope.

Lemma forallb_map {A B} (f : A -> B) (p : B -> bool) (q : A -> bool) l :
  (forall x, q x = true -> p (f x) = true) -> forallb q l = true -> forallb p (map f l) = true.
Proof.
  intros H. induction l as [|x l IH]; cbn; [auto|]. intros E. apply andb_prop in E. destruct E as [E1 E2].
  rewrite (H x E1), (IH E2). reflexivity.
Qed.

Lemma map_idem_in {A} (f : A -> A) (q : A -> bool) l :
  (forall x, q x = true -> f (f x) = f x) -> forallb q l = true -> map f (map f l) = map f l.
Proof.
  intros H E. rewrite map_map. apply map_ext_in. intros x Hx. apply H. rewrite forallb_forall in E. auto.
Qed.

Lemma write_prop_nonempty pd pf p : (1 <= length (write_prop pd pf p))%nat.
Proof. unfold write_prop. rewrite app_length. destruct (p_kind p); cbn; lia. Qed.

Lemma concat_write_prop_length pd pf ps : (length ps <= length (concat (map (write_prop pd pf) ps)))%nat.
Proof.
  induction ps as [|p ps IH]; cbn [map concat length]; [lia|]. rewrite app_length.
  pose proof (write_prop_nonempty pd pf p). lia.
Qed.

Section RoundTrip.
  Variable conv_d : list byte -> Z * bool.
  Variable conv_f : list byte -> Z * bool.
  Variable print_d : Z -> list byte.
  Variable print_f : Z -> list byte.
  Variable okd : Z -> bool.
  Variable okf : Z -> bool.
  Hypothesis printd_tok : forall b, Okd okd b -> tokp (print_d b) /\ hd 0 (print_d b) <> 35.
  Hypothesis printd_scan : forall b r, Okd okd b -> endws r -> float_scan (print_d b ++ r) = (print_d b, r).
  Hypothesis printd_conv : forall b, Okd okd b -> snd (conv_d (print_d b)) = false.
  Hypothesis printf_tok : forall b, Okf okf b -> tokp (print_f b) /\ hd 0 (print_f b) <> 35.
  Hypothesis printf_scan : forall b r, Okf okf b -> endws r -> float_scan (print_f b ++ r) = (print_f b, r).
  Hypothesis printf_conv : forall b, Okf okf b -> snd (conv_f (print_f b)) = false.

  Notation rpd := (reparse conv_d print_d).
  Notation rpf := (reparse conv_f print_f).
  Notation rpv := (rp_val conv_d conv_f print_d print_f).
  Notation rpe := (rp_entry conv_d conv_f print_d print_f).
  Notation vok := (val_okb okd okf).
  Notation pok := (prop_okb okd okf).

  (* the mesh file as the writer sees it: topology inside the limits, every property inside the limits, no two properties
     with the same (kind, name, type), none of them being the position property *)
  Record wfp (o : opts) (w : wmesh) : Prop := {
    wp_topo : wft okd o w;
    wp_props : forallb (pok o (w_mesh w)) (w_props w) = true;
    wp_keys : NoDup (map pkey (pos_entry [] :: w_props w))
  }.

  Definition with_bu (o : opts) (m : mesh) : mesh :=
    if o_bu o then enable_fbu true (enable_ebu true (enable_vbu true m)) else m.

  Lemma topo_with_bu o m : topo (with_bu o m) = topo m.
  Proof. unfold with_bu. destruct (o_bu o); [|reflexivity]. rewrite topo_enable_fbu, topo_enable_ebu, topo_enable_vbu. reflexivity. Qed.

  Lemma prop_okb_count o m m' p : (forall k, count k m' = count k m) -> pok o m' p = pok o m p.
  Proof. intros H. unfold prop_okb. rewrite H. reflexivity. Qed.

  (* ---------------------------------------------------------------- one read *)

  Theorem read_write_props o w mC : wfp o w -> built o (w_mesh w) = Some mC ->
    read_ascii conv_d conv_f o (write_ascii print_d print_f w)
    = RTrue {| f_is := mk [] true true; f_mesh := with_bu o mC;
               f_props := pos_entry (map (rp3 conv_d print_d) (w_pos w)) :: map rpe (sorted_props (w_props w)) |}.
  Proof.
    intros W HB. pose proof (wp_topo o w W) as WT.
    rewrite (write_ascii_split print_d print_f okd o w WT). unfold read_ascii, of_bytes.
    fold (st (ttopo print_d w (write_props print_d print_f (w_props w)))).
    rewrite read_stream_split.
    destruct (read_topo_print conv_d conv_f print_d print_f okd printd_tok printd_scan printd_conv o w
                (write_props print_d print_f (w_props w)) mC WT HB) as (d & E & S & M & P).
    rewrite E, S, M, P. rewrite rev_append_rev, app_nil_r, rev_involutive.
    rewrite write_props_sorted.
    pose proof (built_some_topo o _ _ HB) as TC.
    rewrite (prop_loop_print conv_d conv_f print_d print_f okd okf printd_tok printd_scan printd_conv printf_tok printf_scan printf_conv
               o mC (sorted_props (w_props w)) _ [] _ nls_nil).
    - cbn [app eofb mk negb]. reflexivity.
    - unfold gcl_fuel. cbn [rest st mk app]. pose proof (concat_write_prop_length print_d print_f (sorted_props (w_props w))). lia.
    - apply forallb_forall. intros p Hp. apply (proj1 (sorted_props_in _ _)) in Hp. pose proof (wp_props o w W) as K. rewrite forallb_forall in K.
      rewrite (prop_okb_count o (w_mesh w) mC p) by (intros k; apply count_topo; exact TC). auto.
    - apply all_fresh_sorted. exact (wp_keys o w W).
  Qed.

  (* ---------------------------------------------------------------- reparsing preserves the limits and is idempotent *)

  Hypothesis okd_rp : forall b, Okd okd b -> Okd okd (rpd b).
  Hypothesis okf_rp : forall b, Okf okf b -> Okf okf (rpf b).
  Hypothesis rpd_idem : forall b, Okd okd b -> rpd (rpd b) = rpd b.
  Hypothesis rpf_idem : forall b, Okf okf b -> rpf (rpf b) = rpf b.

  Lemma dbl_okb_rp x : dbl_okb okd x = true -> dbl_okb okd (rp_dbl conv_d print_d x) = true.
  Proof. destruct x; cbn; auto. apply okd_rp. Qed.
  Lemma scalar_okb_rp sc x : scalar_okb okd okf sc x = true -> scalar_okb okd okf sc (rp_scalar conv_d conv_f print_d print_f sc x) = true.
  Proof. destruct sc, x; cbn; auto; [apply okf_rp|apply okd_rp]. Qed.
  Lemma rp_dbl_idem x : dbl_okb okd x = true -> rp_dbl conv_d print_d (rp_dbl conv_d print_d x) = rp_dbl conv_d print_d x.
  Proof. destruct x; cbn; auto. intros H. unfold rp_d. rewrite rpd_idem; auto. Qed.
  Lemma rp_scalar_idem sc x : scalar_okb okd okf sc x = true ->
    rp_scalar conv_d conv_f print_d print_f sc (rp_scalar conv_d conv_f print_d print_f sc x) = rp_scalar conv_d conv_f print_d print_f sc x.
  Proof. destruct sc, x; cbn; auto; intros H; unfold rp_f, rp_d; [rewrite rpf_idem|rewrite rpd_idem]; auto. Qed.

  Lemma val_okb_rp o t v : vok o t v = true -> vok o t (rpv t v) = true.
  Proof.
    destruct t; cbn [rp_val]; auto.
    - destruct v; cbn; auto. apply okf_rp.
    - destruct v; cbn; auto. apply okd_rp.
    - destruct v as [| | |l]; auto. cbn [val_okb vec_okb]. intros H. apply andb_prop in H. destruct H as [H1 H2].
      rewrite map_length, H1. cbn [andb]. eapply forallb_map; [|exact H2]. apply dbl_okb_rp.
    - destruct v as [| | |l]; auto. cbn [val_okb]. intros H. apply andb_prop in H. destruct H as [H1 H2].
      rewrite map_length, H1. cbn [andb]. eapply forallb_map; [|exact H2]. apply scalar_okb_rp.
  Qed.

  Lemma rp_val_idem o t v : vok o t v = true -> rpv t (rpv t v) = rpv t v.
  Proof.
    destruct t; cbn [rp_val]; auto.
    - destruct v; cbn; auto. intros H. unfold rp_f. rewrite rpf_idem; auto.
    - destruct v; cbn; auto. intros H. unfold rp_d. rewrite rpd_idem; auto.
    - destruct v as [| | |l]; auto. cbn [val_okb vec_okb]. intros H. apply andb_prop in H. destruct H as [_ H2].
      f_equal. eapply map_idem_in; [|exact H2]. apply rp_dbl_idem.
    - destruct v as [| | |l]; auto. cbn [val_okb]. intros H. apply andb_prop in H. destruct H as [_ H2].
      f_equal. eapply map_idem_in; [|exact H2]. apply rp_scalar_idem.
  Qed.

  Lemma prop_okb_rp o m p : pok o m p = true -> pok o m (rpe p) = true.
  Proof.
    unfold prop_okb. cbn [rp_entry p_kind p_name p_type p_vals p_persistent]. intros H.
    apply andb_prop in H. destruct H as [H _]. apply andb_prop in H. destruct H as [H H4].
    apply andb_prop in H. destruct H as [H H3]. apply andb_prop in H. destruct H as [H1 H2].
    rewrite H1, H2, map_length, H4. cbn [andb]. rewrite !andb_true_r.
    eapply forallb_map; [|exact H3]. apply val_okb_rp.
  Qed.

  Lemma rp_entry_idem o m p : pok o m p = true -> rpe (rpe p) = rpe p.
  Proof.
    unfold prop_okb, rp_entry. cbn [p_kind p_name p_type p_vals p_persistent]. intros H.
    apply andb_prop in H. destruct H as [H _]. apply andb_prop in H. destruct H as [H _]. apply andb_prop in H. destruct H as [_ H3].
    f_equal. eapply map_idem_in; [|exact H3]. apply (rp_val_idem o).
  Qed.

  (* ---------------------------------------------------------------- the second round trip *)

  (* the mesh file the caller holds after the read: the mesh, the coordinates read, the persistent properties read *)
  Definition reread_props (f : fin) : wmesh :=
    {| w_mesh := f_mesh f;
       w_pos := map (fun v => match v with VList [VFlt x; VFlt y; VFlt z] => (x, y, z) | _ => (0, 0, 0) end)
                    (match f_props f with p :: _ => p_vals p | [] => [] end);
       w_props := filter p_persistent (f_props f) |}.

  Lemma rpe_persistent l : filter p_persistent (map rpe l) = map rpe l.
  Proof. induction l; cbn; [reflexivity|]. rewrite IHl. reflexivity. Qed.

  Lemma okp_rpt p : okp (Okd okd) p -> okp (Okd okd) (rpt conv_d print_d p).
  Proof. destruct p as [[x y] z]. intros (A & B & C). cbn. auto. Qed.

  Lemma wfp_reread o w mC : wfp o w -> built o (w_mesh w) = Some mC ->
    let f1 := {| f_is := mk [] true true; f_mesh := with_bu o mC;
                 f_props := pos_entry (map (rp3 conv_d print_d) (w_pos w)) :: map rpe (sorted_props (w_props w)) |} in
    reread_props f1 = {| w_mesh := with_bu o mC; w_pos := map (rpt conv_d print_d) (w_pos w); w_props := map rpe (sorted_props (w_props w)) |} /\
    wfp o (reread_props f1) /\ built o (w_mesh (reread_props f1)) = Some mC.
  Proof.
    intros W HB f1.
    assert (ER : reread_props f1 = {| w_mesh := with_bu o mC; w_pos := map (rpt conv_d print_d) (w_pos w); w_props := map rpe (sorted_props (w_props w)) |}).
    { unfold reread_props, f1. cbn [f_mesh f_props pos_entry p_vals p_persistent filter]. rewrite rpe_persistent. f_equal.
      rewrite map_map. apply map_ext. intros [[x y] z]. reflexivity. }
    split; [exact ER|]. rewrite ER. cbn [w_mesh].
    pose proof (built_some_topo o _ _ HB) as TC.
    assert (T : topo (with_bu o mC) = topo (w_mesh w)) by (rewrite topo_with_bu; exact TC).
    split; [|rewrite (built_topo o _ _ T); exact HB].
    pose proof (read_write_props o w mC W HB) as R. unfold read_ascii in R.
    pose proof (read_stream_nodel conv_d conv_f o _ _ R) as N. cbn [f_mesh] in N.
    apply live_of_nodel in N. destruct N as (L1 & L2 & L3 & L4).
    pose proof (wp_topo o w W) as WT. unfold topo in T. inversion T as [[T1 T2 T3 T4]].
    constructor; cbn [w_mesh w_pos w_props].
    - destruct WT. constructor; cbn [w_mesh w_pos w_props]; auto; unfold ne, nf, nc in *; rewrite ?T1, ?T2, ?T3, ?T4; auto.
      + rewrite map_length. auto.
      + clear - wt_pos_ok okd_rp. induction wt_pos_ok as [|p l H]; cbn [map]; constructor; auto. apply okp_rpt; auto.
    - pose proof (wp_props o w W) as K. rewrite forallb_forall in K. apply forallb_forall. intros q Hq.
      apply in_map_iff in Hq. destruct Hq as (p & <- & Hp). apply (proj1 (sorted_props_in _ _)) in Hp.
      rewrite (prop_okb_count o (w_mesh w) (with_bu o mC) (rpe p)) by (intros k; apply count_topo; unfold topo; congruence).
      apply prop_okb_rp. auto.
    - eapply Permutation_NoDup; [|exact (wp_keys o w W)]. cbn [map]. constructor. rewrite map_map.
      refine (Permutation_map pkey _). symmetry. apply sorted_props_perm.
  Qed.

  Lemma rp3_rpt_ok p : okp (Okd okd) p -> rp3 conv_d print_d (rpt conv_d print_d p) = rp3 conv_d print_d p.
  Proof. destruct p as [[x y] z]. intros (A & B & C). unfold rp3, rpt. rewrite !rpd_idem; auto. Qed.

  Theorem read_write_props_twice o w mC : wfp o w -> built o (w_mesh w) = Some mC ->
    exists f1,
      read_ascii conv_d conv_f o (write_ascii print_d print_f w) = RTrue f1 /\
      read_ascii conv_d conv_f o (write_ascii print_d print_f (reread_props f1)) = RTrue f1 /\
      f_mesh f1 = with_bu o mC /\ topo (f_mesh f1) = topo (w_mesh w) /\
      f_props f1 = pos_entry (map (rp3 conv_d print_d) (w_pos w)) :: map rpe (sorted_props (w_props w)).
  Proof.
    intros W HB. eexists. split; [apply read_write_props; eauto|].
    destruct (wfp_reread o w mC W HB) as (ER & W2 & HB2). cbv zeta in ER, W2, HB2.
    split; [|split; [reflexivity|split; [cbn [f_mesh]; rewrite topo_with_bu; apply (built_some_topo o); exact HB|reflexivity]]].
    rewrite (read_write_props o _ mC W2 HB2). rewrite ER. cbn [w_pos w_props]. f_equal. f_equal. f_equal.
    - f_equal. rewrite map_map. apply map_ext_in. intros p Hp. apply rp3_rpt_ok.
      pose proof (wt_pos_ok okd o w (wp_topo o w W)) as K. rewrite Forall_forall in K. auto.
    - rewrite (sorted_props_map rpe) by reflexivity. rewrite sorted_props_idem.
      rewrite map_map. apply map_ext_in. intros p Hp. apply (proj1 (sorted_props_in _ _)) in Hp.
      pose proof (wp_props o w W) as K. rewrite forallb_forall in K. apply (rp_entry_idem o (w_mesh w)). auto.
  Qed.
End RoundTrip.
