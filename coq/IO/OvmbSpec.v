(* IO/OvmbSpec.v -- `decode_spec`: what a byte string MEANS according to the published format description only:
   extra/ovmb-kaitai/ovmb.ksy (field layout, enums, sizes, repeat rules) and documentation/subpages/binary_file_format.docu
   (little endian; spans = base index + count; "handle_offset: a value to add to every contained handle"; zero padding; chunks
   marked mandatory may not be skipped, optional ones may; a property directory occurs zero or one time; exactly one EOF
   chunk at the very end; compression must be 0; chunk definitions refer to version 0).
   Written in two phases that mirror the description, not the reader: (1) `parse_file`: bytes -> header + list of raw chunks
   exactly as the .ksy `seq` says, (2) `interp`: chunks -> mesh, placing every span element at index base+i.  Nothing here
   looks at src/OpenVolumeMesh/IO/detail/BinaryFileReader.cc.  (The .ksy gives `topo_data_variable.handles` without a repeat;
   it is read as "repeated to the end of the body", the only reading under which variable-valence chunks carry their data.) *)
From Coq Require Import String Ascii.
From Coq Require Import ZArith List Bool.
From OVM Require Import IO.Bytes IO.OvmbWriterModel.
Import ListNotations.
Local Open Scope Z_scope.

(* ---- phase 1: the .ksy `seq`s *)
Record ksy_header := { k_file_version : Z; k_header_version : Z; k_vertex_dim : Z; k_topo_type : Z;
                       k_n_vertices : Z; k_n_edges : Z; k_n_faces : Z; k_n_cells : Z }.
Record ksy_chunk := { k_type : list byte; k_version : Z; k_padding_bytes : Z; k_compression : Z; k_flags : Z;
                      k_body : list byte; k_padding : list byte }.

Definition u (n : nat) (off : nat) (b : list byte) : Z := le_decode (firstn n (skipn off b)).
Definition sub (off n : nat) (b : list byte) : list byte := firstn n (skipn off b).

Definition ksy_magic : list byte := [79; 86; 77; 66; 10; 13; 10; 255].     (* 'O','V','M','B',0xa,0xd,0xa,0xff *)

Definition parse_header (b : list byte) : option (ksy_header * list byte) :=
  if len b <? 48 then None
  else if negb (list_eqb (sub 0 8 b) ksy_magic) then None
  else if negb (list_eqb (sub 12 4 b) [0; 0; 0; 0]) then None
  else if 2 <? u 1 11 b then None                                   (* enum topo_type: 0..2 *)
  else Some ({| k_file_version := u 1 8 b; k_header_version := u 1 9 b; k_vertex_dim := u 1 10 b; k_topo_type := u 1 11 b;
                k_n_vertices := u 8 16 b; k_n_edges := u 8 24 b; k_n_faces := u 8 32 b; k_n_cells := u 8 40 b |}, skipn 48 b).

Fixpoint parse_chunks (fuel : nat) (b : list byte) : option (list ksy_chunk) :=
  match b with
  | [] => Some []
  | _ =>
    match fuel with
    | O => None
    | S f =>
      if len b <? 16 then None
      else
        let pad := u 1 5 b in
        let flen := u 8 8 b in
        if flen <? pad then None
        else if len b - 16 <? flen then None
        else
          let body_n := Z.to_nat (flen - pad) in
          let c := {| k_type := sub 0 4 b; k_version := u 1 4 b; k_padding_bytes := pad; k_compression := u 1 6 b; k_flags := u 1 7 b;
                      k_body := sub 16 body_n b; k_padding := sub (16 + body_n) (Z.to_nat pad) b |} in
          match parse_chunks f (skipn (16 + Z.to_nat flen) b) with
          | None => None
          | Some cs => Some (c :: cs)
          end
    end
  end.

Definition parse_file (b : list byte) : option (ksy_header * list ksy_chunk) :=
  match parse_header b with
  | None => None
  | Some (h, rest) => match parse_chunks (length rest) rest with None => None | Some cs => Some (h, cs) end
  end.

(* ---- phase 2: meaning *)
Definition T_VERT := bytes_of_string "VERT".
Definition T_TOPO := bytes_of_string "TOPO".
Definition T_DIRP := bytes_of_string "DIRP".
Definition T_PROP := bytes_of_string "PROP".
Definition T_EOF := bytes_of_string "EOF ".

(* an index -> value table built from spans *)
Definition table (A : Type) := list (Z * A).
Fixpoint tlookup {A} (i : Z) (t : table A) : option A :=
  match t with [] => None | (j, v) :: r => if i =? j then Some v else tlookup i r end.
Fixpoint place {A} (base : Z) (l : list A) (t : table A) : option (table A) :=
  match l with
  | [] => Some t
  | x :: r => match tlookup base t with
              | Some _ => None                                      (* an element may be given only once *)
              | None => place (base + 1) r ((base, x) :: t)
              end
  end.
Fixpoint collect {A} (fuel : nat) (i : Z) (t : table A) : option (list A) :=
  match fuel with
  | O => Some []
  | S f => match tlookup i t with
           | None => None
           | Some v => match collect f (i + 1) t with None => None | Some l => Some (v :: l) end
           end
  end.
Fixpoint collect_default {A} (fuel : nat) (i : Z) (t : table A) (d : A) : list A :=
  match fuel with
  | O => []
  | S f => (match tlookup i t with Some v => v | None => d end) :: collect_default f (i + 1) t d
  end.

Definition int_width (enc : Z) : option nat :=
  if enc =? 1 then Some 1%nat else if enc =? 2 then Some 2%nat else if enc =? 4 then Some 4%nat else None.

(* `n` integers of width w *)
Fixpoint ints (n : nat) (w : nat) (b : list byte) : option (list Z * list byte) :=
  match n with
  | O => Some ([], b)
  | S k => if Nat.ltb (length b) w then None
           else match ints k w (skipn w b) with
                | None => None
                | Some (l, r) => Some (le_decode (firstn w b) :: l, r)
                end
  end.

Fixpoint split_by (vals : list Z) (l : list Z) : option (list (list Z)) :=
  match vals with
  | [] => match l with [] => Some [] | _ => None end
  | v :: t => if len l <? v then None
              else match split_by t (skipn (Z.to_nat v) l) with
                   | None => None
                   | Some r => Some (firstn (Z.to_nat v) l :: r)
                   end
  end.

Record acc := {
  a_pos : table (list Z); a_edges : table (Z * Z); a_faces : table (list Z); a_cells : table (list Z);
  a_dir : option (list (Z * list byte * list byte * list byte));           (* entity, name, type name, serialized default *)
  a_vals : list (Z * table (list byte));                                  (* property index -> element table *)
  a_eof : bool
}.
Definition acc0 : acc := {| a_pos := []; a_edges := []; a_faces := []; a_cells := []; a_dir := None; a_vals := []; a_eof := false |}.

Definition span_ok (total base count : Z) : bool := (0 <=? base) && (base + count <=? total).

(* vert_chunk *)
Definition interp_vert (h : ksy_header) (a : acc) (b : list byte) : option acc :=
  if len b <? 16 then None
  else
    let base := u 8 0 b in let count := u 4 8 b in let enc := u 1 12 b in
    if negb (list_eqb (sub 13 3 b) [0; 0; 0]) then None
    else if negb (span_ok (k_n_vertices h) base count) then None
    else
      let w := if enc =? 1 then Some 4%nat else if enc =? 2 then Some 8%nat else None in
      match w with
      | None => if (enc =? 0) && (len b =? 16) then Some a else None     (* encoding none: no coordinates *)
      | Some w =>
          let n := Z.to_nat (count * k_vertex_dim h) in
          if negb (len b - 16 =? count * k_vertex_dim h * Z.of_nat w) then None
          else match ints n w (skipn 16 b) with
               | None => None
               | Some (cs, _) =>
                   let cs64 := if enc =? 1 then map f32_to_f64_bits cs else cs in
                   match split_by (repeat (k_vertex_dim h) (Z.to_nat count)) cs64 with
                   | None => None
                   | Some ps => match place base ps (a_pos a) with
                                | None => None
                                | Some t => Some {| a_pos := t; a_edges := a_edges a; a_faces := a_faces a; a_cells := a_cells a;
                                                    a_dir := a_dir a; a_vals := a_vals a; a_eof := a_eof a |}
                                end
                   end
               end
      end.

(* topo_chunk: every contained handle + handle_offset; the sum is a handle, i.e. below the limit of its kind *)
Definition interp_topo (h : ksy_header) (a : acc) (b : list byte) : option acc :=
  if len b <? 24 then None
  else
    let base := u 8 0 b in let count := u 4 8 b in let entity := u 1 12 b in let valence := u 1 13 b in
    let venc := u 1 14 b in let henc := u 1 15 b in let off := u 8 16 b in
    let data := skipn 24 b in
    match int_width henc with
    | None => None
    | Some hw =>
        let items :=
          if valence =? 0 then
            match int_width venc with
            | None => None
            | Some vw =>
                match ints (Z.to_nat count) vw data with
                | None => None
                | Some (vals, rest) =>
                    if negb (len rest =? fold_left Z.add vals 0 * Z.of_nat hw) then None
                    else match ints (Z.to_nat (fold_left Z.add vals 0)) hw rest with
                         | None => None
                         | Some (hs, _) => split_by vals hs
                         end
                end
            end
          else
            if negb (venc =? 0) then None
            else if negb (len data =? count * valence * Z.of_nat hw) then None
            else match ints (Z.to_nat (count * valence)) hw data with
                 | None => None
                 | Some (hs, _) => split_by (repeat valence (Z.to_nat count)) hs
                 end in
        match items with
        | None => None
        | Some its =>
            let its := map (map (fun x => (x + off) mod two64)) its in
            if entity =? 1 then
              if negb (span_ok (k_n_edges h) base count) || negb (valence =? 2) then None
              else if negb (forallb (forallb (fun x => x <? k_n_vertices h)) its) then None
              else match place base (map (fun l => (nth 0 l 0, nth 1 l 0)) its) (a_edges a) with
                   | None => None
                   | Some t => Some {| a_pos := a_pos a; a_edges := t; a_faces := a_faces a; a_cells := a_cells a;
                                       a_dir := a_dir a; a_vals := a_vals a; a_eof := a_eof a |}
                   end
            else if entity =? 2 then
              if negb (span_ok (k_n_faces h) base count) then None
              else if negb (forallb (forallb (fun x => x <? 2 * k_n_edges h)) its) then None
              else if (k_topo_type h =? 1) && negb (forallb (fun l => len l =? 3) its) then None
              else if (k_topo_type h =? 2) && negb (forallb (fun l => len l =? 4) its) then None
              else match place base its (a_faces a) with
                   | None => None
                   | Some t => Some {| a_pos := a_pos a; a_edges := a_edges a; a_faces := t; a_cells := a_cells a;
                                       a_dir := a_dir a; a_vals := a_vals a; a_eof := a_eof a |}
                   end
            else if entity =? 3 then
              if negb (span_ok (k_n_cells h) base count) then None
              else if negb (forallb (forallb (fun x => x <? 2 * k_n_faces h)) its) then None
              else if (k_topo_type h =? 1) && negb (forallb (fun l => len l =? 4) its) then None
              else if (k_topo_type h =? 2) && negb (forallb (fun l => len l =? 6) its) then None
              else match place base its (a_cells a) with
                   | None => None
                   | Some t => Some {| a_pos := a_pos a; a_edges := a_edges a; a_faces := a_faces a; a_cells := t;
                                       a_dir := a_dir a; a_vals := a_vals a; a_eof := a_eof a |}
                   end
            else None
        end
    end.

(* string4 / bytes4 *)
Definition lp (b : list byte) : option (list byte * list byte) :=
  if len b <? 4 then None
  else let n := u 4 0 b in
       if len b - 4 <? n then None else Some (sub 4 (Z.to_nat n) b, skipn (4 + Z.to_nat n) b).

Fixpoint interp_dir (fuel : nat) (b : list byte) : option (list (Z * list byte * list byte * list byte)) :=
  match b with
  | [] => Some []
  | e :: r =>
    match fuel with
    | O => None
    | S f =>
      if 6 <? e then None
      else match lp r with
           | None => None
           | Some (name, r1) =>
             match lp r1 with
             | None => None
             | Some (tn, r2) =>
               match lp r2 with
               | None => None
               | Some (df, r3) =>
                 match interp_dir f r3 with
                 | None => None
                 | Some l => Some ((e, name, tn, df) :: l)
                 end
               end
             end
           end
    end
  end.

(* element values of a PROP body, by the directory's type name *)
Fixpoint elems_fix (fuel : nat) (n : Z) (w : nat) (b : list byte) : option (list (list byte)) :=
  if n <=? 0 then (match b with [] => Some [] | _ => None end)
  else match fuel with
       | O => None
       | S f => if Nat.ltb (length b) w then None
                else match elems_fix f (n - 1) w (skipn w b) with None => None | Some l => Some (firstn w b :: l) end
       end.
Fixpoint elems_str (fuel : nat) (n : Z) (b : list byte) : option (list (list byte)) :=
  if n <=? 0 then (match b with [] => Some [] | _ => None end)
  else match fuel with
       | O => None
       | S f => match lp b with
                | None => None
                | Some (s, r) => match elems_str f (n - 1) r with None => None | Some l => Some (s :: l) end
                end
       end.
Fixpoint bits_of (n : nat) (x : Z) : list (list byte) :=
  match n with O => [] | S k => [x mod 2] :: bits_of k (x / 2) end.
Fixpoint elems_bool (fuel : nat) (n : Z) (b : list byte) : option (list (list byte)) :=
  if n <=? 0 then (match b with [] => Some [] | _ => None end)
  else match fuel with
       | O => None
       | S f => match b with
                | [] => None
                | x :: r => match elems_bool f (n - 8) r with
                            | None => None
                            | Some l => Some (bits_of (Z.to_nat (Z.min 8 n)) x ++ l)
                            end
                end
       end.

Definition default_value (ty : ptype) (df : list byte) : option (list byte) :=
  match ty with
  | TBool => match df with [x] => if (x =? 0) || (x =? 1) then Some [x] else None | _ => None end
  | TFix n => if len df =? n then Some df else None
  | TStr => match lp df with Some (s, []) => Some s | _ => None end
  end.

Definition entity_total (h : ksy_header) (e : Z) : Z :=
  if e =? 0 then k_n_vertices h else if e =? 1 then k_n_edges h else if e =? 2 then k_n_faces h else if e =? 3 then k_n_cells h
  else if e =? 4 then 2 * k_n_edges h else if e =? 5 then 2 * k_n_faces h else 1.

Fixpoint tupdate {A} (k : Z) (v : A) (l : list (Z * A)) : list (Z * A) :=
  match l with
  | [] => [(k, v)]
  | (j, w) :: r => if j =? k then (k, v) :: r else (j, w) :: tupdate k v r
  end.

Definition interp_prop (h : ksy_header) (a : acc) (b : list byte) : option acc :=
  if len b <? 16 then None
  else
    let base := u 8 0 b in let count := u 4 8 b in let idx := u 4 12 b in
    match a_dir a with
    | None => None                                                    (* a PROP chunk refers to the directory *)
    | Some dir =>
        match nth_error dir (Z.to_nat idx) with
        | None => None
        | Some (e, _, tn, _) =>
            match codec_of tn with
            | None => Some a                                          (* a type this description's reader does not know: data is opaque *)
            | Some ty =>
                if negb (span_ok (entity_total h e) base count) then None
                else
                  let data := skipn 16 b in
                  let vals := match ty with
                              | TBool => elems_bool (S (length data)) count data
                              | TFix n => elems_fix (S (length data)) count (Z.to_nat n) data
                              | TStr => elems_str (S (length data)) count data
                              end in
                  match vals with
                  | None => None
                  | Some vs =>
                      let old := match tlookup idx (a_vals a) with Some t => t | None => [] end in
                      match place base vs old with
                      | None => None
                      | Some t => Some {| a_pos := a_pos a; a_edges := a_edges a; a_faces := a_faces a; a_cells := a_cells a;
                                          a_dir := a_dir a; a_vals := tupdate idx t (a_vals a); a_eof := a_eof a |}
                      end
                  end
            end
        end
    end.

Definition interp_chunk (h : ksy_header) (a : acc) (c : ksy_chunk) : option acc :=
  if a_eof a then None                                                (* the EOF chunk is at the very end *)
  else if negb (forallb (fun x => x =? 0) (k_padding c)) then None     (* zero padding bytes *)
  else if negb (k_compression c =? 0) then None                       (* must always be 0 *)
  else if 1 <? k_flags c then None
  else
    let known := (k_version c =? 0) &&
                 (list_eqb (k_type c) T_VERT || list_eqb (k_type c) T_TOPO || list_eqb (k_type c) T_DIRP ||
                  list_eqb (k_type c) T_PROP || list_eqb (k_type c) T_EOF) in
    if negb known then (if k_flags c =? 1 then None else Some a)      (* mandatory chunks may not be skipped, optional may *)
    else if list_eqb (k_type c) T_EOF then
      (match k_body c with
       | [] => Some {| a_pos := a_pos a; a_edges := a_edges a; a_faces := a_faces a; a_cells := a_cells a;
                       a_dir := a_dir a; a_vals := a_vals a; a_eof := true |}
       | _ => None end)
    else if list_eqb (k_type c) T_DIRP then
      (match a_dir a with
       | Some _ => None                                               (* zero or one time *)
       | None => match interp_dir (length (k_body c)) (k_body c) with
                 | None => None
                 | Some d => Some {| a_pos := a_pos a; a_edges := a_edges a; a_faces := a_faces a; a_cells := a_cells a;
                                     a_dir := Some d; a_vals := a_vals a; a_eof := a_eof a |}
                 end
       end)
    else if list_eqb (k_type c) T_VERT then interp_vert h a (k_body c)
    else if list_eqb (k_type c) T_TOPO then interp_topo h a (k_body c)
    else interp_prop h a (k_body c).

Fixpoint interp_chunks (h : ksy_header) (a : acc) (cs : list ksy_chunk) : option acc :=
  match cs with
  | [] => Some a
  | c :: t => match interp_chunk h a c with None => None | Some a' => interp_chunks h a' t end
  end.

Fixpoint build_props (h : ksy_header) (i : Z) (dir : list (Z * list byte * list byte * list byte)) (vals : list (Z * table (list byte)))
  : option (list prop) :=
  match dir with
  | [] => Some []
  | (e, name, tn, df) :: t =>
      match build_props h (i + 1) t vals with
      | None => None
      | Some rest =>
          match codec_of tn with
          | None => Some rest                                          (* unknown to this description: not part of the decoded mesh *)
          | Some ty =>
              match default_value ty df with
              | None => None
              | Some d =>
                  let t := match tlookup i vals with Some t => t | None => [] end in
                  Some ({| p_ent := e; p_name := name; p_tname := tn; p_def := d;
                           p_vals := collect_default (Z.to_nat (entity_total h e)) 0 t d |} :: rest)
              end
          end
      end
  end.

Definition decode_spec (dim : Z) (b : list byte) : option meshfile :=
  match parse_file b with
  | None => None
  | Some (h, cs) =>
      if negb (k_header_version h =? 1) || negb (k_vertex_dim h =? dim) then None
      else match interp_chunks h acc0 cs with
           | None => None
           | Some a =>
               if negb (a_eof a) then None                            (* exactly one EOF chunk *)
               else
                 match collect (Z.to_nat (k_n_edges h)) 0 (a_edges a), collect (Z.to_nat (k_n_faces h)) 0 (a_faces a),
                       collect (Z.to_nat (k_n_cells h)) 0 (a_cells a),
                       build_props h 0 (match a_dir a with Some d => d | None => [] end) (a_vals a) with
                 | Some es, Some fs, Some cs', Some ps =>
                     Some {| m_nv := k_n_vertices h;
                             m_pos := collect_default (Z.to_nat (k_n_vertices h)) 0 (a_pos a) (repeat 0 (Z.to_nat dim));
                             m_edges := es; m_faces := fs; m_cells := cs'; m_props := ps |}
                 | _, _, _, _ => None
                 end
           end
  end.
