(* IO/Bytes.v -- bytes, little-endian integers, IEEE bit patterns.
   A byte is a Z in [0,256).  Floating-point values are never interpreted: a double is its 64-bit pattern, a float its
   32-bit pattern; the only conversion the reader performs (float -> double when a VERT chunk uses the Float encoding) is
   modelled exactly on bit patterns (f32_to_f64_bits). *)
From Coq Require Import ZArith Lia List Bool.
Import ListNotations.
Local Open Scope Z_scope.

Definition byte := Z.
Definition byte_ok (b : byte) : Prop := 0 <= b < 256.
Definition bytes_ok (l : list byte) : Prop := Forall byte_ok l.

Definition len {A} (l : list A) : Z := Z.of_nat (length l).

(* little-endian encoding of v on n bytes (Encoder::u8/u16/u32/u64: (val >> 8*i) & 0xff) *)
Fixpoint le_encode (n : nat) (v : Z) : list byte :=
  match n with
  | O => []
  | S k => (v mod 256) :: le_encode k (v / 256)
  end.

(* Decoder::u8/u16/u32/u64: cur_[0] + (cur_[1] << 8) + ... *)
Fixpoint le_decode (l : list byte) : Z :=
  match l with
  | [] => 0
  | b :: t => b + 256 * le_decode t
  end.

Definition enc_u8 v := le_encode 1 v.
Definition enc_u16 v := le_encode 2 v.
Definition enc_u32 v := le_encode 4 v.
Definition enc_u64 v := le_encode 8 v.

Definition two64 : Z := 18446744073709551616.
Definition two32 : Z := 4294967296.
Definition wrap64 (x : Z) : Z := x mod two64.
Definition wrap32 (x : Z) : Z := x mod two32.
Definition int_max : Z := 2147483647.

Lemma le_encode_length n v : length (le_encode n v) = n.
Proof. revert v; induction n; intros; simpl; auto. Qed.

Lemma le_encode_ok n v : bytes_ok (le_encode n v).
Proof.
  unfold bytes_ok. revert v; induction n; intros; simpl; constructor; auto.
  unfold byte_ok. apply Z.mod_pos_bound. lia.
Qed.

Lemma le_decode_encode n v : 0 <= v < 256 ^ Z.of_nat n -> le_decode (le_encode n v) = v.
Proof.
  revert v; induction n; intros v H.
  - simpl in *. lia.
  - cbn [le_encode le_decode].
    rewrite IHn.
    + pose proof (Z.div_mod v 256 ltac:(lia)). lia.
    + rewrite Nat2Z.inj_succ, Z.pow_succ_r in H by lia.
      split. { apply Z.div_pos; lia. }
      apply Z.div_lt_upper_bound; lia.
Qed.

Lemma le_decode_range l : bytes_ok l -> 0 <= le_decode l < 256 ^ len l.
Proof.
  unfold len. induction 1 as [|b t Hb Ht IH].
  - simpl. lia.
  - cbn [le_decode length]. rewrite Nat2Z.inj_succ, Z.pow_succ_r by lia.
    unfold byte_ok in Hb. lia.
Qed.

Lemma le_encode_decode l : bytes_ok l -> le_encode (length l) (le_decode l) = l.
Proof.
  induction 1 as [|b t Hb Ht IH]; [reflexivity|].
  cbn [le_decode length le_encode]. unfold byte_ok in Hb.
  assert (E1 : (b + 256 * le_decode t) mod 256 = b).
  { replace (b + 256 * le_decode t) with (b + le_decode t * 256) by lia.
    rewrite Z.mod_add by lia. apply Z.mod_small; lia. }
  assert (E2 : (b + 256 * le_decode t) / 256 = le_decode t).
  { replace (b + 256 * le_decode t) with (b + le_decode t * 256) by lia.
    rewrite Z.div_add by lia. rewrite Z.div_small by lia. lia. }
  rewrite E1, E2, IH. reflexivity.
Qed.

Lemma le_encode_inj n v w : 0 <= v < 256 ^ Z.of_nat n -> 0 <= w < 256 ^ Z.of_nat n ->
  le_encode n v = le_encode n w -> v = w.
Proof. intros Hv Hw E. rewrite <- (le_decode_encode n v Hv), <- (le_decode_encode n w Hw), E. reflexivity. Qed.

Lemma bytes_ok_app a b : bytes_ok a -> bytes_ok b -> bytes_ok (a ++ b).
Proof. unfold bytes_ok. intros. apply Forall_app; auto. Qed.

Lemma bytes_ok_firstn n l : bytes_ok l -> bytes_ok (firstn n l).
Proof. unfold bytes_ok. revert l; induction n; intros [|x t] H; simpl; auto. inversion H; subst. constructor; auto. Qed.

Lemma bytes_ok_skipn n l : bytes_ok l -> bytes_ok (skipn n l).
Proof. unfold bytes_ok. revert l; induction n; intros [|x t] H; simpl; auto. inversion H; subst. auto. Qed.

Lemma bytes_ok_repeat0 n : bytes_ok (repeat 0 n).
Proof. unfold bytes_ok. induction n; simpl; constructor; auto. unfold byte_ok; lia. Qed.

(* ---- float (binary32 pattern) -> double (binary64 pattern): what `point[d] = (float)x` does on x86-64 (cvtss2sd):
        exact for every finite value and infinity; a NaN keeps sign and payload (shifted) and becomes quiet. *)
Definition f32_to_f64_bits (b : Z) : Z :=
  let s := (b / 2147483648) mod 2 in
  let e := (b / 8388608) mod 256 in
  let m := b mod 8388608 in
  let sign := s * 9223372036854775808 in
  if e =? 255 then
    sign + 2047 * 4503599627370496 + m * 536870912 + (if m =? 0 then 0 else if (m / 4194304) =? 1 then 0 else 2251799813685248)
  else if e =? 0 then
    if m =? 0 then sign
    else let k := Z.log2 m in      (* m = 2^k * (1 + f), value = m * 2^-149 *)
         sign + (k + 874) * 4503599627370496 + (m - 2 ^ k) * 2 ^ (52 - k)
  else sign + (e + 896) * 4503599627370496 + m * 536870912.

(* split a list into consecutive groups of n elements (n > 0); a short tail is dropped (never happens under the callers' length
   invariants) *)
Fixpoint chunks_of (fuel : nat) (n : nat) (l : list byte) : list (list byte) :=
  match fuel with
  | O => []
  | S f => match l with
           | [] => []
           | _ => if Nat.ltb (length l) n then [] else firstn n l :: chunks_of f n (skipn n l)
           end
  end.
