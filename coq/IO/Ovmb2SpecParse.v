(* IO/Ovmb2SpecParse.v -- phase 1 of the specification reader (the .ksy `seq`s) on files made of the writer's header and
   chunks framed like the writer's: parse_header, parse_chunks. *)
From Coq Require Import ZArith List Bool Lia.
From OVM Require Import Base.Int32 Gen.OvmbFormat IO.Bytes IO.OvmbWriterModel IO.OvmbReaderModel IO.OvmbSpec IO.OvmbProofs
  IO.Ovmb2Base IO.Ovmb2Chunk IO.Ovmb2Alt IO.Ovmb2Ints IO.Ovmb2Topo IO.Ovmb2Vert IO.Ovmb2SpecBase.
Import ListNotations.
Local Open Scope Z_scope.

Definition ksy_of (ty flags : Z) (p : list byte) : ksy_chunk :=
  {| k_type := enc_u32 ty; k_version := 0; k_padding_bytes := write_chunk_padding_bytes (len p); k_compression := 0;
     k_flags := flags; k_body := p; k_padding := repeat 0 (Z.to_nat (write_chunk_padding_bytes (len p))) |}.

Lemma parse_chunks_S f b : b <> [] ->
  parse_chunks (S f) b =
  if len b <? 16 then None
  else
    let pad := u 1 5 b in
    let flen := u 8 8 b in
    if flen <? pad then None
    else if len b - 16 <? flen then None
    else
      let body_n := Z.to_nat (flen - pad) in
      let c := {| k_type := sub 0 4 b; k_version := u 1 4 b; k_padding_bytes := pad; k_compression := u 1 6 b; k_flags := u 1 7 b;
                  k_body := sub 16 body_n b; k_padding := sub (16 + body_n) (Z.to_nat pad) b |} in
      match parse_chunks f (skipn (16 + Z.to_nat flen) b) with
      | None => None
      | Some cs => Some (c :: cs)
      end.
Proof. destruct b; [congruence|reflexivity]. Qed.

Lemma le_decode_1 x : le_decode [x] = x.
Proof. cbn [le_decode]. lia. Qed.

Lemma parse_chunks_gen f ty flags p rest : len p < max_payload ->
  parse_chunks (S f) (gen_chunk ty flags p ++ rest) =
  match parse_chunks f rest with None => None | Some cs => Some (ksy_of ty flags p :: cs) end.
Proof.
  intros Hp. pose proof (len_nonneg p) as Hp0. pose proof (len_nonneg rest) as Hr0. unfold max_payload in Hp.
  destruct (padding_spec (len p) ltac:(lia)) as [Hpad Hfl].
  unfold gen_chunk, ksy_of. cbv zeta.
  remember (write_chunk_padding_bytes (len p)) as pad eqn:Epad.
  remember (write_chunk_file_length (len p)) as fl eqn:Efl.
  remember (repeat 0 (Z.to_nat pad)) as zs eqn:Ezs.
  assert (Lz : length zs = Z.to_nat pad) by (subst zs; apply repeat_length).
  assert (L4 : length (enc_u32 ty) = 4%nat) by apply le_encode_length.
  assert (L8 : length (enc_u64 fl) = 8%nat) by apply le_encode_length.
  set (b := (enc_u32 ty ++ [0; pad; 0; flags] ++ enc_u64 fl ++ p ++ zs) ++ rest).
  assert (Eb : b = enc_u32 ty ++ 0 :: pad :: 0 :: flags :: (enc_u64 fl ++ p ++ zs ++ rest)).
  { unfold b. repeat rewrite <- app_assoc. reflexivity. }
  assert (Lb : len b = 16 + fl + len rest).
  { assert (Lzs : len zs = pad) by (unfold len; rewrite Lz; lia). rewrite Eb. lens. zlia. }
  assert (S4 : skipn 4 b = 0 :: pad :: 0 :: flags :: (enc_u64 fl ++ p ++ zs ++ rest)).
  { rewrite Eb. apply skipn_exact. exact L4. }
  assert (Sk : forall k, skipn k (skipn 4 b) = skipn (4 + k) b) by (intros k; apply skipn_skipn').
  assert (F5 : u 1 4 b = 0) by (unfold u; change 4%nat with (4 + 0)%nat at 1; rewrite <- Sk, S4; cbn [skipn firstn]; apply le_decode_1).
  assert (F2 : u 1 5 b = pad) by (unfold u; change 5%nat with (4 + 1)%nat; rewrite <- Sk, S4; cbn [skipn firstn]; apply le_decode_1).
  assert (F6 : u 1 6 b = 0) by (unfold u; change 6%nat with (4 + 2)%nat; rewrite <- Sk, S4; cbn [skipn firstn]; apply le_decode_1).
  assert (F7 : u 1 7 b = flags) by (unfold u; change 7%nat with (4 + 3)%nat; rewrite <- Sk, S4; cbn [skipn firstn]; apply le_decode_1).
  assert (S8 : skipn 8 b = enc_u64 fl ++ p ++ zs ++ rest) by (change 8%nat with (4 + 4)%nat; rewrite <- Sk, S4; reflexivity).
  assert (F3 : u 8 8 b = fl).
  { unfold u. rewrite S8. rewrite firstn_exact by exact L8. unfold enc_u64. apply le_decode_encode.
    change (256 ^ Z.of_nat 8) with 18446744073709551616. lia. }
  assert (F4 : sub 0 4 b = enc_u32 ty) by (unfold sub; cbn [skipn]; rewrite Eb; apply firstn_exact; exact L4).
  assert (S16 : skipn 16 b = p ++ zs ++ rest).
  { replace 16%nat with (8 + 8)%nat by reflexivity. rewrite <- skipn_skipn'. rewrite S8. apply skipn_exact. exact L8. }
  assert (Hbn : Z.to_nat (fl - pad) = length p) by (rewrite Hfl; replace (len p + pad - pad) with (len p) by lia; apply to_nat_len).
  assert (F8 : sub 16 (length p) b = p) by (unfold sub; rewrite S16; apply firstn_exact; reflexivity).
  assert (F9 : sub (16 + length p) (Z.to_nat pad) b = zs).
  { unfold sub. rewrite <- skipn_skipn'. rewrite S16. rewrite skipn_exact by reflexivity. apply firstn_exact. exact Lz. }
  assert (F10 : skipn (16 + Z.to_nat fl) b = rest).
  { rewrite <- skipn_skipn'. rewrite S16. rewrite app_assoc. apply skipn_exact. rewrite app_length, Lz. unfold len in *. zlia. }
  rewrite parse_chunks_S by (rewrite Eb; unfold enc_u32; cbn [le_encode app]; discriminate).
  cbv zeta. rewrite F2, F3, F4, F5, F6, F7, Hbn, F8, F9, F10.
  rewrite (ltb_false (len b) 16) by lia. rewrite (ltb_false fl pad) by lia. rewrite (ltb_false (len b - 16) fl) by lia.
  reflexivity.
Qed.

(* ---- the header *)
Definition kh_of (dim topo : Z) (m : meshfile) : ksy_header :=
  {| k_file_version := 1; k_header_version := 1; k_vertex_dim := dim; k_topo_type := topo;
     k_n_vertices := m_nv m; k_n_edges := len (m_edges m); k_n_faces := len (m_faces m); k_n_cells := len (m_cells m) |}.

Lemma parse_header_enc dim topo m rest : 0 <= topo <= 2 ->
  u64_ok (m_nv m) -> u64_ok (len (m_edges m)) -> u64_ok (len (m_faces m)) -> u64_ok (len (m_cells m)) ->
  parse_header (write_file_header dim topo m ++ rest) = Some (kh_of dim topo m, rest).
Proof.
  intros Ht Hv He Hf Hc. unfold parse_header.
  assert (L : len (write_file_header dim topo m ++ rest) = 48 + len rest).
  { rewrite len_app. unfold len at 1. rewrite header_length. reflexivity. }
  pose proof (len_nonneg rest). rewrite ltb_false by lia.
  unfold write_file_header, kh_of, u, sub.
  cbn [app firstn skipn list_eqb ovmb_magic ksy_magic Z.eqb Pos.eqb andb negb le_encode enc_u64].
  rewrite !le_decode_1. rewrite ltb_false by lia.
  f_equal. f_equal. f_equal.
  - exact (le_decode_encode 8 (m_nv m) Hv).
  - exact (le_decode_encode 8 (len (m_edges m)) He).
  - exact (le_decode_encode 8 (len (m_faces m)) Hf).
  - exact (le_decode_encode 8 (len (m_cells m)) Hc).
Qed.
