(* IO/Ovmb2PropGroup.v -- the PROP chunks of a file: every property of the directory may be carried by several chunks
   (consecutive spans of its elements, possibly empty); and optional chunks of unknown type anywhere between. *)
From Coq Require Import ZArith List Bool Lia.
From OVM Require Import Base.Int32 Gen.OvmbFormat IO.Bytes IO.OvmbWriterModel IO.OvmbReaderModel IO.OvmbProofs
  IO.Ovmb2Base IO.Ovmb2Chunk IO.Ovmb2Alt IO.Ovmb2Ints IO.Ovmb2Topo IO.Ovmb2Vert IO.Ovmb2Dirp IO.Ovmb2Prop IO.Ovmb2Run
  IO.Ovmb2Groups.
Import ListNotations.
Local Open Scope Z_scope.

(* ================================================================================================ optional chunks *)
Definition skip_chunks (l : list (Z * list byte)) : list chunkd := map (fun x => CSkip (fst x) (snd x)) l.

Definition skip_ok (x : Z * list byte) : Prop := unknown_type (fst x) /\ len (snd x) < max_payload.

Lemma skip_group o h l : forall st, Forall skip_ok l ->
  run_valid o h st (skip_chunks l) /\ run_st st (skip_chunks l) = st.
Proof.
  unfold skip_chunks. induction l as [|[ty p] t IH]; intros st Hl; cbn [map run_valid run_st fst snd].
  - split; [exact I|reflexivity].
  - inversion Hl as [|? ? [H1 H2] Ht]; subst. cbn [fst snd] in *.
    destruct (IH st Ht) as [IH1 IH2]. cbn [next_st].
    split; [|exact IH2]. split; [|exact IH1]. split; [exact H2|exact H1].
Qed.

(* ================================================================================================ one property *)
Definition storage_with (pt : prop * ptype) (w : list (Z * list byte)) : storage :=
  {| st_ent := p_ent (fst pt); st_name := p_name (fst pt); st_tname := p_tname (fst pt); st_ty := snd pt;
     st_def := p_def (fst pt); st_writes := w |}.

Lemma storage_of_with pt : storage_of pt = storage_with pt [].
Proof. reflexivity. Qed.

Fixpoint prop_seg_chunks (idx first : Z) (ty : ptype) (segs : list (list (list byte))) : list chunkd :=
  match segs with
  | [] => []
  | s :: t => CProp idx first ty s :: prop_seg_chunks idx (first + len s) ty t
  end.

Fixpoint seg_writes (first : Z) (segs : list (list (list byte))) (w : list (Z * list byte)) : list (Z * list byte) :=
  match segs with
  | [] => w
  | s :: t => seg_writes (first + len s) t (writes_of first s w)
  end.

Lemma set_props_same st : set_props (r_stor st) (r_props st) st = st.
Proof. destruct st. reflexivity. Qed.

Lemma nth_error_mid {A} (a : list A) x b : nth_error (a ++ x :: b) (length a) = Some x.
Proof. induction a; [reflexivity|assumption]. Qed.

Lemma upd_storage_mid a pt w0 w b :
  upd_storage (length a) w (a ++ storage_with pt w0 :: b) = a ++ storage_with pt w :: b.
Proof. induction a as [|x t IH]; cbn [length app upd_storage]; [reflexivity|]. rewrite IH. reflexivity. Qed.

Definition pseg_payload_ok (idx : Z) (ty : ptype) (s : list (list byte)) : Prop :=
  Forall (val_ok ty) s /\ len (prop_payload idx 0 ty s) < max_payload.

Lemma len_prop_payload_first idx f1 f2 ty s : len (prop_payload idx f1 ty s) = len (prop_payload idx f2 ty s).
Proof. unfold prop_payload. lens. reflexivity. Qed.

Lemma prop_segs_run o h (j : nat) ent pt a b : forall segs st first w0,
  r_stor st = a ++ storage_with pt w0 :: b -> length a = j ->
  Z.of_nat j < 4294967296 -> Z.of_nat j < len (r_props st) ->
  nth j (r_props st) None = Some (ent, j) -> ty_ok (snd pt) ->
  0 <= first -> first + len (concat segs) <= read_count st ent -> first + len (concat segs) <= cur_count h st ent ->
  first + len (concat segs) < 4294967296 ->
  Forall (pseg_payload_ok (Z.of_nat j) (snd pt)) segs ->
  run_valid o h st (prop_seg_chunks (Z.of_nat j) first (snd pt) segs) /\
  run_st st (prop_seg_chunks (Z.of_nat j) first (snd pt) segs)
  = set_props (a ++ storage_with pt (seg_writes first segs w0) :: b) (r_props st) st.
Proof.
  induction segs as [|s t IH]; intros st first w0 Hstor Hlen Hj Hjl Hnth Hty Hf0 Hrc Hcc Hlim Hs.
  - cbn [prop_seg_chunks run_valid run_st seg_writes]. split; [exact I|]. rewrite <- Hstor. symmetry. apply set_props_same.
  - inversion Hs as [|? ? [Hs1 Hs2] Hst]; subst.
    cbn [concat] in Hrc, Hcc, Hlim. rewrite len_app in Hrc, Hcc, Hlim.
    pose proof (len_nonneg s). pose proof (len_nonneg (concat t)).
    cbn [prop_seg_chunks run_valid run_st seg_writes].
    set (st1 := next_st st (CProp (Z.of_nat (length a)) first (snd pt) s)).
    assert (Hst1 : st1 = set_props (a ++ storage_with pt (writes_of first s w0) :: b) (r_props st) st).
    { unfold st1. cbn [next_st]. rewrite Nat2Z.id. rewrite Hnth.
      destruct s as [|v0 s0].
      - cbn [writes_of]. rewrite <- Hstor. symmetry. apply set_props_same.
      - unfold add_writes. rewrite Hstor. rewrite nth_error_mid. rewrite upd_storage_mid. reflexivity. }
    destruct (IH st1 (first + len s) (writes_of first s w0)) as [IH1 IH2]; try assumption; try lia;
      try (rewrite Hst1; assumption); try (rewrite Hst1; reflexivity).
    + rewrite Hst1. change (read_count (set_props (a ++ storage_with pt (writes_of first s w0) :: b) (r_props st) st) ent) with (read_count st ent). lia.
    + rewrite Hst1. change (cur_count h (set_props (a ++ storage_with pt (writes_of first s w0) :: b) (r_props st) st) ent) with (cur_count h st ent). lia.
    + split.
      * split; [|exact IH1].
        split; [cbn [payload_of]; rewrite (len_prop_payload_first _ first 0); exact Hs2|].
        exists ent, (length a), (storage_with pt w0).
        rewrite Nat2Z.id. rewrite Hstor, nth_error_mid.
        repeat split; try assumption; try lia.
      * rewrite IH2. rewrite Hst1. reflexivity.
Qed.

(* ================================================================================================ all properties *)
Definition pentry := ((prop * ptype) * list (list (list byte)))%type.

Fixpoint props_chunks (idx : nat) (pss : list pentry) : list chunkd :=
  match pss with
  | [] => []
  | x :: t => prop_seg_chunks (Z.of_nat idx) 0 (snd (fst x)) (snd x) ++ props_chunks (S idx) t
  end.

Definition final_storage (x : pentry) : storage := storage_with (fst x) (seg_writes 0 (snd x) []).

(* what the reader requires of the chunks of one property (idx: its directory index) *)
Definition pentry_ok (h : fhdr) (st : rst) (idx : nat) (x : pentry) : Prop :=
  ty_ok (snd (fst x)) /\
  len (concat (snd x)) <= read_count st (p_ent (fst (fst x))) /\
  len (concat (snd x)) <= cur_count h st (p_ent (fst (fst x))) /\
  len (concat (snd x)) < 4294967296 /\
  Forall (pseg_payload_ok (Z.of_nat idx) (snd (fst x))) (snd x).

Fixpoint pentries_ok (h : fhdr) (st : rst) (idx : nat) (pss : list pentry) : Prop :=
  match pss with
  | [] => True
  | x :: t => pentry_ok h st idx x /\ pentries_ok h st (S idx) t
  end.

Lemma pentries_ok_ext h st st' : (forall e, read_count st' e = read_count st e) -> (forall e, cur_count h st' e = cur_count h st e) ->
  forall pss idx, pentries_ok h st idx pss -> pentries_ok h st' idx pss.
Proof.
  intros H1 H2. induction pss as [|x t IH]; intros idx H; [exact I|].
  destruct H as [[A [B [C [D E]]]] H]. split; [|apply IH; exact H].
  unfold pentry_ok. rewrite H1, H2. auto.
Qed.

Lemma props_run o h : forall pss a st,
  r_stor st = a ++ map (fun x => storage_of (fst x)) pss ->
  Z.of_nat (length a + length pss) < 4294967296 -> Z.of_nat (length a + length pss) <= len (r_props st) ->
  (forall k x, nth_error pss k = Some x ->
     nth (length a + k) (r_props st) None = Some (p_ent (fst (fst x)), (length a + k)%nat)) ->
  pentries_ok h st (length a) pss ->
  run_valid o h st (props_chunks (length a) pss) /\
  run_st st (props_chunks (length a) pss) = set_props (a ++ map final_storage pss) (r_props st) st.
Proof.
  induction pss as [|x t IH]; intros a st Hstor Hlim Hlp Hnth Hok.
  - cbn [props_chunks run_valid run_st map] in *. split; [exact I|]. rewrite <- Hstor. symmetry. apply set_props_same.
  - destruct Hok as [[Hty [Hrc [Hcc [Hl Hs]]]] Hok].
    cbn [map] in Hstor. cbn [length] in Hlim, Hlp. rewrite storage_of_with in Hstor.
    pose proof (Hnth 0%nat x eq_refl) as Hn0. rewrite Nat.add_0_r in Hn0.
    destruct (prop_segs_run o h (length a) (p_ent (fst (fst x))) (fst x) a (map (fun x => storage_of (fst x)) t)
                (snd x) st 0 [] Hstor eq_refl) as [R1 R2]; try assumption; try lia.
    cbn [props_chunks].
    set (st1 := run_st st (prop_seg_chunks (Z.of_nat (length a)) 0 (snd (fst x)) (snd x))) in *.
    assert (Hp1 : r_props st1 = r_props st) by (rewrite R2; reflexivity).
    assert (Hlen1 : length (a ++ [final_storage x]) = S (length a)) by (rewrite app_length; cbn [length]; lia).
    destruct (IH (a ++ [final_storage x]) st1) as [IH1 IH2].
    + rewrite R2. cbn [set_props r_stor]. rewrite <- app_assoc. reflexivity.
    + rewrite Hlen1. lia.
    + rewrite Hlen1, Hp1. lia.
    + intros k y Hk. rewrite Hlen1, Hp1. replace (S (length a) + k)%nat with (length a + S k)%nat by lia.
      apply Hnth. exact Hk.
    + rewrite Hlen1. apply (pentries_ok_ext h st); [intros e; rewrite R2; reflexivity|intros e; rewrite R2; reflexivity|exact Hok].
    + rewrite Hlen1 in IH1, IH2. split.
      * apply run_valid_app; [exact R1|]. fold st1. exact IH1.
      * rewrite run_st_app. fold st1. rewrite IH2. rewrite R2.
        cbn [map]. rewrite <- app_assoc. reflexivity.
Qed.

(* ================================================================================================ the values read back *)
Lemma seg_writes_cover : forall segs done w, writes_cover w done ->
  writes_cover (seg_writes (len done) segs w) (done ++ concat segs).
Proof.
  induction segs as [|s t IH]; intros done w Hc; cbn [seg_writes concat].
  - rewrite app_nil_r. exact Hc.
  - rewrite app_assoc. rewrite <- len_app. apply IH. apply writes_cover_app. exact Hc.
Qed.

Lemma final_storage_values (x : pentry) : storage_values (final_storage x) (len (concat (snd x))) = concat (snd x).
Proof.
  apply storage_values_cover. unfold final_storage. cbn [storage_with st_writes].
  exact (seg_writes_cover (snd x) [] [] (writes_cover_nil [])).
Qed.

Lemma dir_props_nth es : forall i k pt, nth_error es k = Some pt ->
  nth k (dir_props i es) None = Some (p_ent (fst pt), (i + k)%nat).
Proof.
  induction es as [|e t IH]; intros i k pt H; [destruct k; discriminate|].
  destruct k as [|k]; cbn [nth_error dir_props nth] in *.
  - inversion H; subst. rewrite Nat.add_0_r. reflexivity.
  - rewrite (IH (S i) k pt H). do 2 f_equal. lia.
Qed.

Lemma dir_props_length es : forall i, length (dir_props i es) = length es.
Proof. induction es as [|e t IH]; intros i; cbn [dir_props length]; [reflexivity|]. rewrite IH. reflexivity. Qed.
