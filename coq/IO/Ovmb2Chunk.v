(* IO/Ovmb2Chunk.v -- chunk framing, forward direction: BinaryFileReader::read_chunk on a chunk produced by
   BinaryFileWriter::write_chunk consumes exactly that chunk, hands its payload to the reader of its type and leaves the
   rest of the stream; the while loop of internal_read_file folds this over a concatenation of chunks. *)
From Coq Require Import ZArith List Bool Lia.
From OVM Require Import Base.Int32 Gen.OvmbFormat IO.Bytes IO.OvmbWriterModel IO.OvmbReaderModel IO.OvmbProofs IO.Ovmb2Base.
Import ListNotations.
Local Open Scope Z_scope.

(* write_chunk with the flags byte as a parameter (the writer always sets Mandatory; the format also permits optional chunks) *)
Definition gen_chunk (ty flags : Z) (payload : list byte) : list byte :=
  let n := len payload in
  enc_u32 ty ++ [0; write_chunk_padding_bytes n; 0; flags] ++ enc_u64 (write_chunk_file_length n)
  ++ payload ++ repeat 0 (Z.to_nat (write_chunk_padding_bytes n)).

Lemma write_chunk_gen ty p : write_chunk ty p = gen_chunk ty ChunkFlags_Mandatory p.
Proof. reflexivity. Qed.

(* the dispatch of read_chunk for a version-0 chunk while the EOF chunk has not been seen *)
Definition handler (o : opts) (h : fhdr) (st : rst) (ty flags : Z) (cd : dec) : R (rst * dec) :=
  if ty =? ChunkType_EndOfFile then (if negb (len cd =? 0) then state_error S_Error else Ret (st, cd))
  else if ty =? ChunkType_PropertyDirectory then read_propdir_chunk st cd
  else if ty =? ChunkType_Property then read_prop_chunk h st cd
  else if ty =? ChunkType_Vertices then read_vertices_chunk o h st cd
  else if ty =? ChunkType_Topo then read_topo_chunk o h st cd
  else if Z.land flags ChunkFlags_Mandatory =? ChunkFlags_Mandatory then state_error S_ErrorUnsupportedChunkType
  else Ret (st, []).

Definition max_payload : Z := 4611686018427387904.   (* 2^62: the range on which the padding arithmetic is exact *)

Lemma len_gen_chunk ty flags p : len p < max_payload ->
  len (gen_chunk ty flags p) = 16 + len p + write_chunk_padding_bytes (len p) /\ 0 <= write_chunk_padding_bytes (len p) < 8.
Proof.
  intros Hp. pose proof (len_nonneg p). unfold max_payload in Hp.
  destruct (padding_spec (len p) ltac:(zlia)) as [Hpad Hfl].
  split; [|exact Hpad]. unfold gen_chunk. lens. rewrite Z2Nat.id by zlia. zlia.
Qed.

Lemma forallb_zero_repeat n : forallb (fun c => c =? 0) (repeat 0 n) = true.
Proof. induction n; [reflexivity|]. cbn [repeat forallb]. rewrite IHn. reflexivity. Qed.

Lemma read_gen_chunk o h st ty flags p st' rest avail :
  0 <= ty < 4294967296 -> flags = 0 \/ flags = 1 -> len p < max_payload ->
  handler o h st ty flags p = Ret (st', []) ->
  len (gen_chunk ty flags p) + len rest <= avail ->
  read_chunk o h st false {| s_bytes := gen_chunk ty flags p ++ rest; s_avail := avail |}
  = Ret (st', ty =? ChunkType_EndOfFile, {| s_bytes := rest; s_avail := avail - len (gen_chunk ty flags p) |}).
Proof.
  intros Hty Hfl Hp Hh Hav.
  destruct (len_gen_chunk ty flags p Hp) as [Lc Hpad]. rewrite Lc in *.
  pose proof (len_nonneg p) as Hp0. pose proof (len_nonneg rest) as Hr0.
  unfold max_payload in Hp.
  destruct (padding_spec (len p) ltac:(zlia)) as [_ Hflen].
  unfold gen_chunk. cbv zeta.
  remember (write_chunk_padding_bytes (len p)) as pad eqn:Epad.
  remember (write_chunk_file_length (len p)) as fl eqn:Efl.
  remember (enc_u32 ty ++ [0; pad; 0; flags] ++ enc_u64 fl ++ []) as hdr eqn:Ehdr.
  replace ((enc_u32 ty ++ [0; pad; 0; flags] ++ enc_u64 fl ++ p ++ repeat 0 (Z.to_nat pad)) ++ rest)
    with (hdr ++ p ++ repeat 0 (Z.to_nat pad) ++ rest)
    by (subst hdr; repeat rewrite <- app_assoc; reflexivity).
  assert (Lh : len hdr = 16) by (subst hdr; lens; zlia).
  unfold read_chunk.
  rewrite (make_decoder_app ovmb_size_ChunkHeader hdr) by (unfold ovmb_size_ChunkHeader; zlia).
  cbn [bind]. rewrite need_ok by (unfold ovmb_size_ChunkHeader; zlia). cbn [bind].
  rewrite Ehdr at 1. rewrite rd_u32_enc by exact Hty. cbn [bind app].
  rewrite rd_u8_cons. cbn [bind]. rewrite rd_u8_cons. cbn [bind]. rewrite rd_u8_cons. cbn [bind].
  rewrite rd_enum8_cons by (destruct Hfl as [-> | ->]; reflexivity). cbn [bind].
  rewrite rd_u64_enc by zlia. cbn [bind].
  rewrite (ltb_false fl pad) by zlia.
  rewrite Z.eqb_refl. cbn [negb].
  unfold remaining_bytes. cbn [s_bytes s_avail].
  rewrite (ltb_false (len (p ++ repeat 0 (Z.to_nat pad) ++ rest)) fl)
    by (lens; rewrite (Z2Nat.id pad) by zlia; zlia).
  replace (fl - pad) with (len p) by zlia.
  rewrite (make_decoder_app (len p) p) by (unfold ovmb_size_ChunkHeader; zlia).
  cbn [bind].
  match goal with |- bind ?X _ = _ => change X with (handler o h st ty flags p) end.
  rewrite Hh. cbn [bind orb andb].
  rewrite (make_decoder_app pad (repeat 0 (Z.to_nat pad))) by (lens; unfold ovmb_size_ChunkHeader; zlia).
  cbn [bind]. rewrite forallb_zero_repeat.
  f_equal. f_equal. unfold ovmb_size_ChunkHeader. f_equal. zlia.
Qed.

(* ================================================================================================ sequences of chunks *)
(* c is one chunk which, in state st, the reader consumes exactly, going to st' (no EOF chunk) *)
Definition reads1 (o : opts) (h : fhdr) (st : rst) (c : list byte) (st' : rst) : Prop :=
  16 <= len c /\
  forall rest avail, len c + len rest <= avail ->
    read_chunk o h st false {| s_bytes := c ++ rest; s_avail := avail |}
    = Ret (st', false, {| s_bytes := rest; s_avail := avail - len c |}).

Inductive reads (o : opts) (h : fhdr) : rst -> list byte -> rst -> Prop :=
| reads_nil st : reads o h st [] st
| reads_cons st c st1 b st2 : reads1 o h st c st1 -> reads o h st1 b st2 -> reads o h st (c ++ b) st2.

Lemma reads_app o h st a st1 b st2 : reads o h st a st1 -> reads o h st1 b st2 -> reads o h st (a ++ b) st2.
Proof.
  induction 1 as [st|st c st1' b' st2' H1 H2 IH]; intros Hb; [exact Hb|].
  rewrite <- app_assoc. eapply reads_cons; [exact H1|]. apply IH. exact Hb.
Qed.

Lemma reads_one o h st c st' : reads1 o h st c st' -> reads o h st c st'.
Proof. intros H. rewrite <- (app_nil_r c). eapply reads_cons; [exact H|constructor]. Qed.

(* a non-EOF writer chunk whose handler succeeds and consumes its whole payload *)
Lemma reads1_gen o h st ty flags p st' :
  0 <= ty < 4294967296 -> flags = 0 \/ flags = 1 -> len p < max_payload -> ty <> ChunkType_EndOfFile ->
  handler o h st ty flags p = Ret (st', []) ->
  reads1 o h st (gen_chunk ty flags p) st'.
Proof.
  intros Hty Hfl Hp Hne Hh. destruct (len_gen_chunk ty flags p Hp) as [Lc Hpad].
  split; [pose proof (len_nonneg p); zlia|].
  intros rest avail Hav. rewrite (read_gen_chunk o h st ty flags p st' rest avail) by assumption.
  rewrite (eqb_false ty ChunkType_EndOfFile) by exact Hne. reflexivity.
Qed.

Lemma chunk_loop_S f o h st eof s :
  chunk_loop (S f) o h st eof s =
  if remaining_bytes s <=? 0 then Ret (st, eof)
  else do x <- read_chunk o h st eof s; let '(st', eof', s') := x in chunk_loop f o h st' eof' s'.
Proof. reflexivity. Qed.

Lemma chunk_loop_nil f o h st eof avail : chunk_loop f o h st eof {| s_bytes := []; s_avail := avail |} = Ret (st, eof).
Proof. destruct f; reflexivity. Qed.

(* the loop over a sequence of chunks followed by anything *)
Lemma reads_loop o h st b st' : reads o h st b st' -> forall rest avail fuel,
  len b + len rest <= avail -> (length (b ++ rest) <= fuel)%nat ->
  exists fuel', (length rest <= fuel')%nat /\
    chunk_loop fuel o h st false {| s_bytes := b ++ rest; s_avail := avail |}
    = chunk_loop fuel' o h st' false {| s_bytes := rest; s_avail := avail - len b |}.
Proof.
  induction 1 as [st|st c st1 b st2 [Hc16 Hc] Hb IH]; intros rest avail fuel Hav Hfuel.
  - exists fuel. split; [exact Hfuel|]. cbn [app]. rewrite len_nil, Z.sub_0_r. reflexivity.
  - rewrite <- app_assoc in *. rewrite len_app in Hav.
    rewrite app_length in Hfuel. unfold len in Hc16.
    destruct fuel as [|f]; [zlia|].
    rewrite chunk_loop_S. unfold remaining_bytes. cbn [s_bytes].
    rewrite (leb_false (len (c ++ b ++ rest)) 0)
      by (rewrite len_app; pose proof (len_nonneg (b ++ rest)); unfold len in *; zlia).
    rewrite Hc by (rewrite len_app; zlia). cbn [bind].
    destruct (IH rest (avail - len c) f) as [fuel' [Hf' E]]; [zlia|zlia|].
    exists fuel'. split; [exact Hf'|]. rewrite E. rewrite len_app. do 2 f_equal. zlia.
Qed.

(* ... followed by the EOF chunk and the end of the stream *)
Lemma eof_chunk_read o h st avail : 16 <= avail ->
  read_chunk o h st false {| s_bytes := write_chunk ChunkType_EndOfFile []; s_avail := avail |}
  = Ret (st, true, {| s_bytes := []; s_avail := avail - 16 |}).
Proof.
  intros Hav. rewrite write_chunk_gen. rewrite <- (app_nil_r (gen_chunk _ _ _)).
  assert (L : len (gen_chunk ChunkType_EndOfFile ChunkFlags_Mandatory []) = 16) by reflexivity.
  rewrite (read_gen_chunk o h st ChunkType_EndOfFile ChunkFlags_Mandatory [] st [] avail).
  - rewrite L. reflexivity.
  - unfold ChunkType_EndOfFile. zlia.
  - right; reflexivity.
  - rewrite len_nil. unfold max_payload. zlia.
  - reflexivity.
  - rewrite L, len_nil. zlia.
Qed.

Lemma reads_loop_eof o h st b st' : reads o h st b st' ->
  let bytes := b ++ write_chunk ChunkType_EndOfFile [] in
  forall avail, len bytes <= avail ->
  chunk_loop (length bytes) o h st false {| s_bytes := bytes; s_avail := avail |} = Ret (st', true).
Proof.
  intros Hr bytes avail Hav. subst bytes. rewrite len_app in Hav.
  destruct (reads_loop o h st b st' Hr (write_chunk ChunkType_EndOfFile []) avail _ Hav (le_n _)) as [fuel' [Hf E]].
  rewrite E. change (length (write_chunk ChunkType_EndOfFile [])) with 16%nat in Hf.
  change (len (write_chunk ChunkType_EndOfFile [])) with 16 in Hav.
  destruct fuel' as [|f]; [zlia|].
  rewrite chunk_loop_S. change (remaining_bytes _ <=? 0) with false. cbv iota.
  rewrite eof_chunk_read by zlia. cbn [bind]. apply chunk_loop_nil.
Qed.
