(* IO/Ascii2Num.v -- C06 (ASCII), property values: reading back one printed token from the STREAM (not from an extracted
   line as in AsciiProofs.v): arbitrary leading whitespace (the newline left behind by the previous value), a token, and a
   remainder that is empty or starts with a whitespace character.
     * signed and unsigned integers of every width the deserializers use (extract_int_print_signed, get_num_print_ws),
     * single characters (get_char_ws),
     * floating point numerals for an abstract printer / converter pair (Section FloatTok). *)
From Coq Require Import ZArith Lia List Bool String Ascii.
From OVM Require Import IO.AsciiStream IO.AsciiReaderModel IO.AsciiWriterModel IO.AsciiProofs.
Import ListNotations.
Local Open Scope Z_scope.

(* ------------------------------------------------------------------ whitespace around a token *)

Definition allws (l : list byte) : Prop := Forall (fun c => isspace c = true) l.
(* the remainder after a token: the end of the input or a whitespace character *)
Definition endws (r : list byte) : Prop := r = [] \/ exists c r', r = c :: r' /\ isspace c = true.

Lemma allws_nil : allws []. Proof. constructor. Qed.
Lemma allws_nl : allws [c_nl]. Proof. repeat constructor. Qed.
Lemma allws_app a b : allws a -> allws b -> allws (a ++ b).
Proof. intros. apply Forall_app; auto. Qed.

Lemma endws_nl R : endws (c_nl :: R).
Proof. right. exists c_nl, R. split; reflexivity. Qed.
Lemma endws_sp R : endws (32 :: R).
Proof. right. exists 32, R. split; reflexivity. Qed.
Lemma endws_nil : endws []. Proof. left; reflexivity. Qed.
Lemma endsp_endws r : endsp r -> endws r.
Proof. intros [->|(r' & ->)]; [apply endws_nil|apply endws_sp]. Qed.

Lemma isspace_not_digit c : isspace c = true -> is_digit c = false.
Proof. unfold isspace, is_digit. lia. Qed.

Lemma endws_nondigit r : endws r -> r = [] \/ exists c r', r = c :: r' /\ is_digit c = false.
Proof. intros [->|(c & r' & -> & H)]; [left; reflexivity|right; exists c, r'; split; auto using isspace_not_digit]. Qed.

Lemma skipws_lead lead x : allws lead -> skipws (lead ++ x) = skipws x.
Proof. induction 1 as [|c l Hc _ IH]; [reflexivity|]. cbn [app skipws]. rewrite Hc. exact IH. Qed.

Lemma skipws_lead_tok lead t r : allws lead -> tokp t -> skipws (lead ++ t ++ r) = t ++ r.
Proof. intros. rewrite skipws_lead; auto. apply skipws_tok; auto. Qed.

(* the skipping sentry in front of a token *)
Lemma sentry_lead_tok lead t r : allws lead -> tokp t ->
  sentry true (st (lead ++ t ++ r)) = (st (t ++ r), true).
Proof.
  intros Hl Tk. unfold sentry, st. cbn [good mk eofb failb negb andb rest].
  rewrite skipws_lead_tok; auto. destruct (tok_app_nonnil t r Tk) as (c & l & E). rewrite E. reflexivity.
Qed.

(* ------------------------------------------------------------------ signed integers *)

Lemma print_Z_neg z : z < 0 -> print_Z z = c_minus :: print_nat_Z (- z).
Proof. intros H. unfold print_Z. assert (L : (z <? 0) = true) by lia. rewrite L. reflexivity. Qed.
Lemma print_Z_nonneg z : 0 <= z -> print_Z z = print_nat_Z z.
Proof. intros H. unfold print_Z. assert (L : (z <? 0) = false) by lia. rewrite L. reflexivity. Qed.

Lemma print_Z_tok_any z : tokp (print_Z z) /\ hd 0 (print_Z z) <> 35.
Proof.
  destruct (Z.ltb_spec z 0) as [Hn|Hp].
  - rewrite print_Z_neg by lia. destruct (print_nat_Z_spec (- z) ltac:(lia)) as (A & _ & _ & _).
    split; [split; [discriminate|]|cbn; unfold c_minus; lia]. constructor; [reflexivity|apply digits_nows; exact A].
  - split; [apply print_Z_tok; lia|]. rewrite print_Z_nonneg by lia.
    destruct (print_nat_Z_spec z Hp) as (A & _ & C & _). destruct (print_nat_Z z) as [|c t]; [congruence|].
    inversion A; subst. cbn. lia.
Qed.

Definition two63 : Z := 9223372036854775808.
Definition two64 : Z := 18446744073709551616.
Lemma pow2_64 : pow2 64 = two64. Proof. reflexivity. Qed.
Lemma pow2_63 : pow2 (64 - 1) = two63. Proof. reflexivity. Qed.

(* the digit part of a printed positive number: no leading zero, so zeros_loop consumes nothing *)
Lemma zeros_loop_nonzero c t f : (c =? c_zero) = false -> zeros_loop (c :: t) f = (f, c :: t).
Proof. intros H. cbn [zeros_loop]. rewrite H. reflexivity. Qed.

Lemma extract_int_digits_signed (neg : bool) n r :
  0 < n -> n <= (if neg then two63 else two63 - 1) ->
  (r = [] \/ exists c r', r = c :: r' /\ is_digit c = false) ->
  digits_loop (if neg then two63 else two63 - 1) ((if neg then two63 else two63 - 1) / 10) two64
              (print_nat_Z n ++ r) 0 false false = (n, false, true, r).
Proof.
  intros Hp Hn Hr. destruct (print_nat_Z_spec n ltac:(lia)) as (A & B & C & D).
  rewrite (digits_loop_digits _ _ _ (print_nat_Z n) r 0 false false); auto; try lia; rewrite ?B; try lia; try reflexivity.
  destruct neg; unfold two63, two64; lia.
Qed.

Lemma extract_int_print_signed z r : - two63 <= z < two63 ->
  (r = [] \/ exists c r', r = c :: r' /\ is_digit c = false) ->
  extract_int 64 true (print_Z z ++ r) = (z, false, r).
Proof.
  intros Hz Hr.
  destruct (Z.ltb_spec z 0) as [Hn|Hp].
  - (* negative *)
    rewrite print_Z_neg by lia. cbn [app].
    destruct (print_nat_Z_spec (- z) ltac:(lia)) as (A & B & C & D).
    destruct (D ltac:(lia)) as (c & t & E & Nz).
    assert (Dc : 48 <= c <= 57) by (rewrite E in A; inversion A; auto).
    unfold extract_int. replace (c_minus =? c_minus) with true by reflexivity.
    rewrite E. cbn [app]. rewrite zeros_loop_nonzero by (unfold c_zero; lia).
    rewrite pow2_64, pow2_63. cbn [andb].
    change (c :: t ++ r) with ((c :: t) ++ r). rewrite <- E.
    pose proof (extract_int_digits_signed true (- z) r ltac:(lia) ltac:(cbn iota; lia) Hr) as DL. cbn iota in DL.
    rewrite DL. cbn [negb andb]. f_equal. f_equal. lia.
  - destruct (Z.eq_dec z 0) as [->|Hz0].
    + assert (E : print_Z 0 = [48]) by reflexivity. rewrite E. cbn [app]. unfold extract_int.
      replace (48 =? c_minus) with false by reflexivity. replace (48 =? c_plus) with false by reflexivity.
      cbn [zeros_loop]. replace (48 =? c_zero) with true by reflexivity.
      destruct Hr as [->|(c & r' & -> & Nd)].
      * reflexivity.
      * cbn [zeros_loop]. rewrite (is_digit_false_zero _ Nd). cbn [digits_loop]. rewrite Nd. reflexivity.
    + rewrite print_Z_nonneg by lia.
      destruct (print_nat_Z_spec z ltac:(lia)) as (A & B & C & D).
      destruct (D ltac:(lia)) as (c & t & E & Nz).
      assert (Dc : 48 <= c <= 57) by (rewrite E in A; inversion A; auto).
      unfold extract_int. rewrite E. cbn [app].
      assert (M1 : (c =? c_minus) = false) by (unfold c_minus; lia).
      assert (M2 : (c =? c_plus) = false) by (unfold c_plus; lia). rewrite M1, M2.
      rewrite zeros_loop_nonzero by (unfold c_zero; lia).
      rewrite pow2_64, pow2_63. cbn [andb].
      change (c :: t ++ r) with ((c :: t) ++ r). rewrite <- E.
      pose proof (extract_int_digits_signed false z r ltac:(lia) ltac:(cbn iota; lia) Hr) as DL. cbn iota in DL.
      rewrite DL. cbn [negb andb]. reflexivity.
Qed.

(* ------------------------------------------------------------------ operator>> for every integral type *)

(* the values of the C++ type *)
Definition num_lo (t : numty) : Z :=
  match t with NU32 | NU64 | NBool => 0 | NI64 => - two63 | NI32 => -2147483648 | NI16 => -32768 end.
Definition num_hi (t : numty) : Z :=
  match t with NU32 => 4294967295 | NU64 => two64 - 1 | NBool => 1 | NI64 => two63 - 1 | NI32 => 2147483647 | NI16 => 32767 end.
Definition in_num (t : numty) (z : Z) : Prop := num_lo t <= z <= num_hi t.
Definition in_numb (t : numty) (z : Z) : bool := (num_lo t <=? z) && (z <=? num_hi t).
Lemma in_numb_spec t z : in_numb t z = true <-> in_num t z.
Proof. unfold in_numb, in_num. lia. Qed.

Lemma parse_num_print t z r : in_num t z ->
  (r = [] \/ exists c r', r = c :: r' /\ is_digit c = false) ->
  parse_num t (print_Z z ++ r) = (z, false, r).
Proof.
  intros Hz Hr. unfold in_num in Hz. destruct t; cbn [num_lo num_hi] in Hz; unfold two63, two64 in Hz; cbn [parse_num].
  - apply extract_int_print; auto; [lia|unfold pow2; lia].
  - apply extract_int_print; auto; [lia|unfold pow2; lia].
  - apply extract_int_print_signed; auto. unfold two63; lia.
  - rewrite extract_int_print_signed; auto; [|unfold two63; lia]. unfold clamp.
    assert (A : (z <? -2147483648) = false) by lia. assert (B : (z >? 2147483647) = false) by lia. rewrite A, B. reflexivity.
  - rewrite extract_int_print_signed; auto; [|unfold two63; lia]. unfold clamp.
    assert (A : (z <? -32768) = false) by lia. assert (B : (z >? 32767) = false) by lia. rewrite A, B. reflexivity.
  - rewrite extract_int_print_signed; auto; [|unfold two63; lia].
    assert (A : (z =? 0) || (z =? 1) = true) by lia. rewrite A. reflexivity.
Qed.

(* the remainder only has to start with a non-digit (the ':' after a string length) *)
Lemma get_num_print_nd t z lead r : in_num t z -> allws lead ->
  (r = [] \/ exists c r', r = c :: r' /\ is_digit c = false) ->
  get_num t (st (lead ++ print_Z z ++ r)) = (mk r (is_nil r) false, Some z).
Proof.
  intros Hz Hl Hr. destruct (print_Z_tok_any z) as [Tk _]. unfold get_num.
  rewrite sentry_lead_tok; auto. cbn [rest st mk].
  rewrite parse_num_print; auto.
Qed.

Lemma get_num_print_ws t z lead r : in_num t z -> allws lead -> endws r ->
  get_num t (st (lead ++ print_Z z ++ r)) = (mk r (is_nil r) false, Some z).
Proof. intros. apply get_num_print_nd; auto using endws_nondigit. Qed.

(* the stream after a token that is followed by something *)
Lemma mk_cons c r : mk (c :: r) (is_nil (c :: r)) false = st (c :: r).
Proof. reflexivity. Qed.

Lemma get_num_print_nl t z lead R : in_num t z -> allws lead ->
  get_num t (st (lead ++ print_Z z ++ c_nl :: R)) = (st (c_nl :: R), Some z).
Proof. intros. rewrite get_num_print_ws; auto using endws_nl. Qed.

(* ------------------------------------------------------------------ operator>>(char&) *)

Lemma get_char_ws c lead r : isspace c = false -> allws lead ->
  get_char (st (lead ++ c :: r)) = (st r, Some c).
Proof.
  intros Hc Hl. unfold get_char.
  assert (Tk : tokp [c]) by (split; [discriminate|repeat constructor; auto]).
  change (c :: r) with ([c] ++ r). rewrite (sentry_lead_tok lead [c] r Hl Tk). reflexivity.
Qed.

(* ------------------------------------------------------------------ floating point numerals *)

Section FloatTok.
  Variable conv : list byte -> Z * bool.
  Variable print : Z -> list byte.
  Variable ok : Z -> Prop.
  (* the printed numeral is one token; num_get's scanner accepts exactly it when it is followed by the end of the input
     or a whitespace character; converting it does not set failbit *)
  Hypothesis print_tok : forall b, ok b -> tokp (print b) /\ hd 0 (print b) <> 35.
  Hypothesis print_scan : forall b r, ok b -> endws r -> float_scan (print b ++ r) = (print b, r).
  Hypothesis print_conv : forall b, ok b -> snd (conv (print b)) = false.

  Lemma get_float_print_ws b lead r : ok b -> allws lead -> endws r ->
    get_float conv (st (lead ++ print b ++ r)) = (mk r (is_nil r) false, Some (reparse conv print b)).
  Proof.
    intros Hb Hl Hr. destruct (print_tok b Hb) as [Tk _]. unfold get_float, parse_float.
    rewrite sentry_lead_tok; auto. cbn [rest st mk]. rewrite print_scan; auto.
    unfold reparse. pose proof (print_conv b Hb) as F. destruct (conv (print b)) as [v f]. cbn [fst snd] in *. subst f. reflexivity.
  Qed.

  (* the weaker form AsciiProofs.v asks for (remainder empty or a blank) *)
  Lemma print_scan_sp : forall b r, ok b -> endsp r -> float_scan (print b ++ r) = (print b, r).
  Proof. intros. apply print_scan; auto using endsp_endws. Qed.
End FloatTok.
