(* IO/Ascii2Sort.v -- C06 (ASCII): the order in which writeProps writes the properties (entity kind by entity kind, the
   enumeration order inside a kind: [sorted_props], a permutation of the list), the identity of a property for the reader
   (entity kind, name, value type: [pkey]) and what "request_property finds no such property yet" means along the file. *)
From Coq Require Import ZArith Lia List Bool String Ascii Permutation.
From OVM Require Import Kernel.Ops.
From OVM Require Import IO.AsciiStream IO.AsciiReaderModel IO.AsciiWriterModel IO.AsciiProofs IO.Ascii2Num IO.Ascii2Val IO.Ascii2Prop.
Import ListNotations.
Local Open Scope Z_scope.

(* ------------------------------------------------------------------ the three equality tests *)

Lemma kind_eqb_eq a b : kind_eqb a b = true <-> a = b.
Proof. destruct a, b; cbn; split; intros H; try discriminate H; reflexivity. Qed.

Lemma bytes_eqb_eq a : forall b, bytes_eqb a b = true <-> a = b.
Proof.
  induction a as [|x a IH]; intros [|y b]; cbn; split; intros H; try discriminate H; try reflexivity.
  - apply andb_prop in H. destruct H as [H1 H2]. apply Z.eqb_eq in H1. apply IH in H2. congruence.
  - inversion H; subst. rewrite Z.eqb_refl. apply IH. reflexivity.
Qed.

Lemma scalar_eqb_eq a b : scalar_eqb a b = true <-> a = b.
Proof. destruct a, b; cbn; split; intros H; try discriminate H; reflexivity. Qed.

Lemma atype_eqb_refl a : atype_eqb a a = true.
Proof. destruct a; cbn; try reflexivity. rewrite Nat.eqb_refl. destruct s; reflexivity. Qed.

Lemma atype_eqb_eq a b : atype_eqb a b = true <-> a = b.
Proof.
  split; [|intros ->; apply atype_eqb_refl].
  destruct a, b; cbn; intros H; try discriminate H; try reflexivity.
  apply andb_prop in H. destruct H as [H1 H2]. apply Nat.eqb_eq in H1. apply scalar_eqb_eq in H2. congruence.
Qed.

Definition pkey (p : pentry) : kind * list byte * atype := (p_kind p, p_name p, p_type p).

Lemma prop_matches_key k n t q : prop_matches k n t q = true <-> (k, n, t) = pkey q.
Proof.
  unfold prop_matches, pkey. split.
  - intros H. apply andb_prop in H. destruct H as [H H3]. apply andb_prop in H. destruct H as [H1 H2].
    apply kind_eqb_eq in H1. apply bytes_eqb_eq in H2. apply atype_eqb_eq in H3. congruence.
  - intros H. inversion H; subst. rewrite (proj2 (kind_eqb_eq _ _) eq_refl), (proj2 (bytes_eqb_eq _ _) eq_refl), atype_eqb_refl. reflexivity.
Qed.

Lemma find_prop_none k n t : forall l i, (forall q, In q l -> (k, n, t) <> pkey q) -> find_prop k n t l i = None.
Proof.
  induction l as [|q l IH]; intros i H; cbn [find_prop]; [reflexivity|].
  destruct (prop_matches k n t q) eqn:E.
  - apply prop_matches_key in E. exfalso. apply (H q); [left; reflexivity|exact E].
  - apply IH. intros q' Hq'. apply H. right. exact Hq'.
Qed.

(* decidable: no two entries with the same key *)
Definition key_eqb (p q : pentry) : bool := prop_matches (p_kind p) (p_name p) (p_type p) q.
Fixpoint keys_nodupb (l : list pentry) : bool :=
  match l with [] => true | p :: t => negb (existsb (key_eqb p) t) && keys_nodupb t end.

Lemma keys_nodupb_ok l : keys_nodupb l = true -> NoDup (map pkey l).
Proof.
  induction l as [|p l IH]; cbn [keys_nodupb map]; intros H; [constructor|].
  apply andb_prop in H. destruct H as [H1 H2]. constructor; [|auto].
  intros Hi. apply in_map_iff in Hi. destruct Hi as (q & Eq & Hq).
  apply negb_true_iff in H1. assert (X : existsb (key_eqb p) l = true).
  { apply existsb_exists. exists q. split; [exact Hq|]. unfold key_eqb. apply prop_matches_key. symmetry. exact Eq. }
  congruence.
Qed.

(* ------------------------------------------------------------------ the writer's order *)

Definition is_k (k : kind) (p : pentry) : bool := kind_eqb k (p_kind p).
Definition by_kinds (ks : list kind) (ps : list pentry) : list pentry := concat (map (fun k => filter (is_k k) ps) ks).
Definition sorted_props (ps : list pentry) : list pentry := by_kinds kinds_in_order ps.

Lemma concat_map_concat {A B} (f : A -> list B) (ls : list (list A)) :
  concat (map f (concat ls)) = concat (map (fun l => concat (map f l)) ls).
Proof. induction ls as [|l ls IH]; cbn; [reflexivity|]. rewrite map_app, concat_app, IH. reflexivity. Qed.

Lemma write_props_sorted pd pf ps : write_props pd pf ps = concat (map (write_prop pd pf) (sorted_props ps)).
Proof.
  unfold write_props, sorted_props, by_kinds. rewrite concat_map_concat, map_map. reflexivity.
Qed.

Lemma filter_cons {A} (f : A -> bool) x l : filter f (x :: l) = if f x then x :: filter f l else filter f l.
Proof. reflexivity. Qed.

Lemma by_kinds_cons_notin p ps ks : ~ In (p_kind p) ks -> by_kinds ks (p :: ps) = by_kinds ks ps.
Proof.
  unfold by_kinds. induction ks as [|k ks IH]; intros Hn; [reflexivity|]. cbn [map concat]. rewrite filter_cons.
  assert (E : is_k k p = false).
  { unfold is_k. destruct (kind_eqb k (p_kind p)) eqn:E; [|reflexivity]. apply kind_eqb_eq in E. exfalso. apply Hn. left. exact E. }
  rewrite E, IH; [reflexivity|]. intros H. apply Hn. right. exact H.
Qed.

Lemma by_kinds_cons_in p ps ks : NoDup ks -> In (p_kind p) ks -> Permutation (by_kinds ks (p :: ps)) (p :: by_kinds ks ps).
Proof.
  induction ks as [|k ks IH]; intros Hd Hi; [destruct Hi|]. inversion Hd as [|? ? Hk Hd']; subst.
  unfold by_kinds. cbn [map concat]. rewrite filter_cons. fold (by_kinds ks (p :: ps)). fold (by_kinds ks ps).
  destruct (is_k k p) eqn:E.
  - unfold is_k in E. apply kind_eqb_eq in E. subst k. rewrite by_kinds_cons_notin by exact Hk. reflexivity.
  - destruct Hi as [Hi|Hi]; [subst k; unfold is_k in E; rewrite (proj2 (kind_eqb_eq _ _) eq_refl) in E; discriminate|].
    etransitivity; [apply Permutation_app_head; apply IH; auto|]. symmetry. apply Permutation_middle.
Qed.

Lemma kinds_nodup : NoDup kinds_in_order.
Proof. repeat constructor; cbn; intuition discriminate. Qed.
Lemma kinds_all k : In k kinds_in_order.
Proof. destruct k; cbn; tauto. Qed.

Theorem sorted_props_perm ps : Permutation (sorted_props ps) ps.
Proof.
  induction ps as [|p ps IH]; [reflexivity|]. unfold sorted_props.
  etransitivity; [apply by_kinds_cons_in; [apply kinds_nodup|apply kinds_all]|]. constructor. exact IH.
Qed.

Lemma sorted_props_in p ps : In p (sorted_props ps) <-> In p ps.
Proof. split; apply Permutation_in; [|symmetry]; apply sorted_props_perm. Qed.

Lemma sorted_props_length ps : length (sorted_props ps) = length ps.
Proof. apply Permutation_length, sorted_props_perm. Qed.

(* sorting twice is sorting once *)
Lemma filter_filter_kind k k' ps :
  filter (is_k k) (filter (is_k k') ps) = if kind_eqb k k' then filter (is_k k) ps else [].
Proof.
  induction ps as [|p ps IH]; [destruct (kind_eqb k k'); reflexivity|]. cbn [filter].
  destruct (is_k k' p) eqn:E'; cbn [filter]; unfold is_k in *.
  - apply kind_eqb_eq in E'. subst k'. destruct (kind_eqb k (p_kind p)) eqn:E; rewrite IH; reflexivity.
  - rewrite IH. destruct (kind_eqb k k') eqn:E; [|reflexivity]. apply kind_eqb_eq in E. subst k'. rewrite E'. reflexivity.
Qed.

Lemma filter_by_kinds k ps : forall ks, NoDup ks ->
  filter (is_k k) (by_kinds ks ps) = if existsb (kind_eqb k) ks then filter (is_k k) ps else [].
Proof.
  unfold by_kinds. induction ks as [|k' ks IH]; intros Hd; [reflexivity|]. inversion Hd as [|? ? Hk Hd']; subst.
  cbn [map concat existsb]. rewrite filter_app, filter_filter_kind, IH by exact Hd'.
  destruct (kind_eqb k k') eqn:E; cbn [orb].
  - apply kind_eqb_eq in E. subst k'.
    assert (X : existsb (kind_eqb k) ks = false).
    { destruct (existsb (kind_eqb k) ks) eqn:X; [|reflexivity]. apply existsb_exists in X. destruct X as (x & Hx & Ex).
      apply kind_eqb_eq in Ex. subst x. contradiction. }
    rewrite X. apply app_nil_r.
  - reflexivity.
Qed.

Theorem sorted_props_idem ps : sorted_props (sorted_props ps) = sorted_props ps.
Proof.
  unfold sorted_props at 1 3. unfold by_kinds. f_equal. apply map_ext. intros k.
  unfold sorted_props. rewrite filter_by_kinds by apply kinds_nodup. destruct k; reflexivity.
Qed.

(* a kind-preserving map commutes with the sort *)
Lemma sorted_props_map (f : pentry -> pentry) ps : (forall p, p_kind (f p) = p_kind p) ->
  sorted_props (map f ps) = map f (sorted_props ps).
Proof.
  intros Hf. unfold sorted_props, by_kinds. rewrite concat_map, map_map. f_equal. apply map_ext. intros k.
  induction ps as [|p ps IH]; [reflexivity|]. cbn [map]. rewrite !filter_cons, IH.
  assert (E : is_k k (f p) = is_k k p) by (unfold is_k; rewrite Hf; reflexivity). rewrite E.
  destruct (is_k k p); reflexivity.
Qed.

(* ------------------------------------------------------------------ freshness along the file *)

Section Fresh.
  Variable conv_d : list byte -> Z * bool.
  Variable conv_f : list byte -> Z * bool.
  Variable print_d : Z -> list byte.
  Variable print_f : Z -> list byte.
  Notation rpe := (rp_entry conv_d conv_f print_d print_f).

  Lemma pkey_rp p : pkey (rpe p) = pkey p. Proof. reflexivity. Qed.

  Lemma all_fresh_keys : forall ps props, NoDup (map pkey props ++ map pkey ps) ->
    all_fresh conv_d conv_f print_d print_f props ps.
  Proof.
    induction ps as [|p ps IH]; intros props Hd; cbn [all_fresh]; [exact I|]. cbn [map] in Hd. split.
    - unfold fresh. apply find_prop_none. intros q Hq E. apply NoDup_remove_2 in Hd. apply Hd.
      apply in_or_app. left. change (p_kind p, p_name p, p_type p) with (pkey p) in E. rewrite E. apply in_map. exact Hq.
    - apply IH. rewrite map_app. cbn [map]. rewrite pkey_rp, <- app_assoc. exact Hd.
  Qed.

  Lemma all_fresh_sorted pos0 ps : NoDup (map pkey (pos_entry [] :: ps)) ->
    all_fresh conv_d conv_f print_d print_f [pos_entry pos0] (sorted_props ps).
  Proof.
    intros Hd. apply all_fresh_keys. cbn [map app]. change (pkey (pos_entry pos0)) with (pkey (pos_entry [])).
    eapply Permutation_NoDup; [|exact Hd]. cbn [map]. constructor. apply Permutation_map. symmetry. apply sorted_props_perm.
  Qed.
End Fresh.
