(* IO/Ovmb2Ints.v -- the induction linking BinaryFileReader::read_n_ints (and the loops around it: read_edges, the fixed- and
   variable-valence loops of read_faces / read_cells) to the writer's enc_int over entity lists, for every count, every
   integer width and every handle offset. *)
From Coq Require Import ZArith List Bool Lia.
From OVM Require Import Base.Int32 Gen.OvmbFormat IO.Bytes IO.OvmbWriterModel IO.OvmbReaderModel IO.OvmbProofs
  IO.Ovmb2Base IO.Ovmb2Chunk IO.Ovmb2Alt.
Import ListNotations.
Local Open Scope Z_scope.

(* ================================================================================================ sizes *)
Lemma len_enc_ints enc xs : enc_ok enc -> len (concat (map (enc_int enc) xs)) = len xs * enc.
Proof.
  intros He. induction xs as [|x t IH]; cbn [map concat]; [reflexivity|].
  rewrite len_app, len_cons, IH, len_enc_int by exact He. lia.
Qed.

Lemma len_enc_handles enc off hs : enc_ok enc -> len (enc_handles enc off hs) = len hs * enc.
Proof.
  intros He. unfold enc_handles. induction hs as [|x t IH]; cbn [map concat]; [reflexivity|].
  rewrite len_app, len_cons, IH, len_enc_int by exact He. lia.
Qed.

Lemma len_enc_edge enc off e : enc_ok enc -> len (enc_edge enc off e) = 2 * enc.
Proof. intros He. unfold enc_edge. rewrite len_app, !len_enc_int by exact He. lia. Qed.

Lemma len_enc_edges enc off es : enc_ok enc -> len (concat (map (enc_edge enc off) es)) = len es * (2 * enc).
Proof.
  intros He. induction es as [|x t IH]; cbn [map concat]; [reflexivity|].
  rewrite len_app, len_cons, IH, len_enc_edge by exact He. lia.
Qed.

(* total number of handles of a list of faces / cells *)
Definition hsum (items : list (list Z)) : Z := fold_right Z.add 0 (map (fun x => len x) items).

Lemma hsum_nonneg items : 0 <= hsum items.
Proof.
  unfold hsum. induction items as [|x t IH]; cbn [map fold_right]; [lia|]. pose proof (len_nonneg x). lia.
Qed.

Lemma hsum_cons x t : hsum (x :: t) = len x + hsum t.
Proof. reflexivity. Qed.

Lemma hsum_app a b : hsum (a ++ b) = hsum a + hsum b.
Proof. induction a as [|x t IH]; cbn [app]; [reflexivity|]. rewrite !hsum_cons, IH. lia. Qed.

Lemma len_enc_items enc off items : enc_ok enc -> len (concat (map (enc_handles enc off) items)) = hsum items * enc.
Proof.
  intros He. induction items as [|x t IH]; cbn [map concat]; [reflexivity|].
  rewrite len_app, hsum_cons, IH, len_enc_handles by exact He. lia.
Qed.

Lemma hsum_const items v : Forall (fun x => len x = v) items -> hsum items = len items * v.
Proof. induction 1 as [|x t Hx Ht IH]; [reflexivity|]. rewrite hsum_cons, len_cons, IH, Hx. lia. Qed.

Lemma fold_left_add_acc l : forall a, fold_left Z.add l a = a + fold_right Z.add 0 l.
Proof. induction l as [|x t IH]; intros a; cbn [fold_left fold_right]; [lia|]. rewrite IH. lia. Qed.

Lemma fold_left_add_hsum items : fold_left Z.add (map (fun x => len x) items) 0 = hsum items.
Proof. rewrite fold_left_add_acc. reflexivity. Qed.

(* ================================================================================================ handles *)
Definition handle_fits (enc off lim : Z) (x : Z) : Prop := 0 <= x < lim /\ 0 <= x - off < enc_lim enc.

Lemma mk_handle_val off lim x : lim <= 2147483648 -> 0 <= x < lim -> mk_handle off lim (x - off) = Ret x.
Proof.
  intros Hl Hx. unfold mk_handle. replace (x - off + off) with x by lia.
  rewrite wrap64_small by lia. rewrite leb_false by lia.
  rewrite from_unsigned_id by (rewrite int_max_val; lia). reflexivity.
Qed.

Lemma rd_ints_handles enc off lim hs r : enc_ok enc -> lim <= 2147483648 -> Forall (handle_fits enc off lim) hs ->
  rd_ints (length hs) enc (mk_handle off lim) (enc_handles enc off hs ++ r) = Ret (hs, r).
Proof.
  intros He Hl H. unfold enc_handles. induction H as [|x t [Hx1 Hx2] Ht IH]; [reflexivity|].
  cbn [length rd_ints map concat]. rewrite <- app_assoc.
  rewrite rd_int_enc by assumption. cbn [bind].
  rewrite mk_handle_val by assumption. cbn [bind].
  rewrite IH. reflexivity.
Qed.

Lemma read_n_ints_handles enc off lim hs r : enc_ok enc -> lim <= 2147483648 -> Forall (handle_fits enc off lim) hs ->
  read_n_ints enc (len hs) (mk_handle off lim) (enc_handles enc off hs ++ r) = Ret (hs, r).
Proof.
  intros He Hl H. unfold read_n_ints.
  rewrite enc_ok_valid by exact He. cbn [negb].
  rewrite elem_size_ok by exact He.
  rewrite short_false by (rewrite len_app, len_enc_handles by exact He; pose proof (len_nonneg r); lia).
  rewrite eqb_false by (pose proof (enc_ok_pos _ He); lia).
  rewrite to_nat_len. apply rd_ints_handles; assumption.
Qed.

(* valences: make_t is the identity *)
Lemma rd_ints_id enc xs r : enc_ok enc -> Forall (fun x => 0 <= x < enc_lim enc) xs ->
  rd_ints (length xs) enc (fun x => Ret x) (concat (map (enc_int enc) xs) ++ r) = Ret (xs, r).
Proof.
  intros He H. induction H as [|x t Hx Ht IH]; [reflexivity|].
  cbn [length rd_ints map concat]. rewrite <- app_assoc.
  rewrite rd_int_enc by assumption. cbn [bind]. rewrite IH. reflexivity.
Qed.

Lemma read_n_ints_id enc xs r : enc_ok enc -> Forall (fun x => 0 <= x < enc_lim enc) xs ->
  read_n_ints enc (len xs) (fun x => Ret x) (concat (map (enc_int enc) xs) ++ r) = Ret (xs, r).
Proof.
  intros He H. unfold read_n_ints.
  rewrite enc_ok_valid by exact He. cbn [negb].
  rewrite elem_size_ok by exact He.
  rewrite short_false by (rewrite len_app, len_enc_ints by exact He; pose proof (len_nonneg r); lia).
  rewrite eqb_false by (pose proof (enc_ok_pos _ He); lia).
  rewrite to_nat_len. apply rd_ints_id; assumption.
Qed.

(* ================================================================================================ read_edges *)
Definition edge_fits (enc off nvr : Z) (e : Z * Z) : Prop := handle_fits enc off nvr (fst e) /\ handle_fits enc off nvr (snd e).

Lemma rd_edges_enc enc off nvr es : enc_ok enc -> nvr <= 2147483648 -> Forall (edge_fits enc off nvr) es ->
  forall fuel r, (length es <= fuel)%nat ->
  rd_edges fuel (len es) enc off nvr (concat (map (enc_edge enc off) es) ++ r) = Ret (es, r).
Proof.
  intros He Hl H. induction H as [|[a b] t [[Ha1 Ha2] [Hb1 Hb2]] Ht IH]; intros fuel r Hf.
  - destruct fuel; reflexivity.
  - cbn [fst snd] in *. cbn [length] in Hf. destruct fuel as [|f]; [lia|].
    cbn [rd_edges]. rewrite len_cons.
    rewrite leb_false by (pose proof (len_nonneg t); lia).
    cbn [map concat]. unfold enc_edge at 1. cbn [fst snd]. rewrite <- !app_assoc.
    rewrite rd_int_enc by assumption. cbn [bind].
    rewrite rd_int_enc by assumption. cbn [bind].
    replace (a - off + off) with a by lia. replace (b - off + off) with b by lia.
    rewrite !wrap64_small by lia.
    rewrite (leb_false nvr a) by lia. rewrite (leb_false nvr b) by lia. cbn [orb].
    replace (1 + len t - 1) with (len t) by lia.
    rewrite IH by lia. cbn [bind].
    rewrite !from_unsigned_id by (rewrite int_max_val; lia). reflexivity.
Qed.

(* ================================================================================================ faces / cells *)
(* the kernel stores every item as given *)
Definition add_accepts (add : list Z -> list (list Z) -> R (option (list Z))) (items : list (list Z)) : Prop :=
  Forall (fun hs => forall acc, add hs acc = Ret (Some hs)) items.

Lemma rd_items_fixed_enc enc off lim valence add items :
  enc_ok enc -> lim <= 2147483648 ->
  Forall (Forall (handle_fits enc off lim)) items -> Forall (fun x => len x = valence) items -> add_accepts add items ->
  forall fuel acc r, (length items <= fuel)%nat ->
  rd_items_fixed fuel (len items) valence enc (mk_handle off lim) add acc (concat (map (enc_handles enc off) items) ++ r)
  = Ret (acc ++ items, r).
Proof.
  intros He Hl H. induction H as [|x t Hx Ht IH]; intros Hv Ha fuel acc r Hf.
  - rewrite app_nil_r. destruct fuel; reflexivity.
  - inversion Hv as [|? ? Hvx Hvt]; subst. inversion Ha as [|? ? Hax Hat]; subst.
    cbn [length] in Hf. destruct fuel as [|f]; [lia|].
    cbn [rd_items_fixed]. rewrite len_cons.
    rewrite leb_false by (pose proof (len_nonneg t); lia).
    cbn [map concat]. rewrite <- app_assoc.
    rewrite read_n_ints_handles by assumption. cbn [bind].
    rewrite Hax. cbn [bind].
    replace (1 + len t - 1) with (len t) by lia.
    rewrite IH by (assumption || lia). rewrite <- app_assoc. reflexivity.
Qed.

Lemma rd_items_var_enc enc off lim add items :
  enc_ok enc -> lim <= 2147483648 ->
  Forall (Forall (handle_fits enc off lim)) items -> add_accepts add items ->
  forall acc r,
  rd_items_var (map (fun x => len x) items) enc (mk_handle off lim) add acc (concat (map (enc_handles enc off) items) ++ r)
  = Ret (acc ++ items, r).
Proof.
  intros He Hl H. induction H as [|x t Hx Ht IH]; intros Ha acc r.
  - rewrite app_nil_r. reflexivity.
  - inversion Ha as [|? ? Hax Hat]; subst.
    cbn [map rd_items_var concat]. rewrite <- app_assoc.
    rewrite read_n_ints_handles by assumption. cbn [bind].
    rewrite Hax. cbn [bind].
    rewrite IH by assumption. rewrite <- app_assoc. reflexivity.
Qed.
