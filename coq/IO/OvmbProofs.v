(* IO/OvmbProofs.v -- proofs about the OVMB models (IO/OvmbWriterModel.v, IO/OvmbReaderModel.v, IO/OvmbSpec.v). *)
From Coq Require Import String Ascii.
From Coq Require Import ZArith List Bool Lia.
From OVM Require Import Base.Int32 Gen.OvmbFormat IO.Bytes IO.OvmbWriterModel IO.OvmbReaderModel IO.OvmbSpec.
Import ListNotations.
Local Open Scope Z_scope.

(* ================================================================================================ generic helpers *)

Lemma len_nonneg {A} (l : list A) : 0 <= len l.
Proof. unfold len. lia. Qed.

Lemma len_app {A} (a b : list A) : len (a ++ b) = len a + len b.
Proof. unfold len. rewrite app_length. lia. Qed.

Lemma len_firstn {A} (n : nat) (l : list A) : Z.of_nat n <= len l -> len (firstn n l) = Z.of_nat n.
Proof. unfold len. intros. rewrite firstn_length. lia. Qed.

Lemma len_skipn {A} (n : nat) (l : list A) : len (skipn n l) = len l - Z.min (Z.of_nat n) (len l).
Proof. unfold len. rewrite skipn_length. lia. Qed.

Lemma len_cons {A} (x : A) (l : list A) : len (x :: l) = 1 + len l.
Proof. unfold len. cbn [length]. lia. Qed.

Lemma len_nil {A} : len (@nil A) = 0.
Proof. reflexivity. Qed.

Lemma firstn_skipn_len {A} (n : nat) (l : list A) : len l = len (firstn n l) + len (skipn n l).
Proof. rewrite <- len_app, firstn_skipn. reflexivity. Qed.

Lemma list_eqb_eq a b : list_eqb a b = true <-> a = b.
Proof.
  revert b; induction a as [|x s IH]; intros [|y t]; simpl; split; intros H; try reflexivity; try discriminate.
  - apply andb_true_iff in H. destruct H as [H1 H2]. apply Z.eqb_eq in H1. apply IH in H2. subst. reflexivity.
  - inversion H; subst. rewrite Z.eqb_refl. simpl. apply IH. reflexivity.
Qed.

(* ================================================================================================ the R monad *)

Definition no_ub {A} (x : R A) : Prop := forall w, x <> Ub w.

Lemma no_ub_ret {A} (a : A) : no_ub (Ret a).
Proof. intros w H; discriminate. Qed.
Lemma no_ub_fail {A} r s : no_ub (@Fail A r s).
Proof. intros w H; discriminate. Qed.

Lemma no_ub_bind {A B} (x : R A) (f : A -> R B) :
  no_ub x -> (forall a, x = Ret a -> no_ub (f a)) -> no_ub (bind x f).
Proof.
  intros Hx Hf w. destruct x as [a|r s|w']; simpl.
  - apply Hf. reflexivity.
  - discriminate.
  - intros _. apply (Hx w'). reflexivity.
Qed.

Lemma bind_ret_inv {A B} (x : R A) (f : A -> R B) b :
  bind x f = Ret b -> exists a, x = Ret a /\ f a = Ret b.
Proof. destruct x; simpl; intros H; try discriminate. eauto. Qed.

Ltac inv_bind H :=
  let a := fresh "a" in let Ha := fresh "Ha" in
  apply bind_ret_inv in H; destruct H as [a [Ha H]].

(* ================================================================================================ decoder primitives *)

Lemma need_no_ub n d : no_ub (need n d).
Proof. unfold need. destruct (len d <? n); [apply no_ub_fail|apply no_ub_ret]. Qed.

Lemma rd_no_ub n d : no_ub (rd n d).
Proof. unfold rd. destruct (len d <? Z.of_nat n); [apply no_ub_fail|apply no_ub_ret]. Qed.

Lemma rd_bytes_no_ub n d : no_ub (rd_bytes n d).
Proof. unfold rd_bytes. destruct (len d <? n); [apply no_ub_fail|apply no_ub_ret]. Qed.

Lemma rd_inv n d v d' : rd n d = Ret (v, d') -> d' = skipn n d /\ Z.of_nat n <= len d /\ v = le_decode (firstn n d).
Proof.
  unfold rd. destruct (len d <? Z.of_nat n) eqn:E; intros H; [discriminate|].
  inversion H; subst. apply Z.ltb_ge in E. auto.
Qed.

Lemma rd_bytes_inv n d v d' : rd_bytes n d = Ret (v, d') ->
  d' = skipn (Z.to_nat n) d /\ n <= len d /\ v = firstn (Z.to_nat n) d.
Proof.
  unfold rd_bytes. destruct (len d <? n) eqn:E; intros H; [discriminate|].
  inversion H; subst. apply Z.ltb_ge in E. auto.
Qed.

Lemma rd_len n d v d' : rd n d = Ret (v, d') -> len d' = len d - Z.of_nat n.
Proof. intros H. apply rd_inv in H. destruct H as [-> [H _]]. rewrite len_skipn. lia. Qed.

Lemma rd_bytes_len n d v d' : 0 <= n -> rd_bytes n d = Ret (v, d') -> len d' = len d - n.
Proof. intros Hn H. apply rd_bytes_inv in H. destruct H as [-> [H _]]. rewrite len_skipn. rewrite Z2Nat.id by lia. lia. Qed.

Lemma rd_bytes_len_le n d v d' : rd_bytes n d = Ret (v, d') -> len d' <= len d.
Proof. intros H. apply rd_bytes_inv in H. destruct H as [-> _]. rewrite len_skipn. pose proof (len_nonneg d). lia. Qed.

Lemma rd_enum8_no_ub f d : no_ub (rd_enum8 f d).
Proof.
  unfold rd_enum8. apply no_ub_bind; [apply rd_no_ub|]. intros [v d'] _. destruct (f v); [apply no_ub_ret|apply no_ub_fail].
Qed.

Lemma rd_enum8_inv f d v d' : rd_enum8 f d = Ret (v, d') -> rd 1 d = Ret (v, d') /\ f v = true.
Proof.
  unfold rd_enum8, rd_u8. intros H. inv_bind H. destruct a as [v0 d0]. destruct (f v0) eqn:E; [|discriminate].
  inversion H; subst. auto.
Qed.

Lemma rd_vec32_no_ub d : no_ub (rd_vec32 d).
Proof. unfold rd_vec32. apply no_ub_bind; [apply rd_no_ub|]. intros [n d1] _. apply rd_bytes_no_ub. Qed.

Lemma rd_vec32_len_lt d v d' : rd_vec32 d = Ret (v, d') -> len d' + 4 <= len d.
Proof.
  unfold rd_vec32, rd_u32. intros H. inv_bind H. destruct a as [n d1].
  pose proof (rd_len _ _ _ _ Ha). apply rd_bytes_len_le in H. lia.
Qed.

Lemma rd_reserved_no_ub n d : no_ub (rd_reserved n d).
Proof.
  unfold rd_reserved. apply no_ub_bind; [apply rd_bytes_no_ub|]. intros [b d'] _.
  match goal with |- no_ub (if ?c then _ else _) => destruct c end; [apply no_ub_ret|apply no_ub_fail].
Qed.

Lemma rd_span_no_ub d : no_ub (rd_span d).
Proof.
  unfold rd_span. apply no_ub_bind; [apply need_no_ub|]. intros _ _.
  apply no_ub_bind; [apply rd_no_ub|]. intros [first d1] _.
  apply no_ub_bind; [apply rd_no_ub|]. intros [count d2] _. apply no_ub_ret.
Qed.

Lemma make_decoder_no_ub n s : no_ub (make_decoder n s).
Proof.
  unfold make_decoder. destruct (remaining_bytes s <? n); [apply no_ub_fail|].
  destruct ((0 <? n) && (s_avail s <? n)); [apply no_ub_fail|apply no_ub_ret].
Qed.

(* what a successful make_decoder says about the stream: n bytes were available and delivered *)
Lemma make_decoder_inv n s d s' : 0 <= n -> make_decoder n s = Ret (d, s') ->
  s_bytes s = d ++ s_bytes s' /\ len d = n /\ s_avail s' = s_avail s - n /\ (0 < n -> n <= s_avail s).
Proof.
  intros Hn. unfold make_decoder, remaining_bytes.
  destruct (len (s_bytes s) <? n) eqn:E1; [discriminate|].
  destruct ((0 <? n) && (s_avail s <? n)) eqn:E2; [discriminate|].
  intros H. inversion H; subst; clear H. cbn [s_bytes s_avail].
  apply Z.ltb_ge in E1.
  split; [symmetry; apply firstn_skipn|].
  split; [rewrite len_firstn; rewrite Z2Nat.id by lia; lia|].
  split; [reflexivity|].
  intros Hp. apply andb_false_iff in E2. destruct E2 as [E2|E2].
  - apply Z.ltb_ge in E2. lia.
  - apply Z.ltb_ge in E2. lia.
Qed.

(* ================================================================================================ chunk framing *)

(* total number of bytes of the chunk that starts at the head of b, its type, its padding count *)
Definition chunk_len (b : list byte) : Z := 16 + le_decode (firstn 8 (skipn 8 b)).
Definition chunk_type (b : list byte) : Z := le_decode (firstn 4 b).
Definition chunk_version (b : list byte) : Z := le_decode (firstn 1 (skipn 4 b)).

Lemma firstn_app_le {A} (n : nat) (a b : list A) : (n <= length a)%nat -> firstn n (a ++ b) = firstn n a.
Proof. intros. rewrite firstn_app. replace (n - length a)%nat with 0%nat by lia. simpl. apply app_nil_r. Qed.

Lemma skipn_app_le {A} (n : nat) (a b : list A) : (n <= length a)%nat -> skipn n (a ++ b) = skipn n a ++ b.
Proof. intros. rewrite skipn_app. replace (n - length a)%nat with 0%nat by lia. reflexivity. Qed.

Lemma field_of_prefix (off w : nat) (d rest : list byte) :
  (off + w <= length d)%nat -> firstn w (skipn off (d ++ rest)) = firstn w (skipn off d).
Proof.
  intros H. rewrite skipn_app_le by lia. apply firstn_app_le. rewrite skipn_length. lia.
Qed.

Lemma skipn_skipn' {A} (x y : nat) (l : list A) : skipn x (skipn y l) = skipn (y + x) l.
Proof.
  revert l; induction y; intros l; simpl; [reflexivity|].
  destruct l; [destruct x; reflexivity|apply IHy].
Qed.

Lemma len_length {A} (l : list A) n : len l = Z.of_nat n -> length l = n.
Proof. unfold len. lia. Qed.

Lemma bytes_ok_app_inv a b : bytes_ok (a ++ b) -> bytes_ok a /\ bytes_ok b.
Proof. unfold bytes_ok. intros H. apply Forall_app in H. exact H. Qed.

Lemma le_decode_field_range (w off : nat) (d : list byte) :
  bytes_ok d -> 0 <= le_decode (firstn w (skipn off d)) < 256 ^ Z.of_nat w.
Proof.
  intros H.
  pose proof (le_decode_range (firstn w (skipn off d)) (bytes_ok_firstn _ _ (bytes_ok_skipn _ _ H))) as R.
  assert (L : len (firstn w (skipn off d)) <= Z.of_nat w). { unfold len. rewrite firstn_length. lia. }
  assert (256 ^ len (firstn w (skipn off d)) <= 256 ^ Z.of_nat w). { apply Z.pow_le_mono_r; [lia|exact L]. }
  lia.
Qed.

(* a successful read_chunk consumes exactly the chunk at the head of the stream: 16 header bytes + file_length bytes;
   every positive-size read was delivered by the stream; the EOF flag is raised only by an EOF-type chunk *)
Lemma read_chunk_frame o h st eof s st' eof' s' :
  bytes_ok (s_bytes s) ->
  read_chunk o h st eof s = Ret (st', eof', s') ->
  let b := s_bytes s in
  16 <= len b /\ chunk_len b <= len b /\ 16 <= chunk_len b /\
  s_bytes s' = skipn (Z.to_nat (chunk_len b)) b /\
  s_avail s' = s_avail s - chunk_len b /\ 0 <= s_avail s' /\
  eof' = (eof || ((chunk_version b =? 0) && (chunk_type b =? ChunkType_EndOfFile))).
Proof.
  unfold read_chunk. intros Hok H.
  destruct eof; [discriminate|].
  inv_bind H. destruct a as [d s1].
  apply make_decoder_inv in Ha; [|unfold ovmb_size_ChunkHeader; lia].
  destruct Ha as [Hb [Hd [Hav1 Hav1']]]. unfold ovmb_size_ChunkHeader in *.
  inv_bind H. clear Ha.
  inv_bind H. destruct a0 as [ty d1]. apply rd_inv in Ha. destruct Ha as [-> [_ Hty]].
  inv_bind H. destruct a0 as [version d2]. apply rd_inv in Ha. destruct Ha as [-> [_ Hver]].
  inv_bind H. destruct a0 as [padding d3]. apply rd_inv in Ha. destruct Ha as [-> [_ Hpad]].
  inv_bind H. destruct a0 as [compression d4]. apply rd_inv in Ha. destruct Ha as [-> [_ _]].
  inv_bind H. destruct a0 as [flags d5]. apply rd_enum8_inv in Ha. destruct Ha as [Ha _]. apply rd_inv in Ha. destruct Ha as [-> [_ _]].
  inv_bind H. destruct a0 as [file_length d6]. apply rd_inv in Ha. destruct Ha as [_ [_ Hfl]].
  repeat rewrite skipn_skipn' in Hfl. cbn [Nat.add] in Hfl.
  repeat rewrite skipn_skipn' in Hpad. cbn [Nat.add] in Hpad.
  repeat rewrite skipn_skipn' in Hver. cbn [Nat.add] in Hver.
  assert (Hlen16 : length d = 16%nat) by (apply len_length; exact Hd).
  rewrite Hb in Hok. destruct (bytes_ok_app_inv _ _ Hok) as [Hokd Hok1].
  assert (Hpadr : 0 <= padding < 256).
  { subst padding. pose proof (le_decode_field_range 1 5 d Hokd) as R. change (256 ^ Z.of_nat 1) with 256 in R. exact R. }
  assert (Hflr : 0 <= file_length).
  { subst file_length. pose proof (le_decode_field_range 8 8 d Hokd) as R. lia. }
  destruct (file_length <? padding) eqn:E1; [discriminate|]. apply Z.ltb_ge in E1.
  destruct (negb (compression =? 0)); [discriminate|].
  destruct (remaining_bytes s1 <? file_length) eqn:E2; [discriminate|]. apply Z.ltb_ge in E2. unfold remaining_bytes in E2.
  inv_bind H. destruct a0 as [cd s2].
  apply make_decoder_inv in Ha; [|lia]. destruct Ha as [Hb2 [Hcd [Hav2 Hav2']]].
  inv_bind H. destruct a0 as [st'' rest]. clear Ha.
  destruct rest; [|discriminate].
  inv_bind H. destruct a0 as [pd s3].
  apply make_decoder_inv in Ha; [|lia]. destruct Ha as [Hb3 [Hpd [Hav3 Hav3']]].
  match type of H with (if ?c then _ else _) = _ => destruct c; [|discriminate] end.
  inversion H; subst st'' eof' s3; clear H.
  cbv zeta.
  assert (Ecl : chunk_len (s_bytes s) = 16 + file_length).
  { unfold chunk_len. rewrite Hb. rewrite field_of_prefix by lia. rewrite <- Hfl. reflexivity. }
  assert (Ect : chunk_type (s_bytes s) = ty).
  { unfold chunk_type. rewrite Hb. rewrite firstn_app_le by lia. symmetry. exact Hty. }
  assert (Ecv : chunk_version (s_bytes s) = version).
  { unfold chunk_version. rewrite Hb. rewrite field_of_prefix by lia. symmetry. exact Hver. }
  rewrite Ecl, Ect, Ecv.
  assert (Ltot : len (s_bytes s) = 16 + len (s_bytes s1)). { rewrite Hb, len_app. lia. }
  assert (L1 : len (s_bytes s1) = (file_length - padding) + len (s_bytes s2)). { rewrite Hb2, len_app. lia. }
  assert (L2 : len (s_bytes s2) = padding + len (s_bytes s')). { rewrite Hb3, len_app. lia. }
  split; [lia|]. split; [lia|]. split; [lia|].
  split.
  { rewrite Hb, Hb2, Hb3.
    replace (d ++ (cd ++ pd ++ s_bytes s')) with ((d ++ cd ++ pd) ++ s_bytes s') by (repeat rewrite <- app_assoc; reflexivity).
    rewrite skipn_app_le.
    - rewrite skipn_all2; [reflexivity|].
      repeat rewrite app_length. unfold len in *. lia.
    - repeat rewrite app_length. unfold len in *. lia. }
  split; [lia|].
  split.
  { destruct (Z.eq_dec padding 0) as [->|Hp].
    - destruct (Z.eq_dec file_length 0) as [->|Hf]; lia.
    - lia. }
  reflexivity.
Qed.

Definition is_eof_chunk (b : list byte) : bool := (chunk_version b =? 0) && (chunk_type b =? ChunkType_EndOfFile).

(* b is a sequence of complete chunks; eof_out = eof_in || one of them is an EOF chunk *)
Inductive framed : list byte -> bool -> bool -> Prop :=
| framed_nil e : framed [] e e
| framed_cons b e e' :
    16 <= len b -> 16 <= chunk_len b -> chunk_len b <= len b ->
    framed (skipn (Z.to_nat (chunk_len b)) b) (e || is_eof_chunk b) e' ->
    framed b e e'.

Lemma remaining_le0 s : (remaining_bytes s <=? 0) = true -> s_bytes s = [].
Proof.
  unfold remaining_bytes, len. intros H. apply Z.leb_le in H. destruct (s_bytes s); [reflexivity|]. simpl in H. lia.
Qed.

(* a successful chunk loop: the stream was a sequence of complete chunks, all of it was delivered *)
Lemma chunk_loop_framed fuel : forall o h st eof s st' eof',
  bytes_ok (s_bytes s) ->
  chunk_loop fuel o h st eof s = Ret (st', eof') ->
  framed (s_bytes s) eof eof' /\ (s_bytes s = [] \/ len (s_bytes s) <= s_avail s).
Proof.
  induction fuel as [|f IH]; intros o h st eof s st' eof' Hok H; simpl in H.
  - destruct (remaining_bytes s <=? 0) eqn:E; [|discriminate].
    inversion H; subst. rewrite (remaining_le0 _ E). split; [constructor|left; reflexivity].
  - destruct (remaining_bytes s <=? 0) eqn:E.
    + inversion H; subst. rewrite (remaining_le0 _ E). split; [constructor|left; reflexivity].
    + inv_bind H. destruct a as [[st1 eof1] s1].
      pose proof (read_chunk_frame _ _ _ _ _ _ _ _ Hok Ha) as F. cbv zeta in F.
      destruct F as [F1 [F2 [F3 [F4 [F5 [F6 F7]]]]]].
      assert (Hok1 : bytes_ok (s_bytes s1)) by (rewrite F4; apply bytes_ok_skipn; exact Hok).
      destruct (IH _ _ _ _ _ _ _ Hok1 H) as [G1 G2].
      split.
      * apply framed_cons; try assumption. rewrite <- F4. unfold is_eof_chunk. rewrite <- F7. exact G1.
      * right.
        assert (L : len (s_bytes s1) = len (s_bytes s) - chunk_len (s_bytes s)).
        { rewrite F4, len_skipn. rewrite Z2Nat.id by lia. lia. }
        destruct G2 as [G2|G2].
        -- rewrite G2 in L. rewrite len_nil in L. lia.
        -- lia.
Qed.

(* ================================================================================================ C18: stream failures *)

Lemma read_header_inv s h ok s1 :
  read_header s = (h, ok, s1) -> ok = true ->
  48 <= len (s_bytes s) /\ s_bytes s1 = skipn 48 (s_bytes s) /\ s_avail s1 = s_avail s - 48 /\ 48 <= s_avail s.
Proof.
  unfold read_header. destruct (make_decoder ovmb_size_FileHeader s) as [[d s']|r st|w] eqn:E.
  - destruct (read_file_header d) as [h0 ok0] eqn:E2. intros H Hok. inversion H; subst.
    apply make_decoder_inv in E; [|unfold ovmb_size_FileHeader; lia]. unfold ovmb_size_FileHeader in E.
    destruct E as [Hb [Hd [Hav Hav']]].
    split; [rewrite Hb, len_app; pose proof (len_nonneg (s_bytes s1)); lia|].
    split.
    { rewrite Hb. rewrite skipn_app_le by (unfold len in Hd; lia).
      rewrite skipn_all2 by (unfold len in Hd; lia). reflexivity. }
    split; [exact Hav|]. apply Hav'. lia.
  - intros H Hok. inversion H; subst. discriminate.
  - intros H Hok. inversion H; subst. discriminate.
Qed.

(* a stream that delivers only k < length bytes never gives Ok *)
Theorem stream_failure_rejected o k bytes m :
  bytes_ok bytes -> 0 <= k < len bytes -> decode_impl_failing o k bytes <> ROk m.
Proof.
  intros Hok Hk. unfold decode_impl_failing, decode_stream.
  destruct (read_header _) as [[h ok] s1] eqn:Eh.
  destruct (negb (compatible o h)); [discriminate|].
  destruct ok; simpl; [|discriminate].
  apply read_header_inv in Eh; [|reflexivity]. cbn [s_bytes s_avail] in Eh.
  destruct Eh as [H48 [Hb1 [Hav1 Hav48]]].
  rewrite Z.min_l in * by lia.
  destruct (chunk_loop _ o h init_rst false s1) as [[st eof]|r st|w] eqn:EL; [|discriminate|discriminate].
  assert (Hok1 : bytes_ok (s_bytes s1)) by (rewrite Hb1; apply bytes_ok_skipn; exact Hok).
  apply chunk_loop_framed in EL; [|exact Hok1]. destruct EL as [_ [G|G]].
  - exfalso. rewrite Hb1 in G.
    assert (L : len (skipn 48 bytes) = len bytes - 48) by (rewrite len_skipn; lia).
    rewrite G, len_nil in L. lia.
  - exfalso. rewrite Hb1 in G. rewrite len_skipn in G. lia.
Qed.

(* ================================================================================================ the writer's chunk layout *)

Lemma land_mask8 x : 0 <= x < 18446744073709551616 -> Z.land x 18446744073709551608 = 8 * (x / 8).
Proof.
  intros Hx.
  replace (8 * (x / 8)) with (Z.shiftl (Z.shiftr x 3) 3)
    by (rewrite Z.shiftl_mul_pow2, Z.shiftr_div_pow2 by lia; change (2 ^ 3) with 8; lia).
  change 18446744073709551608 with (Z.shiftl (Z.ones 61) 3).
  apply Z.bits_inj'. intros i Hi.
  rewrite Z.land_spec.
  destruct (Z.lt_ge_cases i 3).
  - rewrite !Z.shiftl_spec_low by lia. apply andb_false_r.
  - rewrite !Z.shiftl_spec by lia. rewrite Z.shiftr_spec by lia. replace (i - 3 + 3) with i by lia.
    destruct (Z.lt_ge_cases (i - 3) 61).
    + rewrite Z.ones_spec_low by lia. apply andb_true_r.
    + rewrite Z.ones_spec_high by lia. rewrite andb_false_r. symmetry.
      destruct (Z.eq_dec x 0) as [->|Hn]; [apply Z.bits_0|].
      apply Z.bits_above_log2; [lia|].
      apply Z.log2_lt_pow2; [lia|].
      apply Z.lt_le_trans with (2 ^ 64); [change (2 ^ 64) with 18446744073709551616; lia|].
      apply Z.pow_le_mono_r; lia.
Qed.

(* the regenerated padding arithmetic of BinaryFileWriter::write_chunk, for every payload length below 2^62 *)
Lemma padded_spec n : 0 <= n < 4611686018427387904 -> write_chunk_padded n = 8 * ((n + 7) / 8).
Proof.
  intros Hn. unfold write_chunk_padded, c_u64, c_i64, wrap_u, wrap_s.
  change (2 ^ 64) with 18446744073709551616. change (2 ^ (64 - 1)) with 9223372036854775808.
  change (7 mod 18446744073709551616) with 7.
  rewrite (Z.mod_small (n + 7)) by lia. rewrite (Z.mod_small (n + 7)) by lia.
  change (Z.lnot 7) with (-8).
  change ((-8) mod 18446744073709551616) with 18446744073709551608.
  change (18446744073709551608 <? 9223372036854775808) with false. cbv iota.
  change ((18446744073709551608 - 18446744073709551616) mod 18446744073709551616) with 18446744073709551608.
  assert (Hr : 0 <= n + 7 < 18446744073709551616) by lia.
  rewrite (land_mask8 (n + 7) Hr).
  assert (0 <= 8 * ((n + 7) / 8) <= n + 7).
  { pose proof (Z.div_mod (n + 7) 8 ltac:(lia)). pose proof (Z.mod_pos_bound (n + 7) 8 ltac:(lia)).
    assert (0 <= (n + 7) / 8) by (apply Z.div_pos; lia). lia. }
  rewrite (Z.mod_small (8 * ((n + 7) / 8))) by lia. rewrite (Z.mod_small (8 * ((n + 7) / 8))) by lia. reflexivity.
Qed.

Lemma padding_spec n : 0 <= n < 4611686018427387904 ->
  0 <= write_chunk_padding_bytes n < 8 /\ write_chunk_file_length n = n + write_chunk_padding_bytes n.
Proof.
  intros Hn. unfold write_chunk_padding_bytes, write_chunk_file_length. cbv zeta. rewrite padded_spec by exact Hn.
  pose proof (Z.div_mod (n + 7) 8 ltac:(lia)). pose proof (Z.mod_pos_bound (n + 7) 8 ltac:(lia)).
  unfold c_u8, c_u64, wrap_u. change (2 ^ 64) with 18446744073709551616. change (2 ^ 8) with 256.
  rewrite (Z.mod_small (8 * ((n + 7) / 8) - n)) by lia.
  rewrite Z.mod_small by lia. lia.
Qed.

Lemma firstn_exact {A} (a b : list A) n : length a = n -> firstn n (a ++ b) = a.
Proof. intros <-. rewrite firstn_app, Nat.sub_diag, firstn_all. simpl. apply app_nil_r. Qed.
Lemma skipn_exact {A} (a b : list A) n : length a = n -> skipn n (a ++ b) = b.
Proof. intros <-. rewrite skipn_app, Nat.sub_diag, skipn_all. reflexivity. Qed.

Definition payload_ok (ty : Z) (p : list byte) : Prop :=
  0 <= ty < 4294967296 /\ bytes_ok p /\ len p < 4611686018427387904.

Lemma write_chunk_shape ty p rest : payload_ok ty p ->
  let c := write_chunk ty p in
  len c = 16 + write_chunk_file_length (len p) /\
  chunk_len (c ++ rest) = len c /\ chunk_type (c ++ rest) = ty /\ chunk_version (c ++ rest) = 0 /\ bytes_ok c.
Proof.
  intros [Hty [Hp Hn]]. cbv zeta.
  pose proof (len_nonneg p) as Hp0.
  destruct (padding_spec (len p) ltac:(lia)) as [Hpad Hfl].
  set (pad := write_chunk_padding_bytes (len p)) in *.
  set (fl := write_chunk_file_length (len p)) in *.
  unfold write_chunk. fold pad. fold fl.
  assert (L32 : length (enc_u32 ty) = 4%nat) by apply le_encode_length.
  assert (L64 : length (enc_u64 fl) = 8%nat) by apply le_encode_length.
  assert (Lc : len (enc_u32 ty ++ [0; pad; 0; ChunkFlags_Mandatory] ++ enc_u64 fl ++ p ++ repeat 0 (Z.to_nat pad)) = 16 + fl).
  { repeat rewrite len_app. unfold len at 1 2 3. rewrite L32, L64. cbn [length].
    unfold len at 2. rewrite repeat_length. rewrite Z2Nat.id by lia. lia. }
  split; [exact Lc|].
  split.
  { unfold chunk_len. rewrite Lc.
    replace ((enc_u32 ty ++ [0; pad; 0; ChunkFlags_Mandatory] ++ enc_u64 fl ++ p ++ repeat 0 (Z.to_nat pad)) ++ rest)
      with ((enc_u32 ty ++ [0; pad; 0; ChunkFlags_Mandatory]) ++ enc_u64 fl ++ (p ++ repeat 0 (Z.to_nat pad) ++ rest))
      by (repeat rewrite <- app_assoc; reflexivity).
    rewrite skipn_exact by (rewrite app_length, L32; reflexivity).
    rewrite firstn_exact by exact L64.
    unfold enc_u64. rewrite le_decode_encode; [reflexivity|]. change (256 ^ Z.of_nat 8) with 18446744073709551616. lia. }
  split.
  { unfold chunk_type. rewrite <- app_assoc. rewrite firstn_exact by exact L32.
    unfold enc_u32. apply le_decode_encode. change (256 ^ Z.of_nat 4) with 4294967296. lia. }
  split.
  { unfold chunk_version. rewrite <- app_assoc. rewrite skipn_exact by exact L32. reflexivity. }
  apply bytes_ok_app; [apply le_encode_ok|].
  apply bytes_ok_app.
  { unfold bytes_ok. repeat constructor; unfold byte_ok, ChunkFlags_Mandatory; lia. }
  apply bytes_ok_app; [apply le_encode_ok|].
  apply bytes_ok_app; [exact Hp|apply bytes_ok_repeat0].
Qed.

(* a byte string made of writer chunks none of which is an EOF chunk *)
Inductive noeof_chunks : list byte -> Prop :=
| nc_nil : noeof_chunks []
| nc_cons ty p rest : payload_ok ty p -> ty <> ChunkType_EndOfFile -> noeof_chunks rest -> noeof_chunks (write_chunk ty p ++ rest).

Lemma noeof_app a b : noeof_chunks a -> noeof_chunks b -> noeof_chunks (a ++ b).
Proof. induction 1; intros Hb; simpl; [exact Hb|]. rewrite <- app_assoc. constructor; auto. Qed.

Lemma noeof_single ty p : payload_ok ty p -> ty <> ChunkType_EndOfFile -> noeof_chunks (write_chunk ty p).
Proof. intros. rewrite <- (app_nil_r (write_chunk ty p)). constructor; auto. constructor. Qed.

Lemma noeof_bytes_ok b : noeof_chunks b -> bytes_ok b.
Proof.
  induction 1; [constructor|]. apply bytes_ok_app; [|assumption].
  destruct (write_chunk_shape ty p [] H) as [_ [_ [_ [_ Hb]]]]. exact Hb.
Qed.

Lemma framed_inv_nonempty b e e' : framed b e e' -> b <> [] ->
  16 <= len b /\ 16 <= chunk_len b /\ chunk_len b <= len b /\
  framed (skipn (Z.to_nat (chunk_len b)) b) (e || is_eof_chunk b) e'.
Proof.
  intros H Hne. inversion H; subst; [congruence|]. auto.
Qed.

Lemma framed_nil_inv e e' : framed [] e e' -> e' = e.
Proof. intros H. inversion H; subst; [reflexivity|]. rewrite len_nil in *. lia. Qed.

(* reading a strict prefix of (non-EOF chunks ++ one final chunk) as a chunk sequence never raises the EOF flag *)
Lemma framed_prefix_noeof b : noeof_chunks b -> forall tyl pl n e',
  payload_ok tyl pl ->
  let whole := b ++ write_chunk tyl pl in
  (n < length whole)%nat ->
  framed (firstn n whole) false e' -> e' = false.
Proof.
  induction 1 as [|ty p rest Hpay Hty Hrest IH]; intros tyl pl n e' Hl; cbv zeta; intros Hn Hf.
  - (* only the final chunk *)
    cbn [app] in *.
    destruct (firstn n (write_chunk tyl pl)) as [|x t] eqn:E.
    + apply framed_nil_inv in Hf. exact Hf.
    + exfalso. apply framed_inv_nonempty in Hf; [|discriminate]. destruct Hf as [F1 [F2 [F3 _]]].
      rewrite <- E in *.
      assert (Ln : len (firstn n (write_chunk tyl pl)) = Z.of_nat n). { apply len_firstn. unfold len. lia. }
      pose proof (write_chunk_shape tyl pl [] Hl) as SS. cbv zeta in SS. destruct SS as [S1 [S2 _]]. rewrite app_nil_r in S2.
      (* the 16 header bytes are inside the prefix, so chunk_len of the prefix = chunk_len of the chunk *)
      assert (E2 : chunk_len (firstn n (write_chunk tyl pl)) = chunk_len (write_chunk tyl pl)).
      { unfold chunk_len. f_equal. f_equal.
        rewrite <- (firstn_skipn n (write_chunk tyl pl)) at 2.
        symmetry. apply field_of_prefix. rewrite firstn_length. unfold len in *. lia. }
      rewrite E2, S2 in F3. unfold len in *. lia.
  - rewrite <- app_assoc in *.
    pose proof (write_chunk_shape ty p (rest ++ write_chunk tyl pl) Hpay) as SS. cbv zeta in SS. destruct SS as [S1 [S2 [S3 [S4 _]]]].
    set (cc := write_chunk ty p) in *.
    set (tail := rest ++ write_chunk tyl pl) in *.
    destruct (firstn n (cc ++ tail)) as [|x t] eqn:E.
    + apply framed_nil_inv in Hf. exact Hf.
    + apply framed_inv_nonempty in Hf; [|discriminate]. rewrite <- E in *. destruct Hf as [F1 [F2 [F3 F4]]].
      assert (Hn' : (n <= length (cc ++ tail))%nat) by lia.
      assert (Ln : len (firstn n (cc ++ tail)) = Z.of_nat n). { apply len_firstn. unfold len. lia. }
      assert (Hc16 : 16 <= len cc). { pose proof (len_nonneg p). destruct (padding_spec (len p)) as [? ?]; [destruct Hpay as [_ [_ ?]]; lia|]. lia. }
      assert (E2 : chunk_len (firstn n (cc ++ tail)) = len cc /\ is_eof_chunk (firstn n (cc ++ tail)) = false).
      { rewrite <- (firstn_skipn n (cc ++ tail)) in S2, S3, S4.
        split.
        - rewrite <- S2. unfold chunk_len. f_equal. f_equal. symmetry. apply field_of_prefix. rewrite firstn_length. unfold len in *. lia.
        - unfold is_eof_chunk.
          assert (T : chunk_type (firstn n (cc ++ tail)) = ty).
          { rewrite <- S3. unfold chunk_type. f_equal. symmetry. apply (field_of_prefix 0 4). rewrite firstn_length. unfold len in *. lia. }
          rewrite T. destruct (ty =? ChunkType_EndOfFile) eqn:Q; [apply Z.eqb_eq in Q; contradiction|]. apply andb_false_r. }
      destruct E2 as [E2 E3]. rewrite E2, E3 in *. cbn [orb] in F4.
      assert (Hcn : (length cc <= n)%nat) by (unfold len in *; lia).
      rewrite firstn_app in F4.
      replace (firstn n cc) with cc in F4 by (symmetry; apply firstn_all2; exact Hcn).
      rewrite skipn_exact in F4 by (unfold len; lia).
      apply (IH tyl pl (n - length cc)%nat e' Hl); [|exact F4].
      rewrite app_length in Hn. fold tail. lia.
Qed.

Lemma write_chunk_payload_ok ty p : 0 <= ty < 4294967296 ->
  bytes_ok (write_chunk ty p) -> len (write_chunk ty p) < 4611686018427387904 -> payload_ok ty p.
Proof.
  intros Hty Hb Hl. unfold write_chunk in *. split; [exact Hty|].
  apply bytes_ok_app_inv in Hb. destruct Hb as [_ Hb].
  apply bytes_ok_app_inv in Hb. destruct Hb as [_ Hb].
  apply bytes_ok_app_inv in Hb. destruct Hb as [_ Hb].
  apply bytes_ok_app_inv in Hb. destruct Hb as [Hb _].
  split; [exact Hb|].
  repeat rewrite len_app in Hl.
  match type of Hl with ?a + (?b + (?c + (?d + ?e))) < _ =>
    assert (0 <= a) by apply len_nonneg; assert (0 <= b) by apply len_nonneg;
    assert (0 <= c) by apply len_nonneg; assert (0 <= e) by apply len_nonneg;
    assert (len p = d) by reflexivity end.
  lia.
Qed.

Definition small (b : list byte) : Prop := bytes_ok b /\ len b < 4611686018427387904.

Lemma small_app_inv a b : small (a ++ b) -> small a /\ small b.
Proof.
  intros [H1 H2]. apply bytes_ok_app_inv in H1. rewrite len_app in H2.
  pose proof (len_nonneg a). pose proof (len_nonneg b). unfold small. intuition lia.
Qed.

Lemma small_nil : small [].
Proof. split; [constructor|rewrite len_nil; lia]. Qed.

Lemma chunk_noeof ty p : 0 <= ty < 4294967296 -> ty <> ChunkType_EndOfFile -> small (write_chunk ty p) -> noeof_chunks (write_chunk ty p).
Proof. intros Hty Hne [Hb Hl]. apply noeof_single; [apply write_chunk_payload_ok; assumption|exact Hne]. Qed.

Lemma write_propdir_noeof m : small (write_propdir m) -> noeof_chunks (write_propdir m).
Proof.
  unfold write_propdir. destruct (concat (map dirp_entry (written_props m))); [constructor|].
  apply chunk_noeof; [unfold ChunkType_PropertyDirectory; lia|discriminate].
Qed.

Lemma write_vertices_noeof m : small (write_vertices m) -> noeof_chunks (write_vertices m).
Proof.
  unfold write_vertices. destruct (c_uint (m_nv m) =? 0); [constructor|].
  apply chunk_noeof; [unfold ChunkType_Vertices; lia|discriminate].
Qed.

Lemma write_edges_noeof m : small (write_edges m) -> noeof_chunks (write_edges m).
Proof.
  unfold write_edges. destruct (c_uint (len (m_edges m)) =? 0); [constructor|].
  apply chunk_noeof; [unfold ChunkType_Topo; lia|discriminate].
Qed.

Lemma write_poly_topo_noeof e items henc : small (write_poly_topo e items henc) -> noeof_chunks (write_poly_topo e items henc).
Proof.
  unfold write_poly_topo. destruct (c_uint (len items) =? 0); [constructor|].
  apply chunk_noeof; [unfold ChunkType_Topo; lia|discriminate].
Qed.

Lemma write_props_noeof ps : forall idx, small (write_props idx ps) -> noeof_chunks (write_props idx ps).
Proof.
  induction ps as [|[p ty] t IH]; intros idx H; cbn [write_props] in *; [constructor|].
  apply small_app_inv in H. destruct H as [H1 H2].
  apply noeof_app; [|apply IH; exact H2].
  apply chunk_noeof; [unfold ChunkType_Property; lia|discriminate|exact H1].
Qed.

(* the writer's output: file header, then non-EOF chunks, then exactly one EOF chunk *)
Definition encode_body (m : meshfile) : list byte :=
  write_propdir m ++ write_vertices m ++ write_edges m ++ write_faces m ++ write_cells m ++ write_props 0 (written_props m).

Lemma encode_split dim topo m :
  encode dim topo m = write_file_header dim topo m ++ encode_body m ++ write_chunk ChunkType_EndOfFile [].
Proof. unfold encode, encode_body. repeat rewrite <- app_assoc. reflexivity. Qed.

Lemma encode_body_noeof m : small (encode_body m) -> noeof_chunks (encode_body m).
Proof.
  unfold encode_body. intros H.
  apply small_app_inv in H. destruct H as [H1 H].
  apply small_app_inv in H. destruct H as [H2 H].
  apply small_app_inv in H. destruct H as [H3 H].
  apply small_app_inv in H. destruct H as [H4 H].
  apply small_app_inv in H. destruct H as [H5 H6].
  apply noeof_app; [apply write_propdir_noeof; assumption|].
  apply noeof_app; [apply write_vertices_noeof; assumption|].
  apply noeof_app; [apply write_edges_noeof; assumption|].
  apply noeof_app; [apply write_poly_topo_noeof; assumption|].
  apply noeof_app; [apply write_poly_topo_noeof; assumption|].
  apply write_props_noeof; assumption.
Qed.

Lemma header_length dim topo m : length (write_file_header dim topo m) = 48%nat.
Proof.
  unfold write_file_header. repeat rewrite app_length. unfold enc_u64. repeat rewrite le_encode_length. reflexivity.
Qed.

Lemma eof_payload_ok : payload_ok ChunkType_EndOfFile [].
Proof. split; [unfold ChunkType_EndOfFile; lia|]. split; [constructor|rewrite len_nil; lia]. Qed.

(* ================================================================================================ C18: truncation *)

(* every strict prefix of the writer's output is rejected *)
Theorem prefix_rejected o dim topo m n r :
  small (encode dim topo m) ->
  (n < length (encode dim topo m))%nat ->
  decode_impl o (firstn n (encode dim topo m)) <> ROk r.
Proof.
  intros Hs Hn. rewrite encode_split in *.
  set (H := write_file_header dim topo m) in *.
  set (B := encode_body m) in *.
  set (E := write_chunk ChunkType_EndOfFile []) in *.
  assert (HH : length H = 48%nat) by apply header_length.
  destruct (small_app_inv _ _ Hs) as [_ Hs2]. destruct (small_app_inv _ _ Hs2) as [HsB _].
  pose proof (encode_body_noeof m HsB) as HB. fold B in HB.
  unfold decode_impl, decode_stream.
  destruct (read_header _) as [[h ok] s1] eqn:Eh.
  destruct (negb (compatible o h)); [discriminate|].
  destruct ok; cbn [negb]; [|discriminate].
  apply read_header_inv in Eh; [|reflexivity]. cbn [s_bytes s_avail] in Eh.
  destruct Eh as [H48 [Hb1 _]].
  destruct (chunk_loop _ o h init_rst false s1) as [[st eof]|r0 st|w] eqn:EL; [|discriminate|discriminate].
  assert (Hok : bytes_ok (firstn n (H ++ B ++ E))) by (apply bytes_ok_firstn; apply Hs).
  assert (Hok1 : bytes_ok (s_bytes s1)) by (rewrite Hb1; apply bytes_ok_skipn; exact Hok).
  apply chunk_loop_framed in EL; [|exact Hok1]. destruct EL as [F _].
  (* the prefix is at least the 48 header bytes; what follows is a strict prefix of B ++ E *)
  assert (Hn48 : (48 <= n)%nat).
  { assert (len (firstn n (H ++ B ++ E)) <= Z.of_nat n) by (unfold len; rewrite firstn_length; lia). lia. }
  rewrite Hb1 in F. rewrite firstn_app in F. rewrite HH in F.
  rewrite (firstn_all2 H) in F by lia.
  rewrite skipn_exact in F by exact HH.
  assert (Hlt : (n - 48 < length (B ++ E))%nat) by (rewrite app_length in Hn; lia).
  pose proof (framed_prefix_noeof B HB ChunkType_EndOfFile [] (n - 48)%nat eof eof_payload_ok Hlt F) as Q.
  subst eof. cbn [negb]. discriminate.
Qed.
