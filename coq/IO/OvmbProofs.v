(* IO/OvmbProofs.v -- proofs about the OVMB models (IO/OvmbWriterModel.v, IO/OvmbReaderModel.v, IO/OvmbSpec.v). *)
From Coq Require Import String Ascii.
From Coq Require Import ZArith List Bool Lia.
From OVM Require Import Base.Int32 Gen.OvmbFormat IO.Bytes IO.OvmbWriterModel IO.OvmbReaderModel IO.OvmbSpec.
Import ListNotations.
Local Open Scope Z_scope.

(* ================================================================================================ generic helpers *)

Lemma len_nonneg {A} (l : list A) : 0 <= len l.
Proof. unfold len. lia. Qed.

Lemma len_app {A} (a b : list A) : len (a ++ b) = len a + len b.
Proof. unfold len. rewrite app_length. lia. Qed.

Lemma len_firstn {A} (n : nat) (l : list A) : Z.of_nat n <= len l -> len (firstn n l) = Z.of_nat n.
Proof. unfold len. intros. rewrite firstn_length. lia. Qed.

Lemma len_skipn {A} (n : nat) (l : list A) : len (skipn n l) = len l - Z.min (Z.of_nat n) (len l).
Proof. unfold len. rewrite skipn_length. lia. Qed.

Lemma len_cons {A} (x : A) (l : list A) : len (x :: l) = 1 + len l.
Proof. unfold len. cbn [length]. lia. Qed.

Lemma len_nil {A} : len (@nil A) = 0.
Proof. reflexivity. Qed.

Lemma firstn_skipn_len {A} (n : nat) (l : list A) : len l = len (firstn n l) + len (skipn n l).
Proof. rewrite <- len_app, firstn_skipn. reflexivity. Qed.

Lemma list_eqb_eq a b : list_eqb a b = true <-> a = b.
Proof.
  revert b; induction a as [|x s IH]; intros [|y t]; simpl; split; intros H; try reflexivity; try discriminate.
  - apply andb_true_iff in H. destruct H as [H1 H2]. apply Z.eqb_eq in H1. apply IH in H2. subst. reflexivity.
  - inversion H; subst. rewrite Z.eqb_refl. simpl. apply IH. reflexivity.
Qed.

(* ================================================================================================ the R monad *)

Definition no_ub {A} (x : R A) : Prop := forall w, x <> Ub w.

Lemma no_ub_ret {A} (a : A) : no_ub (Ret a).
Proof. intros w H; discriminate. Qed.
Lemma no_ub_fail {A} r s : no_ub (@Fail A r s).
Proof. intros w H; discriminate. Qed.

Lemma no_ub_bind {A B} (x : R A) (f : A -> R B) :
  no_ub x -> (forall a, x = Ret a -> no_ub (f a)) -> no_ub (bind x f).
Proof.
  intros Hx Hf w. destruct x as [a|r s|w']; simpl.
  - apply Hf. reflexivity.
  - discriminate.
  - intros _. apply (Hx w'). reflexivity.
Qed.

Lemma bind_ret_inv {A B} (x : R A) (f : A -> R B) b :
  bind x f = Ret b -> exists a, x = Ret a /\ f a = Ret b.
Proof. destruct x; simpl; intros H; try discriminate. eauto. Qed.

Ltac inv_bind H :=
  let a := fresh "a" in let Ha := fresh "Ha" in
  apply bind_ret_inv in H; destruct H as [a [Ha H]].

(* ================================================================================================ decoder primitives *)

Lemma has_z_spec d : forall n, has_z d n = (n <=? len d).
Proof.
  induction d as [|x t IH]; intros n; cbn [has_z].
  - reflexivity.
  - rewrite len_cons. destruct (n <=? 0) eqn:E.
    + apply Z.leb_le in E. symmetry. apply Z.leb_le. pose proof (len_nonneg t). lia.
    + rewrite IH. apply Z.leb_gt in E. destruct (n - 1 <=? len t) eqn:E2; symmetry.
      * apply Z.leb_le in E2. apply Z.leb_le. lia.
      * apply Z.leb_gt in E2. apply Z.leb_gt. lia.
Qed.

Lemma short_spec d n : short d n = (len d <? n).
Proof. unfold short. rewrite has_z_spec. rewrite Z.ltb_antisym. reflexivity. Qed.

Lemma need_no_ub n d : no_ub (need n d).
Proof. unfold need. destruct (short d n); [apply no_ub_fail|apply no_ub_ret]. Qed.

Lemma rd_no_ub n d : no_ub (rd n d).
Proof. unfold rd. destruct (short d (Z.of_nat n)); [apply no_ub_fail|apply no_ub_ret]. Qed.

Lemma rd_bytes_no_ub n d : no_ub (rd_bytes n d).
Proof. unfold rd_bytes. destruct (short d n); [apply no_ub_fail|apply no_ub_ret]. Qed.

Lemma rd_inv n d v d' : rd n d = Ret (v, d') -> d' = skipn n d /\ Z.of_nat n <= len d /\ v = le_decode (firstn n d).
Proof.
  unfold rd. rewrite short_spec. destruct (len d <? Z.of_nat n) eqn:E; intros H; [discriminate|].
  inversion H; subst. apply Z.ltb_ge in E. auto.
Qed.

Lemma rd_bytes_inv n d v d' : rd_bytes n d = Ret (v, d') ->
  d' = skipn (Z.to_nat n) d /\ n <= len d /\ v = firstn (Z.to_nat n) d.
Proof.
  unfold rd_bytes. rewrite short_spec. destruct (len d <? n) eqn:E; intros H; [discriminate|].
  inversion H; subst. apply Z.ltb_ge in E. auto.
Qed.

Lemma rd_len n d v d' : rd n d = Ret (v, d') -> len d' = len d - Z.of_nat n.
Proof. intros H. apply rd_inv in H. destruct H as [-> [H _]]. rewrite len_skipn. lia. Qed.

Lemma rd_bytes_len n d v d' : 0 <= n -> rd_bytes n d = Ret (v, d') -> len d' = len d - n.
Proof. intros Hn H. apply rd_bytes_inv in H. destruct H as [-> [H _]]. rewrite len_skipn. rewrite Z2Nat.id by lia. lia. Qed.

Lemma rd_bytes_len_le n d v d' : rd_bytes n d = Ret (v, d') -> len d' <= len d.
Proof. intros H. apply rd_bytes_inv in H. destruct H as [-> _]. rewrite len_skipn. pose proof (len_nonneg d). lia. Qed.

Lemma rd_enum8_no_ub f d : no_ub (rd_enum8 f d).
Proof.
  unfold rd_enum8. apply no_ub_bind; [apply rd_no_ub|]. intros [v d'] _. destruct (f v); [apply no_ub_ret|apply no_ub_fail].
Qed.

Lemma rd_enum8_inv f d v d' : rd_enum8 f d = Ret (v, d') -> rd 1 d = Ret (v, d') /\ f v = true.
Proof.
  unfold rd_enum8, rd_u8. intros H. inv_bind H. destruct a as [v0 d0]. destruct (f v0) eqn:E; [|discriminate].
  inversion H; subst. auto.
Qed.

Lemma rd_vec32_no_ub d : no_ub (rd_vec32 d).
Proof. unfold rd_vec32. apply no_ub_bind; [apply rd_no_ub|]. intros [n d1] _. apply rd_bytes_no_ub. Qed.

Lemma rd_vec32_len_lt d v d' : rd_vec32 d = Ret (v, d') -> len d' + 4 <= len d.
Proof.
  unfold rd_vec32, rd_u32. intros H. inv_bind H. destruct a as [n d1].
  pose proof (rd_len _ _ _ _ Ha). apply rd_bytes_len_le in H. lia.
Qed.

Lemma rd_reserved_no_ub n d : no_ub (rd_reserved n d).
Proof.
  unfold rd_reserved. apply no_ub_bind; [apply rd_bytes_no_ub|]. intros [b d'] _.
  match goal with |- no_ub (if ?c then _ else _) => destruct c end; [apply no_ub_ret|apply no_ub_fail].
Qed.

Lemma rd_span_no_ub d : no_ub (rd_span d).
Proof.
  unfold rd_span. apply no_ub_bind; [apply need_no_ub|]. intros _ _.
  apply no_ub_bind; [apply rd_no_ub|]. intros [first d1] _.
  apply no_ub_bind; [apply rd_no_ub|]. intros [count d2] _. apply no_ub_ret.
Qed.

Lemma make_decoder_no_ub n s : no_ub (make_decoder n s).
Proof.
  unfold make_decoder. destruct (remaining_bytes s <? n); [apply no_ub_fail|].
  destruct ((0 <? n) && (s_avail s <? n)); [apply no_ub_fail|apply no_ub_ret].
Qed.

(* what a successful make_decoder says about the stream: n bytes were available and delivered *)
Lemma make_decoder_inv n s d s' : 0 <= n -> make_decoder n s = Ret (d, s') ->
  s_bytes s = d ++ s_bytes s' /\ len d = n /\ s_avail s' = s_avail s - n /\ (0 < n -> n <= s_avail s).
Proof.
  intros Hn. unfold make_decoder, remaining_bytes.
  destruct (len (s_bytes s) <? n) eqn:E1; [discriminate|].
  destruct ((0 <? n) && (s_avail s <? n)) eqn:E2; [discriminate|].
  intros H. inversion H; subst; clear H. cbn [s_bytes s_avail].
  apply Z.ltb_ge in E1.
  split; [symmetry; apply firstn_skipn|].
  split; [rewrite len_firstn; rewrite Z2Nat.id by lia; lia|].
  split; [reflexivity|].
  intros Hp. apply andb_false_iff in E2. destruct E2 as [E2|E2].
  - apply Z.ltb_ge in E2. lia.
  - apply Z.ltb_ge in E2. lia.
Qed.

(* ================================================================================================ chunk framing *)

(* total number of bytes of the chunk that starts at the head of b, its type, its padding count *)
Definition chunk_len (b : list byte) : Z := 16 + le_decode (firstn 8 (skipn 8 b)).
Definition chunk_type (b : list byte) : Z := le_decode (firstn 4 b).
Definition chunk_version (b : list byte) : Z := le_decode (firstn 1 (skipn 4 b)).
Definition chunk_padding (b : list byte) : Z := le_decode (firstn 1 (skipn 5 b)).
Definition chunk_compression (b : list byte) : Z := le_decode (firstn 1 (skipn 6 b)).
Definition chunk_pad_bytes (b : list byte) : list byte :=
  firstn (Z.to_nat (chunk_padding b)) (skipn (Z.to_nat (chunk_len b - chunk_padding b)) b).
(* compression field 0, declared padding not larger than the chunk body, every padding byte 0 *)
Definition chunk_clean (b : list byte) : bool :=
  (chunk_compression b =? 0) && (chunk_padding b <=? chunk_len b - 16) && forallb (fun c => c =? 0) (chunk_pad_bytes b).

Lemma firstn_app_le {A} (n : nat) (a b : list A) : (n <= length a)%nat -> firstn n (a ++ b) = firstn n a.
Proof. intros. rewrite firstn_app. replace (n - length a)%nat with 0%nat by lia. simpl. apply app_nil_r. Qed.

Lemma skipn_app_le {A} (n : nat) (a b : list A) : (n <= length a)%nat -> skipn n (a ++ b) = skipn n a ++ b.
Proof. intros. rewrite skipn_app. replace (n - length a)%nat with 0%nat by lia. reflexivity. Qed.

Lemma field_of_prefix (off w : nat) (d rest : list byte) :
  (off + w <= length d)%nat -> firstn w (skipn off (d ++ rest)) = firstn w (skipn off d).
Proof.
  intros H. rewrite skipn_app_le by lia. apply firstn_app_le. rewrite skipn_length. lia.
Qed.

Lemma skipn_skipn' {A} (x y : nat) (l : list A) : skipn x (skipn y l) = skipn (y + x) l.
Proof.
  revert l; induction y; intros l; simpl; [reflexivity|].
  destruct l; [destruct x; reflexivity|apply IHy].
Qed.

Lemma firstn_exact {A} (a b : list A) n : length a = n -> firstn n (a ++ b) = a.
Proof. intros <-. rewrite firstn_app, Nat.sub_diag, firstn_all. simpl. apply app_nil_r. Qed.
Lemma skipn_exact {A} (a b : list A) n : length a = n -> skipn n (a ++ b) = b.
Proof. intros <-. rewrite skipn_app, Nat.sub_diag, skipn_all. reflexivity. Qed.

Lemma len_length {A} (l : list A) n : len l = Z.of_nat n -> length l = n.
Proof. unfold len. lia. Qed.

Lemma bytes_ok_app_inv a b : bytes_ok (a ++ b) -> bytes_ok a /\ bytes_ok b.
Proof. unfold bytes_ok. intros H. apply Forall_app in H. exact H. Qed.

Lemma le_decode_field_range (w off : nat) (d : list byte) :
  bytes_ok d -> 0 <= le_decode (firstn w (skipn off d)) < 256 ^ Z.of_nat w.
Proof.
  intros H.
  pose proof (le_decode_range (firstn w (skipn off d)) (bytes_ok_firstn _ _ (bytes_ok_skipn _ _ H))) as R.
  assert (L : len (firstn w (skipn off d)) <= Z.of_nat w). { unfold len. rewrite firstn_length. lia. }
  assert (256 ^ len (firstn w (skipn off d)) <= 256 ^ Z.of_nat w). { apply Z.pow_le_mono_r; [lia|exact L]. }
  lia.
Qed.

(* a successful read_chunk consumes exactly the chunk at the head of the stream: 16 header bytes + file_length bytes;
   every positive-size read was delivered by the stream; the EOF flag is raised only by an EOF-type chunk *)
Lemma read_chunk_frame o h st eof s st' eof' s' :
  bytes_ok (s_bytes s) ->
  read_chunk o h st eof s = Ret (st', eof', s') ->
  let b := s_bytes s in
  16 <= len b /\ chunk_len b <= len b /\ 16 <= chunk_len b /\
  s_bytes s' = skipn (Z.to_nat (chunk_len b)) b /\
  s_avail s' = s_avail s - chunk_len b /\ 0 <= s_avail s' /\
  eof' = (eof || ((chunk_version b =? 0) && (chunk_type b =? ChunkType_EndOfFile))) /\
  eof = false /\ chunk_clean b = true.
Proof.
  unfold read_chunk. intros Hok H.
  destruct eof; [discriminate|].
  inv_bind H. destruct a as [d s1].
  apply make_decoder_inv in Ha; [|unfold ovmb_size_ChunkHeader; lia].
  destruct Ha as [Hb [Hd [Hav1 Hav1']]]. unfold ovmb_size_ChunkHeader in *.
  inv_bind H. clear Ha.
  inv_bind H. destruct a0 as [ty d1]. apply rd_inv in Ha. destruct Ha as [-> [_ Hty]].
  inv_bind H. destruct a0 as [version d2]. apply rd_inv in Ha. destruct Ha as [-> [_ Hver]].
  inv_bind H. destruct a0 as [padding d3]. apply rd_inv in Ha. destruct Ha as [-> [_ Hpad]].
  inv_bind H. destruct a0 as [compression d4]. apply rd_inv in Ha. destruct Ha as [-> [_ Hcomp]].
  inv_bind H. destruct a0 as [flags d5]. apply rd_enum8_inv in Ha. destruct Ha as [Ha _]. apply rd_inv in Ha. destruct Ha as [-> [_ _]].
  inv_bind H. destruct a0 as [file_length d6]. apply rd_inv in Ha. destruct Ha as [_ [_ Hfl]].
  repeat rewrite skipn_skipn' in Hfl. cbn [Nat.add] in Hfl.
  repeat rewrite skipn_skipn' in Hpad. cbn [Nat.add] in Hpad.
  repeat rewrite skipn_skipn' in Hver. cbn [Nat.add] in Hver.
  repeat rewrite skipn_skipn' in Hcomp. cbn [Nat.add] in Hcomp.
  assert (Hlen16 : length d = 16%nat) by (apply len_length; exact Hd).
  rewrite Hb in Hok. destruct (bytes_ok_app_inv _ _ Hok) as [Hokd Hok1].
  assert (Hpadr : 0 <= padding < 256).
  { subst padding. pose proof (le_decode_field_range 1 5 d Hokd) as R. change (256 ^ Z.of_nat 1) with 256 in R. exact R. }
  assert (Hflr : 0 <= file_length).
  { subst file_length. pose proof (le_decode_field_range 8 8 d Hokd) as R. lia. }
  destruct (file_length <? padding) eqn:E1; [discriminate|]. apply Z.ltb_ge in E1.
  destruct (compression =? 0) eqn:Ecomp; cbn [negb] in H; [|discriminate]. apply Z.eqb_eq in Ecomp.
  destruct (remaining_bytes s1 <? file_length) eqn:E2; [discriminate|]. apply Z.ltb_ge in E2. unfold remaining_bytes in E2.
  inv_bind H. destruct a0 as [cd s2].
  apply make_decoder_inv in Ha; [|lia]. destruct Ha as [Hb2 [Hcd [Hav2 Hav2']]].
  inv_bind H. destruct a0 as [st'' rest]. clear Ha.
  destruct rest; [|discriminate].
  inv_bind H. destruct a0 as [pd s3].
  apply make_decoder_inv in Ha; [|lia]. destruct Ha as [Hb3 [Hpd [Hav3 Hav3']]].
  match type of H with (if ?c then _ else _) = _ => destruct c eqn:Ezero; [|discriminate] end.
  inversion H; subst st'' eof' s3; clear H.
  cbv zeta.
  assert (Ecl : chunk_len (s_bytes s) = 16 + file_length).
  { unfold chunk_len. rewrite Hb. rewrite field_of_prefix by lia. rewrite <- Hfl. reflexivity. }
  assert (Ect : chunk_type (s_bytes s) = ty).
  { unfold chunk_type. rewrite Hb. rewrite firstn_app_le by lia. symmetry. exact Hty. }
  assert (Ecv : chunk_version (s_bytes s) = version).
  { unfold chunk_version. rewrite Hb. rewrite field_of_prefix by lia. symmetry. exact Hver. }
  rewrite Ecl, Ect, Ecv.
  assert (Ltot : len (s_bytes s) = 16 + len (s_bytes s1)). { rewrite Hb, len_app. lia. }
  assert (L1 : len (s_bytes s1) = (file_length - padding) + len (s_bytes s2)). { rewrite Hb2, len_app. lia. }
  assert (L2 : len (s_bytes s2) = padding + len (s_bytes s')). { rewrite Hb3, len_app. lia. }
  split; [lia|]. split; [lia|]. split; [lia|].
  split.
  { rewrite Hb, Hb2, Hb3.
    replace (d ++ (cd ++ pd ++ s_bytes s')) with ((d ++ cd ++ pd) ++ s_bytes s') by (repeat rewrite <- app_assoc; reflexivity).
    rewrite skipn_app_le.
    - rewrite skipn_all2; [reflexivity|].
      repeat rewrite app_length. unfold len in *. lia.
    - repeat rewrite app_length. unfold len in *. lia. }
  split; [lia|].
  split.
  { destruct (Z.eq_dec padding 0) as [->|Hp].
    - destruct (Z.eq_dec file_length 0) as [->|Hf]; lia.
    - lia. }
  split; [reflexivity|]. split; [reflexivity|].
  assert (Ecp : chunk_padding (s_bytes s) = padding).
  { unfold chunk_padding. rewrite Hb. rewrite field_of_prefix by lia. symmetry. exact Hpad. }
  assert (Ecc : chunk_compression (s_bytes s) = 0).
  { unfold chunk_compression. rewrite Hb. rewrite field_of_prefix by lia. rewrite <- Hcomp. exact Ecomp. }
  unfold chunk_clean, chunk_pad_bytes. rewrite Ecc, Ecp, Ecl. cbn [Z.eqb andb].
  replace (padding <=? 16 + file_length - 16) with true by (symmetry; apply Z.leb_le; lia). cbn [andb].
  rewrite Hb, Hb2, Hb3.
  replace (d ++ cd ++ pd ++ s_bytes s') with ((d ++ cd) ++ pd ++ s_bytes s') by (repeat rewrite <- app_assoc; reflexivity).
  rewrite skipn_exact by (rewrite app_length; unfold len in *; lia).
  rewrite firstn_exact by (unfold len in *; lia).
  exact Ezero.
Qed.

Definition is_eof_chunk (b : list byte) : bool := (chunk_version b =? 0) && (chunk_type b =? ChunkType_EndOfFile).

(* b is a sequence of complete chunks; eof_out = eof_in || one of them is an EOF chunk *)
Inductive framed : list byte -> bool -> bool -> Prop :=
| framed_nil e : framed [] e e
| framed_cons b e e' :
    16 <= len b -> 16 <= chunk_len b -> chunk_len b <= len b ->
    framed (skipn (Z.to_nat (chunk_len b)) b) (e || is_eof_chunk b) e' ->
    e = false -> chunk_clean b = true ->
    framed b e e'.

Lemma remaining_le0 s : (remaining_bytes s <=? 0) = true -> s_bytes s = [].
Proof.
  unfold remaining_bytes, len. intros H. apply Z.leb_le in H. destruct (s_bytes s); [reflexivity|]. simpl in H. lia.
Qed.

(* a successful chunk loop: the stream was a sequence of complete chunks, all of it was delivered *)
Lemma chunk_loop_framed fuel : forall o h st eof s st' eof',
  bytes_ok (s_bytes s) ->
  chunk_loop fuel o h st eof s = Ret (st', eof') ->
  framed (s_bytes s) eof eof' /\ (s_bytes s = [] \/ len (s_bytes s) <= s_avail s).
Proof.
  induction fuel as [|f IH]; intros o h st eof s st' eof' Hok H; simpl in H.
  - destruct (remaining_bytes s <=? 0) eqn:E; [|discriminate].
    inversion H; subst. rewrite (remaining_le0 _ E). split; [constructor|left; reflexivity].
  - destruct (remaining_bytes s <=? 0) eqn:E.
    + inversion H; subst. rewrite (remaining_le0 _ E). split; [constructor|left; reflexivity].
    + inv_bind H. destruct a as [[st1 eof1] s1].
      pose proof (read_chunk_frame _ _ _ _ _ _ _ _ Hok Ha) as F. cbv zeta in F.
      destruct F as [F1 [F2 [F3 [F4 [F5 [F6 [F7 [F8 F9]]]]]]]].
      assert (Hok1 : bytes_ok (s_bytes s1)) by (rewrite F4; apply bytes_ok_skipn; exact Hok).
      destruct (IH _ _ _ _ _ _ _ Hok1 H) as [G1 G2].
      split.
      * apply framed_cons; try assumption. rewrite <- F4. unfold is_eof_chunk. rewrite <- F7. exact G1.
      * right.
        assert (L : len (s_bytes s1) = len (s_bytes s) - chunk_len (s_bytes s)).
        { rewrite F4, len_skipn. rewrite Z2Nat.id by lia. lia. }
        destruct G2 as [G2|G2].
        -- rewrite G2 in L. rewrite len_nil in L. lia.
        -- lia.
Qed.

(* ================================================================================================ C18: stream failures *)

Lemma read_header_inv s h ok s1 :
  read_header s = (h, ok, s1) -> ok = true ->
  48 <= len (s_bytes s) /\ s_bytes s1 = skipn 48 (s_bytes s) /\ s_avail s1 = s_avail s - 48 /\ 48 <= s_avail s.
Proof.
  unfold read_header. destruct (make_decoder ovmb_size_FileHeader s) as [[d s']|r st|w] eqn:E.
  - destruct (read_file_header d) as [h0 ok0] eqn:E2. intros H Hok. inversion H; subst.
    apply make_decoder_inv in E; [|unfold ovmb_size_FileHeader; lia]. unfold ovmb_size_FileHeader in E.
    destruct E as [Hb [Hd [Hav Hav']]].
    split; [rewrite Hb, len_app; pose proof (len_nonneg (s_bytes s1)); lia|].
    split.
    { rewrite Hb. rewrite skipn_app_le by (unfold len in Hd; lia).
      rewrite skipn_all2 by (unfold len in Hd; lia). reflexivity. }
    split; [exact Hav|]. apply Hav'. lia.
  - intros H Hok. inversion H; subst. discriminate.
  - intros H Hok. inversion H; subst. discriminate.
Qed.

(* a stream that delivers only k < length bytes never gives Ok *)
Theorem stream_failure_rejected o k bytes m :
  bytes_ok bytes -> 0 <= k < len bytes -> decode_impl_failing o k bytes <> ROk m.
Proof.
  intros Hok Hk. unfold decode_impl_failing, decode_stream.
  destruct (read_header _) as [[h ok] s1] eqn:Eh.
  destruct (negb (compatible o h)); [discriminate|].
  destruct ok; simpl; [|discriminate].
  apply read_header_inv in Eh; [|reflexivity]. cbn [s_bytes s_avail] in Eh.
  destruct Eh as [H48 [Hb1 [Hav1 Hav48]]].
  rewrite Z.min_l in * by lia.
  destruct (chunk_loop _ o h init_rst false s1) as [[st eof]|r st|w] eqn:EL; [|discriminate|discriminate].
  assert (Hok1 : bytes_ok (s_bytes s1)) by (rewrite Hb1; apply bytes_ok_skipn; exact Hok).
  apply chunk_loop_framed in EL; [|exact Hok1]. destruct EL as [_ [G|G]].
  - exfalso. rewrite Hb1 in G.
    assert (L : len (skipn 48 bytes) = len bytes - 48) by (rewrite len_skipn; lia).
    rewrite G, len_nil in L. lia.
  - exfalso. rewrite Hb1 in G. rewrite len_skipn in G. lia.
Qed.

(* ================================================================================================ the writer's chunk layout *)

Lemma land_mask8 x : 0 <= x < 18446744073709551616 -> Z.land x 18446744073709551608 = 8 * (x / 8).
Proof.
  intros Hx.
  replace (8 * (x / 8)) with (Z.shiftl (Z.shiftr x 3) 3)
    by (rewrite Z.shiftl_mul_pow2, Z.shiftr_div_pow2 by lia; change (2 ^ 3) with 8; lia).
  change 18446744073709551608 with (Z.shiftl (Z.ones 61) 3).
  apply Z.bits_inj'. intros i Hi.
  rewrite Z.land_spec.
  destruct (Z.lt_ge_cases i 3).
  - rewrite !Z.shiftl_spec_low by lia. apply andb_false_r.
  - rewrite !Z.shiftl_spec by lia. rewrite Z.shiftr_spec by lia. replace (i - 3 + 3) with i by lia.
    destruct (Z.lt_ge_cases (i - 3) 61).
    + rewrite Z.ones_spec_low by lia. apply andb_true_r.
    + rewrite Z.ones_spec_high by lia. rewrite andb_false_r. symmetry.
      destruct (Z.eq_dec x 0) as [->|Hn]; [apply Z.bits_0|].
      apply Z.bits_above_log2; [lia|].
      apply Z.log2_lt_pow2; [lia|].
      apply Z.lt_le_trans with (2 ^ 64); [change (2 ^ 64) with 18446744073709551616; lia|].
      apply Z.pow_le_mono_r; lia.
Qed.

(* the regenerated padding arithmetic of BinaryFileWriter::write_chunk, for every payload length below 2^62 *)
Lemma padded_spec n : 0 <= n < 4611686018427387904 -> write_chunk_padded n = 8 * ((n + 7) / 8).
Proof.
  intros Hn. unfold write_chunk_padded, c_u64, c_i64, wrap_u, wrap_s.
  change (2 ^ 64) with 18446744073709551616. change (2 ^ (64 - 1)) with 9223372036854775808.
  change (7 mod 18446744073709551616) with 7.
  rewrite (Z.mod_small (n + 7)) by lia. rewrite (Z.mod_small (n + 7)) by lia.
  change (Z.lnot 7) with (-8).
  change ((-8) mod 18446744073709551616) with 18446744073709551608.
  change (18446744073709551608 <? 9223372036854775808) with false. cbv iota.
  change ((18446744073709551608 - 18446744073709551616) mod 18446744073709551616) with 18446744073709551608.
  assert (Hr : 0 <= n + 7 < 18446744073709551616) by lia.
  rewrite (land_mask8 (n + 7) Hr).
  assert (0 <= 8 * ((n + 7) / 8) <= n + 7).
  { pose proof (Z.div_mod (n + 7) 8 ltac:(lia)). pose proof (Z.mod_pos_bound (n + 7) 8 ltac:(lia)).
    assert (0 <= (n + 7) / 8) by (apply Z.div_pos; lia). lia. }
  rewrite (Z.mod_small (8 * ((n + 7) / 8))) by lia. rewrite (Z.mod_small (8 * ((n + 7) / 8))) by lia. reflexivity.
Qed.

Lemma padding_spec n : 0 <= n < 4611686018427387904 ->
  0 <= write_chunk_padding_bytes n < 8 /\ write_chunk_file_length n = n + write_chunk_padding_bytes n.
Proof.
  intros Hn. unfold write_chunk_padding_bytes, write_chunk_file_length. cbv zeta. rewrite padded_spec by exact Hn.
  pose proof (Z.div_mod (n + 7) 8 ltac:(lia)). pose proof (Z.mod_pos_bound (n + 7) 8 ltac:(lia)).
  unfold c_u8, c_u64, wrap_u. change (2 ^ 64) with 18446744073709551616. change (2 ^ 8) with 256.
  rewrite (Z.mod_small (8 * ((n + 7) / 8) - n)) by lia.
  rewrite Z.mod_small by lia. lia.
Qed.

Definition payload_ok (ty : Z) (p : list byte) : Prop :=
  0 <= ty < 4294967296 /\ bytes_ok p /\ len p < 4611686018427387904.

Lemma write_chunk_shape ty p rest : payload_ok ty p ->
  let c := write_chunk ty p in
  len c = 16 + write_chunk_file_length (len p) /\
  chunk_len (c ++ rest) = len c /\ chunk_type (c ++ rest) = ty /\ chunk_version (c ++ rest) = 0 /\ bytes_ok c.
Proof.
  intros [Hty [Hp Hn]]. cbv zeta.
  pose proof (len_nonneg p) as Hp0.
  destruct (padding_spec (len p) ltac:(lia)) as [Hpad Hfl].
  set (pad := write_chunk_padding_bytes (len p)) in *.
  set (fl := write_chunk_file_length (len p)) in *.
  unfold write_chunk. fold pad. fold fl.
  assert (L32 : length (enc_u32 ty) = 4%nat) by apply le_encode_length.
  assert (L64 : length (enc_u64 fl) = 8%nat) by apply le_encode_length.
  assert (Lc : len (enc_u32 ty ++ [0; pad; 0; ChunkFlags_Mandatory] ++ enc_u64 fl ++ p ++ repeat 0 (Z.to_nat pad)) = 16 + fl).
  { repeat rewrite len_app. unfold len at 1 2 3. rewrite L32, L64. cbn [length].
    unfold len at 2. rewrite repeat_length. rewrite Z2Nat.id by lia. lia. }
  split; [exact Lc|].
  split.
  { unfold chunk_len. rewrite Lc.
    replace ((enc_u32 ty ++ [0; pad; 0; ChunkFlags_Mandatory] ++ enc_u64 fl ++ p ++ repeat 0 (Z.to_nat pad)) ++ rest)
      with ((enc_u32 ty ++ [0; pad; 0; ChunkFlags_Mandatory]) ++ enc_u64 fl ++ (p ++ repeat 0 (Z.to_nat pad) ++ rest))
      by (repeat rewrite <- app_assoc; reflexivity).
    rewrite skipn_exact by (rewrite app_length, L32; reflexivity).
    rewrite firstn_exact by exact L64.
    unfold enc_u64. rewrite le_decode_encode; [reflexivity|]. change (256 ^ Z.of_nat 8) with 18446744073709551616. lia. }
  split.
  { unfold chunk_type. rewrite <- app_assoc. rewrite firstn_exact by exact L32.
    unfold enc_u32. apply le_decode_encode. change (256 ^ Z.of_nat 4) with 4294967296. lia. }
  split.
  { unfold chunk_version. rewrite <- app_assoc. rewrite skipn_exact by exact L32. reflexivity. }
  apply bytes_ok_app; [apply le_encode_ok|].
  apply bytes_ok_app.
  { unfold bytes_ok. repeat constructor; unfold byte_ok, ChunkFlags_Mandatory; lia. }
  apply bytes_ok_app; [apply le_encode_ok|].
  apply bytes_ok_app; [exact Hp|apply bytes_ok_repeat0].
Qed.

(* a byte string made of writer chunks none of which is an EOF chunk *)
Inductive noeof_chunks : list byte -> Prop :=
| nc_nil : noeof_chunks []
| nc_cons ty p rest : payload_ok ty p -> ty <> ChunkType_EndOfFile -> noeof_chunks rest -> noeof_chunks (write_chunk ty p ++ rest).

Lemma noeof_app a b : noeof_chunks a -> noeof_chunks b -> noeof_chunks (a ++ b).
Proof. induction 1; intros Hb; simpl; [exact Hb|]. rewrite <- app_assoc. constructor; auto. Qed.

Lemma noeof_single ty p : payload_ok ty p -> ty <> ChunkType_EndOfFile -> noeof_chunks (write_chunk ty p).
Proof. intros. rewrite <- (app_nil_r (write_chunk ty p)). constructor; auto. constructor. Qed.

Lemma noeof_bytes_ok b : noeof_chunks b -> bytes_ok b.
Proof.
  induction 1; [constructor|]. apply bytes_ok_app; [|assumption].
  destruct (write_chunk_shape ty p [] H) as [_ [_ [_ [_ Hb]]]]. exact Hb.
Qed.

Lemma framed_inv_nonempty b e e' : framed b e e' -> b <> [] ->
  16 <= len b /\ 16 <= chunk_len b /\ chunk_len b <= len b /\
  framed (skipn (Z.to_nat (chunk_len b)) b) (e || is_eof_chunk b) e'.
Proof.
  intros H Hne. inversion H; subst; [congruence|]. auto.
Qed.

Lemma framed_nil_inv e e' : framed [] e e' -> e' = e.
Proof. intros H. inversion H; subst; [reflexivity|]. rewrite len_nil in *. lia. Qed.

(* reading a strict prefix of (non-EOF chunks ++ one final chunk) as a chunk sequence never raises the EOF flag *)
Lemma framed_prefix_noeof b : noeof_chunks b -> forall tyl pl n e',
  payload_ok tyl pl ->
  let whole := b ++ write_chunk tyl pl in
  (n < length whole)%nat ->
  framed (firstn n whole) false e' -> e' = false.
Proof.
  induction 1 as [|ty p rest Hpay Hty Hrest IH]; intros tyl pl n e' Hl; cbv zeta; intros Hn Hf.
  - (* only the final chunk *)
    cbn [app] in *.
    destruct (firstn n (write_chunk tyl pl)) as [|x t] eqn:E.
    + apply framed_nil_inv in Hf. exact Hf.
    + exfalso. apply framed_inv_nonempty in Hf; [|discriminate]. destruct Hf as [F1 [F2 [F3 _]]].
      rewrite <- E in *.
      assert (Ln : len (firstn n (write_chunk tyl pl)) = Z.of_nat n). { apply len_firstn. unfold len. lia. }
      pose proof (write_chunk_shape tyl pl [] Hl) as SS. cbv zeta in SS. destruct SS as [S1 [S2 _]]. rewrite app_nil_r in S2.
      (* the 16 header bytes are inside the prefix, so chunk_len of the prefix = chunk_len of the chunk *)
      assert (E2 : chunk_len (firstn n (write_chunk tyl pl)) = chunk_len (write_chunk tyl pl)).
      { unfold chunk_len. f_equal. f_equal.
        rewrite <- (firstn_skipn n (write_chunk tyl pl)) at 2.
        symmetry. apply field_of_prefix. rewrite firstn_length. unfold len in *. lia. }
      rewrite E2, S2 in F3. unfold len in *. lia.
  - rewrite <- app_assoc in *.
    pose proof (write_chunk_shape ty p (rest ++ write_chunk tyl pl) Hpay) as SS. cbv zeta in SS. destruct SS as [S1 [S2 [S3 [S4 _]]]].
    set (cc := write_chunk ty p) in *.
    set (tail := rest ++ write_chunk tyl pl) in *.
    destruct (firstn n (cc ++ tail)) as [|x t] eqn:E.
    + apply framed_nil_inv in Hf. exact Hf.
    + apply framed_inv_nonempty in Hf; [|discriminate]. rewrite <- E in *. destruct Hf as [F1 [F2 [F3 F4]]].
      assert (Hn' : (n <= length (cc ++ tail))%nat) by lia.
      assert (Ln : len (firstn n (cc ++ tail)) = Z.of_nat n). { apply len_firstn. unfold len. lia. }
      assert (Hc16 : 16 <= len cc). { pose proof (len_nonneg p). destruct (padding_spec (len p)) as [? ?]; [destruct Hpay as [_ [_ ?]]; lia|]. lia. }
      assert (E2 : chunk_len (firstn n (cc ++ tail)) = len cc /\ is_eof_chunk (firstn n (cc ++ tail)) = false).
      { rewrite <- (firstn_skipn n (cc ++ tail)) in S2, S3, S4.
        split.
        - rewrite <- S2. unfold chunk_len. f_equal. f_equal. symmetry. apply field_of_prefix. rewrite firstn_length. unfold len in *. lia.
        - unfold is_eof_chunk.
          assert (T : chunk_type (firstn n (cc ++ tail)) = ty).
          { rewrite <- S3. unfold chunk_type. f_equal. symmetry. apply (field_of_prefix 0 4). rewrite firstn_length. unfold len in *. lia. }
          rewrite T. destruct (ty =? ChunkType_EndOfFile) eqn:Q; [apply Z.eqb_eq in Q; contradiction|]. apply andb_false_r. }
      destruct E2 as [E2 E3]. rewrite E2, E3 in *. cbn [orb] in F4.
      assert (Hcn : (length cc <= n)%nat) by (unfold len in *; lia).
      rewrite firstn_app in F4.
      replace (firstn n cc) with cc in F4 by (symmetry; apply firstn_all2; exact Hcn).
      rewrite skipn_exact in F4 by (unfold len; lia).
      apply (IH tyl pl (n - length cc)%nat e' Hl); [|exact F4].
      rewrite app_length in Hn. fold tail. lia.
Qed.

Lemma write_chunk_payload_ok ty p : 0 <= ty < 4294967296 ->
  bytes_ok (write_chunk ty p) -> len (write_chunk ty p) < 4611686018427387904 -> payload_ok ty p.
Proof.
  intros Hty Hb Hl. unfold write_chunk in *. split; [exact Hty|].
  apply bytes_ok_app_inv in Hb. destruct Hb as [_ Hb].
  apply bytes_ok_app_inv in Hb. destruct Hb as [_ Hb].
  apply bytes_ok_app_inv in Hb. destruct Hb as [_ Hb].
  apply bytes_ok_app_inv in Hb. destruct Hb as [Hb _].
  split; [exact Hb|].
  repeat rewrite len_app in Hl.
  match type of Hl with ?a + (?b + (?c + (?d + ?e))) < _ =>
    assert (0 <= a) by apply len_nonneg; assert (0 <= b) by apply len_nonneg;
    assert (0 <= c) by apply len_nonneg; assert (0 <= e) by apply len_nonneg;
    assert (len p = d) by reflexivity end.
  lia.
Qed.

Definition small (b : list byte) : Prop := bytes_ok b /\ len b < 4611686018427387904.

Lemma small_app_inv a b : small (a ++ b) -> small a /\ small b.
Proof.
  intros [H1 H2]. apply bytes_ok_app_inv in H1. rewrite len_app in H2.
  pose proof (len_nonneg a). pose proof (len_nonneg b). unfold small. intuition lia.
Qed.

Lemma small_nil : small [].
Proof. split; [constructor|rewrite len_nil; lia]. Qed.

Lemma chunk_noeof ty p : 0 <= ty < 4294967296 -> ty <> ChunkType_EndOfFile -> small (write_chunk ty p) -> noeof_chunks (write_chunk ty p).
Proof. intros Hty Hne [Hb Hl]. apply noeof_single; [apply write_chunk_payload_ok; assumption|exact Hne]. Qed.

Lemma write_propdir_noeof m : small (write_propdir m) -> noeof_chunks (write_propdir m).
Proof.
  unfold write_propdir. destruct (concat (map dirp_entry (written_props m))); [constructor|].
  apply chunk_noeof; [unfold ChunkType_PropertyDirectory; lia|discriminate].
Qed.

Lemma write_vertices_noeof m : small (write_vertices m) -> noeof_chunks (write_vertices m).
Proof.
  unfold write_vertices. destruct (c_uint (m_nv m) =? 0); [constructor|].
  apply chunk_noeof; [unfold ChunkType_Vertices; lia|discriminate].
Qed.

Lemma write_edges_noeof m : small (write_edges m) -> noeof_chunks (write_edges m).
Proof.
  unfold write_edges. destruct (c_uint (len (m_edges m)) =? 0); [constructor|].
  apply chunk_noeof; [unfold ChunkType_Topo; lia|discriminate].
Qed.

Lemma write_poly_topo_noeof e items henc : small (write_poly_topo e items henc) -> noeof_chunks (write_poly_topo e items henc).
Proof.
  unfold write_poly_topo. destruct (c_uint (len items) =? 0); [constructor|].
  apply chunk_noeof; [unfold ChunkType_Topo; lia|discriminate].
Qed.

Lemma write_props_noeof ps : forall idx, small (write_props idx ps) -> noeof_chunks (write_props idx ps).
Proof.
  induction ps as [|[p ty] t IH]; intros idx H; cbn [write_props] in *; [constructor|].
  apply small_app_inv in H. destruct H as [H1 H2].
  apply noeof_app; [|apply IH; exact H2].
  apply chunk_noeof; [unfold ChunkType_Property; lia|discriminate|exact H1].
Qed.

(* the writer's output: file header, then non-EOF chunks, then exactly one EOF chunk *)
Definition encode_body (m : meshfile) : list byte :=
  write_propdir m ++ write_vertices m ++ write_edges m ++ write_faces m ++ write_cells m ++ write_props 0 (written_props m).

Lemma encode_split dim topo m :
  encode dim topo m = write_file_header dim topo m ++ encode_body m ++ write_chunk ChunkType_EndOfFile [].
Proof. unfold encode, encode_body. repeat rewrite <- app_assoc. reflexivity. Qed.

Lemma encode_body_noeof m : small (encode_body m) -> noeof_chunks (encode_body m).
Proof.
  unfold encode_body. intros H.
  apply small_app_inv in H. destruct H as [H1 H].
  apply small_app_inv in H. destruct H as [H2 H].
  apply small_app_inv in H. destruct H as [H3 H].
  apply small_app_inv in H. destruct H as [H4 H].
  apply small_app_inv in H. destruct H as [H5 H6].
  apply noeof_app; [apply write_propdir_noeof; assumption|].
  apply noeof_app; [apply write_vertices_noeof; assumption|].
  apply noeof_app; [apply write_edges_noeof; assumption|].
  apply noeof_app; [apply write_poly_topo_noeof; assumption|].
  apply noeof_app; [apply write_poly_topo_noeof; assumption|].
  apply write_props_noeof; assumption.
Qed.

Lemma header_length dim topo m : length (write_file_header dim topo m) = 48%nat.
Proof.
  unfold write_file_header. repeat rewrite app_length. unfold enc_u64. repeat rewrite le_encode_length. reflexivity.
Qed.

Lemma eof_payload_ok : payload_ok ChunkType_EndOfFile [].
Proof. split; [unfold ChunkType_EndOfFile; lia|]. split; [constructor|rewrite len_nil; lia]. Qed.

(* ================================================================================================ C18: truncation *)

(* every strict prefix of the writer's output is rejected *)
Theorem prefix_rejected o dim topo m n r :
  small (encode dim topo m) ->
  (n < length (encode dim topo m))%nat ->
  decode_impl o (firstn n (encode dim topo m)) <> ROk r.
Proof.
  intros Hs Hn. rewrite encode_split in *.
  set (H := write_file_header dim topo m) in *.
  set (B := encode_body m) in *.
  set (E := write_chunk ChunkType_EndOfFile []) in *.
  assert (HH : length H = 48%nat) by apply header_length.
  destruct (small_app_inv _ _ Hs) as [_ Hs2]. destruct (small_app_inv _ _ Hs2) as [HsB _].
  pose proof (encode_body_noeof m HsB) as HB. fold B in HB.
  unfold decode_impl, decode_stream.
  destruct (read_header _) as [[h ok] s1] eqn:Eh.
  destruct (negb (compatible o h)); [discriminate|].
  destruct ok; cbn [negb]; [|discriminate].
  apply read_header_inv in Eh; [|reflexivity]. cbn [s_bytes s_avail] in Eh.
  destruct Eh as [H48 [Hb1 _]].
  destruct (chunk_loop _ o h init_rst false s1) as [[st eof]|r0 st|w] eqn:EL; [|discriminate|discriminate].
  assert (Hok : bytes_ok (firstn n (H ++ B ++ E))) by (apply bytes_ok_firstn; apply Hs).
  assert (Hok1 : bytes_ok (s_bytes s1)) by (rewrite Hb1; apply bytes_ok_skipn; exact Hok).
  apply chunk_loop_framed in EL; [|exact Hok1]. destruct EL as [F _].
  (* the prefix is at least the 48 header bytes; what follows is a strict prefix of B ++ E *)
  assert (Hn48 : (48 <= n)%nat).
  { assert (len (firstn n (H ++ B ++ E)) <= Z.of_nat n) by (unfold len; rewrite firstn_length; lia). lia. }
  rewrite Hb1 in F. rewrite firstn_app in F. rewrite HH in F.
  rewrite (firstn_all2 H) in F by lia.
  rewrite skipn_exact in F by exact HH.
  assert (Hlt : (n - 48 < length (B ++ E))%nat) by (rewrite app_length in Hn; lia).
  pose proof (framed_prefix_noeof B HB ChunkType_EndOfFile [] (n - 48)%nat eof eof_payload_ok Hlt F) as Q.
  subst eof. cbn [negb]. discriminate.
Qed.

(* ================================================================================================ C18: framing *)

Definition wf_chunk (b : list byte) : Prop :=
  16 <= len b /\ 16 <= chunk_len b /\ chunk_len b <= len b /\ chunk_clean b = true.

(* complete, clean chunks, none of them an EOF chunk, followed by exactly one EOF chunk, and nothing after it *)
Inductive chunk_file : list byte -> Prop :=
| cf_last b : wf_chunk b -> chunk_len b = len b -> is_eof_chunk b = true -> chunk_file b
| cf_more b : wf_chunk b -> is_eof_chunk b = false -> chunk_file (skipn (Z.to_nat (chunk_len b)) b) -> chunk_file b.

Lemma framed_chunk_file b e e' : framed b e e' -> e = false -> e' = true -> chunk_file b.
Proof.
  induction 1 as [e|b e e' H1 H2 H3 Hrest IH He Hc]; intros E1 E2.
  - subst. discriminate.
  - subst e. cbn [orb] in *.
    destruct (is_eof_chunk b) eqn:Q.
    + (* nothing may follow the EOF chunk *)
      inversion Hrest as [e0 Hnil|b0 e0 e1 _ _ _ _ Hfalse _]; subst.
      * apply cf_last; [repeat split; assumption| |exact Q].
        assert (L : len (skipn (Z.to_nat (chunk_len b)) b) = 0) by (rewrite <- Hnil; reflexivity).
        rewrite len_skipn in L. rewrite Z2Nat.id in L by lia. lia.
      * discriminate.
    + apply cf_more; [repeat split; assumption|exact Q|]. apply IH; [reflexivity|exact E2].
Qed.

Lemma read_file_header_ok d h : read_file_header d = (h, true) ->
  firstn 8 d = ovmb_magic /\ nth 9 d 0 = 1 /\ is_valid_TopoType (nth 11 d 0) = true /\
  forallb (fun c => c =? 0) (firstn 4 (skipn 12 d)) = true /\
  h_hv h = 1 /\ h_dim h = nth 10 d 0 /\ h_topo h = nth 11 d 0.
Proof.
  unfold read_file_header.
  destruct (list_eqb (firstn 8 d) ovmb_magic) eqn:E1; cbn [negb]; [|intros H; inversion H].
  destruct (nth 9 d 0 =? 1) eqn:E2; cbn [negb]; [|intros H; inversion H].
  destruct (is_valid_TopoType (nth 11 d 0)) eqn:E3; cbn [negb]; [|intros H; inversion H].
  destruct (forallb (fun c => c =? 0) (firstn 4 (skipn 12 d))) eqn:E4; cbn [negb]; [|intros H; inversion H].
  intros H. inversion H; subst; clear H. cbn [h_hv h_dim h_topo].
  apply list_eqb_eq in E1. apply Z.eqb_eq in E2. repeat split; try assumption; reflexivity.
Qed.

(* the 48 header bytes of the stream as the reader sees them *)
Lemma read_header_decoder s h s1 : read_header s = (h, true, s1) ->
  read_file_header (firstn 48 (s_bytes s)) = (h, true).
Proof.
  unfold read_header. destruct (make_decoder ovmb_size_FileHeader s) as [[d s']|r st|w] eqn:E; [|intros H; inversion H|intros H; inversion H].
  destruct (read_file_header d) as [h0 ok0] eqn:E2. intros H. inversion H; subst.
  apply make_decoder_inv in E; [|unfold ovmb_size_FileHeader; lia]. destruct E as [Hb [Hd _]].
  rewrite Hb. rewrite firstn_exact by (unfold ovmb_size_FileHeader, len in Hd; lia). exact E2.
Qed.

(* C18_framing, file level: a file that reads Ok has the magic, header version 1, zero reserved bytes, a valid topology type,
   the vertex dimension of the mesh, and after the header a sequence of complete chunks with zero compression field and zero
   padding bytes, of which exactly the last one is the EOF chunk *)
Theorem ok_implies_framing o bytes m :
  bytes_ok bytes -> decode_impl o bytes = ROk m ->
  48 <= len bytes /\ firstn 8 bytes = ovmb_magic /\ nth 9 bytes 0 = 1 /\
  forallb (fun c => c =? 0) (firstn 4 (skipn 12 bytes)) = true /\
  is_valid_TopoType (nth 11 bytes 0) = true /\ nth 10 bytes 0 = o_dim o /\
  chunk_file (skipn 48 bytes).
Proof.
  intros Hok. unfold decode_impl, decode_stream.
  destruct (read_header _) as [[h ok] s1] eqn:Eh.
  destruct (compatible o h) eqn:Ec; cbn [negb]; [|discriminate].
  destruct ok; cbn [negb]; [|discriminate].
  pose proof (read_header_decoder _ _ _ Eh) as Hd. cbn [s_bytes] in Hd.
  apply read_header_inv in Eh; [|reflexivity]. cbn [s_bytes s_avail] in Eh. destruct Eh as [H48 [Hb1 _]].
  destruct (chunk_loop _ o h init_rst false s1) as [[st eof]|r0 st|w] eqn:EL; [|discriminate|discriminate].
  destruct eof; cbn [negb]; [|discriminate].
  intros _.
  assert (Hok1 : bytes_ok (s_bytes s1)) by (rewrite Hb1; apply bytes_ok_skipn; exact Hok).
  apply chunk_loop_framed in EL; [|exact Hok1]. destruct EL as [F _]. rewrite Hb1 in F.
  apply read_file_header_ok in Hd. destruct Hd as [D1 [D2 [D3 [D4 [D5 [D6 D7]]]]]].
  assert (N : forall i, (i < 48)%nat -> nth i (firstn 48 bytes) 0 = nth i bytes 0).
  { intros i Hi. rewrite <- (firstn_skipn 48 bytes) at 2. rewrite app_nth1; [reflexivity|]. rewrite firstn_length. unfold len in H48. lia. }
  rewrite !N in * by lia.
  assert (F8 : firstn 8 (firstn 48 bytes) = firstn 8 bytes) by (rewrite firstn_firstn; reflexivity).
  assert (F4 : firstn 4 (skipn 12 (firstn 48 bytes)) = firstn 4 (skipn 12 bytes)).
  { rewrite <- (firstn_skipn 48 bytes) at 2. symmetry. apply field_of_prefix. rewrite firstn_length. unfold len in H48. lia. }
  rewrite F8 in D1. rewrite F4 in D4.
  unfold compatible in Ec. apply andb_true_iff in Ec. destruct Ec as [Ec _]. apply andb_true_iff in Ec. destruct Ec as [Ec _].
  apply andb_true_iff in Ec. destruct Ec as [_ Ec]. apply Z.eqb_eq in Ec. rewrite D6 in Ec.
  repeat split; try assumption.
  apply (framed_chunk_file _ _ _ F); reflexivity.
Qed.

(* C18_framing, span level (validate_span): a span is accepted only if it resumes where the previous one ended and stays
   within the total *)
Lemma validate_span_ok total read first count :
  0 <= read <= total -> total < two64 ->
  validate_span total read first count = Ret tt -> first = read /\ count <= total - read.
Proof.
  intros Hr Ht. unfold validate_span.
  destruct (first =? read) eqn:E1; cbn [negb]; [|discriminate]. apply Z.eqb_eq in E1.
  unfold wrap64. rewrite Z.mod_small by lia.
  destruct (total - read <? count) eqn:E2; [discriminate|]. apply Z.ltb_ge in E2. auto.
Qed.

(* C18_framing, handle level: a contained handle (+ handle_offset, uint64 wrap) is accepted only below the limit *)
Lemma mk_handle_ok off lim x v : mk_handle off lim x = Ret v ->
  wrap64 (x + off) < lim /\ v = from_unsigned (wrap64 (x + off)).
Proof.
  unfold mk_handle. destruct (lim <=? wrap64 (x + off)) eqn:E; [discriminate|]. apply Z.leb_gt in E.
  intros H. inversion H. auto.
Qed.

(* ================================================================================================ C18: write side *)

(* ovmb_write on a stream that accepts only k bytes, or on a mesh with pending deletions, never reports Ok *)
Lemma write_failure_reported pending dim topo m k :
  pending = true \/ k < len (encode dim topo m) -> fst (write_result pending dim topo m k) <> WOk.
Proof.
  unfold write_result. intros [->|H]; [simpl; discriminate|].
  destruct pending; [simpl; discriminate|].
  apply Z.ltb_lt in H. rewrite H. simpl. discriminate.
Qed.

Lemma write_complete dim topo m k :
  len (encode dim topo m) <= k -> write_result false dim topo m k = (WOk, encode dim topo m).
Proof. unfold write_result. intros H. apply Z.ltb_ge in H. rewrite H. reflexivity. Qed.

(* ================================================================================================ examples *)

Definition bytes_okb (l : list byte) : bool := forallb (fun b => (0 <=? b) && (b <? 256)) l.
Lemma bytes_okb_ok l : bytes_okb l = true -> bytes_ok l.
Proof.
  unfold bytes_okb, bytes_ok. intros H. apply Forall_forall. intros x Hx.
  rewrite forallb_forall in H. specialize (H x Hx). apply andb_true_iff in H. destruct H as [A B].
  apply Z.leb_le in A. apply Z.ltb_lt in B. unfold byte_ok. lia.
Qed.
Definition smallb (l : list byte) : bool := bytes_okb l && (len l <? 4611686018427387904).
Lemma smallb_small l : smallb l = true -> small l.
Proof. unfold smallb, small. intros H. apply andb_true_iff in H. destruct H as [A B]. split; [apply bytes_okb_ok; exact A|apply Z.ltb_lt; exact B]. Qed.

(* one tetrahedron with a position, an int vertex property, a bool halfedge property and a string mesh property *)
Definition ex_tet : meshfile :=
  {| m_nv := 4;
     m_pos := [[4607182418800017408; 4611686018427387904; 4613937818241073152]; [0; 0; 0]; [0; 9223372036854775808; 0]; [9221120237041090561; 0; 1]];
     m_edges := [(0, 1); (1, 2); (2, 0); (0, 3); (1, 3); (2, 3)];
     m_faces := [[0; 2; 4]; [0; 8; 7]; [2; 10; 9]; [4; 6; 11]];
     m_cells := [[1; 2; 4; 6]];
     m_props := [ {| p_ent := 0; p_name := [97]; p_tname := bytes_of_string "i32"; p_def := [7; 0; 0; 0];
                     p_vals := [[1; 0; 0; 0]; [2; 0; 0; 0]; [7; 0; 0; 0]; [255; 255; 255; 255]] |};
                  {| p_ent := 4; p_name := [98; 98]; p_tname := bytes_of_string "b"; p_def := [0];
                     p_vals := [[1]; [0]; [1]; [1]; [0]; [0]; [0]; [0]; [0]; [1]; [0]; [1]] |};
                  {| p_ent := 6; p_name := [109]; p_tname := bytes_of_string "s32"; p_def := [];
                     p_vals := [[104; 101; 108; 108; 111]] |} ] |}.

Definition ex_opts : opts := {| o_mesh := MPoly; o_check := true; o_bu := true; o_dim := 3 |}.

Example ex_tet_wf : wf_file 3 ex_tet.
Proof. vm_compute. reflexivity. Qed.
Example ex_tet_small : small (encode 3 1 ex_tet).
Proof. apply smallb_small. vm_compute. reflexivity. Qed.
Example ex_tet_roundtrip : decode_impl ex_opts (encode 3 1 ex_tet) = ROk ex_tet.
Proof. vm_compute. reflexivity. Qed.
Example ex_tet_spec : decode_spec 3 (encode 3 1 ex_tet) = Some ex_tet.
Proof. vm_compute. reflexivity. Qed.
Example ex_tet_tetmesh : decode_impl {| o_mesh := MTet; o_check := true; o_bu := false; o_dim := 3 |} (encode 3 1 ex_tet) = ROk ex_tet.
Proof. vm_compute. reflexivity. Qed.

(* ================================================================================================ C07: no undefined behaviour *)

(* automation for the parts of the reader that cannot reach an unchecked access at all *)
Ltac nub_step :=
  match goal with
  | |- no_ub (Ret _) => apply no_ub_ret
  | |- no_ub (Fail _ _) => apply no_ub_fail
  | |- no_ub parse_error => apply no_ub_fail
  | |- no_ub std_exception => apply no_ub_fail
  | |- no_ub (state_error _) => apply no_ub_fail
  | |- no_ub (need _ _) => apply need_no_ub
  | |- no_ub (rd _ _) => apply rd_no_ub
  | |- no_ub (rd_u8 _) => apply rd_no_ub
  | |- no_ub (rd_u16 _) => apply rd_no_ub
  | |- no_ub (rd_u32 _) => apply rd_no_ub
  | |- no_ub (rd_u64 _) => apply rd_no_ub
  | |- no_ub (rd_int _ _) => apply rd_no_ub
  | |- no_ub (rd_bytes _ _) => apply rd_bytes_no_ub
  | |- no_ub (rd_enum8 _ _) => apply rd_enum8_no_ub
  | |- no_ub (rd_vec32 _) => apply rd_vec32_no_ub
  | |- no_ub (rd_reserved _ _) => apply rd_reserved_no_ub
  | |- no_ub (rd_span _) => apply rd_span_no_ub
  | |- no_ub (make_decoder _ _) => apply make_decoder_no_ub
  | |- no_ub (bind _ _) => apply no_ub_bind; [|intros ? ?]
  | |- no_ub (if ?c then _ else _) => destruct c
  | |- no_ub (match ?x with _ => _ end) => destruct x
  end.
Ltac nub := repeat nub_step.

Lemma validate_span_no_ub a b c d : no_ub (validate_span a b c d).
Proof. unfold validate_span. nub. Qed.

Lemma rd_coords_no_ub n : forall enc d, no_ub (rd_coords n enc d).
Proof. induction n; intros; simpl; nub. apply IHn. Qed.

Lemma rd_positions_no_ub fuel : forall count dim enc d, no_ub (rd_positions fuel count dim enc d).
Proof.
  induction fuel; intros; simpl; nub; try apply rd_coords_no_ub; try apply IHfuel.
Qed.

Lemma read_vertices_chunk_no_ub o h st d : no_ub (read_vertices_chunk o h st d).
Proof.
  unfold read_vertices_chunk. nub; try apply validate_span_no_ub; try apply rd_positions_no_ub.
Qed.

Lemma decode_one_no_ub ty d : no_ub (decode_one ty d).
Proof. unfold decode_one. destruct ty; nub. Qed.

Lemma decode_n_simple_no_ub fuel : forall ty i cnt d acc, no_ub (decode_n_simple fuel ty i cnt d acc).
Proof. induction fuel; intros; simpl; nub; try (destruct ty; nub); try apply IHfuel. Qed.

Lemma decode_n_bool_no_ub fuel : forall i cnt d acc, no_ub (decode_n_bool fuel i cnt d acc).
Proof. induction fuel; intros; simpl; nub; try apply IHfuel. Qed.

Lemma rd_ints_no_ub n : forall enc mk d, (forall v, no_ub (mk v)) -> no_ub (rd_ints n enc mk d).
Proof. induction n; intros enc mk d Hmk; simpl; nub; try apply Hmk. apply IHn. exact Hmk. Qed.

Lemma read_n_ints_no_ub enc count mk d : (forall v, no_ub (mk v)) -> no_ub (read_n_ints enc count mk d).
Proof. intros Hmk. unfold read_n_ints. nub. apply rd_ints_no_ub. exact Hmk. Qed.

Lemma mk_handle_no_ub off lim x : no_ub (mk_handle off lim x).
Proof. unfold mk_handle. nub. Qed.

Lemma rd_edges_no_ub fuel : forall count enc off nvr d, no_ub (rd_edges fuel count enc off nvr d).
Proof. induction fuel; intros; simpl; nub; try apply IHfuel. Qed.

(* a handle whose C quotient h/2 indexes a container of n elements (h = -1, the invalid handle, lands on index 0) *)
Definition hok (n : Z) (h : Z) : Prop := -1 <= h < 2 * n /\ 0 < n.

Lemma nth_z_hok {A} (l : list A) h : hok (len l) h -> exists x, nth_z l (Z.quot h 2) = Some x.
Proof.
  intros [[H1 H2] H3]. unfold nth_z.
  assert (Q : 0 <= Z.quot h 2 < len l).
  { destruct (Z.eq_dec h (-1)) as [->|Hn]; [change (Z.quot (-1) 2) with 0; lia|].
    rewrite Z.quot_div_nonneg by lia. split; [apply Z.div_pos; lia|apply Z.div_lt_upper_bound; lia]. }
  destruct (Z.quot h 2 <? 0) eqn:E; [apply Z.ltb_lt in E; lia|].
  destruct (nth_error l (Z.to_nat (Z.quot h 2))) eqn:E2; [eauto|].
  apply nth_error_None in E2. unfold len in Q. lia.
Qed.

Lemma he_verts_no_ub edges h : hok (len edges) h -> no_ub (he_verts edges h).
Proof. intros H. unfold he_verts. destruct (nth_z_hok edges h H) as [[a b] ->]. nub. Qed.

Lemma hf_halfedges_no_ub faces h : hok (len faces) h -> no_ub (hf_halfedges faces h).
Proof. intros H. unfold hf_halfedges. destruct (nth_z_hok faces h H) as [x ->]. nub. Qed.

Lemma face_valence_no_ub faces h : hok (len faces) h -> no_ub (face_valence faces h).
Proof. intros H. unfold face_valence. destruct (nth_z_hok faces h H) as [x ->]. nub. Qed.

Lemma chain_ok_no_ub edges first hes : hok (len edges) first -> Forall (hok (len edges)) hes -> no_ub (chain_ok edges first hes).
Proof.
  intros Hf. induction hes as [|h t IH]; intros Hall; [simpl; nub|].
  inversion Hall as [|? ? Hh Ht]; subst.
  destruct t as [|h2 t2].
  - cbn [chain_ok]. nub; apply he_verts_no_ub; assumption.
  - cbn [chain_ok]. inversion Ht; subst.
    apply no_ub_bind; [apply he_verts_no_ub; assumption|]. intros a _.
    apply no_ub_bind; [apply he_verts_no_ub; assumption|]. intros b _.
    destruct (snd a =? fst b); [apply IH; assumption|nub].
Qed.

Lemma base_add_face_no_ub edges hes check : Forall (hok (len edges)) hes -> no_ub (base_add_face edges hes check).
Proof.
  intros H. unfold base_add_face. destruct check; [|nub]. destruct hes as [|h0 t]; [nub|].
  apply no_ub_bind; [|intros; nub]. apply chain_ok_no_ub; [inversion H; assumption|exact H].
Qed.

Lemma mesh_add_face_no_ub o edges hes : Forall (hok (len edges)) hes -> no_ub (mesh_add_face o edges hes).
Proof. intros H. unfold mesh_add_face. destruct (o_mesh o); nub; apply base_add_face_no_ub; exact H. Qed.

Lemma collect_halfedges_no_ub faces hfs : Forall (hok (len faces)) hfs -> no_ub (collect_halfedges faces hfs).
Proof.
  induction 1 as [|h t Hh Ht IH]; simpl; [nub|].
  apply no_ub_bind; [apply hf_halfedges_no_ub; exact Hh|]. intros a _.
  apply no_ub_bind; [exact IH|]. intros; nub.
Qed.

Lemma base_add_cell_no_ub faces hfs check : Forall (hok (len faces)) hfs -> no_ub (base_add_cell faces hfs check).
Proof.
  intros H. unfold base_add_cell. destruct check; [|nub]. destruct hfs as [|h0 t]; [nub|].
  apply no_ub_bind; [apply face_valence_no_ub; inversion H; assumption|]. intros _ _.
  apply no_ub_bind; [apply collect_halfedges_no_ub; exact H|]. intros; nub.
Qed.

Lemma all_valence_no_ub faces hfs v : Forall (hok (len faces)) hfs -> no_ub (all_valence faces hfs v).
Proof.
  induction 1 as [|h t Hh Ht IH]; simpl; [nub|].
  apply no_ub_bind; [apply face_valence_no_ub; exact Hh|]. intros n _. destruct (n =? v); [exact IH|nub].
Qed.

Lemma get_adjacent_no_ub faces hfh heh hfs : Forall (hok (len faces)) hfs -> no_ub (get_adjacent_halfface faces hfh heh hfs).
Proof.
  induction 1 as [|h t Hh Ht IH]; simpl; [nub|].
  destruct (h =? hfh); [exact IH|].
  apply no_ub_bind; [apply hf_halfedges_no_ub; exact Hh|]. intros hes _.
  destruct (existsb _ hes); [nub|exact IH].
Qed.

Lemma get_adjacent_result faces hfh heh hfs a : get_adjacent_halfface faces hfh heh hfs = Ret a -> a = -1 \/ In a hfs.
Proof.
  induction hfs as [|h t IH]; simpl; intros H.
  - inversion H. left; reflexivity.
  - destruct (h =? hfh).
    + destruct (IH H); [left|right; right]; assumption.
    + inv_bind H. destruct (existsb _ a0).
      * inversion H. right; left; reflexivity.
      * destruct (IH H); [left|right; right]; assumption.
Qed.

Lemma hok_minus1 n h : hok n h -> hok n (-1).
Proof. unfold hok. lia. Qed.

Lemma hok_nthd n l i : Forall (hok n) l -> l <> [] -> hok n (nthd l i).
Proof.
  intros H Hne. unfold nthd.
  destruct (nth_in_or_default i l (-1)) as [Hin | Hd]; [|rewrite Hd].
  - rewrite Forall_forall in H. apply H. exact Hin.
  - destruct l as [|x t]; [congruence|]. inversion H; subst. eapply hok_minus1; eassumption.
Qed.

Lemma order_side_no_ub faces hfs top first4 order hes : Forall (hok (len faces)) hfs ->
  forall offset, no_ub (order_side faces hfs top first4 order hes offset).
Proof.
  intros H. induction hes as [|he t IH]; intros offset; simpl; [nub|].
  apply no_ub_bind; [apply get_adjacent_no_ub; exact H|]. intros a _.
  destruct (offset =? -1); [apply IH|].
  match goal with |- no_ub (if ?c then _ else _) => destruct c end; [apply IH|nub].
Qed.

Lemma check_halfface_ordering_no_ub edges faces hfs : Forall (hok (len faces)) hfs -> hfs <> [] ->
  no_ub (check_halfface_ordering edges faces hfs).
Proof.
  intros H Hne. unfold check_halfface_ordering.
  apply no_ub_bind; [apply hf_halfedges_no_ub; apply hok_nthd; assumption|]. intros ht _.
  apply no_ub_bind; [apply hf_halfedges_no_ub; apply hok_nthd; assumption|]. intros hb _.
  apply no_ub_bind; [apply order_side_no_ub; exact H|]. intros a _.
  destruct a as [o1|]; [|nub]. destruct (o1 =? -1); [nub|].
  apply no_ub_bind; [apply order_side_no_ub; exact H|]. intros b _. destruct b as [o2|]; [|nub]. destruct (o2 =? -1); nub.
Qed.

Lemma cell_from_vertices_no_ub edges faces hfs : Forall (hok (len faces)) hfs -> no_ub (cell_from_vertices edges faces hfs).
Proof.
  induction 1 as [|h t Hh Ht IH]; simpl; [nub|].
  apply no_ub_bind; [apply hf_halfedges_no_ub; exact Hh|]. intros a _.
  apply no_ub_bind; [exact IH|]. intros b _. nub.
Qed.

Lemma cell_triples_no_ub edges faces hfs : Forall (hok (len faces)) hfs -> no_ub (cell_triples edges faces hfs).
Proof.
  induction 1 as [|h t Hh Ht IH]; simpl; [nub|].
  apply no_ub_bind; [apply hf_halfedges_no_ub; exact Hh|]. intros a _.
  apply no_ub_bind; [exact IH|]. intros b _. nub.
Qed.

Lemma upd_nth_forall (P : Z -> Prop) i x l : P x -> Forall P l -> Forall P (upd_nth i x l).
Proof.
  intros Hx. revert i. induction l as [|h t IH]; intros i Hl; destruct i; simpl; try constructor; inversion Hl; subst; auto.
Qed.

Lemma reorder_top_spec faces hfs top : Forall (hok (len faces)) hfs ->
  forall hes idx acc, Forall (hok (len faces)) acc ->
  no_ub (reorder_top faces hfs top hes idx acc) /\
  (forall r, reorder_top faces hfs top hes idx acc = Ret r -> Forall (hok (len faces)) r).
Proof.
  intros H. induction hes as [|he t IH]; intros idx acc Hacc; simpl.
  - split; [nub|]. intros r Hr. inversion Hr; subst. exact Hacc.
  - split.
    + apply no_ub_bind; [apply get_adjacent_no_ub; exact H|]. intros a Ha.
      destruct (a =? -1) eqn:E; [apply IH; exact Hacc|].
      apply IH. apply upd_nth_forall; [|exact Hacc].
      apply get_adjacent_result in Ha. destruct Ha as [->|Hin]; [discriminate|]. rewrite Forall_forall in H. apply H; exact Hin.
    + intros r Hr. inv_bind Hr.
      destruct (a =? -1) eqn:E; [apply (proj2 (IH idx acc Hacc)); exact Hr|].
      refine (proj2 (IH _ _ _) r Hr). apply upd_nth_forall; [|exact Hacc].
      apply get_adjacent_result in Ha. destruct Ha as [->|Hin]; [discriminate|]. rewrite Forall_forall in H. apply H; exact Hin.
Qed.

Lemma get_adjacent_hok faces hfh heh hfs a : Forall (hok (len faces)) hfs -> hfs <> [] ->
  get_adjacent_halfface faces hfh heh hfs = Ret a -> hok (len faces) a.
Proof.
  intros H Hne Ha. apply get_adjacent_result in Ha. destruct Ha as [->|Hin].
  - destruct hfs as [|x t]; [congruence|]. inversion H; subst. eapply hok_minus1; eassumption.
  - rewrite Forall_forall in H. apply H; exact Hin.
Qed.

Lemma next_halfedge_no_ub faces heh hfh : hok (len faces) hfh -> no_ub (next_halfedge_in_halfface faces heh hfh).
Proof. intros H. unfold next_halfedge_in_halfface. apply no_ub_bind; [apply hf_halfedges_no_ub; exact H|]. intros; nub. Qed.

Lemma hex_reorder_spec faces hfs : Forall (hok (len faces)) hfs -> hfs <> [] ->
  (forall hes, hf_halfedges faces (nthd hfs 0) = Ret hes -> hes <> []) ->
  no_ub (hex_reorder faces hfs) /\ (forall r, hex_reorder faces hfs = Ret (Some r) -> Forall (hok (len faces)) r).
Proof.
  intros H Hne Htop. unfold hex_reorder.
  assert (Ht : hok (len faces) (nthd hfs 0)) by (apply hok_nthd; assumption).
  assert (Hacc0 : Forall (hok (len faces)) [nthd hfs 0; -1; -1; -1; -1; -1]).
  { pose proof (hok_minus1 _ _ Ht). repeat (first [apply Forall_nil | apply Forall_cons; [assumption|]]). }
  split.
  - apply no_ub_bind; [apply hf_halfedges_no_ub; exact Ht|]. intros hes Hhes.
    apply no_ub_bind; [apply (proj1 (reorder_top_spec faces hfs (nthd hfs 0) H hes 0%nat _ Hacc0))|]. intros acc Hacc.
    destruct hes as [|he0 t]; [exfalso; apply (Htop [] Hhes); reflexivity|].
    apply no_ub_bind; [apply get_adjacent_no_ub; exact H|]. intros hf1 Hhf1.
    pose proof (get_adjacent_hok _ _ _ _ _ H Hne Hhf1) as Hk1.
    apply no_ub_bind; [apply next_halfedge_no_ub; exact Hk1|]. intros he2 _.
    apply no_ub_bind; [apply next_halfedge_no_ub; exact Hk1|]. intros he3 _.
    apply no_ub_bind; [apply get_adjacent_no_ub; exact H|]. intros hf2 _. nub.
  - intros r Hr. inv_bind Hr. rename a into hes. inv_bind Hr. rename a into acc.
    pose proof (proj2 (reorder_top_spec faces hfs (nthd hfs 0) H hes 0%nat _ Hacc0) acc Ha0) as Hacc.
    destruct hes as [|he0 t]; [discriminate|].
    inv_bind Hr. rename a into hf1. inv_bind Hr. inv_bind Hr. inv_bind Hr. rename a1 into hf2.
    destruct (hf2 =? -1); [discriminate|].
    assert (Er : r = upd_nth 1 hf2 acc) by (inversion Hr; reflexivity). rewrite Er.
    apply upd_nth_forall; [|exact Hacc].
    match goal with HH : get_adjacent_halfface faces _ _ hfs = Ret hf2 |- _ => exact (get_adjacent_hok _ _ _ _ _ H Hne HH) end.
Qed.

Lemma upd_nth_nonempty i x l : l <> [] -> upd_nth i x l <> [].
Proof. destruct l as [|h t]; [congruence|]. intros _. destruct i; simpl; discriminate. Qed.

Lemma reorder_top_nonempty faces hfs top : forall hes idx acc r,
  acc <> [] -> reorder_top faces hfs top hes idx acc = Ret r -> r <> [].
Proof.
  induction hes as [|he t IH]; intros idx acc r Hacc H; simpl in H.
  - inversion H; subst. exact Hacc.
  - inv_bind H. destruct (a =? -1); [eapply IH; eassumption|].
    eapply IH; [|exact H]. apply upd_nth_nonempty. exact Hacc.
Qed.

Lemma hex_reorder_nonempty faces hfs r : hex_reorder faces hfs = Ret (Some r) -> r <> [].
Proof.
  unfold hex_reorder. intros H. inv_bind H. rename a into hes. inv_bind H. rename a into acc.
  assert (Hacc : acc <> []) by (eapply reorder_top_nonempty; [|eassumption]; discriminate).
  destruct hes as [|he0 t]; [discriminate|].
  inv_bind H. inv_bind H. inv_bind H. inv_bind H.
  match type of H with (if ?c then _ else _) = _ => destruct c; [discriminate|] end.
  assert (Er : r = upd_nth 1 a2 acc) by (inversion H; reflexivity). rewrite Er. apply upd_nth_nonempty. exact Hacc.
Qed.

Lemma hf_halfedges_valence faces h hes : hf_halfedges faces h = Ret hes -> face_valence faces h = Ret (len hes).
Proof.
  unfold hf_halfedges, face_valence. destruct (nth_z faces (Z.quot h 2)); [|discriminate].
  destruct (Z.even h); intros H; inversion H; subst; [reflexivity|].
  unfold len. rewrite rev_length, map_length. reflexivity.
Qed.

Lemma all_valence_true faces hfs v : all_valence faces hfs v = Ret true -> forall h, In h hfs -> face_valence faces h = Ret v.
Proof.
  induction hfs as [|x t IH]; simpl; intros H h Hin; [contradiction|].
  inv_bind H. destruct (a =? v) eqn:E; [|discriminate]. apply Z.eqb_eq in E. subst a.
  destruct Hin as [->|Hin]; [exact Ha|apply IH; assumption].
Qed.

Lemma mesh_add_cell_no_ub o edges faces hfs : Forall (hok (len faces)) hfs -> no_ub (mesh_add_cell o edges faces hfs).
Proof.
  intros H. unfold mesh_add_cell. destruct (o_mesh o).
  - apply base_add_cell_no_ub; exact H.
  - destruct (len hfs =? 4); [|nub]. apply no_ub_bind; [apply all_valence_no_ub; exact H|]. intros ok _.
    destruct ok; cbn [negb]; [|nub]. destruct (o_check o); cbn [negb]; [|apply base_add_cell_no_ub; exact H].
    apply no_ub_bind; [apply cell_from_vertices_no_ub; exact H|]. intros vs _.
    destruct (negb (count_distinct vs =? 4)); [nub|].
    apply no_ub_bind; [apply cell_triples_no_ub; exact H|]. intros ts _.
    destruct (negb (count_distinct_sets ts =? 4)); [nub|]. apply base_add_cell_no_ub; exact H.
  - destruct (len hfs =? 6) eqn:E6; [|nub]. apply Z.eqb_eq in E6.
    assert (Hne : hfs <> []) by (intros ->; rewrite len_nil in E6; lia).
    apply no_ub_bind; [apply all_valence_no_ub; exact H|]. intros ok Hok.
    destruct ok; cbn [negb]; [|nub].
    destruct (o_check o); cbn [negb]; [|apply base_add_cell_no_ub; exact H].
    apply no_ub_bind; [apply cell_from_vertices_no_ub; exact H|]. intros vs _.
    destruct (negb (count_distinct vs =? 8)); [nub|].
    apply no_ub_bind; [apply check_halfface_ordering_no_ub; assumption|]. intros ord _.
    destruct ord; [apply base_add_cell_no_ub; exact H|].
    assert (Htop : forall hes, hf_halfedges faces (nthd hfs 0) = Ret hes -> hes <> []).
    { intros hes Hhes. apply hf_halfedges_valence in Hhes.
      assert (Hin : In (nthd hfs 0) hfs). { destruct hfs as [|x t]; [congruence|]. left; reflexivity. }
      rewrite (all_valence_true _ _ _ Hok _ Hin) in Hhes. inversion Hhes as [E]. intros ->. rewrite len_nil in E. lia. }
    destruct (hex_reorder_spec faces hfs H Hne Htop) as [N1 N2].
    apply no_ub_bind; [exact N1|]. intros r Hr. destruct r as [hfs'|]; [|nub].
    destruct (existsb (fun x => x <? 0) hfs'); [nub|].
    apply no_ub_bind; [apply check_halfface_ordering_no_ub; [apply N2; exact Hr|eapply hex_reorder_nonempty; exact Hr]|].
    intros ord2 _. destruct ord2; [|nub]. apply base_add_cell_no_ub. apply N2. exact Hr.
Qed.

(* ---- inversion automation for successful runs *)
Ltac crunch H :=
  repeat first
    [ discriminate H
    | match type of H with
      | bind _ _ = Ret _ => let a := fresh "a" in let Ha := fresh "Ha" in apply bind_ret_inv in H; destruct H as [a [Ha H]]
      | (if ?c then _ else _) = Ret _ => let E := fresh "E" in destruct c eqn:E
      | (match ?x with _ => _ end) = Ret _ => let E := fresh "E" in destruct x eqn:E
      | (let (_, _) := ?x in _) = Ret _ => destruct x
      end ].

Lemma rd_ints_forall (P : Z -> Prop) n : forall enc mk d l d',
  (forall v w, mk v = Ret w -> P w) -> rd_ints n enc mk d = Ret (l, d') -> Forall P l /\ length l = n.
Proof.
  induction n; intros enc mk d l d' Hmk H; simpl in H.
  - inversion H; subst. split; [constructor|reflexivity].
  - crunch H. inversion H; subst. destruct (IHn _ _ _ _ _ Hmk Ha1) as [I1 I2].
    split; [constructor; [eapply Hmk; eassumption|exact I1]|simpl; congruence].
Qed.

Lemma valid_enc_size enc : is_valid_IntEncoding enc = true -> enc <> IntEncoding_None -> elem_size_IntEncoding enc <> 0.
Proof.
  unfold is_valid_IntEncoding, elem_size_IntEncoding, IntEncoding_None. intros H Hn.
  destruct (enc =? 1) eqn:E1; [discriminate|]. destruct (enc =? 2) eqn:E2; [discriminate|].
  destruct (enc =? 4) eqn:E4; [discriminate|]. destruct (enc =? 0) eqn:E0; [apply Z.eqb_eq in E0; contradiction|]. discriminate.
Qed.

Lemma read_n_ints_forall (P : Z -> Prop) enc count mk d l d' :
  (forall v w, mk v = Ret w -> P w) -> read_n_ints enc count mk d = Ret (l, d') ->
  Forall P l /\ (elem_size_IntEncoding enc <> 0 -> count <= len l).
Proof.
  intros Hmk H. unfold read_n_ints in H. crunch H.
  - inversion H; subst. split; [constructor|]. intros Hs. apply Z.eqb_eq in E1. contradiction.
  - destruct (rd_ints_forall P _ _ _ _ _ _ Hmk H) as [I1 I2]. split; [exact I1|]. intros _. unfold len. lia.
Qed.

Lemma mk_handle_hok off n x w : mk_handle off (2 * n) x = Ret w -> hok n w.
Proof.
  intros H. apply mk_handle_ok in H. destruct H as [H1 ->].
  assert (0 <= wrap64 (x + off)) by (unfold wrap64; apply Z.mod_pos_bound; unfold two64; lia).
  unfold hok, from_unsigned. destruct (wrap64 (x + off) <=? int_max); lia.
Qed.

Lemma rd_edges_len fuel : forall count enc off nvr d l d', rd_edges fuel count enc off nvr d = Ret (l, d') -> count <= len l.
Proof.
  induction fuel; intros count enc off nvr d l d' H; simpl in H.
  - crunch H. inversion H; subst. apply Z.leb_le in E. rewrite len_nil. lia.
  - crunch H.
    + inversion H; subst. apply Z.leb_le in E. rewrite len_nil. lia.
    + inversion H; subst. apply IHfuel in Ha1. rewrite len_cons. lia.
Qed.

Lemma rd_items_fixed_spec (P : list Z -> Prop) fuel : forall count valence enc mk add acc d r d',
  (forall hs a, P hs -> no_ub (add hs a)) ->
  (forall v, no_ub (mk v)) ->
  (forall d1 hs d2, read_n_ints enc valence mk d1 = Ret (hs, d2) -> P hs) ->
  no_ub (rd_items_fixed fuel count valence enc mk add acc d) /\
  (rd_items_fixed fuel count valence enc mk add acc d = Ret (r, d') -> len acc + count <= len r).
Proof.
  induction fuel; intros count valence enc mk add acc d r d' Hadd Hmk HP; simpl.
  - split; [nub|]. intros H. crunch H. inversion H; subst. apply Z.leb_le in E. lia.
  - split.
    + destruct (count <=? 0); [nub|].
      apply no_ub_bind; [apply read_n_ints_no_ub; exact Hmk|]. intros [hs d1] Hx.
      apply no_ub_bind; [apply Hadd; eapply HP; exact Hx|]. intros res _.
      destruct res as [stored|]; [|nub].
      apply (IHfuel (count - 1) valence enc mk add (acc ++ [stored]) d1 r d' Hadd Hmk HP).
    + intros H. crunch H.
      * inversion H; subst. apply Z.leb_le in E. lia.
      * match type of H with rd_items_fixed _ _ _ _ _ _ ?acc' ?dd = _ =>
          destruct (IHfuel (count - 1) valence enc mk add acc' dd r d' Hadd Hmk HP) as [_ I] end.
        specialize (I H). rewrite len_app, len_cons, len_nil in I. lia.
Qed.

Lemma rd_items_var_spec (P : list Z -> Prop) vals : forall enc mk add acc d r d',
  (forall hs a, P hs -> no_ub (add hs a)) ->
  (forall v, no_ub (mk v)) ->
  (forall d1 v hs d2, read_n_ints enc v mk d1 = Ret (hs, d2) -> P hs) ->
  no_ub (rd_items_var vals enc mk add acc d) /\
  (rd_items_var vals enc mk add acc d = Ret (r, d') -> len acc + len vals <= len r).
Proof.
  induction vals as [|v t IH]; intros enc mk add acc d r d' Hadd Hmk HP; simpl.
  - split; [nub|]. intros H. inversion H; subst. rewrite len_nil. lia.
  - split.
    + apply no_ub_bind; [apply read_n_ints_no_ub; exact Hmk|]. intros [hs d1] Hx.
      apply no_ub_bind; [apply Hadd; eapply HP; exact Hx|]. intros res _.
      destruct res as [stored|]; [|nub].
      apply (IH enc mk add (acc ++ [stored]) d1 r d' Hadd Hmk HP).
    + intros H. crunch H.
      match type of H with rd_items_var _ _ _ _ ?acc' ?dd = _ =>
        destruct (IH enc mk add acc' dd r d' Hadd Hmk HP) as [_ I] end.
      specialize (I H). rewrite len_app, len_cons, len_nil in I. rewrite len_cons. lia.
Qed.

Definition inv_topo (st : rst) : Prop := r_ner st <= len (r_edges st) /\ r_nfr st <= len (r_faces st).

Lemma hok_handles_faces o st off : inv_topo st ->
  (forall hs a, Forall (hok (len (r_edges st))) hs -> no_ub ((fun hs (_ : list (list Z)) => mesh_add_face o (r_edges st) hs) hs a)) /\
  (forall enc v d1 hs d2, read_n_ints enc v (mk_handle off (2 * r_ner st)) d1 = Ret (hs, d2) -> Forall (hok (len (r_edges st))) hs).
Proof.
  intros [I1 I2]. split.
  - intros hs a H. apply mesh_add_face_no_ub. exact H.
  - intros enc v d1 hs d2 H.
    apply (read_n_ints_forall (hok (len (r_edges st)))) in H; [apply H|].
    intros x w Hw. apply mk_handle_hok in Hw. unfold hok in *. lia.
Qed.

Lemma hok_handles_cells o st off : inv_topo st ->
  (forall hs a, Forall (hok (len (r_faces st))) hs -> no_ub ((fun hs (_ : list (list Z)) => mesh_add_cell o (r_edges st) (r_faces st) hs) hs a)) /\
  (forall enc v d1 hs d2, read_n_ints enc v (mk_handle off (2 * r_nfr st)) d1 = Ret (hs, d2) -> Forall (hok (len (r_faces st))) hs).
Proof.
  intros [I1 I2]. split.
  - intros hs a H. apply mesh_add_cell_no_ub. exact H.
  - intros enc v d1 hs d2 H.
    apply (read_n_ints_forall (hok (len (r_faces st)))) in H; [apply H|].
    intros x w Hw. apply mk_handle_hok in Hw. unfold hok in *. lia.
Qed.

Lemma read_topo_chunk_no_ub o h st d : inv_topo st -> no_ub (read_topo_chunk o h st d).
Proof.
  intros Hinv. unfold read_topo_chunk.
  nub; try apply validate_span_no_ub; try apply rd_edges_no_ub;
    try (apply read_n_ints_no_ub; intros; nub).
  all: match goal with
  | Hi : inv_topo ?s |- no_ub (rd_items_var ?l ?enc (mk_handle ?off (2 * r_ner ?s)) _ [] ?d) =>
      destruct (hok_handles_faces o s off Hi) as [A B];
      apply (proj1 (rd_items_var_spec (Forall (hok (len (r_edges s)))) l enc _ _ [] d [] [] A (mk_handle_no_ub _ _) (fun d1 v hs d2 => B enc v d1 hs d2)))
  | Hi : inv_topo ?s |- no_ub (rd_items_fixed ?f ?c ?val ?enc (mk_handle ?off (2 * r_ner ?s)) _ [] ?d) =>
      destruct (hok_handles_faces o s off Hi) as [A B];
      apply (proj1 (rd_items_fixed_spec (Forall (hok (len (r_edges s)))) f c val enc _ _ [] d [] [] A (mk_handle_no_ub _ _) (fun d1 hs d2 => B enc val d1 hs d2)))
  | Hi : inv_topo ?s |- no_ub (rd_items_var ?l ?enc (mk_handle ?off (2 * r_nfr ?s)) _ [] ?d) =>
      destruct (hok_handles_cells o s off Hi) as [A B];
      apply (proj1 (rd_items_var_spec (Forall (hok (len (r_faces s)))) l enc _ _ [] d [] [] A (mk_handle_no_ub _ _) (fun d1 v hs d2 => B enc v d1 hs d2)))
  | Hi : inv_topo ?s |- no_ub (rd_items_fixed ?f ?c ?val ?enc (mk_handle ?off (2 * r_nfr ?s)) _ [] ?d) =>
      destruct (hok_handles_cells o s off Hi) as [A B];
      apply (proj1 (rd_items_fixed_spec (Forall (hok (len (r_faces s)))) f c val enc _ _ [] d [] [] A (mk_handle_no_ub _ _) (fun d1 hs d2 => B enc val d1 hs d2)))
  end.
Qed.

Lemma rd_items_fixed_len fuel : forall count valence enc mk add acc d r d',
  rd_items_fixed fuel count valence enc mk add acc d = Ret (r, d') -> len acc + count <= len r.
Proof.
  induction fuel; intros count valence enc mk add acc d r d' H; simpl in H; crunch H.
  - inversion H; subst. apply Z.leb_le in E. lia.
  - inversion H; subst. apply Z.leb_le in E. lia.
  - apply IHfuel in H. rewrite len_app, len_cons, len_nil in H. lia.
Qed.

Lemma rd_items_var_len vals : forall enc mk add acc d r d',
  rd_items_var vals enc mk add acc d = Ret (r, d') -> len acc + len vals <= len r.
Proof.
  induction vals as [|v t IH]; intros enc mk add acc d r d' H; simpl in H.
  - inversion H; subst. rewrite len_nil. lia.
  - crunch H. apply IH in H. rewrite len_app, len_cons, len_nil in H. rewrite len_cons. lia.
Qed.

Ltac crunch_any :=
  repeat match goal with
  | H : bind _ _ = Ret _ |- _ => let a := fresh "a" in let Ha := fresh "Ha" in apply bind_ret_inv in H; destruct H as [a [Ha H]]
  | H : (if ?c then _ else _) = Ret _ |- _ => let E := fresh "E" in destruct c eqn:E
  | H : (match ?x with _ => _ end) = Ret _ |- _ => let E := fresh "E" in destruct x eqn:E
  | H : state_error _ = Ret _ |- _ => discriminate H
  | H : parse_error = Ret _ |- _ => discriminate H
  | H : std_exception = Ret _ |- _ => discriminate H
  | H : Fail _ _ = Ret _ |- _ => discriminate H
  | H : Ub _ = Ret _ |- _ => discriminate H
  | H : Ret (_, _) = Ret _ |- _ => inversion H; subst; clear H
  end.

Lemma read_topo_chunk_inv o h st d st' d' :
  read_topo_chunk o h st d = Ret (st', d') -> inv_topo st ->
  inv_topo st' /\ r_stor st' = r_stor st /\ r_props st' = r_props st.
Proof.
  unfold read_topo_chunk. intros H [I1 I2].
  crunch_any; unfold inv_topo; cbn [add_edges add_faces add_cells r_ner r_nfr r_edges r_faces r_stor r_props];
    rewrite ?len_app.
  all: try match goal with HH : rd_edges _ _ _ _ _ _ = Ret _ |- _ => apply rd_edges_len in HH end.
  all: try match goal with HH : rd_items_fixed _ _ _ _ _ _ _ _ = Ret _ |- _ => apply rd_items_fixed_len in HH; rewrite len_nil in HH end.
  all: try match goal with HH : rd_items_var _ _ _ _ _ _ = Ret _ |- _ => apply rd_items_var_len in HH; rewrite len_nil in HH end.
  all: try match goal with HH : read_n_ints ?enc ?count (fun x => Ret x) _ = Ret _, HE : (?enc =? IntEncoding_None) = false, HV : rd_enum8 is_valid_IntEncoding _ = Ret (?enc, _) |- _ =>
         apply (read_n_ints_forall (fun _ => True)) in HH; [|intros; exact I]; destruct HH as [_ HH];
         apply rd_enum8_inv in HV; destruct HV as [_ HV]; apply Z.eqb_neq in HE; specialize (HH (valid_enc_size _ HV HE)) end.
  all: try (repeat split; try reflexivity; lia).
Qed.

(* ---- properties: every props_ entry with a decoder points at an existing storage *)
Definition entry_ok (n : nat) (e : option (Z * nat)) : Prop := match e with Some (_, i) => (i < n)%nat | None => True end.
Definition inv_props (st : rst) : Prop := Forall (entry_ok (length (r_stor st))) (r_props st).

Lemma entry_ok_mono n m e : (n <= m)%nat -> entry_ok n e -> entry_ok m e.
Proof. destruct e as [[? i]|]; simpl; intros; [lia|exact I]. Qed.

Lemma find_storage_lt l : forall i ent name tname j, find_storage i l ent name tname = Some j -> (j < i + length l)%nat.
Proof.
  induction l as [|s t IH]; intros i ent name tname j H; simpl in H; [discriminate|].
  destruct (storage_key_eqb ent name tname s).
  - inversion H; subst. simpl. lia.
  - apply IH in H. simpl. lia.
Qed.

Lemma read_propdir_entries_spec fuel : forall stor props d,
  (length d <= fuel)%nat -> Forall (entry_ok (length stor)) props ->
  no_ub (read_propdir_entries fuel stor props d) /\
  (forall stor' props', read_propdir_entries fuel stor props d = Ret (stor', props') -> Forall (entry_ok (length stor')) props').
Proof.
  induction fuel as [|f IH]; intros stor props d Hf Hp.
  - destruct d; [|simpl in Hf; lia]. simpl. split; [nub|]. intros s' p' H. inversion H; subst. exact Hp.
  - destruct d as [|b0 dt]; [simpl; split; [nub|]; intros s' p' H; inversion H; subst; exact Hp|].
    cbn [read_propdir_entries]. set (d := b0 :: dt) in *.
    (* the common part: after one entry the remaining decoder is strictly shorter *)
    assert (Step : forall ent d1 name d2 tname d3 sdef d4,
               rd_enum8 is_valid_PropertyEntity d = Ret (ent, d1) -> rd_vec32 d1 = Ret (name, d2) ->
               rd_vec32 d2 = Ret (tname, d3) -> rd_vec32 d3 = Ret (sdef, d4) -> (length d4 <= f)%nat).
    { intros ent d1 name d2 tname d3 sdef d4 H1 H2 H3 H4.
      apply rd_enum8_inv in H1. destruct H1 as [H1 _]. apply rd_len in H1.
      apply rd_vec32_len_lt in H2. apply rd_vec32_len_lt in H3. apply rd_vec32_len_lt in H4. unfold len in *. lia. }
    split.
    + apply no_ub_bind; [apply need_no_ub|]. intros _ _.
      apply no_ub_bind; [apply rd_enum8_no_ub|]. intros [ent d1] H1.
      apply no_ub_bind; [apply rd_vec32_no_ub|]. intros [name d2] H2.
      apply no_ub_bind; [apply rd_vec32_no_ub|]. intros [tname d3] H3.
      apply no_ub_bind; [apply rd_vec32_no_ub|]. intros [sdef d4] H4.
      pose proof (Step _ _ _ _ _ _ _ _ H1 H2 H3 H4) as Hl.
      destruct (codec_of tname) as [ty|].
      * apply no_ub_bind; [apply decode_one_no_ub|]. intros def _.
        destruct (find_storage 0 stor ent name tname) as [i|] eqn:Ef.
        -- apply IH; [exact Hl|]. apply Forall_app. split; [exact Hp|]. constructor; [|constructor].
           apply find_storage_lt in Ef. simpl in *. lia.
        -- destruct (len name =? 0); [nub|]. apply IH; [exact Hl|].
           rewrite app_length. cbn [length]. apply Forall_app. split.
           ++ eapply Forall_impl; [|exact Hp]. intros e He. eapply entry_ok_mono; [|exact He]. lia.
           ++ constructor; [simpl; lia|constructor].
      * apply IH; [exact Hl|]. apply Forall_app. split; [exact Hp|]. constructor; [exact I|constructor].
    + intros stor' props' H. crunch_any.
      all: match goal with
           | Hr : read_propdir_entries _ ?s ?p ?dd = Ret (_, _) |- _ =>
               refine (proj2 (IH s p dd _ _) _ _ Hr);
               [ eapply Step; eassumption | ]
           end.
      * apply Forall_app. split; [exact Hp|]. constructor; [|constructor].
        match goal with Hf' : find_storage 0 stor _ _ _ = Some _ |- _ => apply find_storage_lt in Hf' end. simpl in *. lia.
      * rewrite app_length. cbn [length]. apply Forall_app. split.
        -- eapply Forall_impl; [|exact Hp]. intros e He. eapply entry_ok_mono; [|exact He]. lia.
        -- constructor; [simpl; lia|constructor].
      * apply Forall_app. split; [exact Hp|]. constructor; [exact I|constructor].
Qed.

Definition Inv (st : rst) : Prop := inv_topo st /\ inv_props st.

Lemma read_propdir_chunk_spec st d : Inv st ->
  no_ub (read_propdir_chunk st d) /\ (forall st' d', read_propdir_chunk st d = Ret (st', d') -> Inv st').
Proof.
  intros [It Ip]. unfold read_propdir_chunk. destruct (r_props st) eqn:Ep; [|split; [nub|intros ? ? H; discriminate H]].
  destruct (read_propdir_entries_spec (length d) (r_stor st) [] d (le_n _) (Forall_nil _)) as [N S].
  split.
  - apply no_ub_bind; [exact N|]. intros [stor props] _. nub.
  - intros st' d' H. crunch_any. split.
    + exact It.
    + unfold inv_props. cbn [set_props r_stor r_props]. eapply S. eassumption.
Qed.

Lemma upd_storage_length i w l : length (upd_storage i w l) = length l.
Proof. revert i; induction l as [|s t IH]; intros i; destruct i; simpl; auto. Qed.

Lemma nth_entry_ok n props idx ent si : Forall (entry_ok n) props -> nth idx props None = Some (ent, si) -> (si < n)%nat.
Proof.
  intros H E. destruct (nth_in_or_default idx props None) as [Hin|Hd]; [|rewrite Hd in E; discriminate].
  rewrite Forall_forall in H. specialize (H _ Hin). rewrite E in H. exact H.
Qed.

Lemma read_prop_chunk_spec h st d : Inv st ->
  no_ub (read_prop_chunk h st d) /\ (forall st' d', read_prop_chunk h st d = Ret (st', d') -> Inv st').
Proof.
  intros [It Ip]. unfold read_prop_chunk. split.
  - apply no_ub_bind; [apply need_no_ub|]. intros _ _.
    apply no_ub_bind; [apply rd_span_no_ub|]. intros [[first count] d1] _.
    apply no_ub_bind; [apply rd_no_ub|]. intros [idx d2] _.
    destruct (len (r_props st) <=? idx); [nub|].
    destruct (nth (Z.to_nat idx) (r_props st) None) as [[ent si]|] eqn:En; [|nub].
    destruct (count =? 0); [nub|].
    match goal with |- no_ub (if ?c then _ else _) => destruct c end; [nub|].
    match goal with |- no_ub (if ?c then _ else _) => destruct c end; [nub|].
    pose proof (nth_entry_ok _ _ _ _ _ Ip En) as Hlt.
    destruct (nth_error (r_stor st) si) as [s|] eqn:Es; [|apply nth_error_None in Es; lia].
    apply no_ub_bind; [|intros [w d3] _; nub].
    destruct (st_ty s); nub; try apply decode_n_bool_no_ub; try apply decode_n_simple_no_ub.
  - intros st' d' H. crunch_any; try (split; assumption).
    all: split; [exact It|]; unfold inv_props; cbn [set_props r_stor r_props]; rewrite upd_storage_length; exact Ip.
Qed.

Lemma read_vertices_chunk_inv o h st d st' d' : read_vertices_chunk o h st d = Ret (st', d') -> Inv st -> Inv st'.
Proof.
  unfold read_vertices_chunk. intros H [It Ip]. crunch_any; split; assumption.
Qed.

(* one chunk: no unchecked access, and the invariant is kept *)
Lemma read_chunk_spec o h st eof s : Inv st ->
  no_ub (read_chunk o h st eof s) /\
  (forall st' eof' s', read_chunk o h st eof s = Ret (st', eof', s') -> Inv st').
Proof.
  intros HI. unfold read_chunk. split.
  - nub; try apply read_vertices_chunk_no_ub; try (apply read_topo_chunk_no_ub; apply HI);
      try (apply (proj1 (read_propdir_chunk_spec _ _ HI))); try (apply (proj1 (read_prop_chunk_spec _ _ _ HI))).
  - intros st' eof' s' H. crunch_any; try exact HI.
    all: try (match goal with HH : read_propdir_chunk _ _ = Ret _ |- _ => exact (proj2 (read_propdir_chunk_spec _ _ HI) _ _ HH) end).
    all: try (match goal with HH : read_prop_chunk _ _ _ = Ret _ |- _ => exact (proj2 (read_prop_chunk_spec _ _ _ HI) _ _ HH) end).
    all: try (match goal with HH : read_vertices_chunk _ _ _ _ = Ret _ |- _ => exact (read_vertices_chunk_inv _ _ _ _ _ _ HH HI) end).
    all: try (match goal with HH : read_topo_chunk _ _ _ _ = Ret _ |- _ =>
               destruct HI as [It Ip]; destruct (read_topo_chunk_inv _ _ _ _ _ _ HH It) as [A [B C]];
               split; [exact A|unfold inv_props; rewrite B, C; exact Ip] end).
Qed.

Lemma chunk_loop_no_ub fuel : forall o h st eof s,
  bytes_ok (s_bytes s) -> (length (s_bytes s) <= fuel)%nat -> Inv st -> no_ub (chunk_loop fuel o h st eof s).
Proof.
  induction fuel as [|f IH]; intros o h st eof s Hok Hf HI; simpl.
  - destruct (remaining_bytes s <=? 0) eqn:E; [nub|].
    unfold remaining_bytes, len in E. apply Z.leb_gt in E. lia.
  - destruct (remaining_bytes s <=? 0); [nub|].
    destruct (read_chunk_spec o h st eof s HI) as [N P].
    apply no_ub_bind; [exact N|]. intros [[st1 eof1] s1] Hx.
    pose proof (read_chunk_frame _ _ _ _ _ _ _ _ Hok Hx) as F. cbv zeta in F.
    destruct F as [F1 [F2 [F3 [F4 _]]]].
    apply IH.
    + rewrite F4. apply bytes_ok_skipn. exact Hok.
    + assert (L : len (s_bytes s1) = len (s_bytes s) - chunk_len (s_bytes s)).
      { rewrite F4, len_skipn. rewrite Z2Nat.id by lia. lia. }
      unfold len in *. lia.
    + eapply P. exact Hx.
Qed.

Lemma init_inv : Inv init_rst.
Proof. split; [split; cbn [init_rst r_ner r_nfr r_edges r_faces]; change (len (@nil (Z * Z))) with 0; change (len (@nil (list Z))) with 0; lia|constructor]. Qed.

(* C07_total: on any byte string, in any reader configuration, the reader never makes the kernel index out of range and the
   chunk loop never runs out of fuel *)
Theorem decode_never_ub o bytes w : bytes_ok bytes -> decode_impl o bytes <> RUB w.
Proof.
  intros Hok. unfold decode_impl, decode_stream.
  destruct (read_header _) as [[h ok] s1] eqn:Eh.
  destruct (negb (compatible o h)); [discriminate|].
  destruct ok; cbn [negb]; [|discriminate].
  apply read_header_inv in Eh; [|reflexivity]. cbn [s_bytes s_avail] in Eh. destruct Eh as [_ [Hb1 _]].
  assert (Hok1 : bytes_ok (s_bytes s1)) by (rewrite Hb1; apply bytes_ok_skipn; exact Hok).
  pose proof (chunk_loop_no_ub (length (s_bytes s1)) o h init_rst false s1 Hok1 (le_n _) init_inv) as N.
  destruct (chunk_loop _ o h init_rst false s1) as [[st eof]|r0 st|w0] eqn:EL.
  - destruct (negb eof); [discriminate|]. match goal with |- (if ?c then _ else _) <> _ => destruct c end; discriminate.
  - discriminate.
  - exfalso. apply (N w0). reflexivity.
Qed.

Theorem decode_failing_never_ub o k bytes w : bytes_ok bytes -> decode_impl_failing o k bytes <> RUB w.
Proof.
  intros Hok. unfold decode_impl_failing, decode_stream.
  destruct (read_header _) as [[h ok] s1] eqn:Eh.
  destruct (negb (compatible o h)); [discriminate|].
  destruct ok; cbn [negb]; [|discriminate].
  apply read_header_inv in Eh; [|reflexivity]. cbn [s_bytes s_avail] in Eh. destruct Eh as [_ [Hb1 _]].
  assert (Hok1 : bytes_ok (s_bytes s1)) by (rewrite Hb1; apply bytes_ok_skipn; exact Hok).
  pose proof (chunk_loop_no_ub (length (s_bytes s1)) o h init_rst false s1 Hok1 (le_n _) init_inv) as N.
  destruct (chunk_loop _ o h init_rst false s1) as [[st eof]|r0 st|w0] eqn:EL.
  - destruct (negb eof); [discriminate|]. match goal with |- (if ?c then _ else _) <> _ => destruct c end; discriminate.
  - discriminate.
  - exfalso. apply (N w0). reflexivity.
Qed.

(* ================================================================================================ C07: properties are sized *)

Lemma zseq_length fuel : forall i, length (zseq fuel i) = fuel.
Proof. induction fuel; intros; simpl; auto. Qed.

Lemma storage_values_len s c : len (storage_values s c) = Z.max 0 c.
Proof. unfold storage_values, len. rewrite map_length, zseq_length. lia. Qed.

Lemma result_ent_count o h st ent : ent_count (result_mesh o h st) ent = cur_count h st ent.
Proof. reflexivity. Qed.

Lemma read_file_header_nv d h ok : bytes_ok d -> read_file_header d = (h, ok) -> 0 <= h_nv h.
Proof.
  intros Hd. unfold read_file_header.
  repeat match goal with |- (if ?c then _ else _) = _ -> _ => destruct c end; intros H; inversion H; subst; cbn [h_nv zero_hdr]; try lia.
  pose proof (le_decode_field_range 8 16 d Hd) as R. exact (proj1 R).
Qed.

(* every property of a mesh that was read with result Ok has exactly one value per entity of its kind *)
Theorem ok_props_sized o bytes m : bytes_ok bytes -> decode_impl o bytes = ROk m ->
  Forall (fun p => len (p_vals p) = ent_count m (p_ent p)) (m_props m).
Proof.
  intros Hok. unfold decode_impl, decode_stream.
  destruct (read_header _) as [[h ok] s1] eqn:Eh.
  destruct (negb (compatible o h)); [discriminate|].
  destruct ok; cbn [negb]; [|discriminate].
  pose proof (read_header_decoder _ _ _ Eh) as Hd. cbn [s_bytes] in Hd.
  apply read_file_header_nv in Hd; [|apply bytes_ok_firstn; exact Hok].
  destruct (chunk_loop _ o h init_rst false s1) as [[st eof]|r0 st|w0]; [|discriminate|discriminate].
  destruct (negb eof); [discriminate|]. match goal with |- (if ?c then _ else _) = _ -> _ => destruct c end; [discriminate|].
  intros H. inversion H; subst; clear H.
  apply Forall_forall. intros p Hp. cbn [result_mesh m_props] in Hp. apply in_map_iff in Hp. destruct Hp as [s [<- _]].
  cbn [p_vals p_ent]. rewrite storage_values_len, result_ent_count.
  unfold cur_count. pose proof (len_nonneg (r_edges st)). pose proof (len_nonneg (r_faces st)). pose proof (len_nonneg (r_cells st)).
  repeat match goal with |- context [if ?c then _ else _] => destruct c end; lia.
Qed.

(* ================================================================================================ C06: codecs *)

Lemma firstn_len_all {A} (l : list A) : firstn (Z.to_nat (len l)) l = l.
Proof. unfold len. rewrite Nat2Z.id. apply firstn_all. Qed.

(* Codec::decode_one (Codec::encode_one v) = v for every registered property codec and every value of its type *)
Theorem codec_roundtrip ty v : value_okb ty v = true -> decode_one ty (encode_value ty v) = Ret v.
Proof.
  unfold value_okb. intros H. apply andb_true_iff in H. destruct H as [Hb H].
  destruct ty as [|n|]; cbn [encode_value decode_one].
  - destruct v as [|b [|? ?]]; try discriminate. apply orb_true_iff in H.
    unfold rd_u8, rd. cbn. destruct H as [H|H]; apply Z.eqb_eq in H; subst; reflexivity.
  - apply Z.eqb_eq in H. unfold rd_bytes. rewrite short_spec. rewrite H. rewrite Z.ltb_irrefl. cbn [bind].
    rewrite <- H. rewrite firstn_len_all. reflexivity.
  - apply Z.ltb_lt in H. unfold rd_vec32, rd_u32, rd. rewrite short_spec.
    assert (L4 : length (enc_u32 (len v)) = 4%nat) by apply le_encode_length.
    rewrite len_app. unfold len at 1. rewrite L4.
    pose proof (len_nonneg v).
    destruct (Z.of_nat 4 + len v <? Z.of_nat 4) eqn:E; [apply Z.ltb_lt in E; lia|].
    cbn [bind]. rewrite firstn_exact by exact L4. rewrite skipn_exact by exact L4.
    unfold enc_u32. rewrite le_decode_encode by (change (256 ^ Z.of_nat 4) with two32; lia).
    unfold rd_bytes. rewrite short_spec. rewrite Z.ltb_irrefl. cbn [bind]. rewrite firstn_len_all. reflexivity.
Qed.

(* a mesh with pending deletions is refused and nothing is written *)
Lemma pending_refused dim topo m k : write_result true dim topo m k = (WError, []).
Proof. reflexivity. Qed.

(* topology type detection (TopologyType.hh) *)
Lemma detect_topo_classes m : detect_topo 1 m = TopoType_Tetrahedral /\ detect_topo 2 m = TopoType_Hexahedral.
Proof. split; reflexivity. Qed.
Lemma detect_topo_poly m : detect_topo 0 m =
  if mesh_is_tet m then TopoType_Tetrahedral else if mesh_is_hex m then TopoType_Hexahedral else TopoType_Polyhedral.
Proof. reflexivity. Qed.

(* two more concrete meshes: a hexahedron (read into a hexahedral mesh with the topology check on, i.e. through
   check_halfface_ordering) and a mixed-valence mesh with variable valence chunks *)
Definition ex_hex : meshfile :=
  {| m_nv := 8; m_pos := repeat [0; 0; 0] 8;
     m_edges := [(3, 2); (2, 1); (1, 0); (0, 3); (7, 6); (6, 5); (5, 4); (4, 7); (2, 6); (7, 1); (5, 3); (0, 4)];
     m_faces := [[0; 2; 4; 6]; [8; 10; 12; 14]; [3; 16; 9; 18]; [13; 20; 7; 22]; [19; 15; 23; 5]; [1; 21; 11; 17]];
     m_cells := [[0; 2; 4; 6; 8; 10]];
     m_props := [] |}.
Example ex_hex_roundtrip :
  wf_file 3 ex_hex /\
  decode_impl {| o_mesh := MHex; o_check := true; o_bu := true; o_dim := 3 |} (encode 3 2 ex_hex) = ROk ex_hex /\
  decode_spec 3 (encode 3 2 ex_hex) = Some ex_hex.
Proof. vm_compute. repeat split; reflexivity. Qed.

Definition ex_mixed : meshfile :=
  {| m_nv := 3; m_pos := [[1; 2; 3]; [4; 5; 6]; [18446744073709551615; 0; 9223372036854775808]];
     m_edges := [(0, 1); (1, 2); (2, 0)];
     m_faces := [[0; 2; 4]; [0; 1]; [2]];
     m_cells := [[]; [0; 3]; []];
     m_props := [ {| p_ent := 2; p_name := [102]; p_tname := bytes_of_string "3f"; p_def := repeat 0 12;
                     p_vals := [repeat 1 12; repeat 255 12; repeat 7 12] |} ] |}.
Example ex_mixed_roundtrip :
  wf_file 3 ex_mixed /\
  decode_impl {| o_mesh := MPoly; o_check := false; o_bu := false; o_dim := 3 |} (encode 3 0 ex_mixed) = ROk ex_mixed /\
  decode_spec 3 (encode 3 0 ex_mixed) = Some ex_mixed.
Proof. vm_compute. repeat split; reflexivity. Qed.

(* ================================================================================================ C07: stored handles *)

Definition edge_ok (nv : Z) (e : Z * Z) : Prop := 0 <= fst e < nv /\ 0 <= snd e < nv.
Definition in_lim (lim : Z) (x : Z) : Prop := 0 <= x < lim.

Definition handles_ok (nv : Z) (edges : list (Z * Z)) (faces cells : list (list Z)) : Prop :=
  Forall (edge_ok nv) edges /\
  Forall (Forall (in_lim (2 * len edges))) faces /\
  Forall (Forall (in_lim (2 * len faces))) cells.

Definition mesh_valid (m : meshfile) : Prop :=
  handles_ok (m_nv m) (m_edges m) (m_faces m) (m_cells m) /\
  Forall (fun p => len (p_vals p) = ent_count m (p_ent p)) (m_props m).

(* reader configurations in which add_cell stores the halffaces as given (everything except the re-ordering path of the
   hexahedral class with the topology check on) *)
Definition plain_cells (o : opts) : Prop := match o_mesh o with MHex => o_check o = false | _ => True end.

Definition small_hdr (h : fhdr) : Prop :=
  0 <= h_nv h < 1073741824 /\ 0 <= h_ne h < 1073741824 /\ 0 <= h_nf h < 1073741824 /\ 0 <= h_nc h < 1073741824.

Definition Inv2 (h : fhdr) (st : rst) : Prop :=
  0 <= r_nvr st <= h_nv h /\ 0 <= r_ner st <= h_ne h /\ 0 <= r_nfr st <= h_nf h /\ 0 <= r_ncr st <= h_nc h /\
  r_ner st <= len (r_edges st) /\ r_nfr st <= len (r_faces st) /\
  handles_ok (h_nv h) (r_edges st) (r_faces st) (r_cells st).

Lemma base_add_face_stored edges hs check s : base_add_face edges hs check = Ret (Some s) -> s = hs.
Proof.
  unfold base_add_face. intros H. destruct check; [|inversion H; reflexivity].
  destruct hs as [|h0 t]; [discriminate|]. apply bind_ret_inv in H. destruct H as [ok [_ H]].
  destruct ok; inversion H; reflexivity.
Qed.

Lemma mesh_add_face_stored o edges hs s : mesh_add_face o edges hs = Ret (Some s) -> s = hs.
Proof.
  unfold mesh_add_face. intros H. destruct (o_mesh o).
  - eapply base_add_face_stored; eassumption.
  - destruct (len hs =? 3); [eapply base_add_face_stored; eassumption|discriminate].
  - destruct (len hs =? 4); [eapply base_add_face_stored; eassumption|discriminate].
Qed.

Lemma base_add_cell_stored faces hs check s : base_add_cell faces hs check = Ret (Some s) -> s = hs.
Proof.
  unfold base_add_cell. intros H. destruct check; [|inversion H; reflexivity].
  destruct hs as [|h0 t]; [discriminate|].
  apply bind_ret_inv in H. destruct H as [? [_ H]]. apply bind_ret_inv in H. destruct H as [? [_ H]].
  repeat match type of H with (if ?c then _ else _) = _ => destruct c end; inversion H; reflexivity.
Qed.

Lemma mesh_add_cell_stored o edges faces hs s : plain_cells o -> mesh_add_cell o edges faces hs = Ret (Some s) -> s = hs.
Proof.
  unfold plain_cells, mesh_add_cell. intros Hp H. destruct (o_mesh o).
  - eapply base_add_cell_stored; eassumption.
  - destruct (len hs =? 4); [|discriminate]. apply bind_ret_inv in H. destruct H as [ok [_ H]].
    destruct ok; cbn [negb] in H; [|discriminate]. destruct (o_check o); cbn [negb] in H; [|eapply base_add_cell_stored; eassumption].
    apply bind_ret_inv in H. destruct H as [vs [_ H]]. destruct (negb (count_distinct vs =? 4)); [discriminate|].
    apply bind_ret_inv in H. destruct H as [ts [_ H]]. destruct (negb (count_distinct_sets ts =? 4)); [discriminate|].
    eapply base_add_cell_stored; eassumption.
  - destruct (len hs =? 6); [|discriminate]. apply bind_ret_inv in H. destruct H as [ok [_ H]].
    destruct ok; cbn [negb] in H; [|discriminate]. rewrite Hp in H. cbn [negb] in H.
    eapply base_add_cell_stored; eassumption.
Qed.

(* add_cell stores handles that designate existing halffaces whenever it is given such handles - in EVERY configuration: the
   re-ordering path of the hexahedral class can put InvalidHalfFaceHandle into a slot, but such a list is refused (is_valid()
   of every slot, HexahedralMeshTopologyKernel::add_cell) *)
Lemma mesh_add_cell_valid o edges faces hs s : Forall (in_lim (2 * len faces)) hs ->
  mesh_add_cell o edges faces hs = Ret (Some s) -> Forall (in_lim (2 * len faces)) s.
Proof.
  intros H. unfold mesh_add_cell. destruct (o_mesh o).
  - intros E. apply base_add_cell_stored in E. subst. exact H.
  - destruct (len hs =? 4); [|discriminate]. intros E. apply bind_ret_inv in E. destruct E as [ok [_ E]].
    destruct ok; cbn [negb] in E; [|discriminate]. destruct (o_check o); cbn [negb] in E; [|apply base_add_cell_stored in E; subst; exact H].
    apply bind_ret_inv in E. destruct E as [vs [_ E]]. destruct (negb (count_distinct vs =? 4)); [discriminate|].
    apply bind_ret_inv in E. destruct E as [ts [_ E]]. destruct (negb (count_distinct_sets ts =? 4)); [discriminate|].
    apply base_add_cell_stored in E. subst. exact H.
  - destruct (len hs =? 6) eqn:E6; [|discriminate]. apply Z.eqb_eq in E6.
    assert (Hne : hs <> []) by (intros ->; rewrite len_nil in E6; lia).
    intros E. apply bind_ret_inv in E. destruct E as [ok [Hok E]]. destruct ok; cbn [negb] in E; [|discriminate].
    destruct (o_check o); cbn [negb] in E; [|apply base_add_cell_stored in E; subst; exact H].
    apply bind_ret_inv in E. destruct E as [vs [_ E]]. destruct (negb (count_distinct vs =? 8)); [discriminate|].
    apply bind_ret_inv in E. destruct E as [ord [_ E]]. destruct ord; [apply base_add_cell_stored in E; subst; exact H|].
    apply bind_ret_inv in E. destruct E as [r [Hr E]]. destruct r as [hfs'|]; [|discriminate].
    destruct (existsb (fun x => x <? 0) hfs') eqn:Ev; [discriminate|].
    apply bind_ret_inv in E. destruct E as [ord2 [_ E]]. destruct ord2; [|discriminate].
    apply base_add_cell_stored in E. subst s.
    assert (Hk : Forall (hok (len faces)) hs).
    { eapply Forall_impl; [|exact H]. intros x Hx. unfold in_lim, hok in *. lia. }
    assert (Htop : forall hes, hf_halfedges faces (nthd hs 0) = Ret hes -> hes <> []).
    { intros hes Hhes. apply hf_halfedges_valence in Hhes.
      assert (Hin : In (nthd hs 0) hs). { destruct hs as [|x t]; [congruence|]. left; reflexivity. }
      rewrite (all_valence_true _ _ _ Hok _ Hin) in Hhes. inversion Hhes as [E]. intros ->. rewrite len_nil in E. lia. }
    destruct (hex_reorder_spec faces hs Hk Hne Htop) as [_ N2]. specialize (N2 _ Hr).
    rewrite Forall_forall in *. intros x Hx. specialize (N2 x Hx). unfold hok in N2. unfold in_lim.
    assert (0 <= x).
    { destruct (x <? 0) eqn:Ex; [|apply Z.ltb_ge in Ex; exact Ex].
      assert (T : existsb (fun x => x <? 0) hfs' = true) by (apply existsb_exists; exists x; split; assumption).
      rewrite T in Ev. discriminate. }
    lia.
Qed.

Lemma wrap64_nonneg x : 0 <= wrap64 x.
Proof. unfold wrap64. apply Z.mod_pos_bound. unfold two64. lia. Qed.

Lemma from_unsigned_id x : 0 <= x <= int_max -> from_unsigned x = x.
Proof. unfold from_unsigned. intros H. destruct (x <=? int_max) eqn:E; [reflexivity|apply Z.leb_gt in E; lia]. Qed.

Lemma rd_edges_ok fuel : forall count enc off nvr d l d' nv,
  nvr <= nv -> nv <= int_max -> rd_edges fuel count enc off nvr d = Ret (l, d') -> Forall (edge_ok nv) l.
Proof.
  induction fuel; intros count enc off nvr d l d' nv H1 H2 H; simpl in H; crunch_any; try constructor.
  - match goal with HH : (_ <=? wrap64 (?a + off)) || (_ <=? wrap64 (?b + off)) = false |- _ =>
      apply orb_false_iff in HH; destruct HH as [A B]; apply Z.leb_gt in A; apply Z.leb_gt in B;
      pose proof (wrap64_nonneg (a + off)); pose proof (wrap64_nonneg (b + off)) end.
    unfold edge_ok. cbn [fst snd]. rewrite !from_unsigned_id by lia. lia.
  - eapply IHfuel; eassumption.
Qed.

Lemma rd_items_fixed_forall (Q : list Z -> Prop) fuel : forall count valence enc mk add acc d r d',
  (forall d1 hs d2 a s, read_n_ints enc valence mk d1 = Ret (hs, d2) -> add hs a = Ret (Some s) -> Q s) ->
  Forall Q acc -> rd_items_fixed fuel count valence enc mk add acc d = Ret (r, d') -> Forall Q r.
Proof.
  induction fuel; intros count valence enc mk add acc d r d' HQ Hacc H; simpl in H; crunch_any; try assumption.
  eapply IHfuel; [exact HQ| |eassumption]. apply Forall_app. split; [exact Hacc|]. constructor; [|constructor].
  eapply HQ; eassumption.
Qed.

Lemma rd_items_var_forall (Q : list Z -> Prop) vals : forall enc mk add acc d r d',
  (forall v d1 hs d2 a s, read_n_ints enc v mk d1 = Ret (hs, d2) -> add hs a = Ret (Some s) -> Q s) ->
  Forall Q acc -> rd_items_var vals enc mk add acc d = Ret (r, d') -> Forall Q r.
Proof.
  induction vals as [|v t IH]; intros enc mk add acc d r d' HQ Hacc H; simpl in H; crunch_any; try assumption.
  eapply IH; [exact HQ| |eassumption]. apply Forall_app. split; [exact Hacc|]. constructor; [|constructor].
  eapply HQ; eassumption.
Qed.

Lemma handles_in_lim off n m enc v d1 hs d2 : 0 <= n <= m -> 2 * n <= int_max + 1 ->
  read_n_ints enc v (mk_handle off (2 * n)) d1 = Ret (hs, d2) -> Forall (in_lim (2 * m)) hs.
Proof.
  intros Hn Hm H. apply (read_n_ints_forall (in_lim (2 * m))) in H; [apply H|].
  intros x w Hw. apply mk_handle_ok in Hw. destruct Hw as [A ->].
  pose proof (wrap64_nonneg (x + off)). rewrite from_unsigned_id by lia. unfold in_lim. lia.
Qed.

Lemma in_lim_mono a b l : a <= b -> Forall (Forall (in_lim a)) l -> Forall (Forall (in_lim b)) l.
Proof.
  intros Hab H. eapply Forall_impl; [|exact H]. intros x Hx. eapply Forall_impl; [|exact Hx]. unfold in_lim. intros; lia.
Qed.

Lemma rd_span_nonneg d first count d' : bytes_ok d -> rd_span d = Ret (first, count, d') ->
  0 <= first /\ 0 <= count /\ bytes_ok d'.
Proof.
  intros Hd H. unfold rd_span in H. crunch_any.
  apply rd_inv in Ha0. destruct Ha0 as [-> [_ ->]]. apply rd_inv in Ha1. destruct Ha1 as [-> [_ ->]].
  split; [apply le_decode_range; apply bytes_ok_firstn; exact Hd|].
  split; [apply le_decode_range; apply bytes_ok_firstn; apply bytes_ok_skipn; exact Hd|].
  apply bytes_ok_skipn. apply bytes_ok_skipn. exact Hd.
Qed.

Lemma int_max_val : int_max = 2147483647. Proof. reflexivity. Qed.

Lemma read_topo_chunk_inv2 o h st d st' d' :
  bytes_ok d -> small_hdr h -> Inv2 h st ->
  read_topo_chunk o h st d = Ret (st', d') -> Inv2 h st'.
Proof.
  intros Hd Hs HI H. unfold read_topo_chunk in H.
  destruct HI as [V [E [F [C [LE [LF [HE [HF HC]]]]]]]].
  destruct Hs as [S1 [S2 [S3 S4]]].
  pose proof int_max_val as IM.
  crunch_any;
  first [match goal with HH : rd_span d = Ret (_, _, _) |- _ => destruct (rd_span_nonneg _ _ _ _ Hd HH) as [Hf0 [Hc0 _]] end | idtac "NOSPAN"];
  first [match goal with HH : validate_span _ _ _ _ = Ret ?u |- _ => destruct u; apply validate_span_ok in HH; [|lia|unfold two64; lia]; destruct HH as [Hfr Hct] end | idtac "NOVAL"];
  unfold Inv2, handles_ok; cbn [add_edges add_faces add_cells r_nvr r_ner r_nfr r_ncr r_edges r_faces r_cells]; rewrite ?len_app;
  try (match goal with HH : rd_edges _ _ _ _ _ _ = Ret _ |- _ => pose proof (rd_edges_len _ _ _ _ _ _ _ _ HH); pose proof (rd_edges_ok _ _ _ _ _ _ _ _ (h_nv h) (proj2 V) ltac:(lia) HH) end);
  try (match goal with HH : rd_items_fixed _ _ _ _ _ _ _ _ = Ret _ |- _ => pose proof (rd_items_fixed_len _ _ _ _ _ _ _ _ _ _ HH) as HL; rewrite len_nil in HL end);
  try (match goal with HH : rd_items_var _ _ _ _ _ _ = Ret _ |- _ => pose proof (rd_items_var_len _ _ _ _ _ _ _ _ HH) as HL; rewrite len_nil in HL end);
  try (match goal with HH : read_n_ints ?enc ?count (fun x => Ret x) _ = Ret _, HE : (?enc =? IntEncoding_None) = false, HV : rd_enum8 is_valid_IntEncoding _ = Ret (?enc, _) |- _ =>
         apply (read_n_ints_forall (fun _ => True)) in HH; [|intros; exact I]; destruct HH as [_ HH];
         apply rd_enum8_inv in HV; destruct HV as [_ HV]; apply Z.eqb_neq in HE; specialize (HH (valid_enc_size _ HV HE)) end);
  repeat split; try lia; try assumption;
  try (eapply in_lim_mono; [|eassumption]; match goal with |- _ <= 2 * (_ + len ?l) => pose proof (len_nonneg l) end; lia);
  apply Forall_app; (split; [assumption|]); try assumption;
  ( (* faces *)
    lazymatch goal with
    | HH : rd_items_fixed _ _ _ _ (mk_handle _ (2 * r_ner st)) _ [] _ = Ret _ |- _ =>
        eapply (rd_items_fixed_forall (Forall (in_lim (2 * len (r_edges st))))); [|apply Forall_nil|exact HH];
        intros ? hs ? ? s Hr Hadd; apply mesh_add_face_stored in Hadd; subst s;
        eapply handles_in_lim; [| |exact Hr]; lia
    | HH : rd_items_var _ _ (mk_handle _ (2 * r_ner st)) _ [] _ = Ret _ |- _ =>
        eapply (rd_items_var_forall (Forall (in_lim (2 * len (r_edges st))))); [|apply Forall_nil|exact HH];
        intros ? ? hs ? ? s Hr Hadd; apply mesh_add_face_stored in Hadd; subst s;
        eapply handles_in_lim; [| |exact Hr]; lia
    | HH : rd_items_fixed _ _ _ _ (mk_handle _ (2 * r_nfr st)) _ [] _ = Ret _ |- _ =>
        eapply (rd_items_fixed_forall (Forall (in_lim (2 * len (r_faces st))))); [|apply Forall_nil|exact HH];
        intros ? hs ? ? s Hr Hadd; eapply mesh_add_cell_valid; [|exact Hadd];
        eapply handles_in_lim; [| |exact Hr]; lia
    | HH : rd_items_var _ _ (mk_handle _ (2 * r_nfr st)) _ [] _ = Ret _ |- _ =>
        eapply (rd_items_var_forall (Forall (in_lim (2 * len (r_faces st))))); [|apply Forall_nil|exact HH];
        intros ? ? hs ? ? s Hr Hadd; eapply mesh_add_cell_valid; [|exact Hadd];
        eapply handles_in_lim; [| |exact Hr]; lia
    end ).
Qed.

Lemma read_vertices_chunk_inv2 o h st d st' d' :
  bytes_ok d -> small_hdr h -> Inv2 h st -> read_vertices_chunk o h st d = Ret (st', d') -> Inv2 h st'.
Proof.
  intros Hd Hs HI H. unfold read_vertices_chunk in H.
  destruct HI as [V [E [F [C [LE [LF HH]]]]]]. destruct Hs as [S1 _].
  crunch_any;
  (match goal with HS : rd_span d = Ret (_, _, _) |- _ => destruct (rd_span_nonneg _ _ _ _ Hd HS) as [Hf0 [Hc0 _]] end);
  (match goal with HV : validate_span _ _ _ _ = Ret ?u |- _ => destruct u; apply validate_span_ok in HV; [|lia|unfold two64; lia]; destruct HV as [Hfr Hct] end);
  unfold Inv2; cbn [add_verts r_nvr r_ner r_nfr r_ncr r_edges r_faces r_cells]; repeat split; try lia; try assumption; apply HH.
Qed.

Lemma read_propdir_chunk_fields st d st' d' : read_propdir_chunk st d = Ret (st', d') ->
  r_nvr st' = r_nvr st /\ r_ner st' = r_ner st /\ r_nfr st' = r_nfr st /\ r_ncr st' = r_ncr st /\
  r_edges st' = r_edges st /\ r_faces st' = r_faces st /\ r_cells st' = r_cells st /\ r_pos st' = r_pos st.
Proof. unfold read_propdir_chunk. intros H. crunch_any. cbn. repeat split; reflexivity. Qed.

Lemma read_prop_chunk_fields h st d st' d' : read_prop_chunk h st d = Ret (st', d') ->
  r_nvr st' = r_nvr st /\ r_ner st' = r_ner st /\ r_nfr st' = r_nfr st /\ r_ncr st' = r_ncr st /\
  r_edges st' = r_edges st /\ r_faces st' = r_faces st /\ r_cells st' = r_cells st /\ r_pos st' = r_pos st.
Proof. unfold read_prop_chunk. intros H. crunch_any; cbn; repeat split; reflexivity. Qed.

Lemma Inv2_fields h st st' :
  r_nvr st' = r_nvr st /\ r_ner st' = r_ner st /\ r_nfr st' = r_nfr st /\ r_ncr st' = r_ncr st /\
  r_edges st' = r_edges st /\ r_faces st' = r_faces st /\ r_cells st' = r_cells st /\ r_pos st' = r_pos st ->
  Inv2 h st -> Inv2 h st'.
Proof. intros [A [B [C [D [E [F [G _]]]]]]]. unfold Inv2. rewrite A, B, C, D, E, F, G. auto. Qed.

Lemma read_chunk_inv2 o h st eof s st' eof' s' :
  bytes_ok (s_bytes s) -> small_hdr h -> Inv2 h st ->
  read_chunk o h st eof s = Ret (st', eof', s') -> Inv2 h st'.
Proof.
  intros Hok Hs HI H. unfold read_chunk in H.
  destruct eof; [discriminate|].
  apply bind_ret_inv in H. destruct H as [[d s1] [Hm1 H]].
  apply make_decoder_inv in Hm1; [|unfold ovmb_size_ChunkHeader; lia]. destruct Hm1 as [Hb1 _].
  rewrite Hb1 in Hok. destruct (bytes_ok_app_inv _ _ Hok) as [Hokd Hok1].
  crunch_any; try exact HI;
  (match goal with Hm : make_decoder _ s1 = Ret (?cd, _) |- _ =>
         assert (Hcd : bytes_ok cd) by
           (unfold make_decoder in Hm; repeat match type of Hm with (if ?c then _ else _) = _ => destruct c; [discriminate|] end;
            inversion Hm; subst; apply bytes_ok_firstn; exact Hok1) end);
  first [ eapply Inv2_fields; [eapply read_propdir_chunk_fields; eassumption|exact HI]
        | eapply Inv2_fields; [eapply read_prop_chunk_fields; eassumption|exact HI]
        | eapply read_vertices_chunk_inv2; eassumption
        | eapply read_topo_chunk_inv2; eassumption ].
Qed.

Lemma chunk_loop_inv2 fuel : forall o h st eof s st' eof',
  bytes_ok (s_bytes s) -> small_hdr h -> Inv2 h st ->
  chunk_loop fuel o h st eof s = Ret (st', eof') -> Inv2 h st'.
Proof.
  induction fuel as [|f IH]; intros o h st eof s st' eof' Hok Hs HI H; simpl in H.
  - destruct (remaining_bytes s <=? 0); [|discriminate]. inversion H; subst. exact HI.
  - destruct (remaining_bytes s <=? 0); [inversion H; subst; exact HI|].
    apply bind_ret_inv in H. destruct H as [[[st1 eof1] s1] [Hx H]].
    pose proof (read_chunk_frame _ _ _ _ _ _ _ _ Hok Hx) as Fr. cbv zeta in Fr. destruct Fr as [_ [_ [_ [F4 _]]]].
    eapply IH; [| | |exact H]; try assumption.
    + rewrite F4. apply bytes_ok_skipn. exact Hok.
    + eapply read_chunk_inv2; eassumption.
Qed.

Lemma init_inv2 h : small_hdr h -> Inv2 h init_rst.
Proof.
  intros [A [B [C D]]]. unfold Inv2, handles_ok. cbn [init_rst r_nvr r_ner r_nfr r_ncr r_edges r_faces r_cells].
  change (len (@nil (Z * Z))) with 0. change (len (@nil (list Z))) with 0.
  repeat split; try lia; constructor.
Qed.

(* the four entity counts of the file header are below 2^30 *)
Definition small_counts (bytes : list byte) : Prop :=
  le_decode (firstn 8 (skipn 16 bytes)) < 1073741824 /\ le_decode (firstn 8 (skipn 24 bytes)) < 1073741824 /\
  le_decode (firstn 8 (skipn 32 bytes)) < 1073741824 /\ le_decode (firstn 8 (skipn 40 bytes)) < 1073741824.

Lemma read_file_header_counts d h : read_file_header d = (h, true) ->
  h_nv h = le_decode (firstn 8 (skipn 16 d)) /\ h_ne h = le_decode (firstn 8 (skipn 24 d)) /\
  h_nf h = le_decode (firstn 8 (skipn 32 d)) /\ h_nc h = le_decode (firstn 8 (skipn 40 d)).
Proof.
  unfold read_file_header.
  repeat match goal with |- (if ?c then _ else _) = _ -> _ => destruct c end; intros H; inversion H; subst.
  cbn. repeat split; reflexivity.
Qed.

(* C07_valid: success means every stored handle designates an existing entity and every property has one element per
   entity - for entity counts below 2^30 and EVERY configuration (mesh class, topology check, incidences) *)
Theorem ok_mesh_valid o bytes m :
  bytes_ok bytes -> small_counts bytes -> decode_impl o bytes = ROk m -> mesh_valid m.
Proof.
  intros Hok Hsm H. split; [|eapply ok_props_sized; eassumption].
  unfold decode_impl, decode_stream in H.
  destruct (read_header _) as [[h ok] s1] eqn:Eh.
  destruct (negb (compatible o h)); [discriminate|].
  destruct ok; cbn [negb] in H; [|discriminate].
  pose proof (read_header_decoder _ _ _ Eh) as Hd. cbn [s_bytes] in Hd.
  apply read_header_inv in Eh; [|reflexivity]. cbn [s_bytes s_avail] in Eh. destruct Eh as [H48 [Hb1 _]].
  assert (Hs : small_hdr h).
  { destruct (read_file_header_counts _ _ Hd) as [A [B [C D]]]. destruct Hsm as [S1 [S2 [S3 S4]]].
    assert (P : forall off, (off + 8 <= 48)%nat -> firstn 8 (skipn off (firstn 48 bytes)) = firstn 8 (skipn off bytes)).
    { intros off Ho. rewrite <- (firstn_skipn 48 bytes) at 2. symmetry. apply field_of_prefix. rewrite firstn_length. unfold len in H48. lia. }
    rewrite P in A, B, C, D by lia.
    pose proof (le_decode_field_range 8 16 bytes Hok). pose proof (le_decode_field_range 8 24 bytes Hok).
    pose proof (le_decode_field_range 8 32 bytes Hok). pose proof (le_decode_field_range 8 40 bytes Hok).
    unfold small_hdr. rewrite A, B, C, D. lia. }
  assert (Hok1 : bytes_ok (s_bytes s1)) by (rewrite Hb1; apply bytes_ok_skipn; exact Hok).
  destruct (chunk_loop _ o h init_rst false s1) as [[st eof]|r0 st0|w0] eqn:EL; [|discriminate|discriminate].
  apply chunk_loop_inv2 in EL; try assumption; [|apply init_inv2; exact Hs].
  destruct (negb eof); [discriminate|].
  match type of H with (if ?c then _ else _) = _ => destruct c eqn:Ec; [discriminate|] end.
  inversion H; subst; clear H. cbn [result_mesh m_nv m_edges m_faces m_cells].
  destruct EL as [_ [_ [_ [_ [_ [_ HH]]]]]]. exact HH.
Qed.
