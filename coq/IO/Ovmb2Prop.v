(* IO/Ovmb2Prop.v -- PROP chunks: BinaryFileReader::read_prop_chunk + PropertyDecoderT::deserialize + the decode_n of
   BoolPropCodec (bit-packed, 8 values per byte) and SimplePropCodec (fixed-size values, length-prefixed strings) on a chunk
   written with encode_n, for every span inside the entities read so far; and what the assignments amount to when the
   property is read off the mesh (storage_values). *)
From Coq Require Import ZArith List Bool Lia.
From OVM Require Import Base.Int32 Gen.OvmbFormat IO.Bytes IO.OvmbWriterModel IO.OvmbReaderModel IO.OvmbProofs
  IO.Ovmb2Base IO.Ovmb2Chunk IO.Ovmb2Alt IO.Ovmb2Ints IO.Ovmb2Topo.
Import ListNotations.
Local Open Scope Z_scope.

Definition bool_val (v : list byte) : Prop := v = [0] \/ v = [1].

Definition val_ok (ty : ptype) (v : list byte) : Prop :=
  match ty with
  | TBool => bool_val v
  | TFix n => len v = n
  | TStr => len v < 4294967296
  end.

Definition ty_ok (ty : ptype) : Prop := match ty with TFix n => 1 <= n | _ => True end.

(* ================================================================================================ fixed size, strings *)
Lemma writes_of_app a b : forall first acc, writes_of first (a ++ b) acc = writes_of (first + len a) b (writes_of first a acc).
Proof.
  induction a as [|x t IH]; intros first acc; cbn [app writes_of].
  - rewrite len_nil, Z.add_0_r. reflexivity.
  - rewrite IH. rewrite len_cons. f_equal. lia.
Qed.

Lemma decode_fix_enc n vs : Forall (fun v => len v = n) vs -> forall fuel i acc r, (length vs <= fuel)%nat ->
  decode_n_simple fuel (TFix n) i (len vs) (encode_n (TFix n) vs ++ r) acc = Ret (writes_of i vs acc, r).
Proof.
  cbn [encode_n]. induction 1 as [|v t Hv Ht IH]; intros fuel i acc r Hf.
  - destruct fuel; reflexivity.
  - cbn [length] in Hf. destruct fuel as [|f]; [lia|].
    cbn [decode_n_simple]. rewrite len_cons. rewrite leb_false by (pose proof (len_nonneg t); lia).
    cbn [map concat encode_value]. rewrite <- app_assoc.
    rewrite rd_bytes_app by exact Hv. cb.
    replace (1 + len t - 1) with (len t) by lia.
    rewrite IH by lia. reflexivity.
Qed.

Lemma decode_str_enc vs : Forall (fun v => len v < 4294967296) vs -> forall fuel i acc r, (length vs <= fuel)%nat ->
  decode_n_simple fuel TStr i (len vs) (encode_n TStr vs ++ r) acc = Ret (writes_of i vs acc, r).
Proof.
  cbn [encode_n]. induction 1 as [|v t Hv Ht IH]; intros fuel i acc r Hf.
  - destruct fuel; reflexivity.
  - cbn [length] in Hf. destruct fuel as [|f]; [lia|].
    cbn [decode_n_simple]. rewrite len_cons. rewrite leb_false by (pose proof (len_nonneg t); lia).
    cbn [map concat encode_value]. rewrite <- app_assoc.
    change (enc_u32 (len v) ++ v) with (write_vec32 v).
    rewrite rd_vec32_app by exact Hv. cb.
    replace (1 + len t - 1) with (len t) by lia.
    rewrite IH by lia. reflexivity.
Qed.

Lemma len_encode_fix n vs : Forall (fun v => len v = n) vs -> len (encode_n (TFix n) vs) = len vs * n.
Proof.
  cbn [encode_n]. induction 1 as [|v t Hv Ht IH]; cbn [map concat encode_value]; [reflexivity|].
  rewrite len_app, len_cons, IH, Hv. lia.
Qed.

Lemma len_encode_str vs : 4 * len vs <= len (encode_n TStr vs).
Proof.
  cbn [encode_n]. induction vs as [|v t IH]; cbn [map concat encode_value]; [unfold len; simpl; lia|].
  lens. lenpos. zlia.
Qed.

(* ================================================================================================ bools *)
Lemma pack_bits_lin vs : forall w, pack_bits vs (2 * w) = 2 * pack_bits vs w.
Proof.
  induction vs as [|v t IH]; intros w; cbn [pack_bits]; [lia|]. rewrite IH.
  destruct (hd 0 v =? 0); lia.
Qed.

Lemma unpack_pack vs : Forall bool_val vs -> forall i acc,
  unpack_bits (length vs) i (pack_bits vs 1) acc = writes_of i vs acc.
Proof.
  induction 1 as [|v t Hv Ht IH]; intros i acc; [reflexivity|].
  cbn [length unpack_bits pack_bits writes_of]. change (2 * 1) with 2.
  assert (E : pack_bits t 2 = 2 * pack_bits t 1) by (exact (pack_bits_lin t 1)). rewrite E.
  destruct Hv as [-> | ->]; cbn [hd Z.eqb].
  - replace (0 + 2 * pack_bits t 1) with (pack_bits t 1 * 2) by lia.
    rewrite Z.mod_mul, Z.div_mul by lia. apply IH.
  - replace (1 + 2 * pack_bits t 1) with (1 + pack_bits t 1 * 2) by lia.
    rewrite Z.mod_add, Z.div_add by lia. change (1 mod 2) with 1. change (1 / 2) with 0. rewrite Z.add_0_l. apply IH.
Qed.

Lemma length_firstn_min {A} n (l : list A) : length (firstn n l) = Nat.min n (length l).
Proof. apply firstn_length. Qed.

Lemma pack_bools_cons n v t : pack_bools (S n) (v :: t) = pack_bits (firstn 8 (v :: t)) 1 :: pack_bools n (skipn 8 (v :: t)).
Proof. reflexivity. Qed.

Lemma decode_bool_enc n : forall vs, (length vs <= n)%nat -> Forall bool_val vs -> forall fuel cnt i acc r,
  (cnt = len vs \/ (cnt <= 0 /\ vs = [])) -> (length (pack_bools n vs) < fuel)%nat ->
  decode_n_bool fuel i cnt (pack_bools n vs ++ r) acc = Ret (writes_of i vs acc, r).
Proof.
  induction n as [|n IH]; intros vs Hn Hb fuel cnt i acc r Hc Hf.
  - destruct vs; [|cbn [length] in Hn; lia]. cbn [pack_bools app writes_of].
    assert (cnt <= 0) by (destruct Hc as [-> | [? _]]; [unfold len; simpl; lia|assumption]).
    destruct fuel; cbn [decode_n_bool]; rewrite leb_true by assumption; reflexivity.
  - destruct vs as [|v t].
    + cbn [pack_bools app writes_of].
      assert (cnt <= 0) by (destruct Hc as [-> | [? _]]; [unfold len; simpl; lia|assumption]).
      destruct fuel; cbn [decode_n_bool]; rewrite leb_true by assumption; reflexivity.
    + destruct Hc as [-> | [_ Hc]]; [|discriminate].
      rewrite pack_bools_cons in *.
      remember (v :: t) as vs eqn:Evs.
      assert (Hpos : 0 < len vs) by (subst vs; apply len_pos_cons).
      cbn [length] in Hf.
      destruct fuel as [|f]; [lia|].
      cbn [decode_n_bool app]. rewrite leb_false by lia.
      rewrite rd_u8_cons. cb.
      assert (Hl : Z.to_nat (Z.min 8 (len vs)) = length (firstn 8 vs)).
      { rewrite length_firstn_min. unfold len. lia. }
      rewrite Hl. rewrite unpack_pack by (apply Forall_firstn'; exact Hb).
      rewrite (IH (skipn 8 vs)).
      * rewrite <- (firstn_skipn 8 vs) at 3. rewrite writes_of_app.
        assert (Hcase : (length vs <= 8)%nat \/ (8 < length vs)%nat) by lia.
        destruct Hcase as [Hc8|Hc8].
        -- rewrite (skipn_all2 vs) by lia. cbn [writes_of]. reflexivity.
        -- do 3 f_equal. unfold len. rewrite length_firstn_min. lia.
      * rewrite skipn_length. cbn [length] in Hn. lia.
      * apply Forall_skipn'; exact Hb.
      * assert (Hcase : (length vs <= 8)%nat \/ (8 < length vs)%nat) by lia.
        destruct Hcase as [Hc8|Hc8].
        -- right. split; [unfold len; lia|]. apply skipn_all2. lia.
        -- left. unfold len. rewrite skipn_length. lia.
      * lia.
Qed.

Ltac Zify.zify_post_hook ::= Z.div_mod_to_equations.
Lemma len_pack_bools n : forall vs, (length vs <= n)%nat -> len (pack_bools n vs) = (len vs + 7) / 8.
Proof.
  induction n as [|n IH]; intros vs Hn.
  - destruct vs; [reflexivity|cbn [length] in Hn; lia].
  - destruct vs as [|v t]; [reflexivity|].
    rewrite pack_bools_cons. remember (v :: t) as vs eqn:Evs.
    assert (Hpos : 0 < len vs) by (subst vs; apply len_pos_cons).
    assert (Hn' : (length vs <= S n)%nat) by (subst vs; exact Hn).
    rewrite len_cons, IH by (rewrite skipn_length; lia).
    rewrite len_skipn. change (Z.of_nat 8) with 8. lia.
Qed.
Ltac Zify.zify_post_hook ::= idtac.

Lemma encode_n_nil ty : encode_n ty [] = [].
Proof. destruct ty; reflexivity. Qed.

(* ================================================================================================ read_prop_chunk *)
Lemma prop_chunk_ok h st idx first ty vals ent si s :
  0 <= idx < 4294967296 -> idx < len (r_props st) -> nth (Z.to_nat idx) (r_props st) None = Some (ent, si) ->
  nth_error (r_stor st) si = Some s -> st_ty s = ty -> ty_ok ty -> Forall (val_ok ty) vals ->
  len vals < 4294967296 -> 0 <= first < 18446744073709551616 ->
  first + len vals <= read_count st ent -> first + len vals <= cur_count h st ent ->
  read_prop_chunk h st (prop_payload idx first ty vals) = Ret (next_st st (CProp idx first ty vals), []).
Proof.
  intros Hidx Hlt Hnth Hs Hty Htok Hv Hlen Hfirst Hrc Hcc.
  pose proof (len_nonneg vals) as Hn0.
  unfold prop_payload, read_prop_chunk.
  rewrite need_ok by (unfold ovmb_size_PropChunkHeader; lenlia). cb.
  rewrite rd_span_app by lia. cb.
  rewrite rd_u32_enc by exact Hidx. cb.
  rewrite leb_false by lia. rewrite Hnth.
  cbn [next_st]. rewrite Hnth.
  destruct vals as [|v0 t0] eqn:Evals.
  - rewrite encode_n_nil. reflexivity.
  - assert (Hpos : 0 < len (v0 :: t0)) by apply len_pos_cons.
    rewrite <- Evals in *. clear Evals.
    rewrite (eqb_false (len vals) 0) by lia.
    rewrite (leb_false (read_count st ent) first) by lia.
    rewrite (ltb_false (read_count st ent - first) (len vals)) by lia. cb.
    rewrite (ltb_false (cur_count h st ent) (first + len vals)) by lia.
    unfold add_writes. rewrite Hs. rewrite Hty.
    rewrite <- (app_nil_r (encode_n ty vals)).
    destruct ty as [|n|].
    + (* bool *)
      cbn [encode_n val_ok] in *.
      rewrite need_ok by (rewrite app_nil_r, len_pack_bools by lia; lia). cb.
      rewrite decode_bool_enc; [reflexivity|lia|exact Hv|left; reflexivity|].
      rewrite app_nil_r. lia.
    + cbn [val_ok ty_ok] in *.
      rewrite decode_fix_enc; [reflexivity|exact Hv|].
      rewrite app_nil_r. pose proof (len_encode_fix n vals Hv) as L. unfold len in *. nia.
    + cbn [val_ok] in *.
      rewrite decode_str_enc; [reflexivity|exact Hv|].
      rewrite app_nil_r. pose proof (len_encode_str vals) as L. unfold len in *. lia.
Qed.

(* ================================================================================================ reading the values back *)
Lemma lookup_writes_of vals : forall first acc i,
  lookup_write i (writes_of first vals acc) =
  if (first <=? i) && (i <? first + len vals) then nth_error vals (Z.to_nat (i - first)) else lookup_write i acc.
Proof.
  induction vals as [|v t IH]; intros first acc i; cbn [writes_of].
  - rewrite len_nil, Z.add_0_r.
    destruct (first <=? i) eqn:E1; destruct (i <? first) eqn:E2; cbn [andb]; try reflexivity.
    apply Z.leb_le in E1. apply Z.ltb_lt in E2. lia.
  - rewrite IH. rewrite len_cons. cbn [lookup_write]. pose proof (len_nonneg t).
    destruct (first + 1 <=? i) eqn:E1; destruct (i <? first + 1 + len t) eqn:E2; cbn [andb].
    + apply Z.leb_le in E1. apply Z.ltb_lt in E2.
      rewrite (leb_true first i) by lia. rewrite (ltb_true i (first + (1 + len t))) by lia. cbn [andb].
      replace (Z.to_nat (i - first)) with (S (Z.to_nat (i - (first + 1)))) by lia. reflexivity.
    + apply Z.leb_le in E1. apply Z.ltb_ge in E2.
      rewrite (eqb_false i first) by lia. rewrite (ltb_false i (first + (1 + len t))) by lia. rewrite andb_false_r. reflexivity.
    + apply Z.leb_gt in E1.
      destruct (i =? first) eqn:E3.
      * apply Z.eqb_eq in E3. subst i. rewrite Z.leb_refl. rewrite (ltb_true first (first + (1 + len t))) by lia.
        cbn [andb]. rewrite Z.sub_diag. reflexivity.
      * apply Z.eqb_neq in E3. rewrite (leb_false first i) by lia. reflexivity.
    + apply Z.leb_gt in E1.
      destruct (i =? first) eqn:E3.
      * apply Z.eqb_eq in E3. subst i. apply Z.ltb_ge in E2. lia.
      * apply Z.eqb_neq in E3. rewrite (leb_false first i) by lia. reflexivity.
Qed.

(* every element of vals has been assigned *)
Definition writes_cover (w : list (Z * list byte)) (vals : list (list byte)) : Prop :=
  forall i v, nth_error vals i = Some v -> lookup_write (Z.of_nat i) w = Some v.

Lemma writes_cover_nil w : writes_cover w [].
Proof. intros i v H. destruct i; discriminate. Qed.

Lemma writes_cover_app w done seg : writes_cover w done ->
  writes_cover (writes_of (len done) seg w) (done ++ seg).
Proof.
  intros Hc i v Hi. rewrite lookup_writes_of.
  destruct (Nat.lt_ge_cases i (length done)) as [Hlt|Hge].
  - rewrite nth_error_app1 in Hi by exact Hlt.
    rewrite (leb_false (len done) (Z.of_nat i)) by (unfold len; lia). cbn [andb]. apply Hc. exact Hi.
  - rewrite nth_error_app2 in Hi by exact Hge.
    assert (Hlt : (i - length done < length seg)%nat) by (apply nth_error_Some; rewrite Hi; discriminate).
    rewrite (leb_true (len done) (Z.of_nat i)) by (unfold len; lia).
    rewrite (ltb_true (Z.of_nat i) (len done + len seg)) by (unfold len; lia). cbn [andb].
    replace (Z.to_nat (Z.of_nat i - len done)) with (i - length done)%nat by (unfold len; lia). exact Hi.
Qed.

Lemma map_zseq_nth {A} (f : Z -> A) (l : list A) : forall k,
  (forall i v, nth_error l i = Some v -> f (k + Z.of_nat i) = v) -> map f (zseq (length l) k) = l.
Proof.
  induction l as [|x t IH]; intros k H; [reflexivity|].
  cbn [length zseq map]. f_equal.
  - rewrite <- (H 0%nat x eq_refl). f_equal. lia.
  - apply IH. intros i v Hi. rewrite <- (H (S i) v Hi). f_equal. lia.
Qed.

Lemma storage_values_cover s vals : writes_cover (st_writes s) vals -> storage_values s (len vals) = vals.
Proof.
  intros Hc. unfold storage_values. rewrite to_nat_len. apply map_zseq_nth.
  intros i v Hi. rewrite Z.add_0_l. rewrite (Hc i v Hi). reflexivity.
Qed.
