(* IO/Ovmb2SpecChunks.v -- phase 2 of the specification reader on one chunk body: interp_vert, interp_topo (edge chunks, face
   and cell chunks in both forms, any width, any handle offset), interp_dir, interp_prop. *)
From Coq Require Import ZArith List Bool Lia.
From OVM Require Import Base.Int32 Gen.OvmbFormat IO.Bytes IO.OvmbWriterModel IO.OvmbReaderModel IO.OvmbSpec IO.OvmbProofs
  IO.Ovmb2Base IO.Ovmb2Chunk IO.Ovmb2Alt IO.Ovmb2Ints IO.Ovmb2Topo IO.Ovmb2Vert IO.Ovmb2Dirp IO.Ovmb2Prop IO.Ovmb2Run
  IO.Ovmb2Groups IO.Ovmb2PropGroup IO.Ovmb2Layout IO.Ovmb2SpecBase IO.Ovmb2SpecParse.
Import ListNotations.
Local Open Scope Z_scope.

(* ================================================================================================ fields *)
Lemma u_at (w off : nat) (pre x post : list byte) : length pre = off -> length x = w -> u w off (pre ++ x ++ post) = le_decode x.
Proof. intros H1 H2. unfold u. rewrite skipn_exact by exact H1. rewrite firstn_exact by exact H2. reflexivity. Qed.

Lemma sub_at (w off : nat) (pre x post : list byte) : length pre = off -> length x = w -> sub off w (pre ++ x ++ post) = x.
Proof. intros H1 H2. unfold sub. rewrite skipn_exact by exact H1. rewrite firstn_exact by exact H2. reflexivity. Qed.

Lemma span_fields f c X : 0 <= f < 18446744073709551616 -> 0 <= c < 4294967296 ->
  u 8 0 (write_span f c ++ X) = f /\ u 4 8 (write_span f c ++ X) = c.
Proof.
  intros Hf Hc. unfold write_span. rewrite <- app_assoc. split.
  - unfold u. cbn [skipn]. rewrite firstn_exact by apply le_encode_length. apply le_decode_encode. exact Hf.
  - rewrite (u_at 4 8 (enc_u64 f) (enc_u32 c)) by apply le_encode_length. apply le_decode_encode. exact Hc.
Qed.

Lemma skipn_span n f c X : skipn (12 + n) (write_span f c ++ X) = skipn n X.
Proof.
  rewrite <- skipn_skipn'. rewrite skipn_exact; [reflexivity|].
  unfold write_span. rewrite app_length. unfold enc_u64, enc_u32. rewrite !le_encode_length. reflexivity.
Qed.

(* accumulator updates *)
Definition set_pos (t : table (list Z)) (a : acc) : acc :=
  {| a_pos := t; a_edges := a_edges a; a_faces := a_faces a; a_cells := a_cells a; a_dir := a_dir a; a_vals := a_vals a; a_eof := a_eof a |}.
Definition set_edges (t : table (Z * Z)) (a : acc) : acc :=
  {| a_pos := a_pos a; a_edges := t; a_faces := a_faces a; a_cells := a_cells a; a_dir := a_dir a; a_vals := a_vals a; a_eof := a_eof a |}.
Definition set_faces (t : table (list Z)) (a : acc) : acc :=
  {| a_pos := a_pos a; a_edges := a_edges a; a_faces := t; a_cells := a_cells a; a_dir := a_dir a; a_vals := a_vals a; a_eof := a_eof a |}.
Definition set_cells (t : table (list Z)) (a : acc) : acc :=
  {| a_pos := a_pos a; a_edges := a_edges a; a_faces := a_faces a; a_cells := t; a_dir := a_dir a; a_vals := a_vals a; a_eof := a_eof a |}.
Definition set_dir (d : list (Z * list byte * list byte * list byte)) (a : acc) : acc :=
  {| a_pos := a_pos a; a_edges := a_edges a; a_faces := a_faces a; a_cells := a_cells a; a_dir := Some d; a_vals := a_vals a; a_eof := a_eof a |}.
Definition set_vals (v : list (Z * table (list byte))) (a : acc) : acc :=
  {| a_pos := a_pos a; a_edges := a_edges a; a_faces := a_faces a; a_cells := a_cells a; a_dir := a_dir a; a_vals := v; a_eof := a_eof a |}.
Definition set_eof (a : acc) : acc :=
  {| a_pos := a_pos a; a_edges := a_edges a; a_faces := a_faces a; a_cells := a_cells a; a_dir := a_dir a; a_vals := a_vals a; a_eof := true |}.

(* ================================================================================================ VERT *)
Lemma concat_enc_pos ps : concat (map enc_pos ps) = concat (map (le_encode 8) (concat ps)).
Proof.
  induction ps as [|p t IH]; [reflexivity|]. cbn [map concat]. rewrite map_app, concat_app, IH. reflexivity.
Qed.

Lemma len_concat_le_encode w xs : len (concat (map (le_encode w) xs)) = len xs * Z.of_nat w.
Proof. induction xs as [|x t IH]; [reflexivity|]. cbn [map concat]. rewrite len_app, len_cons, len_le_encode, IH. lia. Qed.

Lemma len_concat_dim (ps : list (list Z)) dim : Forall (fun p => len p = dim) ps -> len (concat ps) = len ps * dim.
Proof. apply len_concat_const. Qed.

Lemma interp_vert_enc h a first ps done :
  tab_is (a_pos a) done -> first = len done ->
  0 <= first -> first + len ps <= k_n_vertices h -> k_n_vertices h < 18446744073709551616 -> len ps < 4294967296 ->
  0 <= k_vertex_dim h -> Forall (fun p => len p = k_vertex_dim h /\ Forall u64_ok p) ps ->
  exists t', interp_vert h a (vert_payload first ps) = Some (set_pos t' a) /\ tab_is t' (done ++ ps).
Proof.
  intros Ht -> Hf0 Hf1 Hnv Hlen Hdim Hps.
  pose proof (len_nonneg ps) as Hn0.
  assert (Hl : Forall (fun p => len p = k_vertex_dim h) ps) by (eapply Forall_impl; [|exact Hps]; intros p [A _]; exact A).
  assert (Hr : Forall (fun x => 0 <= x < 256 ^ Z.of_nat 8) (concat ps)).
  { clear - Hps. induction Hps as [|p t [_ Hp] Ht IH]; cbn [concat]; [constructor|]. apply Forall_app. split; [exact Hp|exact IH]. }
  pose proof (len_concat_dim ps _ Hl) as Lc.
  destruct (place_app ps (a_pos a) done Ht) as [t' [P1 P2]].
  exists t'. split; [|exact P2].
  unfold interp_vert, vert_payload.
  set (data := concat (map enc_pos ps)).
  assert (Ld : len data = len ps * k_vertex_dim h * 8).
  { unfold data. rewrite concat_enc_pos. rewrite len_concat_le_encode, Lc. change (Z.of_nat 8) with 8. reflexivity. }
  destruct (span_fields (len done) (len ps) ([VertexEncoding_Double; 0; 0; 0] ++ data)) as [F1 F2]; [lia|lia|].
  rewrite ltb_false by (lens; pose proof (len_nonneg data); zlia).
  cbv zeta. rewrite F1, F2.
  assert (F3 : u 1 12 (write_span (len done) (len ps) ++ [VertexEncoding_Double; 0; 0; 0] ++ data) = 2).
  { unfold u. change 12%nat with (12 + 0)%nat. rewrite skipn_span. reflexivity. }
  assert (F4 : sub 13 3 (write_span (len done) (len ps) ++ [VertexEncoding_Double; 0; 0; 0] ++ data) = [0; 0; 0]).
  { unfold sub. change 13%nat with (12 + 1)%nat. rewrite skipn_span. reflexivity. }
  assert (F5 : skipn 16 (write_span (len done) (len ps) ++ [VertexEncoding_Double; 0; 0; 0] ++ data) = data).
  { change 16%nat with (12 + 4)%nat. rewrite skipn_span. reflexivity. }
  rewrite F3, F4, F5. cbn [list_eqb Z.eqb Pos.eqb andb negb].
  unfold span_ok. rewrite (leb_true 0 (len done)) by lia. rewrite (leb_true (len done + len ps)) by lia. cbn [andb negb].
  assert (Lb : len (write_span (len done) (len ps) ++ [VertexEncoding_Double; 0; 0; 0] ++ data) - 16 = len ps * k_vertex_dim h * Z.of_nat 8).
  { lens. change (Z.of_nat 8) with 8. zlia. }
  rewrite Lb, Z.eqb_refl. cbn [negb].
  replace (Z.to_nat (len ps * k_vertex_dim h)) with (length (concat ps)) by (rewrite <- Lc; symmetry; apply to_nat_len).
  unfold data. rewrite concat_enc_pos. rewrite <- (app_nil_r (concat (map (le_encode 8) (concat ps)))).
  rewrite ints_enc by exact Hr.
  rewrite to_nat_len. rewrite (repeat_map_len ps _ Hl). rewrite split_by_concat. rewrite P1. reflexivity.
Qed.

(* ================================================================================================ TOPO *)
(* the stored integers: handle minus handle_offset *)
Definition raw_items (off : Z) (items : list (list Z)) : list (list Z) := map (map (fun x => x - off)) items.

Definition spec_items (valence venc count : Z) (hw : nat) (data : list byte) : option (list (list Z)) :=
  if valence =? 0 then
    match int_width venc with
    | None => None
    | Some vw =>
        match ints (Z.to_nat count) vw data with
        | None => None
        | Some (vals, rest) =>
            if negb (len rest =? fold_left Z.add vals 0 * Z.of_nat hw) then None
            else match ints (Z.to_nat (fold_left Z.add vals 0)) hw rest with
                 | None => None
                 | Some (hs, _) => split_by vals hs
                 end
        end
    end
  else
    if negb (venc =? 0) then None
    else if negb (len data =? count * valence * Z.of_nat hw) then None
    else match ints (Z.to_nat (count * valence)) hw data with
         | None => None
         | Some (hs, _) => split_by (repeat valence (Z.to_nat count)) hs
         end.

(* the valence rules of either form, without the reader's 32-bit limit *)
Definition sform_ok (f : pform) (items : list (list Z)) : Prop :=
  match f with
  | PFixed v => 1 <= v <= 255 /\ Forall (fun x => len x = v) items
  | PVar venc => enc_ok venc /\ Forall (fun x => 0 <= len x < enc_lim venc) items
  end.

Lemma form_ok_sform f items : form_ok f items -> sform_ok f items.
Proof. destruct f; cbn [form_ok sform_ok]; intros H; exact H. Qed.

Lemma concat_enc_handles henc off items :
  concat (map (enc_handles henc off) items) = concat (map (enc_int henc) (concat (raw_items off items))).
Proof.
  unfold raw_items, enc_handles. induction items as [|x t IH]; [reflexivity|].
  cbn [map concat]. rewrite map_app, concat_app, IH. rewrite map_map. reflexivity.
Qed.

Lemma raw_lens off items : map (fun x => len x) (raw_items off items) = map (fun x => len x) items.
Proof. unfold raw_items. rewrite map_map. apply map_ext. intros x. apply len_map. Qed.

Lemma raw_fits henc off items : Forall (Forall (off_fits henc off)) items ->
  Forall (fun x => 0 <= x < enc_lim henc) (concat (raw_items off items)).
Proof.
  unfold raw_items. induction 1 as [|x t Hx Ht IH]; cbn [map concat]; [constructor|].
  apply Forall_app. split; [|exact IH]. clear - Hx. induction Hx; cbn [map]; constructor; assumption.
Qed.

Lemma hsum_raw off items : len (concat (raw_items off items)) = hsum items.
Proof.
  unfold raw_items, hsum. induction items as [|x t IH]; [reflexivity|]. cbn [map concat fold_right]. rewrite len_app, len_map, IH. reflexivity.
Qed.

Lemma spec_items_enc f henc off items : enc_ok henc -> sform_ok f items -> Forall (Forall (off_fits henc off)) items ->
  spec_items (form_valence f) (form_venc f) (len items) (Z.to_nat henc)
    (valence_data f items ++ concat (map (enc_handles henc off) items)) = Some (raw_items off items).
Proof.
  intros He Hf Hfit. pose proof (enc_ok_pos _ He) as Hep. pose proof (len_nonneg items) as Hn0.
  pose proof (raw_fits henc off items Hfit) as Hr. pose proof (hsum_raw off items) as Hs.
  rewrite concat_enc_handles.
  assert (Ld : len (concat (map (enc_int henc) (concat (raw_items off items)))) = hsum items * henc)
    by (rewrite len_enc_ints by exact He; rewrite Hs; reflexivity).
  unfold spec_items. destruct f as [v|venc]; cbn [form_valence form_venc valence_data sform_ok] in *.
  - destruct Hf as [Hv Hall]. rewrite (eqb_false v 0) by lia. cbn [app Z.eqb negb IntEncoding_None].
    rewrite (hsum_const items v Hall) in *.
    rewrite (eqb_true (len _)) by (rewrite Ld, Z2Nat.id by lia; lia). cbn [negb].
    replace (Z.to_nat (len items * v)) with (length (concat (raw_items off items))) by (rewrite <- Hs; symmetry; apply to_nat_len).
    rewrite <- (app_nil_r (concat (map (enc_int henc) _))). rewrite ints_enc_int by assumption.
    rewrite to_nat_len. rewrite (repeat_map_len items v Hall). rewrite <- (raw_lens off). apply split_by_concat.
  - destruct Hf as [Hve Hall]. cbn [Z.eqb]. rewrite int_width_ok by exact Hve.
    rewrite <- (len_map (fun x => len x) items). rewrite to_nat_len.
    rewrite ints_enc_int; [|exact Hve|clear - Hall; induction Hall; cbn [map]; constructor; assumption].
    rewrite fold_left_add_hsum.
    rewrite (eqb_true (len _)) by (rewrite Ld, Z2Nat.id by lia; lia). cbn [negb].
    replace (Z.to_nat (hsum items)) with (length (concat (raw_items off items))) by (rewrite <- Hs; symmetry; apply to_nat_len).
    rewrite <- (app_nil_r (concat (map (enc_int henc) _))). rewrite ints_enc_int by assumption.
    rewrite <- (raw_lens off). apply split_by_concat.
Qed.

Lemma unraw off items : Forall (Forall (fun x => 0 <= x < two64)) items ->
  map (map (fun x => (x + off) mod two64)) (raw_items off items) = items.
Proof.
  unfold raw_items. induction 1 as [|x t Hx Ht IH]; [reflexivity|]. cbn [map]. f_equal; [|exact IH].
  clear - Hx. induction Hx as [|y u Hy Hu IH]; [reflexivity|]. cbn [map]. f_equal; [|exact IH].
  replace (y - off + off) with y by lia. apply Z.mod_small. exact Hy.
Qed.

Lemma topo_fields first count entity valence venc henc off data :
  0 <= first < 18446744073709551616 -> 0 <= count < 4294967296 -> 0 <= off < 18446744073709551616 ->
  let b := topo_header_off first count entity valence venc henc off ++ data in
  u 8 0 b = first /\ u 4 8 b = count /\ u 1 12 b = entity /\ u 1 13 b = valence /\ u 1 14 b = venc /\ u 1 15 b = henc /\
  u 8 16 b = off /\ skipn 24 b = data /\ len b = 24 + len data.
Proof.
  intros Hf Hc Ho. cbv zeta. unfold topo_header_off. rewrite <- !app_assoc.
  destruct (span_fields first count ([entity; valence; venc; henc] ++ enc_u64 off ++ data) Hf Hc) as [F1 F2].
  split; [exact F1|]. split; [exact F2|].
  match goal with |- context [u 1 12 ?B] => remember B as X eqn:EX end.
  assert (S12 : skipn 12 X = entity :: valence :: venc :: henc :: (enc_u64 off ++ data)) by (rewrite EX; exact (skipn_span 0 first count _)).
  assert (Sk : forall k, skipn (12 + k) X = skipn k (skipn 12 X)) by (intros k; symmetry; apply skipn_skipn').
  assert (S13 : skipn 13 X = valence :: venc :: henc :: (enc_u64 off ++ data))
    by (change (skipn 13 X) with (skipn (12 + 1) X); rewrite Sk, S12; reflexivity).
  assert (S14 : skipn 14 X = venc :: henc :: (enc_u64 off ++ data))
    by (change (skipn 14 X) with (skipn (12 + 2) X); rewrite Sk, S12; reflexivity).
  assert (S15 : skipn 15 X = henc :: (enc_u64 off ++ data))
    by (change (skipn 15 X) with (skipn (12 + 3) X); rewrite Sk, S12; reflexivity).
  assert (S16 : skipn 16 X = enc_u64 off ++ data)
    by (change (skipn 16 X) with (skipn (12 + 4) X); rewrite Sk, S12; reflexivity).
  assert (S24 : skipn 24 X = data).
  { change (skipn 24 X) with (skipn (12 + 12) X). rewrite Sk, S12.
    change (skipn 12 (entity :: valence :: venc :: henc :: enc_u64 off ++ data)) with (skipn 8 (enc_u64 off ++ data)).
    apply skipn_exact. apply le_encode_length. }
  unfold u. rewrite S12, S13, S14, S15, S16, S24.
  rewrite (firstn_exact (enc_u64 off) data 8) by apply le_encode_length.
  cbn [firstn]. rewrite !le_decode_1.
  repeat split; try reflexivity.
  - apply le_decode_encode. exact Ho.
  - rewrite EX. lens. zlia.
Qed.

Lemma enc_edge_handles henc off e : enc_edge henc off e = enc_handles henc off [fst e; snd e].
Proof. unfold enc_edge, enc_handles. cbn [map concat]. rewrite app_nil_r. reflexivity. Qed.

Definition edge_items (es : list (Z * Z)) : list (list Z) := map (fun e => [fst e; snd e]) es.

Lemma edge_items_back es : map (fun l => (nth 0 l 0, nth 1 l 0)) (edge_items es) = es.
Proof. unfold edge_items. rewrite map_map. cbn [nth]. induction es as [|[a b] t IH]; [reflexivity|]. cbn [map fst snd]. rewrite IH. reflexivity. Qed.

Lemma forallb_lt lim items : Forall (Forall (fun x => 0 <= x < lim)) items -> forallb (forallb (fun x => x <? lim)) items = true.
Proof.
  intros H. apply forallb_Forall. eapply Forall_impl; [|exact H]. intros l Hl. apply forallb_Forall.
  eapply Forall_impl; [|exact Hl]. intros x Hx. cbv beta in Hx. apply Z.ltb_lt. lia.
Qed.

Lemma u64_of_lim lim items : lim <= two64 -> Forall (Forall (fun x => 0 <= x < lim)) items -> Forall (Forall (fun x => 0 <= x < two64)) items.
Proof.
  intros Hl H. eapply Forall_impl; [|exact H]. intros l Hx. eapply Forall_impl; [|exact Hx]. intros x Hy. cbv beta in *. lia.
Qed.

Lemma interp_topo_edges h a first henc off es done :
  tab_is (a_edges a) done -> first = len done ->
  es <> [] -> 0 <= first -> first + len es <= k_n_edges h -> k_n_edges h < 4294967296 -> k_n_vertices h <= two64 ->
  enc_ok henc -> 0 <= off < 18446744073709551616 ->
  Forall (fun e => off_fits henc off (fst e) /\ off_fits henc off (snd e)) es ->
  Forall (fun e => (0 <= fst e < k_n_vertices h) /\ (0 <= snd e < k_n_vertices h)) es ->
  exists t', interp_topo h a (edges_payload first henc off es) = Some (set_edges t' a) /\ tab_is t' (done ++ es).
Proof.
  intros Ht -> Hne Hf0 Hf1 Hne' Hnv He Hoff Hfit Hrange.
  pose proof (len_nonneg es) as Hn0.
  destruct (place_app es (a_edges a) done Ht) as [t' [P1 P2]].
  exists t'. split; [|exact P2].
  unfold edges_payload.
  replace (concat (map (enc_edge henc off) es)) with (concat (map (enc_handles henc off) (edge_items es)))
    by (unfold edge_items; rewrite map_map; f_equal; apply map_ext; intros e; symmetry; apply enc_edge_handles).
  set (data := concat (map (enc_handles henc off) (edge_items es))).
  destruct (topo_fields (len done) (len es) TopoEntity_Edge 2 IntEncoding_None henc off data) as [F1 [F2 [F3 [F4 [F5 [F6 [F7 [F8 F9]]]]]]]]; try lia.
  unfold interp_topo. rewrite F9. rewrite ltb_false by (pose proof (len_nonneg data); lia).
  cbv zeta. rewrite F1, F2, F3, F4, F5, F6, F7, F8. rewrite int_width_ok by exact He.
  assert (Hfit' : Forall (Forall (off_fits henc off)) (edge_items es)).
  { unfold edge_items. clear - Hfit. induction Hfit as [|e t [A B] Ht IH]; cbn [map]; constructor; [|exact IH]. constructor; [exact A|constructor; [exact B|constructor]]. }
  assert (Hall : Forall (fun x => len x = 2) (edge_items es)).
  { unfold edge_items. clear. induction es; cbn [map]; constructor; [reflexivity|assumption]. }
  assert (H2 : 1 <= 2 <= 255) by lia.
  pose proof (spec_items_enc (PFixed 2) henc off (edge_items es) He (conj H2 Hall) Hfit') as SI.
  cbn [form_valence form_venc valence_data app] in SI. unfold edge_items in SI at 1. rewrite len_map in SI.
  match goal with |- match ?X with Some _ => _ | None => _ end = _ =>
    change X with (spec_items 2 IntEncoding_None (len es) (Z.to_nat henc) data) end.
  unfold data. rewrite SI.
  assert (Hr2 : Forall (Forall (fun x => 0 <= x < k_n_vertices h)) (edge_items es)).
  { unfold edge_items. clear - Hrange. induction Hrange as [|e t [A B] Ht IH]; cbn [map]; constructor; [|exact IH]. constructor; [exact A|constructor; [exact B|constructor]]. }
  rewrite unraw by (apply (u64_of_lim (k_n_vertices h)); assumption).
  cbn [Z.eqb Pos.eqb TopoEntity_Edge].
  unfold span_ok. rewrite (leb_true 0 (len done)) by lia. rewrite (leb_true (len done + len es)) by lia. cbn [andb negb orb].
  rewrite forallb_lt by exact Hr2. cbn [negb].
  rewrite edge_items_back. rewrite P1. reflexivity.
Qed.

Lemma topo_check_spec topo t req items : (topo = t -> valences_are req items) ->
  (topo =? t) && negb (forallb (fun l => len l =? req) items) = false.
Proof.
  intros H. destruct (topo =? t) eqn:E; [|reflexivity]. apply Z.eqb_eq in E. specialize (H E).
  cbn [andb]. apply negb_false_iff. apply forallb_Forall. eapply Forall_impl; [|exact H]. intros l Hl. apply Z.eqb_eq. exact Hl.
Qed.

Lemma interp_topo_faces h a first f henc off items done :
  tab_is (a_faces a) done -> first = len done ->
  0 <= first -> first + len items <= k_n_faces h -> k_n_faces h < 18446744073709551616 -> len items < 4294967296 -> 2 * k_n_edges h <= two64 ->
  enc_ok henc -> 0 <= off < 18446744073709551616 -> sform_ok f items ->
  Forall (Forall (off_fits henc off)) items ->
  Forall (Forall (fun x => 0 <= x < 2 * k_n_edges h)) items ->
  topo_req (k_topo_type h) 3 4 items ->
  exists t', interp_topo h a (poly_payload TopoEntity_Face first f henc off items) = Some (set_faces t' a) /\ tab_is t' (done ++ items).
Proof.
  intros Ht -> Hf0 Hf1 Hnf Hlen Hlim He Hoff Hf Hfit Hrange [Htet Hhex].
  pose proof (len_nonneg items) as Hn0.
  destruct (place_app items (a_faces a) done Ht) as [t' [P1 P2]].
  exists t'. split; [|exact P2].
  unfold poly_payload.
  set (data := valence_data f items ++ concat (map (enc_handles henc off) items)).
  destruct (topo_fields (len done) (len items) TopoEntity_Face (form_valence f) (form_venc f) henc off data)
    as [F1 [F2 [F3 [F4 [F5 [F6 [F7 [F8 F9]]]]]]]]; try lia.
  unfold interp_topo. rewrite F9. rewrite ltb_false by (pose proof (len_nonneg data); lia).
  cbv zeta. rewrite F1, F2, F3, F4, F5, F6, F7, F8. rewrite int_width_ok by exact He.
  pose proof (spec_items_enc f henc off items He Hf Hfit) as SI.
  match goal with |- match ?X with Some _ => _ | None => _ end = _ =>
    change X with (spec_items (form_valence f) (form_venc f) (len items) (Z.to_nat henc) data) end.
  unfold data. rewrite SI.
  rewrite unraw by (apply (u64_of_lim (2 * k_n_edges h)); assumption).
  cbn [Z.eqb Pos.eqb TopoEntity_Face].
  unfold span_ok. rewrite (leb_true 0 (len done)) by lia. rewrite (leb_true (len done + len items)) by lia. cbn [andb negb].
  rewrite forallb_lt by exact Hrange. cbn [negb].
  rewrite (topo_check_spec (k_topo_type h) 1 3 items Htet). rewrite (topo_check_spec (k_topo_type h) 2 4 items Hhex).
  rewrite P1. reflexivity.
Qed.

Lemma interp_topo_cells h a first f henc off items done :
  tab_is (a_cells a) done -> first = len done ->
  0 <= first -> first + len items <= k_n_cells h -> k_n_cells h < 18446744073709551616 -> len items < 4294967296 -> 2 * k_n_faces h <= two64 ->
  enc_ok henc -> 0 <= off < 18446744073709551616 -> sform_ok f items ->
  Forall (Forall (off_fits henc off)) items ->
  Forall (Forall (fun x => 0 <= x < 2 * k_n_faces h)) items ->
  topo_req (k_topo_type h) 4 6 items ->
  exists t', interp_topo h a (poly_payload TopoEntity_Cell first f henc off items) = Some (set_cells t' a) /\ tab_is t' (done ++ items).
Proof.
  intros Ht -> Hf0 Hf1 Hnf Hlen Hlim He Hoff Hf Hfit Hrange [Htet Hhex].
  pose proof (len_nonneg items) as Hn0.
  destruct (place_app items (a_cells a) done Ht) as [t' [P1 P2]].
  exists t'. split; [|exact P2].
  unfold poly_payload.
  set (data := valence_data f items ++ concat (map (enc_handles henc off) items)).
  destruct (topo_fields (len done) (len items) TopoEntity_Cell (form_valence f) (form_venc f) henc off data)
    as [F1 [F2 [F3 [F4 [F5 [F6 [F7 [F8 F9]]]]]]]]; try lia.
  unfold interp_topo. rewrite F9. rewrite ltb_false by (pose proof (len_nonneg data); lia).
  cbv zeta. rewrite F1, F2, F3, F4, F5, F6, F7, F8. rewrite int_width_ok by exact He.
  pose proof (spec_items_enc f henc off items He Hf Hfit) as SI.
  match goal with |- match ?X with Some _ => _ | None => _ end = _ =>
    change X with (spec_items (form_valence f) (form_venc f) (len items) (Z.to_nat henc) data) end.
  unfold data. rewrite SI.
  rewrite unraw by (apply (u64_of_lim (2 * k_n_faces h)); assumption).
  cbn [Z.eqb Pos.eqb TopoEntity_Cell].
  unfold span_ok. rewrite (leb_true 0 (len done)) by lia. rewrite (leb_true (len done + len items)) by lia. cbn [andb negb].
  rewrite forallb_lt by exact Hrange. cbn [negb].
  rewrite (topo_check_spec (k_topo_type h) 1 4 items Htet). rewrite (topo_check_spec (k_topo_type h) 2 6 items Hhex).
  rewrite P1. reflexivity.
Qed.

(* ================================================================================================ DIRP *)
Definition dir_entry_of (pt : prop * ptype) : Z * list byte * list byte * list byte :=
  (p_ent (fst pt), p_name (fst pt), p_tname (fst pt), encode_value (snd pt) (p_def (fst pt))).

Lemma interp_dir_enc es : Forall dentry_ok es -> forall fuel, (length es <= fuel)%nat ->
  interp_dir fuel (dirp_payload es) = Some (map dir_entry_of es).
Proof.
  unfold dirp_payload. induction 1 as [|[p ty] t Hpt Ht IH]; intros fuel Hf.
  - destruct fuel; reflexivity.
  - destruct Hpt as [He [Hn [Htn [Hc [Hv Hd]]]]]. cbn [fst snd] in *.
    cbn [length] in Hf. destruct fuel as [|f]; [lia|].
    cbn [map concat]. unfold dirp_entry at 1. rewrite <- !app_assoc. cbn [app interp_dir].
    rewrite ltb_false by lia.
    rewrite lp_vec32 by lia. rewrite lp_vec32 by exact Htn. rewrite lp_vec32 by exact Hd.
    rewrite IH by lia. reflexivity.
Qed.

(* ================================================================================================ PROP *)
Lemma elems_fix_enc (w : nat) vs : (1 <= w)%nat -> Forall (fun v => length v = w) vs -> forall fuel, (length vs <= fuel)%nat ->
  elems_fix fuel (len vs) w (concat vs) = Some vs.
Proof.
  intros Hw. induction 1 as [|v t Hv Ht IH]; intros fuel Hf.
  - destruct fuel; reflexivity.
  - cbn [length] in Hf. destruct fuel as [|f]; [lia|].
    cbn [elems_fix concat]. rewrite len_cons. rewrite leb_false by (pose proof (len_nonneg t); lia).
    replace (Nat.ltb (length (v ++ concat t)) w) with false by (symmetry; apply Nat.ltb_ge; rewrite app_length; lia).
    rewrite skipn_exact by exact Hv. rewrite firstn_exact by exact Hv.
    replace (1 + len t - 1) with (len t) by lia. rewrite IH by lia. reflexivity.
Qed.

Lemma elems_str_enc vs : Forall (fun v => len v < 4294967296) vs -> forall fuel, (length vs <= fuel)%nat ->
  elems_str fuel (len vs) (encode_n TStr vs) = Some vs.
Proof.
  cbn [encode_n]. induction 1 as [|v t Hv Ht IH]; intros fuel Hf.
  - destruct fuel; reflexivity.
  - cbn [length] in Hf. destruct fuel as [|f]; [lia|].
    cbn [elems_str map concat encode_value]. rewrite len_cons. rewrite leb_false by (pose proof (len_nonneg t); lia).
    change (enc_u32 (len v) ++ v) with (write_vec32 v). rewrite lp_vec32 by exact Hv.
    replace (1 + len t - 1) with (len t) by lia. rewrite IH by lia. reflexivity.
Qed.

Lemma bits_pack vs : Forall bool_val vs -> bits_of (length vs) (pack_bits vs 1) = vs.
Proof.
  induction 1 as [|v t Hv Ht IH]; [reflexivity|].
  cbn [length bits_of pack_bits]. change (2 * 1) with 2.
  assert (E : pack_bits t 2 = 2 * pack_bits t 1) by (exact (pack_bits_lin t 1)). rewrite E.
  destruct Hv as [-> | ->]; cbn [hd Z.eqb].
  - replace (0 + 2 * pack_bits t 1) with (pack_bits t 1 * 2) by lia.
    rewrite Z.mod_mul, Z.div_mul by lia. rewrite IH. reflexivity.
  - replace (1 + 2 * pack_bits t 1) with (1 + pack_bits t 1 * 2) by lia.
    rewrite Z.mod_add, Z.div_add by lia. change (1 mod 2) with 1. change (1 / 2) with 0. rewrite Z.add_0_l. rewrite IH. reflexivity.
Qed.

Lemma elems_bool_enc n : forall vs, (length vs <= n)%nat -> Forall bool_val vs -> forall fuel cnt,
  (cnt = len vs \/ (cnt <= 0 /\ vs = [])) -> (length (pack_bools n vs) < fuel)%nat ->
  elems_bool fuel cnt (pack_bools n vs) = Some vs.
Proof.
  induction n as [|n IH]; intros vs Hn Hb fuel cnt Hc Hf.
  - destruct vs; [|cbn [length] in Hn; lia]. cbn [pack_bools].
    assert (cnt <= 0) by (destruct Hc as [-> | [? _]]; [unfold len; simpl; lia|assumption]).
    destruct fuel; cbn [elems_bool]; rewrite leb_true by assumption; reflexivity.
  - destruct vs as [|v t].
    + cbn [pack_bools].
      assert (cnt <= 0) by (destruct Hc as [-> | [? _]]; [unfold len; simpl; lia|assumption]).
      destruct fuel; cbn [elems_bool]; rewrite leb_true by assumption; reflexivity.
    + destruct Hc as [-> | [_ Hc]]; [|discriminate].
      rewrite pack_bools_cons in *.
      remember (v :: t) as vs eqn:Evs.
      assert (Hpos : 0 < len vs) by (subst vs; apply len_pos_cons).
      cbn [length] in Hf. destruct fuel as [|f]; [lia|].
      cbn [elems_bool]. rewrite leb_false by lia.
      assert (Hl : Z.to_nat (Z.min 8 (len vs)) = length (firstn 8 vs)).
      { rewrite length_firstn_min. unfold len. lia. }
      rewrite Hl. rewrite bits_pack by (apply Forall_firstn'; exact Hb).
      rewrite (IH (skipn 8 vs)).
      * rewrite firstn_skipn. reflexivity.
      * rewrite skipn_length. cbn [length] in Hn. lia.
      * apply Forall_skipn'; exact Hb.
      * assert (Hcase : (length vs <= 8)%nat \/ (8 < length vs)%nat) by lia.
        destruct Hcase as [Hc8|Hc8].
        -- right. split; [unfold len; lia|]. apply skipn_all2. lia.
        -- left. unfold len. rewrite skipn_length. lia.
      * lia.
Qed.

Lemma prop_fields idx first count data : 0 <= first < 18446744073709551616 -> 0 <= count < 4294967296 -> 0 <= idx < 4294967296 ->
  let b := write_span first count ++ enc_u32 idx ++ data in
  u 8 0 b = first /\ u 4 8 b = count /\ u 4 12 b = idx /\ skipn 16 b = data /\ len b = 16 + len data.
Proof.
  intros Hf Hc Hi. cbv zeta. destruct (span_fields first count (enc_u32 idx ++ data) Hf Hc) as [F1 F2].
  split; [exact F1|]. split; [exact F2|]. split; [|split].
  - unfold u. change 12%nat with (12 + 0)%nat. rewrite skipn_span. cbn [skipn].
    rewrite firstn_exact by apply le_encode_length. apply le_decode_encode. exact Hi.
  - change 16%nat with (12 + 4)%nat. rewrite skipn_span. apply skipn_exact. apply le_encode_length.
  - lens. zlia.
Qed.

(* the element table of property idx *)
Definition vals_tab (a : acc) (idx : Z) : table (list byte) := match tlookup idx (a_vals a) with Some t => t | None => [] end.

Lemma tlookup_tupdate {A} (k : Z) (v : A) l : forall j, tlookup j (tupdate k v l) = if j =? k then Some v else tlookup j l.
Proof.
  induction l as [|[i w] r IH]; intros j; cbn [tupdate tlookup].
  - rewrite (Z.eqb_sym j k). reflexivity.
  - destruct (i =? k) eqn:E.
    + apply Z.eqb_eq in E. subst i. cbn [tlookup]. destruct (j =? k); reflexivity.
    + cbn [tlookup]. rewrite IH. destruct (j =? i) eqn:E2; [|reflexivity].
      apply Z.eqb_eq in E2. subst j. rewrite E. reflexivity.
Qed.

Lemma interp_prop_enc h a idx first ty vals dir e name tn df done :
  a_dir a = Some dir -> nth_error dir (Z.to_nat idx) = Some (e, name, tn, df) -> codec_of tn = Some ty ->
  tab_is (vals_tab a idx) done -> first = len done ->
  0 <= idx < 4294967296 -> 0 <= first -> first + len vals <= entity_total h e -> entity_total h e < 18446744073709551616 ->
  len vals < 4294967296 -> ty_ok ty -> Forall (val_ok ty) vals ->
  exists t', interp_prop h a (prop_payload idx first ty vals) = Some (set_vals (tupdate idx t' (a_vals a)) a) /\ tab_is t' (done ++ vals).
Proof.
  intros Hdir Hnth Hcodec Ht -> Hidx Hf0 Hf1 Htot Hlen Htok Hv.
  pose proof (len_nonneg vals) as Hn0.
  destruct (place_app vals (vals_tab a idx) done Ht) as [t' [P1 P2]].
  exists t'. split; [|exact P2].
  unfold prop_payload.
  destruct (prop_fields idx (len done) (len vals) (encode_n ty vals)) as [F1 [F2 [F3 [F4 F5]]]]; try lia.
  unfold interp_prop. rewrite F5. rewrite ltb_false by (pose proof (len_nonneg (encode_n ty vals)); lia).
  cbv zeta. rewrite F1, F2, F3, F4. rewrite Hdir, Hnth, Hcodec.
  unfold span_ok. rewrite (leb_true 0 (len done)) by lia. rewrite (leb_true (len done + len vals)) by lia. cbn [andb negb].
  assert (Hel : match ty with
                | TBool => elems_bool (S (length (encode_n ty vals))) (len vals) (encode_n ty vals)
                | TFix n => elems_fix (S (length (encode_n ty vals))) (len vals) (Z.to_nat n) (encode_n ty vals)
                | TStr => elems_str (S (length (encode_n ty vals))) (len vals) (encode_n ty vals)
                end = Some vals).
  { destruct ty as [|n|]; cbn [val_ok ty_ok] in *.
    - cbn [encode_n]. apply elems_bool_enc; [lia|exact Hv|left; reflexivity|lia].
    - assert (Hv' : Forall (fun v => length v = Z.to_nat n) vals).
      { eapply Forall_impl; [|exact Hv]. intros v Hl. cbn [val_ok] in Hl. unfold len in Hl. zlia. }
      assert (E : encode_n (TFix n) vals = concat vals).
      { cbn [encode_n]. clear. induction vals; cbn [map concat encode_value]; [reflexivity|]. rewrite IHvals. reflexivity. }
      rewrite E. apply elems_fix_enc; [lia|exact Hv'|].
      pose proof (len_encode_fix n vals Hv) as L. rewrite E in L. unfold len in L. nia.
    - apply elems_str_enc; [exact Hv|]. pose proof (len_encode_str vals) as L. unfold len in L. lia. }
  rewrite Hel. fold (vals_tab a idx). rewrite P1. unfold set_vals. rewrite Hdir. reflexivity.
Qed.
