(* IO/OvmbReaderModel.v -- `decode_impl`, following src/OpenVolumeMesh/IO/detail/BinaryFileReader.cc / _impl.hh line by line
   (state machine, chunk framing, validate_span, read_n_ints, handle range checks, final count checks), with
   BinaryIStream.cc (make_decoder), Decoder.cc (need()-guarded primitives), ovmb_codec.cc (read(...) of the headers),
   GeometryReaderT_impl.hh, PropertyCodecs.cc / PropertyCodecsT_impl.hh (request_property, deserialize, decode_one/decode_n),
   and the add_edge / add_face / add_cell calls (TopologyKernel.cc, Tetrahedral-/HexahedralMeshTopologyKernel.cc) through
   which the mesh is rebuilt with bottom-up incidences off.

   Outcomes: a thrown parse_error is `Fail InvalidFile ErrorInvalidFile`, any other std::exception `Fail OtherError Error`
   (BinaryFileReader_impl.hh:24-47), `state_ = X; return` is `Fail InvalidFile X`.  The kernel indexes edges_/faces_
   WITHOUT checks (operator[]): every such lookup is checked here and yields `Ub`, so "the reader never makes the kernel index
   out of range" is a statement about this model that can be proved or refuted.  Integer arithmetic carries the C widths
   (32-bit products, uint64 wrap of handle + handle_offset, from_unsigned's int limit).
   Definitions only; proofs are in IO/OvmbProofs.v. *)
From Coq Require Import String Ascii.
From Coq Require Import ZArith List Bool.
From OVM Require Import Base.Int32 Gen.OvmbFormat IO.Bytes IO.OvmbWriterModel.
Import ListNotations.
Local Open Scope Z_scope.

Inductive rresult := RR_Ok | RR_OtherError | RR_InvalidFile | RR_CannotOpenFile | RR_BadStream | RR_IncompatibleMesh.
Inductive rstate :=
  | S_Ok | S_CannotOpenFile | S_BadStream | S_Init | S_HeaderRead | S_ReadingChunks | S_Finished | S_Error
  | S_ErrorInvalidFile | S_ErrorEndNotReached | S_ErrorIncompatible | S_ErrorChunkTooBig | S_ErrorMissingData
  | S_ErrorUnsupportedChunkType | S_ErrorUnsupportedChunkVersion | S_ErrorInvalidTopoType | S_ErrorHandleRange
  | S_ErrorInvalidEncoding | S_ErrorEmptyList | S_ErrorInvalidChunkSize.

(* where an unchecked container access of the kernel would be out of range *)
Inductive ubwhy := UB_edge_index | UB_face_index | UB_empty_face | UB_fuel.

Inductive R (A : Type) :=
  | Ret (a : A)
  | Fail (r : rresult) (s : rstate)
  | Ub (w : ubwhy).
Arguments Ret {A} a.
Arguments Fail {A} r s.
Arguments Ub {A} w.

Definition bind {A B} (x : R A) (f : A -> R B) : R B :=
  match x with
  | Ret a => f a
  | Fail r s => Fail r s
  | Ub w => Ub w
  end.
Notation "'do' x <- e ; k" := (bind e (fun x => k)) (at level 200, x pattern, e at level 100, k at level 200, right associativity).

Definition parse_error {A} : R A := Fail RR_InvalidFile S_ErrorInvalidFile.
Definition std_exception {A} : R A := Fail RR_OtherError S_Error.
Definition state_error {A} (s : rstate) : R A := Fail RR_InvalidFile s.

(* ------------------------------------------------------------------------------------------------ options *)
Inductive mkind := MPoly | MTet | MHex.
Record opts := {
  o_mesh : mkind;          (* class of the mesh object that is read into *)
  o_check : bool;          (* ReadOptions::topology_check *)
  o_bu : bool;             (* ReadOptions::bottom_up_incidences (no influence on the decoded content) *)
  o_dim : Z                (* MeshT::Point::dim() *)
}.

(* ------------------------------------------------------------------------------------------------ Decoder *)
(* a Decoder is the list of bytes from cur_ to end_ *)
Definition dec := list byte.

(* remaining_bytes() < n, evaluated by walking at most n elements (IO/OvmbProofs.v: short d n = (len d <? n)) *)
Fixpoint has_z (d : dec) (n : Z) : bool :=
  match d with
  | [] => n <=? 0
  | _ :: t => if n <=? 0 then true else has_z t (n - 1)
  end.
Definition short (d : dec) (n : Z) : bool := negb (has_z d n).

(* Decoder::need *)
Definition need (n : Z) (d : dec) : R unit := if short d n then parse_error else Ret tt.

(* Decoder::u8/u16/u32/u64 (need(n) first) *)
Definition rd (n : nat) (d : dec) : R (Z * dec) :=
  if short d (Z.of_nat n) then parse_error else Ret (le_decode (firstn n d), skipn n d).
Definition rd_u8 := rd 1.
Definition rd_u16 := rd 2.
Definition rd_u32 := rd 4.
Definition rd_u64 := rd 8.

(* Decoder::read(uint8_t*|char*, n) (need(n) first) *)
Definition rd_bytes (n : Z) (d : dec) : R (list byte * dec) :=
  if short d n then parse_error else Ret (firstn (Z.to_nat n) d, skipn (Z.to_nat n) d).

(* Decoder::reserved<N> *)
Definition rd_reserved (n : nat) (d : dec) : R dec :=
  do x <- rd_bytes (Z.of_nat n) d;
  let (b, d') := x in
  if forallb (fun c => c =? 0) b then Ret d' else parse_error.

(* Decoder::readVec<uint32_t>: need(4); len; need(len); bytes *)
Definition rd_vec32 (d : dec) : R (list byte * dec) :=
  do x <- rd_u32 d;
  let (n, d1) := x in
  rd_bytes n d1.

(* read_enum: the value is stored, then is_valid decides *)
Definition rd_enum8 (valid : Z -> bool) (d : dec) : R (Z * dec) :=
  do x <- rd_u8 d;
  let (v, d') := x in
  if valid v then Ret (v, d') else parse_error.

(* call_with_decoder(IntEncoding): one integer of the given encoding *)
Definition rd_int (enc : Z) (d : dec) : R (Z * dec) := rd (Z.to_nat (elem_size_IntEncoding enc)) d.

(* read(Decoder&, ArraySpan&) *)
Definition rd_span (d : dec) : R (Z * Z * dec) :=
  do _ <- need ovmb_size_ArraySpan d;
  do x <- rd_u64 d; let (first, d1) := x in
  do y <- rd_u32 d1; let (count, d2) := y in
  Ret (first, count, d2).

(* ------------------------------------------------------------------------------------------------ BinaryIStream *)
(* the bytes the stream says it still has + how many of them it will actually deliver before failing *)
Record stream := { s_bytes : list byte; s_avail : Z }.

Definition remaining_bytes (s : stream) : Z := len (s_bytes s).

(* BinaryIStream::make_decoder: size test, read, failed/short read test *)
Definition make_decoder (n : Z) (s : stream) : R (dec * stream) :=
  if remaining_bytes s <? n then parse_error
  else if (0 <? n) && (s_avail s <? n) then parse_error
  else Ret (firstn (Z.to_nat n) (s_bytes s),
            {| s_bytes := skipn (Z.to_nat n) (s_bytes s); s_avail := s_avail s - n |}).

(* ------------------------------------------------------------------------------------------------ file header *)
Record fhdr := { h_fv : Z; h_hv : Z; h_dim : Z; h_topo : Z; h_nv : Z; h_ne : Z; h_nf : Z; h_nc : Z }.
Definition zero_hdr : fhdr := {| h_fv := 0; h_hv := 0; h_dim := 0; h_topo := 0; h_nv := 0; h_ne := 0; h_nf := 0; h_nc := 0 |}.

(* read(Decoder&, FileHeader&) on a 48-byte decoder: the fields assigned before a failure stay assigned.
   result: (header as left behind, true iff read() returned true without throwing) *)
Definition read_file_header (d : dec) : fhdr * bool :=
  if negb (list_eqb (firstn 8 d) ovmb_magic) then (zero_hdr, false)
  else
    let fv := nth 8 d 0 in
    let hv := nth 9 d 0 in
    let h1 := {| h_fv := fv; h_hv := hv; h_dim := 0; h_topo := 0; h_nv := 0; h_ne := 0; h_nf := 0; h_nc := 0 |} in
    if negb (hv =? 1) then (h1, false)
    else
      let dim := nth 10 d 0 in
      let topo := nth 11 d 0 in
      let h2 := {| h_fv := fv; h_hv := hv; h_dim := dim; h_topo := topo; h_nv := 0; h_ne := 0; h_nf := 0; h_nc := 0 |} in
      if negb (is_valid_TopoType topo) then (h2, false)
      else if negb (forallb (fun c => c =? 0) (firstn 4 (skipn 12 d))) then (h2, false)
      else ({| h_fv := fv; h_hv := hv; h_dim := dim; h_topo := topo;
               h_nv := le_decode (firstn 8 (skipn 16 d)); h_ne := le_decode (firstn 8 (skipn 24 d));
               h_nf := le_decode (firstn 8 (skipn 32 d)); h_nc := le_decode (firstn 8 (skipn 40 d)) |}, true).

(* BinaryFileReader::read_header (state Init): parse_error from make_decoder / read is caught *)
Definition read_header (s : stream) : fhdr * bool * stream :=
  match make_decoder ovmb_size_FileHeader s with
  | Ret (d, s') => let (h, ok) := read_file_header d in (h, ok, s')
  | _ => (zero_hdr, false, s)
  end.

(* BinaryFileReader::compatibility<MeshT> after read_header: true = ReadCompatibility::Ok *)
Definition compatible (o : opts) (h : fhdr) : bool :=
  (h_hv h =? 1) && (h_dim h =? o_dim o) &&
  (match o_mesh o with MTet => h_topo h =? TopoType_Tetrahedral | MHex => h_topo h =? TopoType_Hexahedral | MPoly => true end) &&
  (Z.max (Z.max (h_nv h) (h_ne h)) (Z.max (h_nf h) (h_nc h)) <=? max_handle_idx).

(* ------------------------------------------------------------------------------------------------ reader state *)
Record storage := {
  st_ent : Z; st_name : list byte; st_tname : list byte; st_ty : ptype; st_def : list byte;
  st_writes : list (Z * list byte)        (* elements assigned by PROP chunks, most recent first *)
}.

Record rst := {
  r_nvr : Z; r_ner : Z; r_nfr : Z; r_ncr : Z;   (* n_*_read_ *)
  r_pos : list (list Z);                   (* positions of vertices 0 .. n_verts_read_-1 (as 64-bit patterns) *)
  r_edges : list (Z * Z);
  r_faces : list (list Z);
  r_cells : list (list Z);
  r_stor : list storage;                   (* property storages created through request_property *)
  r_props : list (option (Z * nat))        (* props_: entity + index into r_stor; None = no decoder for the type *)
}.

Definition init_rst : rst :=
  {| r_nvr := 0; r_ner := 0; r_nfr := 0; r_ncr := 0; r_pos := []; r_edges := []; r_faces := []; r_cells := [];
     r_stor := []; r_props := [] |}.

Definition add_verts (n : Z) (ps : list (list Z)) (st : rst) : rst :=
  {| r_nvr := r_nvr st + n; r_ner := r_ner st; r_nfr := r_nfr st; r_ncr := r_ncr st; r_pos := r_pos st ++ ps;
     r_edges := r_edges st; r_faces := r_faces st; r_cells := r_cells st; r_stor := r_stor st; r_props := r_props st |}.
Definition add_edges (n : Z) (es : list (Z * Z)) (st : rst) : rst :=
  {| r_nvr := r_nvr st; r_ner := r_ner st + n; r_nfr := r_nfr st; r_ncr := r_ncr st; r_pos := r_pos st;
     r_edges := r_edges st ++ es; r_faces := r_faces st; r_cells := r_cells st; r_stor := r_stor st; r_props := r_props st |}.
Definition add_faces (n : Z) (fs : list (list Z)) (st : rst) : rst :=
  {| r_nvr := r_nvr st; r_ner := r_ner st; r_nfr := r_nfr st + n; r_ncr := r_ncr st; r_pos := r_pos st;
     r_edges := r_edges st; r_faces := r_faces st ++ fs; r_cells := r_cells st; r_stor := r_stor st; r_props := r_props st |}.
Definition add_cells (n : Z) (cs : list (list Z)) (st : rst) : rst :=
  {| r_nvr := r_nvr st; r_ner := r_ner st; r_nfr := r_nfr st; r_ncr := r_ncr st + n; r_pos := r_pos st;
     r_edges := r_edges st; r_faces := r_faces st; r_cells := r_cells st ++ cs; r_stor := r_stor st; r_props := r_props st |}.
Definition set_props (stor : list storage) (props : list (option (Z * nat))) (st : rst) : rst :=
  {| r_nvr := r_nvr st; r_ner := r_ner st; r_nfr := r_nfr st; r_ncr := r_ncr st; r_pos := r_pos st;
     r_edges := r_edges st; r_faces := r_faces st; r_cells := r_cells st; r_stor := stor; r_props := props |}.

(* ------------------------------------------------------------------------------------------------ kernel calls *)
(* HandleT::from_unsigned: above INT_MAX the (NDEBUG) result is the invalid handle *)
Definition from_unsigned (x : Z) : Z := if x <=? int_max then x else -1.

Definition nth_z {A} (l : list A) (i : Z) : option A := if i <? 0 then None else nth_error l (Z.to_nat i).

(* from/to vertex of a halfedge: edges_[h/2], mirrored for odd handles *)
Definition he_verts (edges : list (Z * Z)) (h : Z) : R (Z * Z) :=
  match nth_z edges (Z.quot h 2) with
  | None => Ub UB_edge_index
  | Some (a, b) => if Z.even h then Ret (a, b) else Ret (b, a)
  end.

Definition opp_h (h : Z) : Z := Z.lxor h 1.

(* halfface(h).halfedges(): faces_[h/2] for even handles, the reversed list of opposite halfedges for odd ones *)
Definition hf_halfedges (faces : list (list Z)) (h : Z) : R (list Z) :=
  match nth_z faces (Z.quot h 2) with
  | None => Ub UB_face_index
  | Some hes => if Z.even h then Ret hes else Ret (rev (map opp_h hes))
  end.

(* TopologyKernel::add_face topology check (TopologyKernel.cc:183-197): consecutive halfedges connect, the last to the first *)
Fixpoint chain_ok (edges : list (Z * Z)) (first : Z) (hes : list Z) : R bool :=
  match hes with
  | [] => Ret true
  | [h] => do a <- he_verts edges h; do b <- he_verts edges first; Ret (snd a =? fst b)
  | h :: ((h2 :: _) as t) =>
      do a <- he_verts edges h; do b <- he_verts edges h2;
      if snd a =? fst b then chain_ok edges first t else Ret false
  end.

Definition base_add_face (edges : list (Z * Z)) (hes : list Z) (check : bool) : R (option (list Z)) :=
  if check then
    match hes with
    | [] => Ret None
    | h0 :: _ => do ok <- chain_ok edges h0 hes; Ret (if ok then Some hes else None)
    end
  else Ret (Some hes).

(* insertion sort, std::adjacent_find, std::unique with "same edge" -- TopologyKernel.cc:400-434 *)
Fixpoint zinsert (x : Z) (l : list Z) : list Z :=
  match l with
  | [] => [x]
  | y :: t => if x <=? y then x :: l else y :: zinsert x t
  end.
Definition zsort (l : list Z) : list Z := fold_right zinsert [] l.
Fixpoint adjacent_dup (l : list Z) : bool :=
  match l with
  | x :: ((y :: _) as t) => (x =? y) || adjacent_dup t
  | _ => false
  end.
Fixpoint unique_edges_from (x : Z) (l : list Z) : Z :=
  match l with
  | [] => 1
  | y :: t => if Z.quot x 2 =? Z.quot y 2 then unique_edges_from x t else 1 + unique_edges_from y t
  end.
Definition unique_edges (l : list Z) : Z := match l with [] => 0 | x :: t => unique_edges_from x t end.

Fixpoint collect_halfedges (faces : list (list Z)) (hfs : list Z) : R (list Z) :=
  match hfs with
  | [] => Ret []
  | h :: t => do a <- hf_halfedges faces h; do b <- collect_halfedges faces t; Ret (a ++ b)
  end.

Definition face_valence (faces : list (list Z)) (hf : Z) : R Z :=
  match nth_z faces (Z.quot hf 2) with
  | None => Ub UB_face_index
  | Some hes => Ret (len hes)
  end.

Definition base_add_cell (faces : list (list Z)) (hfs : list Z) (check : bool) : R (option (list Z)) :=
  if check then
    match hfs with
    | [] => Ret None
    | h0 :: _ =>
        do _ <- face_valence faces h0;                      (* guess_n_halfedges *)
        do hes <- collect_halfedges faces hfs;
        let s := zsort hes in
        if adjacent_dup s then Ret None
        else if negb (len s =? 2 * unique_edges s) then Ret None
        else Ret (Some hfs)
    end
  else Ret (Some hfs).

Fixpoint all_valence (faces : list (list Z)) (hfs : list Z) (v : Z) : R bool :=
  match hfs with
  | [] => Ret true
  | h :: t => do n <- face_valence faces h; if n =? v then all_valence faces t v else Ret false
  end.

(* HexahedralMeshTopologyKernel::get_adjacent_halfface *)
Fixpoint get_adjacent_halfface (faces : list (list Z)) (hfh heh : Z) (hfs : list Z) : R Z :=
  match hfs with
  | [] => Ret (-1)
  | it :: t =>
      if it =? hfh then get_adjacent_halfface faces hfh heh t
      else do hes <- hf_halfedges faces it;
           if existsb (fun x => x =? opp_h heh) hes then Ret it else get_adjacent_halfface faces hfh heh t
  end.

Definition nthd (l : list Z) (i : nat) : Z := nth i l (-1).

(* from-vertex of a halfedge OF A STORED FACE (halfedge(heh).from_vertex() in the two hexahedral vertex tests below).  Total:
   the handles of stored faces were bounded by mk_handle when the face chunk was read (and, with the topology check on, every one
   of them has been through he_verts in chain_ok), so the index is in range in every state the reader reaches; an out-of-range
   index reads as -1 here instead of UB *)
Definition he_from_t (edges : list (Z * Z)) (h : Z) : Z :=
  match nth_z edges (Z.quot h 2) with
  | Some (a, b) => if Z.even h then a else b
  | None => -1
  end.

Fixpoint cell_from_vertices (edges : list (Z * Z)) (faces : list (list Z)) (hfs : list Z) : R (list Z) :=
  match hfs with
  | [] => Ret []
  | h :: t => do a <- hf_halfedges faces h; do b <- cell_from_vertices edges faces t; Ret (map (he_from_t edges) a ++ b)
  end.

(* std::set<VertexHandle>::size() *)
Fixpoint count_distinct_sorted (l : list Z) : Z :=
  match l with
  | [] => 0
  | x :: t => (match t with y :: _ => if x =? y then 0 else 1 | [] => 1 end) + count_distinct_sorted t
  end.
Definition count_distinct (l : list Z) : Z := count_distinct_sorted (zsort l).

(* the from-vertex lists of the halffaces, one list per halfface (fix "checked tet add_cell must reject four triangles on fewer than four
   vertex triples": the std::set of the four std::set<VertexHandle>); two lists denote the same set iff each is included in the other *)
Fixpoint cell_triples (edges : list (Z * Z)) (faces : list (list Z)) (hfs : list Z) : R (list (list Z)) :=
  match hfs with
  | [] => Ret []
  | h :: t => do a <- hf_halfedges faces h; do b <- cell_triples edges faces t; Ret (map (he_from_t edges) a :: b)
  end.
Definition same_zset (a b : list Z) : bool :=
  forallb (fun x => existsb (fun y => x =? y) b) a && forallb (fun x => existsb (fun y => x =? y) a) b.
Fixpoint distinct_zsets (l : list (list Z)) : list (list Z) :=
  match l with
  | [] => []
  | x :: t => if existsb (same_zset x) t then distinct_zsets t else x :: distinct_zsets t
  end.
Definition count_distinct_sets (l : list (list Z)) : Z := len (distinct_zsets l).

(* one side of HexahedralMeshTopologyKernel::check_halfface_ordering: offset = -1 until the first match *)
Fixpoint order_side (faces : list (list Z)) (hfs : list Z) (top : Z) (first4 order : list nat) (hes : list Z) (offset : Z) : R (option Z) :=
  match hes with
  | [] => Ret (Some offset)
  | he :: t =>
      do a <- get_adjacent_halfface faces top he hfs;
      if offset =? -1 then
        let off :=
          if a =? nthd hfs (nth 0 first4 0%nat) then 0
          else if a =? nthd hfs (nth 1 first4 0%nat) then 1
          else if a =? nthd hfs (nth 2 first4 0%nat) then 2
          else if a =? nthd hfs (nth 3 first4 0%nat) then 3 else -1 in
        order_side faces hfs top first4 order t off
      else
        let off := (offset + 1) mod 4 in
        if a =? nthd hfs (nth (Z.to_nat off) order 0%nat) then order_side faces hfs top first4 order t off
        else Ret None
  end.

(* since the fix "hex halfface ordering check must require vertex-disjoint top and bottom faces": no from-vertex of the second
   halfface is a from-vertex of the first *)
Definition check_halfface_ordering (edges : list (Z * Z)) (faces : list (list Z)) (hfs : list Z) : R bool :=
  do ht <- hf_halfedges faces (nthd hfs 0);
  do hb <- hf_halfedges faces (nthd hfs 1);
  do a <- order_side faces hfs (nthd hfs 0) [2; 4; 3; 5]%nat [2; 4; 3; 5]%nat ht (-1);
  match a with
  | None => Ret false
  | Some o => if o =? -1 then Ret false else
      do b <- order_side faces hfs (nthd hfs 1) [3; 4; 2; 5]%nat [3; 4; 2; 5]%nat hb (-1);
      match b with
      | None => Ret false
      | Some o2 =>
          if o2 =? -1 then Ret false
          else let vt := map (he_from_t edges) ht in
               Ret (forallb (fun h => negb (existsb (fun v => v =? he_from_t edges h) vt)) hb)
      end
  end.

(* next_halfedge_in_halfface *)
Fixpoint next_in (first : Z) (hes : list Z) (heh : Z) : Z :=
  match hes with
  | [] => -1
  | x :: t => if x =? heh then (match t with [] => first | y :: _ => y end) else next_in first t heh
  end.
Definition next_halfedge_in_halfface (faces : list (list Z)) (heh hfh : Z) : R Z :=
  do hes <- hf_halfedges faces hfh;
  Ret (match hes with [] => -1 | f :: _ => next_in f hes heh end).

Fixpoint upd_nth (i : nat) (x : Z) (l : list Z) : list Z :=
  match l, i with
  | [], _ => []
  | _ :: t, O => x :: t
  | h :: t, S j => h :: upd_nth j x t
  end.

(* the re-ordering attempt of HexahedralMeshTopologyKernel::add_cell (orderTop = {2,4,3,5}) *)
Fixpoint reorder_top (faces : list (list Z)) (hfs : list Z) (top : Z) (hes : list Z) (idx : nat) (acc : list Z) : R (list Z) :=
  match hes with
  | [] => Ret acc
  | he :: t =>
      do a <- get_adjacent_halfface faces top he hfs;
      if a =? -1 then reorder_top faces hfs top t idx acc
      else reorder_top faces hfs top t (S idx) (upd_nth (nth idx [2; 4; 3; 5]%nat 6%nat) a acc)
  end.

Definition hex_reorder (faces : list (list Z)) (hfs : list Z) : R (option (list Z)) :=
  let top := nthd hfs 0 in
  do hes <- hf_halfedges faces top;
  do acc <- reorder_top faces hfs top hes 0 [top; -1; -1; -1; -1; -1];
  match hes with
  | [] => Ub UB_empty_face
  | he0 :: _ =>
      do hf1 <- get_adjacent_halfface faces top he0 hfs;
      let he1 := opp_h he0 in
      do he2 <- next_halfedge_in_halfface faces he1 hf1;
      do he3 <- next_halfedge_in_halfface faces he2 hf1;
      do hf2 <- get_adjacent_halfface faces hf1 he3 hfs;
      if hf2 =? -1 then Ret None else Ret (Some (upd_nth 1 hf2 acc))
  end.

(* the virtual add_face / add_cell of the three mesh classes *)
Definition mesh_add_face (o : opts) (edges : list (Z * Z)) (hes : list Z) : R (option (list Z)) :=
  match o_mesh o with
  | MPoly => base_add_face edges hes (o_check o)
  | MTet => if len hes =? 3 then base_add_face edges hes (o_check o) else Ret None
  | MHex => if len hes =? 4 then base_add_face edges hes (o_check o) else Ret None
  end.

Definition mesh_add_cell (o : opts) (edges : list (Z * Z)) (faces : list (list Z)) (hfs : list Z) : R (option (list Z)) :=
  match o_mesh o with
  | MPoly => base_add_cell faces hfs (o_check o)
  | MTet =>
      if len hfs =? 4 then
        do ok <- all_valence faces hfs 3;
        if negb ok then Ret None
        else if negb (o_check o) then base_add_cell faces hfs false
        else
          (* fix "checked tet add_cell must reject four triangles that are not a tetrahedron": exactly four distinct vertices *)
          do vs <- cell_from_vertices edges faces hfs;
          if negb (count_distinct vs =? 4) then Ret None else
          (* fix "checked tet add_cell must reject four triangles on fewer than four vertex triples" *)
          do ts <- cell_triples edges faces hfs;
          if negb (count_distinct_sets ts =? 4) then Ret None else base_add_cell faces hfs true
      else Ret None
  | MHex =>
      if len hfs =? 6 then
        do ok <- all_valence faces hfs 4;
        if negb ok then Ret None
        else if negb (o_check o) then base_add_cell faces hfs false
        else
          (* fix "checked hex add_cell must reject cells without eight distinct vertices" *)
          do vs <- cell_from_vertices edges faces hfs;
          if negb (count_distinct vs =? 8) then Ret None else
          do ord <- check_halfface_ordering edges faces hfs;
          if ord then base_add_cell faces hfs true
          else do r <- hex_reorder faces hfs;
               match r with
               | None => Ret None
               | Some hfs' =>
                   (* "The re-ordering only succeeds for halffaces that really form a hexahedron": every slot is_valid()
                      (idx >= 0), and the re-ordered list passes check_halfface_ordering *)
                   if existsb (fun x => x <? 0) hfs' then Ret None
                   else do ord2 <- check_halfface_ordering edges faces hfs';
                        if ord2 then base_add_cell faces hfs' true else Ret None
               end
      else Ret None
  end.

(* ------------------------------------------------------------------------------------------------ chunks *)
(* BinaryFileReader::validate_span *)
Definition validate_span (total read first count : Z) : R unit :=
  if negb (first =? read) then state_error S_Error
  else if wrap64 (total - read) <? count then state_error S_Error
  else Ret tt.

(* read_n_ints: encoding valid, enough bytes, then `count` integers through make_t *)
Fixpoint rd_ints (n : nat) (enc : Z) (mk : Z -> R Z) (d : dec) : R (list Z * dec) :=
  match n with
  | O => Ret ([], d)
  | S k =>
      do x <- rd_int enc d; let (v, d1) := x in
      do w <- mk v;
      do y <- rd_ints k enc mk d1; let (l, d2) := y in
      Ret (w :: l, d2)
  end.

Definition read_n_ints (enc : Z) (count : Z) (mk : Z -> R Z) (d : dec) : R (list Z * dec) :=
  if negb (is_valid_IntEncoding enc) then state_error S_ErrorInvalidEncoding
  else if short d (count * elem_size_IntEncoding enc) then state_error S_ErrorInvalidFile
  else if elem_size_IntEncoding enc =? 0 then Ret ([], d)          (* call_with_decoder(None): nothing is read *)
  else rd_ints (Z.to_nat count) enc mk d.

(* GeometryReaderT::read: `count` positions of o_dim coordinates *)
Fixpoint rd_coords (n : nat) (enc : Z) (d : dec) : R (list Z * dec) :=
  match n with
  | O => Ret ([], d)
  | S k =>
      do x <- (if enc =? VertexEncoding_Double then rd_u64 d
               else do y <- rd_u32 d; let (v, d') := y in Ret (f32_to_f64_bits v, d'));
      let (v, d1) := x in
      do z <- rd_coords k enc d1; let (l, d2) := z in
      Ret (v :: l, d2)
  end.

Fixpoint rd_positions (fuel : nat) (count : Z) (dim : nat) (enc : Z) (d : dec) : R (list (list Z) * dec) :=
  if count <=? 0 then Ret ([], d)
  else match fuel with
       | O => parse_error        (* more positions than bytes: the next primitive read fails its need() *)
       | S f =>
           do x <- rd_coords dim enc d; let (p, d1) := x in
           do y <- rd_positions f (count - 1) dim enc d1; let (l, d2) := y in
           Ret (p :: l, d2)
       end.

Definition zero_pos (dim : nat) : list Z := repeat 0 dim.

(* BinaryFileReader::read_vertices_chunk *)
Definition read_vertices_chunk (o : opts) (h : fhdr) (st : rst) (d : dec) : R (rst * dec) :=
  do _ <- need ovmb_size_VertexChunkHeader d;
  do x <- rd_span d; let '(first, count, d1) := x in
  do y <- rd_enum8 is_valid_VertexEncoding d1; let (enc, d2) := y in
  do d3 <- rd_reserved 3 d2;
  if negb (is_valid_VertexEncoding enc) then state_error S_ErrorInvalidEncoding
  else
    do _ <- validate_span (h_nv h) (r_nvr st) first count;
    let pos_size := elem_size_VertexEncoding enc * h_dim h in       (* uint64_t pos_size = uint8 * uint8 *)
    (* span.count * pos_size, in the integer type the library computes it in (Gen/OvmbFormat.v: vert_product_bits, regenerated) *)
    if negb (len d3 =? (count * pos_size) mod 2 ^ vert_product_bits) then state_error S_ErrorInvalidChunkSize
    else if enc =? VertexEncoding_None then
      (* call_with_decoder(None): nothing is read; the vertices keep their default position *)
      Ret (add_verts count (repeat (zero_pos (Z.to_nat (o_dim o))) (Z.to_nat count)) st, d3)
    else
      do z <- rd_positions (length d3) count (Z.to_nat (o_dim o)) enc d3; let (ps, d4) := z in
      Ret (add_verts count ps st, d4).

(* read_edges: every vertex handle + handle_offset (uint64 wrap) must be below n_verts_read_ *)
Fixpoint rd_edges (fuel : nat) (count : Z) (enc : Z) (off nvr : Z) (d : dec) : R (list (Z * Z) * dec) :=
  if count <=? 0 then Ret ([], d)
  else match fuel with
       | O => parse_error
       | S f =>
           do x <- rd_int enc d; let (a, d1) := x in
           do y <- rd_int enc d1; let (b, d2) := y in
           let src := wrap64 (a + off) in
           let dst := wrap64 (b + off) in
           if (nvr <=? src) || (nvr <=? dst) then state_error S_ErrorHandleRange
           else
             do z <- rd_edges f (count - 1) enc off nvr d2; let (l, d3) := z in
             Ret ((from_unsigned src, from_unsigned dst) :: l, d3)
       end.

(* read_heh / read_hfh: handle + handle_offset (uint64 wrap) below the limit, else parse_error *)
Definition mk_handle (off lim : Z) (x : Z) : R Z :=
  let idx := wrap64 (x + off) in
  if lim <=? idx then parse_error else Ret (from_unsigned idx).

(* the per-entity loop of read_faces / read_cells: fixed valence *)
Fixpoint rd_items_fixed (fuel : nat) (count valence enc : Z) (mk : Z -> R Z) (add : list Z -> list (list Z) -> R (option (list Z)))
         (acc : list (list Z)) (d : dec) : R (list (list Z) * dec) :=
  if count <=? 0 then Ret (acc, d)
  else match fuel with
       | O => state_error S_ErrorInvalidFile        (* no bytes left for a non-empty item: read_n_ints refuses *)
       | S f =>
           do x <- read_n_ints enc valence mk d; let (hs, d1) := x in
           do r <- add hs acc;
           match r with
           | None => state_error S_ErrorInvalidFile
           | Some stored => rd_items_fixed f (count - 1) valence enc mk add (acc ++ [stored]) d1
           end
       end.

(* ... variable valence: one item per entry of the valence list *)
Fixpoint rd_items_var (vals : list Z) (enc : Z) (mk : Z -> R Z) (add : list Z -> list (list Z) -> R (option (list Z)))
         (acc : list (list Z)) (d : dec) : R (list (list Z) * dec) :=
  match vals with
  | [] => Ret (acc, d)
  | v :: t =>
      do x <- read_n_ints enc v mk d; let (hs, d1) := x in
      do r <- add hs acc;
      match r with
      | None => state_error S_ErrorInvalidFile
      | Some stored => rd_items_var t enc mk add (acc ++ [stored]) d1
      end
  end.

(* the `valence_ok` lambda of read_faces / read_cells: the fixed valence, or every listed valence, is the required one *)
Definition valence_ok (valence : Z) (vals : option (list Z)) (required : Z) : bool :=
  if negb (valence =? 0) then valence =? required
  else match vals with Some vs => forallb (fun v => v =? required) vs | None => true end.

(* BinaryFileReader::read_topo_chunk + read_edges / read_faces / read_cells *)
Definition read_topo_chunk (o : opts) (h : fhdr) (st : rst) (d : dec) : R (rst * dec) :=
  do _ <- need ovmb_size_TopoChunkHeader d;
  do x <- rd_span d; let '(first, count, d1) := x in
  do y1 <- rd_enum8 is_valid_TopoEntity d1; let (entity, d2) := y1 in
  do y2 <- rd_u8 d2; let (valence, d3) := y2 in
  do y3 <- rd_enum8 is_valid_IntEncoding d3; let (venc, d4) := y3 in
  do y4 <- rd_enum8 is_valid_IntEncoding d4; let (henc, d5) := y4 in
  do y5 <- rd_u64 d5; let (off, d6) := y5 in
  if count =? 0 then state_error S_ErrorEmptyList
  else if negb (is_valid_IntEncoding henc) || (henc =? IntEncoding_None) then state_error S_ErrorInvalidEncoding
  else if negb (is_valid_TopoEntity entity) then state_error S_ErrorInvalidFile
  else if negb (valence =? 0) && negb (venc =? IntEncoding_None) then state_error S_ErrorInvalidFile
  else
    do v <- (if valence =? 0 then
               if venc =? IntEncoding_None then state_error S_ErrorInvalidFile
               else do r <- read_n_ints venc count (fun x => Ret x) d6; let (vals, d7) := r in
                    Ret (Some vals, fold_left Z.add vals 0, d7)
             else Ret (None, (valence * count) mod 2 ^ topo_product_bits, d6));     (* header.valence * header.span.count in the type the library computes it in (Gen: topo_product_bits) *)
    let '(vals, total_handles, d7) := v in
    let expected := wrap64 (total_handles * elem_size_IntEncoding henc) in
    if negb (len d7 =? expected) then state_error S_Error
    else if entity =? TopoEntity_Edge then
      do _ <- validate_span (h_ne h) (r_ner st) first count;
      if negb (valence =? 2) then state_error S_ErrorInvalidFile
      else do r <- rd_edges (length d7) count henc off (r_nvr st) d7; let (es, d8) := r in
           Ret (add_edges count es st, d8)
    else if entity =? TopoEntity_Face then
      do _ <- validate_span (h_nf h) (r_nfr st) first count;
      if (h_topo h =? TopoType_Tetrahedral) && negb (valence_ok valence vals 3) then state_error S_ErrorInvalidTopoType
      else if (h_topo h =? TopoType_Hexahedral) && negb (valence_ok valence vals 4) then state_error S_ErrorInvalidTopoType
      else
        let mk := mk_handle off (2 * r_ner st) in
        let add := fun hs (_ : list (list Z)) => mesh_add_face o (r_edges st) hs in
        do r <- (match vals with
                 | Some vs => rd_items_var vs henc mk add [] d7
                 | None => rd_items_fixed (S (length d7)) count valence henc mk add [] d7
                 end);
        let (fs, d8) := r in
        Ret (add_faces count fs st, d8)
    else
      do _ <- validate_span (h_nc h) (r_ncr st) first count;
      if (h_topo h =? TopoType_Tetrahedral) && negb (valence_ok valence vals 4) then state_error S_ErrorInvalidTopoType
      else if (h_topo h =? TopoType_Hexahedral) && negb (valence_ok valence vals 6) then state_error S_ErrorInvalidTopoType
      else
        let mk := mk_handle off (2 * r_nfr st) in
        let add := fun hs (_ : list (list Z)) => mesh_add_cell o (r_edges st) (r_faces st) hs in
        do r <- (match vals with
                 | Some vs => rd_items_var vs henc mk add [] d7
                 | None => rd_items_fixed (S (length d7)) count valence henc mk add [] d7
                 end);
        let (cs, d8) := r in
        Ret (add_cells count cs st, d8).

(* ---- properties *)
(* Codec::decode_one on the serialized default (PropertyDecoderT::request_property); trailing bytes are ignored *)
Definition decode_one (ty : ptype) (d : dec) : R (list byte) :=
  match ty with
  | TBool => do x <- rd_u8 d; let (v, _) := x in if (v =? 0) || (v =? 1) then Ret [v] else parse_error
  | TFix n => do x <- rd_bytes n d; let (v, _) := x in Ret v
  | TStr => do x <- rd_vec32 d; let (v, _) := x in Ret v
  end.

Definition storage_key_eqb (ent : Z) (name tname : list byte) (s : storage) : bool :=
  (st_ent s =? ent) && list_eqb (st_name s) name && list_eqb (st_tname s) tname.

Fixpoint find_storage (i : nat) (l : list storage) (ent : Z) (name tname : list byte) : option nat :=
  match l with
  | [] => None
  | s :: t => if storage_key_eqb ent name tname s then Some i else find_storage (S i) t ent name tname
  end.

(* read(Decoder&, PropertyInfo&) + the loop body of read_propdir_chunk *)
Fixpoint read_propdir_entries (fuel : nat) (stor : list storage) (props : list (option (Z * nat))) (d : dec)
  : R (list storage * list (option (Z * nat))) :=
  match d with
  | [] => Ret (stor, props)
  | _ =>
    match fuel with
    | O => Ub UB_fuel
    | S f =>
      do _ <- need 14 d;                                         (* need(2+3*4) *)
      do x <- rd_enum8 is_valid_PropertyEntity d; let (ent, d1) := x in
      do y1 <- rd_vec32 d1; let (name, d2) := y1 in
      do y2 <- rd_vec32 d2; let (tname, d3) := y2 in
      do y3 <- rd_vec32 d3; let (sdef, d4) := y3 in
      match codec_of tname with
      | None => read_propdir_entries f stor (props ++ [None]) d4
      | Some ty =>
          do def <- decode_one ty sdef;
          match find_storage 0 stor ent name tname with
          | Some i => read_propdir_entries f stor (props ++ [Some (ent, i)]) d4       (* request_property finds the shared one *)
          | None =>
              if len name =? 0 then std_exception                  (* set_persistent on an unnamed (unshared) property throws *)
              else read_propdir_entries f
                     (stor ++ [{| st_ent := ent; st_name := name; st_tname := tname; st_ty := ty; st_def := def; st_writes := [] |}])
                     (props ++ [Some (ent, length stor)]) d4
          end
      end
    end
  end.

Definition read_propdir_chunk (st : rst) (d : dec) : R (rst * dec) :=
  match r_props st with
  | _ :: _ => state_error S_ErrorInvalidFile
  | [] =>
      do r <- read_propdir_entries (length d) (r_stor st) [] d; let (stor, props) := r in
      Ret (set_props stor props st, [])
  end.

(* current number of elements of a property of the given entity (= the mesh's entity count) *)
Definition cur_count (h : fhdr) (st : rst) (ent : Z) : Z :=
  if ent =? PropertyEntity_Vertex then h_nv h
  else if ent =? PropertyEntity_Edge then len (r_edges st)
  else if ent =? PropertyEntity_Face then len (r_faces st)
  else if ent =? PropertyEntity_Cell then len (r_cells st)
  else if ent =? PropertyEntity_HalfEdge then 2 * len (r_edges st)
  else if ent =? PropertyEntity_HalfFace then 2 * len (r_faces st)
  else 1.

(* the `n` of read_prop_chunk: entities READ so far *)
Definition read_count (st : rst) (ent : Z) : Z :=
  if ent =? PropertyEntity_Vertex then r_nvr st
  else if ent =? PropertyEntity_Edge then r_ner st
  else if ent =? PropertyEntity_Face then r_nfr st
  else if ent =? PropertyEntity_Cell then r_ncr st
  else if ent =? PropertyEntity_HalfEdge then 2 * r_ner st
  else if ent =? PropertyEntity_HalfFace then 2 * r_nfr st
  else 1.

(* SimplePropCodec::decode_n / BoolPropCodec::decode_n: the assignments vec[i] = ... in order *)
Fixpoint decode_n_simple (fuel : nat) (ty : ptype) (i cnt : Z) (d : dec) (acc : list (Z * list byte)) : R (list (Z * list byte) * dec) :=
  if cnt <=? 0 then Ret (acc, d)
  else match fuel with
       | O => parse_error
       | S f =>
           do x <- (match ty with
                    | TStr => rd_vec32 d
                    | TFix n => rd_bytes n d
                    | TBool => parse_error
                    end);
           let (v, d1) := x in
           decode_n_simple f ty (i + 1) (cnt - 1) d1 ((i, v) :: acc)
       end.

Fixpoint unpack_bits (n : nat) (i : Z) (b : Z) (acc : list (Z * list byte)) : list (Z * list byte) :=
  match n with
  | O => acc
  | S k => unpack_bits k (i + 1) (b / 2) ((i, [b mod 2]) :: acc)
  end.

Fixpoint decode_n_bool (fuel : nat) (i cnt : Z) (d : dec) (acc : list (Z * list byte)) : R (list (Z * list byte) * dec) :=
  if cnt <=? 0 then Ret (acc, d)
  else match fuel with
       | O => parse_error
       | S f =>
           do x <- rd_u8 d; let (b, d1) := x in
           let nb := Z.min 8 cnt in
           decode_n_bool f (i + 8) (cnt - 8) d1 (unpack_bits (Z.to_nat nb) i b acc)
       end.

Fixpoint upd_storage (i : nat) (w : list (Z * list byte)) (l : list storage) : list storage :=
  match l, i with
  | [], _ => []
  | s :: t, O => {| st_ent := st_ent s; st_name := st_name s; st_tname := st_tname s; st_ty := st_ty s; st_def := st_def s;
                    st_writes := w |} :: t
  | s :: t, S j => s :: upd_storage j w t
  end.

(* BinaryFileReader::read_prop_chunk + PropertyDecoderT::deserialize *)
Definition read_prop_chunk (h : fhdr) (st : rst) (d : dec) : R (rst * dec) :=
  do _ <- need ovmb_size_PropChunkHeader d;
  do x <- rd_span d; let '(first, count, d1) := x in
  do y <- rd_u32 d1; let (idx, d2) := y in
  if len (r_props st) <=? idx then state_error S_ErrorInvalidFile
  else match nth (Z.to_nat idx) (r_props st) None with
       | None => Ret (st, [])                                     (* no decoder: reader.skip() *)
       | Some (ent, si) =>
           let n := read_count st ent in
           if count =? 0 then Ret (st, d2)
           else if (n <=? first) || (n - first <? count) then state_error S_ErrorHandleRange
           else if cur_count h st ent <? first + count then parse_error      (* "invalid prop range" *)
           else match nth_error (r_stor st) si with
                | None => Ub UB_fuel
                | Some s =>
                    do r <- (match st_ty s with
                             | TBool => do _ <- need ((count + 7) / 8) d2; decode_n_bool (S (length d2)) first count d2 (st_writes s)
                             | ty => decode_n_simple (S (length d2)) ty first count d2 (st_writes s)
                             end);
                    let (w, d3) := r in
                    Ret (set_props (upd_storage si w (r_stor st)) (r_props st) st, d3)
                end
       end.

(* BinaryFileReader::read_chunk *)
(* `eof` is reached_eof_chunk *)
Definition read_chunk (o : opts) (h : fhdr) (st : rst) (eof : bool) (s : stream) : R (rst * bool * stream) :=
  if eof then state_error S_Error else                              (* "Data after the EOF chunk" *)
  do x <- make_decoder ovmb_size_ChunkHeader s; let (d, s1) := x in
  do _ <- need ovmb_size_ChunkHeader d;
  do y1 <- rd_u32 d; let (ty, d1) := y1 in                         (* is_valid(ChunkType) is always true *)
  do y2 <- rd_u8 d1; let (version, d2) := y2 in
  do y3 <- rd_u8 d2; let (padding, d3) := y3 in
  do y4 <- rd_u8 d3; let (compression, d4) := y4 in
  do y5 <- rd_enum8 is_valid_ChunkFlags d4; let (flags, d5) := y5 in
  do y6 <- rd_u64 d5; let (file_length, _) := y6 in
  if file_length <? padding then parse_error
  else
    let payload_length := file_length - padding in
    if negb (compression =? 0) then state_error S_ErrorUnsupportedChunkVersion
    else if remaining_bytes s1 <? file_length then state_error S_ErrorChunkTooBig
    else
      do z <- make_decoder payload_length s1; let (cd, s2) := z in
      let mandatory := Z.land flags ChunkFlags_Mandatory =? ChunkFlags_Mandatory in
      do r <- (if negb (version =? 0) then
                 if mandatory then state_error S_ErrorUnsupportedChunkVersion else Ret (st, [])
               else if ty =? ChunkType_EndOfFile then
                 if negb (payload_length =? 0) then state_error S_Error
                 else if eof then state_error S_Error
                 else Ret (st, cd)
               else if ty =? ChunkType_PropertyDirectory then read_propdir_chunk st cd
               else if ty =? ChunkType_Property then read_prop_chunk h st cd
               else if ty =? ChunkType_Vertices then read_vertices_chunk o h st cd
               else if ty =? ChunkType_Topo then read_topo_chunk o h st cd
               else if mandatory then state_error S_ErrorUnsupportedChunkType else Ret (st, []));
      let (st', rest) := r in
      let eof' := eof || ((version =? 0) && (ty =? ChunkType_EndOfFile)) in
      match rest with
      | _ :: _ => state_error S_ErrorInvalidFile                  (* "Extra data at end of chunk" *)
      | [] =>
          do w <- make_decoder padding s2; let (pd, s3) := w in
          if forallb (fun c => c =? 0) pd then Ret (st', eof', s3) else parse_error
      end.

(* the while loop of internal_read_file *)
Fixpoint chunk_loop (fuel : nat) (o : opts) (h : fhdr) (st : rst) (eof : bool) (s : stream) : R (rst * bool) :=
  if remaining_bytes s <=? 0 then Ret (st, eof)
  else match fuel with
       | O => Ub UB_fuel
       | S f => do x <- read_chunk o h st eof s; let '(st', eof', s') := x in chunk_loop f o h st' eof' s'
       end.

(* ------------------------------------------------------------------------------------------------ result *)
Fixpoint lookup_write (i : Z) (w : list (Z * list byte)) : option (list byte) :=
  match w with
  | [] => None
  | (j, v) :: t => if i =? j then Some v else lookup_write i t
  end.

Fixpoint zseq (fuel : nat) (i : Z) : list Z :=
  match fuel with
  | O => []
  | S f => i :: zseq f (i + 1)
  end.

Definition storage_values (s : storage) (count : Z) : list (list byte) :=
  map (fun i => match lookup_write i (st_writes s) with Some v => v | None => st_def s end) (zseq (Z.to_nat count) 0).

(* the mesh after reading: vertices beyond the ones read keep the zero position; properties hold the default where no PROP
   chunk assigned a value *)
Definition result_mesh (o : opts) (h : fhdr) (st : rst) : meshfile :=
  let nv := h_nv h in
  {| m_nv := nv;
     m_pos := r_pos st ++ repeat (zero_pos (Z.to_nat (o_dim o))) (Z.to_nat (nv - len (r_pos st)));
     m_edges := r_edges st; m_faces := r_faces st; m_cells := r_cells st;
     m_props := map (fun s => {| p_ent := st_ent s; p_name := st_name s; p_tname := st_tname s; p_def := st_def s;
                                 p_vals := storage_values s (cur_count h st (st_ent s)) |}) (r_stor st) |}.

Inductive outcome := ROk (m : meshfile) | RErr (r : rresult) (s : rstate) | RUB (w : ubwhy).

(* BinaryFileReader::read_file + internal_read_file *)
Definition decode_stream (o : opts) (s : stream) : outcome :=
  let '(h, ok, s1) := read_header s in
  if negb (compatible o h) then RErr RR_IncompatibleMesh S_ErrorIncompatible
  else if negb ok then RErr RR_InvalidFile S_ErrorInvalidFile
  else
    match chunk_loop (length (s_bytes s1)) o h init_rst false s1 with
    | Fail r st => RErr r st
    | Ub w => RUB w
    | Ret (st, eof) =>
        if negb eof then RErr RR_InvalidFile S_ErrorEndNotReached
        else if negb (h_nv h =? r_nvr st) || negb (h_ne h =? len (r_edges st)) || negb (h_nf h =? len (r_faces st)) || negb (h_nc h =? len (r_cells st))
        then RErr RR_InvalidFile S_ErrorMissingData
        else ROk (result_mesh o h st)
    end.

Definition decode_impl (o : opts) (bytes : list byte) : outcome :=
  decode_stream o {| s_bytes := bytes; s_avail := len bytes |}.

(* the stream claims `length bytes` bytes but delivers only the first k *)
Definition decode_impl_failing (o : opts) (k : Z) (bytes : list byte) : outcome :=
  decode_stream o {| s_bytes := bytes; s_avail := Z.min k (len bytes) |}.
