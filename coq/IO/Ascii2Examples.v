(* IO/Ascii2Examples.v -- C06 (ASCII): non-vacuity.  A toy number printer / converter pair over non-negative integers
   (print = decimal digits, convert = read the digits and round down to an even number, so that reparsing really changes
   values and is idempotent) satisfying [float_io_ok] for ALL printable values, and example meshes satisfying [wf_meshb]:
   a triangle with twelve properties over all seven entity kinds and thirteen value types (polyhedral, check off), a
   tetrahedron read into a tetrahedral mesh with the topology check on, a hexahedron read into a hexahedral mesh with the
   topology check on and bottom-up incidences. *)
From Coq Require Import ZArith Lia List Bool String Ascii Permutation.
From OVM Require Import Kernel.Ops.
From OVM Require Import IO.AsciiStream IO.AsciiReaderModel IO.AsciiWriterModel IO.AsciiProofs.
From OVM Require Import IO.Ascii2Num IO.Ascii2Val IO.Ascii2Prop IO.Ascii2Topo IO.Ascii2Sort IO.Ascii2RoundTrip IO.Ascii2Check.
Import ListNotations.
Local Open Scope Z_scope.

(* ------------------------------------------------------------------ a toy printer / converter *)

Definition toy_ok (b : Z) : bool := 0 <=? b.
Definition toy_print (b : Z) : list byte := print_Z b.
Definition toy_conv (x : list byte) : Z * bool := (dval x 0 / 2 * 2, false).     (* rounds down to even *)
Definition toy_conv_exact (x : list byte) : Z * bool := (dval x 0, false).

Lemma float_loop_digits r : endws r -> forall ds acc mant, all_digits ds ->
  float_loop (ds ++ r) acc mant false false = (rev ds ++ acc, r).
Proof.
  intros Hr. induction ds as [|d ds IH]; intros acc mant Hd.
  - cbn [app rev]. destruct Hr as [->|(c & r' & -> & Hc)]; [reflexivity|]. cbn [float_loop].
    assert (A : is_digit c = false) by (apply isspace_not_digit; auto).
    assert (B : (c =? c_dot) = false) by (unfold isspace, c_dot in *; lia).
    assert (C : (c =? c_e) || (c =? c_E) = false) by (unfold isspace, c_e, c_E in *; lia).
    rewrite A, B, C. reflexivity.
  - inversion Hd; subst. cbn [app float_loop]. assert (A : is_digit d = true) by (unfold is_digit; lia). rewrite A.
    rewrite IH by assumption. cbn [rev]. rewrite <- app_assoc. reflexivity.
Qed.

Lemma toy_scan b r : toy_ok b = true -> endws r -> float_scan (toy_print b ++ r) = (toy_print b, r).
Proof.
  unfold toy_ok, toy_print. intros Hb Hr. assert (Hb' : 0 <= b) by lia. rewrite print_Z_nonneg by lia.
  destruct (print_nat_Z_spec b Hb') as (A & B & C & D).
  destruct (Z.eq_dec b 0) as [->|Hz].
  - change (print_nat_Z 0) with [48]. cbn [app]. unfold float_scan.
    replace ((48 =? c_plus) || (48 =? c_minus)) with false by reflexivity. cbn [fzeros_loop].
    replace (48 =? c_zero) with true by reflexivity.
    destruct Hr as [->|(c & r' & -> & Hc)]; [reflexivity|]. cbn [fzeros_loop].
    assert (Z0 : (c =? c_zero) = false) by (unfold isspace, c_zero in *; lia). rewrite Z0.
    pose proof (float_loop_digits (c :: r') ltac:(right; eauto) [] [c_zero] true ltac:(constructor)) as FL.
    cbn [app rev] in FL. rewrite FL. reflexivity.
  - destruct (D ltac:(lia)) as (c & t & E & Nz). rewrite E in *. inversion A; subst. cbn [app]. unfold float_scan.
    assert (S1 : (c =? c_plus) || (c =? c_minus) = false) by (unfold c_plus, c_minus; lia). rewrite S1.
    cbn [fzeros_loop]. assert (Z0 : (c =? c_zero) = false) by (unfold c_zero; lia). rewrite Z0.
    change (c :: t ++ r) with ((c :: t) ++ r). rewrite (float_loop_digits r Hr (c :: t) [] false A).
    rewrite app_nil_r, rev_append_rev, app_nil_r, rev_involutive. reflexivity.
Qed.

Lemma toy_tok b : toy_ok b = true -> tokp (toy_print b) /\ hd 0 (toy_print b) <> 35.
Proof. intros _. apply print_Z_tok_any. Qed.

Lemma toy_reparse b : toy_ok b = true -> reparse toy_conv toy_print b = b / 2 * 2.
Proof.
  unfold toy_ok, reparse, toy_conv, toy_print. intros Hb. rewrite print_Z_nonneg by lia.
  destruct (print_nat_Z_spec b ltac:(lia)) as (_ & B & _). cbn [fst]. rewrite B. reflexivity.
Qed.
Lemma toy_reparse_exact b : toy_ok b = true -> reparse toy_conv_exact toy_print b = b.
Proof.
  unfold toy_ok, reparse, toy_conv_exact, toy_print. intros Hb. rewrite print_Z_nonneg by lia.
  destruct (print_nat_Z_spec b ltac:(lia)) as (_ & B & _). cbn [fst]. exact B.
Qed.

Ltac Zify.zify_post_hook ::= Z.div_mod_to_equations.

Example toy_io_ok : float_io_ok toy_conv toy_print toy_ok.
Proof.
  split; [exact toy_tok|]. split; [exact toy_scan|]. split; [reflexivity|]. split.
  - intros b Hb. rewrite toy_reparse by exact Hb. unfold toy_ok in *. lia.
  - intros b Hb. rewrite (toy_reparse b Hb). rewrite toy_reparse by (unfold toy_ok in *; lia). lia.
Qed.

Example toy_io_exact_ok : float_io_ok toy_conv_exact toy_print toy_ok.
Proof.
  split; [exact toy_tok|]. split; [exact toy_scan|]. split; [reflexivity|]. split.
  - intros b Hb. rewrite toy_reparse_exact by exact Hb. exact Hb.
  - intros b Hb. rewrite !toy_reparse_exact; auto. rewrite toy_reparse_exact; auto.
Qed.

(* ------------------------------------------------------------------ example meshes *)

Definition mk_mesh (n : nat) (es : list (nat * nat)) (fs cs : list (list nat)) : mesh :=
  {| nv := n; edges := es; faces := fs; cells := cs;
     vdel := repeat false n; edel := repeat false (length es); fdel := repeat false (length fs); cdel := repeat false (length cs);
     ndv := 0; nde := 0; ndf := 0; ndc := 0; vbu := true; ebu := true; fbu := true; deferred := true; fast := true;
     out_hes := []; inc_hfs := []; inc_cell := []; pv := []; pe := []; phe := []; pf := []; phf := []; pc := []; pm := [] |}.

Definition P (k : kind) (n : string) (t : atype) (vs : list aval) : pentry :=
  {| p_kind := k; p_name := bs n; p_type := t; p_persistent := true; p_vals := vs |}.

Definition o_poly : opts := {| o_mesh := MPoly; o_check := false; o_bu := false; o_alloc := 4294967296 |}.
Definition o_tet : opts := {| o_mesh := MTet; o_check := true; o_bu := false; o_alloc := 4294967296 |}.
Definition o_hex : opts := {| o_mesh := MHex; o_check := true; o_bu := true; o_alloc := 4294967296 |}.

(* a triangle; properties on all seven entity kinds: string (with blanks, a newline, a leading '#', empty), int (negative,
   INT_MAX), char (including '#'), double, vec3d, vector<vector<hfh>> (with an empty inner vector and -1), map, bool, an
   empty cell property, vector<double>, vec2ui (UINT_MAX), a name with blanks and an inner quote *)
Definition w_rich : wmesh :=
  {| w_mesh := mk_mesh 3 [(0, 1); (1, 2); (2, 0)]%nat [[0; 2; 4]%nat] [];
     w_pos := [(1, 2, 3); (4, 5, 6); (7, 8, 9)];
     w_props := [
       P KM "m str" TString [VStr (10 :: bs "hello  world")];
       P KV "vi" TInt [VInt (-5); VInt 0; VInt 2147483647];
       P KV "v""c" TChar [VInt 65; VInt 35; VInt 66];
       P KE "es" TString [VStr []; VStr (bs "a b"); VStr (bs "#x")];
       P KF "fd" TDouble [VFlt 7];
       P KF "fvv" TVecVecHfh [VList [VList [VInt 1; VInt (-1)]; VList []]];
       P KF "fm" TMapHehInt [VList [VList [VInt (-1); VInt 3]; VList [VInt 4; VInt (-7)]]];
       P KHE "hv" (TVec 3 SD) (repeat (VList [VFlt 1; VFlt 2; VFlt 3]) 5 ++ [VList [VFlt 1; VFlt 2; VFlt 5]]);
       P KC "c" TBool [];
       P KHF "hb" TBool [VInt 1; VInt 0];
       P KF "fvd" TVecDouble [VList [VFlt 3; VFlt 11]];
       P KM "mu" (TVec 2 SUI) [VList [VInt 4294967295; VInt 0]];
       P KE "ef" TFloat [VFlt 1; VFlt 2; VFlt 3];
       P KV "ul" TULong [VInt 18446744073709551615; VInt 0; VInt 1];
       P KV "sh" TShort [VInt (-32768); VInt 0; VInt 32767];
       P KV "vh" TVecVh [VList []; VList [VInt 2; VInt (-1)]; VList [VInt 0]]
     ] |}.

Example w_rich_wf : wf_meshb toy_ok toy_ok o_poly w_rich = true.
Proof. vm_compute. reflexivity. Qed.

(* one tetrahedron, a double property on its four vertices, read into a TetrahedralMesh with the topology check on *)
Definition w_tet : wmesh :=
  {| w_mesh := mk_mesh 4 [(0, 1); (1, 2); (2, 0); (0, 3); (1, 3); (2, 3)]%nat
                        [[0; 2; 4]; [0; 8; 7]; [2; 10; 9]; [4; 6; 11]]%nat [[1; 2; 4; 6]%nat];
     w_pos := [(0, 0, 0); (10, 0, 0); (0, 10, 0); (0, 0, 11)];
     w_props := [P KV "d" TDouble [VFlt 1; VFlt 2; VFlt 3; VFlt 4]; P KC "t" TInt [VInt 42]] |}.

Example w_tet_wf : wf_meshb toy_ok toy_ok o_tet w_tet = true /\
                   wf_meshb toy_ok toy_ok {| o_mesh := MPoly; o_check := true; o_bu := true; o_alloc := 4294967296 |} w_tet = true.
Proof. split; vm_compute; reflexivity. Qed.

(* one hexahedron read into a HexahedralMesh with the topology check on (check_halfface_ordering) and bottom-up incidences *)
Definition w_hex : wmesh :=
  {| w_mesh := mk_mesh 8 [(3, 2); (2, 1); (1, 0); (0, 3); (7, 6); (6, 5); (5, 4); (4, 7); (2, 6); (7, 1); (5, 3); (0, 4)]%nat
                        [[0; 2; 4; 6]; [8; 10; 12; 14]; [3; 16; 9; 18]; [13; 20; 7; 22]; [19; 15; 23; 5]; [1; 21; 11; 17]]%nat
                        [[0; 2; 4; 6; 8; 10]%nat];
     w_pos := repeat (2, 4, 6) 8;
     w_props := [P KHF "n" (TVec 3 SF) (repeat (VList [VFlt 1; VFlt 0; VFlt 0]) 12); P KM "title" TString [VStr (bs "one hexahedron")]] |}.

Example w_hex_wf : wf_meshb toy_ok toy_ok o_hex w_hex = true.
Proof. vm_compute. reflexivity. Qed.

(* the theorem instantiated: the properties of the triangle come back, the double 7 as 6 (reparsed), the int property
   identical *)
Example w_rich_roundtrip :
  exists f1,
    read_ascii toy_conv toy_conv_exact o_poly (write_ascii toy_print toy_print w_rich) = RTrue f1 /\
    read_ascii toy_conv toy_conv_exact o_poly (write_ascii toy_print toy_print (reread_props f1)) = RTrue f1 /\
    In (P KF "fd" TDouble [VFlt 6]) (f_props f1) /\ In (P KV "vi" TInt [VInt (-5); VInt 0; VInt 2147483647]) (f_props f1) /\
    length (f_props f1) = 17%nat.
Proof.
  destruct (ascii_roundtrip_props toy_conv toy_conv_exact toy_print toy_print toy_ok toy_ok toy_io_ok toy_io_exact_ok o_poly w_rich w_rich_wf)
    as (f1 & mC & R1 & R2 & _ & _ & _ & Pr & _ & _ & _).
  exists f1. split; [exact R1|]. split; [exact R2|]. rewrite Pr. split; [|split].
  - right. vm_compute. tauto.
  - right. vm_compute. tauto.
  - reflexivity.
Qed.

(* ------------------------------------------------------------------ outside the limits: what [name_okb] / [type_okb] / [val_okb] exclude *)

Definition w_one (ps : list pentry) : wmesh := {| w_mesh := mk_mesh 1 [] [] []; w_pos := [(0, 0, 0)]; w_props := ps |}.
Definition Pn (k : kind) (n : list byte) (t : atype) (vs : list aval) : pentry :=
  {| p_kind := k; p_name := n; p_type := t; p_persistent := true; p_vals := vs |}.
Definition toy_read (w : wmesh) : outcome := read_ascii toy_conv toy_conv_exact o_poly (write_ascii toy_print toy_print w).

(* a name ending in a quote comes back without it; a name with a newline makes the read fail; an empty name comes back as
   one quote character; a vector of an unregistered dimension (vec5d) is silently dropped; a blank char value makes the
   reader take the first letter of the NEXT header line ('V') as the value, and the next property is lost *)
Theorem ascii_format_limits_refuted :
  (exists f, toy_read (w_one [Pn KV [97; 34] TInt [VInt 5]]) = RTrue f /\ tl (f_props f) = [Pn KV [97] TInt [VInt 5]]) /\
  (exists f, toy_read (w_one [Pn KV [97; 10; 98] TInt [VInt 5]]) = RFalse f) /\
  (exists f, toy_read (w_one [Pn KV [] TInt [VInt 5]]) = RTrue f /\ tl (f_props f) = [Pn KV [34] TInt [VInt 5]]) /\
  (exists f, toy_read (w_one [Pn KV [97] (TVec 5 SD) [VList (repeat (VFlt 2) 5)]]) = RTrue f /\ tl (f_props f) = []) /\
  (exists f, toy_read (w_one [Pn KV [97] TChar [VInt 32]; Pn KV [98] TInt [VInt 7]]) = RTrue f /\
             tl (f_props f) = [Pn KV [97] TChar [VInt 86]]).
Proof.
  split; [|split; [|split; [|split]]].
  - eexists. split; [vm_compute; reflexivity|vm_compute; reflexivity].
  - eexists. vm_compute. reflexivity.
  - eexists. split; [vm_compute; reflexivity|vm_compute; reflexivity].
  - eexists. split; [vm_compute; reflexivity|vm_compute; reflexivity].
  - eexists. split; [vm_compute; reflexivity|vm_compute; reflexivity].
Qed.

(* why "stored as given" is a hypothesis: the same hexahedron with its halffaces listed in another order is inside the
   limits for a polyhedral reader, is read by the hexahedral reader with the topology check on as well, but that reader
   stores the cell re-ordered (HexahedralMeshTopologyKernel::add_cell) - [acceptsb o_hex] is false for it *)
Definition w_hex_perm : wmesh :=
  {| w_mesh := mk_mesh 8 (edges (w_mesh w_hex)) (faces (w_mesh w_hex)) [[0; 2; 8; 10; 4; 6]%nat];
     w_pos := w_pos w_hex; w_props := [] |}.

Theorem ascii_hex_reorder_witness :
  wf_meshb toy_ok toy_ok o_poly w_hex_perm = true /\ acceptsb o_hex (w_mesh w_hex_perm) = false /\
  exists f, read_ascii toy_conv toy_conv_exact o_hex (write_ascii toy_print toy_print w_hex_perm) = RTrue f /\
            cells (f_mesh f) = [[0; 2; 10; 8; 4; 6]%nat] /\ cells (w_mesh w_hex_perm) = [[0; 2; 8; 10; 4; 6]%nat].
Proof.
  split; [vm_compute; reflexivity|]. split; [vm_compute; reflexivity|].
  eexists. split; [vm_compute; reflexivity|]. split; vm_compute; reflexivity.
Qed.
