(* IO/Ovmb2Base.v -- forward ("what the reader does on bytes of a known shape") lemmas for the Decoder primitives of
   IO/OvmbReaderModel.v, the integer encodings chosen by suitable_int_encoding, and small list helpers.
   Everything here is used by the round-trip proofs (IO/Ovmb2*.v). *)
From Coq Require Import ZArith List Bool Lia.
From OVM Require Import Base.Int32 Gen.OvmbFormat IO.Bytes IO.OvmbWriterModel IO.OvmbReaderModel IO.OvmbProofs.
Import ListNotations.
Local Open Scope Z_scope.

(* ================================================================================================ lengths *)
Lemma len_le_encode n v : len (le_encode n v) = Z.of_nat n.
Proof. unfold len. rewrite le_encode_length. reflexivity. Qed.
Lemma len_enc_u8 v : len (enc_u8 v) = 1. Proof. apply len_le_encode. Qed.
Lemma len_enc_u16 v : len (enc_u16 v) = 2. Proof. apply len_le_encode. Qed.
Lemma len_enc_u32 v : len (enc_u32 v) = 4. Proof. apply len_le_encode. Qed.
Lemma len_enc_u64 v : len (enc_u64 v) = 8. Proof. apply len_le_encode. Qed.
Lemma len_repeat {A} (x : A) n : len (repeat x n) = Z.of_nat n.
Proof. unfold len. rewrite repeat_length. reflexivity. Qed.
Lemma len_map {A B} (f : A -> B) l : len (map f l) = len l.
Proof. unfold len. rewrite map_length. reflexivity. Qed.
Lemma len_write_span f c : len (write_span f c) = 12.
Proof. unfold write_span. rewrite len_app, len_enc_u64, len_enc_u32. reflexivity. Qed.
Lemma len_rev {A} (l : list A) : len (rev l) = len l.
Proof. unfold len. rewrite rev_length. reflexivity. Qed.

Global Hint Rewrite @len_app @len_cons @len_nil len_le_encode len_enc_u8 len_enc_u16 len_enc_u32 len_enc_u64
  @len_repeat @len_map len_write_span @len_rev : len.

(* `byte` is a synonym of Z: lia must see one spelling of @len *)
Ltac zlia := unfold byte, dec in *; lia.
Ltac lens := autorewrite with len.
Ltac lens_all := autorewrite with len in *.
(* 0 <= len x for every len x of the goal *)
Ltac lenpos :=
  repeat match goal with
         | |- context [@len ?A ?x] =>
             lazymatch goal with
             | H : 0 <= @len A x |- _ => fail
             | _ => pose proof (@len_nonneg A x)
             end
         end.
Ltac lenlia := lens; lenpos; zlia.

Lemma len_pos_cons {A} (x : A) l : 0 < len (x :: l).
Proof. rewrite len_cons. pose proof (len_nonneg l). lia. Qed.

Lemma len_0_nil {A} (l : list A) : len l = 0 -> l = [].
Proof. destruct l; [reflexivity|]. intros H. pose proof (len_pos_cons a l). lia. Qed.

Lemma to_nat_len {A} (l : list A) : Z.to_nat (len l) = length l.
Proof. unfold len. apply Nat2Z.id. Qed.

Lemma sum_len_concat {A} (l : list (list A)) : len (concat l) = fold_right Z.add 0 (map (fun x => len x) l).
Proof. induction l as [|x t IH]; cbn [concat map fold_right]; [reflexivity|]. rewrite len_app, IH. reflexivity. Qed.

Lemma len_concat_const {A} (l : list (list A)) k : Forall (fun x => len x = k) l -> len (concat l) = len l * k.
Proof.
  induction 1 as [|x t Hx Ht IH]; cbn [concat]; [reflexivity|]. rewrite len_app, len_cons, IH, Hx. lia.
Qed.

(* ================================================================================================ comparisons *)
Lemma ltb_false a b : b <= a -> (a <? b) = false.
Proof. intros H. apply Z.ltb_ge. exact H. Qed.
Lemma ltb_true a b : a < b -> (a <? b) = true.
Proof. intros H. apply Z.ltb_lt. exact H. Qed.
Lemma leb_false a b : b < a -> (a <=? b) = false.
Proof. intros H. apply Z.leb_gt. exact H. Qed.
Lemma leb_true a b : a <= b -> (a <=? b) = true.
Proof. intros H. apply Z.leb_le. exact H. Qed.
Lemma eqb_false a b : a <> b -> (a =? b) = false.
Proof. intros H. apply Z.eqb_neq. exact H. Qed.
Lemma eqb_true a b : a = b -> (a =? b) = true.
Proof. intros H. apply Z.eqb_eq. exact H. Qed.

(* ================================================================================================ Decoder primitives *)
Lemma short_false d n : n <= len d -> short d n = false.
Proof. intros H. rewrite short_spec. apply Z.ltb_ge. exact H. Qed.

Lemma need_ok n d : n <= len d -> need n d = Ret tt.
Proof. intros H. unfold need. rewrite short_false by exact H. reflexivity. Qed.

Lemma rd_app n a r : length a = n -> rd n (a ++ r) = Ret (le_decode a, r).
Proof.
  intros H. unfold rd. rewrite short_false.
  - rewrite firstn_exact by exact H. rewrite skipn_exact by exact H. reflexivity.
  - rewrite len_app. pose proof (len_nonneg r). unfold len at 1. lia.
Qed.

Lemma rd_enc n v r : 0 <= v < 256 ^ Z.of_nat n -> rd n (le_encode n v ++ r) = Ret (v, r).
Proof. intros H. rewrite rd_app by apply le_encode_length. rewrite le_decode_encode by exact H. reflexivity. Qed.

Lemma rd_u8_cons b r : rd_u8 (b :: r) = Ret (b, r).
Proof.
  unfold rd_u8. change (b :: r) with ([b] ++ r). rewrite rd_app by reflexivity.
  cbn [le_decode]. rewrite Z.mul_0_r, Z.add_0_r. reflexivity.
Qed.

Lemma rd_u32_enc v r : 0 <= v < 4294967296 -> rd_u32 (enc_u32 v ++ r) = Ret (v, r).
Proof. intros H. apply rd_enc. exact H. Qed.

Lemma rd_u64_enc v r : 0 <= v < 18446744073709551616 -> rd_u64 (enc_u64 v ++ r) = Ret (v, r).
Proof. intros H. apply rd_enc. exact H. Qed.

Lemma rd_bytes_app n a r : len a = n -> rd_bytes n (a ++ r) = Ret (a, r).
Proof.
  intros H. unfold rd_bytes. rewrite short_false.
  - subst n. rewrite to_nat_len. rewrite firstn_exact by reflexivity. rewrite skipn_exact by reflexivity. reflexivity.
  - rewrite len_app. pose proof (len_nonneg r). lia.
Qed.

Lemma rd_enum8_cons (valid : Z -> bool) b r : valid b = true -> rd_enum8 valid (b :: r) = Ret (b, r).
Proof. intros H. unfold rd_enum8. rewrite rd_u8_cons. cbn [bind]. rewrite H. reflexivity. Qed.

Lemma rd_reserved3 r : rd_reserved 3 (0 :: 0 :: 0 :: r) = Ret r.
Proof.
  unfold rd_reserved. change (0 :: 0 :: 0 :: r) with ([0; 0; 0] ++ r).
  rewrite rd_bytes_app by reflexivity. reflexivity.
Qed.

Lemma rd_vec32_app v r : len v < 4294967296 -> rd_vec32 (write_vec32 v ++ r) = Ret (v, r).
Proof.
  intros H. unfold rd_vec32, write_vec32. rewrite <- app_assoc.
  rewrite rd_u32_enc by (pose proof (len_nonneg v); lia). cbn [bind].
  apply rd_bytes_app. reflexivity.
Qed.

Lemma rd_span_app f c r : 0 <= f < 18446744073709551616 -> 0 <= c < 4294967296 ->
  rd_span (write_span f c ++ r) = Ret (f, c, r).
Proof.
  intros Hf Hc. unfold rd_span, write_span.
  rewrite need_ok by (lens; pose proof (len_nonneg r); unfold ovmb_size_ArraySpan; lia).
  cbn [bind]. rewrite <- app_assoc. rewrite rd_u64_enc by exact Hf. cbn [bind].
  rewrite rd_u32_enc by exact Hc. reflexivity.
Qed.

(* ================================================================================================ BinaryIStream *)
Lemma make_decoder_app n a r avail : len a = n -> n <= avail \/ n = 0 ->
  make_decoder n {| s_bytes := a ++ r; s_avail := avail |} = Ret (a, {| s_bytes := r; s_avail := avail - n |}).
Proof.
  intros Ha Hav. unfold make_decoder, remaining_bytes. cbn [s_bytes s_avail].
  pose proof (len_nonneg r).
  replace (len (a ++ r) <? n) with false by (symmetry; apply Z.ltb_ge; rewrite len_app; lia).
  replace ((0 <? n) && (avail <? n)) with false.
  - subst n. rewrite to_nat_len. rewrite firstn_exact by reflexivity. rewrite skipn_exact by reflexivity. reflexivity.
  - symmetry. apply andb_false_iff. destruct Hav as [Hav|Hav]; [right; apply Z.ltb_ge; exact Hav|left; apply Z.ltb_ge; lia].
Qed.

(* ================================================================================================ integer encodings *)
Definition enc_ok (enc : Z) : Prop := enc = 1 \/ enc = 2 \/ enc = 4.

Lemma elem_size_ok enc : enc_ok enc -> elem_size_IntEncoding enc = enc.
Proof. intros [-> | [-> | ->]]; reflexivity. Qed.

Lemma enc_ok_valid enc : enc_ok enc -> is_valid_IntEncoding enc = true.
Proof. intros [-> | [-> | ->]]; reflexivity. Qed.

Lemma enc_ok_not_none enc : enc_ok enc -> (enc =? IntEncoding_None) = false.
Proof. intros [-> | [-> | ->]]; reflexivity. Qed.

Lemma enc_ok_pos enc : enc_ok enc -> 1 <= enc <= 4.
Proof. intros [-> | [-> | ->]]; lia. Qed.

(* the values an encoding can carry *)
Definition enc_lim (enc : Z) : Z := 256 ^ enc.

Lemma enc_lim_vals : enc_lim 1 = 256 /\ enc_lim 2 = 65536 /\ enc_lim 4 = 4294967296.
Proof. repeat split; reflexivity. Qed.

Lemma enc_lim_le32 enc : enc_ok enc -> 256 <= enc_lim enc <= 4294967296.
Proof. intros [-> | [-> | ->]]; unfold enc_lim; simpl; lia. Qed.

Lemma len_enc_int enc v : enc_ok enc -> len (enc_int enc v) = enc.
Proof.
  intros H. unfold enc_int. rewrite len_le_encode. rewrite elem_size_ok by exact H.
  pose proof (enc_ok_pos _ H). lia.
Qed.

Lemma rd_int_enc enc v r : enc_ok enc -> 0 <= v < enc_lim enc -> rd_int enc (enc_int enc v ++ r) = Ret (v, r).
Proof.
  intros He Hv. unfold rd_int, enc_int, enc_lim in *. rewrite elem_size_ok by exact He.
  pose proof (enc_ok_pos _ He).
  rewrite Z.mod_small by exact Hv.
  apply rd_enc. rewrite Z2Nat.id by lia. exact Hv.
Qed.

Lemma c_uint_id x : 0 <= x < 4294967296 -> c_uint x = x.
Proof. intros H. unfold c_uint, wrap_u. change (2 ^ 32) with 4294967296. apply Z.mod_small. exact H. Qed.

Lemma suitable_ok mx : enc_ok (suitable_int_encoding mx).
Proof.
  unfold suitable_int_encoding, enc_ok.
  destruct (mx <=? c_uint 255); [left; reflexivity|].
  destruct (mx <=? c_uint 65535); [right; left; reflexivity|right; right; reflexivity].
Qed.

(* every value up to max_value fits the encoding the writer selects for max_value *)
Lemma suitable_fits mx v : 0 <= v <= mx -> mx < 4294967296 -> 0 <= v < enc_lim (suitable_int_encoding mx).
Proof.
  intros Hv Hm. unfold suitable_int_encoding, enc_lim.
  change (c_uint 255) with 255. change (c_uint 65535) with 65535.
  destruct (mx <=? 255) eqn:E1; [apply Z.leb_le in E1; change (256 ^ 1) with 256; lia|].
  destruct (mx <=? 65535) eqn:E2; [apply Z.leb_le in E2; change (256 ^ 2) with 65536; lia|].
  change (256 ^ 4) with 4294967296. lia.
Qed.

Lemma wrap64_small x : 0 <= x < 18446744073709551616 -> wrap64 x = x.
Proof. intros H. unfold wrap64, two64. apply Z.mod_small. exact H. Qed.

(* ================================================================================================ list helpers *)
Lemma Forall_forallb {A} (f : A -> bool) l : forallb f l = true -> Forall (fun x => f x = true) l.
Proof. intros H. apply Forall_forall. intros x Hx. rewrite forallb_forall in H. apply H. exact Hx. Qed.

Lemma forallb_Forall {A} (f : A -> bool) l : Forall (fun x => f x = true) l -> forallb f l = true.
Proof. intros H. apply forallb_forall. rewrite Forall_forall in H. exact H. Qed.

Lemma map_ext_Forall {A B} (f g : A -> B) l : Forall (fun x => f x = g x) l -> map f l = map g l.
Proof. induction 1; cbn [map]; [reflexivity|]. f_equal; assumption. Qed.

Lemma concat_map_ext_Forall {A B} (f g : A -> list B) l : Forall (fun x => f x = g x) l -> concat (map f l) = concat (map g l).
Proof. intros H. rewrite (map_ext_Forall f g l H). reflexivity. Qed.

Lemma repeat_app_nil {A} (x : A) l : l ++ repeat x 0 = l.
Proof. apply app_nil_r. Qed.

Lemma Forall_firstn' {A} (P : A -> Prop) n l : Forall P l -> Forall P (firstn n l).
Proof. revert l; induction n; intros [|x t] H; simpl; auto. inversion H; subst. constructor; auto. Qed.

Lemma Forall_skipn' {A} (P : A -> Prop) n l : Forall P l -> Forall P (skipn n l).
Proof. revert l; induction n; intros [|x t] H; simpl; auto. inversion H; subst. auto. Qed.

(* ================================================================================================ the reader's size products *)
(* The reader computes valence * count (read_topo_chunk) and count * pos_size (read_vertices_chunk) in the integer types
   recorded in the REGENERATED leaves Gen/OvmbFormat.v: topo_product_bits, vert_product_bits.  With the current values (64)
   the reduction is the identity on everything a file can declare - a byte times 32 bits, 32 bits times at most 8 * 255.
   These two lemmas hold because of the VALUE of the leaves: with 32 (the library before "fix: OVMB reader computed chunk
   sizes in 32 bits") they are false and everything that rests on them - the round trip - stops compiling. *)
Lemma topo_product_exact valence count : 0 <= valence < 256 -> 0 <= count < 4294967296 ->
  (valence * count) mod 2 ^ topo_product_bits = valence * count.
Proof.
  intros Hv Hc. unfold topo_product_bits. apply Z.mod_small.
  change (2 ^ 64) with 18446744073709551616. nia.
Qed.

(* the same for any product below 2^64 (the model lets the dimension be any integer; a real file has a byte there) *)
Lemma vert_product_small x : 0 <= x < 18446744073709551616 -> x mod 2 ^ vert_product_bits = x.
Proof.
  intros Hx. unfold vert_product_bits. apply Z.mod_small. change (2 ^ 64) with 18446744073709551616. exact Hx.
Qed.

Lemma vert_product_exact count pos_size : 0 <= count < 4294967296 -> 0 <= pos_size <= 2040 ->
  (count * pos_size) mod 2 ^ vert_product_bits = count * pos_size.
Proof.
  intros Hc Hp. unfold vert_product_bits. apply Z.mod_small.
  change (2 ^ 64) with 18446744073709551616. nia.
Qed.
