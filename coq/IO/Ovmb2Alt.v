(* IO/Ovmb2Alt.v -- DEFINITIONS: chunk descriptions.  Every chunk the format description permits for carrying mesh data is
   described by a value of `chunkd`; `enc_chunkd` gives its bytes.  The writer's own chunks are instances (first = 0, the
   integer width chosen by suitable_int_encoding, handle_offset 0, fixed valence form when all valences agree); the other
   instances are the re-encodings of C06: entity lists split into several spans, wider integer encodings, the variable-valence
   form where the fixed one would do, non-zero handle offsets, optional unknown chunks.  No proofs here. *)
From Coq Require Import ZArith List Bool.
From OVM Require Import Base.Int32 Gen.OvmbFormat IO.Bytes IO.OvmbWriterModel IO.OvmbReaderModel IO.Ovmb2Chunk.
Import ListNotations.
Local Open Scope Z_scope.

(* TopoChunkHeader with an arbitrary handle_offset (the writer always writes 0) *)
Definition topo_header_off (first count entity valence venc henc off : Z) : list byte :=
  write_span first count ++ [entity; valence; venc; henc] ++ enc_u64 off.

(* handles are stored minus the chunk's handle_offset *)
Definition enc_handles (henc off : Z) (hs : list Z) : list byte := concat (map (fun x => enc_int henc (x - off)) hs).

Definition enc_edge (henc off : Z) (e : Z * Z) : list byte := enc_int henc (fst e - off) ++ enc_int henc (snd e - off).

Definition edges_payload (first henc off : Z) (es : list (Z * Z)) : list byte :=
  topo_header_off first (len es) TopoEntity_Edge 2 IntEncoding_None henc off ++ concat (map (enc_edge henc off) es).

(* the two forms of a face / cell chunk *)
Inductive pform := PFixed (valence : Z) | PVar (venc : Z).
Definition form_valence (f : pform) : Z := match f with PFixed v => v | PVar _ => 0 end.
Definition form_venc (f : pform) : Z := match f with PFixed _ => IntEncoding_None | PVar e => e end.

Definition valence_data (f : pform) (items : list (list Z)) : list byte :=
  match f with
  | PFixed _ => []
  | PVar venc => concat (map (enc_int venc) (map (fun x => len x) items))
  end.

Definition poly_payload (entity first : Z) (f : pform) (henc off : Z) (items : list (list Z)) : list byte :=
  topo_header_off first (len items) entity (form_valence f) (form_venc f) henc off
  ++ valence_data f items ++ concat (map (enc_handles henc off) items).

Definition enc_pos (p : list Z) : list byte := concat (map enc_u64 p).

Definition vert_payload (first : Z) (ps : list (list Z)) : list byte :=
  write_span first (len ps) ++ [VertexEncoding_Double; 0; 0; 0] ++ concat (map enc_pos ps).

Definition prop_payload (idx first : Z) (ty : ptype) (vals : list (list byte)) : list byte :=
  write_span first (len vals) ++ enc_u32 idx ++ encode_n ty vals.

Definition dirp_payload (es : list (prop * ptype)) : list byte := concat (map dirp_entry es).

Inductive chunkd :=
| CDirp (es : list (prop * ptype))
| CVert (first : Z) (ps : list (list Z))
| CEdge (first henc off : Z) (es : list (Z * Z))
| CPoly (entity first : Z) (f : pform) (henc off : Z) (items : list (list Z))
| CProp (idx first : Z) (ty : ptype) (vals : list (list byte))
| CSkip (ty : Z) (payload : list byte).            (* an optional chunk of a type this reader does not know *)

Definition enc_chunkd (c : chunkd) : list byte :=
  match c with
  | CDirp es => write_chunk ChunkType_PropertyDirectory (dirp_payload es)
  | CVert first ps => write_chunk ChunkType_Vertices (vert_payload first ps)
  | CEdge first henc off es => write_chunk ChunkType_Topo (edges_payload first henc off es)
  | CPoly entity first f henc off items => write_chunk ChunkType_Topo (poly_payload entity first f henc off items)
  | CProp idx first ty vals => write_chunk ChunkType_Property (prop_payload idx first ty vals)
  | CSkip ty p => gen_chunk ty 0 p
  end.

(* ---- the state of the reader after a chunk *)
Definition storage_of (pt : prop * ptype) : storage :=
  {| st_ent := p_ent (fst pt); st_name := p_name (fst pt); st_tname := p_tname (fst pt); st_ty := snd pt;
     st_def := p_def (fst pt); st_writes := [] |}.

Fixpoint dir_props (i : nat) (es : list (prop * ptype)) : list (option (Z * nat)) :=
  match es with
  | [] => []
  | pt :: t => Some (p_ent (fst pt), i) :: dir_props (S i) t
  end.

(* the assignments of SimplePropCodec::decode_n / BoolPropCodec::decode_n: most recent first *)
Fixpoint writes_of (first : Z) (vals : list (list byte)) (acc : list (Z * list byte)) : list (Z * list byte) :=
  match vals with
  | [] => acc
  | v :: t => writes_of (first + 1) t ((first, v) :: acc)
  end.

Definition add_writes (si : nat) (first : Z) (vals : list (list byte)) (st : rst) : rst :=
  match nth_error (r_stor st) si with
  | Some s => set_props (upd_storage si (writes_of first vals (st_writes s)) (r_stor st)) (r_props st) st
  | None => st
  end.

Definition next_st (st : rst) (c : chunkd) : rst :=
  match c with
  | CDirp es => set_props (r_stor st ++ map storage_of es) (dir_props (length (r_stor st)) es) st
  | CVert _ ps => add_verts (len ps) ps st
  | CEdge _ _ _ es => add_edges (len es) es st
  | CPoly entity _ _ _ _ items => if entity =? TopoEntity_Face then add_faces (len items) items st else add_cells (len items) items st
  | CProp idx first _ vals =>
      match vals, nth (Z.to_nat idx) (r_props st) None with
      | _ :: _, Some (_, si) => add_writes si first vals st
      | _, _ => st
      end
  | CSkip _ _ => st
  end.

Fixpoint run_st (st : rst) (cs : list chunkd) : rst :=
  match cs with
  | [] => st
  | c :: t => run_st (next_st st c) t
  end.

Definition enc_chunks (cs : list chunkd) : list byte := concat (map enc_chunkd cs).

(* a whole file: the writer's header, any chunks, the EOF chunk *)
Definition alt_file (dim topo : Z) (m : meshfile) (cs : list chunkd) : list byte :=
  write_file_header dim topo m ++ enc_chunks cs ++ write_chunk ChunkType_EndOfFile [].
