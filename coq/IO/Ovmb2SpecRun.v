(* IO/Ovmb2SpecRun.v -- the specification reader over a sequence of described chunks: an abstract state (the entity lists and
   property value lists placed so far) is related to the reader's span tables; every described chunk that is valid in the
   abstract state is interpreted and advances it. *)
From Coq Require Import ZArith List Bool Lia.
From OVM Require Import Base.Int32 Gen.OvmbFormat IO.Bytes IO.OvmbWriterModel IO.OvmbReaderModel IO.OvmbSpec IO.OvmbProofs
  IO.Ovmb2Base IO.Ovmb2Chunk IO.Ovmb2Alt IO.Ovmb2Ints IO.Ovmb2Topo IO.Ovmb2Vert IO.Ovmb2Dirp IO.Ovmb2Prop IO.Ovmb2Run
  IO.Ovmb2Groups IO.Ovmb2PropGroup IO.Ovmb2Layout IO.Ovmb2SpecBase IO.Ovmb2SpecParse IO.Ovmb2SpecChunks.
Import ListNotations.
Local Open Scope Z_scope.

(* ================================================================================================ dispatch *)
Lemma interp_chunk_known h a ty flags body :
  a_eof a = false -> flags = 0 \/ flags = 1 ->
  interp_chunk h a (ksy_of ty flags body) =
  let known := list_eqb (enc_u32 ty) T_VERT || list_eqb (enc_u32 ty) T_TOPO || list_eqb (enc_u32 ty) T_DIRP ||
               list_eqb (enc_u32 ty) T_PROP || list_eqb (enc_u32 ty) T_EOF in
  if negb known then (if flags =? 1 then None else Some a)
  else if list_eqb (enc_u32 ty) T_EOF then (match body with [] => Some (set_eof a) | _ => None end)
  else if list_eqb (enc_u32 ty) T_DIRP then
    (match a_dir a with Some _ => None | None => match interp_dir (length body) body with None => None | Some d => Some (set_dir d a) end end)
  else if list_eqb (enc_u32 ty) T_VERT then interp_vert h a body
  else if list_eqb (enc_u32 ty) T_TOPO then interp_topo h a body
  else interp_prop h a body.
Proof.
  intros He Hf. unfold interp_chunk, ksy_of. cbn [k_padding k_compression k_flags k_version k_type k_body].
  rewrite He at 1. rewrite forallb_zero_repeat. cbn [negb Z.eqb andb].
  replace (1 <? flags) with false by (destruct Hf as [-> | ->]; reflexivity).
  reflexivity.
Qed.

Lemma enc_u32_inj a b : 0 <= a < 4294967296 -> 0 <= b < 4294967296 -> enc_u32 a = enc_u32 b -> a = b.
Proof. intros Ha Hb E. apply (le_encode_inj 4); assumption. Qed.

Lemma type_neq ty c : 0 <= ty < 4294967296 -> 0 <= c < 4294967296 -> ty <> c -> list_eqb (enc_u32 ty) (enc_u32 c) = false.
Proof.
  intros Ht Hc Hne. destruct (list_eqb (enc_u32 ty) (enc_u32 c)) eqn:E; [|reflexivity].
  apply list_eqb_eq in E. apply enc_u32_inj in E; try assumption. contradiction.
Qed.

Lemma T_consts : T_VERT = enc_u32 ChunkType_Vertices /\ T_TOPO = enc_u32 ChunkType_Topo /\ T_DIRP = enc_u32 ChunkType_PropertyDirectory /\
  T_PROP = enc_u32 ChunkType_Property /\ T_EOF = enc_u32 ChunkType_EndOfFile.
Proof. repeat split; vm_compute; reflexivity. Qed.

(* ================================================================================================ abstract state *)
Record sst := {
  ss_pos : list (list Z);
  ss_edges : list (Z * Z);
  ss_faces : list (list Z);
  ss_cells : list (list Z);
  ss_dir : option (list (prop * ptype));
  ss_vals : list (list (list byte))           (* per directory index: the values placed so far *)
}.

Definition sst0 : sst := {| ss_pos := []; ss_edges := []; ss_faces := []; ss_cells := []; ss_dir := None; ss_vals := [] |}.

Definition svals (S : sst) (j : nat) : list (list byte) := nth j (ss_vals S) [].

Fixpoint list_upd {A} (j : nat) (v : A) (l : list A) {struct l} : list A :=
  match l with
  | [] => []
  | x :: t => match j with O => v :: t | S k => x :: list_upd k v t end
  end.

Lemma nth_list_upd {A} (d : A) j v l : forall k, (j < length l)%nat -> nth k (list_upd j v l) d = if Nat.eqb k j then v else nth k l d.
Proof.
  revert j. induction l as [|x t IH]; intros j k Hj; [cbn [length] in Hj; lia|].
  destruct j as [|j]; destruct k as [|k]; cbn [list_upd nth Nat.eqb]; try reflexivity.
  apply IH. cbn [length] in Hj. lia.
Qed.

Lemma list_upd_length {A} j (v : A) l : length (list_upd j v l) = length l.
Proof. revert j. induction l as [|x t IH]; intros j; [reflexivity|]. destruct j; cbn [list_upd length]; [reflexivity|]. rewrite IH. reflexivity. Qed.

Definition acc_is (a : acc) (S : sst) : Prop :=
  tab_is (a_pos a) (ss_pos S) /\ tab_is (a_edges a) (ss_edges S) /\ tab_is (a_faces a) (ss_faces S) /\ tab_is (a_cells a) (ss_cells S) /\
  a_dir a = option_map (map dir_entry_of) (ss_dir S) /\
  (forall j : nat, tab_is (vals_tab a (Z.of_nat j)) (svals S j)) /\
  a_eof a = false.

Lemma acc_is_0 : acc_is acc0 sst0.
Proof.
  unfold acc_is, acc0, sst0, vals_tab, svals. cbn. repeat split; try apply tab_is_nil.
  intros j. destruct j; apply tab_is_nil.
Qed.

Definition spec_next (S : sst) (c : chunkd) : sst :=
  match c with
  | CDirp es => {| ss_pos := ss_pos S; ss_edges := ss_edges S; ss_faces := ss_faces S; ss_cells := ss_cells S;
                   ss_dir := Some es; ss_vals := repeat [] (length es) |}
  | CVert _ ps => {| ss_pos := ss_pos S ++ ps; ss_edges := ss_edges S; ss_faces := ss_faces S; ss_cells := ss_cells S;
                     ss_dir := ss_dir S; ss_vals := ss_vals S |}
  | CEdge _ _ _ es => {| ss_pos := ss_pos S; ss_edges := ss_edges S ++ es; ss_faces := ss_faces S; ss_cells := ss_cells S;
                         ss_dir := ss_dir S; ss_vals := ss_vals S |}
  | CPoly entity _ _ _ _ items =>
      if entity =? TopoEntity_Face
      then {| ss_pos := ss_pos S; ss_edges := ss_edges S; ss_faces := ss_faces S ++ items; ss_cells := ss_cells S;
              ss_dir := ss_dir S; ss_vals := ss_vals S |}
      else {| ss_pos := ss_pos S; ss_edges := ss_edges S; ss_faces := ss_faces S; ss_cells := ss_cells S ++ items;
              ss_dir := ss_dir S; ss_vals := ss_vals S |}
  | CProp idx _ _ vals => {| ss_pos := ss_pos S; ss_edges := ss_edges S; ss_faces := ss_faces S; ss_cells := ss_cells S;
                             ss_dir := ss_dir S;
                             ss_vals := list_upd (Z.to_nat idx) (svals S (Z.to_nat idx) ++ vals) (ss_vals S) |}
  | CSkip _ _ => S
  end.

(* what the description requires of a chunk, given what has been placed so far *)
Definition spec_valid (h : ksy_header) (S : sst) (c : chunkd) : Prop :=
  match c with
  | CDirp es => ss_dir S = None /\ ss_vals S = [] /\ Forall dentry_ok es
  | CVert first ps =>
      first = len (ss_pos S) /\ first + len ps <= k_n_vertices h /\ k_n_vertices h < 18446744073709551616 /\
      len ps < 4294967296 /\ 0 <= k_vertex_dim h /\ Forall (fun p => len p = k_vertex_dim h /\ Forall u64_ok p) ps
  | CEdge first henc off es =>
      first = len (ss_edges S) /\ es <> [] /\ first + len es <= k_n_edges h /\ k_n_edges h < 4294967296 /\
      k_n_vertices h <= two64 /\ enc_ok henc /\ 0 <= off < 18446744073709551616 /\
      Forall (fun e => off_fits henc off (fst e) /\ off_fits henc off (snd e)) es /\
      Forall (fun e => (0 <= fst e < k_n_vertices h) /\ (0 <= snd e < k_n_vertices h)) es
  | CPoly entity first f henc off items =>
      len items < 4294967296 /\ enc_ok henc /\ 0 <= off < 18446744073709551616 /\ sform_ok f items /\
      Forall (Forall (off_fits henc off)) items /\
      ((entity = TopoEntity_Face /\ first = len (ss_faces S) /\ first + len items <= k_n_faces h /\
        k_n_faces h < 18446744073709551616 /\ 2 * k_n_edges h <= two64 /\
        Forall (Forall (fun x => 0 <= x < 2 * k_n_edges h)) items /\ topo_req (k_topo_type h) 3 4 items)
       \/
       (entity = TopoEntity_Cell /\ first = len (ss_cells S) /\ first + len items <= k_n_cells h /\
        k_n_cells h < 18446744073709551616 /\ 2 * k_n_faces h <= two64 /\
        Forall (Forall (fun x => 0 <= x < 2 * k_n_faces h)) items /\ topo_req (k_topo_type h) 4 6 items))
  | CProp idx first ty vals =>
      exists es pt,
      ss_dir S = Some es /\ 0 <= idx < 4294967296 /\ nth_error es (Z.to_nat idx) = Some pt /\
      (Z.to_nat idx < length (ss_vals S))%nat /\
      codec_of (p_tname (fst pt)) = Some ty /\ first = len (svals S (Z.to_nat idx)) /\
      first + len vals <= entity_total h (p_ent (fst pt)) /\ entity_total h (p_ent (fst pt)) < 18446744073709551616 /\
      len vals < 4294967296 /\ ty_ok ty /\ Forall (val_ok ty) vals
  | CSkip ty p => unknown_type ty
  end.

(* ================================================================================================ one chunk *)
Lemma interp_chunk_vert h a body : a_eof a = false ->
  interp_chunk h a (ksy_of ChunkType_Vertices ChunkFlags_Mandatory body) = interp_vert h a body.
Proof. intros H. rewrite interp_chunk_known by (auto; right; reflexivity). reflexivity. Qed.

Lemma interp_chunk_topo h a body : a_eof a = false ->
  interp_chunk h a (ksy_of ChunkType_Topo ChunkFlags_Mandatory body) = interp_topo h a body.
Proof. intros H. rewrite interp_chunk_known by (auto; right; reflexivity). reflexivity. Qed.

Lemma interp_chunk_prop h a body : a_eof a = false ->
  interp_chunk h a (ksy_of ChunkType_Property ChunkFlags_Mandatory body) = interp_prop h a body.
Proof. intros H. rewrite interp_chunk_known by (auto; right; reflexivity). reflexivity. Qed.

Lemma interp_chunk_dirp h a body : a_eof a = false ->
  interp_chunk h a (ksy_of ChunkType_PropertyDirectory ChunkFlags_Mandatory body) =
  match a_dir a with Some _ => None | None => match interp_dir (length body) body with None => None | Some d => Some (set_dir d a) end end.
Proof. intros H. rewrite interp_chunk_known by (auto; right; reflexivity). reflexivity. Qed.

Lemma interp_chunk_eof h a : a_eof a = false ->
  interp_chunk h a (ksy_of ChunkType_EndOfFile ChunkFlags_Mandatory []) = Some (set_eof a).
Proof. intros H. rewrite interp_chunk_known by (auto; right; reflexivity). reflexivity. Qed.

Lemma interp_chunk_skip h a ty body : a_eof a = false -> unknown_type ty -> interp_chunk h a (ksy_of ty 0 body) = Some a.
Proof.
  intros H [H0 [H1 [H2 [H3 [H4 H5]]]]]. rewrite interp_chunk_known by (auto; left; reflexivity).
  destruct T_consts as [E1 [E2 [E3 [E4 E5]]]]. rewrite E1, E2, E3, E4, E5.
  rewrite !type_neq by (assumption || (unfold ChunkType_Vertices, ChunkType_Topo, ChunkType_PropertyDirectory, ChunkType_Property, ChunkType_EndOfFile; lia)).
  reflexivity.
Qed.

Theorem spec_chunk h a S c : acc_is a S -> spec_valid h S c ->
  exists a', interp_chunk h a (ksy_of (ctype_of c) (cflags_of c) (payload_of c)) = Some a' /\ acc_is a' (spec_next S c).
Proof.
  intros HA Hv. destruct HA as [A1 [A2 [A3 [A4 [A5 [A6 A7]]]]]].
  destruct c as [es|first ps|first henc off es|entity first f henc off items|idx first ty vals|ty p];
    cbn [ctype_of cflags_of payload_of spec_valid spec_next] in *.
  - (* DIRP *)
    destruct Hv as [Hd [Hvs He]]. rewrite interp_chunk_dirp by exact A7. rewrite A5, Hd. cbn [option_map].
    assert (L : forall l : list (prop * ptype), len l <= len (dirp_payload l)).
    { clear. unfold dirp_payload. induction l as [|pt t IH]; cbn [map concat]; [unfold len; simpl; lia|].
      rewrite len_app, len_cons. pose proof (len_dirp_entry pt). lia. }
    rewrite interp_dir_enc by (try exact He; specialize (L es); unfold len in L; lia).
    eexists. split; [reflexivity|].
    unfold acc_is, set_dir, vals_tab, svals. cbn [a_pos a_edges a_faces a_cells a_dir a_vals a_eof ss_pos ss_edges ss_faces ss_cells ss_dir ss_vals option_map].
    repeat split; try assumption.
    intros j. specialize (A6 j). unfold vals_tab, svals in A6. rewrite Hvs in A6.
    replace (nth j (repeat [] (length es)) []) with (@nil (list byte)); [destruct j; exact A6|].
    clear. revert j. induction (length es) as [|n IH]; intros j; destruct j; cbn [repeat nth]; auto.
  - (* VERT *)
    destruct Hv as [H1 [H2 [H3 [H4 [H5 H6]]]]]. rewrite interp_chunk_vert by exact A7.
    pose proof (len_nonneg (ss_pos S)).
    destruct (interp_vert_enc h a first ps (ss_pos S) A1 H1) as [t' [I1 I2]]; try assumption; try lia.
    exists (set_pos t' a). split; [exact I1|].
    unfold acc_is, set_pos, vals_tab. cbn. repeat split; assumption.
  - (* edges *)
    destruct Hv as [H1 [H2 [H3 [H4 [H5 [H6 [H7 [H8 H9]]]]]]]]. rewrite interp_chunk_topo by exact A7.
    pose proof (len_nonneg (ss_edges S)).
    destruct (interp_topo_edges h a first henc off es (ss_edges S) A2 H1) as [t' [I1 I2]]; try assumption; try lia.
    exists (set_edges t' a). split; [exact I1|].
    unfold acc_is, set_edges, vals_tab. cbn. repeat split; assumption.
  - (* faces / cells *)
    destruct Hv as [H1 [H2 [H3 [H4 [H5 H]]]]]. rewrite interp_chunk_topo by exact A7.
    destruct H as [[-> [G1 [G2 [G3 [G4 [G5 G6]]]]]] | [-> [G1 [G2 [G3 [G4 [G5 G6]]]]]]].
    + pose proof (len_nonneg (ss_faces S)).
      destruct (interp_topo_faces h a first f henc off items (ss_faces S) A3 G1) as [t' [I1 I2]]; try assumption; try lia.
      exists (set_faces t' a). split; [exact I1|].
      change (TopoEntity_Face =? TopoEntity_Face) with true. cbv iota.
      unfold acc_is, set_faces, vals_tab. cbn. repeat split; assumption.
    + pose proof (len_nonneg (ss_cells S)).
      destruct (interp_topo_cells h a first f henc off items (ss_cells S) A4 G1) as [t' [I1 I2]]; try assumption; try lia.
      exists (set_cells t' a). split; [exact I1|].
      change (TopoEntity_Cell =? TopoEntity_Face) with false. cbv iota.
      unfold acc_is, set_cells, vals_tab. cbn. repeat split; assumption.
  - (* PROP *)
    destruct Hv as [es [pt [H1 [H2 [H3 [H3' [H4 [H5 [H6 [H7 [H8 [H9 H10]]]]]]]]]]]].
    rewrite interp_chunk_prop by exact A7.
    rewrite H1 in A5. cbn [option_map] in A5.
    assert (Hn : nth_error (map dir_entry_of es) (Z.to_nat idx) = Some (p_ent (fst pt), p_name (fst pt), p_tname (fst pt), encode_value (snd pt) (p_def (fst pt)))).
    { rewrite nth_error_map, H3. reflexivity. }
    pose proof (A6 (Z.to_nat idx)) as Ht. rewrite Z2Nat.id in Ht by lia.
    pose proof (len_nonneg (svals S (Z.to_nat idx))).
    destruct (interp_prop_enc h a idx first ty vals _ _ _ _ _ (svals S (Z.to_nat idx)) A5 Hn H4 Ht H5) as [t' [I1 I2]]; try assumption; try lia.
    eexists. split; [exact I1|].
    unfold acc_is, set_vals, vals_tab, svals. cbn [a_pos a_edges a_faces a_cells a_dir a_vals a_eof ss_pos ss_edges ss_faces ss_cells ss_dir ss_vals].
    rewrite H1. cbn [option_map].
    repeat split; try assumption.
    intros j. rewrite tlookup_tupdate. rewrite nth_list_upd by exact H3'.
    destruct (Nat.eqb j (Z.to_nat idx)) eqn:E.
    + apply Nat.eqb_eq in E. subst j. rewrite Z2Nat.id by lia. rewrite Z.eqb_refl. exact I2.
    + apply Nat.eqb_neq in E. rewrite (eqb_false (Z.of_nat j) idx) by lia. exact (A6 j).
  - (* optional chunk *)
    rewrite interp_chunk_skip by assumption. exists a. split; [reflexivity|]. repeat split; assumption.
Qed.

(* ================================================================================================ sequences *)
Definition ksy_c (c : chunkd) : ksy_chunk := ksy_of (ctype_of c) (cflags_of c) (payload_of c).

Fixpoint spec_run (S : sst) (cs : list chunkd) : sst :=
  match cs with [] => S | c :: t => spec_run (spec_next S c) t end.

Fixpoint spec_run_valid (h : ksy_header) (S : sst) (cs : list chunkd) : Prop :=
  match cs with
  | [] => True
  | c :: t => (len (payload_of c) < max_payload /\ spec_valid h S c) /\ spec_run_valid h (spec_next S c) t
  end.

Lemma spec_run_app a b : forall S, spec_run S (a ++ b) = spec_run (spec_run S a) b.
Proof. induction a as [|c t IH]; intros S; cbn [app spec_run]; [reflexivity|apply IH]. Qed.

Lemma spec_run_valid_app h a b : forall S, spec_run_valid h S a -> spec_run_valid h (spec_run S a) b -> spec_run_valid h S (a ++ b).
Proof.
  induction a as [|c t IH]; intros S Ha Hb; cbn [app spec_run_valid spec_run] in *; [exact Hb|].
  destruct Ha as [Hc Ht]. split; [exact Hc|]. apply IH; assumption.
Qed.

Lemma interp_chunks_run h cs : forall a S, acc_is a S -> spec_run_valid h S cs ->
  exists a', interp_chunks h a (map ksy_c cs) = Some a' /\ acc_is a' (spec_run S cs).
Proof.
  induction cs as [|c t IH]; intros a S HA Hv; cbn [map interp_chunks spec_run].
  - exists a. split; [reflexivity|exact HA].
  - destruct Hv as [[_ Hc] Ht]. destruct (spec_chunk h a S c HA Hc) as [a1 [E1 A1]].
    unfold ksy_c at 1. rewrite E1. apply IH; assumption.
Qed.

Lemma interp_chunks_app h a b : forall acc, interp_chunks h acc (a ++ b) =
  match interp_chunks h acc a with None => None | Some acc' => interp_chunks h acc' b end.
Proof.
  induction a as [|c t IH]; intros acc; cbn [app interp_chunks]; [reflexivity|].
  destruct (interp_chunk h acc c); [apply IH|reflexivity].
Qed.

Lemma parse_chunks_run cs : Forall (fun c => len (payload_of c) < max_payload) cs -> forall fuel, (length cs + 1 <= fuel)%nat ->
  parse_chunks fuel (enc_chunks cs ++ write_chunk ChunkType_EndOfFile []) =
  Some (map ksy_c cs ++ [ksy_of ChunkType_EndOfFile ChunkFlags_Mandatory []]).
Proof.
  unfold enc_chunks. induction 1 as [|c t Hc Ht IH]; intros fuel Hf.
  - cbn [map concat app length] in *. destruct fuel as [|f]; [lia|].
    rewrite write_chunk_gen. rewrite <- (app_nil_r (gen_chunk _ _ _)).
    rewrite parse_chunks_gen by (rewrite len_nil; unfold max_payload; lia).
    destruct f; reflexivity.
  - cbn [map concat length] in *. destruct fuel as [|f]; [lia|].
    rewrite <- app_assoc. rewrite enc_chunkd_gen. rewrite parse_chunks_gen by exact Hc.
    rewrite IH by lia. reflexivity.
Qed.

(* ================================================================================================ the properties at the end *)
Lemma default_value_enc ty v : value_okb ty v = true -> default_value ty (encode_value ty v) = Some v.
Proof.
  unfold value_okb. intros H. apply andb_true_iff in H. destruct H as [_ H]. destruct ty as [|n|]; cbn [encode_value default_value].
  - destruct v as [|b [|? ?]]; try discriminate. rewrite H. reflexivity.
  - rewrite H. reflexivity.
  - apply Z.ltb_lt in H. unfold two32 in H. change (enc_u32 (len v) ++ v) with (write_vec32 v).
    rewrite <- (app_nil_r (write_vec32 v)). rewrite lp_vec32 by exact H. reflexivity.
Qed.

Definition pfinal (h : ksy_header) (pt : prop * ptype) (vals : list (list byte)) : Prop :=
  vals = p_vals (fst pt) /\ len vals = entity_total h (p_ent (fst pt)) /\ codec_of (p_tname (fst pt)) = Some (snd pt) /\
  value_okb (snd pt) (p_def (fst pt)) = true.

Lemma build_props_enc h (vt : list (Z * table (list byte))) : forall es vs (i0 : nat),
  Forall2 (pfinal h) es vs ->
  (forall k, tab_is (match tlookup (Z.of_nat (i0 + k)) vt with Some t => t | None => [] end) (nth k vs [])) ->
  build_props h (Z.of_nat i0) (map dir_entry_of es) vt = Some (map fst es).
Proof.
  intros es vs i0 H. revert i0. induction H as [|[p ty] vals es' vs' [P1 [P2 [P3 P4]]] H2 IH]; intros i0 Ht; [reflexivity|].
  cbn [map dir_entry_of fst snd build_props] in *.
  replace (Z.of_nat i0 + 1) with (Z.of_nat (S i0)) by lia.
  rewrite IH by (intros k; specialize (Ht (S k)); cbn [nth] in Ht; replace (S i0 + k)%nat with (i0 + S k)%nat by lia; exact Ht).
  rewrite P3. rewrite default_value_enc by exact P4.
  specialize (Ht 0%nat). cbn [nth] in Ht. rewrite Nat.add_0_r in Ht.
  rewrite <- P2. rewrite to_nat_len. rewrite (collect_default_tab0 _ _ _ Ht). rewrite P1.
  f_equal. f_equal. apply prop_eta.
Qed.

(* ================================================================================================ whole files *)
Lemma length_gen_chunk ty flags p : (16 <= length (gen_chunk ty flags p))%nat.
Proof.
  unfold gen_chunk. cbv zeta. rewrite !app_length. unfold enc_u32, enc_u64. rewrite !le_encode_length. cbn [length]. lia.
Qed.

Lemma length_enc_chunks cs : (length cs <= length (enc_chunks cs))%nat.
Proof.
  unfold enc_chunks. induction cs as [|c t IH]; cbn [map concat length]; [lia|].
  rewrite app_length. rewrite enc_chunkd_gen. pose proof (length_gen_chunk (ctype_of c) (cflags_of c) (payload_of c)). lia.
Qed.

Lemma spec_run_valid_payloads h cs : forall S, spec_run_valid h S cs -> Forall (fun c => len (payload_of c) < max_payload) cs.
Proof. induction cs as [|c t IH]; intros S H; [constructor|]. destruct H as [[H1 _] H2]. constructor; [exact H1|]. eapply IH. exact H2. Qed.

Theorem alt_file_spec dim topo m cs es :
  0 <= topo <= 2 -> u64_ok (m_nv m) -> u64_ok (len (m_edges m)) -> u64_ok (len (m_faces m)) -> u64_ok (len (m_cells m)) ->
  spec_run_valid (kh_of dim topo m) sst0 cs ->
  let S := spec_run sst0 cs in
  ss_pos S = m_pos m -> len (m_pos m) = m_nv m -> ss_edges S = m_edges m -> ss_faces S = m_faces m -> ss_cells S = m_cells m ->
  (ss_dir S = Some es \/ (ss_dir S = None /\ es = [])) -> map fst es = m_props m ->
  Forall2 (pfinal (kh_of dim topo m)) es (ss_vals S) ->
  decode_spec dim (alt_file dim topo m cs) = Some m.
Proof.
  intros Ht Hv He Hf Hc Hrun S Epos Enpos Eedges Efaces Ecells Edir Eprops Evals.
  set (h := kh_of dim topo m) in *.
  unfold decode_spec, alt_file, parse_file.
  rewrite parse_header_enc by assumption. fold h.
  rewrite parse_chunks_run; [|exact (spec_run_valid_payloads h cs sst0 Hrun)|].
  2:{ rewrite app_length. pose proof (length_enc_chunks cs). change (length (write_chunk ChunkType_EndOfFile [])) with 16%nat. lia. }
  change (k_header_version h =? 1) with true. change (k_vertex_dim h) with dim. rewrite Z.eqb_refl. cbn [negb orb].
  rewrite interp_chunks_app.
  destruct (interp_chunks_run h cs acc0 sst0 acc_is_0 Hrun) as [a [Ea HA]]. fold S in HA.
  rewrite Ea. cbn [interp_chunks].
  destruct HA as [A1 [A2 [A3 [A4 [A5 [A6 A7]]]]]].
  rewrite interp_chunk_eof by exact A7. cbn [set_eof a_eof negb a_edges a_faces a_cells a_dir a_vals a_pos].
  change (k_n_edges h) with (len (m_edges m)). change (k_n_faces h) with (len (m_faces m)).
  change (k_n_cells h) with (len (m_cells m)). change (k_n_vertices h) with (m_nv m).
  rewrite Eedges in A2. rewrite Efaces in A3. rewrite Ecells in A4. rewrite Epos in A1.
  rewrite !to_nat_len. rewrite (collect_tab0 _ _ A2), (collect_tab0 _ _ A3), (collect_tab0 _ _ A4).
  assert (Hd : match a_dir a with Some d => d | None => [] end = map dir_entry_of es).
  { rewrite A5. destruct Edir as [-> | [-> ->]]; reflexivity. }
  rewrite Hd.
  pose proof (build_props_enc h (a_vals a) es (ss_vals S) 0 Evals (fun k => A6 k)) as BP.
  change (Z.of_nat 0) with 0 in BP. rewrite BP.
  rewrite <- Enpos. rewrite to_nat_len. rewrite (collect_default_tab0 _ _ _ A1).
  rewrite Eprops, Enpos. destruct m. reflexivity.
Qed.
