(* IO/Ovmb2Small.v -- C18 (b): the writer's output for a well-formed mesh is a byte string (every element in [0,256)) shorter
   than 2^62 bytes, under explicit bounds on the mesh (`bounded`); hence every strict prefix of it is rejected, with no
   assumption about the encoding itself. *)
From Coq Require Import ZArith List Bool Lia.
From OVM Require Import Base.Int32 Gen.OvmbFormat IO.Bytes IO.OvmbWriterModel IO.OvmbReaderModel IO.OvmbProofs
  IO.Ovmb2Base IO.Ovmb2Chunk IO.Ovmb2Alt IO.Ovmb2Ints IO.Ovmb2Topo IO.Ovmb2Vert IO.Ovmb2Dirp IO.Ovmb2Prop IO.Ovmb2Run
  IO.Ovmb2Groups IO.Ovmb2PropGroup IO.Ovmb2Layout IO.Ovmb2Writer IO.Ovmb2Wf IO.Ovmb2RoundTrip.
Import ListNotations.
Local Open Scope Z_scope.

Definition vals_weight (vs : list (list byte)) : Z := fold_right Z.add 0 (map (fun v => len v + 4) vs).
Definition prop_weight (p : prop) : Z := len (p_name p) + len (p_tname p) + len (p_def p) + vals_weight (p_vals p) + 64.
Definition props_weight (ps : list prop) : Z := fold_right Z.add 0 (map prop_weight ps).

(* explicit bounds on the mesh: dimension and topology type are bytes; fewer than 2^57 handles in all faces resp. all cells;
   names, type names, defaults and values of all properties together below 2^58 bytes (64 + 4 per value counted extra) *)
Record bounded (dim topo : Z) (m : meshfile) : Prop := {
  bd_dim : 0 <= dim < 256;
  bd_topo : 0 <= topo < 256;
  bd_faces : hsum (m_faces m) < 144115188075855872;
  bd_cells : hsum (m_cells m) < 144115188075855872;
  bd_props : props_weight (m_props m) < 288230376151711744
}.

(* ================================================================================================ bytes *)
Lemma bytes_ok_concat l : Forall bytes_ok l -> bytes_ok (concat l).
Proof. induction 1; cbn [concat]; [constructor|]. apply bytes_ok_app; assumption. Qed.

Lemma bytes_ok_concat_map {A} (f : A -> list byte) l : Forall (fun x => bytes_ok (f x)) l -> bytes_ok (concat (map f l)).
Proof. induction 1; cbn [map concat]; [constructor|]. apply bytes_ok_app; assumption. Qed.

Lemma bytes_ok_cons b l : 0 <= b < 256 -> bytes_ok l -> bytes_ok (b :: l).
Proof. intros H1 H2. constructor; assumption. Qed.

Lemma bytes_ok_enc_int enc v : bytes_ok (enc_int enc v).
Proof. apply le_encode_ok. Qed.

Lemma bytes_ok_write_span f c : bytes_ok (write_span f c).
Proof. unfold write_span. apply bytes_ok_app; apply le_encode_ok. Qed.

Lemma bytes_okb_forallb v : forallb (fun b => (0 <=? b) && (b <? 256)) v = true -> bytes_ok v.
Proof. exact (bytes_okb_ok v). Qed.

Lemma value_okb_bytes ty v : value_okb ty v = true -> bytes_ok v.
Proof. unfold value_okb. intros H. apply andb_true_iff in H. destruct H as [H _]. exact (bytes_okb_ok v H). Qed.

Lemma pack_bits_range vs : forall w, 0 <= w -> 0 <= pack_bits vs w <= (2 ^ len vs - 1) * w.
Proof.
  induction vs as [|v t IH]; intros w Hw; cbn [pack_bits].
  - change (2 ^ len (@nil (list byte))) with 1. lia.
  - rewrite len_cons. pose proof (len_nonneg t). rewrite Z.pow_add_r by lia. change (2 ^ 1) with 2.
    specialize (IH (2 * w) ltac:(lia)). assert (0 < 2 ^ len t) by (apply Z.pow_pos_nonneg; lia).
    destruct (hd 0 v =? 0); nia.
Qed.

Lemma pack_bits8 vs : (length vs <= 8)%nat -> 0 <= pack_bits vs 1 < 256.
Proof.
  intros H. pose proof (pack_bits_range vs 1 ltac:(lia)) as R.
  assert (2 ^ len vs <= 2 ^ 8) by (apply Z.pow_le_mono_r; unfold len; lia). change (2 ^ 8) with 256 in *. lia.
Qed.

Lemma bytes_ok_pack_bools n : forall vs, bytes_ok (pack_bools n vs).
Proof.
  induction n as [|n IH]; intros vs; [constructor|]. destruct vs as [|v t]; [constructor|].
  rewrite pack_bools_cons. constructor; [|apply IH]. apply pack_bits8. rewrite firstn_length. lia.
Qed.

Lemma bytes_ok_encode_n ty vs : Forall bytes_ok vs -> bytes_ok (encode_n ty vs).
Proof.
  intros H. destruct ty as [|n|]; cbn [encode_n].
  - apply bytes_ok_pack_bools.
  - apply bytes_ok_concat_map. eapply Forall_impl; [|exact H]. intros v Hv. exact Hv.
  - apply bytes_ok_concat_map. eapply Forall_impl; [|exact H]. intros v Hv. cbn [encode_value].
    apply bytes_ok_app; [apply le_encode_ok|exact Hv].
Qed.

Lemma bytes_ok_encode_value ty v : bytes_ok v -> bytes_ok (encode_value ty v).
Proof. intros H. destruct ty; cbn [encode_value]; try exact H. apply bytes_ok_app; [apply le_encode_ok|exact H]. Qed.

Lemma bytes_ok_write_vec32 v : bytes_ok v -> bytes_ok (write_vec32 v).
Proof. intros H. unfold write_vec32. apply bytes_ok_app; [apply le_encode_ok|exact H]. Qed.

Lemma codec_table_bytes : forallb (fun x => bytes_okb (bytes_of_string (fst x))) codec_table = true.
Proof. vm_compute. reflexivity. Qed.

Lemma codec_of_bytes tn ty : codec_of tn = Some ty -> bytes_ok tn.
Proof.
  intros H. apply find_codec_in in H. destruct H as [s [A B]].
  pose proof codec_table_bytes as T. rewrite forallb_forall in T. specialize (T _ A). cbn [fst] in T.
  subst tn. apply bytes_okb_ok. exact T.
Qed.

Lemma enc_ok_byte enc : enc_ok enc -> 0 <= enc < 256.
Proof. intros H. pose proof (enc_ok_pos _ H). lia. Qed.

(* ---- per payload *)
Lemma bytes_ok_vert_payload first ps : bytes_ok (vert_payload first ps).
Proof.
  unfold vert_payload. apply bytes_ok_app; [apply bytes_ok_write_span|].
  apply bytes_ok_app; [repeat (apply bytes_ok_cons; [unfold VertexEncoding_Double; lia|]); constructor|].
  apply bytes_ok_concat_map. apply Forall_forall. intros p _. unfold enc_pos.
  apply bytes_ok_concat_map. apply Forall_forall. intros x _. apply le_encode_ok.
Qed.

Lemma bytes_ok_topo_header first count entity valence venc henc off :
  0 <= entity < 256 -> 0 <= valence < 256 -> 0 <= venc < 256 -> 0 <= henc < 256 ->
  bytes_ok (topo_header_off first count entity valence venc henc off).
Proof.
  intros. unfold topo_header_off. apply bytes_ok_app; [apply bytes_ok_write_span|].
  apply bytes_ok_app; [|apply le_encode_ok]. repeat (apply bytes_ok_cons; [assumption|]). constructor.
Qed.

Lemma bytes_ok_edges_payload first henc off es : enc_ok henc -> bytes_ok (edges_payload first henc off es).
Proof.
  intros He. unfold edges_payload. apply bytes_ok_app.
  - apply bytes_ok_topo_header; try (unfold TopoEntity_Edge, IntEncoding_None; lia). apply enc_ok_byte; exact He.
  - apply bytes_ok_concat_map. apply Forall_forall. intros e _. unfold enc_edge. apply bytes_ok_app; apply bytes_ok_enc_int.
Qed.

Lemma bytes_ok_poly_payload entity first f henc off items :
  0 <= entity < 256 -> enc_ok henc -> form_ok f items -> bytes_ok (poly_payload entity first f henc off items).
Proof.
  intros Hent He Hf. unfold poly_payload. apply bytes_ok_app; [|apply bytes_ok_app].
  - apply bytes_ok_topo_header; try assumption; try (apply enc_ok_byte; exact He).
    + destruct f; cbn [form_valence form_ok] in *; lia.
    + destruct f; cbn [form_venc form_ok] in *; [unfold IntEncoding_None; lia|apply enc_ok_byte; apply Hf].
  - destruct f; cbn [valence_data]; [constructor|]. apply bytes_ok_concat_map. apply Forall_forall. intros x _. apply bytes_ok_enc_int.
  - apply bytes_ok_concat_map. apply Forall_forall. intros x _. unfold enc_handles.
    apply bytes_ok_concat_map. apply Forall_forall. intros y _. apply bytes_ok_enc_int.
Qed.

Lemma bytes_ok_prop_payload idx first ty vals : Forall bytes_ok vals -> bytes_ok (prop_payload idx first ty vals).
Proof.
  intros H. unfold prop_payload. apply bytes_ok_app; [apply bytes_ok_write_span|].
  apply bytes_ok_app; [apply le_encode_ok|apply bytes_ok_encode_n; exact H].
Qed.

Lemma bytes_ok_dirp_entry pt : 0 <= p_ent (fst pt) < 256 -> bytes_ok (p_name (fst pt)) -> bytes_ok (p_tname (fst pt)) ->
  bytes_ok (p_def (fst pt)) -> bytes_ok (dirp_entry pt).
Proof.
  destruct pt as [p ty]. cbn [fst]. intros He Hn Ht Hd. unfold dirp_entry.
  apply bytes_ok_app; [apply bytes_ok_cons; [exact He|constructor]|].
  apply bytes_ok_app; [apply bytes_ok_write_vec32; exact Hn|].
  apply bytes_ok_app; [apply bytes_ok_write_vec32; exact Ht|].
  apply bytes_ok_write_vec32. apply bytes_ok_encode_value. exact Hd.
Qed.

Lemma bytes_ok_write_chunk ty p : 0 <= ty < 4294967296 -> bytes_ok p -> len p < max_payload -> bytes_ok (write_chunk ty p).
Proof.
  intros Hty Hp Hl. destruct (write_chunk_shape ty p [] (conj Hty (conj Hp Hl))) as [_ [_ [_ [_ H]]]]. exact H.
Qed.

(* ================================================================================================ sizes *)
Definition piece (b : list byte) (bound : Z) : Prop := bytes_ok b /\ len b <= bound.

Lemma piece_nil bound : 0 <= bound -> piece [] bound.
Proof. intros H. split; [constructor|rewrite len_nil; exact H]. Qed.

Lemma piece_app a b x y : piece a x -> piece b y -> piece (a ++ b) (x + y).
Proof. intros [A1 A2] [B1 B2]. split; [apply bytes_ok_app; assumption|rewrite len_app; lia]. Qed.

Lemma piece_le b x y : piece b x -> x <= y -> piece b y.
Proof. intros [A1 A2] H. split; [exact A1|lia]. Qed.

Lemma piece_chunk ty p bound : 0 <= ty < 4294967296 -> bytes_ok p -> len p <= bound -> bound < max_payload ->
  piece (write_chunk ty p) (bound + 24).
Proof.
  intros Hty Hp Hl Hb. split; [apply bytes_ok_write_chunk; try assumption; lia|].
  rewrite write_chunk_gen. destruct (len_gen_chunk ty ChunkFlags_Mandatory p ltac:(lia)) as [E R]. lia.
Qed.

Lemma piece_vertices dim m : wf_file dim m -> 0 <= dim < 256 ->
  piece (write_vertices m) (8589934592 * dim + 40).
Proof.
  intros W Hd. pose proof (wf_unpack dim m W) as U.
  pose proof (wf_nv0 _ _ U). pose proof (wf_nv _ _ U). pose proof (wf_npos _ _ U) as Hn.
  rewrite write_vertices_eq by (try (symmetry; exact Hn); lia).
  destruct (m_pos m) as [|p t] eqn:E; [apply piece_nil; lia|].
  cbn [one_seg vert_chunks]. rewrite enc_chunks_one. cbn [enc_chunkd]. rewrite <- E in *.
  assert (P : Forall (pos_ok (Z.to_nat dim)) (m_pos m)).
  { eapply Forall_impl; [|exact (wf_pos _ _ U)]. intros q [Q1 Q2]. split; [unfold len in Q1; lia|exact Q2]. }
  pose proof (len_vert_payload dim 0 (m_pos m) P ltac:(lia)) as L.
  eapply piece_le; [apply (piece_chunk _ _ (16 + len (m_pos m) * (8 * dim)))|]; try (unfold ChunkType_Vertices, max_payload; nia).
  apply bytes_ok_vert_payload.
Qed.

Lemma piece_edges dim m : wf_file dim m -> piece (write_edges m) 8589934640.
Proof.
  intros W. pose proof (wf_unpack dim m W) as U. pose proof (wf_ne _ _ U). pose proof (len_nonneg (m_edges m)).
  rewrite write_edges_eq by lia.
  destruct (m_edges m) as [|e t] eqn:E; [apply piece_nil; lia|].
  cbn [one_seg edge_chunks es_henc es_off es_items]. rewrite enc_chunks_one. cbn [enc_chunkd]. rewrite <- E in *.
  set (henc := suitable_int_encoding (c_uint (m_nv m))).
  pose proof (suitable_ok (c_uint (m_nv m))) as He. fold henc in He. pose proof (enc_ok_pos _ He).
  pose proof (len_edges_payload 0 henc 0 (m_edges m) He) as L.
  eapply piece_le; [apply (piece_chunk _ _ (24 + len (m_edges m) * (2 * henc)))|]; try (unfold ChunkType_Topo, max_payload; nia).
  apply bytes_ok_edges_payload. exact He.
Qed.

(* the header bytes of either form *)
Definition form_shape (f : pform) : Prop := match f with PFixed v => 1 <= v <= 255 | PVar venc => enc_ok venc end.

Lemma writer_form_shape items : form_shape (writer_form items).
Proof.
  unfold writer_form, writer_fixed. cbv zeta. set (vals := map (fun x => len x) items).
  destruct ((list_min vals 4294967295 =? list_max vals 0) && negb (list_min vals 4294967295 =? 0) && (list_min vals 4294967295 <=? 255)) eqn:F;
    cbn [form_shape]; [|apply suitable_ok].
  apply andb_true_iff in F. destruct F as [F F3]. apply andb_true_iff in F. destruct F as [_ F2].
  apply negb_true_iff in F2. apply Z.eqb_neq in F2. apply Z.leb_le in F3.
  assert (0 <= list_min vals 4294967295).
  { apply fold_min_lb; [lia|]. unfold vals. clear. induction items; cbn [map]; constructor; [apply len_nonneg|assumption]. }
  lia.
Qed.

Lemma bytes_ok_poly_payload' entity first f henc off items :
  0 <= entity < 256 -> enc_ok henc -> form_shape f -> bytes_ok (poly_payload entity first f henc off items).
Proof.
  intros Hent He Hf. unfold poly_payload. apply bytes_ok_app; [|apply bytes_ok_app].
  - apply bytes_ok_topo_header; try assumption; try (apply enc_ok_byte; exact He).
    + destruct f; cbn [form_valence form_shape] in *; lia.
    + destruct f; cbn [form_venc form_shape] in *; [unfold IntEncoding_None; lia|apply enc_ok_byte; apply Hf].
  - destruct f; cbn [valence_data]; [constructor|]. apply bytes_ok_concat_map. apply Forall_forall. intros x _. apply bytes_ok_enc_int.
  - apply bytes_ok_concat_map. apply Forall_forall. intros x _. unfold enc_handles.
    apply bytes_ok_concat_map. apply Forall_forall. intros y _. apply bytes_ok_enc_int.
Qed.

Lemma len_valence_data' f items : form_shape f -> len (valence_data f items) <= 4 * len items.
Proof.
  destruct f as [v|venc]; cbn [valence_data form_shape]; intros H.
  - rewrite len_nil. pose proof (len_nonneg items). lia.
  - rewrite len_enc_ints by exact H. rewrite len_map. pose proof (enc_ok_pos _ H). pose proof (len_nonneg items). nia.
Qed.

Lemma piece_poly entity items lim : 0 <= entity < 256 -> len items < 1073741824 -> 0 <= lim < 4294967296 ->
  hsum items < 144115188075855872 ->
  piece (write_poly_topo entity items (suitable_int_encoding (c_uint lim))) (4 * hsum items + 4294967344).
Proof.
  intros Hent Hn Hlim Hsum. pose proof (len_nonneg items). pose proof (hsum_nonneg items).
  rewrite write_poly_topo_eq by lia.
  destruct items as [|x t] eqn:E; [apply piece_nil; lia|].
  cbn [one_seg poly_chunks ps_form ps_henc ps_off ps_items]. rewrite enc_chunks_one. cbn [enc_chunkd]. rewrite <- E in *.
  set (henc := suitable_int_encoding (c_uint lim)).
  pose proof (suitable_ok (c_uint lim)) as He. fold henc in He. pose proof (enc_ok_pos _ He).
  pose proof (writer_form_shape items) as Hf.
  pose proof (len_poly_payload entity 0 (writer_form items) henc 0 items He) as L.
  pose proof (len_valence_data' _ items Hf).
  eapply piece_le; [apply (piece_chunk _ _ (24 + 4 * len items + 4 * hsum items))|]; try (unfold ChunkType_Topo, max_payload; nia).
  all: try (apply bytes_ok_poly_payload'; assumption).
  all: pose proof (len_nonneg (valence_data (writer_form items) items)); nia.
Qed.

(* ---- properties *)
Definition entry_bytes (pt : prop * ptype) : Prop :=
  0 <= p_ent (fst pt) < 256 /\ bytes_ok (p_name (fst pt)) /\ bytes_ok (p_tname (fst pt)) /\ bytes_ok (p_def (fst pt)) /\
  Forall bytes_ok (p_vals (fst pt)).

Lemma written_entry_bytes dim m : wf_file dim m -> Forall entry_bytes (written_props m).
Proof.
  intros W. destruct (written_props_facts dim m W) as [E1 E2]. apply wf_unpack in W.
  pose proof (wf_propsok _ _ W) as Hp. rewrite <- E1 in Hp.
  revert E2 Hp. generalize (written_props m). intros es E2 Hp.
  induction es as [|[p ty] t IH]; [constructor|].
  inversion E2 as [|? ? Hc E2']; subst. cbn [map] in Hp. inversion Hp as [|? ? Hok Hp']; subst. cbn [fst snd] in *.
  constructor; [|apply IH; assumption].
  unfold prop_okb in Hok. rewrite Hc in Hok. cbv beta iota in Hok.
  apply andb_true_iff in Hok. destruct Hok as [Hok Kv].
  apply andb_true_iff in Hok. destruct Hok as [Hok K0].
  apply andb_true_iff in Hok. destruct Hok as [Hok _].
  apply andb_true_iff in Hok. destruct Hok as [Hok _].
  apply andb_true_iff in Hok. destruct Hok as [Hok K3].
  apply andb_true_iff in Kv. destruct Kv as [Kv _].
  apply andb_true_iff in Kv. destruct Kv as [Kd Kvals].
  apply Z.leb_le in Hok. apply Z.leb_le in K3.
  unfold entry_bytes. cbn [fst].
  split; [lia|]. split; [exact (bytes_okb_ok _ K0)|]. split; [exact (codec_of_bytes _ _ Hc)|].
  split; [exact (value_okb_bytes _ _ Kd)|].
  apply Forall_forallb in Kvals. eapply Forall_impl; [|exact Kvals]. intros v Hv. exact (value_okb_bytes _ _ Hv).
Qed.

Lemma len_encode_value_le ty v : len (encode_value ty v) <= len v + 4.
Proof. destruct ty; cbn [encode_value]; lens; lia. Qed.

Lemma len_dirp_entry_le pt : len (dirp_entry pt) <= 17 + len (p_name (fst pt)) + len (p_tname (fst pt)) + len (p_def (fst pt)).
Proof.
  destruct pt as [p ty]. cbn [fst]. unfold dirp_entry, write_vec32. pose proof (len_encode_value_le ty (p_def p)). lens. zlia.
Qed.

Lemma vals_weight_ge vs : 4 * len vs <= vals_weight vs.
Proof.
  unfold vals_weight. induction vs as [|v t IH]; cbn [map fold_right]; [unfold len; simpl; lia|].
  rewrite len_cons. pose proof (len_nonneg v). lia.
Qed.

Ltac Zify.zify_post_hook ::= Z.div_mod_to_equations.
Lemma div8_le n : 0 <= n -> (n + 7) / 8 <= n.
Proof. intros H. lia. Qed.
Ltac Zify.zify_post_hook ::= idtac.

Lemma len_encode_n_le ty vs : len (encode_n ty vs) <= vals_weight vs.
Proof.
  destruct ty as [|n|]; cbn [encode_n].
  - rewrite len_pack_bools by lia. pose proof (vals_weight_ge vs). pose proof (len_nonneg vs). pose proof (div8_le (len vs)). lia.
  - unfold vals_weight. induction vs as [|v t IH]; cbn [map concat fold_right encode_value]; [unfold len; simpl; lia|]. rewrite len_app. lia.
  - unfold vals_weight. induction vs as [|v t IH]; cbn [map concat fold_right encode_value]; [unfold len; simpl; lia|]. lens. lia.
Qed.

Definition entries_weight (es : list (prop * ptype)) : Z := props_weight (map fst es).

Definition dir_weight (es : list (prop * ptype)) : Z :=
  fold_right Z.add 0 (map (fun pt => 17 + len (p_name (fst pt)) + len (p_tname (fst pt)) + len (p_def (fst pt))) es).
Definition chunks_weight (es : list (prop * ptype)) : Z :=
  fold_right Z.add 0 (map (fun pt => vals_weight (p_vals (fst pt)) + 40) es).

Lemma piece_dirp_payload es : Forall entry_bytes es -> piece (dirp_payload es) (dir_weight es).
Proof.
  unfold dirp_payload, dir_weight. induction 1 as [|pt t [H1 [H2 [H3 [H4 _]]]] Ht IH]; cbn [map concat fold_right].
  - apply piece_nil. lia.
  - apply piece_app; [|exact IH]. split; [apply bytes_ok_dirp_entry; assumption|apply len_dirp_entry_le].
Qed.

Lemma weights_nonneg es : 0 <= dir_weight es /\ 0 <= chunks_weight es.
Proof.
  unfold dir_weight, chunks_weight. induction es as [|pt t [IH1 IH2]]; cbn [map fold_right]; [lia|].
  pose proof (vals_weight_ge (p_vals (fst pt))). pose proof (len_nonneg (p_vals (fst pt))).
  pose proof (len_nonneg (p_name (fst pt))). pose proof (len_nonneg (p_tname (fst pt))). pose proof (len_nonneg (p_def (fst pt))). lia.
Qed.

Lemma weights_sum es : dir_weight es + chunks_weight es <= entries_weight es.
Proof.
  unfold entries_weight, props_weight, dir_weight, chunks_weight. induction es as [|pt t IH]; cbn [map fold_right]; [lia|].
  unfold prop_weight at 1. lia.
Qed.

Lemma piece_write_props : forall es idx, Forall entry_bytes es -> chunks_weight es < max_payload - 64 ->
  piece (write_props idx es) (chunks_weight es).
Proof.
  induction es as [|[p ty] t IH]; intros idx He Hw.
  - apply piece_nil. unfold chunks_weight; cbn [map fold_right]. lia.
  - inversion He as [|? ? [_ [_ [_ [_ Hv]]]] He']; subst. cbn [fst] in Hv.
    destruct (weights_nonneg t) as [_ W0].
    unfold chunks_weight in *. cbn [write_props map fold_right fst] in *.
    pose proof (vals_weight_ge (p_vals p)). pose proof (len_nonneg (p_vals p)).
    pose proof (len_encode_n_le ty (p_vals p)) as Le.
    replace (vals_weight (p_vals p) + 40 + fold_right Z.add 0 (map (fun pt => vals_weight (p_vals (fst pt)) + 40) t))
      with ((16 + vals_weight (p_vals p) + 24) + fold_right Z.add 0 (map (fun pt => vals_weight (p_vals (fst pt)) + 40) t)) by lia.
    apply piece_app; [|apply IH; [exact He'|lia]].
    apply piece_chunk; [unfold ChunkType_Property; lia| | |unfold max_payload in *; lia].
    + apply bytes_ok_app; [apply bytes_ok_write_span|]. apply bytes_ok_app; [apply le_encode_ok|apply bytes_ok_encode_n; exact Hv].
    + lens. zlia.
Qed.

Lemma piece_propdir dim m : wf_file dim m -> dir_weight (written_props m) < max_payload ->
  piece (write_propdir m) (dir_weight (written_props m) + 24).
Proof.
  intros W Hw. pose proof (written_entry_bytes dim m W) as Hb. pose proof (piece_dirp_payload _ Hb) as [P1 P2].
  destruct (weights_nonneg (written_props m)) as [S1 _].
  rewrite write_propdir_eq. destruct (written_props m) as [|e t] eqn:E.
  - apply piece_nil. lia.
  - cbn [dirp_chunks]. rewrite enc_chunks_one. cbn [enc_chunkd]. rewrite <- E in *.
    apply piece_chunk; [unfold ChunkType_PropertyDirectory; lia|exact P1|exact P2|exact Hw].
Qed.

(* ================================================================================================ the whole file *)
Theorem encode_small dim topo m : wf_file dim m -> bounded dim topo m -> small (encode dim topo m).
Proof.
  intros W B. pose proof (wf_unpack dim m W) as U.
  pose proof (wf_nv0 _ _ U). pose proof (wf_nv _ _ U). pose proof (wf_ne _ _ U). pose proof (wf_nf _ _ U). pose proof (wf_nc _ _ U).
  pose proof (len_nonneg (m_edges m)). pose proof (len_nonneg (m_faces m)). pose proof (len_nonneg (m_cells m)).
  destruct (written_props_facts dim m W) as [E1 _].
  assert (Hw : entries_weight (written_props m) < 288230376151711744) by (unfold entries_weight; rewrite E1; exact (bd_props _ _ _ B)).
  pose proof (weights_sum (written_props m)) as S1. destruct (weights_nonneg (written_props m)) as [S2 S3].
  pose proof (bd_dim _ _ _ B) as Hd. pose proof (bd_topo _ _ _ B) as Ht.
  pose proof (hsum_nonneg (m_faces m)). pose proof (hsum_nonneg (m_cells m)).
  assert (P : piece (encode dim topo m)
                (48 + ((dir_weight (written_props m) + 24)
                 + ((8589934592 * dim + 40) + (8589934640 + ((4 * hsum (m_faces m) + 4294967344) + ((4 * hsum (m_cells m) + 4294967344)
                 + (chunks_weight (written_props m) + 16)))))))).
  { unfold encode. apply piece_app.
    - split; [|unfold len; rewrite header_length; lia].
      unfold write_file_header. apply bytes_ok_app; [apply bytes_okb_ok; reflexivity|].
      apply bytes_ok_app; [repeat (apply bytes_ok_cons; [lia|]); constructor|].
      apply bytes_ok_app; [apply bytes_okb_ok; reflexivity|].
      repeat (apply bytes_ok_app; [apply le_encode_ok|]). apply le_encode_ok.
    - apply piece_app; [apply (piece_propdir dim m W); unfold max_payload; lia|].
      apply piece_app; [apply (piece_vertices dim m W Hd)|].
      apply piece_app; [apply (piece_edges dim m W)|].
      apply piece_app; [unfold write_faces; apply piece_poly; try (unfold TopoEntity_Face); try lia; exact (bd_faces _ _ _ B)|].
      apply piece_app; [unfold write_cells; apply piece_poly; try (unfold TopoEntity_Cell); try lia; exact (bd_cells _ _ _ B)|].
      apply piece_app; [apply piece_write_props; [exact (written_entry_bytes dim m W)|unfold max_payload; lia]|].
      split; [apply bytes_okb_ok; reflexivity|reflexivity]. }
  destruct P as [P1 P2]. split; [exact P1|].
  pose proof (bd_faces _ _ _ B). pose proof (bd_cells _ _ _ B). lia.
Qed.

(* C18_prefix without the assumption `small (encode m)` *)
Theorem prefix_rejected' o dim topo m n r :
  wf_file dim m -> bounded dim topo m -> (n < length (encode dim topo m))%nat ->
  decode_impl o (firstn n (encode dim topo m)) <> ROk r.
Proof. intros W B. apply prefix_rejected. apply encode_small; assumption. Qed.
