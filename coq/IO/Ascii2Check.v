(* IO/Ascii2Check.v -- C06 (ASCII): the hypotheses of the round trip as ONE decidable predicate [wf_meshb] (no pending
   deletions, handles in range, valences >= 1, counts below 2^31 and allocatable, finite coordinates, every property inside
   the format's limits, distinct property identities, the kernel accepts and stores every face / cell as given), its
   soundness, and the assembled theorem [ascii_roundtrip_props].  Also: what the writer prints does not depend on the
   bottom-up incidence settings (or anything but topology, deleted flags, coordinates, properties), and properties
   without floating point components come back identical. *)
From Coq Require Import ZArith Lia List Bool String Ascii Permutation.
From OVM Require Import Kernel.Ops.
From OVM Require Import IO.AsciiStream IO.AsciiReaderModel IO.AsciiWriterModel IO.AsciiProofs.
From OVM Require Import IO.Ascii2Num IO.Ascii2Val IO.Ascii2Prop IO.Ascii2Topo IO.Ascii2Sort IO.Ascii2RoundTrip.
Import ListNotations.
Local Open Scope Z_scope.

(* ------------------------------------------------------------------ the decision procedure *)

Definition no_pendingb (m : mesh) : bool :=
  forallb negb (vdel m) && forallb negb (edel m) && forallb negb (fdel m) && forallb negb (cdel m).

Definition okpb (okd : Z -> bool) (p : Z * Z * Z) : bool := let '(x, y, z) := p in okd x && okd y && okd z.

Definition ent_okb (o : opts) (limit : Z) (l : list nat) : bool :=
  negb (is_nil l) && forallb (fun h => Z.of_nat h <? limit) l &&
  (Z.of_nat (length l) * 4 <=? o_alloc o) && (Z.of_nat (length l) <? 4294967296).

Definition topo_okb (okd : Z -> bool) (o : opts) (w : wmesh) : bool :=
  let m := w_mesh w in
  no_pendingb m && (length (w_pos w) =? nv m)%nat && forallb (okpb okd) (w_pos w) &&
  (Z.of_nat (nv m) <=? 2147483648) && (Z.of_nat (nv m) * 24 <=? o_alloc o) &&
  (Z.of_nat (2 * ne m) <=? 2147483648) && (Z.of_nat (ne m) * 8 <=? o_alloc o) &&
  (Z.of_nat (2 * nf m) <=? 2147483648) && (Z.of_nat (nf m) * 24 <=? o_alloc o) &&
  (Z.of_nat (nc m) <=? 2147483648) && (Z.of_nat (nc m) * 24 <=? o_alloc o) &&
  forallb (fun e => (Z.of_nat (fst e) <? Z.of_nat (nv m)) && (Z.of_nat (snd e) <? Z.of_nat (nv m))) (edges m) &&
  forallb (ent_okb o (Z.of_nat (2 * ne m))) (faces m) &&
  forallb (ent_okb o (Z.of_nat (2 * nf m))) (cells m).

(* the kernel (mesh class and topology check of o) accepts every face and cell and stores every cell as given *)
Definition acceptsb (o : opts) (m : mesh) : bool := match built o m with Some _ => true | None => false end.

Definition wf_meshb (okd okf : Z -> bool) (o : opts) (w : wmesh) : bool :=
  topo_okb okd o w && forallb (prop_okb okd okf o (w_mesh w)) (w_props w) &&
  keys_nodupb (pos_entry [] :: w_props w) && acceptsb o (w_mesh w).

Lemma nth_all_false l : forallb negb l = true -> forall v, nth v l false = false.
Proof.
  induction l as [|b l IH]; intros H v; destruct v; cbn in *; auto; apply andb_prop in H; destruct H as [H1 H2]; auto.
  destruct b; [discriminate|reflexivity].
Qed.

Lemma no_pendingb_live m : no_pendingb m = true ->
  live_vertices m = seq 0 (nv m) /\ live_edges m = seq 0 (ne m) /\ live_faces m = seq 0 (nf m) /\ live_cells m = seq 0 (nc m).
Proof.
  unfold no_pendingb. intros H. apply andb_prop in H. destruct H as [H H4]. apply andb_prop in H. destruct H as [H H3].
  apply andb_prop in H. destruct H as [H1 H2].
  unfold live_vertices, live_edges, live_faces, live_cells, v_deleted, e_deleted, f_deleted, c_deleted.
  repeat split; apply filter_all; intros x _; rewrite nth_all_false; auto.
Qed.

Lemma ent_okb_ok o limit l : ent_okb o limit l = true -> ent_ok o limit l.
Proof.
  unfold ent_okb, ent_ok. intros H. apply andb_prop in H. destruct H as [H H4]. apply andb_prop in H. destruct H as [H H3].
  apply andb_prop in H. destruct H as [H1 H2]. split; [destruct l; [discriminate|discriminate]|]. split; [|lia].
  apply Forall_forall. intros h Hh. rewrite forallb_forall in H2. specialize (H2 h Hh). lia.
Qed.

Lemma Forall_of_forallb {A} (p : A -> bool) (P : A -> Prop) l : (forall x, p x = true -> P x) -> forallb p l = true -> Forall P l.
Proof. intros H E. apply Forall_forall. intros x Hx. apply H. rewrite forallb_forall in E. auto. Qed.

Lemma topo_okb_ok okd o w : topo_okb okd o w = true -> wft okd o w.
Proof.
  unfold topo_okb. intros H.
  apply andb_prop in H. destruct H as [H Hcs]. apply andb_prop in H. destruct H as [H Hfs]. apply andb_prop in H. destruct H as [H Hes].
  apply andb_prop in H. destruct H as [H Hc2]. apply andb_prop in H. destruct H as [H Hc1].
  apply andb_prop in H. destruct H as [H Hf2]. apply andb_prop in H. destruct H as [H Hf1].
  apply andb_prop in H. destruct H as [H He2]. apply andb_prop in H. destruct H as [H He1].
  apply andb_prop in H. destruct H as [H Hv2]. apply andb_prop in H. destruct H as [H Hv1].
  apply andb_prop in H. destruct H as [H Hpok]. apply andb_prop in H. destruct H as [Hnp Hplen].
  destruct (no_pendingb_live _ Hnp) as (L1 & L2 & L3 & L4).
  constructor.
  - exact L1.
  - exact L2.
  - exact L3.
  - exact L4.
  - apply Nat.eqb_eq. exact Hplen.
  - eapply Forall_of_forallb; [|exact Hpok]. intros [[x y] z] E. cbn in E. apply andb_prop in E. destruct E as [E E3].
    apply andb_prop in E. destruct E as [E1 E2]. cbn. auto.
  - lia.
  - lia.
  - lia.
  - lia.
  - eapply Forall_of_forallb; [|exact Hes]. intros e E. cbv beta in E. lia.
  - eapply Forall_of_forallb; [|exact Hfs]. apply ent_okb_ok.
  - eapply Forall_of_forallb; [|exact Hcs]. apply ent_okb_ok.
Qed.

Lemma wf_meshb_ok okd okf o w : wf_meshb okd okf o w = true ->
  wfp okd okf o w /\ exists mC, built o (w_mesh w) = Some mC.
Proof.
  unfold wf_meshb, acceptsb. intros H. apply andb_prop in H. destruct H as [H H4]. apply andb_prop in H. destruct H as [H H3].
  apply andb_prop in H. destruct H as [H1 H2]. split.
  - constructor; [apply topo_okb_ok; auto|auto|apply keys_nodupb_ok; auto].
  - destruct (built o (w_mesh w)) as [mC|]; [eauto|discriminate].
Qed.

(* polyhedral mesh, topology check off: the kernel accepts everything *)
Lemma acceptsb_poly_nocheck o m : o_mesh o = MPoly -> o_check o = false -> acceptsb o m = true.
Proof.
  intros Hm Hc. unfold acceptsb. pose proof (built_poly_nocheck o m Hm Hc). destruct (built o m); [reflexivity|congruence].
Qed.

(* ------------------------------------------------------------------ properties without floating point components *)

Definition float_free (t : atype) : bool :=
  match t with TFloat | TDouble | TVecDouble | TVec _ SF | TVec _ SD => false | _ => true end.

Lemma map_id_ext {A} (f : A -> A) l : (forall x, f x = x) -> map f l = l.
Proof. intros H. induction l; cbn; [reflexivity|]. rewrite H, IHl. reflexivity. Qed.

Lemma rp_val_float_free cd cf pd pf t v : float_free t = true -> rp_val cd cf pd pf t v = v.
Proof.
  destruct t; try discriminate; try reflexivity. destruct s; try discriminate; intros _; destruct v; try reflexivity; cbn [rp_val];
    f_equal; apply map_id_ext; intros x; destruct x; reflexivity.
Qed.

Lemma rp_entry_float_free cd cf pd pf p : float_free (p_type p) = true -> p_persistent p = true -> rp_entry cd cf pd pf p = p.
Proof.
  intros Hf Hp. destruct p as [k n t pers vs]. cbn in *. subst pers. unfold rp_entry. cbn. f_equal.
  apply map_id_ext. intros v. apply rp_val_float_free. exact Hf.
Qed.

(* ------------------------------------------------------------------ the writer only looks at topology, flags, positions, properties *)

Lemma write_ascii_ext pd pf m m' pos props : topo m' = topo m -> dels m' = dels m ->
  write_ascii pd pf {| w_mesh := m'; w_pos := pos; w_props := props |} = write_ascii pd pf {| w_mesh := m; w_pos := pos; w_props := props |}.
Proof.
  unfold topo, dels. intros T D. inversion T as [[T1 T2 T3 T4]]. inversion D as [[D1 D2 D3 D4]].
  unfold write_ascii, pos_at, live_vertices, live_edges, live_faces, live_cells, v_deleted, e_deleted, f_deleted, c_deleted,
    edge_at, face_at, cell_at, ne, nf, nc. cbn [w_mesh w_pos w_props].
  rewrite T1, T2, T3, T4, D1, D2, D3, D4. reflexivity.
Qed.

(* in particular: bottom-up incidences on or off in the mesh that is written *)
Lemma write_ascii_bu pd pf m pos props (bv be bf : bool) :
  write_ascii pd pf {| w_mesh := enable_fbu bf (enable_ebu be (enable_vbu bv m)); w_pos := pos; w_props := props |}
  = write_ascii pd pf {| w_mesh := m; w_pos := pos; w_props := props |}.
Proof.
  apply write_ascii_ext.
  - rewrite topo_enable_fbu, topo_enable_ebu, topo_enable_vbu. reflexivity.
  - rewrite dels_enable_fbu, dels_enable_ebu, dels_enable_vbu. reflexivity.
Qed.

(* ------------------------------------------------------------------ the assembled theorem *)

Section Main.
  Variable conv_d : list byte -> Z * bool.
  Variable conv_f : list byte -> Z * bool.
  Variable print_d : Z -> list byte.
  Variable print_f : Z -> list byte.
  Variable okd : Z -> bool.
  Variable okf : Z -> bool.

  (* what is assumed of a printer / converter pair on the set of printable values *)
  Definition float_io_ok (conv : list byte -> Z * bool) (print : Z -> list byte) (ok : Z -> bool) : Prop :=
    (forall b, ok b = true -> tokp (print b) /\ hd 0 (print b) <> 35) /\
    (forall b r, ok b = true -> endws r -> float_scan (print b ++ r) = (print b, r)) /\
    (forall b, ok b = true -> snd (conv (print b)) = false) /\
    (forall b, ok b = true -> ok (reparse conv print b) = true) /\
    (forall b, ok b = true -> reparse conv print (reparse conv print b) = reparse conv print b).

  Notation rpe := (rp_entry conv_d conv_f print_d print_f).

  Theorem ascii_roundtrip_props : float_io_ok conv_d print_d okd -> float_io_ok conv_f print_f okf ->
    forall o w, wf_meshb okd okf o w = true ->
    exists f1 mC,
      read_ascii conv_d conv_f o (write_ascii print_d print_f w) = RTrue f1 /\
      read_ascii conv_d conv_f o (write_ascii print_d print_f (reread_props f1)) = RTrue f1 /\
      built o (w_mesh w) = Some mC /\ f_mesh f1 = with_bu o mC /\ topo (f_mesh f1) = topo (w_mesh w) /\
      f_props f1 = pos_entry (map (rp3 conv_d print_d) (w_pos w)) :: map rpe (sorted_props (w_props w)) /\
      Permutation (f_props f1) (pos_entry (map (rp3 conv_d print_d) (w_pos w)) :: map rpe (w_props w)) /\
      (forall p, In p (w_props w) -> In (rpe p) (f_props f1)) /\
      (forall p, In p (w_props w) -> float_free (p_type p) = true -> In p (f_props f1)).
  Proof.
    intros (D1 & D2 & D3 & D4 & D5) (F1 & F2 & F3 & F4 & F5) o w H.
    destruct (wf_meshb_ok okd okf o w H) as (W & mC & HB).
    destruct (read_write_props_twice conv_d conv_f print_d print_f okd okf D1 D2 D3 F1 F2 F3 D4 F4 D5 F5 o w mC W HB)
      as (f1 & R1 & R2 & M & T & P).
    exists f1, mC. repeat split; auto.
    - rewrite P. constructor. apply Permutation_map. apply sorted_props_perm.
    - intros p Hp. rewrite P. right. apply in_map. apply sorted_props_in. exact Hp.
    - intros p Hp Hf. rewrite P. right.
      pose proof (wp_props okd okf o w W) as K. rewrite forallb_forall in K. specialize (K p Hp).
      unfold prop_okb in K. apply andb_prop in K. destruct K as [_ K].
      rewrite <- (rp_entry_float_free conv_d conv_f print_d print_f p Hf K). apply in_map. apply sorted_props_in. exact Hp.
  Qed.
End Main.

(* ------------------------------------------------------------------ bottom-up incidences requested from the reader *)

Definition set_bu (b : bool) (o : opts) : opts :=
  {| o_mesh := o_mesh o; o_check := o_check o; o_bu := b; o_alloc := o_alloc o |}.

Lemma add_faces_bu b o : forall fs m, add_faces (set_bu b o) fs m = add_faces o fs m.
Proof. induction fs as [|f fs IH]; intros m; cbn [add_faces]; [reflexivity|]. change (m_add_face (set_bu b o) m f) with (m_add_face o m f). destruct (m_add_face o m f) as [m1 [x|]]; auto. Qed.
Lemma add_cells_bu b o : forall cs m, add_cells (set_bu b o) cs m = add_cells o cs m.
Proof.
  induction cs as [|c cs IH]; intros m; cbn [add_cells]; [reflexivity|]. change (m_add_cell (set_bu b o) m c) with (m_add_cell o m c).
  destruct (m_add_cell o m c) as [m1 [x|]]; auto. destruct (lnat_eqb (last (cells m1) []) c); auto.
Qed.
Lemma built_bu b o m : built (set_bu b o) m = built o m.
Proof. unfold built. rewrite add_faces_bu. destruct (add_faces o (faces m) _); [apply add_cells_bu|reflexivity]. Qed.

(* the hypotheses do not depend on the reader's bottom-up setting *)
Lemma wf_meshb_bu okd okf b o w : wf_meshb okd okf (set_bu b o) w = wf_meshb okd okf o w.
Proof. unfold wf_meshb, acceptsb. rewrite built_bu. reflexivity. Qed.

Section Config.
  Variable conv_d : list byte -> Z * bool.
  Variable conv_f : list byte -> Z * bool.
  Variable print_d : Z -> list byte.
  Variable print_f : Z -> list byte.
  Variable okd : Z -> bool.
  Variable okf : Z -> bool.

  (* two reader configurations under which the mesh is inside the limits (any mesh classes, checks, bottom-up settings)
     read the same topology and the same properties *)
  Theorem ascii_config_independent : float_io_ok conv_d print_d okd -> float_io_ok conv_f print_f okf ->
    forall o o' w, wf_meshb okd okf o w = true -> wf_meshb okd okf o' w = true ->
    exists f f',
      read_ascii conv_d conv_f o (write_ascii print_d print_f w) = RTrue f /\
      read_ascii conv_d conv_f o' (write_ascii print_d print_f w) = RTrue f' /\
      topo (f_mesh f') = topo (f_mesh f) /\ f_props f' = f_props f /\ f_is f' = f_is f.
  Proof.
    intros (D1 & D2 & D3 & _) (F1 & F2 & F3 & _) o o' w H H'.
    destruct (wf_meshb_ok okd okf o w H) as (W & mC & HB). destruct (wf_meshb_ok okd okf o' w H') as (W' & mC' & HB').
    pose proof (read_write_props conv_d conv_f print_d print_f okd okf D1 D2 D3 F1 F2 F3 o w mC W HB) as R.
    pose proof (read_write_props conv_d conv_f print_d print_f okd okf D1 D2 D3 F1 F2 F3 o' w mC' W' HB') as R'.
    eexists. eexists. split; [exact R|]. split; [exact R'|]. cbn [f_mesh f_props f_is]. split; [|split; reflexivity].
    rewrite !topo_with_bu, (built_some_topo o' _ _ HB'), (built_some_topo o _ _ HB). reflexivity.
  Qed.

  (* bottom-up incidences on / off: same file read, same topology, same properties; the mesh differs only by the
     incidence caches *)
  Theorem ascii_bottom_up_independent : float_io_ok conv_d print_d okd -> float_io_ok conv_f print_f okf ->
    forall o w (b : bool), wf_meshb okd okf o w = true ->
    exists mC, built o (w_mesh w) = Some mC /\
      read_ascii conv_d conv_f (set_bu b o) (write_ascii print_d print_f w)
      = RTrue {| f_is := mk [] true true;
                 f_mesh := if b then enable_fbu true (enable_ebu true (enable_vbu true mC)) else mC;
                 f_props := pos_entry (map (rp3 conv_d print_d) (w_pos w))
                            :: map (rp_entry conv_d conv_f print_d print_f) (sorted_props (w_props w)) |}.
  Proof.
    intros (D1 & D2 & D3 & _) (F1 & F2 & F3 & _) o w b H. rewrite <- (wf_meshb_bu okd okf b o w) in H.
    destruct (wf_meshb_ok okd okf _ w H) as (W & mC & HB). exists mC. split; [rewrite <- (built_bu b); exact HB|].
    exact (read_write_props conv_d conv_f print_d print_f okd okf D1 D2 D3 F1 F2 F3 (set_bu b o) w mC W HB).
  Qed.
End Config.
