(* IO/Ovmb2Writer.v -- the writer's own file is one of the layouts of IO/Ovmb2Layout.v: one chunk per non-empty entity list,
   first = 0, handle offset 0, the integer width of suitable_int_encoding, the fixed-valence form exactly when all valences
   agree (non-zero, at most 255), one PROP chunk per written property, no optional chunks. *)
From Coq Require Import ZArith List Bool Lia.
From OVM Require Import Base.Int32 Gen.OvmbFormat IO.Bytes IO.OvmbWriterModel IO.OvmbReaderModel IO.OvmbProofs
  IO.Ovmb2Base IO.Ovmb2Chunk IO.Ovmb2Alt IO.Ovmb2Ints IO.Ovmb2Topo IO.Ovmb2Vert IO.Ovmb2Dirp IO.Ovmb2Prop IO.Ovmb2Run
  IO.Ovmb2Groups IO.Ovmb2PropGroup IO.Ovmb2Layout.
Import ListNotations.
Local Open Scope Z_scope.

(* start_topo_chunk's choice between the two forms *)
Definition writer_fixed (items : list (list Z)) : bool :=
  let vals := map (fun x => len x) items in
  let mn := list_min vals 4294967295 in
  let mx := list_max vals 0 in
  (mn =? mx) && negb (mn =? 0) && (mn <=? 255).

Definition writer_form (items : list (list Z)) : pform :=
  let vals := map (fun x => len x) items in
  if writer_fixed items then PFixed (list_min vals 4294967295) else PVar (suitable_int_encoding (list_max vals 0)).

Definition one_seg {A B} (l : list A) (s : B) : list B := match l with [] => [] | _ => [s] end.

Definition writer_layout (m : meshfile) : layout :=
  {| L_vert := one_seg (m_pos m) (m_pos m);
     L_edge := one_seg (m_edges m)
                 {| es_henc := suitable_int_encoding (c_uint (m_nv m)); es_off := 0; es_items := m_edges m |};
     L_face := one_seg (m_faces m)
                 {| ps_form := writer_form (m_faces m); ps_henc := suitable_int_encoding (c_uint (2 * len (m_edges m)));
                    ps_off := 0; ps_items := m_faces m |};
     L_cell := one_seg (m_cells m)
                 {| ps_form := writer_form (m_cells m); ps_henc := suitable_int_encoding (c_uint (2 * len (m_faces m)));
                    ps_off := 0; ps_items := m_cells m |};
     L_prop := map (fun pt => [p_vals (fst pt)]) (written_props m);
     L_skip := fun _ => [] |}.

Lemma enc_chunks_app a b : enc_chunks (a ++ b) = enc_chunks a ++ enc_chunks b.
Proof. unfold enc_chunks. rewrite map_app, concat_app. reflexivity. Qed.

Lemma enc_chunks_one c : enc_chunks [c] = enc_chunkd c.
Proof. unfold enc_chunks. cbn [map concat]. apply app_nil_r. Qed.

(* ---- VERT *)
Lemma write_vertices_eq m : m_nv m = len (m_pos m) -> len (m_pos m) < 4294967296 ->
  write_vertices m = enc_chunks (vert_chunks 0 (one_seg (m_pos m) (m_pos m))).
Proof.
  intros Hn Hl. unfold write_vertices. rewrite Hn. rewrite c_uint_id by (pose proof (len_nonneg (m_pos m)); lia).
  destruct (m_pos m) as [|p t] eqn:E.
  - reflexivity.
  - rewrite (eqb_false (len (p :: t)) 0) by (pose proof (len_pos_cons p t); lia).
    cbn [one_seg vert_chunks]. rewrite enc_chunks_one. reflexivity.
Qed.

(* ---- TOPO edges *)
Lemma enc_edge_0 henc e : enc_edge henc 0 e = enc_int henc (fst e) ++ enc_int henc (snd e).
Proof. unfold enc_edge. rewrite !Z.sub_0_r. reflexivity. Qed.

Lemma write_edges_eq m : len (m_edges m) < 4294967296 ->
  write_edges m = enc_chunks (edge_chunks 0 (one_seg (m_edges m)
     {| es_henc := suitable_int_encoding (c_uint (m_nv m)); es_off := 0; es_items := m_edges m |})).
Proof.
  intros Hl. unfold write_edges. rewrite c_uint_id by (pose proof (len_nonneg (m_edges m)); lia).
  destruct (m_edges m) as [|e t] eqn:E.
  - reflexivity.
  - rewrite (eqb_false (len (e :: t)) 0) by (pose proof (len_pos_cons e t); lia).
    cbn [one_seg edge_chunks es_henc es_off es_items]. rewrite enc_chunks_one.
    cbn [enc_chunkd]. unfold edges_payload. f_equal. f_equal. f_equal.
    apply map_ext. intros a. symmetry. apply enc_edge_0.
Qed.

(* ---- TOPO faces / cells *)
Lemma enc_handles_0 henc x : enc_handles henc 0 x = concat (map (enc_int henc) x).
Proof. unfold enc_handles. f_equal. apply map_ext. intros a. rewrite Z.sub_0_r. reflexivity. Qed.

Lemma suitable_not_none mx : (suitable_int_encoding mx =? IntEncoding_None) = false.
Proof. apply enc_ok_not_none. apply suitable_ok. Qed.

Lemma write_poly_topo_eq entity items henc : len items < 4294967296 ->
  write_poly_topo entity items henc = enc_chunks (poly_chunks entity 0 (one_seg items
     {| ps_form := writer_form items; ps_henc := henc; ps_off := 0; ps_items := items |})).
Proof.
  intros Hl. unfold write_poly_topo. rewrite c_uint_id by (pose proof (len_nonneg items); lia).
  destruct items as [|x t] eqn:E.
  - reflexivity.
  - rewrite <- E in *. assert (Hp : 0 < len items) by (rewrite E; apply len_pos_cons).
    rewrite (eqb_false (len items) 0) by lia.
    replace (one_seg items) with (fun s : pseg => [s]) by (rewrite E; reflexivity).
    cbn [poly_chunks ps_form ps_henc ps_off ps_items]. rewrite enc_chunks_one. cbn [enc_chunkd].
    f_equal. unfold poly_payload, writer_form, writer_fixed. cbv zeta.
    set (vals := map (fun x => len x) items).
    destruct ((list_min vals 4294967295 =? list_max vals 0) && negb (list_min vals 4294967295 =? 0) && (list_min vals 4294967295 <=? 255)) eqn:F.
    + cbn [form_valence form_venc valence_data].
      apply andb_true_iff in F. destruct F as [F _]. apply andb_true_iff in F. destruct F as [_ F].
      apply negb_true_iff in F. rewrite F. cbn [app].
      unfold topo_header, topo_header_off. f_equal.
      f_equal. apply map_ext. intros a. symmetry. apply enc_handles_0.
    + cbn [form_valence form_venc valence_data]. cbn [Z.eqb]. rewrite suitable_not_none.
      unfold topo_header, topo_header_off. f_equal. f_equal.
      f_equal. apply map_ext. intros a. symmetry. apply enc_handles_0.
Qed.

(* ---- PROP *)
Lemma write_props_eq : forall (es : list (prop * ptype)) (idx : nat),
  Forall (fun pt => len (p_vals (fst pt)) < 4294967296) es ->
  write_props (Z.of_nat idx) es = enc_chunks (props_chunks idx (combine es (map (fun pt => [p_vals (fst pt)]) es))).
Proof.
  induction es as [|[p ty] t IH]; intros idx H; [reflexivity|].
  inversion H as [|? ? Hp Ht]; subst. cbn [fst] in Hp.
  cbn [write_props map combine props_chunks fst snd prop_seg_chunks].
  rewrite enc_chunks_app, enc_chunks_one. cbn [enc_chunkd]. unfold prop_payload.
  rewrite c_uint_id by (pose proof (len_nonneg (p_vals p)); lia).
  f_equal. replace (Z.of_nat idx + 1) with (Z.of_nat (S idx)) by lia. apply IH. exact Ht.
Qed.

(* ---- DIRP *)
Lemma write_propdir_eq m : write_propdir m = enc_chunks (dirp_chunks (written_props m)).
Proof.
  unfold write_propdir. fold (dirp_payload (written_props m)).
  destruct (written_props m) as [|[p ty] t] eqn:E.
  - reflexivity.
  - cbn [dirp_chunks]. rewrite enc_chunks_one. cbn [enc_chunkd].
    destruct (dirp_payload ((p, ty) :: t)) eqn:D; [|reflexivity].
    exfalso. unfold dirp_payload in D. cbn [map concat dirp_entry app] in D. discriminate.
Qed.

(* the writer's file is the layout's file *)
Theorem encode_is_layout dim topo m :
  m_nv m = len (m_pos m) -> len (m_pos m) < 4294967296 -> len (m_edges m) < 4294967296 ->
  len (m_faces m) < 4294967296 -> len (m_cells m) < 4294967296 ->
  Forall (fun pt => len (p_vals (fst pt)) < 4294967296) (written_props m) ->
  encode dim topo m = alt_file dim topo m (layout_chunks (written_props m) (writer_layout m)).
Proof.
  intros Hn Hp He Hf Hc Hv. unfold encode, alt_file, layout_chunks.
  cbn [writer_layout L_vert L_edge L_face L_cell L_prop L_skip skip_chunks map app].
  rewrite !enc_chunks_app.
  rewrite <- write_propdir_eq, <- write_vertices_eq, <- write_edges_eq by assumption.
  unfold write_faces, write_cells.
  rewrite <- !write_poly_topo_eq by assumption.
  rewrite <- (write_props_eq (written_props m) 0 Hv).
  change (enc_chunks []) with (@nil byte). rewrite app_nil_r.
  repeat rewrite <- app_assoc. reflexivity.
Qed.
