(* IO/Ovmb2SpecRoundTrip.v -- C06: the bytes the writer produces, and every valid re-encoding, decode under the published
   format description (decode_spec, IO/OvmbSpec.v) to exactly the mesh. *)
From Coq Require Import ZArith List Bool Lia.
From OVM Require Import Base.Int32 Gen.OvmbFormat IO.Bytes IO.OvmbWriterModel IO.OvmbReaderModel IO.OvmbSpec IO.OvmbProofs
  IO.Ovmb2Base IO.Ovmb2Chunk IO.Ovmb2Alt IO.Ovmb2Ints IO.Ovmb2Topo IO.Ovmb2Vert IO.Ovmb2Dirp IO.Ovmb2Prop IO.Ovmb2Run
  IO.Ovmb2Groups IO.Ovmb2PropGroup IO.Ovmb2Layout IO.Ovmb2Writer IO.Ovmb2Wf IO.Ovmb2RoundTrip
  IO.Ovmb2SpecBase IO.Ovmb2SpecParse IO.Ovmb2SpecChunks IO.Ovmb2SpecRun IO.Ovmb2SpecLayout.
Import ListNotations.
Local Open Scope Z_scope.

(* the header's topology type is one of the three and its valence restrictions hold *)
Definition stopo_ok (topo : Z) (m : meshfile) : Prop :=
  (topo = TopoType_Polyhedral \/ topo = TopoType_Tetrahedral \/ topo = TopoType_Hexahedral) /\
  topo_req topo 3 4 (m_faces m) /\ topo_req topo 4 6 (m_cells m).

Definition plain_opts (dim : Z) : opts := {| o_mesh := MPoly; o_check := false; o_bu := false; o_dim := dim |}.

Lemma accepts_plain dim topo m : 1 <= dim -> stopo_ok topo m -> accepts (plain_opts dim) dim topo m.
Proof.
  intros Hd [Ht [Hf Hc]]. constructor.
  - reflexivity.
  - exact Hd.
  - exact Ht.
  - exact I.
  - exact Hf.
  - exact Hc.
  - unfold add_accepts. apply Forall_forall. intros hs _ acc. reflexivity.
  - unfold add_accepts. apply Forall_forall. intros hs _ acc. reflexivity.
Qed.

Lemma writer_smesh_ok dim topo m : wf_file dim m -> fits dim m -> 1 <= dim -> stopo_ok topo m ->
  smesh_ok dim topo m (written_props m).
Proof.
  intros W F Hd St. apply (mesh_ok_smesh (plain_opts dim)).
  - apply writer_mesh_ok; [exact W|exact F|apply accepts_plain; assumption].
  - destruct St as [[-> | [-> | ->]] _]; unfold TopoType_Polyhedral, TopoType_Tetrahedral, TopoType_Hexahedral; lia.
Qed.

Theorem roundtrip_spec dim topo m :
  wf_file dim m -> fits dim m -> 1 <= dim -> stopo_ok topo m -> decode_spec dim (encode dim topo m) = Some m.
Proof.
  intros W F Hd St. pose proof (wf_unpack dim m W) as U.
  pose proof (wf_nv0 _ _ U). pose proof (wf_nv _ _ U). pose proof (wf_ne _ _ U). pose proof (wf_nf _ _ U). pose proof (wf_nc _ _ U).
  pose proof (writer_smesh_ok dim topo m W F Hd St) as SM.
  rewrite (encode_is_layout dim topo m); try lia.
  - apply layout_spec; [exact SM|apply writer_layout_ok; assumption].
  - symmetry. exact (wf_npos _ _ U).
  - rewrite (wf_npos _ _ U). lia.
  - pose proof (prop_entries_ok dim m W F) as E. eapply Forall_impl; [|exact E].
    intros pt [_ [_ [_ Hn]]]. rewrite Hn.
    pose proof (ent_count_bound' dim topo m (written_props m) (p_ent (fst pt)) SM). lia.
Qed.

Theorem reencodings_spec dim topo m L :
  wf_file dim m -> fits dim m -> 1 <= dim -> stopo_ok topo m -> layout_ok dim m (written_props m) L ->
  decode_spec dim (alt_file dim topo m (layout_chunks (written_props m) L)) = Some m.
Proof. intros W F Hd St LO. apply layout_spec; [apply writer_smesh_ok; assumption|exact LO]. Qed.

(* whoever accepts, the topology type is fine *)
Lemma accepts_stopo o dim topo m : accepts o dim topo m -> stopo_ok topo m.
Proof. intros A. split; [exact (ac_topo _ _ _ _ A)|]. split; [exact (ac_ftopo _ _ _ _ A)|exact (ac_ctopo _ _ _ _ A)]. Qed.

Lemma stopo_poly m : stopo_ok TopoType_Polyhedral m.
Proof. split; [left; reflexivity|]. split; split; intros E; discriminate E. Qed.

(* the writer's own file is the member `writer_layout m` of the family of layouts *)
Lemma writer_is_layout dim topo m : wf_file dim m -> fits dim m -> 1 <= dim ->
  encode dim topo m = alt_file dim topo m (layout_chunks (written_props m) (writer_layout m)) /\
  layout_ok dim m (written_props m) (writer_layout m).
Proof.
  intros W F Hd. split; [|exact (writer_layout_ok dim m W F Hd)].
  pose proof (wf_unpack dim m W) as U.
  pose proof (wf_nv0 _ _ U). pose proof (wf_nv _ _ U). pose proof (wf_ne _ _ U). pose proof (wf_nf _ _ U). pose proof (wf_nc _ _ U).
  pose proof (writer_smesh_ok dim TopoType_Polyhedral m W F Hd (stopo_poly m)) as SM.
  apply encode_is_layout; try lia.
  - symmetry. exact (wf_npos _ _ U).
  - rewrite (wf_npos _ _ U). lia.
  - pose proof (prop_entries_ok dim m W F) as E. eapply Forall_impl; [|exact E].
    intros pt [_ [_ [_ Hn]]]. rewrite Hn.
    pose proof (ent_count_bound' dim TopoType_Polyhedral m (written_props m) (p_ent (fst pt)) SM). lia.
Qed.
