(* IO/Ascii2Val.v -- C06 (ASCII), property values: for every value type of the typeName list,
     deserialize (serialize v ++ endl ++ rest) = (v', endl-or-blank-lines ++ rest)
   with v' = v for the integral types, bool, char, strings, handle vectors, maps, and v' = v with every floating point
   component reparsed (rp_val) for float / double / vecNf / vecNd / vector<double>.
   The format's limits are the decidable predicate [val_okb]: integers in the range of their C++ type, chars that are not
   whitespace, floating point values the printer prints as a numeral ([okd] / [okf]), sizes that can be allocated,
   maps key-sorted without duplicate keys (what a std::map is), vectors of the declared dimension. *)
From Coq Require Import ZArith Lia List Bool String Ascii.
From OVM Require Import Kernel.Ops.
From OVM Require Import IO.AsciiStream IO.AsciiReaderModel IO.AsciiWriterModel IO.AsciiProofs IO.Ascii2Num.
Import ListNotations.
Local Open Scope Z_scope.

(* blank lines left in front of the next line *)
Definition nls (l : list byte) : Prop := Forall (fun c => c = c_nl) l.
Lemma nls_allws l : nls l -> allws l.
Proof. apply Forall_impl. intros c ->. reflexivity. Qed.
Lemma nls_nil : nls []. Proof. constructor. Qed.
Lemma nls_1 : nls [c_nl]. Proof. repeat constructor. Qed.
Lemma nls_2 : nls [c_nl; c_nl]. Proof. repeat constructor. Qed.

Lemma resize_nil {A} n (d : A) : resize n d [] = repeat d n.
Proof. unfold resize. rewrite firstn_nil. cbn [length app]. rewrite Nat.sub_0_r. reflexivity. Qed.

(* a non-empty remainder that starts with whitespace: the stream after the token is a fresh good stream *)
Definition wsr (r : list byte) : Prop := exists c r', r = c :: r' /\ isspace c = true.
Lemma wsr_endws r : wsr r -> endws r. Proof. intros H. right. exact H. Qed.
Lemma mk_wsr r : wsr r -> mk r (is_nil r) false = st r.
Proof. intros (c & r' & -> & _). reflexivity. Qed.
Lemma wsr_nl R : wsr (c_nl :: R). Proof. exists c_nl, R. split; reflexivity. Qed.
Lemma wsr_sp R : wsr (32 :: R). Proof. exists 32, R. split; reflexivity. Qed.

(* ------------------------------------------------------------------ std::map as a key-sorted list *)

Definition map_wf (hi : Z) (acc : list aval) : Prop :=
  Forall (fun e => exists k v, e = VList [VInt k; v] /\ k < hi) acc.

Lemma map_insert_snoc k v acc : map_wf k acc -> map_insert k v acc = acc ++ [VList [VInt k; v]].
Proof.
  induction 1 as [|e acc (k' & v' & -> & Hk) _ IH]; [reflexivity|].
  cbn [map_insert app]. assert (A : (k <? k') = false) by lia. assert (B : (k =? k') = false) by lia.
  rewrite A, B, IH. reflexivity.
Qed.

Lemma map_wf_snoc k v hi acc : map_wf k acc -> k < hi -> map_wf hi (acc ++ [VList [VInt k; v]]).
Proof.
  intros H Hk. apply Forall_app. split.
  - eapply Forall_impl; [|exact H]. intros e (k' & v' & -> & L). exists k', v'. split; [reflexivity|lia].
  - constructor; [|constructor]. exists k, v. split; [reflexivity|lia].
Qed.

Section Values.
  Variable conv_d : list byte -> Z * bool.
  Variable conv_f : list byte -> Z * bool.
  Variable print_d : Z -> list byte.
  Variable print_f : Z -> list byte.
  (* the bit patterns the printers print as a numeral (the finite values) *)
  Variable okd : Z -> bool.
  Variable okf : Z -> bool.
  Definition Okd (b : Z) : Prop := okd b = true.
  Definition Okf (b : Z) : Prop := okf b = true.

  Hypothesis printd_tok : forall b, Okd b -> tokp (print_d b) /\ hd 0 (print_d b) <> 35.
  Hypothesis printd_scan : forall b r, Okd b -> endws r -> float_scan (print_d b ++ r) = (print_d b, r).
  Hypothesis printd_conv : forall b, Okd b -> snd (conv_d (print_d b)) = false.
  Hypothesis printf_tok : forall b, Okf b -> tokp (print_f b) /\ hd 0 (print_f b) <> 35.
  Hypothesis printf_scan : forall b r, Okf b -> endws r -> float_scan (print_f b ++ r) = (print_f b, r).
  Hypothesis printf_conv : forall b, Okf b -> snd (conv_f (print_f b)) = false.

  Definition rp_d (b : Z) : Z := reparse conv_d print_d b.
  Definition rp_f (b : Z) : Z := reparse conv_f print_f b.

  (* ---------------------------------------------------------------- the value read back *)

  Definition rp_dbl (v : aval) : aval := match v with VFlt b => VFlt (rp_d b) | _ => v end.
  Definition rp_scalar (sc : scalar) (v : aval) : aval :=
    match sc, v with SF, VFlt b => VFlt (rp_f b) | SD, VFlt b => VFlt (rp_d b) | _, _ => v end.
  Definition rp_val (t : atype) (v : aval) : aval :=
    match t, v with
    | TFloat, VFlt b => VFlt (rp_f b)
    | TDouble, VFlt b => VFlt (rp_d b)
    | TVecDouble, VList l => VList (map rp_dbl l)
    | TVec _ sc, VList l => VList (map (rp_scalar sc) l)
    | _, _ => v
    end.

  (* ---------------------------------------------------------------- the format's limits, decidable *)

  Definition int_okb (nt : numty) (v : aval) : bool := match v with VInt z => in_numb nt z | _ => false end.
  Definition dbl_okb (v : aval) : bool := match v with VFlt b => okd b | _ => false end.
  Definition scalar_okb (sc : scalar) (v : aval) : bool :=
    match sc, v with
    | SF, VFlt b => okf b | SD, VFlt b => okd b
    | SI, VInt z => in_numb NI32 z | SUI, VInt z => in_numb NU32 z
    | _, _ => false
    end.
  (* n elements of esz bytes can be allocated (max_size and the memory limit of the reader's options) *)
  Definition alloc_okb (o : opts) (n esz : Z) : bool := (n <=? ptrdiff_max / esz) && (n * esz <=? o_alloc o).
  Definition vec_okb (o : opts) (esz : Z) (f : aval -> bool) (v : aval) : bool :=
    match v with VList l => alloc_okb o (Z.of_nat (length l)) esz && forallb f l | _ => false end.
  (* key-sorted, keys strictly increasing from above lo *)
  Fixpoint map_okb (lo : Z) (l : list aval) : bool :=
    match l with
    | [] => true
    | VList [VInt k; VInt x] :: t => (lo <? k) && in_numb NI32 k && in_numb NI32 x && map_okb k t
    | _ => false
    end.

  Definition val_okb (o : opts) (t : atype) (v : aval) : bool :=
    match t, v with
    | TInt, _ => int_okb NI32 v
    | TUInt, _ => int_okb NU32 v
    | TShort, _ => int_okb NI16 v
    | TLong, _ => int_okb NI64 v
    | TULong, _ => int_okb NU64 v
    | TBool, _ => int_okb NBool v
    | (TChar | TUChar), VInt z => negb (isspace z)
    | TFloat, VFlt b => okf b
    | TDouble, VFlt b => okd b
    | TString, VStr s => (Z.of_nat (length s) =? 0) || alloc_okb o (Z.of_nat (length s)) 1
    | TMapHehInt, VList l => (Z.of_nat (length l) <? two64) && map_okb (-2147483649) l
    | TVecDouble, _ => vec_okb o 8 dbl_okb v
    | (TVecVh | TVecHfh), _ => vec_okb o 4 (int_okb NI32) v
    | TVecVecHfh, _ => vec_okb o 24 (vec_okb o 4 (int_okb NI32)) v
    | TVec n sc, VList l => negb (n =? 0)%nat && (length l =? n)%nat && forallb (scalar_okb sc) l
    | _, _ => false
    end.

  (* ---------------------------------------------------------------- scalars *)

  Lemma alloc_ok o n esz : alloc_okb o n esz = true -> alloc o n esz = Go tt.
  Proof.
    unfold alloc_okb, alloc. intros H. apply andb_prop in H. destruct H as [A B].
    assert (A' : (n >? ptrdiff_max / esz) = false) by lia. assert (B' : (n * esz >? o_alloc o) = false) by lia.
    rewrite A', B'. reflexivity.
  Qed.

  Lemma get_double_ws b lead r : Okd b -> allws lead -> wsr r ->
    get_float conv_d (st (lead ++ print_d b ++ r)) = (st r, Some (rp_d b)).
  Proof.
    intros. rewrite (get_float_print_ws conv_d print_d Okd printd_tok printd_scan printd_conv); auto using wsr_endws.
    rewrite mk_wsr; auto.
  Qed.
  Lemma get_single_ws b lead r : Okf b -> allws lead -> wsr r ->
    get_float conv_f (st (lead ++ print_f b ++ r)) = (st r, Some (rp_f b)).
  Proof.
    intros. rewrite (get_float_print_ws conv_f print_f Okf printf_tok printf_scan printf_conv); auto using wsr_endws.
    rewrite mk_wsr; auto.
  Qed.
  Lemma get_int_ws t z lead r : in_num t z -> allws lead -> wsr r ->
    get_num t (st (lead ++ print_Z z ++ r)) = (st r, Some z).
  Proof. intros. rewrite get_num_print_ws; auto using wsr_endws. rewrite mk_wsr; auto. Qed.

  Lemma get_int_nl t z r : in_num t z -> wsr r -> get_num t (st (c_nl :: print_Z z ++ r)) = (st r, Some z).
  Proof. intros. apply (get_int_ws t z [c_nl] r); auto using allws_nl. Qed.

  Lemma int_okb_inv nt v : int_okb nt v = true -> exists z, v = VInt z /\ in_num nt z.
  Proof. destruct v; try discriminate. cbn [int_okb]. intros H. apply in_numb_spec in H. eauto. Qed.

  Lemma deser_scalar_print sc x old lead r : scalar_okb sc x = true -> allws lead -> wsr r ->
    deser_scalar conv_d conv_f sc (st (lead ++ ser_scalar print_d print_f sc x ++ r)) old = (st r, rp_scalar sc x).
  Proof.
    intros Hx Hl Hr. destruct sc, x; try discriminate; cbn [scalar_okb] in Hx; cbn [ser_scalar deser_scalar rp_scalar].
    - rewrite get_single_ws; auto.
    - rewrite get_double_ws; auto.
    - apply in_numb_spec in Hx. rewrite get_int_ws; auto.
    - apply in_numb_spec in Hx. rewrite get_int_ws; auto.
  Qed.

  Lemma deser_handle_print x old lead R : int_okb NI32 x = true -> allws lead ->
    deser_handle (st (lead ++ ser_int x ++ c_nl :: R)) old = (st (c_nl :: R), x).
  Proof.
    intros Hx Hl. apply int_okb_inv in Hx. destruct Hx as (z & -> & Hz). unfold deser_handle. cbn [ser_int].
    rewrite get_int_ws; auto using wsr_nl.
  Qed.

  Lemma deser_double_print x old lead R : dbl_okb x = true -> allws lead ->
    deser_double conv_d (st (lead ++ ser_dbl print_d x ++ c_nl :: R)) old = (st (c_nl :: R), rp_dbl x).
  Proof.
    intros Hx Hl. destruct x; try discriminate. cbn [dbl_okb] in Hx. unfold deser_double. cbn [ser_dbl rp_dbl].
    rewrite get_double_ws; auto using wsr_nl.
  Qed.

  (* ---------------------------------------------------------------- VectorT: components separated by blanks *)

  Lemma deser_vec_tail sc : forall l olds R, length olds = length l -> forallb (scalar_okb sc) l = true ->
    deser_vec conv_d conv_f sc olds (st (tail_sp (map (ser_scalar print_d print_f sc) l) ++ c_nl :: R))
    = (st (c_nl :: R), map (rp_scalar sc) l).
  Proof.
    induction l as [|x l IH]; intros olds R Hlen Hok.
    - destruct olds; [reflexivity|discriminate].
    - destruct olds as [|o olds]; [discriminate|]. cbn [forallb] in Hok. apply andb_prop in Hok. destruct Hok as [Hx Hok].
      cbn [map tail_sp deser_vec]. change (32 :: ?a) with ([32] ++ a). rewrite <- !app_assoc.
      assert (W : wsr (tail_sp (map (ser_scalar print_d print_f sc) l) ++ c_nl :: R)).
      { destruct l; cbn [map tail_sp app]; [apply wsr_nl|apply wsr_sp]. }
      rewrite (deser_scalar_print sc x o [32]); auto; [|repeat constructor].
      rewrite IH; auto.
  Qed.

  Lemma deser_vec_print sc l olds lead R : l <> [] -> length olds = length l -> forallb (scalar_okb sc) l = true -> allws lead ->
    deser_vec conv_d conv_f sc olds (st (lead ++ join_sp (map (ser_scalar print_d print_f sc) l) ++ c_nl :: R))
    = (st (c_nl :: R), map (rp_scalar sc) l).
  Proof.
    intros Hne Hlen Hok Hl. destruct l as [|x l]; [congruence|]. destruct olds as [|o olds]; [discriminate|].
    cbn [forallb] in Hok. apply andb_prop in Hok. destruct Hok as [Hx Hok].
    cbn [map]. rewrite join_sp_tail. cbn [deser_vec]. rewrite <- !app_assoc.
    assert (W : wsr (tail_sp (map (ser_scalar print_d print_f sc) l) ++ c_nl :: R)).
    { destruct l; cbn [map tail_sp app]; [apply wsr_nl|apply wsr_sp]. }
    rewrite (deser_scalar_print sc x o lead); auto.
    rewrite deser_vec_tail; auto.
  Qed.

  (* ---------------------------------------------------------------- std::vector: size, then one element per line *)

  Section Elems.
    Variable f : istream -> aval -> istream * aval.
    Variable tok : aval -> list byte.
    Variable rpv : aval -> aval.
    Variable P : aval -> bool.
    Hypothesis f_tok : forall x old lead R, P x = true -> allws lead ->
      f (st (lead ++ tok x ++ c_nl :: R)) old = (st (c_nl :: R), rpv x).

    Lemma deser_elems_print : forall l olds lead R, length olds = length l -> forallb P l = true -> allws lead ->
      deser_elems f olds (st (lead ++ concat (map (fun x => tok x ++ nl) l) ++ R))
      = (st ((if is_nil l then lead else [c_nl]) ++ R), map rpv l).
    Proof.
      induction l as [|x l IH]; intros olds lead R Hlen Hok Hl.
      - destruct olds; [reflexivity|discriminate].
      - destruct olds as [|o olds]; [discriminate|]. cbn [forallb] in Hok. apply andb_prop in Hok. destruct Hok as [Hx Hok].
        cbn [map concat deser_elems is_nil]. unfold nl at 1. rewrite <- !app_assoc. cbn [app].
        rewrite f_tok; auto. change (c_nl :: ?a) with ([c_nl] ++ a) at 1.
        rewrite IH; auto using allws_nl. destruct l; reflexivity.
    Qed.

    Lemma deser_vector_print o esz d l lead R : 0 < esz ->
      alloc_okb o (Z.of_nat (length l)) esz = true -> forallb P l = true -> allws lead ->
      deser_vector o esz d f (st (lead ++ ser_vector tok l ++ R)) (VList [])
      = DOk (st (c_nl :: R)) (VList (map rpv l)).
    Proof.
      intros He Ha Hok Hl. unfold deser_vector, read_size, ser_vector, zn. unfold nl at 1. rewrite <- !app_assoc. cbn [app].
      assert (Hn : in_num NU64 (Z.of_nat (length l))).
      { unfold alloc_okb in Ha. apply andb_prop in Ha. destruct Ha as [A _]. unfold in_num. cbn [num_lo num_hi]. unfold two64.
        assert (ptrdiff_max / esz <= ptrdiff_max) by (apply Z.div_le_upper_bound; [lia|]; unfold ptrdiff_max; nia).
        unfold ptrdiff_max in *. lia. }
      rewrite get_int_ws; auto using wsr_nl.
      rewrite (alloc_ok o _ esz Ha). cbn [old_list]. unfold resize_vals. rewrite Nat2Z.id, resize_nil.
      match goal with |- context [st (?c :: concat ?x ++ R)] => change (c :: concat x ++ R) with ([c_nl] ++ concat x ++ R) end.
      rewrite deser_elems_print; auto using allws_nl; [|apply repeat_length].
      destruct l; reflexivity.
    Qed.
  End Elems.

  Lemma deser_vector_dbl o l lead R : alloc_okb o (Z.of_nat (length l)) 8 = true -> forallb dbl_okb l = true -> allws lead ->
    deser_vector o 8 (VFlt 0) (deser_double conv_d) (st (lead ++ ser_vector (ser_dbl print_d) l ++ R)) (VList [])
    = DOk (st (c_nl :: R)) (VList (map rp_dbl l)).
  Proof.
    intros Ha Hf Hl.
    exact (deser_vector_print (deser_double conv_d) (ser_dbl print_d) rp_dbl dbl_okb
             (fun x old lead0 R0 Hx Hl0 => deser_double_print x old lead0 R0 Hx Hl0) o 8 (VFlt 0) l lead R ltac:(lia) Ha Hf Hl).
  Qed.

  Lemma deser_vector_hnd o l lead R : alloc_okb o (Z.of_nat (length l)) 4 = true -> forallb (int_okb NI32) l = true -> allws lead ->
    deser_vector o 4 (VInt (-1)) deser_handle (st (lead ++ ser_vector ser_int l ++ R)) (VList [])
    = DOk (st (c_nl :: R)) (VList l).
  Proof.
    intros Ha Hf Hl.
    pose proof (deser_vector_print deser_handle ser_int (fun x => x) (int_okb NI32)
             (fun x old lead0 R0 Hx Hl0 => deser_handle_print x old lead0 R0 Hx Hl0) o 4 (VInt (-1)) l lead R ltac:(lia) Ha Hf Hl) as E.
    rewrite map_id in E. exact E.
  Qed.

  (* ---------------------------------------------------------------- std::vector<std::vector<HalfFaceHandle>> *)

  Definition ser_hvec (x : aval) : list byte := match x with VList i => ser_vector ser_int i | _ => [] end.

  Lemma deser_vecvec_print o : forall l lead R, forallb (vec_okb o 4 (int_okb NI32)) l = true -> allws lead ->
    deser_vecvec o (repeat (VList []) (length l)) (st (lead ++ concat (map (fun x => ser_hvec x ++ nl) l) ++ R))
    = inl (st ((if is_nil l then lead else [c_nl; c_nl]) ++ R), l).
  Proof.
    induction l as [|x l IH]; intros lead R Hok Hl; [reflexivity|].
    cbn [forallb] in Hok. apply andb_prop in Hok. destruct Hok as [Hx Hok].
    destruct x as [| | |i]; try discriminate. cbn [vec_okb] in Hx. apply andb_prop in Hx. destruct Hx as [Ha Hi].
    cbn [length repeat map concat deser_vecvec is_nil ser_hvec]. rewrite <- !app_assoc.
    rewrite (deser_vector_hnd o i lead _ Ha Hi Hl). unfold nl at 1. cbn [app].
    match goal with |- context [st (?c :: ?d :: concat ?x ++ R)] => change (c :: d :: concat x ++ R) with ([c_nl; c_nl] ++ concat x ++ R) end.
    rewrite IH; auto; [|repeat constructor]. destruct l; reflexivity.
  Qed.

  (* ---------------------------------------------------------------- std::map<HalfEdgeHandle,int> *)

  Definition ser_ment (e : aval) : list byte :=
    match e with VList [k; x] => ser_int k ++ nl ++ ser_int x ++ nl | _ => [] end.

  Lemma map_wf_mono a b acc : map_wf a acc -> a <= b -> map_wf b acc.
  Proof. intros H L. eapply Forall_impl; [|exact H]. intros e (k & v & -> & Hk). exists k, v. split; [reflexivity|lia]. Qed.

  Lemma deser_map_loop_print : forall l lo acc R, map_okb lo l = true -> map_wf (lo + 1) acc ->
    deser_map_loop (length l) (st (c_nl :: concat (map ser_ment l) ++ R)) acc = (st (c_nl :: R), acc ++ l).
  Proof.
    induction l as [|e l IH]; intros lo acc R Hok Hacc.
    - cbn. rewrite app_nil_r. reflexivity.
    - cbn [map_okb] in Hok. destruct e as [| | |ent]; try discriminate.
      destruct ent as [|[k| | |] [|[x| | |] [|? ?]]]; try discriminate.
      apply andb_prop in Hok. destruct Hok as [Hok Ht]. apply andb_prop in Hok. destruct Hok as [Hok Hx].
      apply andb_prop in Hok. destruct Hok as [Hlo Hk]. apply in_numb_spec in Hk. apply in_numb_spec in Hx.
      cbn [length deser_map_loop map concat ser_ment ser_int]. unfold nl. rewrite <- !app_assoc. cbn [app].
      rewrite (get_int_nl NI32 k); auto using wsr_nl.
      rewrite (get_int_nl NI32 x); auto using wsr_nl.
      cbn [failb st mk].
      rewrite map_insert_snoc by (eapply map_wf_mono; [exact Hacc|lia]).
      rewrite (IH k); auto.
      + rewrite <- app_assoc. reflexivity.
      + apply map_wf_snoc; [eapply map_wf_mono; [exact Hacc|lia]|lia].
  Qed.

  (* ---------------------------------------------------------------- std::string: length ':' bytes *)

  Lemma deser_string_print o s lead R :
    (Z.of_nat (length s) =? 0) || alloc_okb o (Z.of_nat (length s)) 1 = true -> allws lead ->
    deser_string o (st (lead ++ (zn (length s) ++ [58] ++ s) ++ c_nl :: R)) (VStr []) = DOk (st (c_nl :: R)) (VStr s).
  Proof.
    intros Hs Hl. unfold deser_string, zn. rewrite <- !app_assoc. cbn [app].
    assert (Hn : in_num NU64 (Z.of_nat (length s))).
    { unfold in_num. cbn [num_lo num_hi]. unfold two64. apply orb_prop in Hs. destruct Hs as [Hs|Hs]; [lia|].
      unfold alloc_okb in Hs. apply andb_prop in Hs. destruct Hs as [A _]. change (ptrdiff_max / 1) with 9223372036854775807 in A. lia. }
    rewrite get_num_print_nd; auto; [|right; exists 58, (s ++ c_nl :: R); split; reflexivity].
    cbn [is_nil]. change (mk (58 :: ?a) false false) with (st ([] ++ 58 :: a)).
    rewrite get_char_ws; [|reflexivity|apply allws_nil].
    cbn [failb st mk negb andb].
    destruct (Z.of_nat (length s) =? 0) eqn:Z0.
    - cbn [negb]. destruct s; [reflexivity|cbn [length] in Z0; lia].
    - cbn [negb orb] in *. rewrite (alloc_ok o _ 1 Hs). rewrite Nat2Z.id.
      unfold read_n, sentry, st. cbn [good mk eofb failb negb andb rest].
      rewrite firstn_app, firstn_all, Nat.sub_diag, firstn_O, app_nil_r.
      rewrite skipn_app, skipn_all, Nat.sub_diag. cbn [skipn app].
      rewrite Nat.eqb_refl, Nat.sub_diag. cbn [repeat]. rewrite app_nil_r. reflexivity.
  Qed.

  (* ---------------------------------------------------------------- every type *)

  Lemma int_val o t nt v lead R : int_okb nt v = true -> allws lead ->
    (forall s old, deser conv_d conv_f o t s old = let '(s1, x) := get_num nt s in DOk s1 (or_old x old)) ->
    ser print_d print_f t v = ser_int v ->
    deser conv_d conv_f o t (st (lead ++ ser print_d print_f t v ++ c_nl :: R)) (default_val t) = DOk (st (c_nl :: R)) v.
  Proof.
    intros Hv Hl Hd Hs. apply int_okb_inv in Hv. destruct Hv as (z & -> & Hz). rewrite Hd, Hs. cbn [ser_int].
    rewrite get_int_ws; auto using wsr_nl.
  Qed.

  Lemma vec_okb_inv o esz f v : vec_okb o esz f v = true ->
    exists l, v = VList l /\ alloc_okb o (Z.of_nat (length l)) esz = true /\ forallb f l = true.
  Proof. destruct v; try discriminate. cbn [vec_okb]. intros H. apply andb_prop in H. destruct H. eauto. Qed.

  Theorem deser_val o t v lead R : val_okb o t v = true -> allws lead ->
    exists ws, nls ws /\
      deser conv_d conv_f o t (st (lead ++ ser print_d print_f t v ++ c_nl :: R)) (default_val t)
      = DOk (st (ws ++ c_nl :: R)) (rp_val t v).
  Proof.
    intros Hv Hl. destruct t; cbn [val_okb] in Hv.
    - (* int *) exists []. split; [apply nls_nil|]. pose proof (int_okb_inv _ _ Hv) as (z & -> & _).
      apply (int_val o TInt NI32); auto.
    - exists []. split; [apply nls_nil|]. pose proof (int_okb_inv _ _ Hv) as (z & -> & _). apply (int_val o TUInt NU32); auto.
    - exists []. split; [apply nls_nil|]. pose proof (int_okb_inv _ _ Hv) as (z & -> & _). apply (int_val o TShort NI16); auto.
    - exists []. split; [apply nls_nil|]. pose proof (int_okb_inv _ _ Hv) as (z & -> & _). apply (int_val o TLong NI64); auto.
    - exists []. split; [apply nls_nil|]. pose proof (int_okb_inv _ _ Hv) as (z & -> & _). apply (int_val o TULong NU64); auto.
    - (* char *) destruct v as [z| | |]; try discriminate. exists []. split; [apply nls_nil|].
      cbn [deser ser rp_val app]. rewrite get_char_ws; auto. destruct (isspace z); [discriminate|reflexivity].
    - destruct v as [z| | |]; try discriminate. exists []. split; [apply nls_nil|].
      cbn [deser ser rp_val app]. rewrite get_char_ws; auto. destruct (isspace z); [discriminate|reflexivity].
    - (* bool *) exists []. split; [apply nls_nil|]. pose proof (int_okb_inv _ _ Hv) as (z & -> & _). apply (int_val o TBool NBool); auto.
    - (* float *) destruct v as [|b| |]; try discriminate. exists []. split; [apply nls_nil|].
      cbn [deser ser rp_val app]. rewrite get_single_ws; auto using wsr_nl.
    - destruct v as [|b| |]; try discriminate. exists []. split; [apply nls_nil|].
      cbn [deser ser rp_val app]. rewrite get_double_ws; auto using wsr_nl.
    - (* string *) destruct v as [| |s|]; try discriminate. exists []. split; [apply nls_nil|].
      cbn [deser ser rp_val default_val app]. apply deser_string_print; auto.
    - (* map *) destruct v as [| | |l]; try discriminate. apply andb_prop in Hv. destruct Hv as [Hn Hm].
      exists [c_nl]. split; [apply nls_1|]. cbn [deser ser rp_val]. fold ser_ment. unfold read_size, zn, nl. rewrite <- !app_assoc. cbn [app].
      assert (Hn64 : in_num NU64 (Z.of_nat (length l))) by (unfold in_num; cbn [num_lo num_hi]; lia).
      rewrite (get_int_ws NU64 _ lead _ Hn64 Hl (wsr_nl _)).
      rewrite <- deser_map_loop_cap by lia. rewrite Nat2Z.id.
      rewrite (deser_map_loop_print l (-2147483649) [] (c_nl :: R) Hm (Forall_nil _)). reflexivity.
    - (* vector<double> *) apply vec_okb_inv in Hv. destruct Hv as (l & -> & Ha & Hf).
      exists [c_nl]. split; [apply nls_1|]. cbn [deser ser rp_val default_val].
      rewrite (deser_vector_dbl o l lead _ Ha Hf Hl). reflexivity.
    - apply vec_okb_inv in Hv. destruct Hv as (l & -> & Ha & Hf).
      exists [c_nl]. split; [apply nls_1|]. cbn [deser ser rp_val default_val].
      rewrite (deser_vector_hnd o l lead _ Ha Hf Hl). reflexivity.
    - apply vec_okb_inv in Hv. destruct Hv as (l & -> & Ha & Hf).
      exists [c_nl]. split; [apply nls_1|]. cbn [deser ser rp_val default_val].
      rewrite (deser_vector_hnd o l lead _ Ha Hf Hl). reflexivity.
    - (* vector<vector<hfh>> *) apply vec_okb_inv in Hv. destruct Hv as (l & -> & Ha & Hf).
      exists (if is_nil l then [c_nl] else [c_nl; c_nl]). split; [destruct l; repeat constructor|].
      cbn [deser ser rp_val default_val]. fold ser_hvec. unfold ser_vector, read_size, zn. unfold nl at 1. rewrite <- !app_assoc. cbn [app].
      assert (Hn : in_num NU64 (Z.of_nat (length l))).
      { unfold alloc_okb in Ha. apply andb_prop in Ha. destruct Ha as [A _]. unfold in_num. cbn [num_lo num_hi]. unfold two64.
        change (ptrdiff_max / 24) with 384307168202282325 in A. lia. }
      rewrite get_int_ws; auto using wsr_nl. rewrite (alloc_ok o _ 24 Ha). cbn [old_list]. unfold resize_vals. rewrite Nat2Z.id, resize_nil.
      match goal with |- context [st (?c :: concat ?x ++ ?r)] => change (c :: concat x ++ r) with ([c_nl] ++ concat x ++ r) end.
      rewrite (deser_vecvec_print o l [c_nl] _ Hf allws_nl). destruct l; reflexivity.
    - (* VectorT *) destruct v as [| | |l]; try discriminate. apply andb_prop in Hv. destruct Hv as [Hv Hs].
      apply andb_prop in Hv. destruct Hv as [Hn0 Hn]. apply Nat.eqb_eq in Hn.
      exists []. split; [apply nls_nil|]. cbn [deser ser rp_val app].
      assert (Hd : match default_val (TVec n s) with VList l0 => l0 | _ => old_list (default_val (TVec n s)) end
                   = repeat (match s with SF | SD => VFlt 0 | _ => VInt 0 end) n) by (destruct s; reflexivity).
      rewrite Hd. rewrite deser_vec_print; auto; [|rewrite repeat_length; auto].
      intros ->. subst n. discriminate.
  Qed.

  (* PropertyStorageT::deserialize over the lines serialize wrote *)
  Definition vals_text (t : atype) (vs : list aval) : list byte := concat (map (fun v => ser print_d print_f t v ++ nl) vs).

  Theorem deser_all_print o t : forall vs lead R, forallb (val_okb o t) vs = true -> allws lead ->
    exists ws, (nls lead -> nls ws) /\
      deser_all conv_d conv_f o t (repeat (default_val t) (length vs)) (st (lead ++ vals_text t vs ++ R))
      = inl (st (ws ++ R), map (rp_val t) vs).
  Proof.
    induction vs as [|v vs IH]; intros lead R Hok Hl.
    - exists lead. split; auto.
    - cbn [forallb] in Hok. apply andb_prop in Hok. destruct Hok as [Hv Hok].
      unfold vals_text. cbn [length repeat map concat deser_all]. unfold nl at 1. rewrite <- !app_assoc. cbn [app].
      destruct (deser_val o t v lead (concat (map (fun v0 => ser print_d print_f t v0 ++ nl) vs) ++ R) Hv Hl) as (ws1 & N1 & E1).
      match goal with |- context [10 :: concat ?x ++ R] => change (10 :: concat x ++ R) with (c_nl :: concat x ++ R) end.
      rewrite E1.
      assert (E2 : ws1 ++ c_nl :: concat (map (fun v0 => ser print_d print_f t v0 ++ nl) vs) ++ R
                   = (ws1 ++ [c_nl]) ++ vals_text t vs ++ R) by (rewrite <- app_assoc; reflexivity).
      rewrite E2.
      assert (N2 : nls (ws1 ++ [c_nl])) by (apply Forall_app; split; [exact N1|apply nls_1]).
      destruct (IH (ws1 ++ [c_nl]) R Hok (nls_allws _ N2)) as (ws & N & E). rewrite E.
      exists ws. split; [intros _; auto|reflexivity].
  Qed.
End Values.
