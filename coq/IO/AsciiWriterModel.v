(* IO/AsciiWriterModel.v -- FileManager::writeStream / writeProps (FileManagerT_impl.hh:472-620) and the value
   serializers (Serializers.cc:43-49, SerializersT_impl.hh:95-166, PropertyStorageT.hh:133-139, Handles.cc:41-54,
   Vector11T.hh:696-706) as a function from the observed mesh to the exact bytes written.

   The writer prints n_vertices() / n_edges() / n_faces() / n_cells() (the array sizes INCLUDING deferred-deleted
   entities) but iterates v_iter() / e_iter() / f_iter() / c_iter(), which skip deleted entities; handles are printed as
   stored (no compaction).  Property arrays are printed in full (one line per slot, deleted or not).
   Floating-point output is the Section variables [print_d] (operator<<(double), "%g" with precision 6) and [print_f]
   (operator<<(float)) from bit patterns to characters.  No proofs in this file. *)
From Coq Require Import ZArith Lia List Bool String Ascii.
From OVM Require Import IO.AsciiStream IO.AsciiReaderModel.
From OVM Require Import Kernel.Ops.
Import ListNotations.
Local Open Scope Z_scope.

(* what the writer looks at: the kernel state (definitions + deleted flags), the positions, the persistent properties
   in the order in which persistent_props_begin<Entity>() enumerates them (a std::set of pointers: address order) *)
Record wmesh := { w_mesh : mesh; w_pos : list (Z * Z * Z); w_props : list pentry }.

Definition nl : list byte := [10].
Definition sp : list byte := [32].
Definition zn (n : nat) : list byte := print_Z (Z.of_nat n).

Fixpoint join_sp (l : list (list byte)) : list byte :=
  match l with
  | [] => []
  | [x] => x
  | x :: t => x ++ sp ++ join_sp t
  end.

Definition type_name (t : atype) : list byte :=
  match t with
  | TInt => bs "int" | TUInt => bs "uint" | TShort => bs "short" | TLong => bs "long" | TULong => bs "ulong"
  | TChar => bs "char" | TUChar => bs "uchar" | TBool => bs "bool" | TFloat => bs "float" | TDouble => bs "double"
  | TString => bs "string" | TMapHehInt => bs "map_heh_int" | TVecDouble => bs "vector_double"
  | TVecVh => bs "vector_vh" | TVecHfh => bs "vector_hfh" | TVecVecHfh => bs "vector_vector_hfh"
  | TVec n s => bs "vec" ++ zn n ++ match s with SF => bs "f" | SD => bs "d" | SI => bs "i" | SUI => bs "ui" end
  end.

Definition entity_name (k : kind) : list byte :=
  match k with
  | KV => bs "VProp" | KE => bs "EProp" | KHE => bs "HEProp" | KF => bs "FProp" | KHF => bs "HFProp"
  | KC => bs "CProp" | KM => bs "MProp"
  end.

Section Writer.
  Variable print_d : Z -> list byte.
  Variable print_f : Z -> list byte.

  Definition ser_scalar (sc : scalar) (v : aval) : list byte :=
    match v, sc with
    | VFlt b, SF => print_f b
    | VFlt b, SD => print_d b
    | VInt z, _ => print_Z z
    | _, _ => []
    end.

  (* serialize(os, vector<T>): size endl, then every element followed by endl *)
  Definition ser_vector (f : aval -> list byte) (l : list aval) : list byte :=
    zn (length l) ++ nl ++ concat (map (fun x => f x ++ nl) l).

  Definition ser_int (v : aval) : list byte := match v with VInt z => print_Z z | _ => [] end.
  Definition ser_dbl (v : aval) : list byte := match v with VFlt b => print_d b | _ => [] end.

  (* OpenVolumeMesh::serialize(_ostr, value) for one element of a property of type t *)
  Definition ser (t : atype) (v : aval) : list byte :=
    match t, v with
    | (TInt | TUInt | TShort | TLong | TULong | TBool), VInt z => print_Z z
    | (TChar | TUChar), VInt z => [z]
    | TFloat, VFlt b => print_f b
    | TDouble, VFlt b => print_d b
    | TString, VStr s => zn (length s) ++ [58] ++ s
    | TMapHehInt, VList l =>
        zn (length l) ++ nl ++
        concat (map (fun e => match e with
                              | VList [k; x] => ser_int k ++ nl ++ ser_int x ++ nl
                              | _ => []
                              end) l)
    | TVecDouble, VList l => ser_vector ser_dbl l
    | (TVecVh | TVecHfh), VList l => ser_vector ser_int l
    | TVecVecHfh, VList l => ser_vector (fun x => match x with VList i => ser_vector ser_int i | _ => [] end) l
    | TVec _ sc, VList l => join_sp (map (ser_scalar sc) l)
    | _, _ => []
    end.

  (* writeProps: header line, then PropertyStorageT::serialize: every element followed by endl *)
  Definition write_prop (p : pentry) : list byte :=
    entity_name (p_kind p) ++ sp ++ type_name (p_type p) ++ sp ++ [34] ++ p_name p ++ [34] ++ nl ++
    concat (map (fun v => ser (p_type p) v ++ nl) (p_vals p)).

  Definition kinds_in_order : list kind := [KV; KE; KHE; KF; KHF; KC; KM].

  Definition write_props (props : list pentry) : list byte :=
    concat (map (fun k => concat (map write_prop (filter (fun p => kind_eqb k (p_kind p)) props))) kinds_in_order).

  Definition nat_line (l : list nat) : list byte := join_sp (map zn l).

  (* valence, a space, the handles separated by single spaces *)
  Definition entity_line (l : list nat) : list byte := zn (length l) ++ sp ++ nat_line l ++ nl.

  Definition pos_at (w : wmesh) (v : nat) : Z * Z * Z := nth v (w_pos w) (0, 0, 0).

  Definition write_ascii (w : wmesh) : list byte :=
    let m := w_mesh w in
    bs "OVM ASCII" ++ nl ++
    bs "Vertices" ++ nl ++ zn (nv m) ++ nl ++
    concat (map (fun v => let '(x, y, z) := pos_at w v in print_d x ++ sp ++ print_d y ++ sp ++ print_d z ++ nl)
                (live_vertices m)) ++
    bs "Edges" ++ nl ++ zn (ne m) ++ nl ++
    concat (map (fun e => let '(a, b) := edge_at m e in zn a ++ sp ++ zn b ++ nl) (live_edges m)) ++
    bs "Faces" ++ nl ++ zn (nf m) ++ nl ++
    concat (map (fun f => entity_line (face_at m f)) (live_faces m)) ++
    bs "Polyhedra" ++ nl ++ zn (nc m) ++ nl ++
    concat (map (fun c => entity_line (cell_at m c)) (live_cells m)) ++
    write_props (w_props w).
End Writer.
