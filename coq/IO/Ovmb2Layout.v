(* IO/Ovmb2Layout.v -- file layouts.  A `layout` of a mesh says how its entity lists and property value lists are cut into
   spans and which integer width, handle offset and valence form every TOPO chunk uses, plus optional chunks of unknown
   type between the groups.  `layout_chunks` lists the chunks in the writer's order (DIRP, the VERT chunks, the TOPO edge, face and
   cell chunks, the PROP chunks).  `layout_ok` collects what the reader needs; `layout_decodes`: every file laid out this way reads
   back as exactly the mesh. *)
From Coq Require Import ZArith List Bool Lia.
From OVM Require Import Base.Int32 Gen.OvmbFormat IO.Bytes IO.OvmbWriterModel IO.OvmbReaderModel IO.OvmbProofs
  IO.Ovmb2Base IO.Ovmb2Chunk IO.Ovmb2Alt IO.Ovmb2Ints IO.Ovmb2Topo IO.Ovmb2Vert IO.Ovmb2Dirp IO.Ovmb2Prop IO.Ovmb2Run
  IO.Ovmb2Groups IO.Ovmb2PropGroup.
Import ListNotations.
Local Open Scope Z_scope.

Record layout := {
  L_vert : list (list (list Z));              (* spans of the position list *)
  L_edge : list eseg;                         (* spans of the edge list with width and offset *)
  L_face : list pseg;                         (* spans of the face list with form, width and offset *)
  L_cell : list pseg;
  L_prop : list (list (list (list byte)));    (* per written property: spans of its value list *)
  L_skip : nat -> list (Z * list byte)        (* optional chunks of unknown type before group 0..5 and at the end (6) *)
}.

Definition dirp_chunks (es : list (prop * ptype)) : list chunkd := match es with [] => [] | _ => [CDirp es] end.

Definition layout_chunks (es : list (prop * ptype)) (L : layout) : list chunkd :=
  skip_chunks (L_skip L 0) ++ dirp_chunks es ++
  skip_chunks (L_skip L 1) ++ vert_chunks 0 (L_vert L) ++
  skip_chunks (L_skip L 2) ++ edge_chunks 0 (L_edge L) ++
  skip_chunks (L_skip L 3) ++ poly_chunks TopoEntity_Face 0 (L_face L) ++
  skip_chunks (L_skip L 4) ++ poly_chunks TopoEntity_Cell 0 (L_cell L) ++
  skip_chunks (L_skip L 5) ++ props_chunks 0 (combine es (L_prop L)) ++
  skip_chunks (L_skip L 6).

(* ---- what is required of the mesh (independent of the layout) *)
Definition in_lim0 (lim x : Z) : Prop := 0 <= x < lim.

Definition prop_entry_ok (m : meshfile) (pt : prop * ptype) : Prop :=
  dentry_ok pt /\ ty_ok (snd pt) /\ Forall (val_ok (snd pt)) (p_vals (fst pt)) /\
  len (p_vals (fst pt)) = ent_count m (p_ent (fst pt)).

Record mesh_ok (o : opts) (dim topo : Z) (m : meshfile) (es : list (prop * ptype)) : Prop := {
  mo_header : header_ok o dim topo m;
  mo_dim : 1 <= dim;
  mo_nv : m_nv m < 1073741824;
  mo_ne : len (m_edges m) < 1073741824;
  mo_nf : len (m_faces m) < 1073741824;
  mo_nc : len (m_cells m) < 1073741824;
  mo_npos : len (m_pos m) = m_nv m;
  mo_pos : Forall (pos_ok (Z.to_nat dim)) (m_pos m);
  mo_edges : Forall (fun e => in_lim0 (m_nv m) (fst e) /\ in_lim0 (m_nv m) (snd e)) (m_edges m);
  mo_faces : Forall (Forall (in_lim0 (2 * len (m_edges m)))) (m_faces m);
  mo_cells : Forall (Forall (in_lim0 (2 * len (m_faces m)))) (m_cells m);
  mo_ftopo : topo_req topo 3 4 (m_faces m);
  mo_ctopo : topo_req topo 4 6 (m_cells m);
  mo_fadd : add_accepts (fun hs _ => mesh_add_face o (m_edges m) hs) (m_faces m);
  mo_cadd : add_accepts (fun hs _ => mesh_add_cell o (m_edges m) (m_faces m) hs) (m_cells m);
  mo_props : map fst es = m_props m;
  mo_entries : Forall (prop_entry_ok m) es;
  mo_keys : keys_fresh [] es;
  mo_nprops : len es < 4294967296;
  mo_dirp : len (dirp_payload es) < max_payload
}.

(* ---- what is required of the layout *)
Definition off_fits (henc off x : Z) : Prop := 0 <= x - off < enc_lim henc.

Definition eseg_fits (s : eseg) : Prop :=
  es_items s <> [] /\ enc_ok (es_henc s) /\ 0 <= es_off s < 18446744073709551616 /\
  Forall (fun e => off_fits (es_henc s) (es_off s) (fst e) /\ off_fits (es_henc s) (es_off s) (snd e)) (es_items s).

Definition pseg_fits (entity : Z) (s : pseg) : Prop :=
  ps_items s <> [] /\ enc_ok (ps_henc s) /\ 0 <= ps_off s < 18446744073709551616 /\ form_ok (ps_form s) (ps_items s) /\
  Forall (Forall (off_fits (ps_henc s) (ps_off s))) (ps_items s) /\
  len (poly_payload entity 0 (ps_form s) (ps_henc s) (ps_off s) (ps_items s)) < max_payload.

Definition propsegs_fit (pt : prop * ptype) (segs : list (list (list byte))) : Prop :=
  concat segs = p_vals (fst pt) /\ Forall (fun s => len (prop_payload 0 0 (snd pt) s) < max_payload) segs.

Record layout_ok (dim : Z) (m : meshfile) (es : list (prop * ptype)) (L : layout) : Prop := {
  lo_vert : concat (L_vert L) = m_pos m;
  lo_vsize : Forall (fun s => len s < 4294967296 /\ len s * (8 * dim) < 2305843009213693952) (L_vert L);
  lo_edge : all_edges (L_edge L) = m_edges m;
  lo_efits : Forall eseg_fits (L_edge L);
  lo_face : all_items (L_face L) = m_faces m;
  lo_ffits : Forall (pseg_fits TopoEntity_Face) (L_face L);
  lo_cell : all_items (L_cell L) = m_cells m;
  lo_cfits : Forall (pseg_fits TopoEntity_Cell) (L_cell L);
  lo_prop : Forall2 propsegs_fit es (L_prop L);
  lo_skip : forall i, Forall skip_ok (L_skip L i)
}.

(* ================================================================================================ phases *)
Definition phase (o : opts) (h : fhdr) (st : rst) (cs : list chunkd) (st' : rst) : Prop :=
  run_valid o h st cs /\ run_st st cs = st'.

Lemma phase_app o h st a st1 b st2 : phase o h st a st1 -> phase o h st1 b st2 -> phase o h st (a ++ b) st2.
Proof.
  intros [A1 A2] [B1 B2]. split.
  - apply run_valid_app; [exact A1|]. rewrite A2. exact B1.
  - rewrite run_st_app, A2. exact B2.
Qed.

Lemma phase_skip o h st l : Forall skip_ok l -> phase o h st (skip_chunks l) st.
Proof. intros H. exact (skip_group o h l st H). Qed.

Lemma phase_skip_then o h st l cs st' : Forall skip_ok l -> phase o h st cs st' -> phase o h st (skip_chunks l ++ cs) st'.
Proof. intros H P. eapply phase_app; [apply phase_skip; exact H|exact P]. Qed.

(* ================================================================================================ list helpers *)
Lemma Forall_concat_inv {A B} (P : A -> Prop) (f : B -> list A) (l : list B) :
  Forall P (concat (map f l)) -> Forall (fun s => Forall P (f s)) l.
Proof.
  induction l as [|x t IH]; cbn [map concat]; intros H; constructor.
  - apply Forall_app in H. apply H.
  - apply IH. apply Forall_app in H. apply H.
Qed.

Lemma Forall_concat_inv' {A} (P : A -> Prop) (l : list (list A)) : Forall P (concat l) -> Forall (Forall P) l.
Proof. intros H. rewrite <- (map_id l) in H. apply Forall_concat_inv in H. exact H. Qed.

Lemma Forall_and {A} (P Q : A -> Prop) l : Forall P l -> Forall Q l -> Forall (fun x => P x /\ Q x) l.
Proof. induction 1; intros HQ; inversion HQ; subst; constructor; auto. Qed.

Lemma map_fst_combine {A B} (l : list A) (l' : list B) : length l = length l' -> map fst (combine l l') = l.
Proof.
  revert l'; induction l as [|x t IH]; intros [|y t'] H; cbn in *; try reflexivity; try discriminate.
  f_equal. apply IH. lia.
Qed.

Lemma Forall2_length' {A B} (R : A -> B -> Prop) l l' : Forall2 R l l' -> length l = length l'.
Proof. induction 1; cbn; congruence. Qed.

Lemma nth_error_combine {A B} (l : list A) (l' : list B) k x : nth_error (combine l l') k = Some x ->
  nth_error l k = Some (fst x) /\ nth_error l' k = Some (snd x).
Proof.
  revert l' k; induction l as [|a t IH]; intros [|b t'] k H; try (destruct k; discriminate).
  destruct k as [|k]; cbn in *.
  - inversion H; subst. split; reflexivity.
  - apply IH. exact H.
Qed.

(* ================================================================================================ the states between the groups *)
Definition s_dir (es : list (prop * ptype)) : rst := set_props (map storage_of es) (dir_props 0 es) init_rst.
Definition s_v (m : meshfile) es : rst := add_verts (m_nv m) (m_pos m) (s_dir es).
Definition s_e (m : meshfile) es : rst := add_edges (len (m_edges m)) (m_edges m) (s_v m es).
Definition s_f (m : meshfile) es : rst := add_faces (len (m_faces m)) (m_faces m) (s_e m es).
Definition s_c (m : meshfile) es : rst := add_cells (len (m_cells m)) (m_cells m) (s_f m es).
Definition s_p (m : meshfile) es (L : layout) : rst :=
  set_props (map final_storage (combine es (L_prop L))) (dir_props 0 es) (s_c m es).

Lemma compatible_dim o dim topo m : compatible o (hdr_of dim topo m) = true -> o_dim o = dim.
Proof.
  unfold compatible. cbn [hdr_of h_hv h_dim]. intros H.
  apply andb_true_iff in H. destruct H as [H _]. apply andb_true_iff in H. destruct H as [H _].
  apply andb_true_iff in H. destruct H as [_ H]. apply Z.eqb_eq in H. symmetry. exact H.
Qed.

Lemma phase_dir o dim topo m es : mesh_ok o dim topo m es ->
  phase o (hdr_of dim topo m) init_rst (dirp_chunks es) (s_dir es).
Proof.
  intros M. pose proof (mo_entries _ _ _ _ _ M) as Hes. pose proof (mo_keys _ _ _ _ _ M) as Hk.
  pose proof (mo_dirp _ _ _ _ _ M) as Hpl. clear M.
  destruct es as [|e0 t0] eqn:Ees.
  - split; [exact I|reflexivity].
  - cbn [dirp_chunks]. rewrite <- Ees in *. split; [|reflexivity].
    cbn [run_valid]. split; [|exact I].
    split; [exact Hpl|]. cbn [init_rst r_props r_stor].
    split; [reflexivity|]. split; [|exact Hk].
    eapply Forall_impl; [|exact Hes]. intros pt Hpt. apply Hpt.
Qed.

Lemma phase_vert o dim topo m es L : mesh_ok o dim topo m es -> layout_ok dim m es L ->
  phase o (hdr_of dim topo m) (s_dir es) (vert_chunks 0 (L_vert L)) (s_v m es).
Proof.
  intros M LO.
  destruct (mo_header _ _ _ _ _ M) as [_ [[Hv0 Hv1] [_ [_ [_ Hcomp]]]]].
  pose proof (mo_dim _ _ _ _ _ M) as Hdim. pose proof (mo_nv _ _ _ _ _ M) as Hnv.
  pose proof (mo_npos _ _ _ _ _ M) as Hlp. pose proof (mo_pos _ _ _ _ _ M) as Hpos.
  pose proof (lo_vert _ _ _ _ LO) as Lv1. pose proof (lo_vsize _ _ _ _ LO) as Lv2.
  pose proof (vert_group o (hdr_of dim topo m) (L_vert L) (s_dir es)) as G.
  cbn [s_dir set_props init_rst r_nvr hdr_of h_dim h_nv] in G.
  destruct G as [G1 G2]; try assumption; try lia.
  - apply compatible_dim in Hcomp. exact Hcomp.
  - rewrite Lv1, Hlp. lia.
  - assert (Hp2 : Forall (Forall (pos_ok (Z.to_nat dim))) (L_vert L)) by (apply Forall_concat_inv'; rewrite Lv1; exact Hpos).
    pose proof (Forall_and _ _ _ Lv2 Hp2) as Hb. eapply Forall_impl; [|exact Hb].
    intros s [[A B] C]. split; [exact A|]. split; [exact B|exact C].
  - split; [exact G1|]. rewrite G2. rewrite Lv1, Hlp. reflexivity.
Qed.

Lemma phase_edge o dim topo m es L : mesh_ok o dim topo m es -> layout_ok dim m es L ->
  phase o (hdr_of dim topo m) (s_v m es) (edge_chunks 0 (L_edge L)) (s_e m es).
Proof.
  intros M LO.
  destruct (mo_header _ _ _ _ _ M) as [_ [[Hv0 Hv1] [[He0 He1] _]]].
  pose proof (mo_nv _ _ _ _ _ M) as Hnv. pose proof (mo_ne _ _ _ _ _ M) as Hne.
  pose proof (mo_edges _ _ _ _ _ M) as Hed.
  pose proof (lo_edge _ _ _ _ LO) as Le1. pose proof (lo_efits _ _ _ _ LO) as Le2.
  pose proof (edge_group o (hdr_of dim topo m) (L_edge L) (s_v m es)) as G.
  cbn [s_v s_dir add_verts set_props init_rst r_nvr r_ner hdr_of h_ne] in G. rewrite Z.add_0_l in G.
  rewrite Le1 in G.
  destruct G as [G1 G2]; try lia.
  - rewrite <- Le1 in Hed. unfold all_edges in Hed. apply Forall_concat_inv in Hed.
    clear - Hed Le2. induction Le2 as [|s t [A [B [C D]]] Ht IH]; [constructor|].
    inversion Hed as [|? ? Hs Hed']; subst. constructor; [|apply IH; exact Hed'].
    split; [exact A|]. split; [exact B|]. split; [exact C|].
    clear - D Hs. induction D as [|e t [D1 D2] Dt IH]; [constructor|].
    inversion Hs as [|? ? [E1 E2] Hs']; subst. constructor; [|apply IH; exact Hs'].
    split; split; assumption.
  - split; [exact G1|exact G2].
Qed.

Lemma pseg_fits_ok entity lim segs :
  Forall (pseg_fits entity) segs -> Forall (Forall (in_lim0 lim)) (all_items segs) -> Forall (pseg_ok entity lim) segs.
Proof.
  unfold all_items. intros Hf Hr. apply Forall_concat_inv in Hr.
  induction Hf as [|s t [A [B [C [D [E F]]]]] Ht IH]; [constructor|].
  inversion Hr as [|? ? Hs Hr']; subst. constructor; [|apply IH; exact Hr'].
  split; [exact A|]. split; [exact B|]. split; [exact C|]. split; [exact D|]. split; [|exact F].
  clear - E Hs. induction E as [|x t Ex Et IH]; [constructor|].
  inversion Hs as [|? ? Hx Hs']; subst. constructor; [|apply IH; exact Hs'].
  clear - Ex Hx. induction Ex as [|y u Ey Eu IH]; [constructor|].
  inversion Hx as [|? ? Hy Hx']; subst. constructor; [|apply IH; exact Hx'].
  split; assumption.
Qed.

Lemma phase_face o dim topo m es L : mesh_ok o dim topo m es -> layout_ok dim m es L ->
  phase o (hdr_of dim topo m) (s_e m es) (poly_chunks TopoEntity_Face 0 (L_face L)) (s_f m es).
Proof.
  intros M LO.
  destruct (mo_header _ _ _ _ _ M) as [_ [_ [_ [[Hf0 Hf1] _]]]].
  pose proof (mo_ne _ _ _ _ _ M) as Hne. pose proof (mo_nf _ _ _ _ _ M) as Hnf.
  pose proof (mo_faces _ _ _ _ _ M) as Hfa. pose proof (mo_ftopo _ _ _ _ _ M) as Htopo.
  pose proof (mo_fadd _ _ _ _ _ M) as Hadd.
  pose proof (lo_face _ _ _ _ LO) as Lf1. pose proof (lo_ffits _ _ _ _ LO) as Lf2.
  pose proof (face_group o (hdr_of dim topo m) (L_face L) (s_e m es)) as G.
  cbn [s_e s_v s_dir add_edges add_verts set_props init_rst r_nfr r_ner r_edges hdr_of h_nf h_topo app] in G.
  rewrite Z.add_0_l in G. rewrite Lf1 in G.
  pose proof (len_nonneg (m_edges m)).
  destruct G as [G1 G2]; try lia; try assumption.
  - apply pseg_fits_ok; [exact Lf2|]. rewrite Lf1. exact Hfa.
  - split; [exact G1|exact G2].
Qed.

Lemma phase_cell o dim topo m es L : mesh_ok o dim topo m es -> layout_ok dim m es L ->
  phase o (hdr_of dim topo m) (s_f m es) (poly_chunks TopoEntity_Cell 0 (L_cell L)) (s_c m es).
Proof.
  intros M LO.
  destruct (mo_header _ _ _ _ _ M) as [_ [_ [_ [_ [[Hc0 Hc1] _]]]]].
  pose proof (mo_nf _ _ _ _ _ M) as Hnf. pose proof (mo_nc _ _ _ _ _ M) as Hnc.
  pose proof (mo_cells _ _ _ _ _ M) as Hce. pose proof (mo_ctopo _ _ _ _ _ M) as Htopo.
  pose proof (mo_cadd _ _ _ _ _ M) as Hadd.
  pose proof (lo_cell _ _ _ _ LO) as Lc1. pose proof (lo_cfits _ _ _ _ LO) as Lc2.
  pose proof (cell_group o (hdr_of dim topo m) (L_cell L) (s_f m es)) as G.
  cbn [s_f s_e s_v s_dir add_faces add_edges add_verts set_props init_rst r_ncr r_nfr r_faces hdr_of h_nc h_topo app] in G.
  rewrite Z.add_0_l in G. rewrite Lc1 in G.
  pose proof (len_nonneg (m_faces m)).
  destruct G as [G1 G2]; try lia; try assumption.
  - apply pseg_fits_ok; [exact Lc2|]. rewrite Lc1. exact Hce.
  - split; [exact G1|exact G2].
Qed.

Lemma read_count_sc m es e : read_count (s_c m es) e = ent_count m e.
Proof.
  unfold read_count, ent_count.
  cbn [s_c s_f s_e s_v s_dir add_cells add_faces add_edges add_verts set_props init_rst r_nvr r_ner r_nfr r_ncr].
  rewrite !Z.add_0_l. reflexivity.
Qed.

Lemma cur_count_sc dim topo m es e : cur_count (hdr_of dim topo m) (s_c m es) e = ent_count m e.
Proof.
  unfold cur_count, ent_count.
  cbn [s_c s_f s_e s_v s_dir add_cells add_faces add_edges add_verts set_props init_rst r_edges r_faces r_cells hdr_of h_nv app].
  reflexivity.
Qed.

Lemma ent_count_bound o dim topo m es e : mesh_ok o dim topo m es -> 0 <= ent_count m e <= 2147483648.
Proof.
  intros M. destruct (mo_header _ _ _ _ _ M) as [_ [[Hv0 _] _]].
  pose proof (mo_nv _ _ _ _ _ M). pose proof (mo_ne _ _ _ _ _ M). pose proof (mo_nf _ _ _ _ _ M). pose proof (mo_nc _ _ _ _ _ M).
  pose proof (len_nonneg (m_edges m)). pose proof (len_nonneg (m_faces m)). pose proof (len_nonneg (m_cells m)).
  unfold ent_count.
  repeat match goal with |- context [if ?c then _ else _] => destruct c end; lia.
Qed.

Lemma len_prop_payload_idx i1 i2 f1 f2 ty s : len (prop_payload i1 f1 ty s) = len (prop_payload i2 f2 ty s).
Proof. unfold prop_payload. lens. reflexivity. Qed.

Lemma pentries_from_layout o dim topo m es0 : mesh_ok o dim topo m es0 ->
  forall es segs idx, Forall (prop_entry_ok m) es -> Forall2 propsegs_fit es segs ->
  pentries_ok (hdr_of dim topo m) (s_c m es0) idx (combine es segs).
Proof.
  intros M es segs idx He H2. revert idx. induction H2 as [|pt sg es' segs' [Hc Hp] H2 IH]; intros idx; [exact I|].
  inversion He as [|? ? [Hd [Hty [Hv Hn]]] He']; subst.
  cbn [combine pentries_ok]. split; [|apply IH; exact He'].
  unfold pentry_ok. cbn [fst snd]. rewrite read_count_sc, cur_count_sc. rewrite Hc, Hn.
  pose proof (ent_count_bound o dim topo m es0 (p_ent (fst pt)) M).
  split; [exact Hty|]. split; [lia|]. split; [lia|]. split; [lia|].
  rewrite <- Hc in Hv. apply Forall_concat_inv' in Hv.
  clear - Hv Hp. induction Hp as [|s t Hs Ht IH]; [constructor|].
  inversion Hv; subst. constructor; [|apply IH; assumption].
  split; [assumption|]. rewrite (len_prop_payload_idx _ 0 _ 0). exact Hs.
Qed.

Lemma phase_prop o dim topo m es L : mesh_ok o dim topo m es -> layout_ok dim m es L ->
  phase o (hdr_of dim topo m) (s_c m es) (props_chunks 0 (combine es (L_prop L))) (s_p m es L).
Proof.
  intros M LO.
  pose proof (mo_entries _ _ _ _ _ M) as Hes. pose proof (mo_nprops _ _ _ _ _ M) as Hnp.
  pose proof (lo_prop _ _ _ _ LO) as Lp.
  pose proof (Forall2_length' _ _ _ Lp) as Hlen.
  assert (Hcl : length (combine es (L_prop L)) = length es) by (rewrite combine_length; lia).
  pose proof (props_run o (hdr_of dim topo m) (combine es (L_prop L)) [] (s_c m es)) as G.
  cbn [length Nat.add app] in G.
  destruct G as [G1 G2].
  - cbn [s_c s_f s_e s_v s_dir add_cells add_faces add_edges add_verts set_props r_stor].
    rewrite <- (map_map fst storage_of). rewrite map_fst_combine by exact Hlen. reflexivity.
  - rewrite Hcl. unfold len in Hnp. exact Hnp.
  - rewrite Hcl. cbn [s_c s_f s_e s_v s_dir add_cells add_faces add_edges add_verts set_props r_props].
    unfold len. rewrite dir_props_length. lia.
  - intros k x Hk. apply nth_error_combine in Hk. destruct Hk as [Hk _].
    cbn [s_c s_f s_e s_v s_dir add_cells add_faces add_edges add_verts set_props r_props].
    apply (dir_props_nth es 0 k (fst x) Hk).
  - apply (pentries_from_layout o dim topo m es M); assumption.
  - split; [exact G1|]. rewrite G2. reflexivity.
Qed.

(* ================================================================================================ the whole sequence *)
Lemma layout_phase o dim topo m es L : mesh_ok o dim topo m es -> layout_ok dim m es L ->
  phase o (hdr_of dim topo m) init_rst (layout_chunks es L) (s_p m es L).
Proof.
  intros M LO. pose proof (lo_skip _ _ _ _ LO) as Sk. unfold layout_chunks.
  apply phase_skip_then; [apply Sk|]. eapply phase_app; [apply (phase_dir o dim topo m es M)|].
  apply phase_skip_then; [apply Sk|]. eapply phase_app; [apply (phase_vert o dim topo m es L M LO)|].
  apply phase_skip_then; [apply Sk|]. eapply phase_app; [apply (phase_edge o dim topo m es L M LO)|].
  apply phase_skip_then; [apply Sk|]. eapply phase_app; [apply (phase_face o dim topo m es L M LO)|].
  apply phase_skip_then; [apply Sk|]. eapply phase_app; [apply (phase_cell o dim topo m es L M LO)|].
  apply phase_skip_then; [apply Sk|]. eapply phase_app; [apply (phase_prop o dim topo m es L M LO)|].
  apply phase_skip. apply Sk.
Qed.

(* ================================================================================================ the mesh that results *)
Lemma cur_count_sp dim topo m es L e : cur_count (hdr_of dim topo m) (s_p m es L) e = ent_count m e.
Proof.
  unfold cur_count, ent_count.
  cbn [s_p s_c s_f s_e s_v s_dir add_cells add_faces add_edges add_verts set_props init_rst r_edges r_faces r_cells hdr_of h_nv app].
  reflexivity.
Qed.

Lemma prop_eta p : {| p_ent := p_ent p; p_name := p_name p; p_tname := p_tname p; p_def := p_def p; p_vals := p_vals p |} = p.
Proof. destruct p. reflexivity. Qed.

Lemma final_storage_prop (x : pentry) n : n = len (concat (snd x)) -> concat (snd x) = p_vals (fst (fst x)) ->
  {| p_ent := st_ent (final_storage x); p_name := st_name (final_storage x); p_tname := st_tname (final_storage x);
     p_def := st_def (final_storage x); p_vals := storage_values (final_storage x) n |} = fst (fst x).
Proof.
  intros -> Hc. rewrite final_storage_values. rewrite Hc.
  cbn [final_storage storage_with st_ent st_name st_tname st_def]. apply prop_eta.
Qed.

Lemma result_props dim topo m es0 L0 : forall es segs, Forall (prop_entry_ok m) es -> Forall2 propsegs_fit es segs ->
  map (fun s => {| p_ent := st_ent s; p_name := st_name s; p_tname := st_tname s; p_def := st_def s;
                   p_vals := storage_values s (cur_count (hdr_of dim topo m) (s_p m es0 L0) (st_ent s)) |})
      (map final_storage (combine es segs)) = map fst es.
Proof.
  intros es segs He H2. induction H2 as [|pt sg es' segs' [Hc Hp] H2 IH]; [reflexivity|].
  inversion He as [|? ? [Hd [Hty [Hv Hn]]] He']; subst.
  cbn [combine map]. f_equal; [|apply IH; exact He'].
  apply (final_storage_prop (pt, sg)); cbn [fst snd]; [|exact Hc].
  rewrite cur_count_sp. cbn [final_storage storage_with st_ent fst]. rewrite Hc. symmetry. exact Hn.
Qed.

Lemma result_mesh_sp o dim topo m es L : mesh_ok o dim topo m es -> layout_ok dim m es L ->
  result_mesh o (hdr_of dim topo m) (s_p m es L) = m.
Proof.
  intros M LO. unfold result_mesh.
  change (r_stor (s_p m es L)) with (map final_storage (combine es (L_prop L))).
  rewrite (result_props dim topo m es L es (L_prop L) (mo_entries _ _ _ _ _ M) (lo_prop _ _ _ _ LO)).
  rewrite (mo_props _ _ _ _ _ M).
  cbn [s_p s_c s_f s_e s_v s_dir add_cells add_faces add_edges add_verts set_props init_rst
       r_pos r_edges r_faces r_cells hdr_of h_nv app].
  rewrite (mo_npos _ _ _ _ _ M). rewrite Z.sub_diag. cbn [Z.to_nat repeat]. rewrite app_nil_r.
  destruct m. reflexivity.
Qed.

(* Every file laid out as a valid layout of m reads back as exactly m. *)
Theorem layout_decodes o dim topo m es L : mesh_ok o dim topo m es -> layout_ok dim m es L ->
  decode_impl o (alt_file dim topo m (layout_chunks es L)) = ROk m.
Proof.
  intros M LO. destruct (layout_phase o dim topo m es L M LO) as [P1 P2].
  rewrite (alt_file_decodes o dim topo m (layout_chunks es L) (mo_header _ _ _ _ _ M) P1); rewrite P2.
  - rewrite (result_mesh_sp o dim topo m es L M LO). reflexivity.
  - cbn [s_p s_c s_f s_e s_v s_dir add_cells add_faces add_edges add_verts set_props init_rst r_nvr]. lia.
  - reflexivity.
  - reflexivity.
  - reflexivity.
Qed.
