(* IO/Ovmb2RoundTrip.v -- C06: decode_impl (encode m) = ROk m for every well-formed mesh value, every reader configuration
   that accepts the file's topology type, under the explicit size bounds `fits` (two limits of the writer's uint32_t fields;
   otherwise only the range on which the model's padding arithmetic is exact), and the same for every valid re-encoding
   (`layout`) of m. *)
From Coq Require Import ZArith List Bool Lia.
From OVM Require Import Base.Int32 Gen.OvmbFormat IO.Bytes IO.OvmbWriterModel IO.OvmbReaderModel IO.OvmbProofs
  IO.Ovmb2Base IO.Ovmb2Chunk IO.Ovmb2Alt IO.Ovmb2Ints IO.Ovmb2Topo IO.Ovmb2Vert IO.Ovmb2Dirp IO.Ovmb2Prop IO.Ovmb2Run
  IO.Ovmb2Groups IO.Ovmb2PropGroup IO.Ovmb2Layout IO.Ovmb2Writer IO.Ovmb2Wf.
Import ListNotations.
Local Open Scope Z_scope.

(* The reader configuration `o` (mesh class, topology check, dimension) accepts a file of mesh m with topology type `topo`:
   the dimension is the mesh object's, the class matches the type, the type's valence restrictions hold, and the kernel's
   add_face / add_cell (with the configured checks) store every face / cell as given. *)
Record accepts (o : opts) (dim topo : Z) (m : meshfile) : Prop := {
  ac_dim : o_dim o = dim;
  ac_dim1 : 1 <= dim;
  ac_topo : topo = TopoType_Polyhedral \/ topo = TopoType_Tetrahedral \/ topo = TopoType_Hexahedral;
  ac_kind : match o_mesh o with MPoly => True | MTet => topo = TopoType_Tetrahedral | MHex => topo = TopoType_Hexahedral end;
  ac_ftopo : topo_req topo 3 4 (m_faces m);
  ac_ctopo : topo_req topo 4 6 (m_cells m);
  ac_fadd : add_accepts (fun hs _ => mesh_add_face o (m_edges m) hs) (m_faces m);
  ac_cadd : add_accepts (fun hs _ => mesh_add_cell o (m_edges m) (m_faces m) hs) (m_cells m)
}.

(* Size bounds.  None of them is a limit of the reader any more (its two 32-bit products are computed in 64 bits since
   "fix: OVMB reader computed chunk sizes in 32 bits").  fit_nprops, fit_defs: the WRITER stores a property index resp. the
   length prefix of a serialized default as uint32_t.  The others keep every chunk payload below 2^62 bytes, the range on
   which the model's padding arithmetic is proved exact (no real file comes near; dim is a byte in every real file, so
   fit_vert holds for every mesh with fewer than 2^30 vertices). *)
Record fits (dim : Z) (m : meshfile) : Prop := {
  fit_vert : m_nv m * (8 * dim) < 2305843009213693952;
  fit_fsum : hsum (m_faces m) < 576460752303423488;
  fit_csum : hsum (m_cells m) < 576460752303423488;
  fit_nprops : len (m_props m) < 4294967296;
  fit_dirp : len (dirp_payload (written_props m)) < max_payload;
  fit_defs : Forall (fun pt => len (encode_value (snd pt) (p_def (fst pt))) < 4294967296) (written_props m);
  fit_vals : Forall (fun pt => len (encode_n (snd pt) (p_vals (fst pt))) < 2305843009213693952) (written_props m)
}.

(* ================================================================================================ written_props *)
Lemma written_props_facts dim m : wf_file dim m ->
  map fst (written_props m) = m_props m /\
  Forall (fun pt => codec_of (p_tname (fst pt)) = Some (snd pt)) (written_props m).
Proof.
  intros W. apply wf_unpack in W. unfold written_props. apply written_props_spec.
  eapply Forall_impl; [|exact (wf_propsok _ _ W)]. intros p Hp. exact (prop_okb_codec m p Hp).
Qed.

Lemma prop_entries_ok dim m : wf_file dim m -> fits dim m -> Forall (prop_entry_ok m) (written_props m).
Proof.
  intros W F. destruct (written_props_facts dim m W) as [E1 E2]. apply wf_unpack in W.
  pose proof (wf_propsok _ _ W) as Hp. rewrite <- E1 in Hp.
  pose proof (fit_defs _ _ F) as Hd.
  revert E2 Hp Hd. generalize (written_props m). intros es E2 Hp Hd.
  induction es as [|[p ty] t IH]; [constructor|].
  inversion E2 as [|? ? Hc E2']; subst. cbn [map] in Hp. inversion Hp as [|? ? Hok Hp']; subst.
  inversion Hd as [|? ? Hdef Hd']; subst. cbn [fst snd] in *.
  constructor; [|apply IH; assumption].
  unfold prop_okb in Hok. rewrite Hc in Hok. cbv beta iota in Hok.
  apply andb_true_iff in Hok. destruct Hok as [Hok Kv].
  apply andb_true_iff in Hok. destruct Hok as [Hok _].
  apply andb_true_iff in Hok. destruct Hok as [Hok K1].
  apply andb_true_iff in Hok. destruct Hok as [Hok K2].
  apply andb_true_iff in Hok. destruct Hok as [Hok K3].
  apply andb_true_iff in Kv. destruct Kv as [Kv Kn].
  apply andb_true_iff in Kv. destruct Kv as [Kd Kvals].
  apply Z.leb_le in Hok. apply Z.leb_le in K3. apply negb_true_iff in K2. apply Z.eqb_neq in K2. apply Z.ltb_lt in K1.
  apply Z.eqb_eq in Kn. unfold two32 in K1.
  destruct (codec_of_ok _ _ Hc) as [Hty Htn]. pose proof (len_nonneg (p_name p)).
  unfold prop_entry_ok, dentry_ok. cbn [fst snd].
  repeat split; try assumption; try lia.
  apply Forall_forallb in Kvals. eapply Forall_impl; [|exact Kvals]. intros v. apply value_okb_val.
Qed.

Lemma keys_fresh_written dim m : wf_file dim m -> keys_fresh [] (written_props m).
Proof.
  intros W. destruct (written_props_facts dim m W) as [E1 _]. apply wf_unpack in W.
  apply (keys_fresh_nodup (written_props m) []).
  - intros q p [].
  - rewrite E1. exact (wf_nodup _ _ W).
Qed.

(* ================================================================================================ mesh_ok *)
Lemma valid_topo topo : topo = TopoType_Polyhedral \/ topo = TopoType_Tetrahedral \/ topo = TopoType_Hexahedral ->
  is_valid_TopoType topo = true.
Proof. intros [-> | [-> | ->]]; reflexivity. Qed.

Lemma compatible_ok o dim topo m : accepts o dim topo m ->
  0 <= m_nv m < 1073741824 -> len (m_edges m) < 1073741824 -> len (m_faces m) < 1073741824 -> len (m_cells m) < 1073741824 ->
  compatible o (hdr_of dim topo m) = true.
Proof.
  intros A Hv He Hf Hc. unfold compatible. cbn [hdr_of h_hv h_dim h_topo h_nv h_ne h_nf h_nc].
  rewrite (ac_dim _ _ _ _ A). rewrite !Z.eqb_refl. cbn [andb].
  pose proof (len_nonneg (m_edges m)). pose proof (len_nonneg (m_faces m)). pose proof (len_nonneg (m_cells m)).
  rewrite (leb_true _ max_handle_idx) by (unfold max_handle_idx; lia). rewrite andb_true_r.
  pose proof (ac_kind _ _ _ _ A) as K. destruct (o_mesh o); [reflexivity|rewrite K; reflexivity|rewrite K; reflexivity].
Qed.

Lemma writer_mesh_ok o dim topo m : wf_file dim m -> fits dim m -> accepts o dim topo m ->
  mesh_ok o dim topo m (written_props m).
Proof.
  intros W F A. pose proof (wf_unpack dim m W) as U.
  pose proof (wf_nv0 _ _ U). pose proof (wf_nv _ _ U). pose proof (wf_ne _ _ U). pose proof (wf_nf _ _ U). pose proof (wf_nc _ _ U).
  pose proof (len_nonneg (m_edges m)). pose proof (len_nonneg (m_faces m)). pose proof (len_nonneg (m_cells m)).
  destruct (written_props_facts dim m W) as [E1 E2].
  constructor; try (apply A); try (apply U); try assumption.
  - split; [apply valid_topo; apply A|]. unfold u64_ok.
    split; [lia|]. split; [lia|]. split; [lia|]. split; [lia|]. apply compatible_ok; assumption || lia.
  - eapply Forall_impl; [|exact (wf_pos _ _ U)]. intros p [P1 P2]. split; [|exact P2].
    pose proof (ac_dim1 _ _ _ _ A). unfold len in P1. lia.
  - eapply Forall_impl; [|exact (wf_faces _ _ U)]. intros f [P1 _]. exact P1.
  - eapply Forall_impl; [|exact (wf_cells _ _ U)]. intros f [P1 _]. exact P1.
  - exact (prop_entries_ok dim m W F).
  - exact (keys_fresh_written dim m W).
  - rewrite <- (len_map fst), E1. exact (fit_nprops _ _ F).
  - exact (fit_dirp _ _ F).
Qed.

(* ================================================================================================ the writer's layout is valid *)
Lemma one_seg_concat {A} (l : list A) : concat (one_seg l l) = l.
Proof. destruct l; [reflexivity|]. cbn [one_seg concat]. apply app_nil_r. Qed.

Lemma one_seg_Forall {A B} (P : B -> Prop) (l : list A) s : (l <> [] -> P s) -> Forall P (one_seg l s).
Proof. destruct l; intros H; [constructor|]. constructor; [apply H; discriminate|constructor]. Qed.

Lemma len_valence_data f items : form_ok f items -> len (valence_data f items) <= 4 * len items.
Proof.
  destruct f as [v|venc]; cbn [valence_data form_ok]; intros H.
  - rewrite len_nil. pose proof (len_nonneg items). lia.
  - destruct H as [He _]. rewrite len_enc_ints by exact He. rewrite len_map. pose proof (enc_ok_pos _ He).
    pose proof (len_nonneg items). nia.
Qed.

Lemma writer_pseg_fits entity items lim :
  len items < 1073741824 -> 0 <= lim < 4294967296 ->
  Forall (fun x => Forall (in_lim0 lim) x /\ len x < 4294967296) items ->
  hsum items < 576460752303423488 ->
  Forall (pseg_fits entity) (one_seg items
    {| ps_form := writer_form items; ps_henc := suitable_int_encoding (c_uint lim); ps_off := 0; ps_items := items |}).
Proof.
  intros Hn Hlim Hit Hsum. apply one_seg_Forall. intros Hne.
  assert (Hf : form_ok (writer_form items) items).
  { apply writer_form_ok. eapply Forall_impl; [|exact Hit]. intros x [_ Hx]. exact Hx. }
  unfold pseg_fits. cbn [ps_form ps_henc ps_off ps_items]. rewrite c_uint_id by exact Hlim.
  split; [exact Hne|]. split; [apply suitable_ok|]. split; [lia|]. split; [exact Hf|]. split.
  - eapply Forall_impl; [|exact Hit]. intros x [Hx _]. eapply Forall_impl; [|exact Hx].
    intros y Hy. unfold off_fits, in_lim0 in *. rewrite Z.sub_0_r. apply suitable_fits; lia.
  - rewrite len_poly_payload by apply suitable_ok.
    pose proof (len_valence_data _ _ Hf). pose proof (enc_ok_pos _ (suitable_ok lim)). pose proof (hsum_nonneg items).
    pose proof (len_nonneg items). unfold max_payload. nia.
Qed.

Lemma writer_layout_ok dim m : wf_file dim m -> fits dim m -> 1 <= dim -> layout_ok dim m (written_props m) (writer_layout m).
Proof.
  intros W F Hd. pose proof (wf_unpack dim m W) as U.
  pose proof (wf_nv0 _ _ U). pose proof (wf_nv _ _ U). pose proof (wf_ne _ _ U). pose proof (wf_nf _ _ U). pose proof (wf_nc _ _ U).
  pose proof (len_nonneg (m_edges m)). pose proof (len_nonneg (m_faces m)). pose proof (len_nonneg (m_cells m)).
  constructor; cbn [writer_layout L_vert L_edge L_face L_cell L_prop L_skip].
  - apply one_seg_concat.
  - apply one_seg_Forall. intros _. rewrite (wf_npos _ _ U). split; [lia|exact (fit_vert _ _ F)].
  - unfold all_edges. destruct (m_edges m); [reflexivity|]. cbn [one_seg map concat es_items]. apply app_nil_r.
  - apply one_seg_Forall. intros Hne. unfold eseg_fits. cbn [es_henc es_off es_items].
    rewrite c_uint_id by lia.
    split; [exact Hne|]. split; [apply suitable_ok|]. split; [lia|].
    eapply Forall_impl; [|exact (wf_edges _ _ U)]. intros e [[A1 A2] [B1 B2]]. unfold off_fits. rewrite !Z.sub_0_r.
    split; apply suitable_fits; lia.
  - unfold all_items. destruct (m_faces m); [reflexivity|]. cbn [one_seg map concat ps_items]. apply app_nil_r.
  - apply writer_pseg_fits; try lia; [exact (wf_faces _ _ U)|exact (fit_fsum _ _ F)].
  - unfold all_items. destruct (m_cells m); [reflexivity|]. cbn [one_seg map concat ps_items]. apply app_nil_r.
  - apply writer_pseg_fits; try lia; [exact (wf_cells _ _ U)|exact (fit_csum _ _ F)].
  - pose proof (fit_vals _ _ F) as Hv. revert Hv. generalize (written_props m). intros es Hv.
    induction Hv as [|pt t Hpt Ht IH]; cbn [map]; constructor; [|exact IH].
    unfold propsegs_fit. cbn [concat]. split; [apply app_nil_r|].
    constructor; [|constructor]. unfold prop_payload. lens. unfold max_payload. zlia.
  - intros i. constructor.
Qed.

(* ================================================================================================ C06 *)
(* Reading the writer's bytes gives back exactly the mesh: vertices (bit patterns), edges, faces, cells (handle for handle, in
   order), every persistent property with name, type, entity kind, default and values bit for bit. *)
Theorem roundtrip_impl o dim topo m :
  wf_file dim m -> fits dim m -> accepts o dim topo m -> decode_impl o (encode dim topo m) = ROk m.
Proof.
  intros W F A. pose proof (wf_unpack dim m W) as U.
  pose proof (wf_nv0 _ _ U). pose proof (wf_nv _ _ U). pose proof (wf_ne _ _ U). pose proof (wf_nf _ _ U). pose proof (wf_nc _ _ U).
  rewrite (encode_is_layout dim topo m); try lia.
  - apply layout_decodes; [apply writer_mesh_ok; assumption|apply writer_layout_ok; try assumption; apply A].
  - symmetry. exact (wf_npos _ _ U).
  - rewrite (wf_npos _ _ U). lia.
  - pose proof (prop_entries_ok dim m W F) as E. eapply Forall_impl; [|exact E].
    intros pt [_ [_ [_ Hn]]]. rewrite Hn.
    pose proof (ent_count_bound o dim topo m (written_props m) (p_ent (fst pt)) (writer_mesh_ok o dim topo m W F A)). lia.
Qed.

(* ... and so does every other valid layout of the same mesh: entity lists and property value lists split into spans, wider
   integer encodings, the variable-valence form where the fixed one would do, non-zero handle offsets, optional chunks. *)
Theorem reencodings_impl o dim topo m L :
  wf_file dim m -> fits dim m -> accepts o dim topo m -> layout_ok dim m (written_props m) L ->
  decode_impl o (alt_file dim topo m (layout_chunks (written_props m) L)) = ROk m.
Proof. intros W F A LO. apply layout_decodes; [apply writer_mesh_ok; assumption|exact LO]. Qed.

(* configurations without topology check on a polyhedral mesh object accept every file of polyhedral type *)
Lemma accepts_poly_nocheck o dim m : o_mesh o = MPoly -> o_check o = false -> o_dim o = dim -> 1 <= dim ->
  accepts o dim TopoType_Polyhedral m.
Proof.
  intros Hm Hc Hd H1. constructor; try assumption.
  - left; reflexivity.
  - rewrite Hm. exact I.
  - split; intros E; discriminate.
  - split; intros E; discriminate.
  - unfold add_accepts. apply Forall_forall. intros hs _ acc. unfold mesh_add_face, base_add_face. rewrite Hm, Hc. reflexivity.
  - unfold add_accepts. apply Forall_forall. intros hs _ acc. unfold mesh_add_cell, base_add_cell. rewrite Hm, Hc. reflexivity.
Qed.
