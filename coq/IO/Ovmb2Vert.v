(* IO/Ovmb2Vert.v -- the file header and VERT chunks: read_header / read_file_header on the writer's 48 header bytes, and
   BinaryFileReader::read_vertices_chunk + GeometryReaderT::read on a VERT chunk in the Double encoding covering any span that
   continues where the previous one ended. *)
From Coq Require Import ZArith List Bool Lia.
From OVM Require Import Base.Int32 Gen.OvmbFormat IO.Bytes IO.OvmbWriterModel IO.OvmbReaderModel IO.OvmbProofs
  IO.Ovmb2Base IO.Ovmb2Chunk IO.Ovmb2Alt IO.Ovmb2Ints IO.Ovmb2Topo.
Import ListNotations.
Local Open Scope Z_scope.

(* ================================================================================================ file header *)
Definition hdr_of (dim topo : Z) (m : meshfile) : fhdr :=
  {| h_fv := 1; h_hv := 1; h_dim := dim; h_topo := topo;
     h_nv := m_nv m; h_ne := len (m_edges m); h_nf := len (m_faces m); h_nc := len (m_cells m) |}.

Definition u64_ok (x : Z) : Prop := 0 <= x < 18446744073709551616.

Lemma read_file_header_enc dim topo m :
  is_valid_TopoType topo = true ->
  u64_ok (m_nv m) -> u64_ok (len (m_edges m)) -> u64_ok (len (m_faces m)) -> u64_ok (len (m_cells m)) ->
  read_file_header (write_file_header dim topo m) = (hdr_of dim topo m, true).
Proof.
  intros Ht Hv He Hf Hc. unfold read_file_header, write_file_header, hdr_of.
  cbn [app firstn skipn nth list_eqb ovmb_magic Z.eqb Pos.eqb andb negb forallb le_encode enc_u64].
  rewrite Ht. cbn [negb].
  f_equal. f_equal.
  - exact (le_decode_encode 8 (m_nv m) Hv).
  - exact (le_decode_encode 8 (len (m_edges m)) He).
  - exact (le_decode_encode 8 (len (m_faces m)) Hf).
  - exact (le_decode_encode 8 (len (m_cells m)) Hc).
Qed.

Lemma read_header_enc dim topo m rest avail :
  is_valid_TopoType topo = true ->
  u64_ok (m_nv m) -> u64_ok (len (m_edges m)) -> u64_ok (len (m_faces m)) -> u64_ok (len (m_cells m)) ->
  48 <= avail ->
  read_header {| s_bytes := write_file_header dim topo m ++ rest; s_avail := avail |}
  = (hdr_of dim topo m, true, {| s_bytes := rest; s_avail := avail - 48 |}).
Proof.
  intros Ht Hv He Hf Hc Hav. unfold read_header.
  rewrite (make_decoder_app ovmb_size_FileHeader (write_file_header dim topo m)).
  - rewrite read_file_header_enc by assumption. reflexivity.
  - unfold len. rewrite header_length. reflexivity.
  - left. exact Hav.
Qed.

(* ================================================================================================ VERT *)
Definition pos_ok (dim : nat) (p : list Z) : Prop := length p = dim /\ Forall u64_ok p.

Lemma len_enc_pos p : len (enc_pos p) = 8 * len p.
Proof.
  unfold enc_pos. induction p as [|x t IH]; cbn [map concat]; [reflexivity|].
  rewrite len_app, len_enc_u64, len_cons, IH. lia.
Qed.

Lemma len_enc_positions dim ps : Forall (pos_ok dim) ps -> len (concat (map enc_pos ps)) = len ps * (8 * Z.of_nat dim).
Proof.
  induction 1 as [|p t [Hp _] Ht IH]; cbn [map concat]; [reflexivity|].
  rewrite len_app, len_cons, IH, len_enc_pos. unfold len at 1. rewrite Hp. lia.
Qed.

Lemma rd_coords_enc p r : Forall u64_ok p -> rd_coords (length p) VertexEncoding_Double (enc_pos p ++ r) = Ret (p, r).
Proof.
  unfold enc_pos. induction 1 as [|x t Hx Ht IH]; [reflexivity|].
  cbn [length rd_coords map concat]. rewrite Z.eqb_refl. rewrite <- app_assoc.
  rewrite rd_u64_enc by exact Hx. cbn [bind]. rewrite IH. reflexivity.
Qed.

Lemma rd_positions_enc dim ps : Forall (pos_ok dim) ps -> forall fuel r, (length ps <= fuel)%nat ->
  rd_positions fuel (len ps) dim VertexEncoding_Double (concat (map enc_pos ps) ++ r) = Ret (ps, r).
Proof.
  induction 1 as [|p t [Hp1 Hp2] Ht IH]; intros fuel r Hf.
  - destruct fuel; reflexivity.
  - cbn [length] in Hf. destruct fuel as [|f]; [lia|].
    cbn [rd_positions]. rewrite len_cons. rewrite leb_false by (pose proof (len_nonneg t); lia).
    cbn [map concat]. rewrite <- app_assoc. rewrite <- Hp1.
    rewrite rd_coords_enc by exact Hp2. cbn [bind].
    replace (1 + len t - 1) with (len t) by lia. rewrite Hp1.
    rewrite IH by lia. reflexivity.
Qed.

Lemma vert_chunk_ok o h st ps :
  len ps < 4294967296 -> 0 <= r_nvr st -> r_nvr st + len ps <= h_nv h -> h_nv h < 18446744073709551616 ->
  o_dim o = h_dim h -> 1 <= h_dim h ->
  Forall (pos_ok (Z.to_nat (h_dim h))) ps -> len (vert_payload (r_nvr st) ps) < max_payload ->
  read_vertices_chunk o h st (vert_payload (r_nvr st) ps) = Ret (add_verts (len ps) ps st, []).
Proof.
  intros Hlen Hr0 Hr1 Htot Hdim Hd1 Hps Hpl.
  pose proof (len_nonneg ps) as Hn0.
  unfold vert_payload in *. unfold read_vertices_chunk.
  remember (concat (map enc_pos ps)) as data eqn:Edata.
  assert (Ld : len data = len ps * (8 * h_dim h)).
  { subst data. rewrite (len_enc_positions _ _ Hps). rewrite Z2Nat.id by lia. reflexivity. }
  assert (Hsz : len ps * (8 * h_dim h) < 4611686018427387904).
  { unfold max_payload in Hpl. revert Hpl. lens. rewrite <- Ld. pose proof (len_nonneg data). zlia. }
  rewrite need_ok by (unfold ovmb_size_VertexChunkHeader; lenlia).
  cb. rewrite rd_span_app by lia. cb.
  rewrite rd_enum8_cons by reflexivity. cb.
  rewrite rd_reserved3. cb.
  change (is_valid_VertexEncoding VertexEncoding_Double) with true. cb.
  rewrite validate_span_val by lia. cb.
  change (elem_size_VertexEncoding VertexEncoding_Double) with 8.
  rewrite vert_product_small by nia.
  rewrite (eqb_true (len data)) by lia. cb.
  change (VertexEncoding_Double =? VertexEncoding_None) with false. cbv iota.
  rewrite Hdim. rewrite <- (app_nil_r data) at 2. rewrite Edata at 2.
  rewrite rd_positions_enc; [reflexivity|exact Hps|].
  assert (len ps <= len data) by nia. unfold len in *. lia.
Qed.
