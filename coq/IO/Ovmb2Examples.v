(* IO/Ovmb2Examples.v -- decision procedures for the hypotheses of the round-trip theorems (`fits`, `accepts`) and concrete
   non-trivial instances: the hypotheses are satisfiable, including with the topology check on and for a re-encoding that
   splits lists into spans, widens integers, switches the valence form, uses a handle offset and adds optional chunks. *)
From Coq Require Import String Ascii.
From Coq Require Import ZArith List Bool Lia.
From OVM Require Import Base.Int32 Gen.OvmbFormat IO.Bytes IO.OvmbWriterModel IO.OvmbReaderModel IO.OvmbSpec IO.OvmbProofs
  IO.Ovmb2Base IO.Ovmb2Chunk IO.Ovmb2Alt IO.Ovmb2Ints IO.Ovmb2Topo IO.Ovmb2Vert IO.Ovmb2Dirp IO.Ovmb2Prop IO.Ovmb2Run
  IO.Ovmb2Groups IO.Ovmb2PropGroup IO.Ovmb2Layout IO.Ovmb2Writer IO.Ovmb2Wf IO.Ovmb2RoundTrip IO.Ovmb2Small
  IO.Ovmb2SpecBase IO.Ovmb2SpecParse IO.Ovmb2SpecChunks IO.Ovmb2SpecRun IO.Ovmb2SpecLayout IO.Ovmb2SpecRoundTrip.
Import ListNotations.
Local Open Scope Z_scope.

(* ================================================================================================ fits, decided *)
Definition fitsb (dim : Z) (m : meshfile) : bool :=
  (m_nv m * (8 * dim) <? 2305843009213693952) &&
  (hsum (m_faces m) <? 576460752303423488) && (hsum (m_cells m) <? 576460752303423488) &&
  (len (m_props m) <? 4294967296) && (len (dirp_payload (written_props m)) <? max_payload) &&
  forallb (fun pt => len (encode_value (snd pt) (p_def (fst pt))) <? 4294967296) (written_props m) &&
  forallb (fun pt => len (encode_n (snd pt) (p_vals (fst pt))) <? 2305843009213693952) (written_props m).

Lemma fitsb_fits dim m : fitsb dim m = true -> fits dim m.
Proof.
  unfold fitsb. intros H.
  apply andb_true_iff in H. destruct H as [H H9]. apply andb_true_iff in H. destruct H as [H H8].
  apply andb_true_iff in H. destruct H as [H H7]. apply andb_true_iff in H. destruct H as [H H6].
  apply andb_true_iff in H. destruct H as [H H5]. apply andb_true_iff in H. destruct H as [H1 H4].
  constructor.
  - apply Z.ltb_lt. exact H1.
  - apply Z.ltb_lt. exact H4.
  - apply Z.ltb_lt. exact H5.
  - apply Z.ltb_lt. exact H6.
  - apply Z.ltb_lt. exact H7.
  - apply Forall_forallb in H8. eapply Forall_impl; [|exact H8]. intros pt Hpt. apply Z.ltb_lt. exact Hpt.
  - apply Forall_forallb in H9. eapply Forall_impl; [|exact H9]. intros pt Hpt. apply Z.ltb_lt. exact Hpt.
Qed.

(* ================================================================================================ accepts, decided *)
Definition stored_as_given (r : R (option (list Z))) (hs : list Z) : bool :=
  match r with Ret (Some hs') => list_eqb hs' hs | _ => false end.

Definition topo_reqb (topo rt rh : Z) (items : list (list Z)) : bool :=
  (negb (topo =? TopoType_Tetrahedral) || forallb (fun x => len x =? rt) items) &&
  (negb (topo =? TopoType_Hexahedral) || forallb (fun x => len x =? rh) items).

Definition acceptsb (o : opts) (dim topo : Z) (m : meshfile) : bool :=
  (o_dim o =? dim) && (1 <=? dim) && ((topo =? 0) || (topo =? 1) || (topo =? 2)) &&
  (match o_mesh o with MPoly => true | MTet => topo =? TopoType_Tetrahedral | MHex => topo =? TopoType_Hexahedral end) &&
  topo_reqb topo 3 4 (m_faces m) && topo_reqb topo 4 6 (m_cells m) &&
  forallb (fun hs => stored_as_given (mesh_add_face o (m_edges m) hs) hs) (m_faces m) &&
  forallb (fun hs => stored_as_given (mesh_add_cell o (m_edges m) (m_faces m) hs) hs) (m_cells m).

Lemma stored_as_given_eq r hs : stored_as_given r hs = true -> r = Ret (Some hs).
Proof.
  unfold stored_as_given. destruct r as [[hs'|]|? ?|?]; try discriminate. intros H. apply list_eqb_eq in H. subst. reflexivity.
Qed.

Lemma topo_reqb_req topo rt rh items : topo_reqb topo rt rh items = true -> topo_req topo rt rh items.
Proof.
  unfold topo_reqb, topo_req, valences_are. intros H. apply andb_true_iff in H. destruct H as [H1 H2].
  split; intros E; subst topo; cbn [negb orb Z.eqb Pos.eqb TopoType_Tetrahedral TopoType_Hexahedral] in *.
  - apply Forall_forallb in H1. eapply Forall_impl; [|exact H1]. intros x Hx. apply Z.eqb_eq. exact Hx.
  - apply Forall_forallb in H2. eapply Forall_impl; [|exact H2]. intros x Hx. apply Z.eqb_eq. exact Hx.
Qed.

Lemma acceptsb_accepts o dim topo m : acceptsb o dim topo m = true -> accepts o dim topo m.
Proof.
  unfold acceptsb. intros H.
  apply andb_true_iff in H. destruct H as [H H8]. apply andb_true_iff in H. destruct H as [H H7].
  apply andb_true_iff in H. destruct H as [H H6]. apply andb_true_iff in H. destruct H as [H H5].
  apply andb_true_iff in H. destruct H as [H H4]. apply andb_true_iff in H. destruct H as [H H3].
  apply andb_true_iff in H. destruct H as [H1 H2].
  constructor.
  - apply Z.eqb_eq. exact H1.
  - apply Z.leb_le. exact H2.
  - apply orb_true_iff in H3. destruct H3 as [H3|H3]; [apply orb_true_iff in H3; destruct H3 as [H3|H3]|]; apply Z.eqb_eq in H3; auto.
  - destruct (o_mesh o); [exact I|apply Z.eqb_eq; exact H4|apply Z.eqb_eq; exact H4].
  - apply topo_reqb_req. exact H5.
  - apply topo_reqb_req. exact H6.
  - apply Forall_forallb in H7. eapply Forall_impl; [|exact H7]. intros hs Hh acc. apply stored_as_given_eq. exact Hh.
  - apply Forall_forallb in H8. eapply Forall_impl; [|exact H8]. intros hs Hh acc. apply stored_as_given_eq. exact Hh.
Qed.

(* ================================================================================================ instances *)
(* the tetrahedron of IO/OvmbProofs.v (int, bool and string properties) read with the topology check on, into a polyhedral
   and into a tetrahedral mesh object *)
Example ex_tet_hyps :
  wf_file 3 ex_tet /\ fits 3 ex_tet /\ accepts ex_opts 3 1 ex_tet /\
  accepts {| o_mesh := MTet; o_check := true; o_bu := false; o_dim := 3 |} 3 1 ex_tet.
Proof.
  split; [exact ex_tet_wf|]. split; [apply fitsb_fits; vm_compute; reflexivity|].
  split; apply acceptsb_accepts; vm_compute; reflexivity.
Qed.

(* a hexahedron read into a hexahedral mesh object with the topology check on (check_halfface_ordering) *)
Example ex_hex_hyps :
  wf_file 3 ex_hex /\ fits 3 ex_hex /\ accepts {| o_mesh := MHex; o_check := true; o_bu := true; o_dim := 3 |} 3 2 ex_hex.
Proof.
  split; [vm_compute; reflexivity|]. split; [apply fitsb_fits; vm_compute; reflexivity|].
  apply acceptsb_accepts; vm_compute; reflexivity.
Qed.

(* mixed valences (faces of valence 3, 2, 1; cells of valence 0, 2, 0: variable-valence chunks), a 3f vector property *)
Example ex_mixed_hyps :
  wf_file 3 ex_mixed /\ fits 3 ex_mixed /\ accepts {| o_mesh := MPoly; o_check := false; o_bu := false; o_dim := 3 |} 3 0 ex_mixed.
Proof.
  split; [vm_compute; reflexivity|]. split; [apply fitsb_fits; vm_compute; reflexivity|].
  apply acceptsb_accepts; vm_compute; reflexivity.
Qed.

(* a richer mesh: 5 vertices, 7 edges, triangles and a quad, one cell of valence 4 and one of valence 2, seven properties over
   six entity kinds and six codecs (bool on 14 halfedges = two packed bytes, u8, i32, double, string, 3d vector, handle) *)
Definition ex_rich : meshfile :=
  {| m_nv := 5;
     m_pos := [[1; 2; 3]; [4; 5; 6]; [7; 8; 9]; [18446744073709551615; 0; 9223372036854775808]; [0; 0; 0]];
     m_edges := [(0, 1); (1, 2); (2, 0); (0, 3); (1, 3); (2, 3); (3, 4)];
     m_faces := [[0; 2; 4]; [0; 8; 7]; [2; 10; 9]; [4; 6; 11]; [0; 2; 10; 7]];
     m_cells := [[1; 2; 4; 6]; [0; 9]];
     m_props := [ {| p_ent := 4; p_name := [104; 101]; p_tname := bytes_of_string "b"; p_def := [1];
                     p_vals := [[1]; [0]; [1]; [1]; [0]; [0]; [0]; [0]; [0]; [1]; [0]; [1]; [1]; [1]] |};
                  {| p_ent := 0; p_name := [118]; p_tname := bytes_of_string "u8"; p_def := [9];
                     p_vals := [[1]; [2]; [3]; [255]; [0]] |};
                  {| p_ent := 1; p_name := [101]; p_tname := bytes_of_string "i32"; p_def := [7; 0; 0; 0];
                     p_vals := repeat [255; 255; 255; 255] 7 |};
                  {| p_ent := 2; p_name := [102]; p_tname := bytes_of_string "d"; p_def := repeat 0 8;
                     p_vals := repeat [0; 0; 0; 0; 0; 0; 240; 63] 5 |};
                  {| p_ent := 6; p_name := [109]; p_tname := bytes_of_string "s32"; p_def := [120];
                     p_vals := [[104; 101; 108; 108; 111]] |};
                  {| p_ent := 3; p_name := [99]; p_tname := bytes_of_string "3d"; p_def := repeat 0 24;
                     p_vals := [repeat 1 24; repeat 2 24] |};
                  {| p_ent := 5; p_name := [104; 102]; p_tname := bytes_of_string "vh"; p_def := [255; 255; 255; 255];
                     p_vals := repeat [3; 0; 0; 0] 10 |} ] |}.

Definition ex_rich_opts : opts := {| o_mesh := MPoly; o_check := false; o_bu := true; o_dim := 3 |}.

Example ex_rich_hyps : wf_file 3 ex_rich /\ fits 3 ex_rich /\ accepts ex_rich_opts 3 0 ex_rich.
Proof.
  split; [vm_compute; reflexivity|]. split; [apply fitsb_fits; vm_compute; reflexivity|].
  apply acceptsb_accepts; vm_compute; reflexivity.
Qed.

(* the theorem's conclusion on it, by evaluation (independent of the proof) *)
Example ex_rich_roundtrip_eval : decode_impl ex_rich_opts (encode 3 0 ex_rich) = ROk ex_rich.
Proof. vm_compute. reflexivity. Qed.

(* ================================================================================================ a re-encoding *)
(* ex_rich laid out differently: positions in two VERT chunks; edges in two chunks of width U16 and U32; faces in a
   fixed-valence U32 chunk and a variable-valence chunk; cells in a variable-valence chunk with handle offset 1 (where the
   writer would use the fixed form) and a fixed-valence chunk; every property in three PROP chunks (5 elements, none, the
   rest - the bool property split off a byte boundary); three optional chunks of unknown types *)
Definition ex_alt : layout :=
  {| L_vert := [firstn 2 (m_pos ex_rich); skipn 2 (m_pos ex_rich)];
     L_edge := [ {| es_henc := 2; es_off := 0; es_items := firstn 3 (m_edges ex_rich) |};
                 {| es_henc := 4; es_off := 0; es_items := skipn 3 (m_edges ex_rich) |} ];
     L_face := [ {| ps_form := PFixed 3; ps_henc := 4; ps_off := 0; ps_items := firstn 2 (m_faces ex_rich) |};
                 {| ps_form := PVar 2; ps_henc := 1; ps_off := 0; ps_items := skipn 2 (m_faces ex_rich) |} ];
     L_cell := [ {| ps_form := PVar 4; ps_henc := 2; ps_off := 1; ps_items := [[1; 2; 4; 6]] |};
                 {| ps_form := PFixed 2; ps_henc := 1; ps_off := 0; ps_items := [[0; 9]] |} ];
     L_prop := map (fun pt => [firstn 5 (p_vals (fst pt)); []; skipn 5 (p_vals (fst pt))]) (written_props ex_rich);
     L_skip := fun i => match i with 0%nat => [(305419896, [1; 2; 3])] | 6%nat => [(1, []); (2, [9])] | _ => [] end |}.

Ltac dec_all :=
  repeat (apply Forall_cons || apply Forall_nil || apply Forall2_cons || apply Forall2_nil || split);
  try (vm_compute; intuition (discriminate || lia || reflexivity || idtac)).

Example ex_alt_ok : layout_ok 3 ex_rich (written_props ex_rich) ex_alt.
Proof.
  constructor.
  - vm_compute. reflexivity.
  - dec_all.
  - vm_compute. reflexivity.
  - dec_all.
  - vm_compute. reflexivity.
  - dec_all.
  - vm_compute. reflexivity.
  - dec_all.
  - dec_all.
  - intros i. destruct i as [|[|[|[|[|[|[|i]]]]]]]; dec_all.
Qed.

Example ex_alt_decodes :
  decode_impl ex_rich_opts (alt_file 3 0 ex_rich (layout_chunks (written_props ex_rich) ex_alt)) = ROk ex_rich.
Proof. vm_compute. reflexivity. Qed.

(* the writer's file has 984 bytes, this one 1728; the published description reads it to the same mesh as well *)
Example ex_alt_spec :
  decode_spec 3 (alt_file 3 0 ex_rich (layout_chunks (written_props ex_rich) ex_alt)) = Some ex_rich.
Proof. vm_compute. reflexivity. Qed.

(* ================================================================================================ more hypotheses *)
Example ex_rich_stopo : stopo_ok 0 ex_rich /\ stopo_ok 1 ex_tet /\ stopo_ok 2 ex_hex.
Proof.
  repeat split; try (left; reflexivity); try (right; left; reflexivity); try (right; right; reflexivity);
    try (intros E; discriminate E); intros _; unfold valences_are; repeat constructor.
Qed.

Example ex_rich_bounded : bounded 3 0 ex_rich /\ bounded 3 1 ex_tet.
Proof. split; constructor; try lia; vm_compute; reflexivity. Qed.
