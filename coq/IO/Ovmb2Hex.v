(* IO/Ovmb2Hex.v -- the hexahedral re-ordering witness.  An earlier state of the reader model lacked the two checks that
   HexahedralMeshTopologyKernel::add_cell performs after its re-ordering attempt (every slot is_valid(), second
   check_halfface_ordering); there this file read Ok with a cell holding InvalidHalfFaceHandle.  Model and library now agree:
   the file is refused (and C07_valid, IO/OvmbProofs.v: ok_mesh_valid, holds for every configuration).  The file is part of
   the corpus of lib/checks_ovmb.py. *)
From Coq Require Import ZArith List Bool Lia.
From OVM Require Import Base.Int32 Gen.OvmbFormat IO.Bytes IO.OvmbWriterModel IO.OvmbReaderModel IO.OvmbProofs.
Import ListNotations.
Local Open Scope Z_scope.

Definition hex_check_opts : opts := {| o_mesh := MHex; o_check := true; o_bu := true; o_dim := 3 |}.

(* the cube of ex_hex with one cell that lists halfface 0 where halfface 1 belongs *)
Definition ex_hexbad : meshfile :=
  {| m_nv := m_nv ex_hex; m_pos := m_pos ex_hex; m_edges := m_edges ex_hex; m_faces := m_faces ex_hex;
     m_cells := [[5; 0; 3; 7; 9; 11]]; m_props := [] |}.

(* the re-ordering attempt yields a list with an invalid slot ... *)
Example hexbad_reorder : hex_reorder (m_faces ex_hex) [5; 0; 3; 7; 9; 11] = Ret (Some [5; 7; 9; 11; 3; -1]).
Proof. vm_compute. reflexivity. Qed.

(* ... which add_cell refuses, so the reader refuses the file *)
Example hexbad_rejected :
  mesh_add_cell hex_check_opts (m_edges ex_hex) (m_faces ex_hex) [5; 0; 3; 7; 9; 11] = Ret None /\
  decode_impl hex_check_opts (encode 3 2 ex_hexbad) = RErr RR_InvalidFile S_ErrorInvalidFile.
Proof. split; vm_compute; reflexivity. Qed.

(* a cell whose halffaces are given in an order that needs re-ordering and can be re-ordered is still read *)
Example hex_reordered_read :
  exists c, decode_impl hex_check_opts (encode 3 2 {| m_nv := m_nv ex_hex; m_pos := m_pos ex_hex; m_edges := m_edges ex_hex;
                                                      m_faces := m_faces ex_hex; m_cells := [[0; 2; 8; 10; 4; 6]]; m_props := [] |})
            = ROk {| m_nv := m_nv ex_hex; m_pos := m_pos ex_hex; m_edges := m_edges ex_hex; m_faces := m_faces ex_hex;
                     m_cells := [c]; m_props := [] |} /\ c <> [0; 2; 8; 10; 4; 6].
Proof. eexists. split; [vm_compute; reflexivity|discriminate]. Qed.
